import PgBifrost.Proofs.ClientC07
import PgBifrost.Proofs.Decimal
/-! C07 under the PG-stream grammar: stamp attribution, unique keys, one COMMIT per key. -/
namespace PgBifrost.ClientProofs
open PgBifrost.Client PgBifrost.Spec.Client

theorem gram_cons {g : GState} {hi : Nat} {e : Ev} {as : List Action} {r : Hist}
    (h : gramAux g hi ((e, as) :: r) = true) :
    ∃ g' hi', gramStep g hi e as = some (g', hi') ∧ gramAux g' hi' r = true := by
  rw [gramAux] at h
  split at h
  · exact ⟨_, _, by assumption, h⟩
  · cases h

theorem hasExit_acts_cons {e : Ev} {as : List Action} {r : Hist}
    (h : hasExit (acts ((e, as) :: r)) = false) : hasExit as = false ∧ hasExit (acts r) = false := by
  rw [acts_cons, hasExit_append, Bool.or_eq_false_iff] at h; exact h

theorem gramStep_commit {g : GState} {hi : Nat} {f : List Nat} {l : Nat} {x : String} {n : Nat}
    {b : List (List Nat)} {t : Bool} {as : List Action} {g' : GState} {hi' : Nat}
    (h : gramStep g hi ⟨f, .data l (.commit x) n b, t⟩ as = some (g', hi')) :
    g = .inTxn x ∧ g' = .idle := by
  cases g with
  | idle => simp [gramStep] at h
  | inTxn y =>
    simp only [gramStep] at h
    by_cases hc : x = y
    · simp only [hc, ↓reduceIte] at h
      subst hc
      by_cases hcl : hasClose as = true <;> simp [hcl] at h <;> exact ⟨rfl, h.1.symm⟩
    · simp [hc] at h

theorem gramStep_change {g : GState} {hi : Nat} {f : List Nat} {l : Nat} {n : Nat}
    {b : List (List Nat)} {t : Bool} {as : List Action} {g' : GState} {hi' : Nat}
    (h : gramStep g hi ⟨f, .data l .change n b, t⟩ as = some (g', hi')) :
    ∃ y, g = .inTxn y ∧ g' = if hasClose as then .idle else g := by
  cases g with
  | idle => simp [gramStep] at h
  | inTxn y =>
    simp only [gramStep] at h
    by_cases hcl : hasClose as = true <;> simp [hcl] at h <;> exact ⟨y, rfl, by simp [hcl, h.1]⟩

theorem gramStep_begin {g : GState} {hi : Nat} {f : List Nat} {l : Nat} {x : String} {n : Nat}
    {b : List (List Nat)} {t : Bool} {as : List Action} {g' : GState} {hi' : Nat}
    (h : gramStep g hi ⟨f, .data l (.begin x) n b, t⟩ as = some (g', hi')) :
    g' = if hasClose as then .idle else .inTxn x := by
  simp only [gramStep] at h
  by_cases hd : digits x = true
  · by_cases hcl : hasClose as = true <;> simp [hd, hcl] at h <;> simp [hcl, h.1]
  · simp [hd] at h


theorem gramStep_neutral {g : GState} {hi : Nat} {e : Ev} {as : List Action} {g' : GState} {hi' : Nat}
    (hm : (match e.msg with | .keepalive .. | .nil | .timeout | .skip => true | _ => false) = true)
    (h : gramStep g hi e as = some (g', hi')) : g' = if hasClose as then .idle else g := by
  obtain ⟨f, m, t⟩ := e
  cases m <;> simp at hm <;> simp only [gramStep] at h <;>
    (by_cases hcl : hasClose as = true <;> simp [hcl] at h <;> simp [hcl, h.1])

theorem gramStep_reset {g : GState} {hi : Nat} {e : Ev} {as : List Action} {g' : GState} {hi' : Nat}
    (hm : (match e.msg with | .closedErr | .errorResponse _ => true | _ => false) = true)
    (h : gramStep g hi e as = some (g', hi')) : g' = .idle := by
  obtain ⟨f, m, t⟩ := e
  cases m <;> simp at hm <;> simp only [gramStep] at h <;>
    (by_cases hcl : hasClose as = true <;> simp [hcl] at h <;> simp [h.1])

theorem gramStep_bad {g : GState} {hi : Nat} {e : Ev} {as : List Action}
    (hm : (match e.msg with
      | .data _ .unparsable _ _ | .data _ .parseError _ _ | .kabad | .fatalErr | .unexpected | .copyEmpty => true
      | _ => false) = true) : gramStep g hi e as = none := by
  obtain ⟨f, m, t⟩ := e
  cases m <;> simp at hm <;> try (simp [gramStep])
  rename_i l p n b
  cases p <;> simp at hm <;> simp [gramStep]

/-- invariant: inside a transaction of the stream the client's stamp is the latest forwarded BEGIN's -/
def StampInv (s : State) (g : GState) (cur : String × Key) : Prop :=
  ∀ x, g = .inTxn x → (s.txn, s.key) = cur

theorem stamp_from (v : Variant) (evs : List Ev) (s : State) (g : GState) (hi : Nat) (cur : String × Key)
    (hr : s.phase = .running) (hJ : StampInv s g cur)
    (hg : gramAux g hi (histFrom v s evs) = true)
    (hne : hasExit (acts (histFrom v s evs)) = false) :
    stampAux cur (histFrom v s evs) = true := by
  induction evs generalizing s g hi cur with
  | nil => rfl
  | cons e r ih =>
    rw [histFrom_cons] at hg hne ⊢
    obtain ⟨g', hi', hstep, hg'⟩ := gram_cons hg
    obtain ⟨hne1, hne2⟩ := hasExit_acts_cons hne
    obtain ⟨hf, hx | ⟨_, hrun, hcl, htxn, hkey, _, _⟩⟩ := step_frame v s e hr
    · rw [hx.1] at hne1; cases hne1
    · rw [stampAux]
      obtain ⟨feed, msg, tick⟩ := e
      cases msg with
      | data lsn p nanos blocks =>
        cases p with
        | begin x =>
          have hg2 := gramStep_begin hstep
          simp only [hf, fwdsExp]
          simp only [hcl, closeExp] at hg2
          by_cases hd : beginDropped s = true
          · simp only [hd, ↓reduceIte]
            refine ih _ g' hi' cur hrun ?_ hg' hne2
            simp only [hd, ↓reduceIte] at hg2
            intro y hy; rw [hg2] at hy; cases hy
          · simp only [hd, Bool.false_eq_true, ↓reduceIte, beq_self_eq_true, Bool.true_and]
            refine ih _ g' hi' _ hrun ?_ hg' hne2
            intro y _
            rw [htxn, hkey]; simp [txnExp, keyExp, hd]
        | commit x =>
          obtain ⟨rfl, rfl⟩ := gramStep_commit hstep
          have hc := hJ x rfl
          simp only [hf, fwdsExp, hc, beq_self_eq_true, Bool.true_and]
          refine ih _ _ hi' cur hrun ?_ hg' hne2
          intro z hz; cases hz
        | change =>
          obtain ⟨y, rfl, hg2⟩ := gramStep_change hstep
          have hc := hJ y rfl
          simp only [hf, fwdsExp, hc, beq_self_eq_true, Bool.true_and]
          refine ih _ g' hi' cur hrun ?_ hg' hne2
          intro z _; rw [htxn, hkey]; simpa [txnExp, keyExp] using hc
        | unparsable => rw [gramStep_bad rfl] at hstep; cases hstep
        | parseError => rw [gramStep_bad rfl] at hstep; cases hstep
      | errorResponse pos =>
        simp only
        refine ih _ g' hi' cur hrun ?_ hg' hne2
        rw [gramStep_reset rfl hstep]; intro z hz; cases hz
      | closedErr =>
        simp only [hf, fwdsExp, List.isEmpty_nil, Bool.true_and]
        refine ih _ g' hi' cur hrun ?_ hg' hne2
        rw [gramStep_reset rfl hstep]; intro z hz; cases hz
      | keepalive reply w el =>
        simp only [hf, fwdsExp, List.isEmpty_nil, Bool.true_and]
        refine ih _ g' hi' cur hrun ?_ hg' hne2
        have hg2 := gramStep_neutral rfl hstep
        simp only [hcl, closeExp, Bool.false_eq_true, ↓reduceIte] at hg2
        rw [hg2]; intro z hz; rw [htxn, hkey]; exact hJ z hz
      | nil | timeout | skip =>
        simp only [hf, fwdsExp, List.isEmpty_nil, Bool.true_and]
        refine ih _ g' hi' cur hrun ?_ hg' hne2
        have hg2 := gramStep_neutral rfl hstep
        simp only [hcl, closeExp, Bool.false_eq_true, ↓reduceIte] at hg2
        rw [hg2]; intro z hz; rw [htxn, hkey]; exact hJ z hz
      | kabad | fatalErr | unexpected | copyEmpty => rw [gramStep_bad rfl] at hstep; cases hstep

theorem stamp_hist (v : Variant) (evs : List Ev) (hg : pgGrammar (hist v evs) = true) :
    c07Stamp (hist v evs) = true := by
  unfold hist at hg ⊢
  cases evs with
  | nil => rfl
  | cons e r =>
    rw [histFrom_cons] at hg ⊢
    rw [pgGrammar] at hg
    simp only [Bool.and_eq_true, Bool.not_eq_true'] at hg
    obtain ⟨⟨⟨hka, hne1⟩, hgr⟩, hne2⟩ := hg
    rcases step_first_cases v start.1 e rfl with ⟨_, _, _, _, hx⟩ | ⟨w, _, heq⟩
    · rw [hx] at hne1; cases hne1
    · rw [c07Stamp, stampAux]
      obtain ⟨feed, msg, tick⟩ := e
      cases msg with
      | keepalive rp wE el =>
        have hfw : fwdsOf (step v start.1 ⟨feed, .keepalive rp wE el, tick⟩).2 = [] := by rw [heq]; simp
        simp only [hfw, List.isEmpty_nil, Bool.true_and]
        exact stamp_from v r _ .idle 0 _ (by rw [heq]; simp) (by intro z hz; cases hz) hgr hne2
      | _ => simp at hka

/-! ## unique keys -/

/-- the (transaction id, clock reading) of every BEGIN the environment delivers -/
def beginStamps (evs : List Ev) : List (String × Nat) :=
  evs.filterMap fun e => match e.msg with
    | .data _ (.begin x) n _ => some (x, n)
    | _ => none

theorem distinct_iff (l : List String) : distinct l = true ↔ l.Pairwise (· ≠ ·) := by
  induction l with
  | nil => simp [distinct]
  | cons a r ih =>
    simp only [distinct, Bool.and_eq_true, Bool.not_eq_true', List.contains_eq_mem,
      decide_eq_false_iff_not, List.pairwise_cons, ih]
    constructor
    · rintro ⟨h1, h2⟩; exact ⟨fun b hb hab => h1 (hab ▸ hb), h2⟩
    · rintro ⟨h1, h2⟩; exact ⟨fun hm => h1 a hm rfl, h2⟩

@[simp] theorem beginKeys_append (a b : List Action) : beginKeys (a ++ b) = beginKeys a ++ beginKeys b := by
  simp [beginKeys, List.filterMap_append]
@[simp] theorem commitKeys_append (a b : List Action) : commitKeys (a ++ b) = commitKeys a ++ commitKeys b := by
  simp [commitKeys, List.filterMap_append]

theorem fwdsOf_recoveryFwd_commit (v : Variant) (s : State) :
    ∀ p ∈ fwdsOf (recoveryFwd v s), p.1 = Op.commit := by
  cases v <;> simp [recoveryFwd] <;> split <;> simp <;> (intros; assumption)

/-- BEGIN keys forwarded by one step -/
theorem step_beginKeys (v : Variant) (s : State) (e : Ev) (hr : s.phase = .running) :
    beginKeys (step v s e).2 =
      match e.msg with
      | .data _ (.begin x) n _ => if beginDropped s then [] else [renderKey (some (x, n))]
      | _ => [] := by
  rw [beginKeys, (step_frame v s e hr).1]
  obtain ⟨feed, msg, tick⟩ := e
  cases msg with
  | data lsn p nanos blocks =>
    cases p <;> simp [fwdsExp]
    split <;> simp
  | errorResponse pos =>
    simp only [fwdsExp]
    rw [List.filterMap_eq_nil_iff]
    intro p hp
    have := fwdsOf_recoveryFwd_commit v s p hp
    obtain ⟨o, t, k, l⟩ := p
    simp only at this; subst this; rfl
  | _ => simp [fwdsExp]

theorem beginKeys_sublist_from (v : Variant) (evs : List Ev) (s : State) (hp : s.phase ≠ .first) :
    (beginKeys (acts (histFrom v s evs))).Sublist ((beginStamps evs).map fun p => renderKey (some p)) := by
  induction evs generalizing s with
  | nil => simp [histFrom, acts, beginKeys, fwdsOf]
  | cons e r ih =>
    rw [histFrom_cons, acts_cons, beginKeys_append]
    cases hph : s.phase with
    | first => exact absurd hph hp
    | exited =>
      rw [step_exited v s e hph]
      have := ih s hp
      simp only [beginKeys, fwdsOf, List.filterMap_nil, List.nil_append] at this ⊢
      refine this.trans ?_
      simp only [beginStamps, List.filterMap_cons]
      split <;> simp
    | running =>
      have hp' : (step v s e).1.phase ≠ .first := by
        rcases step_phase v s e hph with h | h <;> rw [h] <;> simp
      have ih' := ih _ hp'
      rw [step_beginKeys v s e hph]
      obtain ⟨feed, msg, tick⟩ := e
      cases msg with
      | data lsn p nanos blocks =>
        cases p with
        | begin x =>
          simp only [beginStamps, List.filterMap_cons, List.map_cons]
          by_cases hd : beginDropped s = true
          · simp only [hd, ↓reduceIte, List.nil_append]; exact ih'.cons _
          · simp only [hd, Bool.false_eq_true, ↓reduceIte, List.singleton_append]
            exact ih'.cons₂ _
        | _ => simpa [beginStamps] using ih'
      | _ => simpa [beginStamps] using ih'

theorem beginKeys_sublist (v : Variant) (evs : List Ev) :
    (beginKeys (acts (hist v evs))).Sublist ((beginStamps evs).map fun p => renderKey (some p)) := by
  unfold hist
  cases evs with
  | nil => simp [histFrom, acts, beginKeys, fwdsOf]
  | cons e r =>
    rw [histFrom_cons, acts_cons, beginKeys_append]
    have hfw : fwdsOf (step v start.1 e).2 = [] := by
      rcases step_first_cases v start.1 e rfl with ⟨_, _, _, h, _⟩ | ⟨w, _, heq⟩
      · exact h
      · rw [heq]; simp
    have hp' : (step v start.1 e).1.phase ≠ .first := by
      rcases step_first_cases v start.1 e rfl with ⟨h, _⟩ | ⟨w, _, heq⟩
      · rw [h]; simp
      · rw [heq]; simp
    have := beginKeys_sublist_from v r _ hp'
    simp only [beginKeys, hfw, List.filterMap_nil, List.nil_append] at this ⊢
    refine this.trans ?_
    simp only [beginStamps, List.filterMap_cons]
    split <;> simp

/-- Clock hypothesis of DESIGN §3: readings used for delivery keys are strictly increasing across
BEGINs of the same transaction id -/
def ClockStrictPerTxn (evs : List Ev) : Prop :=
  (beginStamps evs).Pairwise fun a b => a.1 = b.1 → a.2 < b.2

/-- transaction ids contain no '-' (PG-stream: they are non-empty digit strings) -/
def TxnIdsNoDash (evs : List Ev) : Prop := ∀ p ∈ beginStamps evs, '-' ∉ p.1.toList

theorem noDash_of_digits {x : String} (h : digits x = true) : '-' ∉ x.toList := by
  simp only [digits, Bool.and_eq_true, List.all_eq_true] at h
  intro hm
  exact Decimal.dash_not_digit (h.2 _ hm) rfl

theorem renderKey_some (t : String) (n : Nat) : renderKey (some (t, n)) = t ++ "-" ++ toString n := rfl

theorem stamps_render_distinct (evs : List Ev) (hc : ClockStrictPerTxn evs) (hd : TxnIdsNoDash evs) :
    ((beginStamps evs).map fun p => renderKey (some p)).Pairwise (· ≠ ·) := by
  rw [List.pairwise_map]
  refine (List.Pairwise.and_mem.mp hc).imp ?_
  rintro ⟨t, n⟩ ⟨t', n'⟩ ⟨ha, hb, hlt⟩ heq
  rw [renderKey_some, renderKey_some] at heq
  obtain ⟨rfl, rfl⟩ := Decimal.key_inj (hd _ ha) (hd _ hb) heq
  exact Nat.lt_irrefl _ (hlt rfl)

theorem keysUnique_hist (v : Variant) (evs : List Ev) (hc : ClockStrictPerTxn evs) (hd : TxnIdsNoDash evs) :
    c07KeysUnique (hist v evs) = true := by
  rw [c07KeysUnique, distinct_iff]
  exact (stamps_render_distinct evs hc hd).sublist (beginKeys_sublist v evs)

/-! ## at most one COMMIT per key (no error responses) -/

theorem step_commitKeys (v : Variant) (s : State) (e : Ev) (hr : s.phase = .running) :
    commitKeys (step v s e).2 =
      match e.msg with
      | .data _ (.commit _) _ _ => [renderKey s.key]
      | .errorResponse _ => commitKeys (recoveryFwd v s)
      | _ => [] := by
  rw [commitKeys, (step_frame v s e hr).1]
  obtain ⟨feed, msg, tick⟩ := e
  cases msg with
  | data lsn p nanos blocks =>
    cases p <;> simp [fwdsExp]
    all_goals (try (split <;> simp))
  | errorResponse pos => simp [fwdsExp, commitKeys]
  | _ => simp [fwdsExp]

def pendingKey (g : GState) (cur : String × Key) : List String :=
  match g with
  | .inTxn _ => [renderKey cur.2]
  | .idle => []

theorem noErr_cons {e : Ev} {as : List Action} {r : Hist} (h : noErrorResponse ((e, as) :: r) = true) :
    isErrResp e = false ∧ noErrorResponse r = true := by
  simpa [noErrorResponse] using h

theorem commit_sublist_from (v : Variant) (evs : List Ev) (s : State) (g : GState) (hi : Nat)
    (cur : String × Key) (hr : s.phase = .running) (hJ : StampInv s g cur)
    (hg : gramAux g hi (histFrom v s evs) = true)
    (hne : hasExit (acts (histFrom v s evs)) = false)
    (hnoerr : noErrorResponse (histFrom v s evs) = true) :
    (commitKeys (acts (histFrom v s evs))).Sublist
      (pendingKey g cur ++ beginKeys (acts (histFrom v s evs))) := by
  induction evs generalizing s g hi cur with
  | nil => simp [histFrom, acts, commitKeys, fwdsOf]
  | cons e r ih =>
    rw [histFrom_cons] at hg hne hnoerr ⊢
    obtain ⟨g', hi', hstep, hg'⟩ := gram_cons hg
    obtain ⟨hne1, hne2⟩ := hasExit_acts_cons hne
    obtain ⟨hnoe1, hnoe2⟩ := noErr_cons hnoerr
    obtain ⟨hf, hx | ⟨_, hrun, hcl, htxn, hkey, _, _⟩⟩ := step_frame v s e hr
    · rw [hx.1] at hne1; cases hne1
    · rw [acts_cons, commitKeys_append, beginKeys_append, step_commitKeys v s e hr,
        step_beginKeys v s e hr]
      obtain ⟨feed, msg, tick⟩ := e
      -- weakening used by most cases
      have weaken : ∀ (pre : List String) (ck bk : List String), ck.Sublist bk → ck.Sublist (pre ++ bk) :=
        fun pre ck bk h => h.trans (List.sublist_append_right _ _)
      cases msg with
      | data lsn p nanos blocks =>
        cases p with
        | begin x =>
          have hg2 := gramStep_begin hstep
          simp only [hcl, closeExp] at hg2
          by_cases hd : beginDropped s = true
          · simp only [hd, ↓reduceIte, List.nil_append] at hg2 ⊢
            have := ih _ g' hi' cur hrun (by rw [hg2]; intro y hy; cases hy) hg' hne2 hnoe2
            rw [hg2] at this
            exact weaken _ _ _ (by simpa [pendingKey] using this)
          · simp only [hd, Bool.false_eq_true, ↓reduceIte, List.nil_append] at hg2 ⊢
            have := ih _ g' hi' (x, some (x, nanos)) hrun
              (by intro y _; rw [htxn, hkey]; simp [txnExp, keyExp, hd]) hg' hne2 hnoe2
            rw [hg2] at this
            exact weaken _ _ _ (by simpa [pendingKey] using this)
        | commit x =>
          obtain ⟨rfl, rfl⟩ := gramStep_commit hstep
          have hc := hJ x rfl
          have := ih _ .idle hi' cur hrun (by intro z hz; cases hz) hg' hne2 hnoe2
          simp only [pendingKey, List.nil_append] at this ⊢
          have hk : s.key = cur.2 := by rw [← hc]
          rw [hk]
          simpa using this
        | change =>
          obtain ⟨y, rfl, hg2⟩ := gramStep_change hstep
          have hc := hJ y rfl
          simp only [hcl, closeExp, Bool.false_eq_true, ↓reduceIte] at hg2
          have := ih _ g' hi' cur hrun
            (by intro z _; rw [htxn, hkey]; simpa [txnExp, keyExp] using hc) hg' hne2 hnoe2
          rw [hg2] at this
          simpa using this
        | unparsable => rw [gramStep_bad rfl] at hstep; cases hstep
        | parseError => rw [gramStep_bad rfl] at hstep; cases hstep
      | errorResponse pos => simp [isErrResp] at hnoe1
      | closedErr =>
        have := ih _ g' hi' cur hrun
          (by rw [gramStep_reset rfl hstep]; intro z hz; cases hz) hg' hne2 hnoe2
        rw [gramStep_reset rfl hstep] at this
        exact weaken _ _ _ (by simpa [pendingKey] using this)
      | keepalive reply w el =>
        have hg2 := gramStep_neutral rfl hstep
        simp only [hcl, closeExp, Bool.false_eq_true, ↓reduceIte] at hg2
        have := ih _ g' hi' cur hrun
          (by rw [hg2]; intro z hz; rw [htxn, hkey]; exact hJ z hz) hg' hne2 hnoe2
        rw [hg2] at this
        simpa using this
      | nil | timeout | skip =>
        have hg2 := gramStep_neutral rfl hstep
        simp only [hcl, closeExp, Bool.false_eq_true, ↓reduceIte] at hg2
        have := ih _ g' hi' cur hrun
          (by rw [hg2]; intro z hz; rw [htxn, hkey]; exact hJ z hz) hg' hne2 hnoe2
        rw [hg2] at this
        simpa using this
      | kabad | fatalErr | unexpected | copyEmpty => rw [gramStep_bad rfl] at hstep; cases hstep

theorem oneCommit_hist (v : Variant) (evs : List Ev) (hg : pgGrammar (hist v evs) = true)
    (hc : ClockStrictPerTxn evs) (hd : TxnIdsNoDash evs) : c07OneCommit (hist v evs) = true := by
  rw [c07OneCommit]
  by_cases hno : noErrorResponse (hist v evs) = true
  · simp only [hno, Bool.not_true, Bool.false_or]
    rw [distinct_iff]
    have hb : (beginKeys (acts (hist v evs))).Pairwise (· ≠ ·) :=
      (stamps_render_distinct evs hc hd).sublist (beginKeys_sublist v evs)
    refine hb.sublist ?_
    unfold hist at hg hno ⊢
    cases evs with
    | nil => simp [histFrom, acts, commitKeys, fwdsOf]
    | cons e r =>
      rw [histFrom_cons] at hg hno ⊢
      rw [pgGrammar] at hg
      simp only [Bool.and_eq_true, Bool.not_eq_true'] at hg
      obtain ⟨⟨⟨hka, hne1⟩, hgr⟩, hne2⟩ := hg
      rcases step_first_cases v start.1 e rfl with ⟨_, _, _, _, hx⟩ | ⟨w, _, heq⟩
      · rw [hx] at hne1; cases hne1
      · have hfw : fwdsOf (step v start.1 e).2 = [] := by rw [heq]; simp
        have := commit_sublist_from v r (step v start.1 e).1 .idle 0 ("", none) (by rw [heq]; simp)
          (by intro z hz; cases hz) hgr hne2 (noErr_cons hno).2
        rw [acts_cons, commitKeys_append, beginKeys_append]
        simpa [commitKeys, beginKeys, hfw, pendingKey] using this
  · simp [hno]

end PgBifrost.ClientProofs
