import PgBifrost.Proofs.BatcherAccounting
/-!
# Seen before dispatch, at the level of the event log (ledger contract clause E3)

Once a COMMIT has been processed, every dispatch / self-report emitted from then on is preceded in
the log by a `.seen` event carrying that COMMIT's entry.
-/
namespace PgBifrost.Batcher
open PgBifrost.Batch

def isSend : Ev → Bool
  | .dispatch _ _ => true
  | .selfReport _ => true
  | _ => false

/-- every dispatch / self-report in `ev` is preceded, within `ev`, by a `.seen` carrying `x` -/
def SendsAfter (x : SeenE) (ev : List Ev) : Prop :=
  ∀ (r1 : List Ev) (d : Ev) (r2 : List Ev), ev = r1 ++ d :: r2 → isSend d = true → x ∈ seenEntries r1

theorem sendsAfter_of_no_send {x : SeenE} {ev : List Ev} (h : ∀ e ∈ ev, isSend e = false) : SendsAfter x ev := by
  intro r1 d r2 he hd
  have := h d (by rw [he]; simp)
  rw [hd] at this; cases this

theorem sendsAfter_append {x : SeenE} {e1 e2 : List Ev} (h1 : SendsAfter x e1)
    (h2 : x ∈ seenEntries e1 ∨ SendsAfter x e2) : SendsAfter x (e1 ++ e2) := by
  intro r1 d r2 he hd
  rw [List.append_eq_append_iff] at he
  rcases he with ⟨a', ha, hb⟩ | ⟨c', ha, hb⟩
  · rw [ha, seenEntries_append]
    rcases h2 with h2 | h2
    · exact List.mem_append_left _ h2
    · exact List.mem_append_right _ (h2 a' d r2 hb hd)
  · cases c' with
    | nil =>
      simp at ha hb
      subst ha
      rcases h2 with h2 | h2
      · exact h2
      · have := h2 [] d r2 (by simpa using hb.symm) hd
        simp [seenEntries] at this
    | cons c0 cr =>
      simp at hb
      obtain ⟨hc0, _⟩ := hb
      subst hc0
      exact h1 r1 d cr ha hd

/-- all entries pending in `s` are handed over before any send in `ev` -/
def Ordered (s : State) (ev : List Ev) : Prop := ∀ x ∈ s.seenList, SendsAfter x ev

/-- `SeenFrame` plus `Ordered` -/
structure OFrame (s : State) (ev : List Ev) (s' : State) : Prop where
  frame : SeenFrame s ev s'
  ordered : Ordered s ev

theorem OFrame.trans {s s1 s2 : State} {e1 e2 : List Ev} (h1 : OFrame s e1 s1) (h2 : OFrame s1 e2 s2) :
    OFrame s (e1 ++ e2) s2 := by
  refine ⟨h1.frame.trans h2.frame, fun x hx => ?_⟩
  have hx0 := hx
  rw [← h1.frame.seen] at hx0
  rcases List.mem_append.mp hx0 with hx' | hx'
  · exact sendsAfter_append (h1.ordered x hx) (Or.inl hx')
  · exact sendsAfter_append (h1.ordered x hx) (Or.inr (h2.ordered x hx'))

theorem oframe_of_no_send {s s' : State} {ev : List Ev} (hf : SeenFrame s ev s') (h : ∀ e ∈ ev, isSend e = false) :
    OFrame s ev s' := ⟨hf, fun _ _ => sendsAfter_of_no_send h⟩

theorem oframe_sendBatch (cfg : Cfg) (s : State) (b : Batch) :
    OFrame s (sendBatch cfg s b).2 (sendBatch cfg s b).1 := by
  refine ⟨seenFrame_sendBatch cfg s b, fun x hx => ?_⟩
  rw [sendBatch_eq]
  have h1 : (flushSeen s).2 = [.seen s.seenList] := by
    unfold flushSeen
    have : s.seenList.isEmpty = false := by cases h : s.seenList <;> simp_all
    simp [this]
  rw [h1]
  apply sendsAfter_append
  · exact sendsAfter_of_no_send (by intro e he; simp at he; subst he; rfl)
  · left; simpa [seenEntries, seenOf] using hx

theorem oframe_addToBatch (K : Kind) (cfg : Cfg) : ∀ (fuel : Nat) (s : State) (b : Batch) (m : Msg),
    OFrame s (addToBatch K cfg fuel s b m).2.2.1 (addToBatch K cfg fuel s b m).1 := by
  intro fuel
  induction fuel with
  | zero => intro s b m; exact oframe_of_no_send (seenFrame_fatal s) (by intro e he; simp [addToBatch] at he; subst he; rfl)
  | succ f ih =>
    intro s b m
    cases hadd : K.add b m with
    | mk r b' =>
      cases r with
      | ok => rw [addToBatch_ok cfg f s hadd]; exact oframe_of_no_send (SeenFrame.refl s) (by simp)
      | tooBig =>
        rw [addToBatch_tooBig cfg f s hadd]
        exact oframe_of_no_send (seenFrame_stat s _) (by intro e he; simp at he; subst he; rfl)
      | invalid =>
        rw [addToBatch_invalid cfg f s hadd]
        exact oframe_of_no_send (seenFrame_stat s _) (by intro e he; simp at he; subst he; rfl)
      | full =>
        rw [addToBatch_full cfg f s hadd]
        exact oframe_of_no_send (seenFrame_fatal s) (by intro e he; simp at he; subst he; rfl)
      | cantFit =>
        rw [addToBatch_cantFit cfg f s hadd]
        exact (oframe_sendBatch cfg s b).trans (ih _ _ _)

theorem oframe_roll (K : Kind) (cfg : Cfg) (s : State) (cur : Batch) (pk : PKey) :
    OFrame s (roll K cfg s cur pk).2.2 (roll K cfg s cur pk).1 := by
  unfold roll; split
  · have := (oframe_sendBatch cfg s cur).trans
      (oframe_of_no_send (seenFrame_setOpen (sendBatch cfg s cur).1 pk (fresh pk)) (by simp))
    simpa using this
  · exact oframe_of_no_send (SeenFrame.refl s) (by simp)

/-- one message: every entry pending before it, and its own entry if it is a COMMIT, precedes every
dispatch / self-report of this step -/
theorem onMsg_ordered (K : Kind) (cfg : Cfg) (s : State) (m : Msg) :
    ∀ x ∈ s.seenList ++ commitEntry s m, SendsAfter x (onMsg K cfg s m).2 := by
  have hl := seenFrame_lookup s m.pkey
  obtain ⟨_, _, _, n4⟩ := noteBoth (lookup s m.pkey).1 m
  have hl2 : (lookup s m.pkey).1.seenList = s.seenList := by
    have := hl.seen; simpa [seenEntries] using this
  have hce : commitEntry (lookup s m.pkey).1 m = commitEntry s m := by unfold commitEntry; rw [hl.total]
  rw [hl2, hce] at n4
  have hr := oframe_roll K cfg (noteKey (noteCommit (lookup s m.pkey).1 m) m) (lookup s m.pkey).2 m.pkey
  intro x hx
  rw [← n4] at hx
  rw [onMsg_eq]
  by_cases hd : m.op = .data
  · have hne : (m.op != .data) = false := by simp [hd]
    rw [hne]; simp only [Bool.false_eq_true, if_false]
    rw [addPhase_snd]
    have ha := oframe_addToBatch K cfg 3 (prep K cfg s m).1 (prep K cfg s m).2.1 m
    exact (OFrame.trans (s1 := (prep K cfg s m).1) hr ha).ordered x hx
  · have hne : (m.op != .data) = true := by simp [hd]
    rw [hne]; simp only [if_true]
    exact hr.ordered x hx

theorem onTick_oframe (cfg : Cfg) (order : List PKey) : ∀ (s : State),
    OFrame s (onTick cfg s order).2 (onTick cfg s order).1 := by
  unfold onTick
  induction order with
  | nil => intro s; exact oframe_of_no_send (SeenFrame.refl s) (by simp)
  | cons pk r ih =>
    intro s
    rw [List.foldl_cons]
    cases hg : getOpen s pk with
    | none => rw [flushOne_none _ hg]; exact ih s
    | some b =>
      rw [flushOne_some _ hg]
      have h1 := ((oframe_sendBatch cfg s b).trans
        (oframe_of_no_send (seenFrame_delOpen (sendBatch cfg s b).1 pk) (by simp))).trans
        (oframe_of_no_send (seenFrame_stat (delOpen (sendBatch cfg s b).1 pk) "batch_closed_early")
          (by intro e he; simp at he; subst he; rfl))
      have h2 := ih (delOpen (sendBatch cfg s b).1 pk)
      have hsh := foldl_flushOne_shift cfg r (delOpen (sendBatch cfg s b).1 pk)
        ([] ++ (sendBatch cfg s b).2 ++ [.stat "batch_closed_early"]) []
      rw [List.append_nil] at hsh
      rw [hsh]
      have := h1.trans h2
      simpa using this

/-- what the log looks like from some point on: `r` is the part of the log emitted since; every send
in it is preceded by `x`, and `x` is still pending or already handed over -/
def SeenSafe (x : SeenE) (s : State) (r : List Ev) : Prop :=
  SendsAfter x r ∧ (x ∈ s.seenList ∨ x ∈ seenEntries r)

theorem seenSafe_step (K : Kind) (cfg : Cfg) (x : SeenE) (s : State) (r : List Ev) (op : Op)
    (h : SeenSafe x s r) : SeenSafe x (step K cfg s op).1 (r ++ (step K cfg s op).2) := by
  obtain ⟨h1, h2⟩ := h
  cases hd : s.dead with
  | true =>
    have : step K cfg s op = (s, []) := by cases op <;> simp [step, hd]
    rw [this]; simpa using ⟨h1, h2⟩
  | false =>
    cases op with
    | msg m =>
      have hs : step K cfg s (.msg m) = onMsg K cfg s m := by simp [step, hd]
      rw [hs]
      obtain ⟨_, o2, _⟩ := onMsg_obs K cfg s m
      rcases h2 with h2 | h2
      · refine ⟨sendsAfter_append h1 (Or.inr (onMsg_ordered K cfg s m x (List.mem_append_left _ h2))), ?_⟩
        have : x ∈ seenEntries (onMsg K cfg s m).2 ++ (onMsg K cfg s m).1.seenList := by
          rw [o2]; exact List.mem_append_left _ h2
        rcases List.mem_append.mp this with h | h
        · right; rw [seenEntries_append]; exact List.mem_append_right _ h
        · left; exact h
      · exact ⟨sendsAfter_append h1 (Or.inl h2), Or.inr (by rw [seenEntries_append]; exact List.mem_append_left _ h2)⟩
    | tick now t order =>
      have hs : step K cfg s (.tick now t order) = onTick cfg s order := by simp [step, hd]
      rw [hs]
      have ho := onTick_oframe cfg order s
      rcases h2 with h2 | h2
      · refine ⟨sendsAfter_append h1 (Or.inr (ho.ordered x h2)), ?_⟩
        have : x ∈ seenEntries (onTick cfg s order).2 ++ (onTick cfg s order).1.seenList := by
          rw [ho.frame.seen]; exact h2
        rcases List.mem_append.mp this with h | h
        · right; rw [seenEntries_append]; exact List.mem_append_right _ h
        · left; exact h
      · exact ⟨sendsAfter_append h1 (Or.inl h2), Or.inr (by rw [seenEntries_append]; exact List.mem_append_left _ h2)⟩

theorem seenSafe_runFrom (K : Kind) (cfg : Cfg) (x : SeenE) (post : List Op) : ∀ (acc : State × List Ev) (e0 r : List Ev),
    acc.2 = e0 ++ r → SeenSafe x acc.1 r →
    ∃ r', (runFrom K cfg acc post).2 = e0 ++ r' ∧ SeenSafe x (runFrom K cfg acc post).1 r' := by
  induction post with
  | nil => intro acc e0 r h1 h2; exact ⟨r, h1, h2⟩
  | cons op rest ih =>
    intro acc e0 r h1 h2
    have := ih (stepAcc K cfg acc op) e0 (r ++ (step K cfg acc.1 op).2)
      (by simp [stepAcc, h1]) (seenSafe_step K cfg x acc.1 r op h2)
    exact this

/-- **E3 on the log.** Let the input be `pre ++ msg c :: post` with `c` a COMMIT reached while the batcher
is not dead. The log is the log of `pre` followed by `r`, and in `r` — everything emitted since `c`
arrived — the entry of `c` is handed to the ledger (in a `.seen`) before every dispatch and every
self-report; at the end it is either handed over or still pending. -/
theorem seen_precedes_sends (K : Kind) (cfg : Cfg) (pre : List Op) (c : Msg) (post : List Op)
    (hc : c.op = .commit) (hnd : (run K cfg pre).1.dead = false) :
    ∃ r, (run K cfg (pre ++ .msg c :: post)).2 = (run K cfg pre).2 ++ r ∧
      SendsAfter ⟨c.txn, c.key, (run K cfg pre).1.total, c.lsn⟩ r ∧
      ((⟨c.txn, c.key, (run K cfg pre).1.total, c.lsn⟩ : SeenE) ∈ (run K cfg (pre ++ .msg c :: post)).1.seenList ∨
       (⟨c.txn, c.key, (run K cfg pre).1.total, c.lsn⟩ : SeenE) ∈ seenEntries r) := by
  have h0 : pre ++ .msg c :: post = (pre ++ [.msg c]) ++ post := by simp
  rw [h0, run_append, run_snoc]
  have hstep : stepAcc K cfg (run K cfg pre) (.msg c) =
      ((onMsg K cfg (run K cfg pre).1 c).1, (run K cfg pre).2 ++ (onMsg K cfg (run K cfg pre).1 c).2) := by
    simp [stepAcc, step, hnd]
  have hx : (⟨c.txn, c.key, (run K cfg pre).1.total, c.lsn⟩ : SeenE) ∈
      (run K cfg pre).1.seenList ++ commitEntry (run K cfg pre).1 c := by
    apply List.mem_append_right; simp [commitEntry, hc]
  obtain ⟨_, o2, _⟩ := onMsg_obs K cfg (run K cfg pre).1 c
  have hsafe : SeenSafe ⟨c.txn, c.key, (run K cfg pre).1.total, c.lsn⟩ (onMsg K cfg (run K cfg pre).1 c).1
      (onMsg K cfg (run K cfg pre).1 c).2 := by
    refine ⟨onMsg_ordered K cfg _ c _ hx, ?_⟩
    rw [← o2] at hx
    rcases List.mem_append.mp hx with h | h
    · right; exact h
    · left; exact h
  rw [hstep]
  obtain ⟨r', h1, h2, h3⟩ := seenSafe_runFrom K cfg _ post (_, _) (run K cfg pre).2 _ rfl hsafe
  exact ⟨r', h1, h2, h3⟩

end PgBifrost.Batcher
