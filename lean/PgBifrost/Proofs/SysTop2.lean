import PgBifrost.Proofs.SysTop
/-!
# Top layer, continued: `acks`, crash points, quiescence, exactly-once
-/
namespace PgBifrost.Sys
open PgBifrost.Batch PgBifrost.Batcher
open PgBifrost.LedgerSimple (seenAt mentAt wsum Contract NoStale)

/-! ## `acks` records exactly the emitted values -/

theorem step_acks (cfg : Cfg) (s : SysState) (a : Act) :
    (step cfg s a).acks = s.acks ∨
    (a = .emit ∧ ∃ l v, s.ledger = some l ∧ Ledger.emitVal l = some v ∧ (step cfg s a).acks = s.acks ++ [v]) := by
  cases hd : s.dead with
  | true => rw [step_dead a hd]; exact Or.inl rfl
  | false =>
    rw [step_live a hd]
    cases a with
    | feed m => left; show (batStep cfg s _).acks = _; rw [batStep_eq]
    | tick o => left; show (batStep cfg s _).acks = _; rw [batStep_eq]
    | take w =>
      left; simp only [stepLive]
      split
      · rfl
      · split <;> rfl
    | sinkAccept w => left; simp only [stepLive]; split <;> rfl
    | sinkRetry w => exact Or.inl rfl
    | trackWritten => left; simp only [stepLive]; split <;> rfl
    | emit =>
      cases hl : s.ledger with
      | none => left; simp [stepLive, perform, hl]
      | some l =>
        cases hv : Ledger.emitVal l with
        | none => left; simp [stepLive, perform, hl, hv]
        | some v => right; exact ⟨rfl, l, v, rfl, hv, by simp [stepLive, perform, hl, hv]⟩

theorem acks_spec (cfg : Cfg) : ∀ acts, ∀ v ∈ (run cfg acts).acks,
    ∃ pre post, acts = pre ++ Act.emit :: post ∧ ∃ l, (run cfg pre).ledger = some l ∧ Ledger.emitVal l = some v := by
  apply run_ind cfg (fun acts s => ∀ v ∈ s.acks,
    ∃ pre post, acts = pre ++ Act.emit :: post ∧ ∃ l, (run cfg pre).ledger = some l ∧ Ledger.emitVal l = some v)
  · intro v hv; cases hv
  · intro pre a ih v hv
    have lift : (∃ p post, pre = p ++ Act.emit :: post ∧ ∃ l, (run cfg p).ledger = some l ∧ Ledger.emitVal l = some v) →
        ∃ p post, pre ++ [a] = p ++ Act.emit :: post ∧ ∃ l, (run cfg p).ledger = some l ∧ Ledger.emitVal l = some v := by
      rintro ⟨p, post, h1, h2⟩
      exact ⟨p, post ++ [a], by rw [h1]; simp, h2⟩
    rcases step_acks cfg (run cfg pre) a with h | ⟨rfl, l, v', hl, hv', h⟩
    · rw [h] at hv; exact lift (ih v hv)
    · rw [h] at hv
      rcases List.mem_append.mp hv with hv | hv
      · exact lift (ih v hv)
      · simp at hv; subst hv
        exact ⟨pre, [], rfl, l, hl, hv'⟩

/-! ## the sink only grows -/

theorem step_sink (cfg : Cfg) (s : SysState) (a : Act) : ∃ x, (step cfg s a).sinkAccepted = s.sinkAccepted ++ x := by
  cases hd : s.dead with
  | true => rw [step_dead a hd]; exact ⟨[], by simp⟩
  | false =>
    rw [step_live a hd]
    cases a with
    | feed m => exact ⟨[], by show (batStep cfg s _).sinkAccepted = _; rw [batStep_eq]; simp⟩
    | tick o => exact ⟨[], by show (batStep cfg s _).sinkAccepted = _; rw [batStep_eq]; simp⟩
    | take w =>
      simp only [stepLive]
      split
      · exact ⟨[], by simp⟩
      · split <;> exact ⟨[], by simp⟩
    | sinkAccept w =>
      simp only [stepLive]
      split
      · rename_i b h _; exact ⟨b.payload, rfl⟩
      · exact ⟨[], by simp⟩
    | sinkRetry w => exact ⟨[], by simp [stepLive]⟩
    | trackWritten =>
      simp only [stepLive]
      split <;> exact ⟨[], by simp [perform]⟩
    | emit => exact ⟨[], by simp [stepLive, perform]⟩

theorem run_sink_mono (cfg : Cfg) (pre : List Act) : ∀ post,
    ∃ x, (run cfg (pre ++ post)).sinkAccepted = (run cfg pre).sinkAccepted ++ x := by
  intro post
  induction post using snoc_induction with
  | h0 => exact ⟨[], by simp⟩
  | hs post a ih =>
    obtain ⟨x, hx⟩ := ih
    rw [← List.append_assoc, run_snoc]
    obtain ⟨y, hy⟩ := step_sink cfg (run cfg (pre ++ post)) a
    exact ⟨x ++ y, by rw [hy, hx, List.append_assoc]⟩

theorem fedMsgs_append (a b : List Act) : fedMsgs (a ++ b) = fedMsgs a ++ fedMsgs b := by
  simp [fedMsgs]

/-! ## C01 Top over `acks` -/

/-- **C01 Top (no redelivery).** Every acknowledged value `v` was emitted at some point `pre` of the
run, and AT THAT POINT every data message of every delivery committed at or before `v` — among ALL
messages of the run, later ones included — had already been fed and was in the sink, or was dropped
as too big. -/
theorem ack_safe_acks {K : Kind} {big bad : Msg → Bool} {dom : Msg → Prop} (bcfg : Batcher.Cfg)
    (hK : KindOK K big bad dom) (r : Bool) (acts : List Act)
    (hdom : ∀ m ∈ fedMsgs acts, m.op = .data → dom m) (g : GState) (hg : gscan r (fedMsgs acts) = some g)
    (hs : Sched r ⟨K, bcfg⟩ acts) :
    ∀ v ∈ (run ⟨K, bcfg⟩ acts).acks, ∃ pre post, acts = pre ++ Act.emit :: post ∧
      (∃ l, (run ⟨K, bcfg⟩ pre).ledger = some l ∧ Ledger.emitVal l = some v) ∧
      ∀ c ∈ fedMsgs acts, c.op = .commit → c.lsn ≤ v →
        ∀ m ∈ fedMsgs acts, m.op = .data → m.key = c.key →
          m ∈ (run ⟨K, bcfg⟩ pre).sinkAccepted ∨ big m = true := by
  intro v hv
  obtain ⟨pre, post, hsplit, l, hl, hlv⟩ := acks_spec ⟨K, bcfg⟩ acts v hv
  refine ⟨pre, post, hsplit, ⟨l, hl, hlv⟩, ?_⟩
  have hfed : fedMsgs acts = fedMsgs pre ++ fedMsgs (Act.emit :: post) := by rw [hsplit, fedMsgs_append]
  rw [hfed] at hg hdom
  obtain ⟨gA, hgA⟩ := gscan_prefix hg
  have hdomA : ∀ m ∈ fedMsgs pre, m.op = .data → dom m := fun m hm => hdom m (List.mem_append_left _ hm)
  have hsA : Sched r ⟨K, bcfg⟩ pre := by rw [hsplit] at hs; exact hs.of_prefix
  obtain ⟨gs, hgs, hF⟩ := facts_run bcfg hK r pre hdomA gA hgA
  have hNS := noStale_run bcfg hK r pre hdomA gA hgA hsA
  have hfedA := (hist_run ⟨K, bcfg⟩ pre).fedAll (hF.not_dead hNS)
  have hst := ack_safe_state bcfg hK r pre hdomA gA hgA hsA l hl v hlv
  generalize run ⟨K, bcfg⟩ pre = s at hl hF hfedA hgs hst hNS
  have hrun : Ledger.run s.trace = some l := by rw [← hF.hist.1]; exact hl
  obtain ⟨iv, tv, kv, totv, rv, hgv⟩ := emitVal_is_seen hF.contract hNS hrun hlv
  have hev := hF.handed_mem (hF.seen_src (List.mem_of_getElem? hgv)).1
  rw [← hfedA] at hev
  have hIA := ginv_of_gscan _ hgA
  have hvle : v ≤ gA.last := (hIA.seenE _ hev).2.1
  obtain ⟨_, hlater⟩ := later_commit_gt hgA _ g hg
  intro c hc hco hcv m hm hmd hmk
  rw [hfed] at hc hm
  have hcA : c ∈ fedMsgs pre := by
    rcases List.mem_append.mp hc with h | h
    · exact h
    · have := hlater c h hco; omega
  have hmA : m ∈ fedMsgs pre := by
    rcases List.mem_append.mp hm with h | h
    · exact h
    · exact absurd hmk (closed_key_stays _ g hg _ (hIA.commitSeen c hcA hco) m h)
  exact hst c hcA hco hcv m hmA hmd hmk

/-! ## C02 Top: the hypotheses of the drain theorem hold at quiescence -/

theorem gscan_false_intr : ∀ (ms : List Msg) (g : GState), gscan false ms = some g → g.intr = [] := by
  intro ms
  induction ms using snoc_induction with
  | h0 => intro g h; rw [gscan_nil] at h; cases h; rfl
  | hs ms m ih =>
    intro g h
    rw [gscan_snoc] at h
    cases h0 : gscan false ms with
    | none => rw [h0] at h; simp at h
    | some g0 =>
      rw [h0] at h
      simp only [Option.bind_some] at h
      have := ih g0 h0
      rcases gstep_cases h with ⟨_, _, _, _, rfl⟩ | ⟨_, _, _, _, _, _, rfl⟩ | ⟨_, _, _, _, _, _, _, rfl⟩ | ⟨hr, _⟩
      · exact this
      · exact this
      · exact this
      · cases hr

theorem sum_map_zero {α : Type} {f : α → Nat} {l : List α} (h : ∀ a ∈ l, f a = 0) : (l.map f).sum = 0 := by
  induction l with
  | nil => rfl
  | cons x r ih => simp [h x (by simp), ih (fun a ha => h a (by simp [ha]))]

/-- quiescence: nothing is between the batcher and the tracker any more -/
structure Quiet (s : SysState) : Prop where
  queue : s.queue = []
  held : s.held = []
  wchan : s.wchan = []
  seenList : s.bat.seenList = []
  openTx : ∀ p ∈ s.bat.openB, p.2.txns = []

theorem quiesce_hyps {K : Kind} {big bad : Msg → Bool} {dom : Msg → Prop} (bcfg : Batcher.Cfg)
    (hK : KindOK K big bad dom) (r : Bool) (acts : List Act)
    (hdom : ∀ m ∈ fedMsgs acts, m.op = .data → dom m) (g : GState) (hg : gscan r (fedMsgs acts) = some g)
    (hs : Sched r ⟨K, bcfg⟩ acts)
    (hcomplete : g.cur = none) (hQ : Quiet (run ⟨K, bcfg⟩ acts))
    (hvalid : ∀ m ∈ fedMsgs acts, m.op = .data → (big m || !bad m) = true) :
    Contract (run ⟨K, bcfg⟩ acts).trace ∧ NoStale (run ⟨K, bcfg⟩ acts).trace ∧
    PgBifrost.LedgerSimple.AllDone (run ⟨K, bcfg⟩ acts).trace ∧
    PgBifrost.LedgerSimple.AllSuperseded (run ⟨K, bcfg⟩ acts).trace ∧
    PgBifrost.Spec.Ledger.maxCommit (run ⟨K, bcfg⟩ acts).trace = g.last ∧
    ∃ l, (run ⟨K, bcfg⟩ acts).ledger = some l ∧ Ledger.run (run ⟨K, bcfg⟩ acts).trace = some l := by
  obtain ⟨gs, hgs, hF⟩ := facts_run bcfg hK r acts hdom g hg
  have hNS := noStale_run bcfg hK r acts hdom g hg hs
  have hfed := (hist_run ⟨K, bcfg⟩ acts).fedAll (hF.not_dead hNS)
  obtain ⟨l, hl⟩ := hF.alive hNS
  generalize run ⟨K, bcfg⟩ acts = s at hF hfed hl hQ hgs hNS
  rw [hfed] at hg hvalid
  rw [hg] at hgs; cases hgs
  have hseens : seenEntries s.evs = (track (msgs s.ops)).seens := by
    rw [← hF.seenLog, hQ.seenList, List.append_nil]
  have hopen0 : ∀ k, chargedOpen s.bat k = 0 := by
    intro k
    unfold chargedOpen sumOpen
    apply sum_map_zero
    intro p hp
    simp [hQ.openTx p hp, countOf_nil]
  have hcnt : ∀ k, wsum s.trace k = dcount (msgs s.ops) k := by
    intro k
    have h1 := hF.flow.num k
    have h2 := hF.charges k
    rw [hQ.queue, hQ.held, hQ.wchan] at h1
    simp only [wcount, bcount, List.map_nil, List.sum_nil] at h1
    rw [hopen0 k] at h2
    have : ((dataMsgs s.ops).filter (fun m => m.key == k && (big m || !bad m))).length = dcount (msgs s.ops) k := by
      unfold dataMsgs dcount
      rw [List.filter_filter]
      congr 1
      apply List.filter_congr
      intro m hm
      by_cases hd : m.op = .data
      · simp [hd, hvalid m hm hd]
      · have hf : (m.op == MOp.data) = false := by
          cases hop : m.op
          · rfl
          · rfl
          · exact absurd hop hd
        rw [hf]; simp
    omega
  refine ⟨hF.contract, hNS, ?_, ?_, ?_, l, hl, by rw [← hF.hist.1]; exact hl⟩
  · -- AllDone
    intro i t k tot c rl h
    have hmem := hF.handed_mem (hF.seen_src (List.mem_of_getElem? h)).1
    obtain ⟨h1, _, h3, _⟩ := hF.ginv.seenE _ hmem
    exact ⟨by rw [show tot = dcount (msgs s.ops) k from h3]; exact hcnt k, h1⟩
  · -- AllSuperseded: a mentioned key without a seen was interrupted and its transaction redelivered
    intro i op k h hk hno
    obtain ⟨m, hm, hmk, hmt⟩ := hF.op_src (List.mem_of_getElem? h) hk
    have hseenOf : ∀ e ∈ (track (msgs s.ops)).seens, ∃ j : Nat, s.trace[j]? = some (seenOp e) := by
      intro e he
      rw [← hseens] at he
      exact handed_seenAt hF.flow he
    rcases hF.ginv.closed m hm with ⟨e, he, hek⟩ | ⟨t, hcur⟩ | hi
    · exfalso
      obtain ⟨j, hj⟩ := hseenOf e he
      exact hno j ⟨e.txn, e.total, e.commit, true, by rw [hj, ← hmk, ← hek]; rfl⟩
    · rw [hcomplete] at hcur; cases hcur
    · rcases hF.ginv.chainEnd m hm hi with ⟨e, he, het, hek⟩ | ⟨k', hcur, _⟩
      · obtain ⟨j, hj⟩ := hseenOf e he
        refine ⟨j, seenOp e, e.key, hj, rfl, by rw [← hmk]; exact hek, by rw [hmt, ← het]; rfl, ?_⟩
        intro m' hm'
        rcases Nat.lt_trichotomy m' j with hlt | heq | hgt
        · exact hlt
        · exfalso
          subst heq
          obtain ⟨op', hop', hk'⟩ := hm'
          rw [hj] at hop'; cases hop'
          simp only [seenOp, Ledger.Op.key?, Option.some.injEq] at hk'
          exact hek (by rw [hk', hmk])
        · exfalso
          obtain ⟨op', hop', hk'⟩ := hm'
          obtain ⟨m2, hm2, hm2k, hm2t⟩ := hF.op_src (List.mem_of_getElem? hop') hk'
          have htt : m2.txn = m.txn := hF.ginv.keyTxn m2 hm2 m hm (by rw [hm2k, hmk])
          have := (hNS.stale j m' (seenOp e) op' e.txn e.key k hgt hj hop' rfl (by rw [hm2t, htt, het]) rfl hk'
            (by rw [← hmk]; exact hek)).1 j
          exact this ⟨e.txn, e.total, e.commit, true, hj⟩
      · rw [hcomplete] at hcur; cases hcur
  · -- maxCommit
    rcases hF.ginv.lastSeen with ⟨hnil, h0⟩ | ⟨e, he, hec⟩
    · rw [h0]
      have : PgBifrost.Spec.Ledger.seens s.trace = [] := by
        apply List.eq_nil_iff_forall_not_mem.mpr
        rintro ⟨i, t, k, tot, c, rl⟩ hmem
        have h := PgBifrost.Spec.Ledger.mem_seens.mp hmem
        have := hF.handed_mem (hF.seen_src (List.mem_of_getElem? h)).1
        rw [hnil] at this; cases this
      unfold PgBifrost.Spec.Ledger.maxCommit
      rw [this]; rfl
    · apply PgBifrost.Spec.Ledger.maxCommit_eq
      · rw [← hseens] at he
        obtain ⟨j, hj⟩ := handed_seenAt hF.flow he
        exact ⟨j, e.txn, e.key, e.total, true, by rw [hj, ← hec]; rfl⟩
      · intro i t k tot c' rl h
        have hmem := hF.handed_mem (hF.seen_src (List.mem_of_getElem? h)).1
        exact (hF.ginv.seenE _ hmem).2.1

/-! ## C04 Top: exactly once (multiset) -/

theorem count_flatMap_single_key {X : List Batch} (hsk : ∀ b ∈ X, ∀ x ∈ b.payload, x.pkey = b.pkey) (m : Msg) :
    List.count m (X.flatMap (·.payload)) =
      List.count m ((X.filter (fun b => b.pkey = m.pkey)).flatMap (·.payload)) := by
  induction X with
  | nil => rfl
  | cons b r ih =>
    have ih' := ih (fun b' hb' => hsk b' (List.mem_cons_of_mem _ hb'))
    rw [List.flatMap_cons, List.count_append, ih']
    by_cases hb : b.pkey = m.pkey
    · rw [List.filter_cons_of_pos (by simpa using hb), List.flatMap_cons, List.count_append]
    · rw [List.filter_cons_of_neg (by simpa using hb)]
      have : List.count m b.payload = 0 := by
        rw [List.count_eq_zero]
        intro hm
        exact hb (hsk b (by simp) m hm).symm
      omega

theorem count_filter_ite {p : Msg → Bool} (m : Msg) (l : List Msg) :
    List.count m (l.filter p) = if p m then List.count m l else 0 := by
  by_cases h : p m = true
  · rw [if_pos h, List.count_filter h]
  · rw [if_neg h, List.count_eq_zero]
    intro hm; exact h (List.mem_filter.mp hm).2

/-- every dispatched batch holds records of its own key only -/
theorem reach_single_key {K : Kind} {big bad : Msg → Bool} {dom : Msg → Prop} (hL : Laws K big bad dom)
    {cfg : Batcher.Cfg} {g : List Msg} {acc : State × List Ev} (hR : Reach K cfg g acc) :
    ∀ b ∈ dispatched acc.2, ∀ x ∈ b.payload, x.pkey = b.pkey := by
  intro b hb
  obtain ⟨w, hw⟩ := mem_dispatched.mp hb
  exact ((reach_batches SingleKey singleKey_fresh (singleKey_add hL) hR).2 _ hw).1

theorem exactly_once_multiset {K : Kind} {big bad : Msg → Bool} {dom : Msg → Prop} (bcfg : Batcher.Cfg)
    (hK : KindOK K big bad dom) (acts : List Act)
    (hdom : ∀ m ∈ fedMsgs acts, m.op = .data → dom m)
    (hlive : (run ⟨K, bcfg⟩ acts).dead = false)
    (hq : (run ⟨K, bcfg⟩ acts).queue = []) (hh : (run ⟨K, bcfg⟩ acts).held = [])
    (hopen : ∀ p ∈ (run ⟨K, bcfg⟩ acts).bat.openB, p.2.payload = []) :
    (run ⟨K, bcfg⟩ acts).sinkAccepted.Perm
      ((fedMsgs acts).filter (fun m => m.op == .data && !big m && !bad m)) := by
  have hH := hist_run ⟨K, bcfg⟩ acts
  have hF := flow_run bcfg hK acts hdom
  have hdom' := dom_of_fed hH hdom
  have hfed := hH.fedAll hlive
  generalize run ⟨K, bcfg⟩ acts = s at hH hF hdom' hfed hq hh hopen
  have hR := run_reach hK.laws hK.noFatal bcfg _ hdom'
  rw [← hH.bat] at hR
  obtain ⟨_, hfa⟩ := reach_faithful hK.laws hR
  have hsk := reach_single_key hK.laws hR
  simp only at hfa hsk
  have hperm := hF.perm
  rw [hq, hh] at hperm
  simp only [List.map_nil, List.append_nil] at hperm
  rw [hH.sink, hfed]
  refine (List.Perm.flatMap_right _ hperm).symm.trans ?_
  rw [List.perm_iff_count]
  intro m
  rw [count_flatMap_single_key hsk m]
  have h1 := hfa m.pkey
  have hop : openPayload s.bat m.pkey = [] := by
    unfold openPayload
    cases hg : getOpen s.bat m.pkey with
    | none => rfl
    | some b => exact hopen _ (mem_of_getOpen hg)
  rw [hop, List.append_nil] at h1
  unfold D at h1
  rw [h1]
  unfold dataMsgs
  rw [List.filter_filter, count_filter_ite, count_filter_ite]
  simp [goodFor]
  by_cases hd : m.op = .data <;> simp [hd]

end PgBifrost.Sys
