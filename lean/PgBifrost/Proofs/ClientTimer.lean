import PgBifrost.Model.ClientTimer
/-! Logical-time bound on the gap between consecutive standby status updates (C18). -/
namespace PgBifrost.ClientTimer

theorem gapsLe_mono {B B' : Nat} (h : B ≤ B') : ∀ l, gapsLe B l → gapsLe B' l
  | [] => fun _ => trivial
  | [_] => fun _ => trivial
  | a :: b :: r => fun ⟨h1, h2⟩ => ⟨by omega, gapsLe_mono h (b :: r) h2⟩

theorem gapsLe_append (B : Nat) (a b : List Nat) (x : Nat) :
    gapsLe B (x :: (a ++ b)) ↔ gapsLe B (x :: a) ∧ gapsLe B (a.getLastD x :: b) := by
  induction a generalizing x with
  | nil => simp [gapsLe]
  | cons y r ih =>
    simp only [List.cons_append, gapsLe, List.getLastD_cons]
    rw [ih y]
    constructor
    · rintro ⟨h1, h2, h3⟩; exact ⟨⟨h1, h2⟩, h3⟩
    · rintro ⟨⟨h1, h2⟩, h3⟩; exact ⟨h1, h2, h3⟩

theorem getLastD_append (a b : List Nat) (x : Nat) : (a ++ b).getLastD x = b.getLastD (a.getLastD x) := by
  induction a generalizing x with
  | nil => rfl
  | cons y r ih => simp only [List.cons_append, List.getLastD_cons, ih]

/-- the multiples `P*(q+1), …, P*(q+m)` -/
def mults (P q m : Nat) : List Nat := (List.range m).map fun j => P * (q + 1 + j)

theorem mults_succ (P q m : Nat) : mults P q (m + 1) = P * (q + 1) :: mults P (q + 1) m := by
  simp only [mults, List.range_succ_eq_map, List.map_cons, List.map_map, Nat.add_zero]
  congr 1
  apply List.map_congr_left
  intro j _
  simp only [Function.comp]
  congr 1; omega

theorem mults_gaps (P : Nat) (m q x : Nat) (hx : P * (q + 1) ≤ x + P) :
    gapsLe P (x :: mults P q m) ∧
      (mults P q m).getLastD x = (if m = 0 then x else P * (q + m)) := by
  induction m generalizing q x with
  | zero => simp [mults, gapsLe]
  | succ m ih =>
    rw [mults_succ]
    have h := ih (q + 1) (P * (q + 1)) (by rw [Nat.mul_add P (q + 1) 1]; omega)
    refine ⟨⟨hx, h.1⟩, ?_⟩
    rw [List.getLastD_cons, h.2]
    simp only [Nat.add_one_ne_zero, ↓reduceIte]
    split
    · subst_vars; rfl
    · congr 1; omega

theorem nextAfter_gt {P : Nat} (hP : 0 < P) (c : Nat) : c < nextAfter P c := by
  unfold nextAfter; exact Nat.lt_mul_div_succ c hP

theorem nextAfter_le {P : Nat} (c : Nat) : nextAfter P c ≤ c + P := by
  unfold nextAfter
  rw [Nat.mul_add, Nat.mul_one]
  have := Nat.mul_div_le c P
  omega

/-- statuses sent while blocked on output: consecutive ones are at most `P` apart, the first is due
at most `P` after … the earliest pending firing, and afterwards the next firing is at most `P` away -/
theorem blockedTimes_facts {P : Nat} (hP : 0 < P) (nf start stop : Nat) (h : nf ≤ stop) (hs : start ≤ stop) :
    ∃ r, blockedTimes P nf start stop = max nf start :: r ∧ gapsLe P (max nf start :: r) ∧
      r.getLastD (max nf start) ≤ stop ∧ nextAfter P stop ≤ r.getLastD (max nf start) + P := by
  have hc0 : max nf start ≤ stop := by omega
  refine ⟨mults P (max nf start / P) (stop / P - max nf start / P), ?_, ?_⟩
  · simp [blockedTimes, h, mults]
  · have hq : max nf start / P ≤ stop / P := Nat.div_le_div_right hc0
    obtain ⟨h1, h2⟩ := mults_gaps P (stop / P - max nf start / P) (max nf start / P) (max nf start)
      (by have := @nextAfter_le P (max nf start); simpa [nextAfter] using this)
    refine ⟨h1, ?_⟩
    rw [h2]
    split
    · rename_i h0
      have : stop / P = max nf start / P := by omega
      refine ⟨hc0, ?_⟩
      unfold nextAfter; rw [this]
      have := @nextAfter_le P (max nf start); simpa [nextAfter] using this
    · have : max nf start / P + (stop / P - max nf start / P) = stop / P := by omega
      rw [this]
      refine ⟨Nat.mul_div_le stop P, ?_⟩
      unfold nextAfter; rw [Nat.mul_add, Nat.mul_one]; omega

/-- invariant between loop iterations: no firing is pending, the next one is due at most `P` after
the last status (`L`), which is not in the future -/
structure Inv (P : Nat) (s : TState) (L : Nat) : Prop where
  quiet : s.now < s.nextFire
  due : s.nextFire ≤ L + P
  past : L ≤ s.now

theorem step_gaps {P T : Nat} (hP : 0 < P) (s : TState) (L : Nat) (e : TEv) (hd : e.d ≤ T)
    (hI : Inv P s L) :
    gapsLe (P + T) (L :: (stepT P s e).2) ∧ Inv P (stepT P s e).1 ((stepT P s e).2.getLastD L) := by
  obtain ⟨hq, hdue, hpast⟩ := hI
  have key : ∀ (L1 : Nat) (a1 : List Nat), gapsLe (P + T) (L :: a1) → a1.getLastD L = L1 →
      L ≤ L1 → L1 ≤ s.now + e.d → (L1 = s.now + e.d ∨ L1 = L) →
      gapsLe (P + T) (L :: (a1 ++ blockedPart P s e ++ (top P (beforeTop P s e)).2)) ∧
      Inv P (top P (beforeTop P s e)).1
        ((a1 ++ blockedPart P s e ++ (top P (beforeTop P s e)).2).getLastD L) := by
    intro L1 a1 hg1 hl1 hLL1 hL1t hcase
    by_cases hb : e.blocked ≠ 0 ∧ s.nextFire ≤ s.now + e.d + e.blocked
    · -- blocked and at least one firing is consumed by the WriteLoop
      obtain ⟨hb0, hnf⟩ := hb
      obtain ⟨r, hbt, hgr, hlast, hnext⟩ :=
        blockedTimes_facts hP s.nextFire (s.now + e.d) (s.now + e.d + e.blocked) hnf (by omega)
      have hbp : blockedPart P s e = max s.nextFire (s.now + e.d) :: r := by
        simp only [blockedPart, hb0, ↓reduceIte, hbt]
      have hbt' : beforeTop P s e =
          { now := s.now + e.d + e.blocked, nextFire := nextAfter P (s.now + e.d + e.blocked) } := by
        simp [beforeTop, hbp]
      have hgt := nextAfter_gt hP (s.now + e.d + e.blocked)
      have htop : top P (beforeTop P s e) = (beforeTop P s e, []) := by
        rw [hbt']; simp only [top]; rw [if_neg]; exact Nat.not_le.mpr hgt
      rw [htop, List.append_nil, hbp]
      refine ⟨?_, ?_⟩
      · rw [gapsLe_append]
        refine ⟨hg1, ?_⟩
        rw [hl1]
        refine ⟨?_, gapsLe_mono (by omega) _ hgr⟩
        rcases hcase with h | h <;> omega
      · rw [getLastD_append, List.getLastD_cons, hbt']
        exact ⟨hgt, hnext, hlast⟩
    · -- not blocked, or no firing becomes due while blocked
      have hbl : blockedPart P s e = [] := by
        by_cases hb0 : e.blocked = 0
        · simp [blockedPart, hb0]
        · have : ¬ s.nextFire ≤ s.now + e.d + e.blocked := fun h => hb ⟨hb0, h⟩
          simp [blockedPart, hb0, blockedTimes, this]
      have hbt' : beforeTop P s e = { now := s.now + e.d + e.blocked, nextFire := s.nextFire } := by
        simp [beforeTop, hbl]
      rw [hbl, List.append_nil, hbt']
      by_cases ht : s.nextFire ≤ s.now + e.d + e.blocked
      · have hb0 : e.blocked = 0 := by
          by_cases hb0 : e.blocked = 0
          · exact hb0
          · exact absurd ⟨hb0, ht⟩ hb
        rw [hb0] at ht ⊢
        simp only [Nat.add_zero] at ht ⊢
        have htop : top P { now := s.now + e.d, nextFire := s.nextFire } =
            ({ now := s.now + e.d, nextFire := nextAfter P (s.now + e.d) }, [s.now + e.d]) := by
          simp [top, ht]
        rw [htop]
        refine ⟨?_, ?_⟩
        · rw [gapsLe_append]
          refine ⟨hg1, ?_⟩
          rw [hl1]
          exact ⟨by rcases hcase with h | h <;> omega, trivial⟩
        · rw [getLastD_append]
          simp only [List.getLastD_cons, List.getLastD_nil]
          exact ⟨nextAfter_gt hP _, nextAfter_le _, Nat.le_refl _⟩
      · have htop : top P { now := s.now + e.d + e.blocked, nextFire := s.nextFire } =
            ({ now := s.now + e.d + e.blocked, nextFire := s.nextFire }, []) := by
          simp [top, ht]
        rw [htop, List.append_nil]
        refine ⟨hg1, ?_⟩
        rw [hl1]
        exact ⟨by simp only; omega, by simp only; omega, by simp only; omega⟩
  unfold stepT
  simp only
  cases hf : e.forced with
  | true =>
    have := key (s.now + e.d) [s.now + e.d] ⟨by omega, trivial⟩ rfl (by omega) (Nat.le_refl _) (Or.inl rfl)
    simpa using this
  | false =>
    have := key L [] trivial rfl (Nat.le_refl _) (by omega) (Or.inr rfl)
    simpa using this

theorem run_gaps {P T : Nat} (hP : 0 < P) (evs : List TEv) (hd : ∀ e ∈ evs, e.d ≤ T) (s : TState) (L : Nat)
    (hI : Inv P s L) :
    gapsLe (P + T) (L :: ((runT P s evs).2 ++ [(runT P s evs).1.now])) := by
  induction evs generalizing s L with
  | nil =>
    simp only [runT, List.nil_append]
    exact ⟨by have := hI.quiet; have := hI.due; omega, trivial⟩
  | cons e r ih =>
    obtain ⟨h1, h2⟩ := step_gaps (T := T) hP s L e (hd e List.mem_cons_self) hI
    have ih' := ih (fun e he => hd e (List.mem_cons_of_mem _ he)) _ _ h2
    simp only [runT, List.append_assoc]
    rw [gapsLe_append]
    exact ⟨h1, ih'⟩

end PgBifrost.ClientTimer
