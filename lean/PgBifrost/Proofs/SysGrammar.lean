import PgBifrost.Model.Sys
import PgBifrost.Proofs.BatcherAccounting
/-!
# The input grammar (`Sys.gscan`) and what it implies for the batcher's seen log (`track`)
-/
namespace PgBifrost.Sys
open PgBifrost.Batch PgBifrost.Batcher

theorem snoc_induction {α : Type} {P : List α → Prop} (h0 : P [])
    (hs : ∀ (l : List α) (a : α), P l → P (l ++ [a])) : ∀ l, P l := by
  intro l
  rw [← List.reverse_reverse l]
  induction l.reverse with
  | nil => exact h0
  | cons a t ih => rw [List.reverse_cons]; exact hs _ _ ih

/-- number of data messages of delivery key `k` -/
def dcount (ms : List Msg) (k : Nat) : Nat := (ms.filter fun m => m.op == .data && m.key == k).length

theorem dcount_snoc (ms : List Msg) (m : Msg) (k : Nat) :
    dcount (ms ++ [m]) k = dcount ms k + (if m.op = .data ∧ m.key = k then 1 else 0) := by
  unfold dcount
  rw [List.filter_append, List.length_append]
  by_cases h1 : m.op = .data <;> by_cases h2 : m.key = k <;> simp [h1, h2]

theorem dcount_zero {ms : List Msg} {k : Nat} (h : ∀ m ∈ ms, m.key ≠ k) : dcount ms k = 0 := by
  unfold dcount
  rw [List.length_eq_zero_iff, List.filter_eq_nil_iff]
  intro m hm; simp [h m hm]

theorem gscan_nil (r : Bool) : gscan r [] = some {} := rfl

theorem gscan_snoc (r : Bool) (ms : List Msg) (m : Msg) :
    gscan r (ms ++ [m]) = (gscan r ms).bind (fun g => gstep r g m) := by
  unfold gscan
  rw [List.foldlM_append]
  cases List.foldlM (gstep r) {} ms <;> simp

theorem gscan_prefix {r : Bool} {a b : List Msg} {g : GState} (h : gscan r (a ++ b) = some g) :
    ∃ g0, gscan r a = some g0 := by
  unfold gscan at h ⊢
  rw [List.foldlM_append] at h
  cases h0 : List.foldlM (gstep r) {} a with
  | none => rw [h0] at h; simp at h
  | some g0 => exact ⟨g0, rfl⟩

theorem gstep_cases {r : Bool} {g : GState} {m : Msg} {g' : GState} (h : gstep r g m = some g') :
    (g.cur = none ∧ m.op = .begin ∧ m.key ∉ g.used ∧ m.txn ∉ g.usedT ∧
      g' = { g with cur := some (m.key, m.txn), used := m.key :: g.used, usedT := m.txn :: g.usedT }) ∨
    (∃ k t, g.cur = some (k, t) ∧ m.op = .data ∧ m.key = k ∧ m.txn = t ∧ g' = g) ∨
    (∃ k t, g.cur = some (k, t) ∧ m.op = .commit ∧ m.key = k ∧ m.txn = t ∧ g.last < m.lsn ∧
      g' = { g with cur := none, last := m.lsn }) ∨
    (r = true ∧ ∃ k t, g.cur = some (k, t) ∧ m.op = .begin ∧ m.txn = t ∧ m.key ∉ g.used ∧
      g' = { g with cur := some (m.key, t), used := m.key :: g.used, intr := k :: g.intr }) := by
  unfold gstep at h
  cases hc : g.cur with
  | none =>
    rw [hc] at h
    cases ho : m.op with
    | begin =>
      rw [ho] at h
      simp only at h
      split at h
      · cases h
      · rename_i hn
        simp only [Bool.or_eq_true, List.contains_eq_mem, decide_eq_true_eq, not_or] at hn
        left; exact ⟨rfl, rfl, hn.1, hn.2, (Option.some.inj h).symm⟩
    | data => rw [ho] at h; simp at h
    | commit => rw [ho] at h; simp at h
  | some p =>
    obtain ⟨k, t⟩ := p
    rw [hc] at h
    cases ho : m.op with
    | begin =>
      rw [ho] at h
      simp only at h
      split at h
      · rename_i hn
        simp only [Bool.and_eq_true, decide_eq_true_eq, Bool.not_eq_true', List.contains_eq_mem,
          decide_eq_false_iff_not] at hn
        right; right; right
        exact ⟨hn.1.1, k, t, rfl, rfl, hn.1.2, hn.2, (Option.some.inj h).symm⟩
      · cases h
    | data =>
      rw [ho] at h
      simp only at h
      split at h
      · rename_i hn
        right; left; exact ⟨k, t, rfl, rfl, hn.1, hn.2, (Option.some.inj h).symm⟩
      · cases h
    | commit =>
      rw [ho] at h
      simp only at h
      split at h
      · rename_i hn
        right; right; left; exact ⟨k, t, rfl, rfl, hn.1, hn.2.1, hn.2.2, (Option.some.inj h).symm⟩
      · cases h

/-- what the grammar implies about the messages fed so far and the batcher's seen log -/
structure GInv (r : Bool) (ms : List Msg) (g : GState) : Prop where
  used : ∀ m ∈ ms, m.key ∈ g.used
  usedT : ∀ m ∈ ms, m.txn ∈ g.usedT
  keyTxn : ∀ m1 ∈ ms, ∀ m2 ∈ ms, m1.key = m2.key → m1.txn = m2.txn
  txnKey : r = false → ∀ m1 ∈ ms, ∀ m2 ∈ ms, m1.txn = m2.txn → m1.key = m2.key
  curOpen : ∀ k t, g.cur = some (k, t) →
    (track ms).curKey = some k ∧ (track ms).total = dcount ms k ∧ k ∈ g.used ∧ t ∈ g.usedT ∧
    (∀ e ∈ (track ms).seens, e.key ≠ k) ∧ (∀ m ∈ ms, m.key = k → m.txn = t) ∧ (∃ m ∈ ms, m.key = k) ∧
    k ∉ g.intr
  seenNodup : ((track ms).seens.map (·.key)).Nodup
  seenCommits : (track ms).seens.Pairwise (fun a b => a.commit < b.commit)
  seenE : ∀ e ∈ (track ms).seens, 0 < e.commit ∧ e.commit ≤ g.last ∧ e.total = dcount ms e.key ∧
    e.key ∉ g.intr ∧
    ∃ c ∈ ms, c.op = .commit ∧ c.key = e.key ∧ c.txn = e.txn ∧ c.lsn = e.commit
  commitSeen : ∀ c ∈ ms, c.op = .commit → (⟨c.txn, c.key, dcount ms c.key, c.lsn⟩ : SeenE) ∈ (track ms).seens
  closed : ∀ m ∈ ms, (∃ e ∈ (track ms).seens, e.key = m.key) ∨ (∃ t, g.cur = some (m.key, t)) ∨ m.key ∈ g.intr
  lastSeen : ((track ms).seens = [] ∧ g.last = 0) ∨ ∃ e ∈ (track ms).seens, e.commit = g.last
  intrUsed : ∀ k ∈ g.intr, k ∈ g.used
  chain : ∀ m1 ∈ ms, ∀ m2 ∈ ms, m1.txn = m2.txn → m1.key ≠ m2.key → m1.key ∈ g.intr ∨ m2.key ∈ g.intr
  chainEnd : ∀ m ∈ ms, m.key ∈ g.intr →
    (∃ e ∈ (track ms).seens, e.txn = m.txn ∧ e.key ≠ m.key) ∨ (∃ k', g.cur = some (k', m.txn) ∧ k' ≠ m.key)

theorem ginv_nil (r : Bool) : GInv r [] {} := by
  refine ⟨?_, ?_, ?_, ?_, ?_, ?_, ?_, ?_, ?_, ?_, ?_, ?_, ?_, ?_⟩ <;> simp [track]

theorem track_snoc_seens (ms : List Msg) (m : Msg) :
    (track (ms ++ [m])).seens =
      (track ms).seens ++ (if m.op = .commit then [⟨m.txn, m.key, (track ms).total, m.lsn⟩] else []) := by
  rw [track_snoc]; rfl

theorem ginv_step {r : Bool} {ms : List Msg} {g g' : GState} {m : Msg} (hI : GInv r ms g)
    (hs : gstep r g m = some g') : GInv r (ms ++ [m]) g' := by
  have hseens := track_snoc_seens ms m
  rcases gstep_cases hs with ⟨hc, ho, hk, ht, rfl⟩ | ⟨k, t, hc, ho, hmk, hmt, rfl⟩ |
      ⟨k, t, hc, ho, hmk, hmt, hl, rfl⟩ | ⟨hr, k, t, hc, ho, hmt, hk, rfl⟩
  · -- BEGIN of a new delivery
    have hnc : ¬ m.op = .commit := by rw [ho]; simp
    have hnd : ¬ m.op = .data := by rw [ho]; simp
    rw [if_neg hnc, List.append_nil] at hseens
    have hfresh : ∀ m' ∈ ms, m'.key ≠ m.key := fun m' hm' he => hk (he ▸ hI.used m' hm')
    have hfreshT : ∀ m' ∈ ms, m'.txn ≠ m.txn := fun m' hm' he => ht (he ▸ hI.usedT m' hm')
    have hdc : ∀ k', dcount (ms ++ [m]) k' = dcount ms k' := by
      intro k'; rw [dcount_snoc]; simp [hnd]
    have hseenfresh : ∀ e ∈ (track ms).seens, e.key ≠ m.key := by
      intro e he hek
      obtain ⟨_, _, _, _, c, hc', _, hck, _⟩ := hI.seenE e he
      exact hfresh c hc' (hck.trans hek)
    refine ⟨?_, ?_, ?_, ?_, ?_, ?_, ?_, ?_, ?_, ?_, ?_, ?_, ?_, ?_⟩
    · intro m' hm'
      rcases List.mem_append.mp hm' with h | h
      · exact List.mem_cons_of_mem _ (hI.used m' h)
      · simp at h; subst h; exact List.mem_cons_self
    · intro m' hm'
      rcases List.mem_append.mp hm' with h | h
      · exact List.mem_cons_of_mem _ (hI.usedT m' h)
      · simp at h; subst h; exact List.mem_cons_self
    · intro m1 b1 m2 b2 he
      rcases List.mem_append.mp b1 with h1 | h1 <;> rcases List.mem_append.mp b2 with h2 | h2
      · exact hI.keyTxn m1 h1 m2 h2 he
      · simp at h2; subst h2; exact absurd he (hfresh m1 h1)
      · simp at h1; subst h1; exact absurd he.symm (hfresh m2 h2)
      · simp at h1 h2; subst h1; subst h2; rfl
    · intro hr m1 b1 m2 b2 he
      rcases List.mem_append.mp b1 with h1 | h1 <;> rcases List.mem_append.mp b2 with h2 | h2
      · exact hI.txnKey hr m1 h1 m2 h2 he
      · simp at h2; subst h2; exact absurd he (hfreshT m1 h1)
      · simp at h1; subst h1; exact absurd he.symm (hfreshT m2 h2)
      · simp at h1 h2; subst h1; subst h2; rfl
    · intro k' t' hcur
      simp only [Option.some.injEq, Prod.mk.injEq] at hcur
      obtain ⟨rfl, rfl⟩ := hcur
      rw [hseens, hdc, dcount_zero hfresh, track_snoc]
      refine ⟨rfl, ?_, List.mem_cons_self, List.mem_cons_self, hseenfresh, ?_, ⟨m, by simp, rfl⟩, ?_⟩
      · simp only [trackStep, hnd, if_false]
        have : (track ms).curKey ≠ some m.key := by
          rw [track_curKey]
          intro h
          cases hl : ms.getLast? with
          | none => rw [hl] at h; simp at h
          | some x => rw [hl] at h; simp at h; exact hfresh x (List.mem_of_getLast? hl) h
        simp [this]
      · intro m' hm' hek
        rcases List.mem_append.mp hm' with h | h
        · exact absurd hek (hfresh m' h)
        · simp at h; subst h; rfl
      · intro hin; exact hk (hI.intrUsed _ hin)
    · rw [hseens]; exact hI.seenNodup
    · rw [hseens]; exact hI.seenCommits
    · intro e he
      rw [hseens] at he
      obtain ⟨h1, h2, h3, h4, c, hc', h5⟩ := hI.seenE e he
      exact ⟨h1, h2, by rw [hdc]; exact h3, h4, c, List.mem_append_left _ hc', h5⟩
    · intro c hc' hco
      rw [hseens, hdc]
      rcases List.mem_append.mp hc' with h | h
      · exact hI.commitSeen c h hco
      · simp at h; subst h; exact absurd hco hnc
    · intro m' hm'
      rw [hseens]
      rcases List.mem_append.mp hm' with h | h
      · rcases hI.closed m' h with h' | ⟨t', h'⟩ | h'
        · exact Or.inl h'
        · rw [hc] at h'; cases h'
        · exact Or.inr (Or.inr h')
      · simp at h; subst h; exact Or.inr (Or.inl ⟨_, rfl⟩)
    · rw [hseens]; exact hI.lastSeen
    · intro k' hk'; exact List.mem_cons_of_mem _ (hI.intrUsed k' hk')
    · -- chain
      intro m1 b1 m2 b2 he hne
      rcases List.mem_append.mp b1 with h1 | h1 <;> rcases List.mem_append.mp b2 with h2 | h2
      · exact hI.chain m1 h1 m2 h2 he hne
      · simp at h2; subst h2; exact absurd he (hfreshT m1 h1)
      · simp at h1; subst h1; exact absurd he.symm (hfreshT m2 h2)
      · simp at h1 h2; subst h1; subst h2; exact absurd rfl hne
    · -- chainEnd
      intro m' hm' hin
      rw [hseens]
      rcases List.mem_append.mp hm' with h | h
      · rcases hI.chainEnd m' h hin with h' | ⟨k', h', _⟩
        · exact Or.inl h'
        · rw [hc] at h'; cases h'
      · simp at h; subst h; exact absurd (hI.intrUsed _ hin) hk
  · -- data message of the open delivery
    obtain ⟨c1, c2, c3, c4, c5, c6, c7, c8⟩ := hI.curOpen k t hc
    have hnc : ¬ m.op = .commit := by rw [ho]; simp
    rw [if_neg hnc, List.append_nil] at hseens
    have hdc : ∀ k', k' ≠ k → dcount (ms ++ [m]) k' = dcount ms k' := by
      intro k' hk'; rw [dcount_snoc]
      have : ¬ m.key = k' := by rw [hmk]; exact fun h => hk' h.symm
      simp [this]
    refine ⟨?_, ?_, ?_, ?_, ?_, ?_, ?_, ?_, ?_, ?_, ?_, hI.intrUsed, ?_, ?_⟩
    · intro m' hm'
      rcases List.mem_append.mp hm' with h | h
      · exact hI.used m' h
      · simp at h; subst h; rw [hmk]; exact c3
    · intro m' hm'
      rcases List.mem_append.mp hm' with h | h
      · exact hI.usedT m' h
      · simp at h; subst h; rw [hmt]; exact c4
    · intro m1 b1 m2 b2 he
      rcases List.mem_append.mp b1 with h1 | h1 <;> rcases List.mem_append.mp b2 with h2 | h2
      · exact hI.keyTxn m1 h1 m2 h2 he
      · simp at h2; subst h2; rw [hmt]; exact c6 m1 h1 (he.trans hmk)
      · simp at h1; subst h1; rw [hmt]; exact (c6 m2 h2 (he.symm.trans hmk)).symm
      · simp at h1 h2; subst h1; subst h2; rfl
    · intro hr m1 b1 m2 b2 he
      obtain ⟨m0, hm0, hm0k⟩ := c7
      have hm0t := c6 m0 hm0 hm0k
      rcases List.mem_append.mp b1 with h1 | h1 <;> rcases List.mem_append.mp b2 with h2 | h2
      · exact hI.txnKey hr m1 h1 m2 h2 he
      · simp at h2; subst h2
        rw [hmk, ← hm0k]; exact hI.txnKey hr m1 h1 m0 hm0 (by rw [he, hmt, hm0t])
      · simp at h1; subst h1
        rw [hmk, ← hm0k]; exact (hI.txnKey hr m2 h2 m0 hm0 (by rw [← he, hmt, hm0t])).symm
      · simp at h1 h2; subst h1; subst h2; rfl
    · intro k' t' hcur
      rw [hc] at hcur
      simp only [Option.some.injEq, Prod.mk.injEq] at hcur
      obtain ⟨rfl, rfl⟩ := hcur
      rw [hseens, track_snoc, dcount_snoc]
      refine ⟨by simp [trackStep, hmk], ?_, c3, c4, c5, ?_, ⟨m, by simp, hmk⟩, c8⟩
      · simp only [trackStep]; rw [hmk, if_pos c1, c2]; simp [ho]
      · intro m' hm' hek
        rcases List.mem_append.mp hm' with h | h
        · exact c6 m' h hek
        · simp at h; subst h; exact hmt
    · rw [hseens]; exact hI.seenNodup
    · rw [hseens]; exact hI.seenCommits
    · intro e he
      rw [hseens] at he
      obtain ⟨h1, h2, h3, h4, c, hc', h5⟩ := hI.seenE e he
      exact ⟨h1, h2, by rw [hdc _ (c5 e he)]; exact h3, h4, c, List.mem_append_left _ hc', h5⟩
    · intro c hc' hco
      rw [hseens]
      rcases List.mem_append.mp hc' with h | h
      · have hmem := hI.commitSeen c h hco
        have : c.key ≠ k := c5 _ hmem
        rw [hdc _ this]; exact hmem
      · simp at h; subst h; exact absurd hco hnc
    · intro m' hm'
      rw [hseens]
      rcases List.mem_append.mp hm' with h | h
      · exact hI.closed m' h
      · simp at h; subst h; exact Or.inr (Or.inl ⟨t, by rw [hmk]; exact hc⟩)
    · rw [hseens]; exact hI.lastSeen
    · -- chain
      intro m1 b1 m2 b2 he hne
      obtain ⟨m0, hm0, hm0k⟩ := c7
      have hm0t := c6 m0 hm0 hm0k
      rcases List.mem_append.mp b1 with h1 | h1 <;> rcases List.mem_append.mp b2 with h2 | h2
      · exact hI.chain m1 h1 m2 h2 he hne
      · simp at h2; subst h2
        rw [hmk, ← hm0k]
        exact hI.chain m1 h1 m0 hm0 (by rw [he, hmt, hm0t]) (by rw [hm0k, ← hmk]; exact hne)
      · simp at h1; subst h1
        rw [hmk, ← hm0k]
        exact hI.chain m0 hm0 m2 h2 (by rw [hm0t, ← hmt, he]) (by rw [hm0k, ← hmk]; exact hne)
      · simp at h1 h2; subst h1; subst h2; exact absurd rfl hne
    · -- chainEnd
      intro m' hm' hin
      rw [hseens]
      rcases List.mem_append.mp hm' with h | h
      · exact hI.chainEnd m' h hin
      · simp at h; subst h; rw [hmk] at hin; exact absurd hin c8
  · -- COMMIT of the open delivery
    obtain ⟨c1, c2, c3, c4, c5, c6, c7, c8⟩ := hI.curOpen k t hc
    rw [if_pos ho] at hseens
    have hnd : ¬ m.op = .data := by rw [ho]; simp
    have hdc : ∀ k', dcount (ms ++ [m]) k' = dcount ms k' := by
      intro k'; rw [dcount_snoc]; simp [hnd]
    refine ⟨?_, ?_, ?_, ?_, ?_, ?_, ?_, ?_, ?_, ?_, ?_, hI.intrUsed, ?_, ?_⟩
    · intro m' hm'
      rcases List.mem_append.mp hm' with h | h
      · exact hI.used m' h
      · simp at h; subst h; rw [hmk]; exact c3
    · intro m' hm'
      rcases List.mem_append.mp hm' with h | h
      · exact hI.usedT m' h
      · simp at h; subst h; rw [hmt]; exact c4
    · intro m1 b1 m2 b2 he
      rcases List.mem_append.mp b1 with h1 | h1 <;> rcases List.mem_append.mp b2 with h2 | h2
      · exact hI.keyTxn m1 h1 m2 h2 he
      · simp at h2; subst h2; rw [hmt]; exact c6 m1 h1 (he.trans hmk)
      · simp at h1; subst h1; rw [hmt]; exact (c6 m2 h2 (he.symm.trans hmk)).symm
      · simp at h1 h2; subst h1; subst h2; rfl
    · intro hr m1 b1 m2 b2 he
      obtain ⟨m0, hm0, hm0k⟩ := c7
      have hm0t := c6 m0 hm0 hm0k
      rcases List.mem_append.mp b1 with h1 | h1 <;> rcases List.mem_append.mp b2 with h2 | h2
      · exact hI.txnKey hr m1 h1 m2 h2 he
      · simp at h2; subst h2
        rw [hmk, ← hm0k]; exact hI.txnKey hr m1 h1 m0 hm0 (by rw [he, hmt, hm0t])
      · simp at h1; subst h1
        rw [hmk, ← hm0k]; exact (hI.txnKey hr m2 h2 m0 hm0 (by rw [← he, hmt, hm0t])).symm
      · simp at h1 h2; subst h1; subst h2; rfl
    · intro k' t' hcur; cases hcur
    · rw [hseens, List.map_append, List.nodup_append]
      refine ⟨hI.seenNodup, by simp, ?_⟩
      intro a ha b hb
      simp at hb; subst hb
      obtain ⟨e, he, hek⟩ := List.mem_map.mp ha
      intro h; exact c5 e he (by rw [hek, h, hmk])
    · rw [hseens, List.pairwise_append]
      refine ⟨hI.seenCommits, by simp, ?_⟩
      intro a ha b hb
      simp at hb; subst hb
      have := (hI.seenE a ha).2.1
      show a.commit < m.lsn
      omega
    · intro e he
      rw [hseens] at he
      rcases List.mem_append.mp he with he | he
      · obtain ⟨h1, h2, h3, h4, c, hc', h5⟩ := hI.seenE e he
        exact ⟨h1, by show e.commit ≤ m.lsn; omega, by rw [hdc]; exact h3, h4, c, List.mem_append_left _ hc', h5⟩
      · simp at he; subst he
        refine ⟨by show 0 < m.lsn; omega, Nat.le_refl _, ?_, by show m.key ∉ g.intr; rw [hmk]; exact c8,
          m, by simp, ho, rfl, rfl, rfl⟩
        show (track ms).total = dcount (ms ++ [m]) m.key
        rw [hdc, c2, hmk]
    · intro c hc' hco
      rw [hseens, hdc]
      rcases List.mem_append.mp hc' with h | h
      · exact List.mem_append_left _ (hI.commitSeen c h hco)
      · simp at h; subst h
        apply List.mem_append_right
        rw [c2, hmk]; simp
    · intro m' hm'
      rw [hseens]
      have hnew : ∃ e ∈ (track ms).seens ++ [(⟨m.txn, m.key, (track ms).total, m.lsn⟩ : SeenE)], e.key = k :=
        ⟨⟨m.txn, m.key, (track ms).total, m.lsn⟩, List.mem_append_right _ (by simp), hmk⟩
      rcases List.mem_append.mp hm' with h | h
      · rcases hI.closed m' h with ⟨e, he, hek⟩ | ⟨t', h'⟩ | h'
        · exact Or.inl ⟨e, List.mem_append_left _ he, hek⟩
        · rw [hc] at h'
          simp only [Option.some.injEq, Prod.mk.injEq] at h'
          rw [← h'.1]; exact Or.inl hnew
        · exact Or.inr (Or.inr h')
      · simp at h; subst h
        obtain ⟨e, he, hek⟩ := hnew
        exact Or.inl ⟨e, he, hek.trans hmk.symm⟩
    · right; rw [hseens]; exact ⟨⟨m.txn, m.key, (track ms).total, m.lsn⟩, List.mem_append_right _ (by simp), rfl⟩
    · -- chain
      intro m1 b1 m2 b2 he hne
      obtain ⟨m0, hm0, hm0k⟩ := c7
      have hm0t := c6 m0 hm0 hm0k
      rcases List.mem_append.mp b1 with h1 | h1 <;> rcases List.mem_append.mp b2 with h2 | h2
      · exact hI.chain m1 h1 m2 h2 he hne
      · simp at h2; subst h2
        rw [hmk, ← hm0k]
        exact hI.chain m1 h1 m0 hm0 (by rw [he, hmt, hm0t]) (by rw [hm0k, ← hmk]; exact hne)
      · simp at h1; subst h1
        rw [hmk, ← hm0k]
        exact hI.chain m0 hm0 m2 h2 (by rw [hm0t, ← hmt, he]) (by rw [hm0k, ← hmk]; exact hne)
      · simp at h1 h2; subst h1; subst h2; exact absurd rfl hne
    · -- chainEnd
      intro m' hm' hin
      rw [hseens]
      rcases List.mem_append.mp hm' with h | h
      · rcases hI.chainEnd m' h hin with ⟨e, he, h1, h2⟩ | ⟨k', h', hk'⟩
        · exact Or.inl ⟨e, List.mem_append_left _ he, h1, h2⟩
        · rw [hc] at h'
          simp only [Option.some.injEq, Prod.mk.injEq] at h'
          refine Or.inl ⟨⟨m.txn, m.key, (track ms).total, m.lsn⟩, List.mem_append_right _ (by simp), ?_, ?_⟩
          · show m.txn = m'.txn; rw [hmt, h'.2]
          · show m.key ≠ m'.key; rw [hmk, h'.1]; exact hk'
      · simp at h; subst h; rw [hmk] at hin; exact absurd hin c8
  · -- BEGIN of a redelivery interrupting the open delivery (stage 2 only)
    obtain ⟨c1, c2, c3, c4, c5, c6, c7, c8⟩ := hI.curOpen k t hc
    have hnc : ¬ m.op = .commit := by rw [ho]; simp
    have hnd : ¬ m.op = .data := by rw [ho]; simp
    rw [if_neg hnc, List.append_nil] at hseens
    have hfresh : ∀ m' ∈ ms, m'.key ≠ m.key := fun m' hm' he => hk (he ▸ hI.used m' hm')
    have hdc : ∀ k', dcount (ms ++ [m]) k' = dcount ms k' := by
      intro k'; rw [dcount_snoc]; simp [hnd]
    have hseenfresh : ∀ e ∈ (track ms).seens, e.key ≠ m.key := by
      intro e he hek
      obtain ⟨_, _, _, _, c, hc', _, hck, _⟩ := hI.seenE e he
      exact hfresh c hc' (hck.trans hek)
    have hkne : k ≠ m.key := fun h => hk (h ▸ c3)
    refine ⟨?_, ?_, ?_, ?_, ?_, ?_, ?_, ?_, ?_, ?_, ?_, ?_, ?_, ?_⟩
    · intro m' hm'
      rcases List.mem_append.mp hm' with h | h
      · exact List.mem_cons_of_mem _ (hI.used m' h)
      · simp at h; subst h; exact List.mem_cons_self
    · intro m' hm'
      rcases List.mem_append.mp hm' with h | h
      · exact hI.usedT m' h
      · simp at h; subst h; rw [hmt]; exact c4
    · intro m1 b1 m2 b2 he
      rcases List.mem_append.mp b1 with h1 | h1 <;> rcases List.mem_append.mp b2 with h2 | h2
      · exact hI.keyTxn m1 h1 m2 h2 he
      · simp at h2; subst h2; exact absurd he (hfresh m1 h1)
      · simp at h1; subst h1; exact absurd he.symm (hfresh m2 h2)
      · simp at h1 h2; subst h1; subst h2; rfl
    · intro hr'; rw [hr] at hr'; cases hr'
    · intro k' t' hcur
      simp only [Option.some.injEq, Prod.mk.injEq] at hcur
      obtain ⟨rfl, rfl⟩ := hcur
      rw [hseens, hdc, dcount_zero hfresh, track_snoc]
      refine ⟨rfl, ?_, List.mem_cons_self, c4, hseenfresh, ?_, ⟨m, by simp, rfl⟩, ?_⟩
      · simp only [trackStep, hnd, if_false]
        have : (track ms).curKey ≠ some m.key := by
          rw [c1]; intro h; exact hkne (Option.some.inj h)
        simp [this]
      · intro m' hm' hek
        rcases List.mem_append.mp hm' with h | h
        · exact absurd hek (hfresh m' h)
        · simp at h; subst h; exact hmt
      · intro hin
        rcases List.mem_cons.mp hin with h | h
        · exact hkne h.symm
        · exact hk (hI.intrUsed _ h)
    · rw [hseens]; exact hI.seenNodup
    · rw [hseens]; exact hI.seenCommits
    · intro e he
      rw [hseens] at he
      obtain ⟨h1, h2, h3, h4, c, hc', h5⟩ := hI.seenE e he
      refine ⟨h1, h2, by rw [hdc]; exact h3, ?_, c, List.mem_append_left _ hc', h5⟩
      intro hin
      rcases List.mem_cons.mp hin with h | h
      · exact c5 e he h
      · exact h4 h
    · intro c hc' hco
      rw [hseens, hdc]
      rcases List.mem_append.mp hc' with h | h
      · exact hI.commitSeen c h hco
      · simp at h; subst h; exact absurd hco hnc
    · intro m' hm'
      rw [hseens]
      rcases List.mem_append.mp hm' with h | h
      · rcases hI.closed m' h with h' | ⟨t', h'⟩ | h'
        · exact Or.inl h'
        · rw [hc] at h'
          simp only [Option.some.injEq, Prod.mk.injEq] at h'
          exact Or.inr (Or.inr (by rw [← h'.1]; exact List.mem_cons_self))
        · exact Or.inr (Or.inr (List.mem_cons_of_mem _ h'))
      · simp at h; subst h; exact Or.inr (Or.inl ⟨_, rfl⟩)
    · rw [hseens]; exact hI.lastSeen
    · intro k' hk'
      rcases List.mem_cons.mp hk' with h | h
      · rw [h]; exact List.mem_cons_of_mem _ c3
      · exact List.mem_cons_of_mem _ (hI.intrUsed k' h)

    · -- chain
      intro m1 b1 m2 b2 he hne
      obtain ⟨m0, hm0, hm0k⟩ := c7
      have hm0t := c6 m0 hm0 hm0k
      have old : ∀ m' ∈ ms, m'.txn = t → m'.key ∈ k :: g.intr := by
        intro m' hm' ht'
        by_cases hk' : m'.key = k
        · rw [hk']; exact List.mem_cons_self
        · rcases hI.chain m' hm' m0 hm0 (by rw [ht', hm0t]) (by rw [hm0k]; exact hk') with h | h
          · exact List.mem_cons_of_mem _ h
          · rw [hm0k] at h; exact absurd h c8
      rcases List.mem_append.mp b1 with h1 | h1 <;> rcases List.mem_append.mp b2 with h2 | h2
      · rcases hI.chain m1 h1 m2 h2 he hne with h | h
        · exact Or.inl (List.mem_cons_of_mem _ h)
        · exact Or.inr (List.mem_cons_of_mem _ h)
      · simp at h2; subst h2; exact Or.inl (old m1 h1 (by rw [he, hmt]))
      · simp at h1; subst h1; exact Or.inr (old m2 h2 (by rw [← he, hmt]))
      · simp at h1 h2; subst h1; subst h2; exact absurd rfl hne
    · -- chainEnd
      intro m' hm' hin
      rw [hseens]
      rcases List.mem_append.mp hm' with h | h
      · have hm'used := hI.used m' h
        have hne' : m.key ≠ m'.key := fun he => hk (he ▸ hm'used)
        rcases List.mem_cons.mp hin with hin | hin
        · right; exact ⟨m.key, by rw [c6 m' h hin], hne'⟩
        · rcases hI.chainEnd m' h hin with h' | ⟨k', h', _⟩
          · exact Or.inl h'
          · rw [hc] at h'
            simp only [Option.some.injEq, Prod.mk.injEq] at h'
            right; exact ⟨m.key, by rw [h'.2], hne'⟩
      · simp at h; subst h
        exfalso
        rcases List.mem_cons.mp hin with hin | hin
        · exact hkne hin.symm
        · exact hk (hI.intrUsed _ hin)

/-- the invariant holds for every accepted stream -/
theorem ginv_of_gscan {r : Bool} : ∀ (ms : List Msg) {g : GState}, gscan r ms = some g → GInv r ms g := by
  intro ms
  induction ms using snoc_induction with
  | h0 => intro g h; rw [gscan_nil] at h; cases h; exact ginv_nil r
  | hs ms m ih =>
    intro g h
    rw [gscan_snoc] at h
    cases h0 : gscan r ms with
    | none => rw [h0] at h; simp at h
    | some g0 =>
      rw [h0] at h
      exact ginv_step (ih h0) h

end PgBifrost.Sys
