import PgBifrost.Proofs.BatcherFaithful
/-!
# Routing of dispatched batches, order inside batches
-/
namespace PgBifrost.Batcher
open PgBifrost.Batch

theorem sublist_flatMap_of_mem {α β : Type} (f : α → List β) {a : α} {l : List α} (h : a ∈ l) :
    (f a).Sublist (l.flatMap f) := by
  induction l with
  | nil => cases h
  | cons x r ih =>
    rw [List.flatMap_cons]
    rcases List.mem_cons.mp h with h | h
    · subst h; exact List.sublist_append_left _ _
    · exact (ih h).trans (List.sublist_append_right _ _)

/-- a dispatched batch's payload is a sublist of its key's dispatched records -/
theorem payload_sublist_D {evs : List Ev} {b : Batch} (hb : b ∈ dispatched evs) :
    b.payload.Sublist (D evs b.pkey) := by
  unfold D
  apply sublist_flatMap_of_mem (fun b : Batch => b.payload)
  rw [List.mem_filter]
  exact ⟨hb, by simp⟩

/-! ## events of `sendBatch` by routing mode -/

theorem mem_sendBatch_dispatch {cfg : Cfg} {s : State} {b : Batch} {w : Nat} {b' : Batch}
    (h : Ev.dispatch w b' ∈ (sendBatch cfg s b).2) :
    b' = b ∧ ((cfg.routing = .roundRobin ∧ w = s.rr) ∨
              (cfg.routing = .partition ∧ w = Crc32.quickHash b.pkey cfg.workers)) := by
  rw [sendBatch_eq] at h
  rcases List.mem_append.mp h with h | h
  · unfold flushSeen at h; split at h <;> simp at h
  · unfold route at h
    by_cases hemp : b.isEmpty = true
    · simp [hemp] at h
    · simp only [hemp, if_false, Bool.false_eq_true] at h
      cases hr : cfg.routing <;> rw [hr] at h <;> simp at h
      · exact ⟨h.2, Or.inl ⟨rfl, by rw [h.1, flushSeen_rr]⟩⟩
      · exact ⟨h.2, Or.inr ⟨rfl, h.1⟩⟩

theorem sendBatch_rr_lt {cfg : Cfg} (s : State) (b : Batch) (h : s.rr < cfg.workers) :
    (sendBatch cfg s b).1.rr < cfg.workers := by
  rw [sendBatch_eq]
  unfold route
  by_cases hemp : b.isEmpty = true
  · simp [hemp, flushSeen_rr, h]
  · simp only [hemp, if_false, Bool.false_eq_true]
    cases hr : cfg.routing
    · simp only [flushSeen_rr]
      by_cases h1 : s.rr + 1 = cfg.workers
      · simp [h1]; omega
      · simp [h1]; omega
    · simp [flushSeen_rr, h]

/-- dispatches under partition routing go to `crc32(pkey) % workers` -/
theorem reach_partition_routing {K : Kind} {cfg : Cfg} (hr : cfg.routing = .partition) {g : List Msg}
    {acc : State × List Ev} (h : Reach K cfg g acc) :
    ∀ e ∈ acc.2, ∀ w b, e = Ev.dispatch w b → w = Crc32.quickHash b.pkey cfg.workers := by
  refine (reach_events (fun _ => True) (fun e => ∀ w b, e = Ev.dispatch w b → w = Crc32.quickHash b.pkey cfg.workers)
    trivial (fun n w b h => by cases h) (fun s b _ => ⟨trivial, fun e he w b' heq => ?_⟩) h).2
  subst heq
  obtain ⟨h1, h2⟩ := mem_sendBatch_dispatch he
  rcases h2 with ⟨h2, _⟩ | ⟨_, h2⟩
  · rw [hr] at h2; cases h2
  · rw [h1]; exact h2

/-- every dispatch goes to a worker index in range -/
theorem reach_worker_in_range {K : Kind} {cfg : Cfg} (hw : 1 ≤ cfg.workers) {g : List Msg}
    {acc : State × List Ev} (h : Reach K cfg g acc) :
    ∀ e ∈ acc.2, ∀ w b, e = Ev.dispatch w b → w < cfg.workers := by
  refine (reach_events (fun n => n < cfg.workers) (fun e => ∀ w b, e = Ev.dispatch w b → w < cfg.workers)
    (by omega) (fun n w b h => by cases h) (fun s b hrr => ⟨sendBatch_rr_lt s b hrr, fun e he w b' heq => ?_⟩) h).2
  subst heq
  obtain ⟨_, h2⟩ := mem_sendBatch_dispatch he
  rcases h2 with ⟨_, h2⟩ | ⟨_, h2⟩
  · rw [h2]; exact hrr
  · rw [h2]; unfold Crc32.quickHash; exact Nat.mod_lt _ (by omega)

/-! ## what one worker receives -/

def dispatchToOf (w : Nat) : Ev → Option Batch
  | .dispatch w' b => if w' = w then some b else none
  | _ => none

/-- the batches worker `w` receives, in order -/
def dispatchedTo (evs : List Ev) (w : Nat) : List Batch := evs.filterMap (dispatchToOf w)

/-- when every dispatch of a key-`k` batch goes to worker `w`, the key-`k` batches worker `w`
receives are all dispatched key-`k` batches, in the same order -/
theorem dispatchedTo_filter_eq (evs : List Ev) (k : PKey) (w : Nat)
    (h : ∀ e ∈ evs, ∀ w' b, e = Ev.dispatch w' b → b.pkey = k → w' = w) :
    (dispatchedTo evs w).filter (fun b => b.pkey = k) = (dispatched evs).filter (fun b => b.pkey = k) := by
  induction evs with
  | nil => rfl
  | cons e r ih =>
    have ih' := ih (fun e he => h e (List.mem_cons_of_mem _ he))
    unfold dispatchedTo dispatched at ih' ⊢
    cases e with
    | dispatch w' b =>
      by_cases hk : b.pkey = k
      · have := h _ (List.mem_cons_self) w' b rfl hk
        subst this
        simp [dispatchToOf, dispatchOf, hk, ih']
      · by_cases hw : w' = w
        · simp [dispatchToOf, dispatchOf, hk, hw, ih']
        · simp [dispatchToOf, dispatchOf, hw, hk, ih']
    | seen l => exact ih'
    | selfReport t => exact ih'
    | stat n => exact ih'
    | fatal => exact ih'

theorem dispatchedTo_all (evs : List Ev) (w : Nat) (h : ∀ e ∈ evs, ∀ w' b, e = Ev.dispatch w' b → w' = w) :
    dispatchedTo evs w = dispatched evs := by
  induction evs with
  | nil => rfl
  | cons e r ih =>
    have ih' := ih (fun e he => h e (List.mem_cons_of_mem _ he))
    unfold dispatchedTo dispatched at ih' ⊢
    cases e with
    | dispatch w' b =>
      have := h _ (List.mem_cons_self) w' b rfl
      subst this
      simp [dispatchToOf, dispatchOf, ih']
    | seen l => exact ih'
    | selfReport t => exact ih'
    | stat n => exact ih'
    | fatal => exact ih'

/-- dispatched batches are never empty (empty ones are self-reported) -/
theorem run_dispatched_nonempty {K : Kind} {big bad : Msg → Bool} {dom : Msg → Prop} (hL : Laws K big bad dom)
    (cfg : Cfg) (ops : List Op) (hdom : ∀ m ∈ dataMsgs ops, dom m) :
    ∀ b ∈ dispatched (run K cfg ops).2, b.payload ≠ [] := by
  intro b hb
  obtain ⟨w, hw⟩ := mem_dispatched.mp hb
  have := (run_events hL cfg ops hdom (EvQ SingleKey) trivial
    (fun g acc hR => (reach_batches SingleKey singleKey_fresh (singleKey_add hL) hR).2) _ hw).2
  intro h
  simp [Batch.isEmpty, h] at this

end PgBifrost.Batcher
