import PgBifrost.Gen.BatcherSrc
import PgBifrost.Gen.SendBatchSrc
/-! The batcher model's message path equals the statement-by-statement translation of `batcher.go`. -/
namespace PgBifrost.BatcherSrcProofs
open PgBifrost.Batch PgBifrost.Batcher

theorem addToBatch_eq (K : Kind) (cfg : Cfg) : ∀ (f : Nat) (s : State) (b : Batch) (m : Msg),
    Gen.BatcherSrc.addToBatch K cfg f s b m = Batcher.addToBatch K cfg f s b m := by
  intro f
  induction f with
  | zero => intro s b m; rfl
  | succ n ih =>
    intro s b m
    simp only [Gen.BatcherSrc.addToBatch, Batcher.addToBatch]
    split <;> simp_all

theorem onMsg_eq (K : Kind) (cfg : Cfg) (s : State) (m : Msg) :
    Gen.BatcherSrc.onMsg K cfg s m = Batcher.onMsg K cfg s m := by
  unfold Gen.BatcherSrc.onMsg Batcher.onMsg
  simp only [Id.run, addToBatch_eq]
  cases hg : getOpen s m.pkey <;> cases hop : m.op <;>
    by_cases hk : s.curKey = some m.key <;> simp [hg, hop, hk, pure, bind] <;>
    (repeat' (first | rfl | split)) <;> (try simp_all)

theorem sendBatch_eq (cfg : Cfg) (s : State) (b : Batch) :
    Gen.SendBatchSrc.sendBatch cfg s b = Batcher.sendBatch cfg s b := by
  unfold Gen.SendBatchSrc.sendBatch Batcher.sendBatch
  simp only [Id.run]
  cases hl : s.seenList <;> cases hr : cfg.routing <;> by_cases he : b.isEmpty = true <;>
    simp [hl, hr, he, pure, bind] <;> (repeat' (first | rfl | split)) <;> (try simp_all)

end PgBifrost.BatcherSrcProofs
