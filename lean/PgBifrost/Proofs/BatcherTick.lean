import PgBifrost.Proofs.BatcherFaithful
/-!
# `handleTicker`: what a tick flushes
-/
namespace PgBifrost.Batcher
open PgBifrost.Batch

def keysOf (s : State) : List PKey := s.openB.map (·.1)

/-- the keys of the open-batch list are distinct (it models a Go map) -/
def KeysNodup (s : State) : Prop := (keysOf s).Nodup

/-! ## the open list after a tick -/

theorem filter_of_lk_none {l : List (PKey × Batch)} {pk : PKey} (h : lk l pk = none) :
    l.filter (fun p => !(p.1 == pk)) = l := by
  unfold lk at h
  rw [Option.map_eq_none_iff, List.find?_eq_none] at h
  rw [List.filter_eq_self]
  intro a ha
  simpa using h a ha

theorem flushOne_openB (cfg : Cfg) (acc : State × List Ev) (pk : PKey) :
    (flushOne cfg acc pk).1.openB = acc.1.openB.filter (fun p => !(p.1 == pk)) := by
  obtain ⟨s, e⟩ := acc
  cases hg : getOpen s pk with
  | none => rw [flushOne_none _ hg]; exact (filter_of_lk_none hg).symm
  | some b => rw [flushOne_some _ hg]; simp [delOpen, sendBatch_openB]

theorem foldl_flushOne_openB (cfg : Cfg) (order : List PKey) : ∀ (acc : State × List Ev),
    (order.foldl (flushOne cfg) acc).1.openB = acc.1.openB.filter (fun p => !(order.contains p.1)) := by
  induction order with
  | nil => intro acc; simp only [List.foldl_nil]; exact (List.filter_eq_self.mpr (fun _ _ => by simp)).symm
  | cons pk r ih =>
    intro acc
    rw [List.foldl_cons, ih, flushOne_openB, List.filter_filter]
    apply List.filter_congr
    intro p _
    by_cases h1 : p.1 = pk <;> simp [h1]

theorem onTick_openB (cfg : Cfg) (s : State) (order : List PKey) :
    (onTick cfg s order).1.openB = s.openB.filter (fun p => !(order.contains p.1)) :=
  foldl_flushOne_openB cfg order (s, [])

theorem lk_filter_notin (l : List (PKey × Batch)) (order : List PKey) (k : PKey) :
    lk (l.filter (fun p => !(order.contains p.1))) k = if k ∈ order then none else lk l k := by
  induction l with
  | nil => simp [lk_nil]
  | cons p l ih =>
    by_cases hp : p.1 ∈ order
    · rw [List.filter_cons_of_neg (by simp [hp]), ih, lk_cons]
      by_cases hk : k ∈ order
      · simp [hk]
      · have : ¬ p.1 = k := fun h => hk (h ▸ hp)
        simp [hk, this]
    · rw [List.filter_cons_of_pos (by simp [hp]), lk_cons, ih, lk_cons]
      by_cases hk : k ∈ order
      · have : ¬ p.1 = k := fun h => hp (h ▸ hk)
        simp [hk, this]
      · simp [hk]

theorem getOpen_onTick (cfg : Cfg) (s : State) (order : List PKey) (k : PKey) :
    getOpen (onTick cfg s order).1 k = if k ∈ order then none else getOpen s k := by
  rw [getOpen_eq_lk, onTick_openB, lk_filter_notin]; rfl

/-! ## the events of a tick -/

theorem flushOne_events_grow (cfg : Cfg) (s : State) (e : List Ev) (pk : PKey) :
    ∃ e', (flushOne cfg (s, e) pk).2 = e ++ e' := by
  cases hg : getOpen s pk with
  | none => rw [flushOne_none _ hg]; exact ⟨[], by simp⟩
  | some b => rw [flushOne_some _ hg]; exact ⟨_, by rw [List.append_assoc]⟩

theorem foldl_flushOne_events_grow (cfg : Cfg) (order : List PKey) : ∀ (s : State) (e : List Ev),
    ∃ e', (order.foldl (flushOne cfg) (s, e)).2 = e ++ e' := by
  intro s e
  have := foldl_flushOne_shift cfg order s e []
  rw [List.append_nil] at this
  exact ⟨_, by rw [this]⟩

/-- a non-empty open batch whose key is in the flush order is dispatched by the tick -/
theorem foldl_flushOne_dispatches (cfg : Cfg) (order : List PKey) : ∀ (s : State) (e : List Ev) (pk : PKey) (b : Batch),
    pk ∈ order → getOpen s pk = some b → b.isEmpty = false →
    b ∈ dispatched (order.foldl (flushOne cfg) (s, e)).2 := by
  induction order with
  | nil => intro s e pk b h; cases h
  | cons p r ih =>
    intro s e pk b hmem ho hne
    rw [List.foldl_cons]
    by_cases hp : p = pk
    · subst hp
      rw [flushOne_some _ ho]
      obtain ⟨e', he'⟩ := foldl_flushOne_events_grow cfg r (delOpen (sendBatch cfg s b).1 p)
        (e ++ (sendBatch cfg s b).2 ++ [.stat "batch_closed_early"])
      rw [he']
      simp only [dispatched_append, dispatched_sendBatch, hne]
      simp
    · have hmem' : pk ∈ r := by
        rcases List.mem_cons.mp hmem with h | h
        · exact absurd h.symm hp
        · exact h
      have hpk : ¬ pk = p := fun h => hp h.symm
      cases hg : getOpen s p with
      | none => rw [flushOne_none _ hg]; exact ih s e pk b hmem' ho hne
      | some b0 =>
        rw [flushOne_some _ hg]
        apply ih _ _ pk b hmem' _ hne
        rw [getOpen_delOpen, sendBatch_getOpen]
        simp [hpk, ho]

/-! ## mandatory flushes -/

theorem mem_of_getOpen {s : State} {pk : PKey} {b : Batch} (h : getOpen s pk = some b) : (pk, b) ∈ s.openB := by
  unfold getOpen at h
  rw [Option.map_eq_some_iff] at h
  obtain ⟨p, hp, hb⟩ := h
  have h1 := List.find?_some hp
  have h2 := List.mem_of_find?_eq_some hp
  simp at h1
  obtain ⟨p1, p2⟩ := p
  simp at h1 hb
  subst h1; subst hb; exact h2

theorem mem_mandatory {K : Kind} {cfg : Cfg} {now : Int} {s : State} {times : List BTimes} {pk : PKey} {b : Batch}
    {t : BTimes} (hm : (pk, b) ∈ s.openB) (ht : timesOf times pk = some t)
    (hf : mustFlush K cfg now b t.ctime t.mtime = true) : pk ∈ mandatory K cfg now s times := by
  unfold mandatory
  rw [List.mem_filterMap]
  exact ⟨(pk, b), hm, by simp [ht, hf]⟩

theorem mandatory_subset_keys {K : Kind} {cfg : Cfg} {now : Int} {s : State} {times : List BTimes} {pk : PKey}
    (h : pk ∈ mandatory K cfg now s times) : pk ∈ keysOf s := by
  unfold mandatory at h
  rw [List.mem_filterMap] at h
  obtain ⟨⟨k, b⟩, hm, hf⟩ := h
  simp only at hf
  cases ht : timesOf times k with
  | none => simp [ht] at hf
  | some t =>
    simp only [ht] at hf
    split at hf
    · simp at hf; subst hf
      unfold keysOf; exact List.mem_map.mpr ⟨_, hm, rfl⟩
    · cases hf

/-- the pieces of `validTick` -/
theorem validTick_parts {K : Kind} {cfg : Cfg} {now : Int} {s : State} {times : List BTimes} {order : List PKey}
    (h : validTick K cfg now s times order = true) :
    (∀ k ∈ keysOf s, (timesOf times k).isSome = true) ∧
    (∀ k ∈ order.take (mandatory K cfg now s times).length, k ∈ mandatory K cfg now s times) ∧
    (∀ k ∈ mandatory K cfg now s times, k ∈ order.take (mandatory K cfg now s times).length) ∧
    (if ((keysOf s).filter fun k => !(mandatory K cfg now s times).contains k).foldl
          (fun acc k => acc + bytesOf s k) (0 : Int) ≥ cfg.memLimit
      then validPops cfg s ((keysOf s).filter fun k => !(mandatory K cfg now s times).contains k)
            (order.drop (mandatory K cfg now s times).length)
            (((keysOf s).filter fun k => !(mandatory K cfg now s times).contains k).foldl
              (fun acc k => acc + bytesOf s k) (0 : Int)) = true
      else order.drop (mandatory K cfg now s times).length = []) := by
  unfold validTick at h
  simp only [Bool.and_eq_true, List.all_eq_true, List.contains_iff_mem] at h
  obtain ⟨⟨⟨⟨h1, h2⟩, h3⟩, _⟩, h5⟩ := h
  refine ⟨h1, h2, h3, ?_⟩
  unfold keysOf
  split
  · rename_i hc; rw [if_pos hc] at h5; exact h5
  · rename_i hc; rw [if_neg hc] at h5; simpa using h5

/-! ## memory pressure -/

def sumBytes (s : State) (l : List PKey) : Int := (l.map (bytesOf s)).sum

theorem sumBytes_nil (s : State) : sumBytes s [] = 0 := rfl
theorem sumBytes_cons (s : State) (k : PKey) (l : List PKey) : sumBytes s (k :: l) = bytesOf s k + sumBytes s l := by
  simp [sumBytes]

theorem foldl_bytes (s : State) (l : List PKey) : ∀ a : Int,
    l.foldl (fun acc k => acc + bytesOf s k) a = a + sumBytes s l := by
  induction l with
  | nil => intro a; simp [sumBytes_nil]
  | cons k r ih => intro a; rw [List.foldl_cons, ih, sumBytes_cons]; omega

theorem sumBytes_erase (s : State) (p : PKey) : ∀ (l : List PKey), p ∈ l →
    sumBytes s l = bytesOf s p + sumBytes s (l.erase p) := by
  intro l
  induction l with
  | nil => intro h; cases h
  | cons k r ih =>
    intro h
    rw [List.erase_cons]
    by_cases hk : k = p
    · subst hk; simp [sumBytes_cons]
    · have hk' : (k == p) = false := by simp [hk]
      rw [hk']
      simp only [Bool.false_eq_true, if_false, sumBytes_cons]
      have : p ∈ r := by
        rcases List.mem_cons.mp h with h | h
        · exact absurd h.symm hk
        · exact h
      rw [ih this]; omega

theorem erase_filter_notin {l : List PKey} (hn : l.Nodup) (p : PKey) (ps : List PKey) :
    (l.erase p).filter (fun k => !ps.contains k) = l.filter (fun k => !(p :: ps).contains k) := by
  rw [hn.erase_eq_filter, List.filter_filter]
  apply List.filter_congr
  intro k _
  by_cases h : k = p <;> simp [h]

/-- after a valid pop sequence the kept total is below the limit, or nothing is kept -/
theorem validPops_final (cfg : Cfg) (s : State) : ∀ (pops kept : List PKey) (total : Int), kept.Nodup →
    total = sumBytes s kept → validPops cfg s kept pops total = true →
    sumBytes s (kept.filter (fun k => !pops.contains k)) < cfg.memLimit ∨
      kept.filter (fun k => !pops.contains k) = [] := by
  intro pops
  induction pops with
  | nil =>
    intro kept total _ ht hv
    have hf : kept.filter (fun k => !([] : List PKey).contains k) = kept :=
      List.filter_eq_self.mpr (fun _ _ => by simp)
    rw [hf]
    unfold validPops at hv
    simp only [Bool.or_eq_true, decide_eq_true_eq, List.isEmpty_iff] at hv
    rcases hv with hv | hv
    · left; rw [← ht]; exact hv
    · right; exact hv
  | cons p ps ih =>
    intro kept total hn ht hv
    unfold validPops at hv
    simp only [Bool.and_eq_true, decide_eq_true_eq, List.contains_iff_mem] at hv
    obtain ⟨⟨⟨_, hmem⟩, _⟩, hrest⟩ := hv
    have := ih (kept.erase p) (total - bytesOf s p) (hn.erase p)
      (by rw [ht, sumBytes_erase s p kept hmem]; omega) hrest
    rw [erase_filter_notin hn] at this
    exact this

/-- every popped batch is open, at least as large as every batch still kept when it is popped, and
popped only while the kept total is at or above the limit -/
theorem validPops_order (cfg : Cfg) (s : State) : ∀ (pops kept : List PKey) (total : Int),
    validPops cfg s kept pops total = true → ∀ (i : Nat) (p : PKey), pops[i]? = some p →
    p ∈ kept ∧ (∀ k ∈ kept, k ∉ pops.take i → bytesOf s k ≤ bytesOf s p) ∧
    cfg.memLimit ≤ total - sumBytes s (pops.take i) := by
  intro pops
  induction pops with
  | nil => intro kept total _ i p h; simp at h
  | cons p0 ps ih =>
    intro kept total hv i p hi
    unfold validPops at hv
    simp only [Bool.and_eq_true, decide_eq_true_eq, List.contains_iff_mem, List.all_eq_true] at hv
    obtain ⟨⟨⟨hlim, hmem⟩, hall⟩, hrest⟩ := hv
    cases i with
    | zero =>
      simp at hi; subst hi
      refine ⟨hmem, fun k hk _ => hall k hk, ?_⟩
      simp [sumBytes_nil]; exact hlim
    | succ j =>
      rw [List.getElem?_cons_succ] at hi
      obtain ⟨h1, h2, h3⟩ := ih (kept.erase p0) (total - bytesOf s p0) hrest j p hi
      refine ⟨List.mem_of_mem_erase h1, fun k hk hnot => ?_, ?_⟩
      · rw [List.take_succ_cons] at hnot
        have hne : k ≠ p0 := fun h => hnot (by rw [h]; exact List.mem_cons_self)
        apply h2 k ((List.mem_erase_of_ne hne).mpr hk)
        intro h; exact hnot (List.mem_cons_of_mem _ h)
      · rw [List.take_succ_cons, sumBytes_cons]; omega

theorem lk_of_mem_nodup : ∀ {l : List (PKey × Batch)}, (l.map (·.1)).Nodup → ∀ {p : PKey × Batch}, p ∈ l →
    lk l p.1 = some p.2 := by
  intro l
  induction l with
  | nil => intro _ p h; cases h
  | cons q r ih =>
    intro hn p hp
    rw [List.map_cons, List.nodup_cons] at hn
    rw [lk_cons]
    rcases List.mem_cons.mp hp with h | h
    · subst h; simp
    · have : ¬ q.1 = p.1 := fun heq => hn.1 (by rw [heq]; exact List.mem_map.mpr ⟨p, h, rfl⟩)
      rw [if_neg this]; exact ih hn.2 h

theorem bytesOf_of_mem {s : State} (hn : KeysNodup s) {p : PKey × Batch} (hp : p ∈ s.openB) :
    bytesOf s p.1 = (p.2.bytes : Int) := by
  unfold bytesOf
  rw [getOpen_eq_lk, lk_of_mem_nodup hn hp]

/-- total bytes of the open batches of a state -/
def openBytes (s : State) : Int := (s.openB.map fun p => (p.2.bytes : Int)).sum

theorem openBytes_onTick {cfg : Cfg} {s : State} (hn : KeysNodup s) (order : List PKey) :
    openBytes (onTick cfg s order).1 = sumBytes s ((keysOf s).filter (fun k => !order.contains k)) := by
  unfold openBytes sumBytes keysOf
  rw [onTick_openB, List.filter_map, List.map_map]
  congr 1
  apply List.map_congr_left
  intro p hp
  simp only [Function.comp]
  exact (bytesOf_of_mem hn (List.mem_filter.mp hp).1).symm

/-- **memory pressure, totals**: after a valid tick the open batches total less than the soft
limit, or none is left -/
theorem tick_pressure_total {K : Kind} {cfg : Cfg} {now : Int} {s : State} {times : List BTimes} {order : List PKey}
    (hn : KeysNodup s) (hv : validTick K cfg now s times order = true) :
    openBytes (onTick cfg s order).1 < cfg.memLimit ∨ (onTick cfg s order).1.openB = [] := by
  obtain ⟨_, h2, h3, h4⟩ := validTick_parts hv
  -- the keys left are the kept ones minus the pops
  have hkeys : (keysOf s).filter (fun k => !order.contains k) =
      ((keysOf s).filter fun k => !(mandatory K cfg now s times).contains k).filter
        (fun k => !(order.drop (mandatory K cfg now s times).length).contains k) := by
    rw [List.filter_filter]
    apply List.filter_congr
    intro k _
    have hsplit : order = order.take (mandatory K cfg now s times).length ++ order.drop (mandatory K cfg now s times).length :=
      (List.take_append_drop _ _).symm
    by_cases hm : k ∈ mandatory K cfg now s times
    · have : k ∈ order := by rw [hsplit]; exact List.mem_append_left _ (h3 k hm)
      simp [hm, this]
    · by_cases hp : k ∈ order.drop (mandatory K cfg now s times).length
      · have : k ∈ order := by rw [hsplit]; exact List.mem_append_right _ hp
        simp [hp, this]
      · have : ¬ k ∈ order := by
          intro h; rw [hsplit] at h
          rcases List.mem_append.mp h with h | h
          · exact hm (h2 k h)
          · exact hp h
        simp [hm, hp, this]
  have hkn : ((keysOf s).filter fun k => !(mandatory K cfg now s times).contains k).Nodup :=
    List.Nodup.sublist List.filter_sublist hn
  have hfin : sumBytes s ((keysOf s).filter (fun k => !order.contains k)) < cfg.memLimit ∨
      (keysOf s).filter (fun k => !order.contains k) = [] := by
    rw [hkeys]
    split at h4
    · exact validPops_final cfg s _ _ _ hkn (by rw [foldl_bytes]; omega) h4
    · rename_i hc
      rw [h4]
      have hf : ∀ l : List PKey, l.filter (fun k => !([] : List PKey).contains k) = l :=
        fun l => List.filter_eq_self.mpr (fun _ _ => by simp)
      rw [hf]
      left
      rw [foldl_bytes] at hc
      omega
  rcases hfin with h | h
  · left; rw [openBytes_onTick hn]; exact h
  · right
    rw [onTick_openB]
    have : ((s.openB.filter (fun p => !order.contains p.1)).map (·.1)) = [] := by
      have h' := h
      unfold keysOf at h'
      rw [List.filter_map] at h'
      exact h'
    exact List.map_eq_nil_iff.mp this

/-! ## distinct keys is an invariant -/

theorem keys_map_replace (l : List (PKey × Batch)) (pk : PKey) (b : Batch) :
    (l.map fun p => if p.1 == pk then (pk, b) else p).map (·.1) = l.map (·.1) := by
  rw [List.map_map]
  apply List.map_congr_left
  intro p _
  by_cases h : p.1 = pk <;> simp [h]

theorem keysNodup_setOpen {s : State} (h : KeysNodup s) (pk : PKey) (b : Batch) : KeysNodup (setOpen s pk b) := by
  unfold KeysNodup keysOf setOpen at *
  by_cases hany : s.openB.any (fun p => p.1 == pk) = true
  · rw [if_pos hany]; simp only []; rw [keys_map_replace]; exact h
  · rw [if_neg hany]
    simp only [List.map_append, List.map_cons, List.map_nil]
    rw [List.nodup_append]
    refine ⟨h, by simp, ?_⟩
    intro a ha x hx
    simp at hx; subst hx
    intro heq; subst heq
    apply hany
    rw [List.any_eq_true]
    obtain ⟨p, hp, hk⟩ := List.mem_map.mp ha
    exact ⟨p, hp, by simp [hk]⟩

theorem keysNodup_delOpen {s : State} (h : KeysNodup s) (pk : PKey) : KeysNodup (delOpen s pk) := by
  unfold KeysNodup keysOf delOpen at *
  simp only []
  exact List.Nodup.sublist (List.Sublist.map _ List.filter_sublist) h

theorem keysNodup_of_openB_eq {s s' : State} (h : KeysNodup s) (he : s'.openB = s.openB) : KeysNodup s' := by
  unfold KeysNodup keysOf at *; rw [he]; exact h

theorem reach_keysNodup {K : Kind} {cfg : Cfg} {g : List Msg} {acc : State × List Ev} (h : Reach K cfg g acc) :
    KeysNodup acc.1 := by
  induction h with
  | init => simp [KeysNodup, keysOf]
  | create pk _ _ ih => exact keysNodup_setOpen ih pk _
  | noteCommit m _ ih => exact keysNodup_of_openB_eq ih (by simp only [noteCommit]; split <;> rfl)
  | noteKey m _ ih => exact keysNodup_of_openB_eq ih (by simp only [noteKey]; split <;> rfl)
  | sendReplace pk b _ _ ih =>
    exact keysNodup_setOpen (keysNodup_of_openB_eq ih (sendBatch_openB _ _ _)) pk _
  | sendDel pk b _ _ ih =>
    exact keysNodup_delOpen (keysNodup_of_openB_eq ih (sendBatch_openB _ _ _)) pk
  | add m b b' st _ _ _ _ ih =>
    exact keysNodup_of_openB_eq (keysNodup_setOpen ih m.pkey b') rfl

end PgBifrost.Batcher
