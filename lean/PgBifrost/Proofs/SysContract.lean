import PgBifrost.Proofs.SysOrder2
/-!
# L2: the ledger trace of the composed system satisfies `Contract` (and `NoStale` without redelivery)
-/
namespace PgBifrost.Sys
open PgBifrost.Batch PgBifrost.Batcher
open PgBifrost.LedgerSimple (seenAt mentAt wsum Contract NoStale)

theorem pair_sublist {α : Type} : ∀ {l : List α} {i j : Nat} {a b : α}, i < j → l[i]? = some a → l[j]? = some b →
    [a, b].Sublist l := by
  intro l
  induction l with
  | nil => intro i j a b _ h; simp at h
  | cons x xs ih =>
    intro i j a b hij ha hb
    cases i with
    | zero =>
      cases j with
      | zero => omega
      | succ j' =>
        simp at ha hb; subst ha
        exact List.Sublist.cons_cons _ (List.singleton_sublist.mpr (List.mem_of_getElem? hb))
    | succ i' =>
      cases j with
      | zero => omega
      | succ j' =>
        simp at ha hb
        exact List.Sublist.cons _ (ih (by omega) ha hb)

theorem length_filter_mono {α : Type} {p q : α → Bool} (h : ∀ a, p a = true → q a = true) :
    ∀ l : List α, (l.filter p).length ≤ (l.filter q).length := by
  intro l
  induction l with
  | nil => simp
  | cons a r ih =>
    simp only [List.filter_cons]
    by_cases hp : p a = true
    · simp [hp, h a hp]; exact ih
    · by_cases hq : q a = true
      · simp [hp, hq]; omega
      · simp [hp, hq]; exact ih

/-- everything the contract proof needs about a reachable state, collected -/
structure Facts (r : Bool) (K : Kind) (big bad : Msg → Bool) (dom : Msg → Prop) (bcfg : Batcher.Cfg) (s : SysState) (gs : GState) : Prop where
  kind : KindOK K big bad dom
  reach : Reach K bcfg (dataMsgs s.ops) (s.bat, s.evs)
  hist : s.ledger = Ledger.run s.trace ∧ s.sinkAccepted = s.accB.flatMap (·.payload)
  ginv : GInv r (msgs s.ops) gs
  flow : Flow s
  ord : Ord s gs
  bat : (s.bat, s.evs) = Batcher.run K bcfg s.ops
  seenLog : seenEntries s.evs ++ s.bat.seenList = (track (msgs s.ops)).seens
  charges : ∀ key, chargedEvs s.evs key + chargedOpen s.bat key =
      ((dataMsgs s.ops).filter (fun m => m.key == key && (big m || !bad m))).length
  batLive : s.bat.dead = false

theorem facts_run {K : Kind} {big bad : Msg → Bool} {dom : Msg → Prop} (bcfg : Batcher.Cfg)
    (hK : KindOK K big bad dom) (r : Bool) (acts : List Act)
    (hdom : ∀ m ∈ fedMsgs acts, m.op = .data → dom m) (g : GState) (hg : gscan r (fedMsgs acts) = some g) :
    ∃ gs, gscan r (msgs (run ⟨K, bcfg⟩ acts).ops) = some gs ∧ Facts r K big bad dom bcfg (run ⟨K, bcfg⟩ acts) gs := by
  have hH := hist_run ⟨K, bcfg⟩ acts
  obtain ⟨rest, hrest⟩ := hH.fedPre
  rw [hrest] at hg
  obtain ⟨gs, hgs⟩ := gscan_prefix hg
  rw [← hrest] at hg
  have hdom' := dom_of_fed hH hdom
  have hR := run_reach hK.laws hK.noFatal bcfg _ hdom'
  have hnd := reach_not_dead hR
  have hbat := hH.bat
  simp only at hbat
  refine ⟨gs, hgs, hK, by rw [hbat]; exact hR, ⟨hH.led, hH.sink⟩, ginv_of_gscan _ hgs, flow_run bcfg hK acts hdom,
    ord_run bcfg hK r acts hdom g hg gs hgs, hbat, ?_, ?_, ?_⟩
  · have := (run_obs K bcfg _ hnd).2.2
    rw [← hbat] at this; exact this
  · intro key
    have := reach_charges hK.laws hR key
    rw [← hbat] at this; exact this
  · rw [← hbat] at hnd; exact hnd

section
variable {r : Bool} {K : Kind} {big bad : Msg → Bool} {dom : Msg → Prop} {bcfg : Batcher.Cfg} {s : SysState} {gs : GState}

theorem Facts.handed_mem (hF : Facts r K big bad dom bcfg s gs) {e : SeenE} (he : e ∈ seenEntries s.evs) :
    e ∈ (track (msgs s.ops)).seens := by
  rw [← hF.seenLog]; exact List.mem_append_left _ he

/-- a seen operation of the trace is a handed-over seen entry (and is marked real) -/
theorem Facts.seen_src (hF : Facts r K big bad dom bcfg s gs) {t k tot c : Nat} {rl : Bool}
    (h : Ledger.Op.seen t k tot c rl ∈ s.trace) : (⟨t, k, tot, c⟩ : SeenE) ∈ seenEntries s.evs ∧ rl = true := by
  have hm : Ledger.Op.seen t k tot c rl ∈ seenOps s.trace := List.mem_filter.mpr ⟨h, rfl⟩
  rw [hF.flow.seens] at hm
  obtain ⟨e, he, heq⟩ := List.mem_map.mp hm
  simp only [seenOp, Ledger.Op.seen.injEq] at heq
  obtain ⟨rfl, rfl, rfl, rfl, rfl⟩ := heq
  exact ⟨he, rfl⟩

/-- every operation of the trace that mentions a key names an input message of that key and its txn -/
theorem Facts.op_src (hF : Facts r K big bad dom bcfg s gs) {op : Ledger.Op} (hop : op ∈ s.trace) {k : Nat}
    (hk : op.key? = some k) : ∃ m ∈ msgs s.ops, m.key = k ∧ op.txn? = some m.txn := by
  cases op with
  | seen t k' tot c rl =>
    simp [Ledger.Op.key?] at hk; subst hk
    obtain ⟨_, _, _, _, c', hc', _, hck, hct, _⟩ := hF.ginv.seenE _ (hF.handed_mem (hF.seen_src hop).1)
    exact ⟨c', hc', hck, by simp [Ledger.Op.txn?]; exact hct.symm⟩
  | written t k' n =>
    simp [Ledger.Op.key?] at hk; subst hk
    obtain ⟨_, m, hm, _, hmk, hmt⟩ := hF.flow.txtr t k' n hop
    exact ⟨m, hm, hmk, by simp [Ledger.Op.txn?]; exact hmt.symm⟩
  | emit => simp [Ledger.Op.key?] at hk

/-- the seen operations of the trace, in order, have pairwise distinct keys and increasing commits -/
theorem Facts.seen_pairwise (hF : Facts r K big bad dom bcfg s gs) :
    (seenOps s.trace).Pairwise (fun a b => ∀ t1 k1 tot1 c1 r1 t2 k2 tot2 c2 r2,
      a = Ledger.Op.seen t1 k1 tot1 c1 r1 → b = Ledger.Op.seen t2 k2 tot2 c2 r2 → k1 ≠ k2 ∧ c1 < c2) := by
  rw [hF.flow.seens, List.pairwise_map]
  have h1 : (track (msgs s.ops)).seens.Pairwise (fun a b => a.key ≠ b.key) :=
    List.pairwise_map.mp hF.ginv.seenNodup
  have h2 := h1.and hF.ginv.seenCommits
  have hsub : (seenEntries s.evs).Sublist (track (msgs s.ops)).seens := by
    rw [← hF.seenLog]; exact List.sublist_append_left _ _
  refine (h2.sublist hsub).imp ?_
  intro a b hab t1 k1 tot1 c1 r1 t2 k2 tot2 c2 r2 ha hb
  simp only [seenOp, Ledger.Op.seen.injEq] at ha hb
  obtain ⟨_, rfl, _, rfl, _⟩ := ha
  obtain ⟨_, rfl, _, rfl, _⟩ := hb
  exact hab

theorem Facts.seen_lt (hF : Facts r K big bad dom bcfg s gs) {i j : Nat} {t1 k1 tot1 c1 : Nat} {r1 : Bool}
    {t2 k2 tot2 c2 : Nat} {r2 : Bool} (hij : i < j)
    (h1 : s.trace[i]? = some (Ledger.Op.seen t1 k1 tot1 c1 r1))
    (h2 : s.trace[j]? = some (Ledger.Op.seen t2 k2 tot2 c2 r2)) : k1 ≠ k2 ∧ c1 < c2 := by
  have hsub := (pair_sublist hij h1 h2).filter isSeenOp
  have : [Ledger.Op.seen t1 k1 tot1 c1 r1, Ledger.Op.seen t2 k2 tot2 c2 r2].filter isSeenOp =
      [Ledger.Op.seen t1 k1 tot1 c1 r1, Ledger.Op.seen t2 k2 tot2 c2 r2] := by simp [isSeenOp]
  rw [this] at hsub
  have := List.pairwise_pair.mp (hF.seen_pairwise.sublist hsub)
  exact this _ _ _ _ _ _ _ _ _ _ rfl rfl

/-- what the tracker was told as written never exceeds the number of data messages of the key -/
theorem Facts.wsum_le_dcount (hF : Facts r K big bad dom bcfg s gs) (k : Nat) :
    wsum s.trace k ≤ dcount (msgs s.ops) k := by
  have h1 := hF.flow.num k
  have h2 := hF.charges k
  have h3 : ((dataMsgs s.ops).filter (fun m => m.key == k && (big m || !bad m))).length ≤ dcount (msgs s.ops) k := by
    unfold dataMsgs dcount
    rw [List.filter_filter]
    apply length_filter_mono
    intro a ha
    simp only [Bool.and_eq_true] at ha ⊢
    exact ⟨ha.2, ha.1.1⟩
  omega

theorem Facts.contract (hF : Facts r K big bad dom bcfg s gs) : Contract s.trace := by
  refine ⟨?_, ?_, ?_, ?_, ?_, ?_⟩
  · -- seen_unique
    intro i j k ⟨t1, tot1, c1, r1, h1⟩ ⟨t2, tot2, c2, r2, h2⟩
    rcases Nat.lt_trichotomy i j with h | h | h
    · exact absurd rfl (hF.seen_lt h h1 h2).1
    · exact h
    · exact absurd rfl (hF.seen_lt h h2 h1).1
  · -- seen_mono
    intro i j t1 k1 tot1 c1 r1 t2 k2 tot2 c2 r2 hij h1 h2
    have := (hF.seen_lt hij h1 h2).2
    exact ⟨by omega, fun _ => this⟩
  · -- wsum_le
    intro i t k tot c rl h
    have hmem := hF.handed_mem (hF.seen_src (List.mem_of_getElem? h)).1
    have := (hF.ginv.seenE _ hmem).2.2.1
    simp only at this
    rw [this]
    exact hF.wsum_le_dcount k
  · -- written_pos
    intro i t k n h
    exact (hF.flow.txtr t k n (List.mem_of_getElem? h)).1
  · exact hF.ord.order
  · -- key_txn
    intro i j op1 op2 k h1 h2 hk1 hk2
    obtain ⟨m1, hm1, hmk1, ht1⟩ := hF.op_src (List.mem_of_getElem? h1) hk1
    obtain ⟨m2, hm2, hmk2, ht2⟩ := hF.op_src (List.mem_of_getElem? h2) hk2
    rw [ht1, ht2, hF.ginv.keyTxn m1 hm1 m2 hm2 (by rw [hmk1, hmk2])]

/-- without redelivery no two delivery keys share a transaction id: `NoStale` holds vacuously -/
theorem Facts.noStale (hF : Facts false K big bad dom bcfg s gs) : NoStale s.trace := by
  constructor
  intro i j op1 op2 t k1 k2 _ h1 h2 ht1 ht2 hk1 hk2 hne
  exfalso
  obtain ⟨m1, hm1, hmk1, ht1'⟩ := hF.op_src (List.mem_of_getElem? h1) hk1
  obtain ⟨m2, hm2, hmk2, ht2'⟩ := hF.op_src (List.mem_of_getElem? h2) hk2
  rw [ht1] at ht1'; rw [ht2] at ht2'
  have : m1.txn = m2.txn := by
    rw [← Option.some.inj ht1', ← Option.some.inj ht2']
  have := hF.ginv.txnKey rfl m1 hm1 m2 hm2 this
  exact hne (by rw [← hmk1, ← hmk2, this])

end

end PgBifrost.Sys
