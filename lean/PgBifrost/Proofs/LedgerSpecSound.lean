import PgBifrost.Spec.Ledger
import PgBifrost.Proofs.LedgerSimple.Drain
/-!
# Soundness of the `Bool` monitors of `Spec/Ledger.lean`

`checkContract tr = true → Contract tr`, `checkNoStale tr = true → NoStale tr`: the runtime
monitors imply exactly the hypotheses the ledger theorems are stated under, and concrete traces
can be discharged by evaluation.
-/
namespace PgBifrost.Spec.Ledger
open PgBifrost.Ledger (Op)
open PgBifrost.LedgerSimple (wsum Contract NoStale seenAt mentAt AllDone AllSuperseded)

/-! ## membership in the index lists -/

theorem mem_idxs {tr : List Op} {i : Nat} {op : Op} : (i, op) ∈ idxs tr ↔ tr[i]? = some op := by
  unfold idxs
  rw [List.mem_iff_getElem?]
  constructor
  · rintro ⟨j, hj⟩
    rw [List.getElem?_zip_eq_some] at hj
    obtain ⟨h1, h2⟩ := hj
    obtain ⟨hlt, heq⟩ := List.getElem?_eq_some_iff.mp h1
    rw [List.getElem_range] at heq
    subst heq; exact h2
  · intro h
    have hlt : i < tr.length := by
      rcases Nat.lt_or_ge i tr.length with h' | h'
      · exact h'
      · rw [List.getElem?_eq_none h'] at h; cases h
    exact ⟨i, List.getElem?_zip_eq_some.mpr ⟨List.getElem?_range hlt, h⟩⟩

theorem mem_seens {tr : List Op} {i t k tot c : Nat} {r : Bool} :
    (i, t, k, tot, c, r) ∈ seens tr ↔ tr[i]? = some (Op.seen t k tot c r) := by
  unfold seens
  rw [List.mem_filterMap]
  constructor
  · rintro ⟨⟨j, op⟩, hmem, h⟩
    cases op with
    | seen t' k' tot' c' r' =>
      simp only [Option.some.injEq, Prod.mk.injEq] at h
      obtain ⟨rfl, rfl, rfl, rfl, rfl, rfl⟩ := h
      exact mem_idxs.mp hmem
    | written => simp at h
    | emit => simp at h
  · intro h
    exact ⟨(i, Op.seen t k tot c r), mem_idxs.mpr h, rfl⟩

theorem mem_mentions {tr : List Op} {i t k : Nat} :
    (i, t, k) ∈ mentions tr ↔ ∃ op, tr[i]? = some op ∧ op.txn? = some t ∧ op.key? = some k := by
  unfold mentions
  rw [List.mem_filterMap]
  constructor
  · rintro ⟨⟨j, op⟩, hmem, h⟩
    cases op with
    | seen t' k' tot' c' r' =>
      simp only [Op.txn?, Op.key?, Option.some.injEq, Prod.mk.injEq] at h
      obtain ⟨rfl, rfl, rfl⟩ := h
      exact ⟨_, mem_idxs.mp hmem, rfl, rfl⟩
    | written t' k' n' =>
      simp only [Op.txn?, Op.key?, Option.some.injEq, Prod.mk.injEq] at h
      obtain ⟨rfl, rfl, rfl⟩ := h
      exact ⟨_, mem_idxs.mp hmem, rfl, rfl⟩
    | emit => simp [Op.txn?] at h
  · rintro ⟨op, hg, ht, hk⟩
    refine ⟨(i, op), mem_idxs.mpr hg, ?_⟩
    simp only [ht, hk]

theorem txn_of_key {op : Op} {k : Nat} (h : op.key? = some k) : ∃ t, op.txn? = some t := by
  cases op with
  | seen t _ _ _ _ => exact ⟨t, rfl⟩
  | written t _ _ => exact ⟨t, rfl⟩
  | emit => cases h

theorem mem_mentions_of_mentAt {tr : List Op} {i k : Nat} (h : mentAt tr i k) :
    ∃ t, (i, t, k) ∈ mentions tr := by
  obtain ⟨op, hg, hk⟩ := h
  obtain ⟨t, ht⟩ := txn_of_key hk
  exact ⟨t, mem_mentions.mpr ⟨op, hg, ht, hk⟩⟩

theorem mem_seens_of_seenAt {tr : List Op} {i k : Nat} (h : seenAt tr i k) :
    ∃ t tot c r, (i, t, k, tot, c, r) ∈ seens tr := by
  obtain ⟨t, tot, c, r, hg⟩ := h
  exact ⟨t, tot, c, r, mem_seens.mpr hg⟩

/-! ## `eraseDups` keeps the length only on duplicate-free lists -/

theorem length_eraseDups_le : ∀ (n : Nat) (l : List Nat), l.length ≤ n → l.eraseDups.length ≤ l.length := by
  intro n
  induction n with
  | zero =>
    intro l h
    have : l = [] := List.eq_nil_of_length_eq_zero (by omega)
    subst this; simp
  | succ n ih =>
    intro l h
    cases l with
    | nil => simp
    | cons a as =>
      rw [List.eraseDups_cons]
      have h1 := List.length_filter_le (fun b => !b == a) as
      have h2 := ih (as.filter fun b => !b == a) (by simp only [List.length_cons] at h; omega)
      simp only [List.length_cons]; omega

theorem nodup_of_length_eraseDups : ∀ (n : Nat) (l : List Nat), l.length ≤ n →
    l.eraseDups.length = l.length → l.Nodup := by
  intro n
  induction n with
  | zero =>
    intro l h _
    have : l = [] := List.eq_nil_of_length_eq_zero (by omega)
    subst this; simp
  | succ n ih =>
    intro l h heq
    cases l with
    | nil => simp
    | cons a as =>
      rw [List.eraseDups_cons] at heq
      simp only [List.length_cons] at heq h
      have h1 := List.length_filter_le (fun b => !b == a) as
      have h2 := length_eraseDups_le _ (as.filter fun b => !b == a) (Nat.le_refl _)
      have hlen : (as.filter fun b => !b == a).length = as.length := by omega
      have hall := List.length_filter_eq_length_iff.mp hlen
      have hfil : as.filter (fun b => !b == a) = as := List.filter_eq_self.mpr hall
      rw [hfil] at heq
      rw [List.nodup_cons]
      refine ⟨?_, ih as (by omega) (by omega)⟩
      intro hmem
      have := hall a hmem
      simp at this

theorem eq_of_nodup_map' {α β : Type} {f : α → β} {l : List α} (h : (l.map f).Nodup) {a b : α}
    (ha : a ∈ l) (hb : b ∈ l) (hab : f a = f b) : a = b := by
  induction l with
  | nil => cases ha
  | cons x r ih =>
    rw [List.map_cons, List.nodup_cons] at h
    rcases List.mem_cons.mp ha with ha' | ha' <;> rcases List.mem_cons.mp hb with hb' | hb'
    · rw [ha', hb']
    · rw [← ha'] at h; exact absurd (hab ▸ List.mem_map.mpr ⟨b, hb', rfl⟩) h.1
    · rw [← hb'] at h; exact absurd (hab ▸ List.mem_map.mpr ⟨a, ha', rfl⟩) h.1
    · exact ih h.2 ha' hb'

theorem bool_imp {a b : Bool} (h : (!a || b) = true) (ha : a = true) : b = true := by
  cases a <;> cases b <;> simp_all

/-! ## the six contract clauses -/

theorem seenUnique_sound {tr : List Op} (h : seenUnique tr = true) :
    ∀ (i j k : Nat), seenAt tr i k → seenAt tr j k → i = j := by
  unfold seenUnique at h
  simp only [beq_iff_eq] at h
  have hnd := nodup_of_length_eraseDups _ _ (Nat.le_refl _) h.symm
  intro i j k hi hj
  obtain ⟨t1, tot1, c1, r1, h1⟩ := mem_seens_of_seenAt hi
  obtain ⟨t2, tot2, c2, r2, h2⟩ := mem_seens_of_seenAt hj
  have := eq_of_nodup_map' hnd h1 h2 rfl
  simp only [Prod.mk.injEq] at this
  exact this.1

theorem seenMono_sound {tr : List Op} (h : seenMono tr = true) :
    ∀ (i j t1 k1 tot1 c1 : Nat) (r1 : Bool) (t2 k2 tot2 c2 : Nat) (r2 : Bool), i < j →
      tr[i]? = some (Op.seen t1 k1 tot1 c1 r1) → tr[j]? = some (Op.seen t2 k2 tot2 c2 r2) →
      c1 ≤ c2 ∧ (r2 = true → c1 < c2) := by
  unfold seenMono at h
  simp only [List.all_eq_true] at h
  intro i j t1 k1 tot1 c1 r1 t2 k2 tot2 c2 r2 hij h1 h2
  have := h _ (mem_seens.mpr h1) _ (mem_seens.mpr h2)
  simp only [Bool.or_eq_true, decide_eq_false_iff_not, Bool.and_eq_true,
    decide_eq_true_eq, Bool.not_eq_eq_eq_not, Bool.not_true] at this
  rcases this with h' | ⟨h3, h4⟩
  · exact absurd hij h'
  · refine ⟨h3, fun hr => ?_⟩
    rcases h4 with h4 | h4
    · rw [hr] at h4; cases h4
    · exact h4

theorem wsumLe_sound {tr : List Op} (h : wsumLe tr = true) :
    ∀ (i t k tot c : Nat) (r : Bool), tr[i]? = some (Op.seen t k tot c r) → wsum tr k ≤ tot := by
  unfold wsumLe at h
  simp only [List.all_eq_true] at h
  intro i t k tot c r hg
  have := h _ (mem_seens.mpr hg)
  simpa using this

theorem writtenPos_sound {tr : List Op} (h : writtenPos tr = true) :
    ∀ (i t k n : Nat), tr[i]? = some (Op.written t k n) → 0 < n := by
  unfold writtenPos at h
  simp only [List.all_eq_true] at h
  intro i t k n hg
  have := h _ (List.mem_of_getElem? hg)
  simpa using this

theorem orderOk_sound {tr : List Op} (h : orderOk tr = true) :
    ∀ (i j m kj k1 : Nat), i < j → j < m → mentAt tr i kj → seenAt tr j k1 → seenAt tr m kj → False := by
  unfold orderOk at h
  simp only [List.all_eq_true] at h
  intro i j m kj k1 hij hjm hi hj hm
  obtain ⟨t0, h0⟩ := mem_mentions_of_mentAt hi
  obtain ⟨t1, tot1, c1, r1, h1⟩ := mem_seens_of_seenAt hj
  obtain ⟨t2, tot2, c2, r2, h2⟩ := mem_seens_of_seenAt hm
  have := h _ h1 _ h2
  simp only [Bool.or_eq_true, Bool.not_eq_true', decide_eq_false_iff_not, List.all_eq_true] at this
  rcases this with h' | h'
  · exact h' hjm
  · have := h' _ h0
    simp [hij] at this

theorem keyTxn_sound {tr : List Op} (h : keyTxn tr = true) :
    ∀ (i j : Nat) (op1 op2 : Op) (k : Nat), tr[i]? = some op1 → tr[j]? = some op2 →
      op1.key? = some k → op2.key? = some k → op1.txn? = op2.txn? := by
  unfold keyTxn at h
  simp only [List.all_eq_true] at h
  intro i j op1 op2 k h1 h2 hk1 hk2
  obtain ⟨t1, ht1⟩ := txn_of_key hk1
  obtain ⟨t2, ht2⟩ := txn_of_key hk2
  have := h _ (mem_mentions.mpr ⟨op1, h1, ht1, hk1⟩) _ (mem_mentions.mpr ⟨op2, h2, ht2, hk2⟩)
  simp at this
  rw [ht1, ht2, this]

/-- **Monitor soundness (contract).** -/
theorem checkContract_sound {tr : List Op} (h : checkContract tr = true) : Contract tr := by
  unfold checkContract at h
  simp only [Bool.and_eq_true] at h
  obtain ⟨⟨⟨⟨⟨h1, h2⟩, h3⟩, h4⟩, h5⟩, h6⟩ := h
  exact ⟨seenUnique_sound h1, seenMono_sound h2, wsumLe_sound h3, writtenPos_sound h4,
    orderOk_sound h5, keyTxn_sound h6⟩

/-- **Monitor soundness (E4, no stale keys).** -/
theorem checkNoStale_sound {tr : List Op} (h : checkNoStale tr = true) : NoStale tr := by
  unfold checkNoStale at h
  simp only [List.all_eq_true] at h
  constructor
  intro i j op1 op2 t k1 k2 hij h1 h2 ht1 ht2 hk1 hk2 hne
  have := h _ (mem_mentions.mpr ⟨op1, h1, ht1, hk1⟩) _ (mem_mentions.mpr ⟨op2, h2, ht2, hk2⟩)
  dsimp only at this
  have hb := bool_imp this (by simp [hij, hne])
  simp only [Bool.and_eq_true, List.all_eq_true] at hb
  obtain ⟨ha, hb⟩ := hb
  constructor
  · intro m hs
    obtain ⟨t', tot', c', r', hm⟩ := mem_seens_of_seenAt hs
    have := ha _ hm
    simp at this
  · intro m hjm hmt
    obtain ⟨t', hm⟩ := mem_mentions_of_mentAt hmt
    have := hb _ hm
    simp [hjm] at this

/-! ## `maxCommit` and the drain hypotheses -/

theorem foldl_max_le (c : Nat) : ∀ (l : List (Nat × Nat × Nat × Nat × Nat × Bool)) (m : Nat), m ≤ c →
    (∀ x ∈ l, x.2.2.2.2.1 ≤ c) → l.foldl (fun m (_, _, _, _, c, _) => max m c) m ≤ c := by
  intro l
  induction l with
  | nil => intro m hm _; exact hm
  | cons x r ih =>
    intro m hm h
    rw [List.foldl_cons]
    apply ih
    · have := h x (by simp)
      show max m x.2.2.2.2.1 ≤ c
      omega
    · intro y hy; exact h y (List.mem_cons_of_mem _ hy)

theorem le_foldl_max : ∀ (l : List (Nat × Nat × Nat × Nat × Nat × Bool)) (m : Nat),
    m ≤ l.foldl (fun m (_, _, _, _, c, _) => max m c) m ∧
    ∀ x ∈ l, x.2.2.2.2.1 ≤ l.foldl (fun m (_, _, _, _, c, _) => max m c) m := by
  intro l
  induction l with
  | nil => intro m; exact ⟨Nat.le_refl _, by intro x hx; cases hx⟩
  | cons x r ih =>
    intro m
    rw [List.foldl_cons]
    obtain ⟨h1, h2⟩ := ih (max m x.2.2.2.2.1)
    change m ≤ List.foldl _ (max m x.2.2.2.2.1) r ∧
      ∀ y ∈ x :: r, y.2.2.2.2.1 ≤ List.foldl _ (max m x.2.2.2.2.1) r
    refine ⟨by omega, ?_⟩
    intro y hy
    rcases List.mem_cons.mp hy with hy | hy
    · subst hy
      have : y.2.2.2.2.1 ≤ max m y.2.2.2.2.1 := by omega
      exact Nat.le_trans this h1
    · exact h2 y hy

/-- `maxCommit` is the largest commit of any `seen` -/
theorem maxCommit_eq {tr : List Op} {c : Nat}
    (hex : ∃ (i t k tot : Nat) (r : Bool), tr[i]? = some (Op.seen t k tot c r))
    (hmax : ∀ (i t k tot c' : Nat) (r : Bool), tr[i]? = some (Op.seen t k tot c' r) → c' ≤ c) :
    maxCommit tr = c := by
  unfold maxCommit
  apply Nat.le_antisymm
  · apply foldl_max_le c _ 0 (Nat.zero_le _)
    rintro ⟨i, t, k, tot, c', r⟩ hx
    exact hmax i t k tot c' r (mem_seens.mp hx)
  · obtain ⟨i, t, k, tot, r, hg⟩ := hex
    exact (le_foldl_max (seens tr) 0).2 _ (mem_seens.mpr hg)

/-- **Monitor soundness (drain hypotheses).** -/
theorem drainHyps_sound {tr : List Op} (h : drainHyps tr = true) : AllDone tr ∧ AllSuperseded tr := by
  unfold drainHyps at h
  simp only [Bool.and_eq_true, List.all_eq_true] at h
  obtain ⟨h1, h2⟩ := h
  constructor
  · intro i t k tot c r hg
    have := h1 _ (mem_seens.mpr hg)
    simpa using this
  · intro i op k hg hk hno
    obtain ⟨t, ht⟩ := txn_of_key hk
    have := h2 _ (mem_mentions.mpr ⟨op, hg, ht, hk⟩)
    dsimp only at this
    rw [Bool.or_eq_true] at this
    rcases this with hs | hm
    · exfalso
      rw [List.any_eq_true] at hs
      obtain ⟨⟨j, t', k', tot', c', r'⟩, hmem, heq⟩ := hs
      simp only [beq_iff_eq] at heq
      subst heq
      exact hno j ⟨t', tot', c', r', mem_seens.mp hmem⟩
    · rw [List.any_eq_true] at hm
      obtain ⟨⟨j, t', k'⟩, hmem, hcond⟩ := hm
      simp only [Bool.and_eq_true, beq_iff_eq, bne_iff_ne, ne_eq, List.all_eq_true] at hcond
      obtain ⟨⟨htt, hkk⟩, hall⟩ := hcond
      obtain ⟨op', hg', ht', hk'⟩ := mem_mentions.mp hmem
      refine ⟨j, op', k', hg', hk', hkk, by rw [ht', ht, htt], ?_⟩
      intro m hm
      obtain ⟨tm, hmm⟩ := mem_mentions_of_mentAt hm
      have := hall _ hmm
      simpa using this

end PgBifrost.Spec.Ledger
