import PgBifrost.Proofs.SysOrder
/-!
# The order invariant is preserved by every step (`ord_run`)
-/
namespace PgBifrost.Sys
open PgBifrost.Batch PgBifrost.Batcher
open PgBifrost.LedgerSimple (seenAt mentAt)

theorem nodup_keys_disjoint {A B : List SeenE} (hn : ((A ++ B).map (·.key)).Nodup) {a b : SeenE}
    (ha : a ∈ A) (hb : b ∈ B) : a.key ≠ b.key := by
  rw [List.map_append] at hn
  exact (List.nodup_append.mp hn).2.2 a.key (List.mem_map.mpr ⟨a, ha, rfl⟩) b.key (List.mem_map.mpr ⟨b, hb, rfl⟩)

theorem commitEntry_ne_nil {s : State} {m : Msg} (h : commitEntry s m ≠ []) : m.op = .commit := by
  unfold commitEntry at h
  by_cases hc : m.op = .commit
  · exact hc
  · rw [if_neg hc] at h; exact absurd rfl h

theorem ord_batStep {K : Kind} {big bad : Msg → Bool} {dom : Msg → Prop} (hK : KindOK K big bad dom)
    (bcfg : Batcher.Cfg) (r : Bool) (s : SysState) (op : Batcher.Op) (gs gs' : GState)
    (hbat : (s.bat, s.evs) = Batcher.run K bcfg s.ops)
    (hF : Flow s) (hO : Ord s gs)
    (hgs' : gscan r (msgs (s.ops ++ [op])) = some gs')
    (hrel : (gs' = gs ∧ opEntry s.bat op = []) ∨ (∃ m, op = .msg m ∧ gstep r gs m = some gs'))
    (hdom : ∀ m ∈ dataMsgs (s.ops ++ [op]), dom m) :
    Ord (batStep ⟨K, bcfg⟩ s op) gs' := by
  obtain ⟨f1, f2, f3, f4, f5⟩ := batStep_facts hK bcfg s.ops op hdom
  rw [← hbat] at f1 f2 f3 f4 f5
  simp only at f1 f2 f3 f4 f5
  have hG' := ginv_of_gscan _ hgs'
  have hnd := hG'.seenNodup
  have f4' := f4 hnd
  rw [batStep_eq]
  -- names
  obtain ⟨H, hH⟩ : ∃ H, H = seenEntries (Batcher.step K bcfg s.bat op).2 := ⟨_, rfl⟩
  obtain ⟨P', hP'⟩ : ∃ P', P' = (Batcher.step K bcfg s.bat op).1.seenList := ⟨_, rfl⟩
  rw [← hH, ← hP'] at f2 f3
  rw [← hP'] at f4'
  have hintr : ∀ k ∈ gs.intr, k ∈ gs'.intr := by
    rcases hrel with ⟨h, _⟩ | ⟨m, _, h⟩
    · rw [h]; exact fun k hk => hk
    · exact gstep_intr_mono h
  have hHn : (H.map (·.key)).Nodup := by
    rw [f2, List.map_append, List.map_append] at hnd
    exact (List.nodup_append.mp (List.nodup_append.mp hnd).2.1).1
  have hHmem : ∀ e ∈ H, e ∈ (track (msgs (s.ops ++ [op]))).seens := by
    intro e he; rw [f2]; exact List.mem_append_right _ (List.mem_append_left _ he)
  -- the key of a sent, not yet seen, not interrupted delivery heads whatever is handed over now
  have headkey : ∀ k, sentKey s k → (∀ j, ¬ seenAt s.trace j k) → k ∉ gs.intr → H ≠ [] →
      ∃ e, H[0]? = some e ∧ e.key = k := by
    intro k hk hun hni hne
    rcases hO.sent k hk with ⟨e, he, hek⟩ | ⟨e, rest, hl, hek⟩ | ⟨hl, t, hcur⟩ | hd
    · obtain ⟨j, hj⟩ := handed_seenAt' hF he
      rw [hek] at hj; exact absurd hj (hun j)
    · rw [hl] at f3
      cases H with
      | nil => exact absurd rfl hne
      | cons e' H' =>
        simp only [List.cons_append, List.cons.injEq] at f3
        exact ⟨e', rfl, by rw [f3.1]; exact hek⟩
    · rw [hl, List.nil_append] at f3
      rcases hrel with ⟨_, h0⟩ | ⟨m, rfl, hst⟩
      · rw [h0] at f3
        cases H with
        | nil => exact absurd rfl hne
        | cons e' H' => simp at f3
      · simp only [opEntry] at f3
        have hce : commitEntry s.bat m ≠ [] := by
          intro h0; rw [h0] at f3
          cases H with
          | nil => exact absurd rfl hne
          | cons e' H' => simp at f3
        have hco := commitEntry_ne_nil hce
        rcases gstep_cases hst with ⟨hc, _⟩ | ⟨_, _, _, ho, _⟩ | ⟨k0, t0, hc, _, hmk, _⟩ | ⟨_, _, _, _, ho, _⟩
        · rw [hcur] at hc; cases hc
        · rw [hco] at ho; cases ho
        · rw [hcur] at hc
          simp only [Option.some.injEq, Prod.mk.injEq] at hc
          unfold commitEntry at f3
          rw [if_pos hco] at f3
          cases H with
          | nil => exact absurd rfl hne
          | cons e' H' =>
            simp only [List.cons_append, List.cons.injEq] at f3
            exact ⟨e', rfl, by rw [f3.1]; show m.key = k; rw [hmk, hc.1]⟩
        · rw [hco] at ho; cases ho
    · exact absurd hd hni
  refine ⟨?_, ?_, ?_⟩
  · -- sent
    intro k hk
    simp only at hk ⊢
    rw [seenEntries_append, ← hH, ← hP']
    have hsplit : sentKey s k ∨ ∃ d ∈ (Batcher.step K bcfg s.bat op).2, isSend d = true ∧ ∃ x ∈ txnsOf d, x.key = k := by
      rcases hk with ⟨t, n, h⟩ | ⟨t, ht, h⟩ | h | ⟨p, hp, h⟩
      · simp only at h
        rcases List.mem_append.mp h with h | h
        · exact Or.inl (Or.inl ⟨t, n, h⟩)
        · obtain ⟨e, _, he⟩ := List.mem_map.mp h
          cases he
      · simp only at ht
        rcases List.mem_append.mp ht with ht | ht
        · exact Or.inl (Or.inr (Or.inl ⟨t, ht, h⟩))
        · exact Or.inr ⟨_, mem_selfReported.mp ht, rfl, h⟩
      · exact Or.inl (Or.inr (Or.inr (Or.inl h)))
      · simp only at hp
        rcases List.mem_append.mp hp with hp | hp
        · exact Or.inl (Or.inr (Or.inr (Or.inr ⟨p, hp, h⟩)))
        · exact Or.inr ⟨_, mem_dispatchPairs.mp hp, rfl, h⟩
    rcases hsplit with hold | ⟨d, hd, hds, x, hx, hxk⟩
    · rcases hO.sent k hold with ⟨e, he, hek⟩ | ⟨e, rest, hl, hek⟩ | ⟨hl, t, hcur⟩ | hdd
      · exact Or.inl ⟨e, List.mem_append_left _ he, hek⟩
      · rw [hl] at f3
        cases H with
        | nil =>
          rw [List.nil_append] at f3
          exact Or.inr (Or.inl ⟨e, rest ++ opEntry s.bat op, by rw [f3]; rfl, hek⟩)
        | cons e' H' =>
          simp only [List.cons_append, List.cons.injEq] at f3
          exact Or.inl ⟨e', List.mem_append_right _ (by simp), by rw [f3.1]; exact hek⟩
      · rw [hl, List.nil_append] at f3
        rcases hrel with ⟨hg, h0⟩ | ⟨m, rfl, hst⟩
        · rw [h0] at f3
          have : P' = [] := (List.append_eq_nil_iff.mp f3).2
          exact Or.inr (Or.inr (Or.inl ⟨this, t, by rw [hg]; exact hcur⟩))
        · simp only [opEntry] at f3
          rcases gstep_cases hst with ⟨hc, _⟩ | ⟨k0, t0, hc, ho, _, _, hg⟩ | ⟨k0, t0, hc, ho, hmk, _⟩ |
              ⟨_, k0, t0, hc, _, _, _, hg⟩
          · rw [hcur] at hc; cases hc
          · have hce : commitEntry s.bat m = [] := by unfold commitEntry; rw [ho]; simp
            rw [hce] at f3
            have : P' = [] := (List.append_eq_nil_iff.mp f3).2
            exact Or.inr (Or.inr (Or.inl ⟨this, t, by rw [hg]; exact hcur⟩))
          · rw [hcur] at hc
            simp only [Option.some.injEq, Prod.mk.injEq] at hc
            unfold commitEntry at f3
            rw [if_pos ho] at f3
            cases H with
            | nil =>
              rw [List.nil_append] at f3
              exact Or.inr (Or.inl ⟨_, [], f3, by show m.key = k; rw [hmk, hc.1]⟩)
            | cons e' H' =>
              simp only [List.cons_append, List.cons.injEq] at f3
              exact Or.inl ⟨e', List.mem_append_right _ (by simp), by rw [f3.1]; show m.key = k; rw [hmk, hc.1]⟩
          · rw [hcur] at hc
            simp only [Option.some.injEq, Prod.mk.injEq] at hc
            right; right; right
            rw [hg, hc.1]; exact List.mem_cons_self
      · exact Or.inr (Or.inr (Or.inr (hintr k hdd)))
    · -- a key sent in this step
      have hP0 : P' = [] := f4' ⟨d, hd, hds⟩
      obtain ⟨_, m, hm, _, hmk, _⟩ := (f5 d hd).2 x hx
      rcases hG'.closed m hm with ⟨e, he, hek⟩ | ⟨t, hcur⟩ | hi
      · rw [f2, hP0, List.append_nil] at he
        exact Or.inl ⟨e, he, by rw [hek, hmk, hxk]⟩
      · exact Or.inr (Or.inr (Or.inl ⟨hP0, t, by rw [← hxk, ← hmk]; exact hcur⟩))
      · exact Or.inr (Or.inr (Or.inr (by rw [← hxk, ← hmk]; exact hi)))
  · -- late
    intro i k hm hun hni j k' hs
    simp only at hm hun hs
    rw [← hH] at hm hun hs
    rcases mentAt_append.mp hm with ⟨hi, hm'⟩ | ⟨hi, hm'⟩
    · have hun' : ∀ j, ¬ seenAt s.trace j k := fun j' h' =>
        hun j' (seenAt_append.mpr (Or.inl ⟨seenAt_lt h', h'⟩))
      have hni' : k ∉ gs.intr := fun h => hni (hintr k h)
      rcases seenAt_append.mp hs with ⟨_, hs'⟩ | ⟨hj, hs'⟩
      · exact hO.late i k hm' hun' hni' j k' hs'
      · exfalso
        obtain ⟨e', he', _⟩ := seenAt_seenMap.mp hs'
        have hne : H ≠ [] := by intro h0; rw [h0] at he'; simp at he'
        obtain ⟨e0, h0, h0k⟩ := headkey k (Or.inl (mentAt_written hm' (hun' i))) hun' hni' hne
        exact hun s.trace.length (seenAt_append.mpr (Or.inr ⟨Nat.le_refl _, by
          rw [Nat.sub_self]; exact seenAt_seenMap.mpr ⟨e0, h0, h0k⟩⟩))
    · exfalso
      exact hun i (seenAt_append.mpr (Or.inr ⟨hi, seenAt_seenMap.mpr (mentAt_seenMap.mp hm')⟩))
  · -- order
    intro i j m kj k1 hij hjm hm hs1 hs2
    simp only at hm hs1 hs2
    rw [← hH] at hm hs1 hs2
    rcases seenAt_append.mp hs2 with ⟨hm2, hs2'⟩ | ⟨hm2, hs2'⟩
    · rcases mentAt_append.mp hm with ⟨_, hm'⟩ | ⟨hi, _⟩
      · rcases seenAt_append.mp hs1 with ⟨_, hs1'⟩ | ⟨hj, _⟩
        · exact hO.order i j m kj k1 hij hjm hm' hs1' hs2'
        · omega
      · omega
    · obtain ⟨e2, he2, he2k⟩ := seenAt_seenMap.mp hs2'
      have he2H : e2 ∈ H := List.mem_of_getElem? he2
      have hunseen : ∀ j0, ¬ seenAt s.trace j0 kj := by
        intro j0 h0
        obtain ⟨e, he, hek⟩ := seenAt_handed hF h0
        have := nodup_keys_disjoint (A := seenEntries s.evs) (B := H ++ P') (by rw [← f2]; exact hnd) he
          (List.mem_append_left _ he2H)
        exact this (by rw [hek, he2k])
      have hni : kj ∉ gs.intr := by
        intro h
        have := (hG'.seenE e2 (hHmem e2 he2H)).2.2.2.1
        rw [he2k] at this
        exact this (hintr kj h)
      rcases mentAt_append.mp hm with ⟨_, hm'⟩ | ⟨hi, hm'⟩
      · rcases seenAt_append.mp hs1 with ⟨_, hs1'⟩ | ⟨hj, hs1'⟩
        · have := hO.late i kj hm' hunseen hni j k1 hs1'
          omega
        · obtain ⟨e1, he1, _⟩ := seenAt_seenMap.mp hs1'
          have hne : H ≠ [] := by intro h0; rw [h0] at he1; simp at he1
          obtain ⟨e0, h0, h0k⟩ := headkey kj (Or.inl (mentAt_written hm' (hunseen i))) hunseen hni hne
          have := keys_getElem?_inj hHn h0 he2 (by rw [h0k, he2k])
          omega
      · obtain ⟨e1, he1, he1k⟩ := mentAt_seenMap.mp hm'
        have := keys_getElem?_inj hHn he1 he2 (by rw [he1k, he2k])
        omega

end PgBifrost.Sys

namespace PgBifrost.Sys
open PgBifrost.Batch PgBifrost.Batcher
open PgBifrost.LedgerSimple (seenAt mentAt)

theorem ord_init : Ord ({} : SysState) ({} : GState) := by
  refine ⟨?_, ?_, ?_⟩
  · intro k hk
    rcases hk with ⟨t, n, h⟩ | ⟨t, ht, _⟩ | ⟨p, hp, _⟩ | ⟨p, hp, _⟩
    · cases h
    · cases ht
    · cases hp
    · cases hp
  · intro i k hm; exact absurd (mentAt_lt hm) (by simp)
  · intro i j m kj k1 _ _ hm; exact absurd (mentAt_lt hm) (by simp)

theorem ord_run {K : Kind} {big bad : Msg → Bool} {dom : Msg → Prop} (bcfg : Batcher.Cfg)
    (hK : KindOK K big bad dom) (r : Bool) :
    ∀ acts, (∀ m ∈ fedMsgs acts, m.op = .data → dom m) → ∀ g, gscan r (fedMsgs acts) = some g →
      ∀ gs, gscan r (msgs (run ⟨K, bcfg⟩ acts).ops) = some gs → Ord (run ⟨K, bcfg⟩ acts) gs := by
  apply run_ind ⟨K, bcfg⟩ (fun acts s => (∀ m ∈ fedMsgs acts, m.op = .data → dom m) →
    ∀ g, gscan r (fedMsgs acts) = some g → ∀ gs, gscan r (msgs s.ops) = some gs → Ord s gs)
  · intro _ g _ gs hgs
    rw [show msgs ({} : SysState).ops = [] from rfl, gscan_nil] at hgs
    cases hgs; exact ord_init
  · intro pre a ih hdom g hg gs' hgs'
    have hdom0 : ∀ m ∈ fedMsgs pre, m.op = .data → dom m :=
      fun m hm => hdom m (by rw [fedMsgs_snoc]; exact List.mem_append_left _ hm)
    rw [fedMsgs_snoc] at hg
    obtain ⟨g0, hg0⟩ := gscan_prefix hg
    have ih' := ih hdom0 g0 hg0
    have hF := flow_run bcfg hK pre hdom0
    have hH := hist_run ⟨K, bcfg⟩ pre
    have hH' := hist_run ⟨K, bcfg⟩ (pre ++ [a])
    rw [run_snoc] at hH'
    generalize run ⟨K, bcfg⟩ pre = s at ih' hF hH hH' hgs'
    cases hd : s.dead with
    | true => rw [step_dead a hd] at hgs' ⊢; exact ih' gs' hgs'
    | false =>
      rw [step_live a hd] at hH' hgs' ⊢
      cases hb : batOpOf a with
      | some op =>
        rw [stepLive_bat hb] at hH' hgs' ⊢
        have hops : (batStep ⟨K, bcfg⟩ s op).ops = s.ops ++ [op] := by rw [batStep_eq]
        rw [hops] at hgs'
        have hdom' := dom_of_fed hH' hdom
        rw [hops] at hdom'
        have hgs1 := hgs'
        rw [msgs_snoc_op] at hgs1
        obtain ⟨gs0, hgs0⟩ := gscan_prefix hgs1
        have hO := ih' gs0 hgs0
        refine ord_batStep hK bcfg r s op gs0 gs' hH.bat hF hO hgs' ?_ hdom'
        cases op with
        | msg m =>
          right
          refine ⟨m, rfl, ?_⟩
          have : msgOf (Batcher.Op.msg m) = [m] := rfl
          rw [this, gscan_snoc, hgs0] at hgs1
          exact hgs1
        | tick now t o =>
          left
          have : msgOf (Batcher.Op.tick now t o) = [] := rfl
          rw [this, List.append_nil, hgs0] at hgs1
          exact ⟨(Option.some.inj hgs1).symm, rfl⟩
      | none =>
        cases a with
        | feed m => simp [batOpOf] at hb
        | tick o => simp [batOpOf] at hb
        | take w =>
          simp only [stepLive] at hgs' ⊢
          split
          · rename_i hh; simp only [hh, if_true] at hgs'; exact ih' gs' hgs'
          · rename_i hh
            simp only [hh] at hgs'
            split
            · rename_i b q hq
              simp only [hq] at hgs'
              obtain ⟨q1, q2, h1, h2, _⟩ := popFirst_some hq
              refine ord_frame (ih' gs' hgs') rfl rfl rfl ?_
              intro k hk
              rcases hk with h | h | ⟨p, hp, h⟩ | ⟨p, hp, h⟩
              · exact Or.inl h
              · exact Or.inr (Or.inl h)
              · simp only at hp
                rcases List.mem_append.mp hp with hp | hp
                · exact Or.inr (Or.inr (Or.inl ⟨p, hp, h⟩))
                · simp at hp; subst hp
                  exact Or.inr (Or.inr (Or.inr ⟨(w, b), by rw [h1]; simp, h⟩))
              · simp only at hp
                rw [h2] at hp
                refine Or.inr (Or.inr (Or.inr ⟨p, ?_, h⟩))
                rw [h1]; rcases List.mem_append.mp hp with hp | hp <;> simp [hp]
            · rename_i hq; simp only [hq] at hgs'; exact ih' gs' hgs'
        | sinkAccept w =>
          simp only [stepLive] at hgs' ⊢
          split
          · rename_i b h hq
            simp only [hq] at hgs'
            obtain ⟨q1, q2, h1, h2, _⟩ := popFirst_some hq
            refine ord_frame (ih' gs' hgs') rfl rfl rfl ?_
            intro k hk
            rcases hk with hh | ⟨t, ht, hh⟩ | ⟨p, hp, hh⟩ | hh
            · exact Or.inl hh
            · simp only at ht
              rcases List.mem_append.mp ht with ht | ht
              · exact Or.inr (Or.inl ⟨t, ht, hh⟩)
              · simp at ht; subst ht
                exact Or.inr (Or.inr (Or.inl ⟨(w, b), by rw [h1]; simp, hh⟩))
            · simp only at hp
              rw [h2] at hp
              refine Or.inr (Or.inr (Or.inl ⟨p, ?_, hh⟩))
              rw [h1]; rcases List.mem_append.mp hp with hp | hp <;> simp [hp]
            · exact Or.inr (Or.inr (Or.inr hh))
          · rename_i hq; simp only [hq] at hgs'; exact ih' gs' hgs'
        | sinkRetry w => exact ih' gs' hgs'
        | trackWritten =>
          simp only [stepLive] at hgs' ⊢
          split
          · rename_i hw; simp only [hw] at hgs'; exact ih' gs' hgs'
          · rename_i t rest hw
            simp only [hw] at hgs'
            refine ord_append_noseen (ih' gs' hgs') (t.map writtenOp) rfl rfl rfl
              (fun i k => not_seenAt_writtenMap) ?_
            intro k hk
            rcases hk with ⟨t', n, hh⟩ | ⟨t', ht', hh⟩ | hh | hh
            · simp only [perform] at hh
              rcases List.mem_append.mp hh with hh | hh
              · exact Or.inl ⟨t', n, hh⟩
              · obtain ⟨x, hx, he⟩ := List.mem_map.mp hh
                simp only [writtenOp, Ledger.Op.written.injEq] at he
                exact Or.inr (Or.inl ⟨t, by rw [hw]; simp, x, hx, he.2.1⟩)
            · exact Or.inr (Or.inl ⟨t', by rw [hw]; exact List.mem_cons_of_mem _ ht', hh⟩)
            · exact Or.inr (Or.inr (Or.inl hh))
            · exact Or.inr (Or.inr (Or.inr hh))
        | emit =>
          simp only [stepLive] at hgs' ⊢
          refine ord_append_noseen (ih' gs' hgs') [.emit] rfl rfl rfl (fun i k => not_seenAt_emit) ?_
          intro k hk
          rcases hk with ⟨t', n, hh⟩ | hh | hh | hh
          · simp only [perform] at hh
            rcases List.mem_append.mp hh with hh | hh
            · exact Or.inl ⟨t', n, hh⟩
            · simp at hh
          · exact Or.inr (Or.inl hh)
          · exact Or.inr (Or.inr (Or.inl hh))
          · exact Or.inr (Or.inr (Or.inr hh))

end PgBifrost.Sys
