import PgBifrost.Spec.Kinesis
/-! Helper lemmas for C11 (core Lean only). -/
namespace PgBifrost.Proofs.Kinesis
open PgBifrost.KinesisRetry PgBifrost.Spec.Kinesis

variable {α : Type}

@[simp] theorem failedOf_nil_left (cs : List Bool) : failedOf ([] : List α) cs = [] := by
  cases cs <;> rfl

@[simp] theorem failedOf_nil_right (rs : List α) : failedOf rs [] = [] := by
  cases rs <;> rfl

@[simp] theorem failedOf_cons (r : α) (rs : List α) (c : Bool) (cs : List Bool) :
    failedOf (r :: rs) (c :: cs) = if c then r :: failedOf rs cs else failedOf rs cs := rfl

/-- the in-place loop: from read index `i`, write index `w ≤ i`, the first `w'` cells at the end are
the first `w` cells at the start followed by the failed records among `buf[i..]` -/
theorem compactLoop_spec (codes : List Bool) : ∀ (i w : Nat) (buf : List α),
    w ≤ i → i + codes.length ≤ buf.length →
    ∃ buf' w', compactLoop codes i w buf = some (buf', w') ∧
      buf'.take w' = buf.take w ++ failedOf (buf.drop i) codes := by
  induction codes with
  | nil => intro i w buf _ _; exact ⟨buf, w, rfl, by simp⟩
  | cons c cs ih =>
    intro i w buf hwi hlen
    simp only [List.length_cons] at hlen
    have hi : i < buf.length := by omega
    have hdrop : buf.drop i = buf[i] :: buf.drop (i + 1) := by
      simp
    cases c with
    | false =>
      obtain ⟨b', w', h1, h2⟩ := ih (i + 1) w buf (by omega) (by omega)
      refine ⟨b', w', ?_, ?_⟩
      · simp [compactLoop, h1]
      · rw [h2, hdrop]; simp only [failedOf_cons, Bool.false_eq_true, if_false]
    | true =>
      obtain ⟨b', w', h1, h2⟩ := ih (i + 1) (w + 1) (buf.set w buf[i]) (by omega) (by simp; omega)
      refine ⟨b', w', ?_, ?_⟩
      · simp [compactLoop, hi, h1]
      · rw [h2, hdrop]
        have hw : w < buf.length := by omega
        have e1 : (buf.set w buf[i]).take (w + 1) = buf.take w ++ [buf[i]] := by
          apply List.ext_getElem?
          intro k
          simp only [List.getElem?_take, List.getElem?_set, List.getElem?_append, List.length_take]
          by_cases hk : k < w
          · have : ¬ w = k := by omega
            simp [hk, this, Nat.min_eq_left (Nat.le_of_lt hw)]; omega
          · by_cases hk2 : k = w
            · subst hk2; simp [hw, Nat.min_eq_left (Nat.le_of_lt hw)]
            · have : ¬ k < w + 1 := by omega
              have h3 : ¬ w = k := by omega
              simp [hk, this, Nat.min_eq_left (Nat.le_of_lt hw)]
              omega
        have e2 : (buf.set w buf[i]).drop (i + 1) = buf.drop (i + 1) :=
          List.drop_set_of_lt (by omega)
        rw [e1, e2]; simp only [failedOf_cons, if_true, List.append_assoc, List.singleton_append]

/-- **the in-place compaction is the filter by failed positions** (and never panics) -/
theorem compact_eq_failedOf (recs : List α) (codes : List Bool) (h : codes.length = recs.length) :
    compact recs codes = some (failedOf recs codes) := by
  obtain ⟨b', w', h1, h2⟩ := compactLoop_spec codes 0 0 recs (Nat.le_refl _) (by omega)
  simp [compact, h1, h2]

/-- `failedOf` as a filter over positions -/
theorem failedOf_eq_filter (recs : List α) (codes : List Bool) :
    failedOf recs codes = ((recs.zip codes).filter (·.2)).map (·.1) := by
  induction recs generalizing codes with
  | nil => simp
  | cons r rs ih =>
    cases codes with
    | nil => simp
    | cons c cs => cases c <;> simp [ih]

theorem failedOf_sublist (recs : List α) (codes : List Bool) : (failedOf recs codes).Sublist recs := by
  induction recs generalizing codes with
  | nil => simp
  | cons r rs ih =>
    cases codes with
    | nil => simp
    | cons c cs =>
      cases c
      · simpa using (ih cs).cons r
      · simpa using (ih cs).cons_cons r

/-- a record of the request is either answered without error code or is in the retry list -/
theorem mem_accepted_or_failed (recs : List α) (codes : List Bool) (h : codes.length = recs.length)
    (r : α) (hr : r ∈ recs) :
    (∃ j : Nat, recs[j]? = some r ∧ codes[j]? = some false) ∨ r ∈ failedOf recs codes := by
  induction recs generalizing codes with
  | nil => cases hr
  | cons x xs ih =>
    cases codes with
    | nil => simp at h
    | cons c cs =>
      simp only [List.length_cons, Nat.add_right_cancel_iff] at h
      rcases List.mem_cons.mp hr with rfl | hr'
      · cases c
        · exact .inl ⟨0, by simp, by simp⟩
        · exact .inr (by simp)
      · rcases ih cs h hr' with ⟨j, h1, h2⟩ | h3
        · exact .inl ⟨j + 1, by simpa using h1, by simpa using h2⟩
        · cases c
          · exact .inr (by simpa using h3)
          · exact .inr (by simp [h3])

theorem outAt_tail (outs : List Outcome) (i : Nat) : outAt outs.tail i = outAt outs (i + 1) := by
  cases outs <;> simp [outAt]

theorem outAt_zero (outs : List Outcome) : outAt outs 0 = headOut outs := by
  cases outs <;> simp [outAt, headOut]

theorem count_true_zero {codes : List Bool} (h : codes.count true = 0) (j : Nat) (hj : j < codes.length) :
    codes[j]? = some false := by
  have : true ∉ codes := List.count_eq_zero.mp h
  have hm : codes[j] ∈ codes := List.getElem_mem hj
  cases hc : codes[j] with
  | false => simp [hj, hc]
  | true => rw [hc] at hm; exact absurd hm this

/-! ### one unfolding equation of `loop` per branch of the operation -/

theorem loop_cancelled (fuel : Nat) (cur : List α) (outs : List Outcome) (ho : headOut outs = .cancelled) :
    loop (fuel + 1) cur outs = (.cancelled, []) := by
  rw [loop, ho]

theorem loop_callError (fuel : Nat) (cur : List α) (outs : List Outcome) (ho : headOut outs = .callError) :
    loop (fuel + 1) cur outs = ((loop fuel cur outs.tail).1, cur :: (loop fuel cur outs.tail).2) := by
  rw [loop, ho]

theorem loop_success (fuel : Nat) (cur : List α) (outs : List Outcome) (codes : List Bool)
    (ho : headOut outs = .resp codes 0) : loop (fuel + 1) cur outs = (.written, [cur]) := by
  rw [loop, ho]; simp

theorem loop_mismatch (fuel : Nat) (cur : List α) (outs : List Outcome) (codes : List Bool) (fc : Nat)
    (ho : headOut outs = .resp codes fc) (hfc : fc ≠ 0) (hl : codes.length ≠ cur.length) :
    loop (fuel + 1) cur outs = (.panicSizeMismatch, [cur]) := by
  rw [loop, ho]; simp [hfc, hl]

theorem loop_partial (fuel : Nat) (cur : List α) (outs : List Outcome) (codes : List Bool) (fc : Nat)
    (ho : headOut outs = .resp codes fc) (hfc : fc ≠ 0) (hl : codes.length = cur.length) :
    loop (fuel + 1) cur outs =
      ((loop fuel (failedOf cur codes) outs.tail).1, cur :: (loop fuel (failedOf cur codes) outs.tail).2) := by
  rw [loop, ho]; simp [hfc, hl, compact_eq_failedOf cur codes hl]

/-- case analysis on one attempt -/
theorem loop_cases (fuel : Nat) (cur : List α) (outs : List Outcome) :
    (headOut outs = .cancelled ∧ loop (fuel + 1) cur outs = (.cancelled, [])) ∨
    (headOut outs = .callError ∧
      loop (fuel + 1) cur outs = ((loop fuel cur outs.tail).1, cur :: (loop fuel cur outs.tail).2)) ∨
    (∃ codes, headOut outs = .resp codes 0 ∧ loop (fuel + 1) cur outs = (.written, [cur])) ∨
    (∃ codes fc, headOut outs = .resp codes fc ∧ fc ≠ 0 ∧ codes.length ≠ cur.length ∧
      loop (fuel + 1) cur outs = (.panicSizeMismatch, [cur])) ∨
    (∃ codes fc, headOut outs = .resp codes fc ∧ fc ≠ 0 ∧ codes.length = cur.length ∧
      loop (fuel + 1) cur outs =
        ((loop fuel (failedOf cur codes) outs.tail).1, cur :: (loop fuel (failedOf cur codes) outs.tail).2)) := by
  cases ho : headOut outs with
  | cancelled => exact .inl ⟨rfl, loop_cancelled fuel cur outs ho⟩
  | callError => exact .inr (.inl ⟨rfl, loop_callError fuel cur outs ho⟩)
  | resp codes fc =>
    by_cases hfc : fc = 0
    · subst hfc; exact .inr (.inr (.inl ⟨codes, rfl, loop_success fuel cur outs codes ho⟩))
    · by_cases hl : codes.length = cur.length
      · exact .inr (.inr (.inr (.inr ⟨codes, fc, rfl, hfc, hl, loop_partial fuel cur outs codes fc ho hfc hl⟩)))
      · exact .inr (.inr (.inr (.inl ⟨codes, fc, rfl, hfc, hl, loop_mismatch fuel cur outs codes fc ho hfc hl⟩)))

theorem contract_tail {outs : List Outcome} {cur : List α} {rest : List (List α)}
    (hc : AwsContract outs (cur :: rest)) : AwsContract outs.tail rest := by
  intro i c hic
  rw [outAt_tail]
  exact hc (i + 1) c (by simpa using hic)

theorem acceptedAt_tail (outs : List Outcome) (i j : Nat) :
    acceptedAt outs.tail i j = acceptedAt outs (i + 1) j := by
  simp [acceptedAt, outAt_tail]

theorem loop_written (fuel : Nat) : ∀ (cur : List α) (outs : List Outcome) (calls : List (List α)),
    loop fuel cur outs = (.written, calls) → AwsContract outs calls →
    ∀ r ∈ cur, ∃ (i j : Nat) (c : List α), calls[i]? = some c ∧ c[j]? = some r ∧ acceptedAt outs i j = true := by
  induction fuel with
  | zero => intro cur outs calls h; simp [loop] at h
  | succ fuel ih =>
    intro cur outs calls h hc r hr
    rcases loop_cases fuel cur outs with ⟨_, e⟩ | ⟨_, e⟩ | ⟨codes, ho, e⟩ | ⟨codes, fc, _, _, _, e⟩ |
        ⟨codes, fc, ho, hfc, hl, e⟩
    · rw [e] at h; simp at h
    · -- whole-call error: the same records again
      rw [e] at h
      simp only [Prod.mk.injEq] at h
      obtain ⟨h1, h2⟩ := h
      subst h2
      obtain ⟨i, j, c, e1, e2, e3⟩ := ih cur outs.tail _ (Prod.ext h1 rfl) (contract_tail hc) r hr
      exact ⟨i + 1, j, c, by simpa using e1, e2, by rw [← acceptedAt_tail]; exact e3⟩
    · -- FailedRecordCount = 0
      rw [e] at h
      simp only [Prod.mk.injEq, true_and] at h
      subst h
      have h0 := hc 0 cur (by simp)
      rw [outAt_zero, ho] at h0
      simp only [respOk, Bool.and_eq_true, beq_iff_eq] at h0
      obtain ⟨hl, hcnt⟩ := h0
      obtain ⟨j, hj, hjr⟩ := List.mem_iff_getElem.mp hr
      refine ⟨0, j, cur, by simp, by simp [hj, hjr], ?_⟩
      have := count_true_zero (codes := codes) (by omega) j (by omega)
      simp [acceptedAt, outAt_zero, ho, this]
    · rw [e] at h; simp at h
    · rw [e] at h
      simp only [Prod.mk.injEq] at h
      obtain ⟨h1, h2⟩ := h
      subst h2
      rcases mem_accepted_or_failed cur codes hl r hr with ⟨j, hj1, hj2⟩ | hf
      · exact ⟨0, j, cur, by simp, hj1, by simp [acceptedAt, outAt_zero, ho, hj2]⟩
      · obtain ⟨i, j, c, e1, e2, e3⟩ := ih _ outs.tail _ (Prod.ext h1 rfl) (contract_tail hc) r hf
        exact ⟨i + 1, j, c, by simpa using e1, e2, by rw [← acceptedAt_tail]; exact e3⟩

theorem loop_calls_head (fuel : Nat) (cur : List α) (outs : List Outcome) :
    (loop fuel cur outs).2 = [] ∨ (loop fuel cur outs).2.head? = some cur := by
  cases fuel with
  | zero => simp [loop]
  | succ fuel =>
    rcases loop_cases fuel cur outs with ⟨_, e⟩ | ⟨_, e⟩ | ⟨_, _, e⟩ | ⟨_, _, _, _, _, e⟩ | ⟨_, _, _, _, _, e⟩ <;>
      rw [e] <;> simp

theorem loop_retry (fuel : Nat) : ∀ (cur : List α) (outs : List Outcome) (n : Nat) (a b : List α),
    (loop fuel cur outs).2[n]? = some a → (loop fuel cur outs).2[n + 1]? = some b →
    b = nextOf a (outAt outs n) := by
  induction fuel with
  | zero => intro cur outs n a b h; simp [loop] at h
  | succ fuel ih =>
    intro cur outs n a b ha hb
    have step : ∀ (next : List α), nextOf cur (headOut outs) = next →
        (loop (fuel + 1) cur outs).2 = cur :: (loop fuel next outs.tail).2 → b = nextOf a (outAt outs n) := by
      intro next hnext e
      rw [e] at ha hb
      cases n with
      | zero =>
        simp only [List.getElem?_cons_zero, Option.some.injEq] at ha
        simp only [Nat.zero_add, List.getElem?_cons_succ] at hb
        rcases loop_calls_head fuel next outs.tail with h | h
        · rw [h] at hb; simp at hb
        · rw [← List.head?_eq_getElem?, h] at hb
          simp only [Option.some.injEq] at hb
          rw [outAt_zero, ← ha, ← hb, hnext]
      | succ n =>
        simp only [List.getElem?_cons_succ] at ha hb
        rw [← outAt_tail]
        exact ih next outs.tail n a b ha hb
    rcases loop_cases fuel cur outs with ⟨_, e⟩ | ⟨ho, e⟩ | ⟨_, _, e⟩ | ⟨_, _, _, _, _, e⟩ | ⟨codes, fc, ho, _, _, e⟩
    · rw [e] at ha; simp at ha
    · exact step cur (by rw [ho]; rfl) (by rw [e])
    · rw [e] at hb; simp at hb
    · rw [e] at hb; simp at hb
    · exact step (failedOf cur codes) (by rw [ho]; rfl) (by rw [e])

theorem processBatch_giveup (budget : Nat) (j : Job α) (h : (processBatch budget j).result ≠ .written) :
    (processBatch budget j).reported = none ∧ (processBatch budget j).writtenStat = none := by
  unfold processBatch at h ⊢
  split <;> simp_all

theorem processBatch_written (budget : Nat) (j : Job α) (h : (processBatch budget j).result = .written) :
    (processBatch budget j).reported = some j.txns := by
  unfold processBatch at h ⊢
  split <;> simp_all

end PgBifrost.Proofs.Kinesis
