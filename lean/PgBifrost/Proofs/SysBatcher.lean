import PgBifrost.Proofs.SysGrammar
import PgBifrost.Proofs.BatcherSeenOrder
import PgBifrost.Proofs.BatcherRouting
/-!
# Batcher facts the system composition needs in addition to C04's

* every batch that is sent or open was built from data messages OF THE INPUT (`BuiltIn`), hence
  every entry of its `txns` names (delivery key, transaction id) of an input data message, with a
  count ≥ 1 and pairwise distinct keys (`TxOK`);
* the shape of the event list of one batcher step: once it contains a dispatch / self-report, the
  whole pending seen list has been handed over before (`step_shape`).
-/
namespace PgBifrost.Sys
open PgBifrost.Batch PgBifrost.Batcher

/-- built from data messages that are among `g` -/
def BuiltIn (K : Kind) (g : List Msg) (b : Batch) : Prop := ∃ adds, Built K b adds ∧ ∀ m ∈ adds, m ∈ g

theorem BuiltIn.mono {K : Kind} {g g' : List Msg} {b : Batch} (h : BuiltIn K g b) (hg : ∀ m ∈ g, m ∈ g') :
    BuiltIn K g' b := by
  obtain ⟨adds, h1, h2⟩ := h
  exact ⟨adds, h1, fun m hm => hg m (h2 m hm)⟩

theorem evQ_mono {Q Q' : Batch → Prop} (h : ∀ b, Q b → Q' b) {e : Ev} (he : EvQ Q e) : EvQ Q' e := by
  cases e with
  | dispatch w b => exact ⟨h b he.1, he.2⟩
  | selfReport t => obtain ⟨b, h1, h2, h3⟩ := he; exact ⟨b, h b h1, h2, h3⟩
  | seen l => trivial
  | stat n => trivial
  | fatal => trivial

theorem reach_builtIn {K : Kind} {big bad : Msg → Bool} {dom : Msg → Prop} (hL : Laws K big bad dom)
    {cfg : Batcher.Cfg} {g : List Msg} {acc : State × List Ev} (h : Reach K cfg g acc) :
    (∀ (k : PKey) (b : Batch), getOpen acc.1 k = some b → BuiltIn K g b ∧ b.pkey = k) ∧
    ∀ e ∈ acc.2, EvQ (BuiltIn K g) e := by
  induction h with
  | init => exact ⟨fun k b hb => by simp [getOpen] at hb, fun e he => by simp at he⟩
  | @create g s evs pk _ hnone ih =>
    obtain ⟨ho, he⟩ := ih
    refine ⟨fun k b hb => ?_, he⟩
    simp only at hb ho
    rw [getOpen_setOpen] at hb
    by_cases hk : k = pk
    · simp [hk] at hb; subst hb
      exact ⟨⟨[], Built.fresh pk, fun m hm => by cases hm⟩, by simp [hk, fresh]⟩
    · simp [hk] at hb; exact ho k b hb
  | @noteCommit g s evs m _ ih =>
    obtain ⟨ho, he⟩ := ih
    exact ⟨fun k b hb => ho k b (by simpa [getOpen_noteCommit] using hb), he⟩
  | @noteKey g s evs m _ ih =>
    obtain ⟨ho, he⟩ := ih
    exact ⟨fun k b hb => ho k b (by simpa [getOpen_noteKey] using hb), he⟩
  | @sendReplace g s evs pk b _ hob ih =>
    obtain ⟨ho, he⟩ := ih
    simp only at ho he ⊢
    refine ⟨fun k b' hb => ?_, fun e hm => ?_⟩
    · rw [getOpen_setOpen, sendBatch_getOpen] at hb
      by_cases hk : k = pk
      · simp [hk] at hb; subst hb
        exact ⟨⟨[], Built.fresh pk, fun m hm => by cases hm⟩, by simp [hk, fresh]⟩
      · simp [hk] at hb; exact ho k b' hb
    · rcases List.mem_append.mp hm with hm | hm
      · exact he e hm
      · exact evQ_sendBatch cfg s (ho pk b hob).1 e hm
  | @sendDel g s evs pk b _ hob ih =>
    obtain ⟨ho, he⟩ := ih
    simp only at ho he ⊢
    refine ⟨fun k b' hb => ?_, fun e hm => ?_⟩
    · rw [getOpen_delOpen, sendBatch_getOpen] at hb
      by_cases hk : k = pk
      · simp [hk] at hb
      · simp [hk] at hb; exact ho k b' hb
    · rcases List.mem_append.mp hm with hm | hm
      · rcases List.mem_append.mp hm with hm | hm
        · exact he e hm
        · exact evQ_sendBatch cfg s (ho pk b hob).1 e hm
      · simp at hm; subst hm; trivial
  | @add g s evs m b b' st _ hd hob hout ih =>
    obtain ⟨ho, he⟩ := ih
    simp only at ho he ⊢
    have hsub : ∀ x ∈ g, x ∈ g ++ [m] := fun x hx => List.mem_append_left _ hx
    obtain ⟨⟨adds, hB, hin⟩, hbk⟩ := ho m.pkey b hob
    have hB' : BuiltIn K (g ++ [m]) b' :=
      ⟨adds ++ [m], Built.add m b' st hB hbk.symm hd hout, fun x hx => by
        rcases List.mem_append.mp hx with hx | hx
        · exact hsub x (hin x hx)
        · simp at hx; subst hx; simp⟩
    refine ⟨fun k b'' hb => ?_, fun e hm => ?_⟩
    · rw [getOpen_withTotal, getOpen_setOpen] at hb
      by_cases hk : k = m.pkey
      · simp [hk] at hb; subst hb; exact ⟨hB', by rw [hk, hout.pkey hL, hbk]⟩
      · simp [hk] at hb
        obtain ⟨h1, h2⟩ := ho k b'' hb
        exact ⟨h1.mono hsub, h2⟩
    · rcases List.mem_append.mp hm with hm | hm
      · exact evQ_mono (fun b hb => hb.mono hsub) (he e hm)
      · rcases hout with ⟨_, h⟩ | ⟨_, h⟩ | ⟨_, h⟩ <;> subst h <;> simp at hm <;> subst hm <;> trivial

/-! ## entries of `txns` -/

theorem mem_updateTxns {txns : List TxnCount} {m : Msg} {x : TxnCount} (h : x ∈ updateTxns txns m) :
    x ∈ txns ∨ (∃ x0 ∈ txns, x0.key = m.key ∧ x = { x0 with count := x0.count + 1 }) ∨
      x = ⟨m.key, m.txn, 1⟩ := by
  unfold updateTxns at h
  split at h
  · obtain ⟨x0, hx0, rfl⟩ := List.mem_map.mp h
    by_cases hk : x0.key = m.key
    · right; left; exact ⟨x0, hx0, hk, by simp [hk]⟩
    · left; simp [hk]; exact hx0
  · rcases List.mem_append.mp h with h | h
    · left; exact h
    · right; right; simpa using h

/-- a `txns` list whose entries all name an input data message, with counts ≥ 1 and distinct keys -/
def TxOK (ms : List Msg) (t : List TxnCount) : Prop :=
  (t.map (·.key)).Nodup ∧
  ∀ x ∈ t, 1 ≤ x.count ∧ ∃ m ∈ ms, m.op = .data ∧ m.key = x.key ∧ m.txn = x.txn

theorem TxOK.mono {ms ms' : List Msg} {t : List TxnCount} (h : TxOK ms t) (hs : ∀ m ∈ ms, m ∈ ms') : TxOK ms' t :=
  ⟨h.1, fun x hx => by
    obtain ⟨h1, m, hm, h2⟩ := h.2 x hx
    exact ⟨h1, m, hs m hm, h2⟩⟩

theorem built_txOK {K : Kind} {big bad : Msg → Bool} {dom : Msg → Prop} (hL : Laws K big bad dom)
    {b : Batch} {adds : List Msg} (h : Built K b adds) :
    ∀ x ∈ b.txns, 1 ≤ x.count ∧ ∃ m ∈ adds, m.op = .data ∧ m.key = x.key ∧ m.txn = x.txn := by
  induction h with
  | fresh pk => intro x hx; simp [fresh] at hx
  | @add b adds m b' st _ hmk hd hout ih =>
    have hupd : ∀ x ∈ updateTxns b.txns m,
        1 ≤ x.count ∧ ∃ m' ∈ adds ++ [m], m'.op = .data ∧ m'.key = x.key ∧ m'.txn = x.txn := by
      intro x hx
      rcases mem_updateTxns hx with h | ⟨x0, hx0, _, rfl⟩ | rfl
      · obtain ⟨h1, m', hm', h2⟩ := ih x h
        exact ⟨h1, m', List.mem_append_left _ hm', h2⟩
      · obtain ⟨h1, m', hm', h2⟩ := ih x0 hx0
        exact ⟨by simp, m', List.mem_append_left _ hm', h2⟩
      · exact ⟨Nat.le_refl _, m, by simp, hd, rfl, rfl⟩
    rcases hout with ⟨ha, _⟩ | ⟨ha, _⟩ | ⟨ha, _⟩
    · rw [(hL.ok_payload _ _ _ ha).2.2]; exact hupd
    · rw [(hL.tooBig_big _ _ _ ha).2.2.2]; exact hupd
    · rw [(hL.invalid_bad _ _ _ ha).2.2]
      intro x hx
      obtain ⟨h1, m', hm', h2⟩ := ih x hx
      exact ⟨h1, m', List.mem_append_left _ hm', h2⟩

theorem builtIn_txOK {K : Kind} {big bad : Msg → Bool} {dom : Msg → Prop} (hL : Laws K big bad dom)
    {g : List Msg} {b : Batch} (h : BuiltIn K g b) : TxOK g b.txns := by
  obtain ⟨adds, hB, hin⟩ := h
  refine ⟨hB.txns_nodup hL, fun x hx => ?_⟩
  obtain ⟨h1, m, hm, h2⟩ := built_txOK hL hB x hx
  exact ⟨h1, m, hin m hm, h2⟩

/-- the `txns` a send event carries -/
def txnsOf : Ev → List TxnCount
  | .dispatch _ b => b.txns
  | .selfReport t => t
  | _ => []

theorem evQ_txOK {K : Kind} {big bad : Msg → Bool} {dom : Msg → Prop} (hL : Laws K big bad dom)
    {g : List Msg} {e : Ev} (h : EvQ (BuiltIn K g) e) : TxOK g (txnsOf e) := by
  cases e with
  | dispatch w b => exact builtIn_txOK hL h.1
  | selfReport t => obtain ⟨b, h1, _, h3⟩ := h; rw [← h3]; exact builtIn_txOK hL h1
  | seen l => exact ⟨by simp [txnsOf], fun x hx => by simp [txnsOf] at hx⟩
  | stat n => exact ⟨by simp [txnsOf], fun x hx => by simp [txnsOf] at hx⟩
  | fatal => exact ⟨by simp [txnsOf], fun x hx => by simp [txnsOf] at hx⟩

/-! ## shape of one step's event list -/

theorem shape_of_ordered {L pending : List SeenE} {ev : List Ev} (hnd : L.Nodup)
    (hframe : seenEntries ev ++ pending = L) (hord : ∀ x ∈ L, SendsAfter x ev)
    (hsend : ∃ d ∈ ev, isSend d = true) : pending = [] := by
  obtain ⟨d, hd, hds⟩ := hsend
  obtain ⟨r1, r2, hsplit⟩ := List.append_of_mem hd
  cases hp : pending with
  | nil => rfl
  | cons x rest =>
    exfalso
    have hxL : x ∈ L := by rw [← hframe, hp]; simp
    have hx1 := hord x hxL r1 d r2 hsplit hds
    have hx2 : x ∈ seenEntries ev := by
      rw [hsplit, seenEntries_append]; exact List.mem_append_left _ hx1
    rw [← hframe, hp] at hnd
    have := (List.nodup_append.mp hnd).2.2 x hx2 x (by simp)
    exact this rfl

/-- one (not dead) batcher step: what it hands over plus what stays pending is what was pending plus
the COMMIT's own entry; and if it sends anything, nothing stays pending -/
theorem step_shape (K : Kind) (cfg : Batcher.Cfg) (s : State) (op : Batcher.Op) (hnd : s.dead = false) :
    let L := s.seenList ++ (match op with | .msg m => commitEntry s m | .tick _ _ _ => [])
    seenEntries (Batcher.step K cfg s op).2 ++ (Batcher.step K cfg s op).1.seenList = L ∧
    (L.Nodup → (∃ d ∈ (Batcher.step K cfg s op).2, isSend d = true) → (Batcher.step K cfg s op).1.seenList = []) := by
  cases op with
  | msg m =>
    have hs : Batcher.step K cfg s (.msg m) = onMsg K cfg s m := by simp [Batcher.step, hnd]
    rw [hs]
    obtain ⟨_, o2, _⟩ := onMsg_obs K cfg s m
    exact ⟨o2, fun hn hsend => shape_of_ordered hn o2 (onMsg_ordered K cfg s m) hsend⟩
  | tick now t order =>
    have hs : Batcher.step K cfg s (.tick now t order) = onTick cfg s order := by simp [Batcher.step, hnd]
    rw [hs]
    have ho := onTick_oframe cfg order s
    simp only [List.append_nil]
    exact ⟨ho.frame.seen, fun hn hsend => shape_of_ordered hn ho.frame.seen ho.ordered hsend⟩

end PgBifrost.Sys
