import PgBifrost.Spec.S3
/-! Helper lemmas for C12 (core Lean only). -/
namespace PgBifrost.Proofs.S3
open PgBifrost.S3Put PgBifrost.Spec.S3

/-! ### trimming -/

theorem dropWhile_head_not {α} (p : α → Bool) (l : List α) (h : ∀ x, l.head? = some x → p x = false) :
    l.dropWhile p = l := by
  cases l with
  | nil => rfl
  | cons a t => simp [List.dropWhile, h a (by simp)]

theorem trimLeft_noslash (s : Bytes) (h : slash ∉ s) : trimLeft s = s := by
  unfold trimLeft
  apply dropWhile_head_not
  intro x hx
  have : x ∈ s := List.mem_of_mem_head? hx
  simp only [beq_eq_false_iff_ne, ne_eq]
  intro e; subst e; exact h this

theorem trimRight_noslash (s : Bytes) (h : slash ∉ s) : trimRight s = s := by
  unfold trimRight
  rw [dropWhile_head_not]
  · simp
  · intro x hx
    have : x ∈ s.reverse := List.mem_of_mem_head? hx
    simp only [beq_eq_false_iff_ne, ne_eq]
    intro e; subst e; exact h (by simpa using this)

theorem trim_noslash (s : Bytes) (h : slash ∉ s) : trim s = s := by
  unfold trim; rw [trimRight_noslash s h, trimLeft_noslash s h]

/-! ### decimal rendering -/

theorem digitsAux_fuel : ∀ (f g n : Nat), n ≤ f → n ≤ g → digitsAux f n = digitsAux g n := by
  intro f
  induction f with
  | zero =>
    intro g n hf _
    have : n = 0 := by omega
    subst this
    cases g <;> simp [digitsAux]
  | succ f ih =>
    intro g n hf hg
    cases g with
    | zero =>
      have : n = 0 := by omega
      subst this; simp [digitsAux]
    | succ g =>
      simp only [digitsAux]
      split
      · rfl
      · rw [ih g (n / 10) (by omega) (by omega)]

theorem digits_eq (n : Nat) : digits n = if n < 10 then [n] else digits (n / 10) ++ [n % 10] := by
  unfold digits
  cases n with
  | zero => simp [digitsAux]
  | succ k =>
    simp only [digitsAux]
    split
    · rfl
    · rw [digitsAux_fuel k ((k + 1) / 10) ((k + 1) / 10) (by omega) (Nat.le_refl _)]

theorem digits_ne_nil (n : Nat) : digits n ≠ [] := by
  rw [digits_eq]; split <;> simp

theorem digits_lt : ∀ (n : Nat), ∀ d ∈ digits n, d < 10 := by
  intro n
  induction n using Nat.strongRecOn with
  | _ n ih =>
    rw [digits_eq]
    split
    · intro d hd; simp at hd; omega
    · intro d hd
      simp only [List.mem_append, List.mem_singleton] at hd
      rcases hd with hd | hd
      · exact ih (n / 10) (by omega) d hd
      · omega

theorem digits_injective : ∀ (n m : Nat), digits n = digits m → n = m := by
  intro n
  induction n using Nat.strongRecOn with
  | _ n ih =>
    intro m h
    rw [digits_eq n, digits_eq m] at h
    by_cases hn : n < 10 <;> by_cases hm : m < 10
    · simpa [hn, hm] using h
    · simp only [hn, hm, if_true, if_false] at h
      have := congrArg List.length h
      have hne := digits_ne_nil (m / 10)
      cases hd : digits (m / 10) with
      | nil => exact absurd hd hne
      | cons a t => rw [hd] at this; simp at this
    · simp only [hn, hm, if_true, if_false] at h
      have := congrArg List.length h
      have hne := digits_ne_nil (n / 10)
      cases hd : digits (n / 10) with
      | nil => exact absurd hd hne
      | cons a t => rw [hd] at this; simp at this
    · simp only [hn, hm, if_false] at h
      have h' := List.append_inj' h rfl
      have h1 := ih (n / 10) (by omega) (m / 10) h'.1
      have h2 : n % 10 = m % 10 := by simpa using h'.2
      omega

theorem digitByte_inj : ∀ a < 10, ∀ b < 10, digitByte a = digitByte b → a = b := by decide

theorem digitByte_ne_slash : ∀ a < 10, digitByte a ≠ slash := by decide
theorem digitByte_ne_underscore : ∀ a < 10, digitByte a ≠ underscore := by decide
theorem digitByte_isDigit : ∀ a < 10, isDigit (digitByte a) = true := by decide

theorem map_digitByte_inj : ∀ (l₁ l₂ : List Nat), (∀ d ∈ l₁, d < 10) → (∀ d ∈ l₂, d < 10) →
    l₁.map digitByte = l₂.map digitByte → l₁ = l₂ := by
  intro l₁
  induction l₁ with
  | nil => intro l₂ _ _ h; cases l₂ <;> simp_all
  | cons a t ih =>
    intro l₂ h1 h2 h
    cases l₂ with
    | nil => simp at h
    | cons b u =>
      simp only [List.map_cons, List.cons.injEq] at h
      have hab := digitByte_inj a (h1 a (by simp)) b (h2 b (by simp)) h.1
      have := ih u (fun d hd => h1 d (by simp [hd])) (fun d hd => h2 d (by simp [hd])) h.2
      rw [hab, this]

/-- decimal rendering is injective -/
theorem dec_injective (n m : Nat) (h : dec n = dec m) : n = m :=
  digits_injective n m (map_digitByte_inj _ _ (digits_lt n) (digits_lt m) h)

theorem dec_isDigit (n : Nat) : ∀ b ∈ dec n, isDigit b = true := by
  intro b hb
  simp only [dec, List.mem_map] at hb
  obtain ⟨d, hd, rfl⟩ := hb
  exact digitByte_isDigit d (digits_lt n d hd)

theorem isDigit_ne_slash (b : UInt8) (h : isDigit b = true) : b ≠ slash := by
  intro e; subst e; revert h; decide
theorem isDigit_ne_underscore (b : UInt8) (h : isDigit b = true) : b ≠ underscore := by
  intro e; subst e; revert h; decide

theorem slash_not_mem_dec (n : Nat) : slash ∉ dec n :=
  fun h => isDigit_ne_slash _ (dec_isDigit n _ h) rfl
theorem underscore_not_mem_dec (n : Nat) : underscore ∉ dec n :=
  fun h => isDigit_ne_underscore _ (dec_isDigit n _ h) rfl

/-! ### unique split at the first separator -/

theorem split_unique {α} (s : α) : ∀ (a a' r r' : List α), s ∉ a → s ∉ a' →
    a ++ s :: r = a' ++ s :: r' → a = a' ∧ r = r' := by
  intro a
  induction a with
  | nil =>
    intro a' r r' _ h' h
    cases a' with
    | nil => simpa using h
    | cons b t =>
      simp only [List.nil_append, List.cons_append, List.cons.injEq] at h
      exact absurd (by simp [h.1]) h'
  | cons x t ih =>
    intro a' r r' h1 h' h
    cases a' with
    | nil =>
      simp only [List.nil_append, List.cons_append, List.cons.injEq] at h
      exact absurd (by simp [h.1]) h1
    | cons b u =>
      simp only [List.cons_append, List.cons.injEq] at h
      have := ih u r r' (fun hm => h1 (by simp [hm])) (fun hm => h' (by simp [hm])) h.2
      exact ⟨by rw [h.1, this.1], this.2⟩

/-! ### body -/

theorem writeAll_eq (p : Bytes) (recs : List Rec) : writeAll p recs = p ++ expectedBody recs := by
  unfold writeAll expectedBody
  induction recs generalizing p with
  | nil => simp
  | cons r t ih => simp only [List.foldl_cons, List.flatMap_cons]; rw [ih]; simp [List.append_assoc]

/-! ### retry -/

theorem retry_tail_zero (zlen max : Nat) : ∀ (sc : List Att) (off tries : Nat),
    ∀ a ∈ (retry zlen max off tries sc).1.tail, a.start = 0 := by
  intro sc
  induction sc with
  | nil => intro off tries a h; simp [retry] at h
  | cons x t ih =>
    intro off tries a h
    cases x with
    | ok => simp [retry] at h
    | fail n =>
      simp only [retry] at h
      split at h
      · simp at h
      · simp only [List.tail_cons] at h
        -- the recursive call starts at offset 0
        cases hr : (retry zlen max 0 (tries + 1) t).1 with
        | nil => rw [hr] at h; simp at h
        | cons b u =>
          rw [hr] at h
          simp only [List.mem_cons] at h
          rcases h with h | h
          · subst h
            cases t with
            | nil => simp [retry] at hr; rw [← hr.1]
            | cons y t' =>
              cases y with
              | ok => simp [retry] at hr; rw [← hr.1]
              | fail k =>
                simp only [retry] at hr
                split at hr
                · simp at hr; rw [← hr.1]
                · simp at hr; rw [← hr.1]
          · have := ih 0 (tries + 1) a (by rw [hr]; simpa using h)
            exact this

theorem retry_head_start (zlen max : Nat) (sc : List Att) (off tries : Nat) :
    ∃ a u, (retry zlen max off tries sc).1 = a :: u ∧ a.start = off := by
  cases sc with
  | nil => exact ⟨_, _, rfl, rfl⟩
  | cons x t =>
    cases x with
    | ok => exact ⟨_, _, rfl, rfl⟩
    | fail n =>
      simp only [retry]
      split
      · exact ⟨_, _, rfl, rfl⟩
      · exact ⟨_, _, rfl, rfl⟩

theorem retry_all_zero (zlen max : Nat) (sc : List Att) (tries : Nat) :
    ∀ a ∈ (retry zlen max 0 tries sc).1, a.start = 0 := by
  intro a h
  obtain ⟨b, u, hbu, hb⟩ := retry_head_start zlen max sc 0 tries
  have ht := retry_tail_zero zlen max sc 0 tries
  rw [hbu] at h ht
  simp only [List.mem_cons] at h
  rcases h with h | h
  · rw [h]; exact hb
  · exact ht a (by simpa using h)

/-- success ⇒ the last call succeeded and consumed everything from where it started; all before failed -/
theorem retry_ok_last (zlen max : Nat) : ∀ (sc : List Att) (off tries : Nat),
    (retry zlen max off tries sc).2 = true →
    ∃ pre a, (retry zlen max off tries sc).1 = pre ++ [a] ∧ a.ok = true ∧ a.read = zlen - a.start ∧
      ∀ b ∈ pre, b.ok = false := by
  intro sc
  induction sc with
  | nil => intro off tries _; exact ⟨[], _, rfl, rfl, rfl, by simp⟩
  | cons x t ih =>
    intro off tries h
    cases x with
    | ok => exact ⟨[], _, rfl, rfl, rfl, by simp⟩
    | fail n =>
      simp only [retry] at h ⊢
      split
      · rename_i hle; simp [hle] at h
      · rename_i hle
        simp only [hle, if_false] at h
        obtain ⟨pre, a, hpa, h1, h2, h3⟩ := ih 0 (tries + 1) h
        refine ⟨_ :: pre, a, by rw [hpa]; rfl, h1, h2, ?_⟩
        intro b hb
        simp only [List.mem_cons] at hb
        rcases hb with hb | hb
        · rw [hb]
        · exact h3 b hb

/-- failure ⇒ every call failed -/
theorem retry_fail_all (zlen max : Nat) : ∀ (sc : List Att) (off tries : Nat),
    (retry zlen max off tries sc).2 = false → ∀ b ∈ (retry zlen max off tries sc).1, b.ok = false := by
  intro sc
  induction sc with
  | nil => intro off tries h; simp [retry] at h
  | cons x t ih =>
    intro off tries h
    cases x with
    | ok => simp [retry] at h
    | fail n =>
      simp only [retry] at h ⊢
      split
      · intro b hb; simp at hb; rw [hb]
      · rename_i hle
        simp only [hle, if_false] at h
        intro b hb
        simp only [List.mem_cons] at hb
        rcases hb with hb | hb
        · rw [hb]
        · exact ih 0 (tries + 1) h b hb

/-- at most `max - tries + 1` calls -/
theorem retry_budget (zlen max : Nat) : ∀ (sc : List Att) (off tries : Nat),
    (retry zlen max off tries sc).1.length ≤ max - tries + 1 := by
  intro sc
  induction sc with
  | nil => intro off tries; simp [retry]
  | cons x t ih =>
    intro off tries
    cases x with
    | ok => simp [retry]
    | fail n =>
      simp only [retry]
      split
      · simp
      · have := ih 0 (tries + 1)
        simp only [List.length_cons]
        omega

/-! ### key_join -/

theorem base_noslash (full : Bytes) (lsn : Nat) (h : slash ∉ full) : slash ∉ baseFilename full lsn := by
  unfold baseFilename
  simp only [List.mem_append, List.mem_singleton, not_or]
  exact ⟨⟨h, by decide⟩, slash_not_mem_dec lsn⟩

theorem base_clean (full : Bytes) (lsn : Nat) (h : slash ∉ full) : Clean (baseFilename full lsn) :=
  ⟨by unfold baseFilename; simp, base_noslash full lsn h⟩

theorem clean_not_skipped (p : Bytes) (h : Clean p) : ¬ (p = [] ∨ p = [slash]) := by
  intro hh
  rcases hh with hh | hh
  · exact h.1 hh
  · exact h.2 (by rw [hh]; simp)

theorem keyJoinAux_cons (n i : Nat) (s : Bytes) (rest : List Bytes) :
    keyJoinAux n i (s :: rest) = if s = [] ∨ s = [slash] then keyJoinAux n (i + 1) rest
      else trim s ++ (if i + 1 ≠ n then [slash] else []) ++ keyJoinAux n (i + 1) rest := rfl

theorem keyJoinFixedAux_cons (n i : Nat) (s : Bytes) (rest : List Bytes) :
    keyJoinFixedAux n i (s :: rest) = if trim s = [] then keyJoinFixedAux n (i + 1) rest
      else trim s ++ (if i + 1 ≠ n then [slash] else []) ++ keyJoinFixedAux n (i + 1) rest := rfl

theorem keyJoinAux_clean (n i : Nat) (p : Bytes) (rest : List Bytes) (h : Clean p) :
    keyJoinAux n i (p :: rest) = p ++ (if i + 1 ≠ n then [slash] else []) ++ keyJoinAux n (i + 1) rest := by
  rw [keyJoinAux_cons]; simp only [clean_not_skipped p h, if_false, trim_noslash p h.2]

theorem keyJoinFixedAux_clean (n i : Nat) (p : Bytes) (rest : List Bytes) (h : Clean p) :
    keyJoinFixedAux n i (p :: rest) = p ++ (if i + 1 ≠ n then [slash] else []) ++ keyJoinFixedAux n (i + 1) rest := by
  rw [keyJoinFixedAux_cons]; simp only [trim_noslash p h.2, h.1, if_false]

theorem mem_dropWhile_of_not {α} (p : α → Bool) (c : α) (hc : p c = false) :
    ∀ (l : List α), c ∈ l → c ∈ l.dropWhile p := by
  intro l
  induction l with
  | nil => intro h; exact h
  | cons a t ih =>
    intro h
    simp only [List.dropWhile]
    split
    · rename_i hp
      simp only [List.mem_cons] at h
      rcases h with h | h
      · subst h; rw [hc] at hp; cases hp
      · exact ih h
    · exact h

theorem trim_ne_nil (ks : Bytes) (c : UInt8) (hc : c ∈ ks) (hne : c ≠ slash) : trim ks ≠ [] := by
  have hp : (c == slash) = false := by simpa using hne
  have h1 : c ∈ trimRight ks := by
    unfold trimRight
    rw [List.mem_reverse]
    exact mem_dropWhile_of_not _ c hp _ (by simpa using hc)
  have h2 : c ∈ trim ks := mem_dropWhile_of_not _ c hp _ h1
  intro e; rw [e] at h2; cases h2

theorem head_dropWhile {α} (p : α → Bool) : ∀ (l : List α) (x : α),
    (l.dropWhile p).head? = some x → p x = false := by
  intro l
  induction l with
  | nil => intro x h; simp at h
  | cons a t ih =>
    intro x h
    simp only [List.dropWhile] at h
    split at h
    · exact ih x h
    · rename_i hp
      simp only [List.head?_cons, Option.some.injEq] at h
      subst h; simpa using hp

theorem mem_takeWhile {α} (p : α → Bool) : ∀ (l : List α) (x : α), x ∈ l.takeWhile p → p x = true := by
  intro l
  induction l with
  | nil => intro x h; simp at h
  | cons a t ih =>
    intro x h
    simp only [List.takeWhile] at h
    split at h
    · rename_i hp
      simp only [List.mem_cons] at h
      rcases h with h | h
      · subst h; exact hp
      · exact ih x h
    · simp at h

theorem getLast_dropWhile {α} (p : α → Bool) : ∀ (l : List α) (x : α),
    (l.dropWhile p).getLast? = some x → l.getLast? = some x := by
  intro l
  induction l with
  | nil => intro x h; exact h
  | cons a t ih =>
    intro x h
    simp only [List.dropWhile] at h
    split at h
    · have := ih x h
      cases t with
      | nil => simp at this
      | cons b u => simpa [List.getLast?_cons_cons] using this
    · exact h

theorem keyJoinAux_snoc (n : Nat) : ∀ (ps : List Bytes) (i : Nat) (b : Bytes),
    keyJoinAux n i (ps ++ [b]) = keyJoinAux n i ps ++ keyJoinAux n (i + ps.length) [b] := by
  intro ps
  induction ps with
  | nil => intro i b; simp [keyJoinAux]
  | cons s t ih =>
    intro i b
    rw [List.cons_append, keyJoinAux_cons n i s (t ++ [b]), keyJoinAux_cons n i s t, ih (i + 1) b, List.length_cons,
      show i + 1 + t.length = i + (t.length + 1) by omega]
    split <;> simp only [List.append_assoc]

theorem keyJoinFixedAux_snoc (n : Nat) : ∀ (ps : List Bytes) (i : Nat) (b : Bytes),
    keyJoinFixedAux n i (ps ++ [b]) = keyJoinFixedAux n i ps ++ keyJoinFixedAux n (i + ps.length) [b] := by
  intro ps
  induction ps with
  | nil => intro i b; simp [keyJoinFixedAux]
  | cons s t ih =>
    intro i b
    rw [List.cons_append, keyJoinFixedAux_cons n i s (t ++ [b]), keyJoinFixedAux_cons n i s t, ih (i + 1) b, List.length_cons,
      show i + 1 + t.length = i + (t.length + 1) by omega]
    split <;> simp only [List.append_assoc]

/-- every key ends with `<full>_<dec lsn>.gz`, whatever the key space and the other clock strings are -/
theorem key_suffix (ks : Bytes) (t : TimeParts) (lsn : Nat) (hf : slash ∉ t.full) :
    ∃ X, objectKeyWith keyJoin ks t lsn = X ++ (t.full ++ underscore :: (dec lsn ++ gzSuffix)) := by
  have hb := base_clean t.full lsn hf
  refine ⟨keyJoinAux 6 0 [ks, t.year, t.month, t.day, t.hour], ?_⟩
  unfold objectKeyWith keyJoin
  show keyJoinAux 6 0 ([ks, t.year, t.month, t.day, t.hour] ++ [baseFilename t.full lsn]) ++ gzSuffix = _
  rw [keyJoinAux_snoc, keyJoinAux_clean _ _ _ _ hb]
  simp [keyJoinAux, baseFilename, List.append_assoc]

theorem key_suffix_fixed (ks : Bytes) (t : TimeParts) (lsn : Nat) (hf : slash ∉ t.full) :
    ∃ X, objectKeyWith keyJoinFixed ks t lsn = X ++ (t.full ++ underscore :: (dec lsn ++ gzSuffix)) := by
  have hb := base_clean t.full lsn hf
  refine ⟨keyJoinFixedAux 6 0 [ks, t.year, t.month, t.day, t.hour], ?_⟩
  unfold objectKeyWith keyJoinFixed
  show keyJoinFixedAux 6 0 ([ks, t.year, t.month, t.day, t.hour] ++ [baseFilename t.full lsn]) ++ gzSuffix = _
  rw [keyJoinFixedAux_snoc, keyJoinFixedAux_clean _ _ _ _ hb]
  simp [keyJoinFixedAux, baseFilename, List.append_assoc]

/-- keys that end in `<14 digits>_<decimal>.gz` determine the 14 digits and the number -/
theorem suffix_injective (X₁ X₂ f₁ f₂ : Bytes) (l₁ l₂ : Nat)
    (h₁ : f₁.length = 14) (h₂ : f₂.length = 14)
    (h : X₁ ++ (f₁ ++ underscore :: (dec l₁ ++ gzSuffix)) = X₂ ++ (f₂ ++ underscore :: (dec l₂ ++ gzSuffix))) :
    f₁ = f₂ ∧ l₁ = l₂ := by
  have hr := congrArg List.reverse h
  simp only [List.reverse_append, List.reverse_cons, List.append_assoc] at hr
  have hr' := List.append_cancel_left hr
  simp only [List.singleton_append] at hr'
  have hu : ∀ n, underscore ∉ (dec n).reverse := fun n hm =>
    underscore_not_mem_dec n (by simpa using hm)
  obtain ⟨hd, hrest⟩ := split_unique underscore _ _ _ _ (hu l₁) (hu l₂) hr'
  have hdec : dec l₁ = dec l₂ := by simpa using congrArg List.reverse hd
  have hlen : f₁.reverse.length = f₂.reverse.length := by simp [h₁, h₂]
  have := (List.append_inj hrest hlen).1
  exact ⟨by simpa using congrArg List.reverse this, dec_injective _ _ hdec⟩

end PgBifrost.Proofs.S3
