import PgBifrost.Proofs.ClientC07b
import PgBifrost.Proofs.ClientC02
/-! C07, "at most one COMMIT is forwarded per key" at FULL strength for the code as it is now (variant
`.fixedC`, after the repair of F2): error responses included. The synthetic COMMIT of error recovery is
emitted only while a delivery is open (`openFlag`), a real COMMIT arrives only inside a transaction of the
stream grammar, and both close the delivery. -/
namespace PgBifrost.ClientProofs
open PgBifrost.Client PgBifrost.Spec.Client

/-- the key of the delivery that is open downstream, if any -/
def openKey (s : State) : List String := if s.openFlag then [renderKey s.key] else []

theorem commitKeys_recoveryFwd_fixedC (s : State) : commitKeys (recoveryFwd .fixedC s) = openKey s := by
  unfold recoveryFwd openKey
  by_cases h : s.openFlag = true <;> simp [h, commitKeys, fwdsOf]

theorem commit_sublist_full (evs : List Ev) (s : State) (g : GState) (hi : Nat)
    (hr : s.phase = .running) (hO : ∀ x, g = .inTxn x → s.openFlag = true)
    (hg : gramAux g hi (histFrom .fixedC s evs) = true)
    (hne : hasExit (acts (histFrom .fixedC s evs)) = false) :
    (commitKeys (acts (histFrom .fixedC s evs))).Sublist
      (openKey s ++ beginKeys (acts (histFrom .fixedC s evs))) := by
  induction evs generalizing s g hi with
  | nil => simp [histFrom, acts, commitKeys, fwdsOf]
  | cons e r ih =>
    rw [histFrom_cons] at hg hne ⊢
    obtain ⟨g', hi', hstep, hg'⟩ := gram_cons hg
    obtain ⟨hne1, hne2⟩ := hasExit_acts_cons hne
    obtain ⟨hf, hx | ⟨_, hrun, hcl, htxn, hkey, _, _⟩⟩ := step_frame .fixedC s e hr
    · rw [hx.1] at hne1; cases hne1
    · have hop := step_open .fixedC s e hr hne1
      rw [acts_cons, commitKeys_append, beginKeys_append, step_commitKeys .fixedC s e hr,
        step_beginKeys .fixedC s e hr]
      obtain ⟨feed, msg, tick⟩ := e
      -- the next state's open key, when flag and key are unchanged
      have same : (step .fixedC s ⟨feed, msg, tick⟩).1.openFlag = s.openFlag →
          (step .fixedC s ⟨feed, msg, tick⟩).1.key = s.key →
          openKey (step .fixedC s ⟨feed, msg, tick⟩).1 = openKey s := by
        intro h1 h2; unfold openKey; rw [h1, h2]
      cases msg with
      | data lsn p nanos blocks =>
        cases p with
        | begin x =>
          have hg2 := gramStep_begin hstep
          simp only [hcl, closeExp] at hg2
          by_cases hd : beginDropped s = true
          · simp only [hd, ↓reduceIte, List.nil_append] at hg2 ⊢
            have hk : openKey (step .fixedC s ⟨feed, .data lsn (.begin x) nanos blocks, tick⟩).1 = openKey s :=
              same (by rw [hop]; simp [openExp, hd]) (by rw [hkey]; simp [keyExp, hd])
            have := ih _ g' hi' hrun (by rw [hg2]; intro y hy; cases hy) hg' hne2
            rw [hk] at this
            exact this
          · simp only [hd, Bool.false_eq_true, ↓reduceIte, List.nil_append] at hg2 ⊢
            have hk : openKey (step .fixedC s ⟨feed, .data lsn (.begin x) nanos blocks, tick⟩).1 =
                [renderKey (some (x, nanos))] := by
              unfold openKey; rw [hop, hkey]; simp [openExp, keyExp, hd]
            have := ih _ g' hi' hrun (by intro y _; rw [hop]; simp [openExp, hd]) hg' hne2
            rw [hk] at this
            exact this.trans (List.sublist_append_right _ _)
        | commit x =>
          obtain ⟨rfl, rfl⟩ := gramStep_commit hstep
          have ho : s.openFlag = true := hO x rfl
          have hk : openKey (step .fixedC s ⟨feed, .data lsn (.commit x) nanos blocks, tick⟩).1 = [] := by
            unfold openKey; rw [hop]; simp [openExp]
          have := ih _ .idle hi' hrun (by intro z hz; cases hz) hg' hne2
          rw [hk] at this
          simp only [List.nil_append] at this
          have hs : openKey s = [renderKey s.key] := by unfold openKey; simp [ho]
          rw [hs]
          simpa using this
        | change =>
          obtain ⟨y, rfl, hg2⟩ := gramStep_change hstep
          simp only [hcl, closeExp, Bool.false_eq_true, ↓reduceIte] at hg2
          have hk : openKey (step .fixedC s ⟨feed, .data lsn .change nanos blocks, tick⟩).1 = openKey s :=
            same (by rw [hop]; simp [openExp]) (by rw [hkey]; simp [keyExp])
          have := ih _ g' hi' hrun (by rw [hg2]; intro z hz; rw [hop]; simpa [openExp] using hO z hz) hg' hne2
          rw [hk] at this
          simpa using this
        | unparsable => rw [gramStep_bad rfl] at hstep; cases hstep
        | parseError => rw [gramStep_bad rfl] at hstep; cases hstep
      | errorResponse pos =>
        have hk : openKey (step .fixedC s ⟨feed, .errorResponse pos, tick⟩).1 = [] := by
          unfold openKey; rw [hop]; simp [openExp]
        have := ih _ g' hi' hrun
          (by rw [gramStep_reset rfl hstep]; intro z hz; cases hz) hg' hne2
        rw [hk] at this
        simp only [List.nil_append] at this
        simp only [commitKeys_recoveryFwd_fixedC, List.nil_append]
        exact List.Sublist.append_left this _
      | closedErr =>
        have hk : openKey (step .fixedC s ⟨feed, .closedErr, tick⟩).1 = openKey s :=
          same (by rw [hop]; simp [openExp]) (by rw [hkey]; simp [keyExp])
        have := ih _ g' hi' hrun
          (by rw [gramStep_reset rfl hstep]; intro z hz; cases hz) hg' hne2
        rw [hk] at this
        simpa using this
      | keepalive reply w el =>
        have hg2 := gramStep_neutral rfl hstep
        simp only [hcl, closeExp, Bool.false_eq_true, ↓reduceIte] at hg2
        have hk : openKey (step .fixedC s ⟨feed, .keepalive reply w el, tick⟩).1 = openKey s :=
          same (by rw [hop]; simp [openExp]) (by rw [hkey]; simp [keyExp])
        have := ih _ g' hi' hrun (by rw [hg2]; intro z hz; rw [hop]; simpa [openExp] using hO z hz) hg' hne2
        rw [hk] at this
        simpa using this
      | nil | timeout | skip =>
        have hg2 := gramStep_neutral rfl hstep
        simp only [hcl, closeExp, Bool.false_eq_true, ↓reduceIte] at hg2
        have hk : openKey (step .fixedC s ⟨feed, _, tick⟩).1 = openKey s :=
          same (by rw [hop]; simp [openExp]) (by rw [hkey]; simp [keyExp])
        have := ih _ g' hi' hrun (by rw [hg2]; intro z hz; rw [hop]; simpa [openExp] using hO z hz) hg' hne2
        rw [hk] at this
        simpa using this
      | kabad | fatalErr | unexpected | copyEmpty => rw [gramStep_bad rfl] at hstep; cases hstep

/-- full statement: with or without error responses, under the PG-stream grammar no key gets two COMMITs -/
theorem oneCommitFull_hist (evs : List Ev) (hg : pgGrammar (hist .fixedC evs) = true)
    (hc : ClockStrictPerTxn evs) (hd : TxnIdsNoDash evs) :
    c07OneCommitFull (hist .fixedC evs) = true := by
  rw [c07OneCommitFull, distinct_iff]
  have hb : (beginKeys (acts (hist .fixedC evs))).Pairwise (· ≠ ·) :=
    (stamps_render_distinct evs hc hd).sublist (beginKeys_sublist .fixedC evs)
  refine hb.sublist ?_
  unfold hist at hg ⊢
  cases evs with
  | nil => simp [histFrom, acts, commitKeys, fwdsOf]
  | cons e r =>
    rw [histFrom_cons] at hg ⊢
    rw [pgGrammar] at hg
    simp only [Bool.and_eq_true, Bool.not_eq_true'] at hg
    obtain ⟨⟨⟨hka, hne1⟩, hgr⟩, hne2⟩ := hg
    rcases step_first_cases .fixedC start.1 e rfl with ⟨_, _, _, _, hx⟩ | ⟨w, _, heq⟩
    · rw [hx] at hne1; cases hne1
    · have hfw : fwdsOf (step .fixedC start.1 e).2 = [] := by rw [heq]; simp
      have hopen : (step .fixedC start.1 e).1.openFlag = false := by rw [heq]; simp [start, getConnRepl]
      have := commit_sublist_full r (step .fixedC start.1 e).1 .idle 0 (by rw [heq]; simp)
        (by intro z hz; cases hz) hgr hne2
      rw [acts_cons, commitKeys_append, beginKeys_append]
      simpa [commitKeys, beginKeys, hfw, openKey, hopen] using this

end PgBifrost.ClientProofs
