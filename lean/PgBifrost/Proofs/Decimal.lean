/-! Decimal rendering of naturals is injective; `txn ++ "-" ++ decimal` is injective for
transaction ids without a '-' (in particular digit strings). Core only. -/
namespace PgBifrost.Decimal

theorem toString_nat_inj {n m : Nat} (h : toString n = toString m) : n = m := by
  rw [Nat.toString_eq_repr, Nat.toString_eq_repr] at h
  have h2 : n.repr.toList = m.repr.toList := by rw [h]
  rw [Nat.toList_repr, Nat.toList_repr] at h2
  have := congrArg (fun l => Nat.ofDigitChars 10 l 0) h2
  simpa [Nat.ofDigitChars_ten_toDigits] using this

/-- splitting at the first occurrence of a separator -/
theorem append_sep_inj {α : Type} {a : α} {l1 l2 r1 r2 : List α} (h1 : a ∉ l1) (h2 : a ∉ l2)
    (h : l1 ++ a :: r1 = l2 ++ a :: r2) : l1 = l2 ∧ r1 = r2 := by
  induction l1 generalizing l2 with
  | nil =>
    cases l2 with
    | nil => simpa using h
    | cons b l2 =>
      simp only [List.nil_append, List.cons_append, List.cons.injEq] at h
      exact absurd (h.1 ▸ List.mem_cons_self) h2
  | cons c l1 ih =>
    cases l2 with
    | nil =>
      simp only [List.nil_append, List.cons_append, List.cons.injEq] at h
      exact absurd (h.1 ▸ List.mem_cons_self) h1
    | cons b l2 =>
      simp only [List.cons_append, List.cons.injEq] at h
      obtain ⟨hl, hr⟩ := ih (fun hm => h1 (List.mem_cons_of_mem _ hm))
        (fun hm => h2 (List.mem_cons_of_mem _ hm)) h.2
      exact ⟨by rw [h.1, hl], hr⟩

theorem dash_not_digit {c : Char} (h : c.isDigit = true) : c ≠ '-' := by
  intro hc; subst hc; simp [Char.isDigit] at h

/-- `t ++ "-" ++ toString n` determines `t` and `n` when `t` has no '-' -/
theorem key_inj {t t' : String} {n n' : Nat} (ht : '-' ∉ t.toList) (ht' : '-' ∉ t'.toList)
    (h : t ++ "-" ++ toString n = t' ++ "-" ++ toString n') : t = t' ∧ n = n' := by
  have h2 := congrArg String.toList h
  simp only [String.toList_append] at h2
  have h3 : t.toList ++ '-' :: (toString n).toList = t'.toList ++ '-' :: (toString n').toList := by
    simpa using h2
  obtain ⟨ha, hb⟩ := append_sep_inj ht ht' h3
  exact ⟨String.toList_inj.mp ha, toString_nat_inj (String.toList_inj.mp hb)⟩

end PgBifrost.Decimal
