import PgBifrost.Proofs.SysBasic
import PgBifrost.Proofs.LedgerSimple.Contract
/-!
# Flow invariants of the composed system

Where every batch and every written report is: the dispatched batches are (as a multiset) the
accepted ones, the held ones and the queued ones; per delivery key, what the tracker has been
told as written plus what is still in the written channel, held or queued is exactly what the
batcher's dispatch / self-report events carry; the seen operations of the trace are exactly the
seen entries the batcher handed over; every `txns` entry anywhere names an input data message.
-/
namespace PgBifrost.Sys
open PgBifrost.Batch PgBifrost.Batcher
open PgBifrost.LedgerSimple (wsum wsum_append)

/-- what the kind must satisfy (true of the generic, Kinesis and Kafka batches) -/
structure KindOK (K : Kind) (big bad : Msg → Bool) (dom : Msg → Prop) : Prop where
  laws : Laws K big bad dom
  noFatal : NoFatal K

def isSeenOp : Ledger.Op → Bool
  | .seen .. => true
  | _ => false

/-- the seen operations of a trace -/
def seenOps (tr : List Ledger.Op) : List Ledger.Op := tr.filter isSeenOp

theorem seenOps_append (a b : List Ledger.Op) : seenOps (a ++ b) = seenOps a ++ seenOps b := by
  simp [seenOps]

theorem seenOps_seen (l : List SeenE) : seenOps (l.map seenOp) = l.map seenOp := by
  unfold seenOps
  rw [List.filter_eq_self]
  intro op hop
  obtain ⟨e, _, rfl⟩ := List.mem_map.mp hop
  rfl

theorem seenOps_written (t : List TxnCount) : seenOps (t.map writtenOp) = [] := by
  unfold seenOps
  rw [List.filter_eq_nil_iff]
  intro op hop
  obtain ⟨e, _, rfl⟩ := List.mem_map.mp hop
  simp [writtenOp, isSeenOp]

def wcount (wchan : List (List TxnCount)) (key : Nat) : Nat := (wchan.map fun t => countOf t key).sum
def bcount (l : List (Nat × Batch)) (key : Nat) : Nat := (l.map fun p => countOf p.2.txns key).sum

theorem wcount_append (a b : List (List TxnCount)) (key : Nat) : wcount (a ++ b) key = wcount a key + wcount b key := by
  simp [wcount, List.sum_append]
theorem bcount_append (a b : List (Nat × Batch)) (key : Nat) : bcount (a ++ b) key = bcount a key + bcount b key := by
  simp [bcount, List.sum_append]
theorem bcount_cons (p : Nat × Batch) (l : List (Nat × Batch)) (key : Nat) :
    bcount (p :: l) key = countOf p.2.txns key + bcount l key := by
  simp [bcount]
theorem wcount_cons (t : List TxnCount) (l : List (List TxnCount)) (key : Nat) :
    wcount (t :: l) key = countOf t key + wcount l key := by
  simp [wcount]

theorem chargedEvs_split (ev : List Ev) (key : Nat) :
    chargedEvs ev key = wcount (selfReported ev) key + bcount (dispatchPairs ev) key := by
  induction ev with
  | nil => rfl
  | cons e r ih =>
    have h1 : chargedEvs (e :: r) key = chargeEv key e + chargedEvs r key := by simp [chargedEvs]
    rw [h1, ih, dispatchPairs_cons, selfReported_cons, wcount_append, bcount_append]
    cases e <;> simp [chargeEv, dispatchPairOf, selfReportOf, wcount, bcount] <;> omega

theorem wsum_seen_map (l : List SeenE) (key : Nat) : wsum (l.map seenOp) key = 0 := by
  induction l with
  | nil => rfl
  | cons e r ih => simpa [seenOp, wsum] using ih

theorem wsum_written_zero (t : List TxnCount) (key : Nat) (h : ∀ x ∈ t, x.key ≠ key) :
    wsum (t.map writtenOp) key = 0 := by
  induction t with
  | nil => rfl
  | cons e r ih =>
    have := h e (by simp)
    simp [writtenOp, wsum, this, ih (fun x hx => h x (by simp [hx]))]

theorem wsum_written_map (t : List TxnCount) (hn : (t.map (·.key)).Nodup) (key : Nat) :
    wsum (t.map writtenOp) key = countOf t key := by
  induction t with
  | nil => rfl
  | cons e r ih =>
    rw [List.map_cons, List.nodup_cons] at hn
    rw [countOf_cons]
    by_cases hk : e.key = key
    · have hz : wsum (r.map writtenOp) key = 0 := by
        apply wsum_written_zero
        intro x hx hxk
        exact hn.1 (List.mem_map.mpr ⟨x, hx, by rw [hxk, hk]⟩)
      simp [writtenOp, wsum, hk, hz]
    · simp [writtenOp, wsum, hk, ih hn.2]

/-- every event of a batcher run carries `txns` that name input messages -/
theorem run_txOK {K : Kind} {big bad : Msg → Bool} {dom : Msg → Prop} (hK : KindOK K big bad dom)
    (bcfg : Batcher.Cfg) (ops : List Batcher.Op) (hdom : ∀ m ∈ dataMsgs ops, dom m) :
    ∀ e ∈ (Batcher.run K bcfg ops).2, TxOK (msgs ops) (txnsOf e) := by
  intro e he
  have hR := run_reach hK.laws hK.noFatal bcfg ops hdom
  have := evQ_txOK hK.laws ((reach_builtIn hK.laws hR).2 e he)
  exact this.mono (fun m hm => (List.mem_filter.mp hm).1)

structure Flow (s : SysState) : Prop where
  txq : ∀ p ∈ s.queue, TxOK (msgs s.ops) p.2.txns
  txh : ∀ p ∈ s.held, TxOK (msgs s.ops) p.2.txns
  txw : ∀ t ∈ s.wchan, TxOK (msgs s.ops) t
  txtr : ∀ t k n, Ledger.Op.written t k n ∈ s.trace →
    1 ≤ n ∧ ∃ m ∈ msgs s.ops, m.op = .data ∧ m.key = k ∧ m.txn = t
  seens : seenOps s.trace = (seenEntries s.evs).map seenOp
  num : ∀ key, wsum s.trace key + wcount s.wchan key + bcount s.held key + bcount s.queue key
          = chargedEvs s.evs key
  perm : (dispatched s.evs).Perm (s.accB ++ s.held.map (·.2) ++ s.queue.map (·.2))

theorem dom_of_fed {dom : Msg → Prop} {cfg : Cfg} {acts : List Act} {s : SysState} (hH : Hist cfg acts s)
    (hdom : ∀ m ∈ fedMsgs acts, m.op = .data → dom m) : ∀ m ∈ dataMsgs s.ops, dom m := by
  intro m hm
  obtain ⟨rest, hr⟩ := hH.fedPre
  obtain ⟨h1, h2⟩ := List.mem_filter.mp hm
  exact hdom m (by rw [hr]; exact List.mem_append_left _ h1) (by simpa using h2)

theorem flow_run {K : Kind} {big bad : Msg → Bool} {dom : Msg → Prop} (bcfg : Batcher.Cfg)
    (hK : KindOK K big bad dom) :
    ∀ acts, (∀ m ∈ fedMsgs acts, m.op = .data → dom m) → Flow (run ⟨K, bcfg⟩ acts) := by
  apply run_ind ⟨K, bcfg⟩ (fun acts s => (∀ m ∈ fedMsgs acts, m.op = .data → dom m) → Flow s)
  · intro _
    refine ⟨?_, ?_, ?_, ?_, rfl, fun _ => rfl, ?_⟩
    · intro p hp; cases hp
    · intro p hp; cases hp
    · intro p hp; cases hp
    · intro t k n h; cases h
    · exact List.Perm.refl _
  · intro pre a ih hdom
    have hdom0 : ∀ m ∈ fedMsgs pre, m.op = .data → dom m :=
      fun m hm => hdom m (by rw [fedMsgs_snoc]; exact List.mem_append_left _ hm)
    have hF := ih hdom0
    have hH := hist_run ⟨K, bcfg⟩ pre
    have hH' := hist_run ⟨K, bcfg⟩ (pre ++ [a])
    rw [run_snoc] at hH'
    generalize run ⟨K, bcfg⟩ pre = s at hF hH hH'
    cases hd : s.dead with
    | true => rw [step_dead a hd]; exact hF
    | false =>
      rw [step_live a hd] at hH' ⊢
      cases hb : batOpOf a with
      | some op =>
        rw [stepLive_bat hb, batStep_eq] at hH' ⊢
        have hbat := hH'.bat
        simp only at hbat
        have hdom' := dom_of_fed hH' hdom
        simp only at hdom'
        have hev := run_txOK hK bcfg (s.ops ++ [op]) hdom'
        rw [← hbat] at hev
        simp only at hev
        have hsub : ∀ m ∈ msgs s.ops, m ∈ msgs (s.ops ++ [op]) := by
          intro m hm; rw [msgs_append]; exact List.mem_append_left _ hm
        refine ⟨?_, ?_, ?_, ?_, ?_, ?_, ?_⟩
        · intro p hp
          simp only at hp ⊢
          rcases List.mem_append.mp hp with hp | hp
          · exact (hF.txq p hp).mono hsub
          · have : Ev.dispatch p.1 p.2 ∈ (Batcher.step K bcfg s.bat op).2 := mem_dispatchPairs.mp hp
            exact hev _ (List.mem_append_right _ this)
        · intro p hp; exact (hF.txh p hp).mono hsub
        · intro t ht
          simp only at ht ⊢
          rcases List.mem_append.mp ht with ht | ht
          · exact (hF.txw t ht).mono hsub
          · exact hev _ (List.mem_append_right _ (mem_selfReported.mp ht))
        · intro t k n hmem
          simp only at hmem ⊢
          rcases List.mem_append.mp hmem with hmem | hmem
          · obtain ⟨h1, m, hm, h2⟩ := hF.txtr t k n hmem
            exact ⟨h1, m, hsub m hm, h2⟩
          · obtain ⟨e, _, he⟩ := List.mem_map.mp hmem
            cases he
        · simp only
          rw [seenOps_append, seenOps_seen, hF.seens, seenEntries_append, List.map_append]
        · intro key
          simp only
          rw [wsum_append, wsum_seen_map, wcount_append, bcount_append, chargedEvs_append,
            chargedEvs_split (Batcher.step K bcfg s.bat op).2, ← hF.num key]
          omega
        · simp only
          rw [dispatched_append, List.map_append, dispatchPairs_snd]
          have := hF.perm
          rw [List.perm_iff_count] at this ⊢
          intro x
          have := this x
          simp only [List.count_append] at this ⊢
          omega
      | none =>
        cases a with
        | feed m => simp [batOpOf] at hb
        | tick o => simp [batOpOf] at hb
        | take w =>
          simp only [stepLive]
          split
          · exact hF
          · split
            · rename_i b q hq
              obtain ⟨q1, q2, h1, h2, _⟩ := popFirst_some hq
              refine ⟨?_, ?_, hF.txw, hF.txtr, hF.seens, ?_, ?_⟩
              · intro p hp
                simp only at hp
                rw [h2] at hp
                exact hF.txq p (by rw [h1]; rcases List.mem_append.mp hp with h | h <;> simp [h])
              · intro p hp
                simp only at hp
                rcases List.mem_append.mp hp with h | h
                · exact hF.txh p h
                · simp at h; subst h; exact hF.txq (w, b) (by rw [h1]; simp)
              · intro key
                have := hF.num key
                simp only
                rw [h1] at this
                rw [h2]
                simp only [bcount_append, bcount_cons] at this ⊢
                simp only [bcount, List.map_nil, List.sum_nil] at this ⊢
                omega
              · have := hF.perm
                simp only
                rw [h1] at this
                rw [h2]
                rw [List.perm_iff_count] at this ⊢
                intro x
                have := this x
                simp only [List.count_append, List.map_append, List.map_cons, List.count_cons, List.map_nil,
                  List.count_nil] at this ⊢
                omega
            · exact hF
        | sinkAccept w =>
          simp only [stepLive]
          split
          · rename_i b h hq
            obtain ⟨q1, q2, h1, h2, _⟩ := popFirst_some hq
            refine ⟨hF.txq, ?_, ?_, hF.txtr, hF.seens, ?_, ?_⟩
            · intro p hp
              simp only at hp
              rw [h2] at hp
              exact hF.txh p (by rw [h1]; rcases List.mem_append.mp hp with h | h <;> simp [h])
            · intro t ht
              simp only at ht
              rcases List.mem_append.mp ht with h | h
              · exact hF.txw t h
              · simp at h; subst h; exact hF.txh (w, b) (by rw [h1]; simp)
            · intro key
              have := hF.num key
              simp only
              rw [h1] at this
              rw [h2]
              simp only [bcount_append, bcount_cons, wcount_append, wcount_cons] at this ⊢
              simp only [wcount, List.map_nil, List.sum_nil] at this ⊢
              omega
            · have := hF.perm
              simp only
              rw [h1] at this
              rw [h2]
              rw [List.perm_iff_count] at this ⊢
              intro x
              have := this x
              simp only [List.count_append, List.map_append, List.map_cons, List.count_cons, List.map_nil,
                List.count_nil] at this ⊢
              omega
          · exact hF
        | sinkRetry w => exact hF
        | trackWritten =>
          simp only [stepLive]
          split
          · exact hF
          · rename_i t rest hw
            have htx := hF.txw t (by rw [hw]; simp)
            refine ⟨hF.txq, hF.txh, ?_, ?_, ?_, ?_, hF.perm⟩
            · intro t' ht'; exact hF.txw t' (by rw [hw]; simp [show t' ∈ rest from ht'])
            · intro t' k n hmem
              simp only [perform] at hmem
              rcases List.mem_append.mp hmem with hmem | hmem
              · exact hF.txtr t' k n hmem
              · obtain ⟨x, hx, he⟩ := List.mem_map.mp hmem
                simp only [writtenOp, Ledger.Op.written.injEq] at he
                obtain ⟨rfl, rfl, rfl⟩ := he
                obtain ⟨h1, m, hm, h2, h3, h4⟩ := htx.2 x hx
                exact ⟨h1, m, hm, h2, h3, h4⟩
            · simp only [perform]
              rw [seenOps_append, seenOps_written, List.append_nil]; exact hF.seens
            · intro key
              have := hF.num key
              rw [hw, wcount_cons] at this
              simp only [perform]
              rw [wsum_append, wsum_written_map t htx.1]
              omega
        | emit =>
          simp only [stepLive, perform]
          refine ⟨hF.txq, hF.txh, hF.txw, ?_, ?_, ?_, hF.perm⟩
          · intro t k n hmem
            rcases List.mem_append.mp hmem with hmem | hmem
            · exact hF.txtr t k n hmem
            · simp at hmem
          · rw [seenOps_append]
            show seenOps s.trace ++ [] = _
            rw [List.append_nil]; exact hF.seens
          · intro key
            rw [wsum_append]
            have := hF.num key
            simp only [wsum] at this ⊢
            omega

end PgBifrost.Sys
