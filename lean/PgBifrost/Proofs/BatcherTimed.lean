import PgBifrost.Model.BatcherTimed
import PgBifrost.Proofs.BatcherTick
/-! The age invariant of the timed batcher: relative to the last handled tick, no open batch is older than the
maximum age nor idle for longer than the idle age. -/
namespace PgBifrost.BatcherTimed
open PgBifrost.Batch PgBifrost.Batcher

theorem timesOf_setTimes (l : List BTimes) (e : BTimes) (pk : PKey) :
    timesOf (setTimes l e) pk = if pk = e.pkey then some e else timesOf l pk := by
  induction l with
  | nil =>
    simp only [setTimes, timesOf, List.find?_cons, List.find?_nil]
    by_cases h : pk = e.pkey
    · subst h; simp
    · have : (e.pkey == pk) = false := by simp; exact fun h' => h h'.symm
      simp [this, h]
  | cons x r ih =>
    simp only [setTimes]
    by_cases hx : (x.pkey == e.pkey) = true
    · simp only [hx, ↓reduceIte, timesOf, List.find?_cons]
      have hxe : x.pkey = e.pkey := by simpa using hx
      by_cases h : pk = e.pkey
      · subst h; simp
      · have h1 : (e.pkey == pk) = false := by simp; exact fun h' => h h'.symm
        have h2 : (x.pkey == pk) = false := by rw [hxe]; exact h1
        simp [h1, h2, h]
    · simp only [hx, Bool.false_eq_true, ↓reduceIte, timesOf, List.find?_cons]
      have hxe : x.pkey ≠ e.pkey := by simpa using hx
      by_cases hxp : (x.pkey == pk) = true
      · have : pk ≠ e.pkey := by
          have : x.pkey = pk := by simpa using hxp
          rw [← this]; exact hxe
        simp [hxp, this]
      · simp only [hxp, Bool.false_eq_true]
        have := ih
        simp only [timesOf] at this
        exact this

theorem addToBatch_getOpen (K : Kind) (cfg : Cfg) : ∀ (f : Nat) (s : State) (b : Batch) (m : Msg) (k : PKey),
    getOpen (addToBatch K cfg f s b m).1 k = getOpen s k := by
  intro f
  induction f with
  | zero => intro s b m k; rfl
  | succ n ih =>
    intro s b m k
    simp only [addToBatch]
    split
    · rfl
    · simp only []
      rw [ih, sendBatch_getOpen]
    · rfl
    · rfl
    · rfl

theorem noteCommit_getOpen (s : State) (m : Msg) (k : PKey) : getOpen (noteCommit s m) k = getOpen s k := by
  unfold noteCommit; split <;> rfl
theorem noteKey_getOpen (s : State) (m : Msg) (k : PKey) : getOpen (noteKey s m) k = getOpen s k := by
  unfold noteKey; split <;> rfl

theorem lookup_getOpen_other (s : State) (pk k : PKey) (hk : k ≠ pk) : getOpen (lookup s pk).1 k = getOpen s k := by
  unfold lookup; split
  · rfl
  · simp only []; rw [getOpen_setOpen, if_neg hk]

theorem roll_getOpen_other (K : Kind) (cfg : Cfg) (s : State) (cur : Batch) (pk k : PKey) (hk : k ≠ pk) :
    getOpen (roll K cfg s cur pk).1 k = getOpen s k := by
  unfold roll; split
  · simp only []; rw [getOpen_setOpen, if_neg hk, sendBatch_getOpen]
  · rfl

theorem prep_getOpen_other (K : Kind) (cfg : Cfg) (s : State) (m : Msg) (k : PKey) (hk : k ≠ m.pkey) :
    getOpen (prep K cfg s m).1 k = getOpen s k := by
  unfold prep
  rw [roll_getOpen_other _ _ _ _ _ _ hk, noteKey_getOpen, noteCommit_getOpen, lookup_getOpen_other _ _ _ hk]

theorem addPhase_getOpen_other (K : Kind) (cfg : Cfg) (s : State) (cur : Batch) (ev : List Ev) (m : Msg)
    (k : PKey) (hk : k ≠ m.pkey) : getOpen (addPhase K cfg s cur ev m).1 k = getOpen s k := by
  unfold addPhase; split
  · show getOpen (setOpen _ _ _) k = _
    rw [getOpen_setOpen, if_neg hk, addToBatch_getOpen]
  · show getOpen (setOpen _ _ _) k = _
    rw [getOpen_setOpen, if_neg hk, addToBatch_getOpen]

/-- a loop iteration for `m` touches no open batch but the one of `m`'s partition key -/
theorem onMsg_getOpen_other (K : Kind) (cfg : Cfg) (s : State) (m : Msg) (k : PKey) (hk : k ≠ m.pkey) :
    getOpen (onMsg K cfg s m).1 k = getOpen s k := by
  rw [onMsg_eq]; split
  · exact prep_getOpen_other K cfg s m k hk
  · rw [addPhase_getOpen_other _ _ _ _ _ _ _ hk]; exact prep_getOpen_other K cfg s m k hk

theorem timesOf_pkey {times : List BTimes} {pk : PKey} {o : BTimes} (h : timesOf times pk = some o) : o.pkey = pk := by
  unfold timesOf at h
  have := List.find?_some h
  simpa using this

/-- every time the iteration writes is the clock reading `t` or the value the key's open batch already had -/
theorem msgEntry_spec (K : Kind) (s : State) (times : List BTimes) (m : Msg) (t : Int) :
    (msgEntry K s times m t).pkey = m.pkey ∧
    ((msgEntry K s times m t).ctime = t ∨ ∃ b o, getOpen s m.pkey = some b ∧ timesOf times m.pkey = some o ∧
        (msgEntry K s times m t).ctime = o.ctime) ∧
    ((msgEntry K s times m t).mtime = t ∨ ∃ b o, getOpen s m.pkey = some b ∧ timesOf times m.pkey = some o ∧
        (msgEntry K s times m t).mtime = o.mtime) := by
  unfold msgEntry
  cases hh : getOpen s m.pkey with
  | none =>
    simp only [Option.isNone_none, Bool.true_or, ↓reduceIte, Option.getD_none]
    split
    · simp
    · split <;> simp
  | some b =>
    cases ho : timesOf times m.pkey with
    | none =>
      simp only [Option.isNone_some, Bool.false_or, Option.getD_some, Option.getD_none]
      split <;> (try split) <;> (try split) <;> simp
    | some o =>
      have hp := timesOf_pkey ho
      simp only [Option.isNone_some, Bool.false_or, Option.getD_some]
      split <;> (try split) <;> (try split) <;> simp [hp]

/-- **Age invariant.** -/
def Fresh (cfg : Cfg) (ts : TState) : Prop :=
  ts.lastTick ≤ ts.clock ∧
  ∀ pk b, getOpen ts.s pk = some b → ∃ e, timesOf ts.times pk = some e ∧
    ts.lastTick - cfg.maxAge ≤ e.ctime ∧ ts.lastTick - cfg.updAge ≤ e.mtime

theorem fresh_init (cfg : Cfg) (t0 : Int) : Fresh cfg (tinit {} t0) := by
  refine ⟨Int.le_refl _, ?_⟩
  intro pk b h
  simp [tinit, getOpen] at h

theorem mustFlush_false_bounds {K : Kind} {cfg : Cfg} {now : Int} {b : Batch} {c mt : Int}
    (h : mustFlush K cfg now b c mt = false) : now - cfg.maxAge ≤ c ∧ now - cfg.updAge ≤ mt := by
  simp only [mustFlush, Bool.or_eq_false_iff, decide_eq_false_iff_not, Int.not_lt] at h
  exact ⟨h.1.2, h.1.1.2⟩

theorem fresh_step {K : Kind} {cfg : Cfg} (hmax : 0 ≤ cfg.maxAge) (hupd : 0 ≤ cfg.updAge)
    (ts : TState) (op : TOp) (hF : Fresh cfg ts) (hok : (tstep K cfg ts op).1.ok = true) :
    Fresh cfg (tstep K cfg ts op).1 := by
  obtain ⟨hclk, hopen⟩ := hF
  cases op with
  | msg m t =>
    simp only [tstep] at hok ⊢
    by_cases hd : ts.s.dead = true
    · simp only [hd, ↓reduceIte]; exact ⟨hclk, hopen⟩
    · simp only [hd, Bool.false_eq_true, ↓reduceIte, Bool.and_eq_true, decide_eq_true_eq] at hok ⊢
      obtain ⟨_, hct⟩ := hok
      have htk : ts.lastTick ≤ t := Int.le_trans hclk hct
      refine ⟨htk, ?_⟩
      intro pk b hb
      rw [timesOf_setTimes]
      obtain ⟨hp, hc, hm⟩ := msgEntry_spec K ts.s ts.times m t
      by_cases hpk : pk = m.pkey
      · rw [hp, if_pos hpk]
        refine ⟨_, rfl, ?_, ?_⟩
        · show ts.lastTick - cfg.maxAge ≤ (msgEntry K ts.s ts.times m t).ctime
          rcases hc with h | ⟨b0, o, hb0, ho, h⟩
          · rw [h]; omega
          · obtain ⟨e, he, h1, _⟩ := hopen _ _ hb0
            rw [ho] at he; cases he; rw [h]; exact h1
        · show ts.lastTick - cfg.updAge ≤ (msgEntry K ts.s ts.times m t).mtime
          rcases hm with h | ⟨b0, o, hb0, ho, h⟩
          · rw [h]; omega
          · obtain ⟨e, he, _, h2⟩ := hopen _ _ hb0
            rw [ho] at he; cases he; rw [h]; exact h2
      · rw [hp, if_neg hpk]
        rw [onMsg_getOpen_other K cfg ts.s m pk hpk] at hb
        exact hopen pk b hb
  | tick now order =>
    simp only [tstep] at hok ⊢
    by_cases hd : ts.s.dead = true
    · simp only [hd, ↓reduceIte]; exact ⟨hclk, hopen⟩
    · simp only [hd, Bool.false_eq_true, ↓reduceIte, Bool.and_eq_true, decide_eq_true_eq] at hok ⊢
      obtain ⟨⟨_, _⟩, hv⟩ := hok
      refine ⟨Int.le_refl _, ?_⟩
      intro pk b hb
      rw [getOpen_onTick] at hb
      by_cases hord : pk ∈ order
      · rw [if_pos hord] at hb; cases hb
      · rw [if_neg hord] at hb
        obtain ⟨h1, _, h3, _⟩ := validTick_parts hv
        have hmem := mem_of_getOpen hb
        have hk : pk ∈ keysOf ts.s := List.mem_map.mpr ⟨_, hmem, rfl⟩
        have ht := h1 pk hk
        cases htt : timesOf ts.times pk with
        | none => rw [htt] at ht; cases ht
        | some e =>
          refine ⟨e, rfl, ?_⟩
          cases hmf : mustFlush K cfg now b e.ctime e.mtime with
          | true =>
            exact absurd (List.mem_of_mem_take (h3 pk (mem_mandatory hmem htt hmf))) hord
          | false => exact mustFlush_false_bounds hmf

theorem tstep_ok_mono {K : Kind} {cfg : Cfg} (ts : TState) (op : TOp) (h : (tstep K cfg ts op).1.ok = true) :
    ts.ok = true := by
  cases op with
  | msg m t =>
    simp only [tstep] at h
    split at h
    · exact h
    · simp only [Bool.and_eq_true] at h; exact h.1
  | tick now order =>
    simp only [tstep] at h
    split at h
    · exact h
    · simp only [Bool.and_eq_true] at h; exact h.1.1

theorem trun_ok_mono {K : Kind} {cfg : Cfg} (ops : List TOp) : ∀ (ts : TState),
    (trun K cfg ts ops).ok = true → ts.ok = true := by
  induction ops with
  | nil => intro ts h; exact h
  | cons o r ih => intro ts h; exact tstep_ok_mono ts o (ih _ h)

theorem fresh_run {K : Kind} {cfg : Cfg} (hmax : 0 ≤ cfg.maxAge) (hupd : 0 ≤ cfg.updAge) (ops : List TOp) :
    ∀ (ts : TState), Fresh cfg ts → (trun K cfg ts ops).ok = true → Fresh cfg (trun K cfg ts ops) := by
  induction ops with
  | nil => intro ts h _; exact h
  | cons o r ih =>
    intro ts hF hok
    have hok1 : (tstep K cfg ts o).1.ok = true := trun_ok_mono r _ hok
    exact ih _ (fresh_step hmax hupd ts o hF hok1) hok

end PgBifrost.BatcherTimed
