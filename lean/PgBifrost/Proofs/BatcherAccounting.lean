import PgBifrost.Proofs.BatcherBuilt
import PgBifrost.Proofs.BatcherTick
/-!
# Accounting: `txns` of all batches vs. the `total` of the seen entries

* `reach_charges`: for every delivery key, the counts recorded in the `txns` of all dispatched,
  self-reported and open batches add up to the number of data messages of that key that were
  charged (accepted, or dropped as too big; not the ones dropped as invalid).
* `run_obs`: `curKey`, `total` and the seen log (emitted ++ pending) as a function of the input.
-/
namespace PgBifrost.Batcher
open PgBifrost.Batch

/-! ## sums over the open list -/

def sumOpen (f : Batch → Nat) (l : List (PKey × Batch)) : Nat := (l.map fun p => f p.2).sum

theorem sumOpen_cons (f : Batch → Nat) (p : PKey × Batch) (l : List (PKey × Batch)) :
    sumOpen f (p :: l) = f p.2 + sumOpen f l := by simp [sumOpen]

theorem sumOpen_append (f : Batch → Nat) (a b : List (PKey × Batch)) :
    sumOpen f (a ++ b) = sumOpen f a + sumOpen f b := by simp [sumOpen, List.sum_append]

theorem sumOpen_replace (f : Batch → Nat) (pk : PKey) (b' : Batch) : ∀ {l : List (PKey × Batch)} {b : Batch},
    (l.map (·.1)).Nodup → lk l pk = some b →
    sumOpen f (l.map fun p => if p.1 == pk then (pk, b') else p) + f b = sumOpen f l + f b' := by
  intro l
  induction l with
  | nil => intro b _ h; simp [lk_nil] at h
  | cons q r ih =>
    intro b hn h
    rw [List.map_cons, List.nodup_cons] at hn
    rw [lk_cons] at h
    rw [List.map_cons, sumOpen_cons, sumOpen_cons]
    by_cases hq : q.1 = pk
    · rw [if_pos hq] at h
      have hb : q.2 = b := by simpa using h
      have hnot : r.any (·.1 == pk) = false := by
        rw [Bool.eq_false_iff]; intro hany
        rw [List.any_eq_true] at hany
        obtain ⟨x, hx, hxk⟩ := hany
        apply hn.1
        rw [hq]; exact List.mem_map.mpr ⟨x, hx, by simpa using hxk⟩
      rw [map_replace_of_any_false b' hnot]
      simp [hq, hb]; omega
    · rw [if_neg hq] at h
      have := ih hn.2 h
      have hq' : (q.1 == pk) = false := by simp [hq]
      simp only [hq', Bool.false_eq_true, if_false]
      omega

theorem sumOpen_filter_ne (f : Batch → Nat) (pk : PKey) : ∀ {l : List (PKey × Batch)} {b : Batch},
    (l.map (·.1)).Nodup → lk l pk = some b →
    sumOpen f (l.filter fun p => !(p.1 == pk)) + f b = sumOpen f l := by
  intro l
  induction l with
  | nil => intro b _ h; simp [lk_nil] at h
  | cons q r ih =>
    intro b hn h
    rw [List.map_cons, List.nodup_cons] at hn
    rw [lk_cons] at h
    by_cases hq : q.1 = pk
    · rw [if_pos hq] at h
      have hb : q.2 = b := by simpa using h
      have hnone : lk r pk = none := by
        apply lk_none_of_any_false
        rw [Bool.eq_false_iff]; intro hany
        rw [List.any_eq_true] at hany
        obtain ⟨x, hx, hxk⟩ := hany
        apply hn.1
        rw [hq]; exact List.mem_map.mpr ⟨x, hx, by simpa using hxk⟩
      rw [List.filter_cons_of_neg (by simp [hq]), filter_of_lk_none hnone, sumOpen_cons, hb]; omega
    · rw [if_neg hq] at h
      rw [List.filter_cons_of_pos (by simp [hq]), sumOpen_cons, sumOpen_cons]
      have := ih hn.2 h
      omega

theorem any_false_of_lk_none {l : List (PKey × Batch)} {pk : PKey} (h : lk l pk = none) :
    l.any (·.1 == pk) = false := by
  induction l with
  | nil => rfl
  | cons q r ih =>
    rw [lk_cons] at h
    by_cases hq : q.1 = pk
    · simp [hq] at h
    · rw [if_neg hq] at h
      simp [hq, ih h]

/-- open-list sum after `setOpen` -/
theorem sumOpen_setOpen_some (f : Batch → Nat) {s : State} (hn : KeysNodup s) {pk : PKey} {b : Batch}
    (ho : getOpen s pk = some b) (b' : Batch) :
    sumOpen f (setOpen s pk b').openB + f b = sumOpen f s.openB + f b' := by
  have hany : s.openB.any (fun p => p.1 == pk) = true := by
    cases hf : s.openB.any (fun p => p.1 == pk) with
    | true => rfl
    | false =>
      have := lk_none_of_any_false hf
      rw [getOpen_eq_lk] at ho; rw [ho] at this; cases this
  unfold setOpen; rw [if_pos hany]
  exact sumOpen_replace f pk b' hn ho

theorem sumOpen_setOpen_none (f : Batch → Nat) {s : State} {pk : PKey}
    (ho : getOpen s pk = none) (b' : Batch) :
    sumOpen f (setOpen s pk b').openB = sumOpen f s.openB + f b' := by
  have hany := any_false_of_lk_none ho
  unfold setOpen; rw [if_neg (by rw [hany]; simp)]
  simp [sumOpen]

theorem sumOpen_delOpen (f : Batch → Nat) {s : State} (hn : KeysNodup s) {pk : PKey} {b : Batch}
    (ho : getOpen s pk = some b) :
    sumOpen f (delOpen s pk).openB + f b = sumOpen f s.openB :=
  sumOpen_filter_ne f pk hn ho

/-! ## charges -/

/-- what an event reports to the ledger for delivery key `key` -/
def chargeEv (key : Nat) : Ev → Nat
  | .dispatch _ b => countOf b.txns key
  | .selfReport t => countOf t key
  | _ => 0

/-- sum over all dispatched and self-reported batches of the count recorded for `key` -/
def chargedEvs (evs : List Ev) (key : Nat) : Nat := (evs.map (chargeEv key)).sum

/-- the same sum over the open batches -/
def chargedOpen (s : State) (key : Nat) : Nat := sumOpen (fun b => countOf b.txns key) s.openB

theorem chargedEvs_append (a b : List Ev) (key : Nat) : chargedEvs (a ++ b) key = chargedEvs a key + chargedEvs b key := by
  simp [chargedEvs, List.sum_append]

theorem chargedEvs_sendBatch (cfg : Cfg) (s : State) (b : Batch) (key : Nat) :
    chargedEvs (sendBatch cfg s b).2 key = countOf b.txns key := by
  rw [sendBatch_eq, chargedEvs_append]
  have h1 : chargedEvs (flushSeen s).2 key = 0 := by
    unfold flushSeen; split <;> simp [chargedEvs, chargeEv]
  have h2 : chargedEvs (route cfg (flushSeen s).1 b).2 key = countOf b.txns key := by
    unfold route
    by_cases hemp : b.isEmpty = true
    · simp [hemp, chargedEvs, chargeEv]
    · simp only [hemp, if_false, Bool.false_eq_true]
      cases cfg.routing <;> simp [chargedEvs, chargeEv]
  rw [h1, h2]; omega

/-- is a data message charged to some batch's `txns` (accepted or dropped as too big)? -/
def chargedMsg (big bad : Msg → Bool) (key : Nat) (m : Msg) : Bool := m.key == key && (big m || !bad m)

/-- **global txns accounting** -/
theorem reach_charges {K : Kind} {big bad : Msg → Bool} {dom : Msg → Prop} (hL : Laws K big bad dom)
    {cfg : Cfg} {g : List Msg} {acc : State × List Ev} (h : Reach K cfg g acc) (key : Nat) :
    chargedEvs acc.2 key + chargedOpen acc.1 key = (g.filter (chargedMsg big bad key)).length := by
  induction h with
  | init => rfl
  | @create g s evs pk hR hnone ih =>
    simp only at ih ⊢
    unfold chargedOpen at ih ⊢
    rw [sumOpen_setOpen_none _ hnone, ← ih]
    simp [fresh, countOf_nil]
  | @noteCommit g s evs m _ ih =>
    have : (noteCommit s m).openB = s.openB := by unfold noteCommit; split <;> rfl
    simp only [chargedOpen, this] at ih ⊢; exact ih
  | @noteKey g s evs m _ ih =>
    have : (noteKey s m).openB = s.openB := by unfold noteKey; split <;> rfl
    simp only [chargedOpen, this] at ih ⊢; exact ih
  | @sendReplace g s evs pk b hR ho ih =>
    simp only at ih ⊢
    have hn : KeysNodup (sendBatch cfg s b).1 := keysNodup_of_openB_eq (reach_keysNodup hR) (sendBatch_openB _ _ _)
    have ho' : getOpen (sendBatch cfg s b).1 pk = some b := by rw [sendBatch_getOpen]; exact ho
    have := sumOpen_setOpen_some (fun b => countOf b.txns key) hn ho' (fresh pk)
    unfold chargedOpen at ih ⊢
    rw [sendBatch_openB] at this
    rw [chargedEvs_append, chargedEvs_sendBatch, ← ih]
    have hf : countOf (fresh pk).txns key = 0 := rfl
    rw [hf] at this
    omega
  | @sendDel g s evs pk b hR ho ih =>
    simp only at ih ⊢
    have hn : KeysNodup (sendBatch cfg s b).1 := keysNodup_of_openB_eq (reach_keysNodup hR) (sendBatch_openB _ _ _)
    have ho' : getOpen (sendBatch cfg s b).1 pk = some b := by rw [sendBatch_getOpen]; exact ho
    have := sumOpen_delOpen (fun b => countOf b.txns key) hn ho'
    unfold chargedOpen at ih ⊢
    rw [sendBatch_openB] at this
    rw [chargedEvs_append, chargedEvs_append, chargedEvs_sendBatch, ← ih]
    simp only [chargedEvs, chargeEv, List.map_cons, List.map_nil, List.sum_cons, List.sum_nil]
    omega
  | @add g s evs m b b' st hR hd ho hout ih =>
    simp only at ih ⊢
    have hn := reach_keysNodup hR
    have hsum := sumOpen_setOpen_some (fun b => countOf b.txns key) hn ho b'
    have hst : chargedEvs st key = 0 := by
      rcases hout with ⟨_, h⟩ | ⟨_, h⟩ | ⟨_, h⟩ <;> subst h <;> rfl
    have hcnt : countOf b'.txns key = countOf b.txns key + (if chargedMsg big bad key m then 1 else 0) := by
      rcases hout with ⟨ha, _⟩ | ⟨ha, _⟩ | ⟨ha, _⟩
      · rw [(hL.ok_payload _ _ _ ha).2.2, countOf_updateTxns]
        obtain ⟨h3, h4⟩ := hL.ok_good _ _ _ ha
        by_cases hk : m.key = key <;> simp [chargedMsg, hk, h3, h4]
      · rw [(hL.tooBig_big _ _ _ ha).2.2.2, countOf_updateTxns]
        have h3 := (hL.tooBig_big _ _ _ ha).1
        by_cases hk : m.key = key <;> simp [chargedMsg, hk, h3]
      · obtain ⟨h1, h2, h3⟩ := hL.invalid_bad _ _ _ ha
        rw [h3]; simp [chargedMsg, h1, h2]
    unfold chargedOpen at ih ⊢
    simp only at hsum ⊢
    rw [chargedEvs_append, hst, List.filter_append, List.length_append, ← ih]
    by_cases hc : chargedMsg big bad key m = true
    · simp [hc] at hcnt ⊢; omega
    · have hc' : chargedMsg big bad key m = false := Bool.eq_false_iff.mpr hc
      simp [hc'] at hcnt ⊢; omega

/-! ## `curKey`, `total` and the seen log -/

/-- a transition that neither changes `curKey`/`total`/`dead` nor loses or reorders seen entries:
emitted entries followed by the pending ones are the previously pending ones -/
structure SeenFrame (s : State) (ev : List Ev) (s' : State) : Prop where
  curKey : s'.curKey = s.curKey
  total : s'.total = s.total
  dead : s'.dead = s.dead
  seen : seenEntries ev ++ s'.seenList = s.seenList

theorem SeenFrame.refl (s : State) : SeenFrame s [] s := ⟨rfl, rfl, rfl, rfl⟩

theorem SeenFrame.trans {s s1 s2 : State} {e1 e2 : List Ev} (h1 : SeenFrame s e1 s1) (h2 : SeenFrame s1 e2 s2) :
    SeenFrame s (e1 ++ e2) s2 :=
  ⟨h2.curKey.trans h1.curKey, h2.total.trans h1.total, h2.dead.trans h1.dead,
    by rw [seenEntries_append, List.append_assoc, h2.seen, h1.seen]⟩

theorem seenFrame_sendBatch (cfg : Cfg) (s : State) (b : Batch) :
    SeenFrame s (sendBatch cfg s b).2 (sendBatch cfg s b).1 :=
  ⟨sendBatch_curKey cfg s b, sendBatch_total cfg s b, sendBatch_dead cfg s b,
    by rw [seenEntries_sendBatch, sendBatch_seenList, List.append_nil]⟩

theorem seenFrame_setOpen (s : State) (pk : PKey) (b : Batch) : SeenFrame s [] (setOpen s pk b) := by
  unfold setOpen; split <;> exact ⟨rfl, rfl, rfl, rfl⟩

theorem seenFrame_delOpen (s : State) (pk : PKey) : SeenFrame s [] (delOpen s pk) := ⟨rfl, rfl, rfl, rfl⟩

theorem seenFrame_stat (s : State) (n : String) : SeenFrame s [.stat n] s := ⟨rfl, rfl, rfl, rfl⟩
theorem seenFrame_fatal (s : State) : SeenFrame s [.fatal] s := ⟨rfl, rfl, rfl, rfl⟩

theorem seenFrame_addToBatch (K : Kind) (cfg : Cfg) : ∀ (fuel : Nat) (s : State) (b : Batch) (m : Msg),
    SeenFrame s (addToBatch K cfg fuel s b m).2.2.1 (addToBatch K cfg fuel s b m).1 := by
  intro fuel
  induction fuel with
  | zero => intro s b m; exact seenFrame_fatal s
  | succ f ih =>
    intro s b m
    cases hadd : K.add b m with
    | mk r b' =>
      cases r with
      | ok => rw [addToBatch_ok cfg f s hadd]; exact SeenFrame.refl s
      | tooBig => rw [addToBatch_tooBig cfg f s hadd]; exact seenFrame_stat s _
      | invalid => rw [addToBatch_invalid cfg f s hadd]; exact seenFrame_stat s _
      | full => rw [addToBatch_full cfg f s hadd]; exact seenFrame_fatal s
      | cantFit =>
        rw [addToBatch_cantFit cfg f s hadd]
        exact (seenFrame_sendBatch cfg s b).trans (ih _ _ _)

theorem seenFrame_lookup (s : State) (pk : PKey) : SeenFrame s [] (lookup s pk).1 := by
  unfold lookup; split
  · exact SeenFrame.refl s
  · exact seenFrame_setOpen s pk _

theorem seenFrame_roll (K : Kind) (cfg : Cfg) (s : State) (cur : Batch) (pk : PKey) :
    SeenFrame s (roll K cfg s cur pk).2.2 (roll K cfg s cur pk).1 := by
  unfold roll; split
  · have := (seenFrame_sendBatch cfg s cur).trans (seenFrame_setOpen (sendBatch cfg s cur).1 pk (fresh pk))
    simpa using this
  · exact SeenFrame.refl s

/-- the entry `onMsg` appends to the pending seen list for a COMMIT -/
def commitEntry (s : State) (m : Msg) : List SeenE :=
  if m.op = .commit then [⟨m.txn, m.key, s.total, m.lsn⟩] else []

theorem noteBoth (s : State) (m : Msg) :
    (noteKey (noteCommit s m) m).curKey = some m.key ∧
    (noteKey (noteCommit s m) m).total = (if s.curKey = some m.key then s.total else 0) ∧
    (noteKey (noteCommit s m) m).dead = s.dead ∧
    (noteKey (noteCommit s m) m).seenList = s.seenList ++ commitEntry s m := by
  unfold noteKey noteCommit commitEntry
  by_cases h1 : m.op = .commit <;> by_cases h2 : s.curKey = some m.key <;> simp [h1, h2]

/-- what one message does to `curKey`, `total` and the seen log -/
theorem onMsg_obs (K : Kind) (cfg : Cfg) (s : State) (m : Msg) :
    (onMsg K cfg s m).1.curKey = some m.key ∧
    seenEntries (onMsg K cfg s m).2 ++ (onMsg K cfg s m).1.seenList = s.seenList ++ commitEntry s m ∧
    ((onMsg K cfg s m).1.dead = false →
      (onMsg K cfg s m).1.total =
        (if s.curKey = some m.key then s.total else 0) + (if m.op = .data then 1 else 0)) := by
  have hl := seenFrame_lookup s m.pkey
  obtain ⟨n1, n2, n3, n4⟩ := noteBoth (lookup s m.pkey).1 m
  have hr := seenFrame_roll K cfg (noteKey (noteCommit (lookup s m.pkey).1 m) m) (lookup s m.pkey).2 m.pkey
  have hp1 : (prep K cfg s m).1.curKey = some m.key := by unfold prep; rw [hr.curKey, n1]
  have hp2 : (prep K cfg s m).1.total = (if s.curKey = some m.key then s.total else 0) := by
    unfold prep; rw [hr.total, n2, hl.curKey, hl.total]
  have hp4 : seenEntries (prep K cfg s m).2.2 ++ (prep K cfg s m).1.seenList = s.seenList ++ commitEntry s m := by
    unfold prep; rw [hr.seen, n4]
    have := hl.seen; simp only [seenEntries, List.flatMap_nil, List.nil_append] at this
    rw [this]; unfold commitEntry; rw [hl.total]
  rw [onMsg_eq]
  by_cases hd : m.op = .data
  · have hne : (m.op != .data) = false := by simp [hd]
    rw [hne]; simp only [Bool.false_eq_true, if_false]
    have ha := seenFrame_addToBatch K cfg 3 (prep K cfg s m).1 (prep K cfg s m).2.1 m
    have hs := seenFrame_setOpen (addToBatch K cfg 3 (prep K cfg s m).1 (prep K cfg s m).2.1 m).1 m.pkey
      (addToBatch K cfg 3 (prep K cfg s m).1 (prep K cfg s m).2.1 m).2.1
    have hfr := ha.trans hs
    rw [List.append_nil] at hfr
    unfold addPhase
    split
    · refine ⟨by simp only []; rw [hfr.curKey, hp1], ?_, fun h => by simp at h⟩
      simp only []
      rw [seenEntries_append, List.append_assoc]
      have := hfr.seen
      rw [this, hp4]
    · refine ⟨by simp only []; rw [hfr.curKey, hp1], ?_, fun _ => ?_⟩
      · simp only []
        rw [seenEntries_append, List.append_assoc]
        have := hfr.seen
        rw [this, hp4]
      · simp only []
        rw [hfr.total, hp2]
  · have hne : (m.op != .data) = true := by simp [hd]
    rw [hne]; simp only [if_true]
    exact ⟨hp1, hp4, fun _ => by rw [hp2, if_neg hd]; rfl⟩

/-- a tick does not change `curKey`/`total` and only moves pending seen entries to the log -/
theorem foldl_flushOne_obs (cfg : Cfg) (order : List PKey) : ∀ (s : State) (e : List Ev),
    (order.foldl (flushOne cfg) (s, e)).1.curKey = s.curKey ∧
    (order.foldl (flushOne cfg) (s, e)).1.total = s.total ∧
    seenEntries (order.foldl (flushOne cfg) (s, e)).2 ++ (order.foldl (flushOne cfg) (s, e)).1.seenList =
      seenEntries e ++ s.seenList := by
  induction order with
  | nil => intro s e; exact ⟨rfl, rfl, rfl⟩
  | cons pk r ih =>
    intro s e
    rw [List.foldl_cons]
    cases hg : getOpen s pk with
    | none => rw [flushOne_none _ hg]; exact ih s e
    | some b =>
      rw [flushOne_some _ hg]
      obtain ⟨h1, h2, h3⟩ := ih (delOpen (sendBatch cfg s b).1 pk) (e ++ (sendBatch cfg s b).2 ++ [.stat "batch_closed_early"])
      have hf := (seenFrame_sendBatch cfg s b).trans (seenFrame_delOpen (sendBatch cfg s b).1 pk)
      refine ⟨h1.trans hf.curKey, h2.trans hf.total, ?_⟩
      rw [h3, seenEntries_append, seenEntries_append, List.append_assoc, List.append_assoc]
      have := hf.seen
      rw [List.append_nil] at this
      simp only [seenEntries, List.flatMap_cons, List.flatMap_nil, seenOf, List.append_nil, List.nil_append] at this ⊢
      rw [this]

/-! ### the specification: `curKey`, `total`, seen log as functions of the input messages -/

structure Track where
  curKey : Option Nat := none
  total : Nat := 0
  seens : List SeenE := []

def trackStep (t : Track) (m : Msg) : Track :=
  { curKey := some m.key
    total := (if t.curKey = some m.key then t.total else 0) + (if m.op = .data then 1 else 0)
    seens := t.seens ++ (if m.op = .commit then [⟨m.txn, m.key, t.total, m.lsn⟩] else []) }

/-- `curKey`, `total` and all seen entries (in order) after the messages `ms` -/
def track (ms : List Msg) : Track := ms.foldl trackStep {}

theorem track_snoc (ms : List Msg) (m : Msg) : track (ms ++ [m]) = trackStep (track ms) m := by
  simp [track, List.foldl_append]

theorem msgs_snoc_msg (ops : List Op) (m : Msg) : msgs (ops ++ [.msg m]) = msgs ops ++ [m] := by
  simp [msgs, msgOf]
theorem msgs_snoc_tick (ops : List Op) (now : Int) (t : List BTimes) (o : List PKey) :
    msgs (ops ++ [.tick now t o]) = msgs ops := by
  simp [msgs, msgOf]

/-- **the seen log of a run** (not dead): `curKey`, `total`, and emitted ++ pending seen entries are
exactly what `track` computes from the input messages -/
theorem run_obs (K : Kind) (cfg : Cfg) (ops : List Op) (hnd : (run K cfg ops).1.dead = false) :
    (run K cfg ops).1.curKey = (track (msgs ops)).curKey ∧
    (run K cfg ops).1.total = (track (msgs ops)).total ∧
    seenEntries (run K cfg ops).2 ++ (run K cfg ops).1.seenList = (track (msgs ops)).seens := by
  revert hnd
  apply run_induction K cfg (fun ops acc => acc.1.dead = false →
    acc.1.curKey = (track (msgs ops)).curKey ∧ acc.1.total = (track (msgs ops)).total ∧
    seenEntries acc.2 ++ acc.1.seenList = (track (msgs ops)).seens)
  · intro _; exact ⟨rfl, rfl, rfl⟩
  · intro pre acc op _ ih hnd
    have hnd0 : acc.1.dead = false := by
      cases hd : acc.1.dead with
      | false => rfl
      | true => rw [stepAcc_dead K cfg acc op hd] at hnd; rw [hd] at hnd; cases hnd
    obtain ⟨i1, i2, i3⟩ := ih hnd0
    cases op with
    | msg m =>
      have hstep : stepAcc K cfg acc (.msg m) = ((onMsg K cfg acc.1 m).1, acc.2 ++ (onMsg K cfg acc.1 m).2) := by
        simp [stepAcc, step, hnd0]
      rw [hstep] at hnd ⊢
      obtain ⟨o1, o2, o3⟩ := onMsg_obs K cfg acc.1 m
      rw [msgs_snoc_msg, track_snoc]
      refine ⟨o1, ?_, ?_⟩
      · simp only [trackStep]; rw [o3 hnd, i1, i2]
      · simp only [trackStep]
        rw [seenEntries_append, List.append_assoc, o2, ← List.append_assoc, i3]
        unfold commitEntry; rw [i2]
    | tick now t order =>
      have hstep : stepAcc K cfg acc (.tick now t order) =
          ((onTick cfg acc.1 order).1, acc.2 ++ (onTick cfg acc.1 order).2) := by
        simp [stepAcc, step, hnd0]
      rw [hstep, msgs_snoc_tick]
      obtain ⟨t1, t2, t3⟩ := foldl_flushOne_obs cfg order acc.1 []
      refine ⟨t1.trans i1, t2.trans i2, ?_⟩
      rw [seenEntries_append, List.append_assoc]
      have : seenEntries (onTick cfg acc.1 order).2 ++ (onTick cfg acc.1 order).1.seenList = acc.1.seenList := by
        unfold onTick; simpa [seenEntries] using t3
      rw [this, i3]

/-! ### closed forms -/

/-- number of data messages in the maximal suffix of `ms` all of whose messages carry delivery key
`key`: "data messages of `key` processed since `key` became the current key" -/
def trailingData (key : Nat) (ms : List Msg) : Nat :=
  ((ms.reverse.takeWhile (fun m => m.key == key)).filter (fun m => m.op == .data)).length

theorem track_rev (l : List Msg) :
    (track l.reverse).curKey = l.head?.map (·.key) ∧
    ∀ key, (track l.reverse).curKey = some key →
      (track l.reverse).total = ((l.takeWhile (fun m => m.key == key)).filter (fun m => m.op == .data)).length := by
  induction l with
  | nil => exact ⟨rfl, fun key h => by cases h⟩
  | cons m l ih =>
    rw [List.reverse_cons, track_snoc]
    refine ⟨rfl, fun key hk => ?_⟩
    simp only [trackStep] at hk ⊢
    have hk' : m.key = key := by simpa using hk
    subst hk'
    rw [List.takeWhile_cons]
    simp only [beq_self_eq_true, if_true, List.filter_cons]
    by_cases hc : (track l.reverse).curKey = some m.key
    · rw [if_pos hc, ih.2 _ hc]
      by_cases hd : m.op = .data <;> simp [hd] <;> omega
    · rw [if_neg hc]
      have : l.takeWhile (fun x => x.key == m.key) = [] := by
        cases l with
        | nil => rfl
        | cons x r =>
          apply List.takeWhile_cons_of_neg
          intro hx
          apply hc
          rw [ih.1]; simp at hx ⊢; exact hx
      rw [this]
      by_cases hd : m.op = .data <;> simp [hd]

/-- `total` is the number of data messages of the current key since it became current -/
theorem track_total (ms : List Msg) (key : Nat) (h : (track ms).curKey = some key) :
    (track ms).total = trailingData key ms := by
  have := (track_rev ms.reverse).2 key (by rw [List.reverse_reverse]; exact h)
  rw [List.reverse_reverse] at this
  exact this

theorem track_curKey (ms : List Msg) : (track ms).curKey = ms.getLast?.map (·.key) := by
  have := (track_rev ms.reverse).1
  rw [List.reverse_reverse, List.head?_reverse] at this
  exact this

theorem foldl_trackStep_seens (more : List Msg) : ∀ t : Track,
    ∃ extra, (more.foldl trackStep t).seens = t.seens ++ extra := by
  induction more with
  | nil => intro t; exact ⟨[], by simp⟩
  | cons m r ih =>
    intro t
    obtain ⟨e, he⟩ := ih (trackStep t m)
    refine ⟨(if m.op = .commit then [⟨m.txn, m.key, t.total, m.lsn⟩] else []) ++ e, ?_⟩
    rw [List.foldl_cons, he]; simp only [trackStep, List.append_assoc]

/-- the seen entry of a COMMIT `c` processed after the messages `pre` -/
theorem track_commit_mem (pre : List Msg) (c : Msg) (post : List Msg) (hc : c.op = .commit) :
    (⟨c.txn, c.key, (track pre).total, c.lsn⟩ : SeenE) ∈ (track (pre ++ c :: post)).seens := by
  have h1 : pre ++ c :: post = (pre ++ [c]) ++ post := by simp
  rw [h1]
  unfold track
  rw [List.foldl_append]
  obtain ⟨e, he⟩ := foldl_trackStep_seens post ((pre ++ [c]).foldl trackStep {})
  rw [he]
  apply List.mem_append_left
  have := track_snoc pre c
  unfold track at this
  rw [this]
  simp [trackStep, hc]

/-- the run of a transaction's delivery key: `T` directly before its COMMIT -/
theorem trailingData_run (A T : List Msg) (key : Nat) (hT : ∀ m ∈ T, m.key = key) (hA : ∀ m ∈ A, m.key ≠ key) :
    trailingData key (A ++ T) = (T.filter (fun m => m.op == .data)).length := by
  unfold trailingData
  rw [List.reverse_append, List.takeWhile_append_of_pos (by intro a ha; simp [hT a (List.mem_reverse.mp ha)])]
  have : A.reverse.takeWhile (fun m => m.key == key) = [] := by
    cases hr : A.reverse with
    | nil => rfl
    | cons x r =>
      apply List.takeWhile_cons_of_neg
      have hx : x ∈ A := List.mem_reverse.mp (by rw [hr]; exact List.mem_cons_self)
      simpa using hA x hx
  rw [this, List.append_nil, List.filter_reverse, List.length_reverse]

end PgBifrost.Batcher
