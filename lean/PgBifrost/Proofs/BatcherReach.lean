import PgBifrost.Proofs.BatcherRun
/-!
# The batcher as a sequence of micro-steps (`Reach`)

Every state/event-log pair the batcher can be in (while not dead) is reachable by a handful of
micro-steps: create the key's batch, note a COMMIT, note the delivery key, send the key's open
batch and replace it by a fresh one / delete it, add a data message to the key's open batch
(answers ok / too big / invalid). The ghost index is the list of data messages added so far.
All run invariants are proved once over `Reach`; `run_reach` ties `run` to it.
-/
namespace PgBifrost.Batcher
open PgBifrost.Batch

/-- the three non-fatal, non-retry answers of `Add` with the stat the batcher emits -/
def AddOut (K : Kind) (b : Batch) (m : Msg) (b' : Batch) (st : List Ev) : Prop :=
  (K.add b m = (.ok, b') ∧ st = []) ∨
  (K.add b m = (.tooBig, b') ∧ st = [.stat "dropped_too_big"]) ∨
  (K.add b m = (.invalid, b') ∧ st = [.stat "dropped_msg_invalid"])

inductive Reach (K : Kind) (cfg : Cfg) : List Msg → State × List Ev → Prop
  | init : Reach K cfg [] ({}, [])
  | create {g s evs} (pk : PKey) : Reach K cfg g (s, evs) → getOpen s pk = none →
      Reach K cfg g (setOpen s pk (fresh pk), evs)
  | noteCommit {g s evs} (m : Msg) : Reach K cfg g (s, evs) → Reach K cfg g (noteCommit s m, evs)
  | noteKey {g s evs} (m : Msg) : Reach K cfg g (s, evs) → Reach K cfg g (noteKey s m, evs)
  | sendReplace {g s evs} (pk : PKey) (b : Batch) : Reach K cfg g (s, evs) → getOpen s pk = some b →
      Reach K cfg g (setOpen (sendBatch cfg s b).1 pk (fresh pk), evs ++ (sendBatch cfg s b).2)
  | sendDel {g s evs} (pk : PKey) (b : Batch) : Reach K cfg g (s, evs) → getOpen s pk = some b →
      Reach K cfg g (delOpen (sendBatch cfg s b).1 pk, evs ++ (sendBatch cfg s b).2 ++ [.stat "batch_closed_early"])
  | add {g s evs} (m : Msg) (b b' : Batch) (st : List Ev) : Reach K cfg g (s, evs) → m.op = .data →
      getOpen s m.pkey = some b → AddOut K b m b' st →
      Reach K cfg (g ++ [m])
        ({ setOpen s m.pkey b' with total := (setOpen s m.pkey b').total + 1 }, evs ++ st)

/-! ## list facts for `setOpen ∘ setOpen` -/

theorem map_replace_of_any_false {l : List (PKey × Batch)} {pk : PKey} (b : Batch)
    (h : l.any (·.1 == pk) = false) : (l.map fun p => if p.1 == pk then (pk, b) else p) = l := by
  induction l with
  | nil => rfl
  | cons p l ih =>
    simp only [List.any_cons, Bool.or_eq_false_iff] at h
    rw [List.map_cons, ih h.2, h.1]; simp

theorem any_map_replace (l : List (PKey × Batch)) (pk : PKey) (b : Batch) :
    (l.map fun p => if p.1 == pk then (pk, b) else p).any (·.1 == pk) = l.any (·.1 == pk) := by
  induction l with
  | nil => rfl
  | cons p l ih =>
    rw [List.map_cons, List.any_cons, List.any_cons, ih]
    by_cases hp : (p.1 == pk) = true
    · simp [hp]
    · have : (p.1 == pk) = false := Bool.eq_false_iff.mpr hp
      simp [this]

theorem setOpen_setOpen (s : State) (pk : PKey) (a b : Batch) :
    setOpen (setOpen s pk a) pk b = setOpen s pk b := by
  by_cases hany : s.openB.any (fun p => p.1 == pk) = true
  · have h1 : setOpen s pk a = { s with openB := s.openB.map fun p => if p.1 == pk then (pk, a) else p } := by
      unfold setOpen; rw [if_pos hany]
    have h2 : setOpen s pk b = { s with openB := s.openB.map fun p => if p.1 == pk then (pk, b) else p } := by
      unfold setOpen; rw [if_pos hany]
    rw [h1, h2]
    unfold setOpen
    simp only [any_map_replace, hany, if_true, List.map_map]
    congr 1
    apply List.map_congr_left
    intro p _
    by_cases hp : p.1 = pk
    · simp [hp]
    · simp [hp]
  · have hany' : s.openB.any (fun p => p.1 == pk) = false := Bool.eq_false_iff.mpr hany
    have h1 : setOpen s pk a = { s with openB := s.openB ++ [(pk, a)] } := by
      unfold setOpen; rw [if_neg hany]
    have h2 : setOpen s pk b = { s with openB := s.openB ++ [(pk, b)] } := by
      unfold setOpen; rw [if_neg hany]
    rw [h1, h2]
    unfold setOpen
    have : (s.openB ++ [(pk, a)]).any (fun p => p.1 == pk) = true := by simp
    simp only [this, if_true, List.map_append, map_replace_of_any_false b hany']
    simp

/-! ## `addToBatch` by answer -/

theorem addToBatch_ok {K : Kind} (cfg : Cfg) (f : Nat) (s : State) {b b' : Batch} {m : Msg}
    (h : K.add b m = (.ok, b')) : addToBatch K cfg (f + 1) s b m = (s, b', [], false) := by
  simp [addToBatch, h]

theorem addToBatch_tooBig {K : Kind} (cfg : Cfg) (f : Nat) (s : State) {b b' : Batch} {m : Msg}
    (h : K.add b m = (.tooBig, b')) :
    addToBatch K cfg (f + 1) s b m = (s, b', [.stat "dropped_too_big"], false) := by
  simp [addToBatch, h]

theorem addToBatch_invalid {K : Kind} (cfg : Cfg) (f : Nat) (s : State) {b b' : Batch} {m : Msg}
    (h : K.add b m = (.invalid, b')) :
    addToBatch K cfg (f + 1) s b m = (s, b', [.stat "dropped_msg_invalid"], false) := by
  simp [addToBatch, h]

theorem addToBatch_full {K : Kind} (cfg : Cfg) (f : Nat) (s : State) {b b' : Batch} {m : Msg}
    (h : K.add b m = (.full, b')) : addToBatch K cfg (f + 1) s b m = (s, b', [.fatal], true) := by
  simp [addToBatch, h]

theorem addToBatch_cantFit {K : Kind} (cfg : Cfg) (f : Nat) (s : State) {b b' : Batch} {m : Msg}
    (h : K.add b m = (.cantFit, b')) :
    addToBatch K cfg (f + 1) s b m =
      ((addToBatch K cfg f (sendBatch cfg s b).1 (fresh m.pkey) m).1,
       (addToBatch K cfg f (sendBatch cfg s b).1 (fresh m.pkey) m).2.1,
       (sendBatch cfg s b).2 ++ (addToBatch K cfg f (sendBatch cfg s b).1 (fresh m.pkey) m).2.2.1,
       (addToBatch K cfg f (sendBatch cfg s b).1 (fresh m.pkey) m).2.2.2) := by
  simp [addToBatch, h]

/-! ## the phases of `onMsg` are micro-steps -/

theorem getOpen_noteCommit (s : State) (m : Msg) (k : PKey) : getOpen (noteCommit s m) k = getOpen s k := by
  unfold noteCommit; split <;> rfl

theorem getOpen_noteKey (s : State) (m : Msg) (k : PKey) : getOpen (noteKey s m) k = getOpen s k := by
  unfold noteKey; split <;> rfl

theorem lookup_reach {K : Kind} {cfg : Cfg} {g : List Msg} {s : State} {evs : List Ev} (pk : PKey)
    (h : Reach K cfg g (s, evs)) :
    Reach K cfg g ((lookup s pk).1, evs) ∧ getOpen (lookup s pk).1 pk = some (lookup s pk).2 := by
  unfold lookup
  cases hg : getOpen s pk with
  | some b => exact ⟨h, hg⟩
  | none => exact ⟨Reach.create pk h hg, by simp [getOpen_setOpen]⟩

theorem roll_reach {K : Kind} {cfg : Cfg} {g : List Msg} {s : State} {evs : List Ev} {pk : PKey} {cur : Batch}
    (h : Reach K cfg g (s, evs)) (ho : getOpen s pk = some cur) :
    Reach K cfg g ((roll K cfg s cur pk).1, evs ++ (roll K cfg s cur pk).2.2) ∧
    getOpen (roll K cfg s cur pk).1 pk = some (roll K cfg s cur pk).2.1 ∧
    (K.isFull (roll K cfg s cur pk).2.1 = false ∨ (roll K cfg s cur pk).2.1 = fresh pk) := by
  unfold roll
  by_cases hf : K.isFull cur = true
  · rw [if_pos hf]
    exact ⟨Reach.sendReplace pk cur h ho, by simp [getOpen_setOpen], Or.inr rfl⟩
  · rw [if_neg hf]
    exact ⟨by simpa using h, ho, Or.inl (by simpa using hf)⟩

theorem prep_reach {K : Kind} {cfg : Cfg} {g : List Msg} {s : State} {evs : List Ev} (m : Msg)
    (h : Reach K cfg g (s, evs)) :
    Reach K cfg g ((prep K cfg s m).1, evs ++ (prep K cfg s m).2.2) ∧
    getOpen (prep K cfg s m).1 m.pkey = some (prep K cfg s m).2.1 ∧
    (K.isFull (prep K cfg s m).2.1 = false ∨ (prep K cfg s m).2.1 = fresh m.pkey) := by
  obtain ⟨h1, h2⟩ := lookup_reach m.pkey h
  have h3 := Reach.noteKey m (Reach.noteCommit m h1)
  have h4 : getOpen (noteKey (noteCommit (lookup s m.pkey).1 m) m) m.pkey = some (lookup s m.pkey).2 := by
    rw [getOpen_noteKey, getOpen_noteCommit]; exact h2
  exact roll_reach h3 h4

/-- the batcher stopped in its fatal branch: a reachable configuration `acc0` plus the `fatal` event
and the `dead` flag; open batches and round-robin position are those of `acc0` -/
def FatalStop (K : Kind) (cfg : Cfg) (g : List Msg) (acc : State × List Ev) : Prop :=
  ∃ acc0 : State × List Ev, Reach K cfg g acc0 ∧ acc.1.dead = true ∧ acc.2 = acc0.2 ++ [.fatal] ∧
    (∀ k, getOpen acc.1 k = getOpen acc0.1 k) ∧ acc.1.rr = acc0.1.rr

theorem addPhase_reach {K : Kind} {big bad : Msg → Bool} {dom : Msg → Prop} (hL : Laws K big bad dom) {cfg : Cfg} {g : List Msg}
    {s : State} {evs ev1 : List Ev} {m : Msg} {cur : Batch}
    (h : Reach K cfg g (s, evs ++ ev1)) (hd : m.op = .data) (hdom : dom m) (ho : getOpen s m.pkey = some cur)
    (hnf : K.isFull cur = false ∨ cur = fresh m.pkey) :
    (¬ NoFatal K ∧ FatalStop K cfg g ((addPhase K cfg s cur ev1 m).1, evs ++ (addPhase K cfg s cur ev1 m).2)) ∨
    Reach K cfg (g ++ [m]) ((addPhase K cfg s cur ev1 m).1, evs ++ (addPhase K cfg s cur ev1 m).2) := by
  unfold addPhase
  cases hadd : K.add cur m with
  | mk r b' =>
    cases r with
    | ok =>
      rw [addToBatch_ok cfg 2 s hadd]
      right
      have := Reach.add m cur b' [] h hd ho (Or.inl ⟨hadd, rfl⟩)
      simpa using this
    | tooBig =>
      rw [addToBatch_tooBig cfg 2 s hadd]
      right
      have := Reach.add m cur b' _ h hd ho (Or.inr (Or.inl ⟨hadd, rfl⟩))
      simpa using this
    | invalid =>
      rw [addToBatch_invalid cfg 2 s hadd]
      right
      have := Reach.add m cur b' _ h hd ho (Or.inr (Or.inr ⟨hadd, rfl⟩))
      simpa using this
    | full =>
      rw [addToBatch_full cfg 2 s hadd]
      left
      have hb' := hL.full_same _ _ _ hadd
      subst hb'
      refine ⟨fun hN => ?_, (s, evs ++ ev1), h, rfl, by simp, fun k => ?_, ?_⟩
      · rcases hnf with hnf | hnf
        · have := hN _ _ _ hadd; rw [hnf] at this; cases this
        · subst hnf
          have := hL.fresh_not_full m.pkey m
          rw [hadd] at this; exact this rfl
      · show getOpen (setOpen s m.pkey b') k = getOpen s k
        rw [getOpen_setOpen]
        by_cases hk : k = m.pkey
        · subst hk; simp [ho]
        · simp [hk]
      · show (setOpen s m.pkey b').rr = s.rr
        unfold setOpen; split <;> rfl
    | cantFit =>
      rw [addToBatch_cantFit cfg 2 s hadd]
      have hbig := hL.cantFit_small _ _ _ hadd
      have h1 := Reach.sendReplace m.pkey cur h ho
      have ho1 : getOpen (setOpen (sendBatch cfg s cur).1 m.pkey (fresh m.pkey)) m.pkey = some (fresh m.pkey) := by
        simp [getOpen_setOpen]
      cases hadd2 : K.add (fresh m.pkey) m with
      | mk r2 b2 =>
        have hnf2 := hL.fresh_not_full m.pkey m
        have hnc2 := hL.fresh_not_cantFit m.pkey m hdom
        rw [hadd2] at hnf2 hnc2
        cases r2 with
        | ok =>
          rw [addToBatch_ok cfg 1 _ hadd2]
          right
          have := Reach.add m _ b2 [] h1 hd ho1 (Or.inl ⟨hadd2, rfl⟩)
          rw [setOpen_setOpen] at this
          simpa using this
        | tooBig =>
          exfalso
          have := (hL.tooBig_big _ _ _ hadd2).1
          rw [hbig] at this; cases this
        | invalid =>
          rw [addToBatch_invalid cfg 1 _ hadd2]
          right
          have := Reach.add m _ b2 _ h1 hd ho1 (Or.inr (Or.inr ⟨hadd2, rfl⟩))
          rw [setOpen_setOpen] at this
          simpa using this
        | full => exact absurd rfl hnf2
        | cantFit => exact absurd rfl hnc2

/-- one input message: either the fatal branch (impossible under `NoFatal`) or micro-steps that add
exactly this message when it is a data message -/
theorem onMsg_reach {K : Kind} {big bad : Msg → Bool} {dom : Msg → Prop} (hL : Laws K big bad dom) {cfg : Cfg} {g : List Msg}
    {s : State} {evs : List Ev} (m : Msg) (hdom : m.op = .data → dom m) (h : Reach K cfg g (s, evs)) :
    (¬ NoFatal K ∧ FatalStop K cfg g ((onMsg K cfg s m).1, evs ++ (onMsg K cfg s m).2)) ∨
    Reach K cfg (g ++ (if m.op = .data then [m] else [])) ((onMsg K cfg s m).1, evs ++ (onMsg K cfg s m).2) := by
  obtain ⟨h1, h2, h3⟩ := prep_reach (K := K) m h
  rw [onMsg_eq]
  by_cases hd : m.op = .data
  · have : (m.op != .data) = false := by simp [hd]
    rw [this]
    simp only [Bool.false_eq_true, if_false, hd, if_true]
    exact addPhase_reach hL h1 hd (hdom hd) h2 h3
  · have : (m.op != .data) = true := by simp [hd]
    rw [this]
    simp only [if_true, hd, if_false, List.append_nil]
    right; exact h1

/-! ## ticks -/

theorem flushOne_none {cfg : Cfg} {s : State} {pk : PKey} (evs : List Ev) (h : getOpen s pk = none) :
    flushOne cfg (s, evs) pk = (s, evs) := by
  simp only [flushOne, h]

theorem flushOne_some {cfg : Cfg} {s : State} {pk : PKey} {b : Batch} (evs : List Ev) (h : getOpen s pk = some b) :
    flushOne cfg (s, evs) pk =
      (delOpen (sendBatch cfg s b).1 pk, evs ++ (sendBatch cfg s b).2 ++ [.stat "batch_closed_early"]) := by
  simp only [flushOne, h]

theorem flushOne_shift (cfg : Cfg) (s : State) (e0 e : List Ev) (pk : PKey) :
    flushOne cfg (s, e0 ++ e) pk = ((flushOne cfg (s, e) pk).1, e0 ++ (flushOne cfg (s, e) pk).2) := by
  cases hg : getOpen s pk with
  | none => rw [flushOne_none _ hg, flushOne_none _ hg]
  | some b => rw [flushOne_some _ hg, flushOne_some _ hg]; simp

theorem foldl_flushOne_shift (cfg : Cfg) (order : List PKey) : ∀ (s : State) (e0 e : List Ev),
    order.foldl (flushOne cfg) (s, e0 ++ e) =
      ((order.foldl (flushOne cfg) (s, e)).1, e0 ++ (order.foldl (flushOne cfg) (s, e)).2) := by
  induction order with
  | nil => intros; rfl
  | cons pk r ih =>
    intro s e0 e
    rw [List.foldl_cons, List.foldl_cons, flushOne_shift, ih]

theorem flushOne_reach {K : Kind} {cfg : Cfg} {g : List Msg} {s : State} {evs : List Ev} (pk : PKey)
    (h : Reach K cfg g (s, evs)) : Reach K cfg g (flushOne cfg (s, evs) pk) := by
  cases hg : getOpen s pk with
  | none => rw [flushOne_none _ hg]; exact h
  | some b => rw [flushOne_some _ hg]; exact Reach.sendDel pk b h hg

theorem foldl_flushOne_reach {K : Kind} {cfg : Cfg} {g : List Msg} (order : List PKey) :
    ∀ (acc : State × List Ev), Reach K cfg g acc → Reach K cfg g (order.foldl (flushOne cfg) acc) := by
  induction order with
  | nil => intro acc h; exact h
  | cons pk r ih => intro acc h; exact ih _ (flushOne_reach pk h)

theorem onTick_reach {K : Kind} {cfg : Cfg} {g : List Msg} {s : State} {evs : List Ev} (order : List PKey)
    (h : Reach K cfg g (s, evs)) : Reach K cfg g ((onTick cfg s order).1, evs ++ (onTick cfg s order).2) := by
  have := foldl_flushOne_reach order _ h
  have h2 := foldl_flushOne_shift cfg order s evs []
  rw [List.append_nil] at h2
  rw [h2] at this
  exact this

/-! ## the run -/

theorem reach_not_dead {K : Kind} {cfg : Cfg} {g : List Msg} {acc : State × List Ev}
    (h : Reach K cfg g acc) : acc.1.dead = false := by
  induction h with
  | init => rfl
  | create pk _ _ ih => simp only [setOpen] at ih ⊢; split <;> exact ih
  | noteCommit m _ ih => simp only [noteCommit] at ih ⊢; split <;> exact ih
  | noteKey m _ ih => simp only [noteKey] at ih ⊢; split <;> exact ih
  | sendReplace pk b _ _ ih =>
    simp only [setOpen] at ih ⊢; split <;> simp only [sendBatch_dead] <;> exact ih
  | sendDel pk b _ _ ih => simp only [delOpen, sendBatch_dead] at ih ⊢; exact ih
  | add m b b' st _ _ _ _ ih => simp only [setOpen] at ih ⊢; split <;> exact ih

theorem dataMsgs_snoc_msg (ops : List Op) (m : Msg) :
    dataMsgs (ops ++ [.msg m]) = dataMsgs ops ++ (if m.op = .data then [m] else []) := by
  rw [dataMsgs_append]
  by_cases h : m.op = .data <;> simp [dataMsgs, msgs, msgOf, h]

theorem dataMsgs_snoc_tick (ops : List Op) (now : Int) (t : List BTimes) (o : List PKey) :
    dataMsgs (ops ++ [.tick now t o]) = dataMsgs ops := by
  rw [dataMsgs_append]; simp [dataMsgs, msgs, msgOf]

theorem stepAcc_dead (K : Kind) (cfg : Cfg) (acc : State × List Ev) (op : Op) (h : acc.1.dead = true) :
    stepAcc K cfg acc op = acc := by
  unfold stepAcc step
  cases op <;> simp [h]

/-- what a run is: not dead and reachable by micro-steps having added exactly the data messages of
`ops`; or dead, in which case it is the reachable run of a prefix followed by one fatal message step
(and the rest of the input is ignored) -/
def RunShape (K : Kind) (cfg : Cfg) (ops : List Op) (acc : State × List Ev) : Prop :=
  Reach K cfg (dataMsgs ops) acc ∨
  (acc.1.dead = true ∧ ¬ NoFatal K ∧ ∃ (pre : List Op) (m : Msg) (rest : List Op),
    ops = pre ++ .msg m :: rest ∧ Reach K cfg (dataMsgs pre) (run K cfg pre) ∧
    FatalStop K cfg (dataMsgs pre) acc ∧ acc = stepAcc K cfg (run K cfg pre) (.msg m))

theorem mem_dataMsgs_msg {ops : List Op} {m : Msg} (h : Op.msg m ∈ ops) (hd : m.op = .data) : m ∈ dataMsgs ops := by
  unfold dataMsgs msgs
  rw [List.mem_filter, List.mem_flatMap]
  exact ⟨⟨_, h, by simp [msgOf]⟩, by simp [hd]⟩

theorem run_shape {K : Kind} {big bad : Msg → Bool} {dom : Msg → Prop} (hL : Laws K big bad dom) (cfg : Cfg) (ops : List Op)
    (hdom : ∀ m ∈ dataMsgs ops, dom m) :
    RunShape K cfg ops (run K cfg ops) := by
  revert hdom
  apply run_induction K cfg (fun ops acc => (∀ m ∈ dataMsgs ops, dom m) → RunShape K cfg ops acc)
  · intro _; left; exact Reach.init
  · intro pre acc op hacc hP hdom
    have hdom' : ∀ m ∈ dataMsgs pre, dom m := fun m hm => hdom m (by rw [dataMsgs_append]; exact List.mem_append_left _ hm)
    rcases hP hdom' with hR | ⟨hdead, hN, pre0, m0, rest0, hops, hR0, hF0, hacc0⟩
    · have hnd := reach_not_dead hR
      cases op with
      | msg m =>
        have hstep : stepAcc K cfg acc (.msg m) = ((onMsg K cfg acc.1 m).1, acc.2 ++ (onMsg K cfg acc.1 m).2) := by
          simp [stepAcc, step, hnd]
        rcases onMsg_reach hL m (s := acc.1) (evs := acc.2)
            (fun hd => hdom m (mem_dataMsgs_msg (by simp) hd)) hR with ⟨hN, hF⟩ | hR'
        · right
          refine ⟨by rw [hstep]; obtain ⟨_, _, hd, _⟩ := hF; exact hd, hN, pre, m, [], rfl, ?_, ?_, ?_⟩
          · rw [← hacc]; exact hR
          · rw [hstep]; exact hF
          · rw [← hacc]
        · left
          rw [hstep, dataMsgs_snoc_msg]; exact hR'
      | tick now t order =>
        have hstep : stepAcc K cfg acc (.tick now t order) =
            ((onTick cfg acc.1 order).1, acc.2 ++ (onTick cfg acc.1 order).2) := by
          simp [stepAcc, step, hnd]
        left
        rw [hstep, dataMsgs_snoc_tick]
        exact onTick_reach order hR
    · right
      rw [stepAcc_dead K cfg acc op hdead]
      exact ⟨hdead, hN, pre0, m0, rest0 ++ [op], by rw [hops]; simp, hR0, hF0, hacc0⟩

theorem run_reach_or_dead {K : Kind} {big bad : Msg → Bool} {dom : Msg → Prop} (hL : Laws K big bad dom) (cfg : Cfg) (ops : List Op)
    (hdom : ∀ m ∈ dataMsgs ops, dom m)
    (hd : (run K cfg ops).1.dead = false) : Reach K cfg (dataMsgs ops) (run K cfg ops) := by
  rcases run_shape hL cfg ops hdom with h | ⟨h, _⟩
  · exact h
  · rw [hd] at h; cases h

theorem run_reach {K : Kind} {big bad : Msg → Bool} {dom : Msg → Prop} (hL : Laws K big bad dom) (hN : NoFatal K) (cfg : Cfg)
    (ops : List Op) (hdom : ∀ m ∈ dataMsgs ops, dom m) : Reach K cfg (dataMsgs ops) (run K cfg ops) := by
  rcases run_shape hL cfg ops hdom with h | ⟨_, h, _⟩
  · exact h
  · exact absurd hN h

end PgBifrost.Batcher
