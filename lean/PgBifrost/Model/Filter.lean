/-!
# Model of `filter/filter.go`

`regexp` is a parameter: `mt i rel` says whether the `i`-th pattern of the list matches `rel`
(the harness computes it with Go's `regexp`). A pattern that does not compile is a nil
`*Regexp` in the code and makes the stage panic on first use; `mt` is only consulted for
compiled patterns (the harness never generates invalid ones; stated in DESIGN.md).
-/
namespace PgBifrost.Filter

structure Cfg where
  whitelist : Bool
  regex : Bool
  tablelist : List String
deriving DecidableEq, Repr, Inhabited

/-- `filter.New`: blacklist mode with an empty list passes everything through -/
def passthrough (c : Cfg) : Bool := !c.whitelist && c.tablelist.length == 0

inductive MOp | begin | commit | data
deriving DecidableEq, Repr, Inhabited

/-- is the relation "found" in the list (by equality or by some pattern matching) -/
def found (c : Cfg) (mt : Nat → Bool) (rel : String) : Bool :=
  if c.regex then (List.range c.tablelist.length).any mt
  else c.tablelist.any (· == rel)

/-- does the stage forward the message -/
def passes (c : Cfg) (mt : Nat → Bool) (op : MOp) (rel : String) : Bool :=
  if passthrough c then true
  else if op != .data then true
  else
    let f := found c mt rel
    let filtered := if c.whitelist then !f else f
    !filtered

end PgBifrost.Filter
