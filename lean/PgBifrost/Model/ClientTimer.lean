/-!
# Timer sub-model of the client loop in logical time (C18)

Abstraction of `Replicator.Start` that keeps only what decides WHEN a standby status goes out:

* the progress ticker has period `P`; it is created when the loop is entered (time 0) and fires at
  the multiples of `P`; its channel holds at most one firing (later firings are dropped while one
  is pending, the phase is kept) — `nextFire` is the earliest firing that is pending or still to come;
* the top of the loop consumes a pending firing and sends a status (client.go:288-300);
* `ReceiveMessage` takes `d` time units (its context has a timeout: `d ≤ T` is the hypothesis);
* handling a message is instantaneous and either sends a status at once (`forced`: receive
  timeout, reply-requested keepalive, new progress value) or not;
* a data message may find the output channel full for `blocked` time units; during that interval
  the WriteLoop consumes every firing as it occurs (client.go:548-562).

What is assumed about timers (NOT modelled: real scheduler / timer latency): a firing is visible
to a `select` at the instant it is due; handling takes no time; a firing that coincides with the
end of a blocked interval is taken by the WriteLoop.
-/
namespace PgBifrost.ClientTimer

structure TEv where
  d : Nat          -- duration of ReceiveMessage
  forced : Bool    -- handling sends a status immediately
  blocked : Nat    -- how long the output stays full after the message arrived (0 = not blocked)
  deriving Repr, DecidableEq

structure TState where
  now : Nat := 0
  nextFire : Nat
  deriving Repr, DecidableEq

/-- the first firing strictly after `c` -/
def nextAfter (P c : Nat) : Nat := P * (c / P + 1)

/-- top of the loop: a pending firing is consumed and answered with a status -/
def top (P : Nat) (s : TState) : TState × List Nat :=
  if s.nextFire ≤ s.now then ({ s with nextFire := nextAfter P s.now }, [s.now]) else (s, [])

/-- firings consumed by the WriteLoop while the output is blocked during `[start, stop]`, given
the earliest pending/coming firing `nf`: the first is consumed when it is due (or at `start` if it
was pending), then every multiple of `P` up to `stop` -/
def blockedTimes (P nf start stop : Nat) : List Nat :=
  if nf ≤ stop then
    let c0 := max nf start
    c0 :: (List.range (stop / P - c0 / P)).map fun j => P * (c0 / P + 1 + j)
  else []

/-- statuses sent from the WriteLoop while the output is blocked -/
def blockedPart (P : Nat) (s : TState) (e : TEv) : List Nat :=
  if e.blocked = 0 then [] else blockedTimes P s.nextFire (s.now + e.d) (s.now + e.d + e.blocked)

/-- state in which the top of the next iteration is reached -/
def beforeTop (P : Nat) (s : TState) (e : TEv) : TState :=
  { now := s.now + e.d + e.blocked,
    nextFire := if (blockedPart P s e).isEmpty then s.nextFire else nextAfter P (s.now + e.d + e.blocked) }

/-- one iteration: receive (`d`), forced status, blocked-output loop, top of the next iteration -/
def stepT (P : Nat) (s : TState) (e : TEv) : TState × List Nat :=
  ((top P (beforeTop P s e)).1,
    (if e.forced then [s.now + e.d] else []) ++ blockedPart P s e ++ (top P (beforeTop P s e)).2)

def runT (P : Nat) : TState → List TEv → TState × List Nat
  | s, [] => (s, [])
  | s, e :: r =>
    let (s1, a) := stepT P s e
    let (s2, b) := runT P s1 r
    (s2, a ++ b)

/-- the loop is entered at time 0; the first firing is due at `P` -/
def init (P : Nat) : TState := { now := 0, nextFire := P }

/-- all adjacent differences of a time line are at most `B` -/
def gapsLe (B : Nat) : List Nat → Prop
  | a :: b :: r => b ≤ a + B ∧ gapsLe B (b :: r)
  | _ => True

end PgBifrost.ClientTimer
