import PgBifrost.Model.Crc32
import PgBifrost.Model.Batch
/-!
# Model of `partitioner/partitioner.go` (partition key per method) and of the Kinesis record
key chosen by `KinesisBatch.Add`
-/
namespace PgBifrost.Partitioner

inductive Method | none | tableName | txn | txnBucket
deriving DecidableEq, Repr, Inhabited

/-- `strconv.Itoa` / `fmt.Sprintf("%v", uint64)` of a natural number, as bytes -/
def decimal (n : Nat) : List UInt8 := (Nat.toDigits 10 n).map fun c => c.toNat.toUInt8

/-- the switch in `Partitioner.Start` -/
def partitionKey (m : Method) (buckets : Nat) (relation txn : List UInt8) : List UInt8 :=
  match m with
  | .none => []
  | .tableName => relation
  | .txn => txn
  | .txnBucket => decimal (Crc32.quickHash txn buckets)

open PgBifrost.Batch in
/-- the Kinesis partition key of a record (`KinesisBatch.Add`) -/
def kinesisKey (meth : KinesisMethod) (m : Msg) : List UInt8 :=
  match meth with
  | .walStart => decimal m.lsn
  | .batch => m.pkey

/-- the Kinesis factory's decision (`kinesis/factory.go NewBatchFactory`) -/
def kinesisMethodFor (m : Method) : PgBifrost.Batch.KinesisMethod :=
  if m = .none then .walStart else .batch

end PgBifrost.Partitioner
