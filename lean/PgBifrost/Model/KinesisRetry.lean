import PgBifrost.Model.Batch
/-!
# Kinesis transporter: `transport/transporters/kinesis/transporter/transporter.go`

`transportWithRetry` (lines 145-216) and its caller, the worker loop of `StartTransporting`
(lines 219-293), with `backoff.Retry` + `backoff.WithMaxRetries(_, budget)` (cenkalti/backoff
v4.2.1 `retry.go: doRetryNotify`, `tries.go`): the operation is called, and called again
after every error until `NextBackOff` answers `Stop`, which happens at the `budget+1`-st
failure; so at most `budget + 1` calls of the operation.

The outside world (the `PutRecords` answers, the moment the terminate context is cancelled) is
the input list `outs`, one `Outcome` per attempt. When the script is shorter than the run, the
missing outcomes are whole-call errors (so every run ends by the budget).

Records are opaque (`α`): the transporter never looks inside a request entry.
-/
namespace PgBifrost.KinesisRetry
open PgBifrost.Batch (TxnCount)

/-- record identity used by the driver/harness (the id stored in `Data`) -/
abbrev Rec := Nat

/-- what happens at one attempt of the `operation` closure -/
inductive Outcome
  /-- `PutRecords` returned `err != nil` (line 162) -/
  | callError
  /-- `PutRecords` returned a response: `codes[i]` = entry `i` of `pro.Records` has an
  `ErrorCode`; `failedCount` = `*pro.FailedRecordCount`. The list may have any length. -/
  | resp (codes : List Bool) (failedCount : Nat)
  /-- `ctx.Done()` was ready at the top of the attempt (lines 151-157): no call is made -/
  | cancelled
deriving DecidableEq, Repr, Inhabited

inductive Result
  /-- `err == nil ∧ ¬cancelled`: stats `written`, batch's transactions sent on `txnsWritten` -/
  | written
  /-- `backoff.Retry` returned the last error: "max retries exceeded", worker returns -/
  | exhausted
  /-- `cancelled == true`: nothing reported, `continue` (the loop then sees the cancelled context and returns) -/
  | cancelled
  /-- line 177 `panic("Put record input size does not match put record output size")`, recovered in `shutdown` -/
  | panicSizeMismatch
  /-- `pri.Records[i]` out of range inside the compaction loop (never happens: `compact_eq_filter`) -/
  | panicIndex
deriving DecidableEq, Repr, Inhabited

/-- the records of `recs` whose response entry carries an error code, in order
(what the retry is *supposed* to contain) -/
def failedOf {α} : List α → List Bool → List α
  | r :: rs, c :: cs => if c then r :: failedOf rs cs else failedOf rs cs
  | _, _ => []

/-- lines 183-191: `toRetry := pri.Records[:0]; for i, element := range pro.Records { if element.ErrorCode != nil
{ r := pri.Records[i]; toRetry = append(toRetry, r) } }`. `toRetry` shares the backing array of
`pri.Records`, so `append` (never beyond the capacity, as `w ≤ i`) overwrites position `w` of the
very list that position `i` is read from. `buf` is that backing array, `i` the read index, `w = len(toRetry)`.
A read out of range is Go's index panic (`none`). -/
def compactLoop {α} : List Bool → Nat → Nat → List α → Option (List α × Nat)
  | [], _, w, buf => some (buf, w)
  | c :: cs, i, w, buf =>
    if c then
      match buf[i]? with
      | none => none
      | some r => compactLoop cs (i + 1) (w + 1) (buf.set w r)
    else compactLoop cs (i + 1) w buf

/-- line 193 `pri.SetRecords(toRetry)`: the first `w` cells of the shared array -/
def compact {α} (recs : List α) (codes : List Bool) : Option (List α) :=
  (compactLoop codes 0 0 recs).map fun p => p.1.take p.2

/-- the outcome of the next attempt; a script that has run out continues with whole-call errors -/
def headOut : List Outcome → Outcome
  | [] => .callError
  | o :: _ => o

/-- `backoff.Retry(operation, retryPolicy)` with `fuel` calls of the operation still allowed;
`cur` is `pri.Records`. Returns the result and the argument of every `PutRecords` call. -/
def loop {α} : Nat → List α → List Outcome → Result × List (List α)
  | 0, _, _ => (.exhausted, [])
  | fuel + 1, cur, outs =>
    match headOut outs with
    | .cancelled => (.cancelled, [])                                   -- 151-157
    | .callError =>                                                     -- 162-166: same records again
      let r := loop fuel cur outs.tail
      (r.1, cur :: r.2)
    | .resp codes fc =>
      if fc = 0 then (.written, [cur])                                  -- 169-172 (tested FIRST)
      else if codes.length ≠ cur.length then (.panicSizeMismatch, [cur]) -- 176-178
      else match compact cur codes with                                 -- 182-193
        | none => (.panicIndex, [cur])
        | some next =>
          let r := loop fuel next outs.tail                             -- 196-201: error ⇒ retry
          (r.1, cur :: r.2)

/-- one batch: `budget` = the `max` of `backoff.WithMaxRetries` ⇒ `budget + 1` calls allowed -/
def run {α} (recs : List α) (outs : List Outcome) (budget : Nat) : Result × List (List α) :=
  loop (budget + 1) recs outs

/-- stats sent by `operation` on `statsChan`: (number of `failure`, number of `success`) -/
def attemptStats {α} : Nat → List α → List Outcome → Nat × Nat
  | 0, _, _ => (0, 0)
  | fuel + 1, cur, outs =>
    match headOut outs with
    | .cancelled => (0, 0)
    | .callError => let s := attemptStats fuel cur outs.tail; (s.1 + 1, s.2)
    | .resp codes fc =>
      if fc = 0 then (0, 1)
      else if codes.length ≠ cur.length then (0, 0)
      else match compact cur codes with
        | none => (0, 0)
        | some next => let s := attemptStats fuel next outs.tail; (s.1 + 1, s.2)

/-! ## the worker loop over a sequence of batches (`StartTransporting`) -/

structure Job (α : Type) where
  recs : List α                 -- `kinesisBatch.GetPayload()`
  txns : List TxnCount          -- `kinesisBatch.GetTransactions()`
  outs : List Outcome           -- the world during this batch
  /-- the terminate context is already cancelled when the worker is at the selects of its loop
  (lines 228-243): it returns before (229) or right after (238) taking the batch, without calling
  `transportWithRetry` (no `duration` stat) -/
  preCancelled : Bool := false
deriving Repr

structure Report (α : Type) where
  calls : List (List α)
  result : Result
  /-- what was sent on `txnsWritten` for this batch -/
  reported : Option (List TxnCount)
  /-- stats: failures, successes, value of the `written` count stat (if sent), `duration` sent? -/
  failures : Nat
  successes : Nat
  writtenStat : Option Nat
  durationStat : Bool
deriving Repr

def processBatch {α} (budget : Nat) (j : Job α) : Report α :=
  if j.preCancelled then
    { calls := [], result := .cancelled, reported := none, failures := 0, successes := 0,
      writtenStat := none, durationStat := false }
  else
  let r := run j.recs j.outs budget
  let s := attemptStats (budget + 1) j.recs j.outs
  { calls := r.2, result := r.1,
    reported := if r.1 = .written then some j.txns else none,        -- 277-291
    failures := s.1, successes := s.2,
    writtenStat := if r.1 = .written then some j.recs.length else none,  -- 288 `NumMessages()`
    -- 275: sent unless the operation panicked
    durationStat := r.1 ≠ .panicSizeMismatch ∧ r.1 ≠ .panicIndex }

/-- the worker: batches are processed in order while each one is written; the first other result
ends the worker (exhausted: `return` at 279; panic: unwinds into the deferred `shutdown`;
cancelled: `continue`, then the cancelled context is seen at 229/238 and the worker returns).
In every such case `shutdown` cancels the process context (fail-stop) and closes `txnsWritten`. -/
def worker {α} (budget : Nat) : List (Job α) → List (Report α)
  | [] => []
  | j :: js =>
    let rep := processBatch budget j
    if rep.result = .written then rep :: worker budget js else [rep]

/-- did the worker itself raise the terminate signal (fail-stop)? -/
def terminated {α} (budget : Nat) (jobs : List (Job α)) : Bool :=
  (worker budget jobs).any fun r => r.result ≠ .written

end PgBifrost.KinesisRetry
