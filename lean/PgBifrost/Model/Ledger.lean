/-!
# Model of `transport/progress/ledger.go` and `ProgressTracker.emitProgress`

Faithful, executable, core-only.  Transaction ids and delivery keys are `Nat`s (the
harness renders id `n` as the Go strings `"t<n>"` / `"k<n>"`, an injective map).

* `items` mirrors the `ordered_map` (insertion order; `Set` on an existing key updates in
  place; `Delete` removes);
* `cur` mirrors `transactionToTimeBasedKey` as an association list.
-/

namespace PgBifrost.Ledger

structure Entry where
  txn : Nat
  key : Nat
  commit : Nat
  count : Nat
  total : Nat
deriving DecidableEq, Repr, Inhabited

structure State where
  items : List Entry := []
  cur : List (Nat × Nat) := []
deriving DecidableEq, Repr, Inhabited

def curGet (cur : List (Nat × Nat)) (t : Nat) : Option Nat :=
  (cur.find? (·.1 == t)).map (·.2)

def curErase (cur : List (Nat × Nat)) (t : Nat) : List (Nat × Nat) :=
  cur.filter (fun p => !(p.1 == t))

def curSet (cur : List (Nat × Nat)) (t k : Nat) : List (Nat × Nat) :=
  curErase cur t ++ [(t, k)]

def itemsGet (items : List Entry) (k : Nat) : Option Entry :=
  items.find? (·.key == k)

def itemsDelete (items : List Entry) (k : Nat) : List Entry :=
  items.filter (fun e => !(e.key == k))

/-- the common prologue of `updateSeen` / `updateWritten`: if the helper map names a
different delivery key for this transaction, delete that entry and the helper mapping -/
def supersede (s : State) (t k : Nat) : State :=
  match curGet s.cur t with
  | some k' => if k' != k then { items := itemsDelete s.items k', cur := curErase s.cur t } else s
  | none => s

/-- `Ledger.updateSeen`; `none` is the "CommitWalStart was not 0" error (the tracker panics) -/
def updateSeen (s : State) (t k tot c : Nat) : Option State :=
  let s := supersede s t k
  match itemsGet s.items k with
  | none => some { items := s.items ++ [⟨t, k, c, 0, tot⟩], cur := curSet s.cur t k }
  | some e =>
    if e.commit != 0 then none
    else some { s with items := s.items.map (fun e => if e.key == k then { e with total := tot, commit := c } else e) }

/-- `Ledger.updateWritten` (never fails) -/
def updateWritten (s : State) (t k n : Nat) : State :=
  let s := supersede s t k
  match itemsGet s.items k with
  | none => { items := s.items ++ [⟨t, k, 0, n, 0⟩], cur := curSet s.cur t k }
  | some _ =>
    { s with items := s.items.map (fun e => if e.key == k then { e with count := e.count + n } else e) }

def releasable (e : Entry) : Bool := e.commit != 0 && e.count == e.total

/-- `Ledger.remove` -/
def remove (s : State) (k : Nat) : State :=
  match itemsGet s.items k with
  | none => s
  | some e => { items := itemsDelete s.items k, cur := curErase s.cur e.txn }

/-- `ProgressTracker.emitProgress`: value put on the output channel (if any) and new state -/
def emit (s : State) : Option Nat × State :=
  let pre := s.items.takeWhile releasable
  match pre.getLast? with
  | none => (none, s)
  | some last => (some last.commit, pre.foldl (fun s e => remove s e.key) s)

/-- Ledger operations as the tracker sees them. `real` on `seen` is an annotation of the
trace only (the code has no such field): `false` marks the synthetic COMMIT emitted by the
client's error recovery, which is not a PostgreSQL commit. The model ignores it. -/
inductive Op where
  | seen (t k tot c : Nat) (real : Bool)
  | written (t k n : Nat)
  | emit
deriving DecidableEq, Repr

namespace Op
def key? : Op → Option Nat
  | seen _ k _ _ _ => some k
  | written _ k _ => some k
  | emit => none
def txn? : Op → Option Nat
  | seen t _ _ _ _ => some t
  | written t _ _ => some t
  | emit => none
end Op

/-- one step; `none` = tracker panic (`updateSeen` returned an error) -/
def step (s : State) : Op → Option State
  | .seen t k tot c _ => updateSeen s t k tot c
  | .written t k n => some (updateWritten s t k n)
  | .emit => some (emit s).2

/-- run a trace from the empty ledger; `none` = the tracker panicked somewhere -/
def run (ops : List Op) : Option State :=
  ops.foldlM step {}

/-- value the tracker would put on its output channel if it ran `emitProgress` now -/
def emitVal (s : State) : Option Nat := (emit s).1

end PgBifrost.Ledger
