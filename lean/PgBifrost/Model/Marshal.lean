/-!
# Model of `marshaller/marshaller.go` (C10)

Pure model of `marshalWalToJson` and of the header copy done by `Marshaller.Start`.
The byte encoding of the record is goccy/go-json's (trusted; the harness parses the bytes back
with `encoding/json`), so the model produces the abstract JSON *tree* (`Record`).

Go maps (`Pr.Columns`, `Pr.OldColumns`) are association lists with unique names; the loop over
`msg.Pr.Columns` assigns `columns[k]` once per key, so with unique names the result does not depend on
the iteration order and the model is a `List.map` (the driver sorts by name, as go-json does).

The model is a function of the single change and the configuration: the package-level objects
(`colValuesPool`, `colValuePairPool`, `usedColValues`, `colsTemp`, `reusedWalEntry`, `lsnBuffer`) do not
occur in it. That they do not leak is what the correspondence harness decides (sequences of changes of
different shapes through ONE real marshaller).
-/
namespace PgBifrost.Marshal

/-- `parselogical.ColumnValue` -/
structure CV where
  value : String
  type : String
  quoted : Bool
deriving DecidableEq, Repr, Inhabited

/-- rendered column value: the `map[string]string` with keys `v`, `t`, `q` (marshaller.go:206-218) -/
structure JCV where
  v : String
  t : String
  q : String
deriving DecidableEq, Repr, Inhabited

/-- a decoded row change as the marshaller sees it (`replication.WalMessage` + `parselogical.ParseResult`).
`timeStr` is `time.Unix(0, ServerTime*1000000).UTC().Format(time.RFC3339)` computed by the environment
(Go's time package is not modelled); the model only decides whether it is used. -/
structure Change where
  operation : String
  relation : String
  timeMs : Int
  timeStr : String
  lsn : Nat
  key : String          -- WalMessage.TimeBasedKey
  txn : String          -- Pr.Transaction
  pkey : String         -- WalMessage.PartitionKey
  columns : List (String × CV)
  oldColumns : List (String × CV)
deriving Repr, Inhabited

/-- `jsonWalEntry` as a tree; `columns` : name ↦ (`old`?, `new`?) -/
structure Record where
  time : String
  timeMs : Int
  txn : String
  lsn : String
  table : String
  operation : String
  columns : List (String × Option JCV × Option JCV)
deriving DecidableEq, Repr, Inhabited

/-- `MarshalledMessage` (marshalled_message.go:21-29) -/
structure Out where
  operation : String
  table : String
  json : Option Record
  timeBasedKey : String
  walStart : Nat
  transaction : String
  partitionKey : String
deriving DecidableEq, Repr, Inhabited

def toastMarker : String := "unchanged-toast-datum"
/-- marshaller.go:43 -/
def epochFormatted : String := "1970-01-01T00:00:00Z"

/-! ## `%X` -/

/-- upper-case hex digit, as `fmt`'s `%X` -/
def hexDigitU (d : Nat) : Char := if d < 10 then Char.ofNat (48 + d) else Char.ofNat (55 + d)

/-- base-16 digits, least significant first; `fuel > n` is always enough (structural, so that `decide` works) -/
def hexRevAux : Nat → Nat → List Nat
  | 0, _ => []
  | f + 1, n => if n < 16 then [n] else (n % 16) :: hexRevAux f (n / 16)

def hexRev (n : Nat) : List Nat := hexRevAux (n + 1) n

def upperHexChars (n : Nat) : List Char := (hexRev n).reverse.map hexDigitU

/-- `fmt.Sprintf("%X", n)`: upper case, no padding, `0` for zero -/
def upperHex (n : Nat) : String := String.ofList (upperHexChars n)

def formatLsnChars (x : Nat) : List Char :=
  upperHexChars ((x / 2 ^ 32) % 2 ^ 32) ++ '/' :: upperHexChars (x % 2 ^ 32)

/-- marshaller.go:303-308 `Fprintf(w, "%X/%X", uint32(WalStart>>32), uint32(WalStart))` -/
def formatLsn (x : Nat) : String := String.ofList (formatLsnChars x)

/-! ## columns -/

/-- `marshalColumnValue` (marshaller.go:206-218): `v`, `t`, `q` are always all overwritten -/
def marshalColumnValue (cv : CV) : JCV :=
  ⟨cv.value, cv.type, if cv.quoted then "true" else "false"⟩

/-- `marshalColumnValuePair(newValue, oldValue)` (marshaller.go:221-236) as the pair (`old`?, `new`?).
The `nil` result for two nil arguments is not reachable: each of the five call sites passes a non-nil value. -/
def marshalColumnValuePair (newV oldV : Option CV) : Option JCV × Option JCV :=
  (oldV.map marshalColumnValue, newV.map marshalColumnValue)

/-- one iteration of the loop marshaller.go:266-293 for the entry `k ↦ v` of `msg.Pr.Columns` -/
def colEntry (op : String) (noOld : Bool) (old : List (String × CV)) (kv : String × CV) :
    String × Option JCV × Option JCV :=
  let k := kv.1
  let v := kv.2
  -- oldV, ok := msg.Pr.OldColumns[k]
  if op = "DELETE" then
    (k, marshalColumnValuePair none (some v))                      -- :269-272  shown as `old`
  else
    match old.lookup k with
    | some oldV =>
      if v.value ≠ oldV.value then                                 -- :274 ok && v.Value != oldV.Value
        if v.value = toastMarker then                              -- :276  (v.Quoted is NOT consulted)
          if noOld then (k, marshalColumnValuePair (some oldV) none)          -- :278
          else (k, marshalColumnValuePair (some oldV) (some oldV))            -- :280
        else if noOld then (k, marshalColumnValuePair (some v) none)          -- :286
        else (k, marshalColumnValuePair (some v) (some oldV))                 -- :288
      else (k, marshalColumnValuePair (some v) none)                          -- :291
    | none => (k, marshalColumnValuePair (some v) none)                       -- :291

/-- the whole loop (`colsTemp` is emptied first, marshaller.go:260-264, so nothing else is in the map) -/
def columns (op : String) (noOld : Bool) (cols old : List (String × CV)) :
    List (String × Option JCV × Option JCV) :=
  cols.map (colEntry op noOld old)

/-- marshaller.go:295-301 -/
def timeText (c : Change) : String :=
  if c.timeMs ≠ 0 then c.timeStr else epochFormatted

/-- `marshalWalToJson` (marshaller.go:258-324): the record handed to `gojson.Marshal` -/
def entry (noOld : Bool) (c : Change) : Record where
  time := timeText c
  timeMs := c.timeMs
  txn := c.key
  lsn := formatLsn c.lsn
  table := c.relation
  operation := c.operation
  columns := columns c.operation noOld c.columns c.oldColumns

/-- one turn of the loop of `Marshaller.Start` (marshaller.go:150-203): header copy; BEGIN/COMMIT are forwarded
with a nil `Json`. (The `gojson.Marshal` error arm — message dropped, failure stat — is outside the model:
for `map[string]…string` values of valid UTF-8 the encoder does not fail; the harness reports it as `err`.) -/
def stage (noOld : Bool) (c : Change) : Out where
  operation := c.operation
  table := c.relation
  json := if c.operation = "BEGIN" ∨ c.operation = "COMMIT" then none else some (entry noOld c)
  timeBasedKey := c.key
  walStart := c.lsn
  transaction := c.txn
  partitionKey := c.pkey

/-- a whole input stream through one marshaller. By construction the map of the single-message function:
the model has no state. -/
def stageSeq (noOld : Bool) (cs : List Change) : List Out := cs.map (stage noOld)

end PgBifrost.Marshal
