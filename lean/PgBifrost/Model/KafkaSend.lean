import PgBifrost.Model.Batch
/-!
# Kafka sink: message construction (`transport/transporters/kafka/batch/batch.go`) and the worker
(`transport/transporters/kafka/transporter/transporter.go`)

The count/size/transactions part of `KafkaBatch.Add` is `Batch.kafkaKind` (unchanged, shared with the
batcher model); this file adds what the produced `sarama.ProducerMessage`s carry (key per Kafka partition
method, value) and the transporter's loop (`sendBatchToKafka`, `StartTransporting`).

`ksize` of a message is sarama's `ProducerMessage.ByteSize(2)` measured by the harness on the real message.
The uuid drawn by `NewKafkaBatch` for the `batch` method is an opaque per-batch value (`uuid`).
-/
namespace PgBifrost.KafkaSend
open PgBifrost.Batch

/-- `utils.KafkaPartitionMethod` -/
inductive Method | txn | batch | random | txnConst | table
deriving DecidableEq, Repr, Inhabited

/-- name of the Go constant -/
def Method.constName : Method → String
  | .txn => "KAFKA_PART_TXN" | .batch => "KAFKA_PART_BATCH" | .random => "KAFKA_PART_RANDOM"
  | .txnConst => "KAFKA_PART_TXN_CONST" | .table => "KAFKA_PART_TABLE_NAME"

def Method.all : List Method := [.txn, .batch, .random, .txnConst, .table]

/-- the documented option values of `kafka-partition-method` (plus the testing-only `transaction-constant`) -/
def Method.ofName (s : String) : Option Method :=
  if s == "transaction" then some .txn
  else if s == "transaction-constant" then some .txnConst
  else if s == "batch" then some .batch
  else if s == "tablename" then some .table
  else if s == "random" then some .random
  else none

/-- a marshalled message as the Kafka batch sees it: the generic part plus the table name -/
structure KMsg where
  m : Msg
  table : Nat
deriving DecidableEq, Repr, Inhabited

/-- `ProducerMessage.Key` -/
inductive Key
  | timeBased (k : Nat)       -- `StringEncoder(msg.TimeBasedKey)`
  | transaction (t : Nat)     -- `StringEncoder(msg.Transaction)`
  | batchUuid (u : Nat)       -- `StringEncoder(b.kafkaPartitionKey)`
  | table (t : Nat)           -- `StringEncoder(msg.Table)`
  | none                      -- `nil`: sarama partitions at random
deriving DecidableEq, Repr, Inhabited

/-- a produced message: key and `Value = ByteEncoder(msg.Json)` (the Json bytes are identified by the
message id the harness writes into them, and their length) -/
structure PMsg where
  key : Key
  valueId : Nat
  valueLen : Nat
deriving DecidableEq, Repr, Inhabited

/-- batch.go 92-107 -/
def keyOf (meth : Method) (uuid : Nat) (m : KMsg) : Key :=
  match meth with
  | .txn => .timeBased m.m.key
  | .txnConst => .transaction m.m.txn
  | .batch => .batchUuid uuid
  | .table => .table m.table
  | .random => .none

def produce (meth : Method) (uuid : Nat) (m : KMsg) : PMsg := ⟨keyOf meth uuid m, m.m.id, m.m.size⟩

structure Cfg where
  meth : Method
  maxSize : Nat       -- `maxBatchSize`
  maxBytes : Nat      -- `maxMessageBytes`
deriving Repr, Inhabited

/-- `KafkaBatch`: `core.payload`/`msgs` = `kafkaMessages` (the source messages and what was built from
them, position by position), `core.txns` = `transactions` -/
structure KBatch where
  core : Batch := {pkey := []}
  msgs : List PMsg := []
  uuid : Nat := 0
deriving Repr, Inhabited

/-- `KafkaBatch.Add` (batch.go 73-125) -/
def add (c : Cfg) (b : KBatch) (m : KMsg) : AddRes × KBatch :=
  if m.m.op ≠ .data then (.ok, b)                                        -- 75-77 BEGIN/COMMIT: `true, nil`
  else
    let r := (kafkaKind c.maxSize c.maxBytes).add b.core m.m             -- 79-81, 109-124
    (r.1, { b with core := r.2, msgs := if r.1 = .ok then b.msgs ++ [produce c.meth b.uuid m] else b.msgs })

def build (c : Cfg) (uuid : Nat) (ms : List KMsg) : KBatch :=
  ms.foldl (fun b m => (add c b m).2) { uuid := uuid }

/-! ## transporter -/

/-- what the world does for one batch -/
inductive Outcome
  /-- `SendMessages` returned nil -/
  | accepted
  /-- `SendMessages` returned `sarama.ProducerErrors` with one entry per listed message index -/
  | rejected (idxs : List Nat)
  /-- `SendMessages` returned an error of another type: `err.(sarama.ProducerErrors)` panics (line 117) -/
  | otherError
  /-- terminate context cancelled before the send; `atLoop`: seen at the loop's selects (140-155) rather
  than at the top of `sendBatchToKafka` (100-106) -/
  | cancelled (atLoop : Bool)
deriving DecidableEq, Repr, Inhabited

inductive Result | written | rejected | panicked | cancelled
deriving DecidableEq, Repr, Inhabited

structure Job where
  payload : List PMsg            -- `kafkaBatch.GetPayload()`
  txns : List TxnCount           -- `kafkaBatch.GetTransactions()`
  out : Outcome
deriving Repr

structure Report where
  /-- argument of the `SendMessages` call, if one was made -/
  sent : Option (List PMsg)
  result : Result
  /-- what was sent on `txnsWritten` -/
  reported : Option (List TxnCount)
  successStat : Nat
  failureStat : Option Nat
  writtenStat : Option Nat
  durationStat : Bool
deriving Repr

/-- one iteration of the loop of `StartTransporting` (lines 138-198) -/
def processBatch (j : Job) : Report :=
  match j.out with
  | .cancelled true => ⟨none, .cancelled, none, 0, none, none, false⟩
  | .cancelled false => ⟨none, .cancelled, none, 0, none, none, true⟩       -- 100-106, 183, 191-193
  | .accepted => ⟨some j.payload, .written, some j.txns, 1, none, some j.payload.length, true⟩  -- 110-113, 195-198
  | .rejected idxs => ⟨some j.payload, .rejected, none, 0, some idxs.length, none, true⟩  -- 116-128, 185-188
  | .otherError => ⟨some j.payload, .panicked, none, 0, none, none, false⟩   -- 116: unwinds into `shutdown`

/-- the worker: the first batch that is not written ends it (rejected: `return` at 187; panic: deferred
`shutdown` recovers; cancelled: `continue`, then the cancelled context is seen at 140/148). `shutdown`
then closes the producer, cancels the process context (fail-stop) and closes `txnsWritten`. -/
def worker : List Job → List Report
  | [] => []
  | j :: js =>
    let rep := processBatch j
    if rep.result = .written then rep :: worker js else [rep]

def terminated (jobs : List Job) : Bool := (worker jobs).any fun r => r.result ≠ .written

end PgBifrost.KafkaSend
