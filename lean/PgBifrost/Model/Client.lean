/-!
# Model of the replication client (`replication/client/client.go`, `conn/manager.go`)

Executable state machine of `Replicator.Start` over EVENTS supplied by the environment, in the
order the code consumes them. One event (`Ev`) = "the pending `ReceiveMessage` call returns":

* `feed`  — values the environment put on the progress channel while the client was blocked in
            `ReceiveMessage` (the channel itself is part of the state: `chan`; every
            `handleProgress` drains it completely, client.go:168-191);
* `msg`   — what `ReceiveMessage` returned (already classified/parsed, see `Msg`);
* `tick`  — whether the progress ticker is ready at the top of the NEXT loop iteration
            (client.go:288-294).

The step runs the rest of the current loop iteration (client.go:317-378) and the top of the next
one (client.go:277-315) up to the next `ReceiveMessage` call, or to the exit of `Start`.

Not modelled (the fakes never do it): errors from `GetConn*`, `SendStandbyStatus`,
`IdentifySystem`; a closed progress channel; cancellation of `TerminateCtx` (end of a harness case
only). `variant` selects `recoverFromErrorResponse` as it is today (`.today`) or with the planned
F2 fix (`.fixed`, /root/proto/planned-fixes.patch) or with the additional change proposed for
F2(c) (`.fixedC`).
-/
namespace PgBifrost.Client

/-- parsed `test_decoding` payload of an XLogData message (client.go:471-482) -/
inductive Payload
  | begin (xid : String)      -- "BEGIN xid"
  | commit (xid : String)     -- "COMMIT xid"
  | change                    -- "table …: INSERT: …"
  | unparsable                -- `pglogrepl.ParseXLogData` fails (< 24 bytes): logged, ignored
  | parseError                -- `XLogDataToWalMessage` fails: fatal
  deriving Repr, DecidableEq, Inhabited

inductive Msg
  /-- XLogData. `nanos` = `time.Now().UnixNano()` read at a BEGIN (client.go:517).
  `blocks` = one entry per time the WriteLoop's `select` takes the ticker branch before the send
  succeeds (client.go:548-562); entry j = values fed to the progress channel right after the
  status of firing j (they are seen by the next `handleProgress`). -/
  | data (lsn : Nat) (p : Payload) (nanos : Nat) (blocks : List (List Nat))
  /-- keepalive; `elapsed` = `now.Sub(lastClientHeartbeatRequestTime)` in ns (client.go:453-454) -/
  | keepalive (reply : Bool) (walEnd : Nat) (elapsed : Nat)
  | kabad                       -- 'k' CopyData that is not 17 bytes long
  | nil                         -- (nil, nil)
  | timeout                     -- error with Timeout()/DeadlineExceeded
  | closedErr                   -- other error, conn.IsClosed() = true
  | fatalErr                    -- other error, conn.IsClosed() = false
  | errorResponse (sysPos : Nat) -- *pgproto3.ErrorResponse; IdentifySystem will answer sysPos
  | skip                        -- CopyData of another kind, ParameterStatus, ParameterDescription
  | unexpected                  -- any other backend message
  | copyEmpty                   -- CopyData with empty Data: `t.Data[0]` panics
  deriving Repr, DecidableEq, Inhabited

structure Ev where
  feed : List Nat
  msg : Msg
  tick : Bool
  deriving Repr, DecidableEq, Inhabited

inductive Op | begin | commit | change
  deriving Repr, DecidableEq, Inhabited

/-- `timeBasedKey`: `none` = "" (never set), `some (txn, nanos)` = txn ++ "-" ++ decimal nanos -/
abbrev Key := Option (String × Nat)

inductive Action
  | getconn (lsn : Nat) (started : Bool)   -- GetConnWithStartLsn(lsn); did the manager dial + START_REPLICATION
  | getplain (dialed : Bool)               -- GetConn (recovery only)
  | status (lsn : Nat)                     -- SendStandbyStatus{WALWritePosition}
  | fwd (op : Op) (txn : String) (key : Key) (lsn : Nat)
  | close                                  -- ManagerInterface.Close
  | identify                               -- IdentifySystem
  | exit (reason : String)
  deriving Repr, DecidableEq, Inhabited

/-- `conn.Manager.conn` (manager.go:39-43) -/
inductive Conn | none | closed | live
  deriving Repr, DecidableEq, Inhabited

inductive Phase | first | running | exited
  deriving Repr, DecidableEq, Inhabited

inductive Variant | today | fixed | fixedC
  deriving Repr, DecidableEq, Inhabited

structure State where
  phase : Phase := .first
  overall : Nat := 0            -- overallProgress
  highest : Nat := 0            -- highestWalStart
  txn : String := ""            -- transaction
  key : Key := none             -- timeBasedKey
  sawCommit : Bool := false
  firstIter : Bool := true      -- firstIteration
  hbCount : Nat := 0            -- heartbeatRequestCounter
  hbDelta : Nat := 0            -- heartbeatRequestDeltaTime (ns)
  conn : Conn := .none
  chan : List Nat := []         -- content of the progress channel
  /-- (.fixedC only) "a delivery is open downstream": set when a BEGIN is forwarded, cleared when
  a COMMIT (real or synthetic) is forwarded -/
  openFlag : Bool := false
  deriving Repr, DecidableEq, Inhabited

def renderKey : Key → String
  | none => ""
  | some (t, n) => t ++ "-" ++ toString n

/-! ## connection manager (manager.go:63-96) -/

/-- `getConn`: a new connection is made iff there is none or it is closed -/
def needDial (c : Conn) : Bool := c != .live

/-- `GetConnWithStartLsn(lsn)` -/
def getConnRepl (s : State) (lsn : Nat) : State × List Action :=
  ({ s with conn := .live }, [.getconn lsn (needDial s.conn)])

/-- `GetConn()` -/
def getConnPlain (s : State) : State × List Action :=
  ({ s with conn := .live }, [.getplain (needDial s.conn)])

/-- `Manager.Close` -/
def mgrClose (s : State) : State × List Action := ({ s with conn := .none }, [.close])

/-! ## handleProgress / sendProgressStatus (client.go:130-217) -/

/-- the drain loop, client.go:169-190: returns (overallProgress, progressUpdated) -/
def drain : List Nat → Nat → Bool → Nat × Bool
  | [], o, u => (o, u)
  | v :: r, o, u => if o ≥ v then drain r o u else drain r v true

/-- the environment puts `l` on the progress channel -/
def feed1 (s : State) (l : List Nat) : State := { s with chan := s.chan ++ l }

/-- `sendProgressStatus`, client.go:130-160 -/
def sendStatus (s : State) : State × List Action :=
  let (s1, a) := getConnRepl s s.highest
  (s1, a ++ [.status s1.overall])

/-- `handleProgress(force)` -/
def handleProgress (s : State) (force : Bool) : State × List Action :=
  let d := drain s.chan s.overall false
  let s1 := { s with overall := d.1, chan := [] }
  if d.2 || force then sendStatus s1 else (s1, [])

/-! ## exit (`defer c.shutdown()`, client.go:105-126) -/
def exitState (s : State) : State := { s with phase := .exited, conn := .none }
def exitWith (s : State) (reason : String) : State × List Action :=
  (exitState s, [.exit reason, .close])

/-! ## top of the loop, client.go:277-315 -/
def loopTop (s : State) (tick : Bool) : State × List Action :=
  let (s1, a1) := handleProgress s tick
  let (s2, a2) := getConnRepl s1 s1.highest
  (s2, a1 ++ a2)

/-! ## handlePrimaryKeepaliveMessage, client.go:426-468 -/
def hbLimitNs : Nat := 100000000

def hbSet (s : State) (cnt delta : Nat) : State := { s with hbCount := cnt, hbDelta := delta }

/-- result: `none` = returned the "rapid heartbeat" error -/
def heartbeat (s : State) (elapsed : Nat) : Option State :=
  let delta := s.hbDelta + elapsed
  let cnt := s.hbCount + 1
  if delta < hbLimitNs ∧ cnt > 5 then none
  else if cnt > 5 then some (hbSet s 0 0)
  else some (hbSet s cnt delta)

/-! ## handleXLogData, client.go:470-566 -/

/-- WriteLoop: one `handleProgress(true)` per ticker firing, then the values fed meanwhile -/
def writeLoop : State → List (List Nat) → State × List Action
  | s, [] => (s, [])
  | s, b :: r =>
    let (s1, a1) := handleProgress s true
    let (s2, a2) := writeLoop (feed1 s1 b) r
    (s2, a1 ++ a2)

def trackOpen (s : State) (op : Op) : State :=
  match op with
  | .begin => { s with openFlag := true }
  | .commit => { s with openFlag := false }
  | .change => s

/-- stamp + WriteLoop + send, client.go:544-565 -/
def forward (s : State) (op : Op) (lsn : Nat) (blocks : List (List Nat)) : State × List Action :=
  let (s1, a) := writeLoop s blocks
  (trackOpen s1 op, a ++ [.fwd op s1.txn s1.key lsn])

/-- outcome of handling one message: (state, actions) and `some reason` iff `Start` returns -/
abbrev Handled := (State × List Action) × Option String

/-- `!c.sawCommit && !c.firstIteration`, client.go:523 -/
def beginDropped (s : State) : Bool := !s.sawCommit && !s.firstIter

/-- client.go:511-518 -/
def stampBegin (s : State) (xid : String) (nanos : Nat) : State :=
  { s with txn := xid, key := some (xid, nanos) }

/-- the no-COMMIT branch, client.go:523-535 (`.fixedC`: the key update is moved below the check).
A message that is not forwarded never enters the WriteLoop; values the environment announces in
`blocks` for it are simply on the channel afterwards — the harness never sends such lines. -/
def dropState (v : Variant) (s : State) (xid : String) (nanos : Nat) (blocks : List (List Nat)) : State :=
  let s1 := if v = .fixedC then s else stampBegin s xid nanos
  { s1 with conn := .none, sawCommit := false, firstIter := true, chan := s1.chan ++ blocks.flatten }

/-- client.go:537-541 -/
def acceptState (s : State) (xid : String) (nanos : Nat) : State :=
  { stampBegin s xid nanos with sawCommit := false, firstIter := false }

/-- client.go:487-496: `if c.highestWalStart < wal.WalStart { c.highestWalStart = wal.WalStart }` -/
def commitState (s : State) (lsn : Nat) : State :=
  { s with highest := max s.highest lsn, sawCommit := true }

def feedAll (s : State) (blocks : List (List Nat)) : State :=
  { s with chan := s.chan ++ blocks.flatten }

def handleData (v : Variant) (s : State) (lsn : Nat) (p : Payload) (nanos : Nat)
    (blocks : List (List Nat)) : Handled :=
  match p with
  | .unparsable => ((feedAll s blocks, []), none)        -- client.go:472-476
  | .parseError => ((feedAll s blocks, []), some "parse") -- client.go:478-482
  | .commit _ => (forward (commitState s lsn) .commit lsn blocks, none)
  | .change => (forward s .change lsn blocks, none)
  | .begin xid =>                                         -- client.go:509-542
    if beginDropped s then ((dropState v s xid nanos blocks, [.close]), none)
    else (forward (acceptState s xid nanos) .begin lsn blocks, none)

/-! ## recoverFromErrorResponse, client.go:386-424 -/

/-- LSN the synthetic COMMIT is stamped with in the fixed code -/
def fixedLsn (s : State) : Nat := if s.highest = 0 then s.overall else s.highest

/-- the synthetic COMMIT, client.go:390-393 -/
def recoveryFwd (v : Variant) (s : State) : List Action :=
  match v with
  | .today => [.fwd .commit s.txn s.key s.highest]
  | .fixed => if beginDropped s then [.fwd .commit s.txn s.key (fixedLsn s)] else []
  | .fixedC => if s.openFlag then [.fwd .commit s.txn s.key (fixedLsn s)] else []

/-- state after `recoverFromErrorResponse`: both `Close` calls, `highestWalStart`, the flags -/
def recoverState (s : State) (pos : Nat) : State :=
  { s with conn := .none, highest := pos, sawCommit := false, firstIter := true, openFlag := false }

/-- synthetic COMMIT · `Close` · `GetConn` (the manager has no connection after `Close`, so it
dials: `needDial .none = true`) · `IdentifySystem` · `Close` -/
def recover (v : Variant) (s : State) (pos : Nat) : State × List Action :=
  (recoverState s pos, recoveryFwd v s ++ [.close, .getplain true, .identify, .close])

example (s : State) : (getConnPlain (mgrClose s).1).2 = [.getplain true] := rfl
example (s : State) : (mgrClose (getConnPlain (mgrClose s).1).1).1 = { s with conn := .none } := rfl

/-! ## one received message in the main loop, client.go:317-378 -/
def connClosed (s : State) : State := { s with conn := .closed }

def handleMsg (v : Variant) (s : State) : Msg → Handled
  | .timeout => (handleProgress s true, none)             -- client.go:319-326
  | .closedErr => ((connClosed s, []), none)              -- client.go:331-334
  | .fatalErr => ((s, []), some "recverr")                -- client.go:336
  | .nil => ((s, []), none)                               -- client.go:340-343
  | .skip => ((s, []), none)                              -- client.go:353-359
  | .unexpected => ((s, []), some "unexpected")           -- client.go:370-372
  | .copyEmpty => ((s, []), some "panic")                 -- client.go:348 index out of range
  | .kabad => ((s, []), some "kaparse")                   -- client.go:430-434
  | .keepalive reply _ elapsed =>
    if !reply then ((s, []), none)                        -- client.go:439-441
    else
      let (s1, a) := handleProgress s true                -- client.go:444
      match heartbeat s1 elapsed with
      | none => ((s1, a), some "heartbeat")
      | some s2 => ((s2, a), none)
  | .data lsn p nanos blocks => handleData v s lsn p nanos blocks
  | .errorResponse pos => (recover v s pos, none)         -- client.go:360-369

def firstState (s : State) (walEnd : Nat) : State := { s with overall := walEnd, phase := .running }

/-- the first receive of `Start`, client.go:243-270 -/
def handleFirst (s : State) : Msg → Handled
  | .keepalive _ walEnd _ => ((firstState s walEnd, []), none)
  | .kabad => ((firstState s 0, []), none)          -- parse error only logged, pkm is zero
  | .copyEmpty => ((s, []), some "panic")
  | .data .. => ((s, []), some "notkeepalive")
  | .skip => ((s, []), some "notkeepalive")     -- harness uses a CopyData of another kind
  | _ => ((s, []), some "unexpected")

def finish (h : Handled) (tick : Bool) : State × List Action :=
  match h with
  | ((s, a), some r) => let (s', a') := exitWith s r; (s', a ++ a')
  | ((s, a), none) => let (s', a') := loopTop s tick; (s', a ++ a')

/-- one event -/
def step (v : Variant) (s : State) (e : Ev) : State × List Action :=
  match s.phase with
  | .exited => (s, [])
  | .first => finish (handleFirst (feed1 s e.feed) e.msg) e.tick
  | .running => finish (handleMsg v (feed1 s e.feed) e.msg) e.tick

/-- `Start` up to the first `ReceiveMessage`: client.go:235 -/
def start : State × List Action := getConnRepl {} 0

/-- run from a state, collecting the actions of each event -/
def runFrom (v : Variant) : State → List Ev → State × List (List Action)
  | s, [] => (s, [])
  | s, e :: r =>
    let (s1, a) := step v s e
    let (s2, as) := runFrom v s1 r
    (s2, a :: as)

/-- all actions of a whole execution, starting with those of `start` -/
def run (v : Variant) (evs : List Ev) : State × List (List Action) :=
  let (s0, a0) := start
  let (s, as) := runFrom v s0 evs
  (s, a0 :: as)

def trace (v : Variant) (evs : List Ev) : List Action := (run v evs).2.flatten

end PgBifrost.Client
