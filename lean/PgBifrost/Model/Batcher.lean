import PgBifrost.Model.Batch
import PgBifrost.Model.Crc32
/-!
# Model of `transport/batcher/batcher.go` (`StartBatching`, `handleTicker`, `sendBatch`,
`addToBatch`) and `queue/queue.go`

Go's random map iteration order and heap tie-breaks in `handleTicker` are resolved by an
explicit flush `order` supplied with every tick; `validTick` says which orders the code can
produce and theorems quantify over all of them.
-/
namespace PgBifrost.Batcher
open PgBifrost.Batch

inductive Routing | roundRobin | partition
deriving DecidableEq, Repr, Inhabited

structure Cfg where
  workers : Nat
  routing : Routing
  updAge : Int      -- flushBatchUpdateAge (ns)
  maxAge : Int      -- flushBatchMaxAge (ns)
  memLimit : Int    -- batcherMemorySoftLimit
deriving Repr, Inhabited

structure SeenE where
  txn : Nat
  key : Nat
  total : Nat
  commit : Nat
deriving DecidableEq, Repr, Inhabited

inductive Ev where
  | seen (l : List SeenE)
  | dispatch (worker : Nat) (b : Batch)
  | selfReport (txns : List TxnCount)
  | stat (name : String)
  | fatal
deriving DecidableEq, Repr, Inhabited

structure State where
  openB : List (PKey × Batch) := []     -- `batches` map
  seenList : List SeenE := []
  curKey : Option Nat := none            -- `curTimeBasedKey` ("" initially)
  total : Nat := 0                       -- `totalMsgsInTxn`
  rr : Nat := 0                          -- `roundRobinPosition`
  dead : Bool := false                   -- StartBatching returned
deriving Repr, Inhabited

def getOpen (s : State) (pk : PKey) : Option Batch := (s.openB.find? (·.1 == pk)).map (·.2)

def setOpen (s : State) (pk : PKey) (b : Batch) : State :=
  if s.openB.any (·.1 == pk) then
    { s with openB := s.openB.map fun p => if p.1 == pk then (pk, b) else p }
  else { s with openB := s.openB ++ [(pk, b)] }

def delOpen (s : State) (pk : PKey) : State :=
  { s with openB := s.openB.filter fun p => !(p.1 == pk) }

/-- `sendBatch` (Close never fails for the real batches) -/
def sendBatch (cfg : Cfg) (s : State) (b : Batch) : State × List Ev :=
  let (s, ev1) := if s.seenList.isEmpty then (s, []) else ({ s with seenList := [] }, [Ev.seen s.seenList])
  if b.isEmpty then (s, ev1 ++ [.selfReport b.txns])
  else
    match cfg.routing with
    | .roundRobin =>
      let idx := s.rr
      let rr' := if s.rr + 1 == cfg.workers then 0 else s.rr + 1
      ({ s with rr := rr' }, ev1 ++ [.dispatch idx b])
    | .partition => (s, ev1 ++ [.dispatch (Crc32.quickHash b.pkey cfg.workers) b])

/-- `addToBatch`; the can't-fit recursion is unrolled with fuel (a fresh batch answering
can't-fit again would loop forever in the code: fuel exhaustion is reported as `fatal`) -/
def addToBatch (K : Kind) (cfg : Cfg) : Nat → State → Batch → Msg → State × Batch × List Ev × Bool
  | 0, s, b, _ => (s, b, [.fatal], true)
  | fuel + 1, s, b, m =>
    match K.add b m with
    | (.ok, b') => (s, b', [], false)
    | (.cantFit, _) =>
      let (s, ev) := sendBatch cfg s b
      let (s, b', ev', f) := addToBatch K cfg fuel s (fresh m.pkey) m
      (s, b', ev ++ ev', f)
    | (.tooBig, b') => (s, b', [.stat "dropped_too_big"], false)
    | (.invalid, b') => (s, b', [.stat "dropped_msg_invalid"], false)
    | (.full, b') => (s, b', [.fatal], true)

/-- one iteration of the `StartBatching` loop for an input message -/
def onMsg (K : Kind) (cfg : Cfg) (s : State) (m : Msg) : State × List Ev :=
  let (s, cur) := match getOpen s m.pkey with
    | some b => (s, b)
    | none => (setOpen s m.pkey (fresh m.pkey), fresh m.pkey)
  let s := if m.op == .commit then { s with seenList := s.seenList ++ [⟨m.txn, m.key, s.total, m.lsn⟩] } else s
  let s := if s.curKey != some m.key then { s with curKey := some m.key, total := 0 } else s
  let (s, cur, ev1) :=
    if K.isFull cur then
      let (s, ev) := sendBatch cfg s cur
      (setOpen s m.pkey (fresh m.pkey), fresh m.pkey, ev)
    else (s, cur, [])
  if m.op != .data then (s, ev1)
  else
    let (s, cur', ev2, fatal) := addToBatch K cfg 3 s cur m
    let s := setOpen s m.pkey cur'
    if fatal then ({ s with dead := true }, ev1 ++ ev2)
    else ({ s with total := s.total + 1 }, ev1 ++ ev2)

/-- observed times of one open batch at a tick -/
structure BTimes where
  pkey : PKey
  ctime : Int
  mtime : Int
deriving Repr, Inhabited

/-- the unconditional part of the tick decision -/
def mustFlush (K : Kind) (cfg : Cfg) (now : Int) (b : Batch) (ctime mtime : Int) : Bool :=
  b.isEmpty || decide (mtime < now - cfg.updAge) || decide (ctime < now - cfg.maxAge) || K.isFull b

def timesOf (times : List BTimes) (pk : PKey) : Option BTimes := times.find? (·.pkey == pk)

def mandatory (K : Kind) (cfg : Cfg) (now : Int) (s : State) (times : List BTimes) : List PKey :=
  s.openB.filterMap fun (pk, b) =>
    match timesOf times pk with
    | some t => if mustFlush K cfg now b t.ctime t.mtime then some pk else none
    | none => none

def bytesOf (s : State) (pk : PKey) : Int := match getOpen s pk with | some b => b.bytes | none => 0

/-- is `pops` a possible sequence of heap pops: each popped batch is a largest one among those
still kept, popping continues exactly while the kept total is ≥ the limit -/
def validPops (cfg : Cfg) (s : State) : List PKey → List PKey → Int → Bool
  | kept, [], total => decide (total < cfg.memLimit) || kept.isEmpty
  | kept, p :: ps, total =>
    decide (cfg.memLimit ≤ total) && kept.contains p &&
      kept.all (fun k => decide (bytesOf s k ≤ bytesOf s p)) &&
      validPops cfg s (kept.erase p) ps (total - bytesOf s p)

/-- can `handleTicker` flush the open batches in this `order`? (a permutation of the mandatory
set in any order — Go map iteration — followed by a valid pop sequence) -/
def validTick (K : Kind) (cfg : Cfg) (now : Int) (s : State) (times : List BTimes) (order : List PKey) : Bool :=
  let mand := mandatory K cfg now s times
  let first := order.take mand.length
  let pops := order.drop mand.length
  let kept := (s.openB.map (·.1)).filter fun k => !mand.contains k
  let total := kept.foldl (fun acc k => acc + bytesOf s k) (0 : Int)
  (s.openB.map (·.1)).all (fun k => (timesOf times k).isSome) &&
  first.all mand.contains && mand.all first.contains && first.length == mand.length &&
  (if total ≥ cfg.memLimit then validPops cfg s kept pops total else pops.isEmpty)

def flushOne (cfg : Cfg) (acc : State × List Ev) (pk : PKey) : State × List Ev :=
  let (s, evs) := acc
  match getOpen s pk with
  | none => (s, evs)
  | some b =>
    let (s, ev) := sendBatch cfg s b
    (delOpen s pk, evs ++ ev ++ [.stat "batch_closed_early"])

/-- `handleTicker` with the iteration order resolved by `order` -/
def onTick (cfg : Cfg) (s : State) (order : List PKey) : State × List Ev :=
  order.foldl (flushOne cfg) (s, [])

inductive Op where
  | msg (m : Msg)
  | tick (now : Int) (times : List BTimes) (order : List PKey)
deriving Repr, Inhabited

def step (K : Kind) (cfg : Cfg) (s : State) : Op → State × List Ev
  | .msg m => if s.dead then (s, []) else onMsg K cfg s m
  | .tick _ _ order => if s.dead then (s, []) else onTick cfg s order

end PgBifrost.Batcher
