/-! One pass through the loop of a sink worker's `StartTransporting` (the S3, RabbitMQ, Kinesis and Kafka workers
share this shape), as a function of what happened: the terminate context seen at the loop's selects, and what
`transportWithRetry` did (panicked, returned an error = retries exhausted, returned `cancelled`). -/
namespace PgBifrost.WorkerLoop

structure LoopIn where
  /-- the terminate context is seen cancelled at one of the two selects at the top of the loop -/
  preCancelled : Bool
  /-- `transportWithRetry` panicked (unwinds into the deferred `shutdown`) -/
  panicked : Bool
  /-- `transportWithRetry` returned an error ("max retries exceeded") -/
  err : Bool
  /-- `transportWithRetry` returned `cancelled = true` -/
  cancelled : Bool
deriving DecidableEq, Repr

structure LoopOut where
  /-- `transportWithRetry` was called -/
  called : Bool := false
  durationStat : Bool := false
  writtenStat : Bool := false
  /-- the batch's transactions were sent on the progress channel -/
  reported : Bool := false
  /-- the worker returns (the deferred `shutdown` cancels the process and closes the progress channel) -/
  stops : Bool := false
deriving DecidableEq, Repr

def iteration (i : LoopIn) : LoopOut :=
  if i.preCancelled then { stops := true }
  else if i.panicked then { called := true, stops := true }
  else if i.err then { called := true, durationStat := true, stops := true }
  else if i.cancelled then { called := true, durationStat := true }      -- `continue`: the next pass sees the context
  else { called := true, durationStat := true, writtenStat := true, reported := true }

/-- a batch is reported written exactly when the upload was attempted and neither failed nor was cancelled -/
theorem reported_iff (i : LoopIn) :
    (iteration i).reported = true ↔ i.preCancelled = false ∧ i.panicked = false ∧ i.err = false ∧ i.cancelled = false := by
  obtain ⟨a, b, c, d⟩ := i
  cases a <;> cases b <;> cases c <;> cases d <;> simp [iteration]

/-- a failed batch stops the worker (fail-stop) and is never reported -/
theorem err_stops (i : LoopIn) (h : i.err = true ∨ i.panicked = true) :
    (iteration i).reported = false ∧ ((iteration i).called = true → (iteration i).stops = true) := by
  obtain ⟨a, b, c, d⟩ := i
  cases a <;> cases b <;> cases c <;> cases d <;> simp_all [iteration]

end PgBifrost.WorkerLoop
