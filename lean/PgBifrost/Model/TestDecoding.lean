import PgBifrost.Model.Parser
/-!
# Reference encoder: what PostgreSQL's `contrib/test_decoding` prints (default options)

`render : Change → Bytes` follows `test_decoding.c`:

* `pg_decode_begin_txn` / `pg_output_begin`: `BEGIN <xid>`; `pg_decode_commit_txn`: `COMMIT <xid>`
  (`include-xids` on, `include-timestamp` off — the options pg-bifrost starts replication with).
* `pg_decode_change`: `table ` + `quote_qualified_identifier(schema, rel)` + `:` + ` INSERT:` |
  ` UPDATE:` | ` DELETE:`; INSERT: new tuple or ` (no-tuple-data)`; UPDATE: if an old tuple was logged
  ` old-key:` old tuple ` new-tuple:`, then the new tuple or ` (no-tuple-data)`; DELETE: old tuple
  (no label) or ` (no-tuple-data)`.
* `tuple_to_stringinfo`: for every printed attribute ` ` + `quote_identifier(attname)` + `[` +
  `format_type_be(typid)` + `]:` + (`null` | `unchanged-toast-datum` | `print_literal`).
  (Dropped / system attributes and, for the old key, null attributes are not printed: a `Change`
  lists the PRINTED attributes.)
* `print_literal`: bare output for int2/int4/int8/oid/float4/float8/numeric, `true`/`false` for
  bool (all `Literal.bare`), `B'…'` for bit/varbit, otherwise `'…'` with every `'` doubled.
* `pg_decode_truncate`: `table ` + relations joined by `, ` + `: TRUNCATE:` + (` restart_seqs`)?
  (` cascade`)? or ` (no-flags)`.
* `quote_identifier` (ruleutils.c): unquoted iff the name starts with `[a-z_]`, contains only
  `[a-z0-9_]` and is not a reserved / column-name / type-function-name keyword; otherwise
  `"…"` with every `"` doubled.
* `format_type_be` (typmod −1): SQL-standard spellings for the built-in types (`character varying`,
  `timestamp without time zone`, `bit varying`, `"char"`, …: `TBase.builtin`, printed verbatim),
  otherwise `quote_identifier(typname)` or, when the type is not visible in the search path,
  `quote_qualified_identifier(nspname, typname)` (`TBase.named`); arrays get the suffix `[]`.

`view : Change → Parser.Res` is what a faithful decoder must return for `render m` (C09).
-/
namespace PgBifrost.TestDecoding
open PgBifrost.Parser

def lit (s : String) : Bytes := s.toUTF8.toList

/-! ### quote_identifier -/

def isSafeStart (c : UInt8) : Bool := (97 ≤ c && c ≤ 122) || c == 95
def isSafeChar (c : UInt8) : Bool := (97 ≤ c && c ≤ 122) || (48 ≤ c && c ≤ 57) || c == 95

/-- keywords whose category is not UNRESERVED_KEYWORD (`src/include/parser/kwlist.h`);
the Go generator (`harness/parser.go`) carries the same list, `renderck` keeps them equal -/
def keywordText : String :=
  "all analyse analyze and any array as asc asymmetric both case cast check collate column constraint create " ++
  "current_catalog current_date current_role current_time current_timestamp current_user default deferrable desc " ++
  "distinct do else end except false fetch for foreign from grant group having in initially intersect into lateral " ++
  "leading limit localtime localtimestamp not null offset on only or order placing primary references returning " ++
  "select session_user some symmetric table then to trailing true union unique user using variadic when where " ++
  "window with " ++
  "authorization binary collation concurrently cross current_schema freeze full ilike inner is isnull join left " ++
  "like natural notnull outer overlaps right similar tablesample verbose " ++
  "between bigint bit boolean char character coalesce dec decimal exists extract float greatest grouping inout int " ++
  "integer interval least national nchar none normalize nullif numeric out overlay position precision real row " ++
  "setof smallint substring time timestamp treat trim values varchar xmlattributes xmlconcat xmlelement xmlexists " ++
  "xmlforest xmlnamespaces xmlparse xmlpi xmlroot xmlserialize xmltable"

def keywordsOfText : List Bytes := ((keywordText.splitOn " ").filter (· ≠ "")).map lit

/-- `keywordsOfText` spelled out as bytes (so that `decide` can evaluate `needsQuote`); `#guard` below keeps them equal -/
def keywords : List Bytes := [
  [97, 108, 108],
  [97, 110, 97, 108, 121, 115, 101],
  [97, 110, 97, 108, 121, 122, 101],
  [97, 110, 100],
  [97, 110, 121],
  [97, 114, 114, 97, 121],
  [97, 115],
  [97, 115, 99],
  [97, 115, 121, 109, 109, 101, 116, 114, 105, 99],
  [98, 111, 116, 104],
  [99, 97, 115, 101],
  [99, 97, 115, 116],
  [99, 104, 101, 99, 107],
  [99, 111, 108, 108, 97, 116, 101],
  [99, 111, 108, 117, 109, 110],
  [99, 111, 110, 115, 116, 114, 97, 105, 110, 116],
  [99, 114, 101, 97, 116, 101],
  [99, 117, 114, 114, 101, 110, 116, 95, 99, 97, 116, 97, 108, 111, 103],
  [99, 117, 114, 114, 101, 110, 116, 95, 100, 97, 116, 101],
  [99, 117, 114, 114, 101, 110, 116, 95, 114, 111, 108, 101],
  [99, 117, 114, 114, 101, 110, 116, 95, 116, 105, 109, 101],
  [99, 117, 114, 114, 101, 110, 116, 95, 116, 105, 109, 101, 115, 116, 97, 109, 112],
  [99, 117, 114, 114, 101, 110, 116, 95, 117, 115, 101, 114],
  [100, 101, 102, 97, 117, 108, 116],
  [100, 101, 102, 101, 114, 114, 97, 98, 108, 101],
  [100, 101, 115, 99],
  [100, 105, 115, 116, 105, 110, 99, 116],
  [100, 111],
  [101, 108, 115, 101],
  [101, 110, 100],
  [101, 120, 99, 101, 112, 116],
  [102, 97, 108, 115, 101],
  [102, 101, 116, 99, 104],
  [102, 111, 114],
  [102, 111, 114, 101, 105, 103, 110],
  [102, 114, 111, 109],
  [103, 114, 97, 110, 116],
  [103, 114, 111, 117, 112],
  [104, 97, 118, 105, 110, 103],
  [105, 110],
  [105, 110, 105, 116, 105, 97, 108, 108, 121],
  [105, 110, 116, 101, 114, 115, 101, 99, 116],
  [105, 110, 116, 111],
  [108, 97, 116, 101, 114, 97, 108],
  [108, 101, 97, 100, 105, 110, 103],
  [108, 105, 109, 105, 116],
  [108, 111, 99, 97, 108, 116, 105, 109, 101],
  [108, 111, 99, 97, 108, 116, 105, 109, 101, 115, 116, 97, 109, 112],
  [110, 111, 116],
  [110, 117, 108, 108],
  [111, 102, 102, 115, 101, 116],
  [111, 110],
  [111, 110, 108, 121],
  [111, 114],
  [111, 114, 100, 101, 114],
  [112, 108, 97, 99, 105, 110, 103],
  [112, 114, 105, 109, 97, 114, 121],
  [114, 101, 102, 101, 114, 101, 110, 99, 101, 115],
  [114, 101, 116, 117, 114, 110, 105, 110, 103],
  [115, 101, 108, 101, 99, 116],
  [115, 101, 115, 115, 105, 111, 110, 95, 117, 115, 101, 114],
  [115, 111, 109, 101],
  [115, 121, 109, 109, 101, 116, 114, 105, 99],
  [116, 97, 98, 108, 101],
  [116, 104, 101, 110],
  [116, 111],
  [116, 114, 97, 105, 108, 105, 110, 103],
  [116, 114, 117, 101],
  [117, 110, 105, 111, 110],
  [117, 110, 105, 113, 117, 101],
  [117, 115, 101, 114],
  [117, 115, 105, 110, 103],
  [118, 97, 114, 105, 97, 100, 105, 99],
  [119, 104, 101, 110],
  [119, 104, 101, 114, 101],
  [119, 105, 110, 100, 111, 119],
  [119, 105, 116, 104],
  [97, 117, 116, 104, 111, 114, 105, 122, 97, 116, 105, 111, 110],
  [98, 105, 110, 97, 114, 121],
  [99, 111, 108, 108, 97, 116, 105, 111, 110],
  [99, 111, 110, 99, 117, 114, 114, 101, 110, 116, 108, 121],
  [99, 114, 111, 115, 115],
  [99, 117, 114, 114, 101, 110, 116, 95, 115, 99, 104, 101, 109, 97],
  [102, 114, 101, 101, 122, 101],
  [102, 117, 108, 108],
  [105, 108, 105, 107, 101],
  [105, 110, 110, 101, 114],
  [105, 115],
  [105, 115, 110, 117, 108, 108],
  [106, 111, 105, 110],
  [108, 101, 102, 116],
  [108, 105, 107, 101],
  [110, 97, 116, 117, 114, 97, 108],
  [110, 111, 116, 110, 117, 108, 108],
  [111, 117, 116, 101, 114],
  [111, 118, 101, 114, 108, 97, 112, 115],
  [114, 105, 103, 104, 116],
  [115, 105, 109, 105, 108, 97, 114],
  [116, 97, 98, 108, 101, 115, 97, 109, 112, 108, 101],
  [118, 101, 114, 98, 111, 115, 101],
  [98, 101, 116, 119, 101, 101, 110],
  [98, 105, 103, 105, 110, 116],
  [98, 105, 116],
  [98, 111, 111, 108, 101, 97, 110],
  [99, 104, 97, 114],
  [99, 104, 97, 114, 97, 99, 116, 101, 114],
  [99, 111, 97, 108, 101, 115, 99, 101],
  [100, 101, 99],
  [100, 101, 99, 105, 109, 97, 108],
  [101, 120, 105, 115, 116, 115],
  [101, 120, 116, 114, 97, 99, 116],
  [102, 108, 111, 97, 116],
  [103, 114, 101, 97, 116, 101, 115, 116],
  [103, 114, 111, 117, 112, 105, 110, 103],
  [105, 110, 111, 117, 116],
  [105, 110, 116],
  [105, 110, 116, 101, 103, 101, 114],
  [105, 110, 116, 101, 114, 118, 97, 108],
  [108, 101, 97, 115, 116],
  [110, 97, 116, 105, 111, 110, 97, 108],
  [110, 99, 104, 97, 114],
  [110, 111, 110, 101],
  [110, 111, 114, 109, 97, 108, 105, 122, 101],
  [110, 117, 108, 108, 105, 102],
  [110, 117, 109, 101, 114, 105, 99],
  [111, 117, 116],
  [111, 118, 101, 114, 108, 97, 121],
  [112, 111, 115, 105, 116, 105, 111, 110],
  [112, 114, 101, 99, 105, 115, 105, 111, 110],
  [114, 101, 97, 108],
  [114, 111, 119],
  [115, 101, 116, 111, 102],
  [115, 109, 97, 108, 108, 105, 110, 116],
  [115, 117, 98, 115, 116, 114, 105, 110, 103],
  [116, 105, 109, 101],
  [116, 105, 109, 101, 115, 116, 97, 109, 112],
  [116, 114, 101, 97, 116],
  [116, 114, 105, 109],
  [118, 97, 108, 117, 101, 115],
  [118, 97, 114, 99, 104, 97, 114],
  [120, 109, 108, 97, 116, 116, 114, 105, 98, 117, 116, 101, 115],
  [120, 109, 108, 99, 111, 110, 99, 97, 116],
  [120, 109, 108, 101, 108, 101, 109, 101, 110, 116],
  [120, 109, 108, 101, 120, 105, 115, 116, 115],
  [120, 109, 108, 102, 111, 114, 101, 115, 116],
  [120, 109, 108, 110, 97, 109, 101, 115, 112, 97, 99, 101, 115],
  [120, 109, 108, 112, 97, 114, 115, 101],
  [120, 109, 108, 112, 105],
  [120, 109, 108, 114, 111, 111, 116],
  [120, 109, 108, 115, 101, 114, 105, 97, 108, 105, 122, 101],
  [120, 109, 108, 116, 97, 98, 108, 101]]

#guard keywords == keywordsOfText

def allSafe : Bytes → Bool
  | [] => true
  | c :: r => isSafeChar c && allSafe r

def needsQuote (s : Bytes) : Bool :=
  match s with
  | [] => true
  | c :: _ => !(isSafeStart c) || !(allSafe s) || keywords.contains s

/-- every occurrence of `q` doubled -/
def dbl (q : UInt8) : Bytes → Bytes
  | [] => []
  | c :: r => if c = q then q :: q :: dbl q r else c :: dbl q r

def quoted (q : UInt8) (s : Bytes) : Bytes := q :: (dbl q s ++ [q])

def quoteIdent (s : Bytes) : Bytes := if needsQuote s then quoted 34 s else s

/-! ### the printed objects -/

structure Rel where
  schema : Bytes
  name : Bytes
deriving DecidableEq, Repr, Inhabited

inductive TBase where
  /-- a built-in spelling printed verbatim by `format_type`, e.g. `character varying` -/
  | builtin (s : Bytes)
  /-- `quote_identifier(typname)` / `quote_qualified_identifier(nspname, typname)` -/
  | named (schema : Option Bytes) (name : Bytes)
deriving DecidableEq, Repr, Inhabited

structure PgType where
  base : TBase
  array : Bool
deriving DecidableEq, Repr, Inhabited

inductive Literal where
  | null
  | toast
  | bare (s : Bytes)   -- numerics, oid, `true` / `false`
  | bits (s : Bytes)   -- bit / bit varying: printed `B'…'`
  | text (s : Bytes)   -- everything else: printed `'…'` with `'` doubled
deriving DecidableEq, Repr, Inhabited

structure Col where
  name : Bytes
  type : PgType
  val : Literal
deriving DecidableEq, Repr, Inhabited

inductive Change where
  | begin (xid : Nat)
  | commit (xid : Nat)
  | insert (rel : Rel) (new : Option (List Col))
  | update (rel : Rel) (old : Option (List Col)) (new : Option (List Col))
  | delete (rel : Rel) (old : Option (List Col))
  | truncate (rels : List Rel) (restartSeqs cascade : Bool)
deriving DecidableEq, Repr, Inhabited

/-! ### render -/

def digitsFuel : Nat → Nat → Bytes → Bytes
  | 0, _, acc => acc
  | f + 1, n, acc =>
    if n < 10 then UInt8.ofNat (48 + n % 10) :: acc
    else digitsFuel f (n / 10) (UInt8.ofNat (48 + n % 10) :: acc)

/-- `%u` -/
def natDigits (n : Nat) : Bytes := digitsFuel (n + 1) n []

def renderRel (r : Rel) : Bytes := quoteIdent r.schema ++ 46 :: quoteIdent r.name

def renderBase : TBase → Bytes
  | .builtin s => s
  | .named none n => quoteIdent n
  | .named (some s) n => quoteIdent s ++ 46 :: quoteIdent n

def renderType (t : PgType) : Bytes := renderBase t.base ++ (if t.array then [91, 93] else [])

def bNull : Bytes := [110, 117, 108, 108]
def bToast : Bytes := [117, 110, 99, 104, 97, 110, 103, 101, 100, 45, 116, 111, 97, 115, 116, 45, 100, 97, 116, 117, 109]

def renderLit : Literal → Bytes
  | .null => bNull
  | .toast => bToast
  | .bare s => s
  | .bits s => 66 :: 39 :: (s ++ [39])
  | .text s => quoted 39 s

/-- one attribute without its leading space: `name[type]:value` -/
def colBody (c : Col) : Bytes :=
  quoteIdent c.name ++ 91 :: (renderType c.type ++ 93 :: 58 :: renderLit c.val)

def renderCols (cs : List Col) : Bytes := cs.flatMap fun c => 32 :: colBody c

def bNoTuple : Bytes := 32 :: bNoTupleData               -- " (no-tuple-data)"
def bOldKeyLbl : Bytes := 32 :: (bOldKey ++ [58])        -- " old-key:"
def bNewTupleLbl : Bytes := 32 :: (bNewTuple ++ [58])    -- " new-tuple:"
def bTablePfx : Bytes := bTable ++ [32]                  -- "table "

def renderTup : Option (List Col) → Bytes
  | none => bNoTuple
  | some cs => renderCols cs

def renderOld : Option (List Col) → Bytes
  | none => []
  | some cs => bOldKeyLbl ++ renderCols cs ++ bNewTupleLbl

/-- `table <rel>: <OP>:` + optional old-key section + tuple -/
def renderDml (rel : Bytes) (op : Bytes) (old new : Option (List Col)) : Bytes :=
  bTablePfx ++ (rel ++ 58 :: 32 :: (op ++ 58 :: (renderOld old ++ renderTup new)))

def bINSERT : Bytes := [73, 78, 83, 69, 82, 84]
def bUPDATE : Bytes := [85, 80, 68, 65, 84, 69]
def bDELETE : Bytes := [68, 69, 76, 69, 84, 69]
def bCOMMIT : Bytes := [67, 79, 77, 77, 73, 84]

def joinRels : List Rel → Bytes
  | [] => []
  | [r] => renderRel r
  | r :: rs => renderRel r ++ 44 :: 32 :: joinRels rs

def bRestartSeqs : Bytes := [32, 114, 101, 115, 116, 97, 114, 116, 95, 115, 101, 113, 115]   -- " restart_seqs"
def bCascade : Bytes := [32, 99, 97, 115, 99, 97, 100, 101]                                   -- " cascade"
def bNoFlags : Bytes := [32, 40, 110, 111, 45, 102, 108, 97, 103, 115, 41]                    -- " (no-flags)"

def truncFlags (restartSeqs cascade : Bool) : Bytes :=
  if restartSeqs || cascade then
    (if restartSeqs then bRestartSeqs else []) ++ (if cascade then bCascade else [])
  else bNoFlags

def render : Change → Bytes
  | .begin x => bBEGIN ++ 32 :: natDigits x
  | .commit x => bCOMMIT ++ 32 :: natDigits x
  | .insert r new => renderDml (renderRel r) bINSERT none new
  | .update r old new => renderDml (renderRel r) bUPDATE old new
  | .delete r old => renderDml (renderRel r) bDELETE none old
  | .truncate rs rst casc => bTablePfx ++ (joinRels rs ++ 58 :: 32 :: (bTRUNCATE ++ 58 :: truncFlags rst casc))

/-! ### view: the faithful decoding -/

/-- value with the quote doubling undone. For a bit string the faithful value is its digits
(the literal is `B'…'`, a quoted literal); before the repair of F4 the decoder returned `'…` instead. -/
def litValue : Literal → Bytes
  | .null => bNull
  | .toast => bToast
  | .bare s => s
  | .bits s => s
  | .text s => s

def litQuoted : Literal → Bool
  | .bits _ => true
  | .text _ => true
  | _ => false

def cvOf (c : Col) : Bytes × CV :=
  (quoteIdent c.name, { value := litValue c.val, type := renderType c.type, quoted := litQuoted c.val })

def viewCols : Option (List Col) → List (Bytes × CV)
  | none => []
  | some cs => cs.map cvOf

def viewDml (rel op : Bytes) (old new : Option (List Col)) : Res :=
  { relation := rel, operation := op, noTuple := new.isNone, cols := viewCols new, old := viewCols old }

/-- relation / column names in printed (`quote_identifier`) form, types as printed, values unquoted -/
def view : Change → Res
  | .begin x => { operation := bBEGIN, transaction := natDigits x }
  | .commit x => { operation := bCOMMIT, transaction := natDigits x }
  | .insert r new => viewDml (renderRel r) bINSERT none new
  | .update r old new => viewDml (renderRel r) bUPDATE old new
  | .delete r old => viewDml (renderRel r) bDELETE none old
  | .truncate rs _ _ => { relation := joinRels rs, operation := bTRUNCATE }

/-! ### well-formedness (decidable) -/

def bareOk (s : Bytes) : Bool := s.all fun c => c != 0 && c != 32 && c != 39
def builtinOk (s : Bytes) : Bool := s.all fun c => c != 93 && c != 34 && c != 91

def Literal.isBits : Literal → Bool
  | .bits _ => true
  | _ => false

def bitsOk (s : Bytes) : Bool := s.all fun c => c == 48 || c == 49

def Literal.wf : Literal → Bool
  | .bare s => bareOk s
  | .bits s => bitsOk s
  | _ => true

def PgType.wf (t : PgType) : Bool :=
  match t.base with
  | .builtin s => builtinOk s
  | .named _ _ => true

def Col.wf (c : Col) : Bool := c.type.wf && c.val.wf

def nodupNames (cs : List Col) : Bool := decide (cs.map fun c => quoteIdent c.name).Nodup

/-- an old-key section: printed attributes well formed, names distinct (may be empty) -/
def oldWf : Option (List Col) → Bool
  | none => true
  | some cs => cs.all Col.wf && nodupNames cs

/-- a tuple: as `oldWf`, and at least one printed attribute (a relation without columns prints an
empty tuple, which the unchanged decoder rejects — finding "empty_tuple") -/
def tupWf : Option (List Col) → Bool
  | none => true
  | some cs => cs.all Col.wf && nodupNames cs && !cs.isEmpty

/-- No restriction on identifiers (any bytes), text values (any bytes), xids. Restrictions:
bare values contain no NUL / space / `'`; bit strings consist of `0`/`1`; built-in type spellings contain no `]`, `[`, `"`;
printed column names distinct inside a tuple; a printed tuple is not empty. -/
def wf : Change → Bool
  | .begin _ => true
  | .commit _ => true
  | .insert _ new => tupWf new
  | .update _ old new => oldWf old && tupWf new
  | .delete _ old => tupWf old
  | .truncate _ _ _ => true

abbrev WF (m : Change) : Prop := wf m = true

end PgBifrost.TestDecoding
