import PgBifrost.Model.Marshal
/-!
# `marshalWalToJson` WITH its package-level reuse (C10, history independence)

A second, lower-level model of marshaller.go:49-93,206-324 that keeps what the pure model `PgBifrost.Marshal`
abstracts away: `colsTemp` (stale content of the previous call), `colValuesPool` / `colValuePairPool` (maps come back
from the pool WITH whatever content they were put back with), `usedColValues` / `usedColValueParis`, and the
environment's choice at every `sync.Pool.Get` (some pooled map, or `New`). Go maps are functions `String → Option α`
(the JSON object of a map is its set of present keys, so extensional equality is the right one).

Value semantics: a map taken from a pool is referenced only by the current call until it is `Put` back at the end of
the call (`Get` removes it from the pool, the only `Put`s are in `clearColValues`/`clearColValuePairs` after
`gojson.Marshal` returned), and `colsTemp`'s stale references are deleted before anything is read. So no two live
references to one map are ever written through during a call; this aliasing argument is informal, the rest is proved
(`Proofs/MarshalPool.lean`, `Props/C10.lean: marshal_pool_independent`).
-/
namespace PgBifrost.MarshalPool
open PgBifrost.Marshal

/-- a Go `map[string]α` -/
abbrev SMap (α : Type) := String → Option α

def SMap.empty {α : Type} : SMap α := fun _ => none
def SMap.set {α : Type} (m : SMap α) (k : String) (v : α) : SMap α := fun x => if x = k then some v else m x
def SMap.del {α : Type} (m : SMap α) (k : String) : SMap α := fun x => if x = k then none else m x

abbrev ValMap := SMap String          -- map[string]string
abbrev PairMap := SMap ValMap         -- map[string]map[string]string
abbrev ColsMap := SMap PairMap        -- map[string]map[string]map[string]string

/-- state that survives a call -/
structure PState where
  colsTemp : ColsMap
  valPool : List ValMap
  pairPool : List PairMap

/-- nothing pooled, `colsTemp` empty: the state of a fresh process -/
def pristine : PState := ⟨SMap.empty, [], []⟩

/-- state during a call; `choices` = the environment's answers to the `Get`s still to come -/
structure Work where
  valPool : List ValMap
  usedVals : List ValMap
  pairPool : List PairMap
  usedPairs : List PairMap
  choices : List (Option Nat)

/-- `sync.Pool.Get`: a pooled element chosen by the environment (removed from the pool) or `New()` -/
def take {α : Type} (pool : List α) (choice : Option Nat) (fresh : α) : α × List α :=
  match choice with
  | some i => match pool[i]? with
    | some x => (x, pool.eraseIdx i)
    | none => (fresh, pool)
  | none => (fresh, pool)

/-- `marshalColumnValue` (marshaller.go:206-218) on a pooled map (`getColValue`, :57-61) -/
def marshalColumnValueP (w : Work) (cv : CV) : ValMap × Work :=
  let t := take w.valPool w.choices.head?.join SMap.empty
  let m := ((t.1.set "v" cv.value).set "t" cv.type).set "q" (if cv.quoted then "true" else "false")
  (m, { w with valPool := t.2, usedVals := w.usedVals ++ [m], choices := w.choices.tail })

/-- `marshalColumnValuePair` (marshaller.go:221-236) on a pooled map (`getColValuePair`, :78-82); `old` is written first -/
def marshalColumnValuePairP (w : Work) (newV oldV : Option CV) : PairMap × Work :=
  let t := take w.pairPool w.choices.head?.join SMap.empty
  let w1 : Work := { w with pairPool := t.2, choices := w.choices.tail }
  match oldV, newV with
  | some o, some n =>
    let a := marshalColumnValueP w1 o
    let b := marshalColumnValueP a.2 n
    let p := (t.1.set "old" a.1).set "new" b.1
    (p, { b.2 with usedPairs := b.2.usedPairs ++ [p] })
  | none, some n =>
    let b := marshalColumnValueP w1 n
    let p := t.1.set "new" b.1
    (p, { b.2 with usedPairs := b.2.usedPairs ++ [p] })
  | some o, none =>
    let a := marshalColumnValueP w1 o
    let p := t.1.set "old" a.1
    (p, { a.2 with usedPairs := a.2.usedPairs ++ [p] })
  | none, none => (SMap.empty, w)      -- `return nil`; not reached from the loop

/-- the arguments (`newValue`, `oldValue`) the loop body marshaller.go:266-293 passes to `marshalColumnValuePair` -/
def pairArgs (op : String) (noOld : Bool) (old : List (String × CV)) (kv : String × CV) : Option CV × Option CV :=
  let v := kv.2
  if op = "DELETE" then (none, some v)
  else match old.lookup kv.1 with
    | some oldV =>
      if v.value ≠ oldV.value then
        if v.value = toastMarker then
          if noOld then (some oldV, none) else (some oldV, some oldV)
        else if noOld then (some v, none) else (some v, some oldV)
      else (some v, none)
    | none => (some v, none)

/-- the loop over `msg.Pr.Columns` in the environment's iteration order -/
def loopP (op : String) (noOld : Bool) (old : List (String × CV)) :
    Work → ColsMap → List (String × CV) → ColsMap × Work
  | w, acc, [] => (acc, w)
  | w, acc, kv :: rest =>
    let a := pairArgs op noOld old kv
    let r := marshalColumnValuePairP w a.1 a.2
    loopP op noOld old r.2 (acc.set kv.1 r.1) rest

/-- what `gojson.Marshal(reusedWalEntry)` is handed: the scalar fields (all overwritten on every call,
marshaller.go:311-318) and the `columns` map -/
structure PRecord where
  time : String
  timeMs : Int
  txn : String
  lsn : String
  table : String
  operation : String
  columns : ColsMap

/-- one call of `marshalWalToJson` (marshaller.go:258-324) from state `st` -/
def marshalP (noOld : Bool) (st : PState) (choices : List (Option Nat)) (c : Change) : PRecord × PState :=
  -- :260-264 `for k := range colsTemp { delete(colsTemp, k) }`: whatever `st.colsTemp` held is gone
  let cols0 : ColsMap := SMap.empty
  let r := loopP c.operation noOld c.oldColumns ⟨st.valPool, [], st.pairPool, [], choices⟩ cols0 c.columns
  let rec_ : PRecord := ⟨timeText c, c.timeMs, c.key, formatLsn c.lsn, c.relation, c.operation, r.1⟩
  -- :321-322 clearColValues / clearColValuePairs (after the bytes were produced)
  (rec_, ⟨r.1, r.2.valPool ++ r.2.usedVals, r.2.pairPool ++ r.2.usedPairs.map fun p => (p.del "old").del "new"⟩)

/-- a stream of calls; `gcs` says before which calls the garbage collector emptied the pools -/
def runP (noOld : Bool) : PState → List (List (Option Nat) × Bool × Change) → List PRecord
  | _, [] => []
  | st, (ch, gc, c) :: rest =>
    let st1 : PState := if gc then { st with valPool := [], pairPool := [] } else st
    let r := marshalP noOld st1 ch c
    r.1 :: runP noOld r.2 rest

/-! rendering of the pure model's values as Go maps -/

def jcvMap (j : JCV) : ValMap := ((SMap.empty.set "v" j.v).set "t" j.t).set "q" j.q

def pairMap (p : Option JCV × Option JCV) : PairMap :=
  match p.1, p.2 with
  | some o, some n => (SMap.empty.set "old" (jcvMap o)).set "new" (jcvMap n)
  | none, some n => SMap.empty.set "new" (jcvMap n)
  | some o, none => SMap.empty.set "old" (jcvMap o)
  | none, none => SMap.empty

/-- the pure model's column list as the Go map it denotes -/
def colsMapOf (l : List (String × Option JCV × Option JCV)) : ColsMap :=
  l.foldl (fun acc e => acc.set e.1 (pairMap e.2)) SMap.empty

def pureRecord (noOld : Bool) (c : Change) : PRecord :=
  let e := entry noOld c
  ⟨e.time, e.timeMs, e.txn, e.lsn, e.table, e.operation, colsMapOf e.columns⟩

end PgBifrost.MarshalPool
