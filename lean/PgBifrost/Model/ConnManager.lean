/-!
# Model of `replication/client/conn/manager.go`

`getConn`: with no live connection, dial, and if replication is wanted issue START_REPLICATION
at EXACTLY the LSN passed in; with a live connection, return it (the LSN argument is ignored).
`Close` forgets the connection. `drop` is the environment closing the connection (IsClosed).
-/
namespace PgBifrost.ConnManager

inductive Conn | none | live | closed
deriving DecidableEq, Repr, Inhabited

inductive Op where
  | getRepl (lsn : Nat)     -- GetConnWithStartLsn
  | getPlain               -- GetConn
  | close                  -- Manager.Close
  | drop                   -- the peer / network closes the connection
deriving DecidableEq, Repr

inductive Out where
  | start (lsn : Nat)      -- dialled and sent START_REPLICATION at lsn
  | dial                   -- dialled, no replication
  | reuse
  | ok
deriving DecidableEq, Repr

def step (c : Conn) : Op → Conn × Out
  | .getRepl lsn => if c = .live then (.live, .reuse) else (.live, .start lsn)
  | .getPlain => if c = .live then (.live, .reuse) else (.live, .dial)
  | .close => (.none, .ok)
  | .drop => (if c = .live then .closed else c, .ok)

def run (c : Conn) (ops : List Op) : List Out :=
  match ops with
  | [] => []
  | op :: r => (step c op).2 :: run (step c op).1 r

end PgBifrost.ConnManager
