import PgBifrost.Model.Filter
import PgBifrost.Model.Partitioner
import PgBifrost.Model.Batch
/-! # The stages in front of the batcher, composed: filter ▸ partitioner ▸ marshaller

`app/runner.go` (wiring facts: `runner_wiring_as_modelled`) connects the replication client's output to the
filter, the filter to the partitioner, the partitioner to the marshaller, the marshaller to the batcher. Each
stage is a loop that handles one message at a time and forwards it in order (their models are tied to the
real stage goroutines by the `filter`, `partitioner`, `marshal` and `pipeline` components). Composed, they turn
the stream the client forwards into the stream the batcher receives:

* the filter drops the data messages whose table is not permitted (`Filter.passes`), nothing else;
* the partitioner stamps the partition key (`Partitioner.partitionKey`), a function of the message alone;
* the marshaller renders data messages (`size` = length of the JSON; rendering is C10's business) and passes
  BEGIN / COMMIT on without a payload. -/
namespace PgBifrost.Front
open PgBifrost.Batch

/-- a message as the replication client forwards it (`WalMessage`), as far as the pipeline looks at it -/
structure Recv where
  op : MOp
  rel : String            -- relation as test_decoding prints it ("" for BEGIN / COMMIT)
  relBytes : List UInt8   -- the same, as bytes (partition key for `tablename`)
  txnBytes : List UInt8   -- transaction id as bytes (partition key for `transaction` / bucket)
  txn : Nat
  key : Nat               -- delivery key
  lsn : Nat
  id : Nat                -- identity of the change (ghost)
  jsonLen : Nat           -- length of its JSON rendering
  ksize : Nat := 0
deriving Repr, Inhabited

structure Cfg where
  filter : Filter.Cfg
  /-- regexp matching, a parameter of the filter model: `mt rel i` = the i-th pattern matches `rel` -/
  mt : String → Nat → Bool
  method : Partitioner.Method
  buckets : Nat

def fop : MOp → Filter.MOp
  | .begin => .begin | .commit => .commit | .data => .data

def passes (c : Cfg) (r : Recv) : Bool := Filter.passes c.filter (c.mt r.rel) (fop r.op) r.rel

/-- partitioner ▸ marshaller for one forwarded message -/
def stamp (c : Cfg) (r : Recv) : Msg :=
  { op := r.op, pkey := Partitioner.partitionKey c.method c.buckets r.relBytes r.txnBytes,
    txn := r.txn, key := r.key, size := r.jsonLen, lsn := r.lsn, id := r.id, ksize := r.ksize }

/-- what the batcher receives for what the client forwarded -/
def front (c : Cfg) (ws : List Recv) : List Msg := (ws.filter (passes c)).map (stamp c)

end PgBifrost.Front
