/-!
# Model of the S3 worker (`transport/transporters/s3/transporter/transporter.go`) — C12

Go strings / `[]byte` are byte lists (`List UInt8`).  External things are inputs:
* the clock (`utils.TimeSource.DateString`) → `TimeParts`,
* `bytes.Buffer.Reset` / `pgzip.Writer.Reset` → `Env.reset` (the theorems assume it empties the buffer),
* gzip: the model tracks the PLAIN text that the compressed stream in `gzBuf` stands for; the length of
  the compressed stream (`zlen`) is an observed input; a sink that reads the whole stream from offset 0
  decodes the plain text, anything else is `garbage`,
* the S3 API: a script of attempts (`Att.fail n` = read `n` bytes of the body, then fail; `Att.ok` = read
  everything, succeed),
* `backoff.WithMaxRetries(_, budget)` (v4.2.1 `tries.go`).
-/
namespace PgBifrost.S3Put

abbrev Bytes := List UInt8

def slash : UInt8 := 47      -- '/'
def underscore : UInt8 := 95 -- '_'
def newline : UInt8 := 10    -- '\n'
def gzSuffix : Bytes := [46, 103, 122]  -- ".gz"

/-! ## key_join (transporter.go:55-77) -/

/-- `strings.TrimRight(str, "/")` -/
def trimRight (s : Bytes) : Bytes := (s.reverse.dropWhile (· == slash)).reverse
/-- `strings.TrimLeft(str, "/")` -/
def trimLeft (s : Bytes) : Bytes := s.dropWhile (· == slash)
/-- lines 63-64: right first, then left -/
def trim (s : Bytes) : Bytes := trimLeft (trimRight s)

/-- the `for i, str := range strs` loop, `n = len(strs)`, as the code is TODAY:
the emptiness test (line 59) comes BEFORE the trimming (63-64); the separator rule (70) looks at the
ORIGINAL index (`i != len(strs)-1`, written `i + 1 ≠ n` to stay in `Nat`). -/
def keyJoinAux (n : Nat) : Nat → List Bytes → Bytes
  | _, [] => []
  | i, s :: rest =>
    if s = [] ∨ s = [slash] then keyJoinAux n (i + 1) rest          -- `continue`
    else trim s ++ (if i + 1 ≠ n then [slash] else []) ++ keyJoinAux n (i + 1) rest

/-- `key_join(strs...)`; line 74 appends ".gz" -/
def keyJoin (parts : List Bytes) : Bytes := keyJoinAux parts.length 0 parts ++ gzSuffix

/-- `key_join` AFTER the planned fix (/root/proto/planned-fixes.patch, s3 hunk): trim first, then skip
if empty.  Not used by the driver today; switch `keyFn` below to it when the fix is committed. -/
def keyJoinFixedAux (n : Nat) : Nat → List Bytes → Bytes
  | _, [] => []
  | i, s :: rest =>
    if trim s = [] then keyJoinFixedAux n (i + 1) rest
    else trim s ++ (if i + 1 ≠ n then [slash] else []) ++ keyJoinFixedAux n (i + 1) rest

def keyJoinFixed (parts : List Bytes) : Bytes := keyJoinFixedAux parts.length 0 parts ++ gzSuffix

/-! ## decimal rendering (`fmt.Sprintf("%d", uint64)`) -/

def digitByte (d : Nat) : UInt8 := UInt8.ofNat (48 + d)

/-- decimal digits, most significant first; `fuel` only bounds the recursion (structural, so that
`decide` can evaluate it); `digits` supplies enough -/
def digitsAux : Nat → Nat → List Nat
  | 0, n => [n % 10]
  | f + 1, n => if n < 10 then [n] else digitsAux f (n / 10) ++ [n % 10]

def digits (n : Nat) : List Nat := digitsAux n n

def dec (n : Nat) : Bytes := (digits n).map digitByte

/-! ## the object key (transporter.go:239-249) -/

/-- what `TimeSource.DateString()` returned -/
structure TimeParts where
  year : Bytes
  month : Bytes
  day : Bytes
  hour : Bytes
  full : Bytes
  deriving Repr, DecidableEq

/-- `fmt.Sprintf("%s_%d", full, firstWalStart)` -/
def baseFilename (full : Bytes) (lsn : Nat) : Bytes := full ++ [underscore] ++ dec lsn

/-- `key_join(t.keySpace, year, month, day, hour, baseFilename)`, for a given `key_join` -/
def objectKeyWith (kj : List Bytes → Bytes) (ks : Bytes) (t : TimeParts) (lsn : Nat) : Bytes :=
  kj [ks, t.year, t.month, t.day, t.hour, baseFilename t.full lsn]

/-- THE key function of the code as it is today: `key_join` after the F6 fix (trim first, then
skip empty components). `keyJoin` above is the pre-fix function, kept for the witness theorem. -/
def keyFn : List Bytes → Bytes := keyJoinFixed

def objectKey (ks : Bytes) (t : TimeParts) (lsn : Nat) : Bytes := objectKeyWith keyFn ks t lsn

/-! ## compression buffer (transporter.go:93-97, 204-232) -/

structure Rec where
  lsn : Nat
  json : Bytes
  deriving Repr, DecidableEq

structure Cfg where
  keySpace : Bytes
  maxReuse : Nat     -- bufMaxReuse (the CLI only yields values ≥ 0)
  budget : Nat       -- backoff.WithMaxRetries(_, budget)
  deriving Repr

/-- library behaviour assumed by the theorems, decided by the correspondence -/
structure Env where
  /-- what `gzBuf.Reset(); gz.Reset(gzBuf)` leaves as the (plain) content of the stream -/
  reset : Bytes → Bytes

def Env.std : Env := ⟨fun _ => []⟩

/-- `bufUsedCount` and the plain text behind `gzBuf` -/
structure Buf where
  used : Nat := 0
  plain : Bytes := []
  deriving Repr, DecidableEq

/-- lines 204-217 -/
def prepare (env : Env) (maxReuse : Nat) (b : Buf) : Buf :=
  let used := b.used + 1
  if used > maxReuse then { used := 0, plain := [] }     -- bytes.NewBuffer(nil); pgzip.NewWriter
  else { used := used, plain := env.reset b.plain }     -- Reset

/-- lines 226-233: `gz.Write(msg.Json); gz.Write(newLineBytes)` per record -/
def writeAll (plain : Bytes) (recs : List Rec) : Bytes :=
  recs.foldl (fun acc r => (acc ++ r.json) ++ [newline]) plain

/-! ## upload with retry (transporter.go:251-291, backoff retry.go/tries.go) -/

inductive Att where
  | fail (n : Nat)   -- the sink reads `n` bytes of the body and fails
  | ok               -- the sink reads everything and succeeds
  deriving Repr, DecidableEq

/-- one `PutObjectWithContext` call as the sink saw it -/
structure AttRec where
  start : Nat   -- reader offset when the call began
  read : Nat    -- bytes consumed by the call
  ok : Bool
  deriving Repr, DecidableEq

/-- `backoff.Retry(operation, WithMaxRetries(_, max))`. `off` = offset of `byteReader`, `tries` =
`numTries`. A script that runs out means the sink succeeds. Returns the calls and whether one succeeded. -/
def retry (zlen max : Nat) : Nat → Nat → List Att → List AttRec × Bool
  | off, _, [] => ([⟨off, zlen - off, true⟩], true)
  | off, _, .ok :: _ => ([⟨off, zlen - off, true⟩], true)
  | off, tries, .fail n :: rest =>
    let r : AttRec := ⟨off, min n (zlen - off), false⟩
    -- line 267: byteReader.Seek(0, 0)
    let off' := 0
    -- tries.go: NextBackOff = Stop when maxTries == 0 or maxTries <= numTries
    if max ≤ tries then ([r], false)
    else
      let res := retry zlen max off' (tries + 1) rest
      (r :: res.1, res.2)

/-! ## the worker loop (StartTransporting, lines 296-365) -/

inductive Cancel where
  | none
  | early   -- TerminateCtx cancelled before/at the selects of lines 306-322
  | mid     -- cancelled after line 322 and before the check of lines 219-224
  deriving Repr, DecidableEq

inductive Outcome where
  | written | exhausted | cancelled | terminated | panic | dead
  deriving Repr, DecidableEq

structure Worker where
  buf : Buf := {}
  alive : Bool := true
  deriving Repr

structure Result where
  outcome : Outcome
  key : Option Bytes := none
  attempts : List AttRec := []
  /-- plain text the sink decodes from the successful call (`none`: it did not start at offset 0) -/
  received : Option (Option Bytes) := none
  reported : Bool := false      -- `t.txnsWritten <- genericBatch.GetTransactions()`
  terminated : Bool := false    -- worker returned: `shutdown()` cancels everything and closes txnsWritten
  deriving Repr

/-- what a sink that reads the rest of the body decodes -/
def sinkDecodes (plain : Bytes) (a : AttRec) : Option Bytes := if a.start = 0 then some plain else none

def stepWith (kj : List Bytes → Bytes) (env : Env) (cfg : Cfg) (w : Worker) (t : TimeParts) (cancel : Cancel) (zlen : Nat)
    (script : List Att) (recs : List Rec) : Worker × Result :=
  if !w.alive then (w, { outcome := .dead })
  else if cancel = .early then
    ({ w with alive := false }, { outcome := .terminated, terminated := true })
  else
    -- transportWithRetry
    let b := prepare env cfg.maxReuse w.buf
    let cancelled := cancel = .mid                       -- lines 219-224: only recorded
    let plain := writeAll b.plain recs                   -- 226-237 (gz.Close)
    let w' : Worker := { w with buf := { b with plain := plain } }
    match recs with
    | [] => ({ w' with alive := false }, { outcome := .panic, terminated := true })   -- messagesSlice[0]
    | r0 :: _ =>
      let key := objectKeyWith kj cfg.keySpace t r0.lsn
      let (atts, ok) := retry zlen cfg.budget 0 0 script
      if !ok then                                          -- "max retries exceeded"; return
        ({ w' with alive := false }, { outcome := .exhausted, key := some key, attempts := atts, terminated := true })
      else
        let recv := (atts.getLast?.map (sinkDecodes plain))
        if cancelled then                                  -- `continue`, then line 307 returns
          ({ w' with alive := false },
           { outcome := .cancelled, key := some key, attempts := atts, received := recv, terminated := true })
        else
          (w', { outcome := .written, key := some key, attempts := atts, received := recv, reported := true })

/-- the worker as the code is today (`keyFn`) -/
def step := stepWith keyFn

end PgBifrost.S3Put
