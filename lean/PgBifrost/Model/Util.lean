/-! Small parsing / printing helpers shared by the line-protocol driver (core only). -/
namespace PgBifrost.Util

def words (s : String) : List String :=
  (s.splitOn " ").filter (· ≠ "")

def hexVal (c : Char) : Option Nat :=
  if '0' ≤ c ∧ c ≤ '9' then some (c.toNat - '0'.toNat)
  else if 'a' ≤ c ∧ c ≤ 'f' then some (c.toNat - 'a'.toNat + 10)
  else if 'A' ≤ c ∧ c ≤ 'F' then some (c.toNat - 'A'.toNat + 10)
  else none

def unhexAux : List Char → List UInt8 → Option (List UInt8)
  | [], acc => some acc.reverse
  | [_], _ => none
  | a :: b :: r, acc =>
    match hexVal a, hexVal b with
    | some x, some y => unhexAux r (UInt8.ofNat (x * 16 + y) :: acc)
    | _, _ => none

/-- "e" is the empty byte string ("-" is reserved for the empty list) -/
def unhex (s : String) : Option (List UInt8) :=
  if s == "e" then some [] else unhexAux s.toList []

def hexDigit (n : Nat) : Char :=
  if n < 10 then Char.ofNat (n + '0'.toNat) else Char.ofNat (n - 10 + 'a'.toNat)

def hex (bs : List UInt8) : String :=
  if bs.isEmpty then "e" else
  String.ofList (bs.flatMap fun b => [hexDigit (b.toNat / 16), hexDigit (b.toNat % 16)])

/-- "-" is the empty list -/
def splitList (s : String) (sep : String := ",") : List String :=
  if s == "-" then [] else s.splitOn sep

def joinList (l : List String) (sep : String := ",") : String :=
  if l.isEmpty then "-" else sep.intercalate l

def nats (l : List String) : Option (List Nat) := l.mapM (·.toNat?)

end PgBifrost.Util
