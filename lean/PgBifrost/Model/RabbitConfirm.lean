/-!
# Model of the RabbitMQ worker's confirmation accounting — C13
`transport/transporters/rabbitmq/transporter/transporter.go` (transportWithRetry, setupChannel, closeHandler,
sendMessages, waitForConfirmations), as the code is TODAY (`Mode.asIs`) and after the planned repair
(/root/proto/planned-fixes.patch, rabbitmq hunks: `Mode.fixed`).

The broker and the scheduler are ONE adversary: a list of tokens, one consumed at each decision point of the
worker goroutine (`popTok`; an exhausted script means "ack, and the closeHandler runs as soon as it can"):

* D1  every `channel.Publish` call: `ack`/`nack` = accepted, gets the next delivery tag, the confirmation is
      queued behind the earlier ones (tag order per channel — the amqp contract); `err` = Publish returns an
      error; `closeCh`/`closeConn` = the publish is swallowed and the broker closes the channel (connection);
* P2  `waitForConfirmations` is entered (log "Waiting for desired confirms count");
* P3  a confirmation was received (log "received confirmation"), before it is evaluated;
* P5  `sendMessages` failed (log "Could not transport messages");   P6  the wait failed (log "err …").
  At P2…P6 only `closeCh`/`closeConn` act.  At every point the flag `h` lets the `closeHandler` goroutine
  run now (it is effective only once its channel is closed): that is the goroutine interleaving.

A close drops the confirmations the worker has not consumed yet (a delayed confirmation that never arrives);
a confirmation that arrives before a close is simply a close at a later point.  The model is deterministic
given the token list; the harness forces the same interleaving on the real goroutines (log hooks).

`t.channel`, `t.publishNotify`, `t.closeNotify` are set and cleared together and, when set, refer to the
most recently created channel; so the state keeps that channel's broker side (`Chan`) and one flag.
-/
namespace PgBifrost.RabbitConfirm

inductive Mode where
  | asIs | fixed
  deriving Repr, DecidableEq

/-- what the adversary does at a decision point -/
inductive POut where
  | ack | nack | err | closeCh | closeConn
  deriving Repr, DecidableEq

structure Tok where
  p : POut := .ack
  h : Bool := false
  deriving Repr, DecidableEq

structure Conf where
  tag : Nat
  ack : Bool
  deriving Repr, DecidableEq

/-- broker side of the most recently created channel -/
structure Chan where
  id : Nat
  tag : Nat := 0               -- delivery tags handed out so far
  pending : List Conf := []    -- confirmations sent, not yet consumed by the worker (tag order)
  closed : Bool := false
  handlerDone : Bool := false  -- its closeHandler goroutine has run its close branch
  deriving Repr, DecidableEq

/-- "no channel yet": closed, handler done -/
def Chan.none : Chan := { id := 0, closed := true, handlerDone := true }

structure St where
  chan : Chan := Chan.none
  fieldsSet : Bool := false    -- t.channel / t.publishNotify / t.closeNotify ≠ nil
  confirms : Nat := 0          -- t.channelConfirms
  nextId : Nat := 1
  connBroken : Bool := false   -- the next conn.Channel() fails (connection closed, ConnMan not yet redialled)
  alive : Bool := true
  deriving Repr, DecidableEq

inductive Ev where
  | opened (ch : Nat)
  | openFail
  | pub (ch tag msg : Nat) (o : POut)     -- `tag = 0`: none assigned
  | conf (ch tag : Nat) (ack : Bool)      -- consumed by the worker
  | close (ch : Nat)
  | handler (ch : Nat)                    -- closeHandler cleared the fields
  | wait                                  -- P2
  | fail                                  -- P5 / P6
  deriving Repr, DecidableEq

/-- an exhausted script: the broker acks and the closeHandler runs as soon as it can -/
def popTok : List Tok → Tok × List Tok
  | [] => (⟨.ack, true⟩, [])
  | t :: r => (t, r)

/-- the broker closes the channel: unconsumed confirmations are lost -/
def closeChan (st : St) (conn : Bool) : St × List Ev :=
  if st.chan.closed then (st, [])
  else ({ st with chan := { st.chan with closed := true, pending := [] }, connBroken := st.connBroken || conn },
        [.close st.chan.id])

/-- closeHandler's close branch (transporter.go:281-295).  asIs: clears the three fields unconditionally.
fixed: only if they still belong to its channel — in this state space they do whenever they are set. -/
def runHandler (st : St) : St × List Ev :=
  if st.chan.closed && !st.chan.handlerDone then
    ({ st with chan := { st.chan with handlerDone := true }, fieldsSet := false }, [.handler st.chan.id])
  else (st, [])

/-- a token at P2/P3/P5/P6 -/
def hookTok (st : St) (t : Tok) : St × List Ev :=
  let r1 := match t.p with
    | .closeCh => closeChan st false
    | .closeConn => closeChan st true
    | _ => (st, [])
  let r2 := if t.h then runHandler r1.1 else (r1.1, [])
  (r2.1, r1.2 ++ r2.2)

/-- setupChannel (246-275): `none` = `conn.Channel()` failed -/
def setup (st : St) : St × List Ev × Bool :=
  if st.fieldsSet then (st, [], true)
  else if st.connBroken then ({ st with connBroken := false }, [.openFail], false)
  else ({ st with chan := { id := st.nextId }, fieldsSet := true, confirms := 0, nextId := st.nextId + 1 },
        [.opened st.nextId], true)

/-- resetChannel of the repair: close and forget the channel if it is still the current one -/
def resetChannel (st : St) : St × List Ev :=
  if st.fieldsSet then
    let r := closeChan st false
    ({ r.1 with fieldsSet := false }, r.2)
  else (st, [])

inductive SendRes where
  | done | fail | panic
  deriving Repr, DecidableEq

/-- sendMessages (298-323); `msgs` = indices into the batch -/
def send (mode : Mode) : St → List Nat → List Tok → St × List Tok × List Ev × SendRes
  | st, [], toks => (st, toks, [], .done)
  | st, m :: ms, toks =>
    -- select { case <-t.closeNotify … default }: a nil closeNotify never fires; then t.channel (nil) panics
    if mode = .asIs ∧ st.fieldsSet = false then (st, toks, [], .panic)
    else if st.chan.closed then (st, toks, [], .fail)
    else
      let tk := popTok toks
      match tk.1.p with
      | .err => (st, tk.2, [.pub st.chan.id 0 m .err], .fail)
      | .ack | .nack =>
        let tag := st.chan.tag + 1
        let st' := { st with chan := { st.chan with tag := tag, pending := st.chan.pending ++ [⟨tag, tk.1.p = .ack⟩] } }
        let r := send mode st' ms tk.2
        (r.1, r.2.1, .pub st.chan.id tag m tk.1.p :: r.2.2.1, r.2.2.2)
      | .closeCh | .closeConn =>
        let c := closeChan st (tk.1.p = .closeConn)
        let hd := if tk.1.h then runHandler c.1 else (c.1, [])
        let r := send mode hd.1 ms tk.2
        (r.1, r.2.1, .pub st.chan.id 0 m tk.1.p :: (c.2 ++ hd.2 ++ r.2.2.1), r.2.2.2)

inductive WaitRes where
  | ok
  | fail (remaining : Nat)
  | hang      -- select on nil channels: blocks forever
  | starve    -- open channel, nothing pending (does not occur: `Proofs`)
  deriving Repr, DecidableEq

/-- the loop of waitForConfirmations (331-349); fuel ≥ pending + 1 -/
def waitLoop (mode : Mode) (desired : Nat) : Nat → St → List Tok → St × List Tok × List Ev × WaitRes
  | 0, st, toks => (st, toks, [], .starve)
  | f + 1, st, toks =>
    if desired ≤ st.confirms then (st, toks, [], .ok)
    else
      let remaining := desired - st.confirms
      if mode = .asIs ∧ st.fieldsSet = false then (st, toks, [], .hang)
      else match st.chan.pending with
        | [] => if st.chan.closed then (st, toks, [], .fail remaining) else (st, toks, [], .starve)
        | c :: rest =>
          let st1 := { st with chan := { st.chan with pending := rest } }
          let tk := popTok toks
          let hk := hookTok st1 tk.1                                   -- P3
          if c.ack = false then (hk.1, tk.2, .conf st.chan.id c.tag c.ack :: hk.2, .fail remaining)
          else
            let r := waitLoop mode desired f { hk.1 with confirms := c.tag } tk.2
            (r.1, r.2.1, .conf st.chan.id c.tag c.ack :: (hk.2 ++ r.2.2.1), r.2.2.2)

inductive AttRes where
  | ok
  | retry (msgs : List Nat)
  | hang | panic | starve
  deriving Repr, DecidableEq

/-- one run of `operation` in transportWithRetry (191-233) -/
def attempt (mode : Mode) (st : St) (msgs : List Nat) (toks : List Tok) : St × List Tok × List Ev × AttRes :=
  let su := setup st
  if su.2.2 = false then (su.1, toks, su.2.1, .retry msgs)
  else
    let sd := send mode su.1 msgs toks
    match sd.2.2.2 with
    | .panic => (sd.1, sd.2.1, su.2.1 ++ sd.2.2.1, .panic)
    | .fail =>
      let tk := popTok sd.2.1
      let hk := hookTok sd.1 tk.1                                        -- P5
      let rs := if mode = .fixed then resetChannel hk.1 else (hk.1, [])
      (rs.1, tk.2, su.2.1 ++ sd.2.2.1 ++ [.fail] ++ hk.2 ++ rs.2, .retry msgs)
    | .done =>
      let desired := msgs.length + sd.1.confirms
      let tk := popTok sd.2.1
      let hk := hookTok sd.1 tk.1                                        -- P2
      let wl := waitLoop mode desired (hk.1.chan.pending.length + 1) hk.1 tk.2
      let evs := su.2.1 ++ sd.2.2.1 ++ [.wait] ++ hk.2 ++ wl.2.2.1
      match wl.2.2.2 with
      | .ok => (wl.1, wl.2.1, evs, .ok)
      | .hang => (wl.1, wl.2.1, evs, .hang)
      | .starve => (wl.1, wl.2.1, evs, .starve)
      | .fail rem =>
        if rem > msgs.length then (wl.1, wl.2.1, evs, .panic)            -- slice out of range (does not occur)
        else
          let msgs' := if rem > 0 then msgs.drop (msgs.length - rem) else msgs
          if mode = .fixed then
            let rs := resetChannel wl.1
            let tk2 := popTok wl.2.1
            let hk2 := hookTok rs.1 tk2.1                                -- P6 (after resetChannel)
            (hk2.1, tk2.2, evs ++ rs.2 ++ [.fail] ++ hk2.2, .retry msgs')
          else
            let tk2 := popTok wl.2.1
            let hk2 := hookTok wl.1 tk2.1                                -- P6
            (hk2.1, tk2.2, evs ++ [.fail] ++ hk2.2, .retry msgs')

inductive Outcome where
  | written | exhausted | hang | panic | starve | dead
  deriving Repr, DecidableEq

/-- backoff.Retry(operation, WithMaxRetries(_, budget)); `left` = retries still allowed -/
def retryLoop (mode : Mode) : Nat → St → List Nat → List Tok → St × List Ev × Outcome
  | 0, st, msgs, toks =>
    let a := attempt mode st msgs toks
    match a.2.2.2 with
    | .ok => (a.1, a.2.2.1, .written)
    | .hang => ({ a.1 with alive := false }, a.2.2.1, .hang)
    | .panic => ({ a.1 with alive := false }, a.2.2.1, .panic)
    | .starve => ({ a.1 with alive := false }, a.2.2.1, .starve)
    | .retry _ => ({ a.1 with alive := false }, a.2.2.1, .exhausted)   -- "max retries exceeded"; worker returns
  | l + 1, st, msgs, toks =>
    let a := attempt mode st msgs toks
    match a.2.2.2 with
    | .ok => (a.1, a.2.2.1, .written)
    | .hang => ({ a.1 with alive := false }, a.2.2.1, .hang)
    | .panic => ({ a.1 with alive := false }, a.2.2.1, .panic)
    | .starve => ({ a.1 with alive := false }, a.2.2.1, .starve)
    | .retry msgs' =>
      let r := retryLoop mode l a.1 msgs' a.2.1
      (r.1, a.2.2.1 ++ r.2.1, r.2.2)

/-- one batch of `n` messages through the worker -/
def batch (mode : Mode) (budget : Nat) (st : St) (n : Nat) (toks : List Tok) : St × List Ev × Outcome :=
  if st.alive = false then (st, [], .dead)
  else retryLoop mode budget st (List.range n) toks

/-- a sequence of batches, each with its own script -/
def run (mode : Mode) (budget : Nat) : St → List (Nat × List Tok) → List (List Ev × Outcome)
  | _, [] => []
  | st, (n, toks) :: rest =>
    let r := batch mode budget st n toks
    (r.2.1, r.2.2) :: run mode budget r.1 rest

/-- routing key `<table>.<operation>` (line 308) and delivery mode amqp.Persistent = 2 (line 310) -/
def routingKey (table op : List UInt8) : List UInt8 := table ++ [46] ++ op
def deliveryMode : Nat := 2

end PgBifrost.RabbitConfirm
