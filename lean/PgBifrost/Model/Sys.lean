import PgBifrost.Model.Batcher
import PgBifrost.Model.Ledger
/-!
# The composed system (layer "Top" of C01 / C02 / C04)

A small-step, executable composition of EXISTING models (nothing here models new Go code):

* the batcher (`Batcher.step`) fed by input messages (`Act.feed`) and ticks (`Act.tick`);
* per-worker FIFO queues of dispatched batches (`queue`: one list in dispatch order, the queue of
  worker `w` is its sub-list of entries `(w, _)`; `Act.take w` lets an idle worker take its head);
* the sink's answer for the batch a worker holds: `Act.sinkAccept w` (all records of the held
  batch are appended to `sinkAccepted`, THEN the report `batch.txns` is appended to the written
  channel) or `Act.sinkRetry w` (retryable failure: nothing changes; the worker keeps the batch);
* the written channel `wchan`: one FIFO shared by the workers and the batcher's self-reports;
* the progress tracker: `Act.trackWritten` consumes the head of `wchan` (one `updateWritten` per
  entry, in order), `Act.emit` runs `emitProgress` and records the value in `acks`;
* the seen hand-over is an unbuffered rendezvous (the code: "txnsSeen MUST be an unbuffered
  channel"): the events of ONE batcher step are processed in order, a `.seen l` is applied to the
  ledger at once (one `updateSeen` per entry), a `.dispatch`/`.selfReport` is only enqueued.

A tracker panic (`updateSeen` = none) makes `ledger = none`: the system is `dead` and every
further action is a no-op.

Granularity. One batcher step (one input message or one tick) is atomic with respect to the
other actions. This loses no behaviour: within the events of one step no `.seen` follows the first
dispatch / self-report (`Proofs/SysBatcher.lean: step_shape`), so a worker or tracker action that
in reality falls between two events of a step commutes with the rest of that step. Channels are
unbounded here; the bounded channels of the code only remove schedules, so the universally
quantified theorems carry over. One written report (all entries of one batch's `txns`) is
consumed atomically, as in `ProgressTracker`'s select loop.

`trace` (= `ledgerTrace`) records the ledger operations the tracker performed; `ops`, `evs`, `accB`
are ghost history (batcher input, batcher event log, accepted batches in acceptance order).
-/
namespace PgBifrost.Sys
open PgBifrost.Batch PgBifrost.Batcher

structure Cfg where
  K : Kind
  bcfg : Batcher.Cfg

inductive Act where
  | feed (m : Msg)
  | tick (order : List PKey)
  | take (w : Nat)
  | sinkAccept (w : Nat)
  | sinkRetry (w : Nat)
  | trackWritten
  | emit
deriving Repr, Inhabited

structure SysState where
  bat : Batcher.State := {}
  queue : List (Nat × Batch) := []
  held : List (Nat × Batch) := []
  sinkAccepted : List Msg := []
  wchan : List (List TxnCount) := []
  ledger : Option Ledger.State := some {}
  acks : List Nat := []
  -- history (ghost)
  trace : List Ledger.Op := []
  ops : List Batcher.Op := []
  evs : List Ev := []
  accB : List Batch := []
deriving Repr, Inhabited

def SysState.dead (s : SysState) : Bool := s.ledger.isNone

/-- the ledger operations the tracker performed so far -/
def ledgerTrace (s : SysState) : List Ledger.Op := s.trace

/-- the tracker performs ledger operations (`none` = it panicked) -/
def ledApply (led : Option Ledger.State) (lops : List Ledger.Op) : Option Ledger.State :=
  led.bind fun l => lops.foldlM Ledger.step l

def perform (s : SysState) (lops : List Ledger.Op) : SysState :=
  { s with ledger := ledApply s.ledger lops, trace := s.trace ++ lops }

def seenOp (e : SeenE) : Ledger.Op := .seen e.txn e.key e.total e.commit true
def writtenOp (e : TxnCount) : Ledger.Op := .written e.txn e.key e.count

/-- one batcher event reaches the rest of the system -/
def applyEv (s : SysState) : Ev → SysState
  | .seen l => perform s (l.map seenOp)
  | .dispatch w b => { s with queue := s.queue ++ [(w, b)] }
  | .selfReport t => { s with wchan := s.wchan ++ [t] }
  | .stat _ => s
  | .fatal => s

def batStep (cfg : Cfg) (s : SysState) (op : Batcher.Op) : SysState :=
  let r := Batcher.step cfg.K cfg.bcfg s.bat op
  r.2.foldl applyEv { s with bat := r.1, ops := s.ops ++ [op], evs := s.evs ++ r.2 }

/-- remove the first entry of worker `w` -/
def popFirst (w : Nat) : List (Nat × Batch) → Option (Batch × List (Nat × Batch))
  | [] => none
  | p :: r =>
    if p.1 = w then some (p.2, r)
    else match popFirst w r with
      | some (b, r') => some (b, p :: r')
      | none => none

def stepLive (cfg : Cfg) (s : SysState) : Act → SysState
  | .feed m => batStep cfg s (.msg m)
  | .tick order => batStep cfg s (.tick 0 [] order)
  | .take w =>
    if s.held.any (fun p => p.1 == w) then s
    else match popFirst w s.queue with
      | some (b, q) => { s with queue := q, held := s.held ++ [(w, b)] }
      | none => s
  | .sinkAccept w =>
    match popFirst w s.held with
    | some (b, h) =>
      { s with held := h, sinkAccepted := s.sinkAccepted ++ b.payload, accB := s.accB ++ [b],
               wchan := s.wchan ++ [b.txns] }
    | none => s
  | .sinkRetry _ => s
  | .trackWritten =>
    match s.wchan with
    | [] => s
    | t :: rest => perform { s with wchan := rest } (t.map writtenOp)
  | .emit =>
    let v := match s.ledger with
      | some l => (Ledger.emitVal l).toList
      | none => []
    perform { s with acks := s.acks ++ v } [.emit]

def step (cfg : Cfg) (s : SysState) (a : Act) : SysState :=
  if s.dead then s else stepLive cfg s a

def run (cfg : Cfg) (acts : List Act) : SysState := acts.foldl (step cfg) {}

/-- the messages fed so far -/
def fedOf : Act → List Msg
  | .feed m => [m]
  | _ => []

def fedMsgs (acts : List Act) : List Msg := acts.flatMap fedOf

/-! ## the replication client's output grammar (input hypotheses)

A recogniser that is a fold over the stream, so it is prefix closed and decidable.
`cur` = the open delivery (key, txn); `used`/`usedT` = all delivery keys / transaction ids begun so
far; `last` = LSN of the last COMMIT (0 = none yet); `intr` = keys of interrupted deliveries.

Stage 1 (`redeliver = false`): deliveries are `BEGIN data* COMMIT`, contiguous; keys pairwise
distinct; transaction ids pairwise distinct (no redelivery); COMMIT LSNs strictly increasing, > 0.
Stage 2 (`redeliver = true`): additionally an open delivery may be interrupted (no COMMIT) by the
BEGIN of a new delivery (fresh key) of the SAME transaction id. -/

structure GState where
  cur : Option (Nat × Nat) := none
  used : List Nat := []
  usedT : List Nat := []
  last : Nat := 0
  intr : List Nat := []
deriving DecidableEq, Repr, Inhabited

def gstep (redeliver : Bool) (g : GState) (m : Msg) : Option GState :=
  match g.cur, m.op with
  | none, .begin =>
    if g.used.contains m.key || g.usedT.contains m.txn then none
    else some { g with cur := some (m.key, m.txn), used := m.key :: g.used, usedT := m.txn :: g.usedT }
  | some (k, t), .data => if m.key = k ∧ m.txn = t then some g else none
  | some (k, t), .commit =>
    if m.key = k ∧ m.txn = t ∧ g.last < m.lsn then some { g with cur := none, last := m.lsn } else none
  | some (k, t), .begin =>
    if redeliver && decide (m.txn = t) && !g.used.contains m.key then
      some { g with cur := some (m.key, t), used := m.key :: g.used, intr := k :: g.intr }
    else none
  | none, .data => none
  | none, .commit => none

def gscan (redeliver : Bool) (ms : List Msg) : Option GState := ms.foldlM (gstep redeliver) {}

/-- is delivery key `k` still somewhere between the batcher and the tracker? (in the `txns` of an
open batch, a queued or held batch, or a written report not yet consumed) -/
def keyInFlight (s : SysState) (k : Nat) : Bool :=
  s.bat.openB.any (fun p => p.2.txns.any (·.key == k)) ||
  s.queue.any (fun p => p.2.txns.any (·.key == k)) ||
  s.held.any (fun p => p.2.txns.any (·.key == k)) ||
  s.wchan.any (fun t => t.any (·.key == k))

/-- the check the scheduling hypothesis makes at one action: if the fed message is the BEGIN that
interrupts the open delivery `k` (a redelivery starts), nothing of `k` is in flight any more -/
def quietAt (s : SysState) (g : Option GState) : Act → Bool
  | .feed m =>
    match g with
    | some gs =>
      (match gs.cur, m.op with
        | some (k, _), .begin => !keyInFlight s k
        | _, _ => true)
    | none => true
  | _ => true

/-- grammar state after an action -/
def gnext (g : Option GState) : Act → Option GState
  | .feed m => g.bind (gstep true · m)
  | _ => g

/-- stage-2 scheduling hypothesis, as a predicate on the action list: whenever the fed message is
the BEGIN that interrupts the open delivery `k` (i.e. a redelivery starts), nothing of `k` is in
flight any more at that moment: every report mentioning `k` was consumed by the tracker and no
open batch counts records of `k`. (The recursion carries the system state and the grammar state.) -/
def redeliverQuietFrom (cfg : Cfg) : SysState → Option GState → List Act → Bool
  | _, _, [] => true
  | s, g, a :: rest => quietAt s g a && redeliverQuietFrom cfg (step cfg s a) (gnext g a) rest

def redeliverQuiet (cfg : Cfg) (acts : List Act) : Bool := redeliverQuietFrom cfg {} (some {}) acts

end PgBifrost.Sys
