/-! CRC-32 (IEEE, reflected polynomial 0xEDB88320) as `hash/crc32.ChecksumIEEE`, bitwise. -/
namespace PgBifrost.Crc32

def stepBit (c : UInt32) : UInt32 :=
  if c &&& 1 == 1 then (c >>> 1) ^^^ 0xEDB88320 else c >>> 1

def stepByte (c : UInt32) (b : UInt8) : UInt32 :=
  let c := c ^^^ b.toUInt32
  stepBit (stepBit (stepBit (stepBit (stepBit (stepBit (stepBit (stepBit c)))))))

def checksum (bs : List UInt8) : UInt32 :=
  (bs.foldl stepByte 0xFFFFFFFF) ^^^ 0xFFFFFFFF

/-- `utils.QuickHash(s, i)` = `int(crc32(s)) % i` (int is 64-bit, so the value is non-negative) -/
def quickHash (bs : List UInt8) (i : Nat) : Nat := (checksum bs).toNat % i

end PgBifrost.Crc32
