import PgBifrost.Gen.Stages
/-!
# Process model for fail-stop (C17)

Each stage loop is a goroutine whose function starts with `defer x.shutdown()`. The model:
a stage is `running`, or `stopped` (its function returned or panicked; Go then runs the deferred
`shutdown`). What `shutdown` does is read off the regenerated structural facts: it calls the
shared `CancelFunc` iff `shutdownCancels`, and a panic is contained iff `recover()` is called
directly by the deferred function. A panic that is not contained kills the whole process
(which is fail-stop as well). Once the shared context is cancelled, every stage that looks at
`Done()` at the top of its loop returns at its next iteration (`step .observe`).
-/
namespace PgBifrost.Stages
open PgBifrost.Gen.Stages

inductive Status | running | stopped
deriving DecidableEq, Repr

structure Proc where
  facts : List StageFact
  status : List (String × Status)
  cancelled : Bool := false
  crashed : Bool := false        -- an uncontained panic took the process down
deriving Repr

inductive Ev where
  | returns (stage : String)     -- unrecoverable condition: the stage function returns
  | panics (stage : String)      -- panic inside the stage function
  | observe (stage : String)     -- the stage reaches the top of its loop and looks at Done()
deriving DecidableEq, Repr

def factOf (p : Proc) (s : String) : Option StageFact := p.facts.find? (·.name == s)

def isRunning (p : Proc) (s : String) : Bool := p.status.any fun (n, st) => n == s && st == .running

def setStopped (p : Proc) (s : String) : Proc :=
  { p with status := p.status.map fun (n, st) => if n == s then (n, .stopped) else (n, st) }

/-- what the deferred `shutdown` of stage `f` does to the shared context -/
def afterShutdown (p : Proc) (f : StageFact) : Proc :=
  if f.defersShutdownFirst && f.shutdownCancels then { p with cancelled := true } else p

def step (p : Proc) : Ev → Proc
  | .returns s =>
    if isRunning p s then
      match factOf p s with
      | some f => afterShutdown (setStopped p s) f
      | none => p
    else p
  | .panics s =>
    if isRunning p s then
      match factOf p s with
      | some f =>
        let p' := afterShutdown (setStopped p s) f
        -- CancelFunc runs before recover(); without a direct recover the panic propagates
        if f.defersShutdownFirst && f.recoverDirect then p' else { p' with crashed := true }
      | none => p
    else p
  | .observe s => if p.cancelled && isRunning p s then setStopped p s else p

def run (p : Proc) (evs : List Ev) : Proc := evs.foldl step p

def init (facts : List StageFact) : Proc :=
  { facts := facts, status := facts.map fun f => (f.name, .running) }

/-- the structural facts fail-stop needs of every stage -/
def good (f : StageFact) : Bool :=
  f.defersShutdownFirst && f.shutdownCancels && f.recoverDirect && f.cancelBeforeRecover

end PgBifrost.Stages
