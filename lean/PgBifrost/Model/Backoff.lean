/-! Model of the part of `github.com/cenkalti/backoff/v4` (v4.2.1) that decides whether a retry loop ever
gives up: `ExponentialBackOff.NextBackOff` (exponential.go:114-124) and the loop of `doRetryNotify`
(retry.go:74-119) against an operation that keeps failing.

What matters (and what the defect repaired by "fix: retry policies never gave up" was about): once the
budget `MaxElapsedTime` is exceeded `NextBackOff` returns the policy's `Stop` FIELD, and the retry loop gives
up only when the value returned equals the package CONSTANT `backoff.Stop` (= -1). A struct literal that
does not set the field leaves it 0: the loop then sleeps 0 ns and calls the operation again, for ever.

Time is `Nat` nanoseconds. The randomised interval (`getRandomValueFromInterval`) is an INPUT of each step
(any value the library may draw); the interval progression itself is modelled for the deterministic case
(`RandomizationFactor = 0`, multiplier a small integer) only to compare it with the library. -/
namespace PgBifrost.Backoff

/-- the constant `backoff.Stop` (`const Stop time.Duration = -1`) -/
def stopConst : Int := -1

structure Policy where
  /-- `MaxElapsedTime` (ns); 0 = no budget ("It never stops if MaxElapsedTime == 0") -/
  maxElapsed : Nat
  /-- the `Stop` FIELD: what `NextBackOff` returns once the budget is exceeded -/
  stop : Int
deriving Repr, DecidableEq

/-- `NextBackOff`: `elapsed` = `Clock.Now() - startTime`, `next` = the randomised interval drawn for this call -/
def nextBackOff (p : Policy) (elapsed next : Nat) : Int :=
  if p.maxElapsed ≠ 0 ∧ elapsed + next > p.maxElapsed then p.stop else (next : Int)

/-- One observation of the retry loop per failed call of the operation: the elapsed time when `NextBackOff`
is called and the interval it draws. -/
abbrev Obs := Nat × Nat

/-- `doRetryNotify` against an operation that fails every time, run over a list of observations:
`some k` = gave up after the `k`-th call of the operation; `none` = still retrying when the observations end. -/
def retryFailing (p : Policy) : List Obs → Nat → Option Nat
  | [], _ => none
  | (e, n) :: rest, calls =>
    if nextBackOff p e n = stopConst then some (calls + 1) else retryFailing p rest (calls + 1)

/-- the sleep the loop performs after the `i`-th failed call (what it hands to `Timer.Start`), if it goes on -/
def sleepAfter (p : Policy) (o : Obs) : Option Int :=
  let r := nextBackOff p o.1 o.2
  if r = stopConst then none else some r

/-! ### interval progression, deterministic case (used by the correspondence with the library) -/

structure Prog where
  initial : Nat
  mult : Nat          -- integer multiplier (1, 2, 4: exact in float64)
  maxInterval : Nat
deriving Repr

/-- `incrementCurrentInterval` for an integer multiplier: `float64(cur) >= float64(max)/mult` is
`cur * mult ≥ max` (exact for the values the harness uses) -/
def incr (g : Prog) (cur : Nat) : Nat :=
  if cur * g.mult ≥ g.maxInterval then g.maxInterval else cur * g.mult

/-- state of a deterministic policy: current interval -/
structure St where
  cur : Nat
deriving Repr

def reset (g : Prog) : St := ⟨g.initial⟩

/-- one `NextBackOff` with `RandomizationFactor = 0`: the drawn interval is the current one -/
def stepDet (p : Policy) (g : Prog) (s : St) (elapsed : Nat) : St × Int :=
  (⟨incr g s.cur⟩, nextBackOff p elapsed s.cur)

end PgBifrost.Backoff
