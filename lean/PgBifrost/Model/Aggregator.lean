import PgBifrost.Gen.Stats
/-!
# Model of `stats/aggregator` (aggregator.go, aggregate.go, stats/stat.go) — property C19

State = the held buckets `Aggregator.aggregates : map[int64]map[string]*aggregate` (association
lists, Appendix D) plus two logs (what was reported, what was dropped).

Atomic steps (the environment picks any interleaving; `Run.WF` says each `add s` follows its own
`check s`):

* `check s now` — processStatsMessagesWorker, aggregator.go:168-178: bucket arithmetic and the
  UNLOCKED expiry test `isBtimeExpired(bucketTime)` with the clock reading `now`; expired → drop.
* `add s`       — aggregator.go:180-213, the closure under `muAggregates`: create bucket / create
  aggregate / update.
* `scan nows`   — reportAggregatesWorker, aggregator.go:228-250, the closure under `muAggregates`:
  every held bucket is tested with `isBtimeExpired` using ITS OWN clock reading (`nows` maps
  bucket ↦ reading; Go's map iteration order only decides the order of the output, which is
  compared as a multiset), all aggregates of expired buckets are sent (`toStats`), then these
  buckets are deleted.

Clock readings are arbitrary `Int`s chosen by the environment (not even assumed monotone).

Caveats (stated, not modelled):
* `int64` arithmetic is modelled by `Int`: no wrap-around of `value += s.Value`,
  `bucket + window + grace`. `float64(value)/float64(count)` followed by `int64(avg)` is modelled
  as `Int.tdiv value count`; this is exact whenever |value| < 2^53 (both conversions exact, the
  correctly rounded quotient cannot cross an integer because a non-integral v/c is ≥ 1/c away from
  one while half an ulp is < 1/c).
* `StatType` is an open string type in Go; `update`/`toStats` panic on anything but
  "count"/"histogram". The model has exactly these two (the only constructors,
  `NewStatCount`/`NewStatHistogram`, produce them; `Props.C19.emitted_types_known` re-checks the
  generated table).
* `aggregateTimeNano = 0` panics in Go (integer divide by zero); the production value is 60 s and
  the model is only used with `window > 0` (no theorem depends on it).
* `aggregateMaxBuckets` is stored by the Go constructor and never read: not modelled.
* the field `cov` of `Agg` is GHOST (the statistics folded into the aggregate); no model
  computation reads it, it only serves to state "the values a report covers".
-/
namespace PgBifrost.Aggregator

/-- stats.StatType restricted to its two constants (stat.go:12-15) -/
inductive StatType | count | histogram
deriving DecidableEq, Repr, Inhabited

def StatType.str : StatType → String
  | .count => Gen.Stats.statTypeCount
  | .histogram => Gen.Stats.statTypeHistogram

/-- "What we aggregate on as a unique Stat" (stat.go:21-24) -/
structure Ident where
  component : String
  name : String
  typ : StatType
  unit : String
deriving DecidableEq, Repr, Inhabited

/-- computeAggregateKey (aggregator.go:266-275): the four fields concatenated WITHOUT separator -/
def aggKey (i : Ident) : String := i.component ++ i.name ++ i.typ.str ++ i.unit

/-- stats.Stat -/
structure Stat where
  id : Ident
  value : Int
  ts : Int
deriving DecidableEq, Repr, Inhabited

def maxInt64 : Int := 9223372036854775807
def minInt64 : Int := -9223372036854775808

/-- aggregate (aggregate.go:12-28). `avg` is the pair `(avgNum, avgDen)` (value and count at the
last histogram update); `0.0` initially. `ts` is the bucket time. `cov` is ghost. -/
structure Agg where
  id : Ident
  value : Int
  count : Int
  min : Int
  max : Int
  avgNum : Int
  avgDen : Int
  ts : Int
  cov : List Stat
deriving DecidableEq, Repr

/-- newAggregate (aggregate.go:31-41) -/
def newAgg (s : Stat) (t : Int) : Agg :=
  { id := s.id, value := 0, count := 0, min := maxInt64, max := minInt64,
    avgNum := 0, avgDen := 1, ts := t, cov := [] }

/-- update (aggregate.go:84-103); the switch is on the AGGREGATE's type -/
def Agg.update (a : Agg) (s : Stat) : Agg :=
  match a.id.typ with
  | .count =>
    { a with value := a.value + s.value, count := a.count + 1, cov := a.cov ++ [s] }
  | .histogram =>
    { a with value := a.value + s.value, count := a.count + 1,
             min := if s.value < a.min then s.value else a.min,
             max := if s.value > a.max then s.value else a.max,
             avgNum := a.value + s.value, avgDen := a.count + 1,
             cov := a.cov ++ [s] }

/-- `int64(a.avg)`: truncation toward zero (see the 2^53 caveat) -/
def Agg.avgInt (a : Agg) : Int := Int.tdiv a.avgNum a.avgDen

def Ident.withSuffix (i : Ident) (sfx : String) : Ident := { i with name := i.name ++ sfx }

/-- the first stat of `toStats` -/
def Agg.mainStat (a : Agg) : Stat := ⟨a.id, a.value, a.ts⟩

/-- toStats (aggregate.go:58-81) -/
def Agg.toStats (a : Agg) : List Stat :=
  match a.id.typ with
  | .count => [a.mainStat]
  | .histogram =>
    [a.mainStat,
     ⟨a.id.withSuffix "_avg", a.avgInt, a.ts⟩,
     ⟨a.id.withSuffix "_max", a.max, a.ts⟩,
     ⟨a.id.withSuffix "_min", a.min, a.ts⟩]

structure Cfg where
  /-- aggregateTimeNano -/
  window : Int
  /-- reportGraceNano (aggregator.go:45) -/
  grace : Int := 1000000000
deriving Repr

/-- aggregator.go:170 `a.aggregateTimeNano * (s.Timestamp / a.aggregateTimeNano)`; Go's `/`
truncates toward zero -/
def bucketOf (c : Cfg) (ts : Int) : Int := c.window * Int.tdiv ts c.window

/-- isBtimeExpired (aggregator.go:278-285) with the clock reading as input -/
def expired (c : Cfg) (bucket now : Int) : Bool := decide (now > bucket + c.window + c.grace)

abbrev Bucket := List (String × Agg)

structure State where
  /-- `a.aggregates` -/
  held : List (Int × Bucket) := []
  /-- log: aggregates handed to `sendAggregate`, oldest first -/
  reports : List Agg := []
  /-- log: statistics dropped by the ingest worker, oldest first -/
  dropped : List (Stat × Int) := []
deriving Repr

inductive Op
  | check (s : Stat) (now : Int)
  | add (s : Stat)
  | scan (nows : List (Int × Int))
deriving Repr

/-- inner map: `aggregates[bucketTime][key]` present → update (aggregator.go:199-202), absent →
new aggregate + update (203-211) -/
def upsertAgg (k : String) (s : Stat) (b : Int) : Bucket → Bucket
  | [] => [(k, (newAgg s b).update s)]
  | (k', a) :: r => if k' = k then (k', a.update s) :: r else (k', a) :: upsertAgg k s b r

/-- outer map: bucket absent → new bucket with one aggregate (aggregator.go:184-196) -/
def upsertBucket (b : Int) (k : String) (s : Stat) : List (Int × Bucket) → List (Int × Bucket)
  | [] => [(b, [(k, (newAgg s b).update s)])]
  | (b', m) :: r => if b' = b then (b', upsertAgg k s b m) :: r else (b', m) :: upsertBucket b k s r

/-- the reporter's decision for one held bucket; a bucket without a reading is not evaluated
(the driver refuses such a scan; Go evaluates every held bucket) -/
def scanExpired (c : Cfg) (nows : List (Int × Int)) (b : Int) : Bool :=
  match nows.lookup b with
  | some now => expired c b now
  | none => false

def bucketAggs (m : Bucket) : List Agg := m.map (·.2)

def heldAggs (h : List (Int × Bucket)) : List Agg := h.flatMap fun p => bucketAggs p.2

def step (c : Cfg) (st : State) : Op → State
  | .check s now =>
    if expired c (bucketOf c s.ts) now then { st with dropped := st.dropped ++ [(s, now)] } else st
  | .add s => { st with held := upsertBucket (bucketOf c s.ts) (aggKey s.id) s st.held }
  | .scan nows =>
    { st with
      held := st.held.filter fun p => !scanExpired c nows p.1
      reports := st.reports ++ heldAggs (st.held.filter fun p => scanExpired c nows p.1) }

def run (c : Cfg) (st : State) (ops : List Op) : State := ops.foldl (step c) st

/-- what one scan puts on the output channel (in the model's canonical order) -/
def scanOutput (c : Cfg) (st : State) (nows : List (Int × Int)) : List Stat :=
  (heldAggs (st.held.filter fun p => scanExpired c nows p.1)).flatMap Agg.toStats

/-- Which of the three `add` arms is taken (driver coverage counter). -/
inductive AddArm | newBucket | newKey | update
deriving DecidableEq, Repr

def addArm (c : Cfg) (st : State) (s : Stat) : AddArm :=
  match st.held.lookup (bucketOf c s.ts) with
  | none => .newBucket
  | some m => match m.lookup (aggKey s.id) with
    | none => .newKey
    | some _ => .update

/-! ## Sequencing discipline of the ingest worker

The ingest goroutine is sequential: receive `s`, `check s`, then (if not dropped) `add s`, then the
next statistic. `wf p ops` holds when `ops` respects this, `p` being the statistic whose `check`
passed and whose `add` is still outstanding. -/
def wf (c : Cfg) : Option Stat → List Op → Bool
  | _, [] => true
  | p, .scan _ :: r => wf c p r
  | none, .check s now :: r => if expired c (bucketOf c s.ts) now then wf c none r else wf c (some s) r
  | some _, .check _ _ :: _ => false
  | some s, .add s' :: r => s == s' && wf c none r
  | none, .add _ :: _ => false

/-- statistics received by the ingest worker -/
def recorded : List Op → List Stat
  | [] => []
  | .check s _ :: r => s :: recorded r
  | _ :: r => recorded r

/-- statistics inserted under the lock -/
def added : List Op → List Stat
  | [] => []
  | .add s :: r => s :: added r
  | _ :: r => added r

/-- statistics dropped at their check, with the clock reading that condemned them -/
def droppedBy (c : Cfg) : List Op → List (Stat × Int)
  | [] => []
  | .check s now :: r =>
    if expired c (bucketOf c s.ts) now then (s, now) :: droppedBy c r else droppedBy c r
  | _ :: r => droppedBy c r

/-- the statistic whose check passed and whose add has not happened yet -/
def pendingAfter (c : Cfg) : Option Stat → List Op → Option Stat
  | p, [] => p
  | p, .scan _ :: r => pendingAfter c p r
  | p, .check s now :: r =>
    if expired c (bucketOf c s.ts) now then pendingAfter c p r else pendingAfter c (some s) r
  | _, .add _ :: r => pendingAfter c none r

/-- identities on which the separator-less key is injective -/
def KeyInjOn (ids : List Ident) : Prop := ∀ a ∈ ids, ∀ b ∈ ids, aggKey a = aggKey b → a = b

instance (ids : List Ident) : Decidable (KeyInjOn ids) := by unfold KeyInjOn; infer_instance

/-- a row of the generated table `Gen.Stats.emitted` as an identity -/
def ofTuple (t : String × String × String × String) : Option Ident :=
  if t.2.2.1 = Gen.Stats.statTypeCount then some ⟨t.1, t.2.1, .count, t.2.2.2⟩
  else if t.2.2.1 = Gen.Stats.statTypeHistogram then some ⟨t.1, t.2.1, .histogram, t.2.2.2⟩
  else none

/-- every statistic identity the pipeline itself emits (regenerated from source on every run) -/
def emittedIds : List Ident := Gen.Stats.emitted.filterMap ofTuple

/-- no identity is the `_avg`/`_max`/`_min` statistic derived from a histogram identity: then the
derived statistics on the output channel cannot be mistaken for another statistic's report -/
def NoDerivedClash (ids : List Ident) : Prop :=
  ∀ a ∈ ids, ∀ b ∈ ids, ∀ sfx ∈ ["_avg", "_max", "_min"], a.typ = .histogram → b ≠ a.withSuffix sfx

instance (ids : List Ident) : Decidable (NoDerivedClash ids) := by unfold NoDerivedClash; infer_instance

/-! ## Observables of a state, per (identity, window) -/

def sumBy {α} (f : α → Int) : List α → Int
  | [] => 0
  | a :: r => f a + sumBy f r

def Agg.isFor (id : Ident) (win : Int) (a : Agg) : Bool := a.id == id && a.ts == win

/-- Σ of the main values reported for `(id, win)` -/
def reportedValue (st : State) (id : Ident) (win : Int) : Int :=
  sumBy Agg.value (st.reports.filter (Agg.isFor id win))

def heldValue (st : State) (id : Ident) (win : Int) : Int :=
  sumBy Agg.value ((heldAggs st.held).filter (Agg.isFor id win))

def reportedCount (st : State) (id : Ident) (win : Int) : Int :=
  sumBy Agg.count (st.reports.filter (Agg.isFor id win))

def heldCount (st : State) (id : Ident) (win : Int) : Int :=
  sumBy Agg.count ((heldAggs st.held).filter (Agg.isFor id win))

def Stat.isFor (c : Cfg) (id : Ident) (win : Int) (s : Stat) : Bool := s.id == id && bucketOf c s.ts == win

end PgBifrost.Aggregator
