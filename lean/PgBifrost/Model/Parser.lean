/-!
# Index-faithful model of `parselogical.parse` as called by `replication.XLogDataToWalMessage`

Go strings are byte sequences and the decoder indexes them by byte, so a message is a
`List UInt8`. The model keeps the loop index `i`, `TokenStart`, and sends every Go slice
expression through `slice?`, which yields `none` (→ outcome `panic`) when it would be out of
range (and the one index expression `message[startStr]` through `index?`). Nothing is totalised
silently: panic-freedom is the theorem `Props.C09.parse_total`.

The model mirrors `parselogical.go` WITH the repair of finding F4 (bit strings `B'1010'`: the `B` is
dropped together with the quotes, see `valueTok?`).

The loop body (`switch state.Current`) is `stepC`; `loop` is the `for i := 0; i <= len(message); i++`
with the `i < TokenStart` jump; `finish` is the code after the loop; `parseGo` is one call of
`parse(preludeOnly)`; `parseIdx` is `XLogDataToWalMessage`: `ParsePrelude()` then `ParseColumns()`
on the same `ParseResult`. `parse` works on a COPY of `pr.State` (`state := pr.State`) that is never
written back, so the second call starts again from `parseStateInitial`; only the result fields
(`Relation`, `Operation`, `Transaction`, `NoTupleData`, the two maps) persist between the calls.
-/
namespace PgBifrost.Parser

abbrev Bytes := List UInt8

/-- `parselogical.go:15-36` -/
inductive PS where
  | initial | relation | operation | escId | opTruncate
  | colName | colType | openSq | colValue | colQuoted | end_ | null
deriving DecidableEq, Repr, Inhabited

/-- `ColumnValue`, `parselogical.go:42-46` -/
structure CV where
  value : Bytes
  type : Bytes
  quoted : Bool
deriving DecidableEq, Repr, Inhabited

/-- `ParseState` (the local copy `state`), `parselogical.go:48-57` -/
structure St where
  cur : PS := .initial
  prev : PS := .initial
  tokenStart : Nat := 0
  oldKey : Bool := false
  curName : Bytes := []
  curType : Bytes := []
deriving DecidableEq, Repr, Inhabited

/-- the fields of `ParseResult` that survive a call; Go maps are association lists with unique
keys (`setCol`); the driver sorts them by name for output -/
structure Res where
  transaction : Bytes := []
  relation : Bytes := []
  operation : Bytes := []
  noTuple : Bool := false
  cols : List (Bytes × CV) := []
  old : List (Bytes × CV) := []
deriving DecidableEq, Repr, Inhabited

/-- the six `errors.Errorf` sites by kind -/
inductive ErrKind where
  | tooShort         -- "message too short"                 :109
  | unknownTxnMsg    -- "unknown transaction message"       :120
  | unknownMsg       -- "unknown logical message received"  :130
  | invalidChar      -- "invalid character … at"            :161,173,210
  | invalidEndState  -- "invalid parser end State"          :286
  | nullState        -- "invalid parse State null"          :157
deriving DecidableEq, Repr, Inhabited

inductive Out where
  | ok (r : Res)
  | err (k : ErrKind)
  | panic
deriving DecidableEq, Repr, Inhabited

/-- Go slice expression `msg[a:b]`: run-time panic unless `a ≤ b ≤ len(msg)` -/
def slice? (msg : Bytes) (a b : Nat) : Option Bytes :=
  if a ≤ b ∧ b ≤ msg.length then some ((msg.take b).drop a) else none

/-- Go index expression `msg[i]`: run-time panic unless `i < len(msg)` -/
def index? (msg : Bytes) (i : Nat) : Option UInt8 := msg[i]?

/-- the cut of a column value (:224-238 of the repaired file): `startStr := TokenStart; endStr := i`;
`if quoted { if message[startStr] == 'B' { startStr++ }; startStr++; endStr-- }`; `message[startStr:endStr]`.
`none` = the index expression or the slice expression is out of range (run-time panic).
(`endStr--` on `i = 0` gives `-1` in Go, a panic; here `0 - 1 = 0 < startStr`, also `none`.)
Before the repair of F4 the `'B'` test was missing and `B'1010'` came out as `'1010`. -/
def valueTok? (msg : Bytes) (quoted : Bool) (ts i : Nat) : Option Bytes :=
  if quoted then
    match index? msg ts with
    | none => none
    | some b => slice? msg ((if b = 66 then ts + 1 else ts) + 1) (i - 1)
  else slice? msg ts i

/-- `chr := byte('\000'); if i < len(message) { chr = message[i] }` (:145-153) -/
def chrAt (msg : Bytes) (i : Nat) : UInt8 := msg.getD i 0

/-- `strings.Replace(s, "''", "'", -1)`: non-overlapping, left to right -/
def unescapeQuotes : Bytes → Bytes
  | 39 :: 39 :: r => 39 :: unescapeQuotes r
  | c :: r => c :: unescapeQuotes r
  | [] => []

/-- `m[k] = v` on a Go map -/
def setCol (l : List (Bytes × CV)) (k : Bytes) (v : CV) : List (Bytes × CV) :=
  (l.filter (fun p => p.1 != k)) ++ [(k, v)]

/-- `if state.OldKey { pr.OldColumns[name] = cv } else { pr.Columns[name] = cv }` (:237-241) -/
def addCol (res : Res) (oldKey : Bool) (k : Bytes) (v : CV) : Res :=
  if oldKey then { res with old := setCol res.old k v } else { res with cols := setCol res.cols k v }

-- literals compared against by the decoder
def bBEGIN : Bytes := [66, 69, 71, 73, 78]
def bCOMMI : Bytes := [67, 79, 77, 77, 73]
def bTable : Bytes := [116, 97, 98, 108, 101]
def bTRUNCATE : Bytes := [84, 82, 85, 78, 67, 65, 84, 69]
def bOldKey : Bytes := [111, 108, 100, 45, 107, 101, 121]
def bNewTuple : Bytes := [110, 101, 119, 45, 116, 117, 112, 108, 101]
def bNoTupleData : Bytes := [40, 110, 111, 45, 116, 117, 112, 108, 101, 45, 100, 97, 116, 97, 41]

/-- the code after the loop (:281-289) -/
def finish (preludeOnly : Bool) (st : St) (res : Res) : Out :=
  if st.cur = .opTruncate then .ok res
  else if (preludeOnly && st.cur != .colName) || (!preludeOnly && st.cur != .end_) then .err .invalidEndState
  else .ok res

/-- result of one pass through the loop body -/
inductive StepR where
  /-- fall out of the `switch`; `skip` is the extra `i++` of the doubled-quote branches -/
  | cont (skip : Bool) (st : St) (res : Res)
  /-- `return err`, `break outer` (→ `finish`), or a slice out of range -/
  | done (o : Out)
deriving Repr, Inhabited

def enter (st : St) (s : PS) : St := { st with prev := st.cur, cur := s }

/-- the `switch state.Current` (:155-278) for index `i`, `chr = message[i]`/NUL, `nxt = message[i+1]`/NUL -/
def stepC (msg : Bytes) (p : Bool) (i : Nat) (chr nxt : UInt8) (st : St) (res : Res) : StepR :=
  match st.cur with
  | .null => .done (.err .nullState)                                                      -- :156
  | .relation =>                                                                          -- :158
    if chr = 58 then
      if nxt ≠ 32 then .done (.err .invalidChar) else
      match slice? msg st.tokenStart i with
      | none => .done .panic
      | some tok => .cont false { st with tokenStart := i + 2, cur := .operation } { res with relation := tok }
    else if chr = 34 then .cont false (enter st .escId) res
    else .cont false st res
  | .operation =>                                                                         -- :170
    if chr = 58 then
      if nxt ≠ 32 then .done (.err .invalidChar) else
      match slice? msg st.tokenStart i with
      | none => .done .panic
      | some tok =>
        if tok = bTRUNCATE then .done (finish p { st with cur := .opTruncate } { res with operation := tok })
        else if p then .done (finish p { st with tokenStart := i + 2, cur := .colName } { res with operation := tok })
        else .cont false { st with tokenStart := i + 2, cur := .colName } { res with operation := tok }
    else .cont false st res
  | .colName =>                                                                           -- :188
    if chr = 91 then
      match slice? msg st.tokenStart i with
      | none => .done .panic
      | some tok => .cont false { st with curName := tok, tokenStart := i + 1, cur := .colType } res
    else if chr = 58 then
      match slice? msg st.tokenStart i with
      | none => .done .panic
      | some tok =>
        .cont false { st with oldKey := if tok = bOldKey then true else if tok = bNewTuple then false else st.oldKey,
                              tokenStart := i + 2 } res
    else if chr = 40 then
      match slice? msg st.tokenStart msg.length with
      | none => .done .panic
      | some rest =>
        if rest = bNoTupleData then .cont false { st with cur := .end_ } { res with noTuple := true }
        else .cont false st res
    else if chr = 34 then .cont false (enter st .escId) res
    else .cont false st res
  | .colType =>                                                                           -- :207
    if chr = 93 then
      if nxt ≠ 58 then .done (.err .invalidChar) else
      match slice? msg st.tokenStart i with
      | none => .done .panic
      | some tok => .cont false { st with curType := tok, tokenStart := i + 2, cur := .colValue } res
    else if chr = 34 then .cont false (enter st .escId) res
    else if chr = 91 then .cont false (enter st .openSq) res
    else .cont false st res
  | .colValue =>                                                                          -- :222
    if chr = 0 ∨ chr = 32 then
      let quoted : Bool := st.prev = .colQuoted
      match valueTok? msg quoted st.tokenStart i with
      | none => .done .panic
      | some tok =>
        let res' := addCol res st.oldKey st.curName { value := unescapeQuotes tok, type := st.curType, quoted := quoted }
        if chr = 0 then .cont false { st with cur := .end_ } res'
        else .cont false { st with tokenStart := i + 1, prev := st.cur, cur := .colName } res'
    else if chr = 39 then .cont false (enter st .colQuoted) res
    else .cont false st res
  | .openSq =>                                                                            -- :254
    if chr = 93 then .cont false { st with cur := st.prev, prev := .null } res
    else .cont false st res
  | .escId =>                                                                             -- :259
    if chr = 34 then
      if nxt = 34 then .cont true st res
      else .cont false { st with cur := st.prev, prev := .null } res
    else .cont false st res
  | .colQuoted =>                                                                         -- :268
    if chr = 39 then
      if nxt = 39 then .cont true st res
      else .cont false { st with prev := st.cur, cur := st.prev } res
    else .cont false st res
  | _ => .cont false st res                        -- initial / opTruncate / end_: no case in the switch

def step (msg : Bytes) (p : Bool) (i : Nat) (st : St) (res : Res) : StepR :=
  stepC msg p i (chrAt msg i) (chrAt msg (i + 1)) st res

/-- the `for i := 0; i <= len(message); i++` loop (:139-279) started at index `i` -/
def loop (msg : Bytes) (p : Bool) (i : Nat) (st : St) (res : Res) : Out :=
  if _h : i ≤ msg.length then
    if _hts : i < st.tokenStart then
      loop msg p st.tokenStart st res                -- `i = state.TokenStart - 1; continue` (then `i++`)
    else
      match step msg p i st res with
      | .cont skip st' res' => loop msg p (if skip then i + 2 else i + 1) st' res'
      | .done o => o
  else finish p st res
termination_by msg.length + 1 - i
decreasing_by all_goals (try split) <;> omega

/-! ### `strings.Fields`

`strings.Fields` splits around runs of Unicode white space (`unicode.IsSpace`) after decoding the
string as UTF-8 (invalid bytes decode to U+FFFD, width 1, not a space). The white-space runes are
U+0009–U+000D, U+0020, U+0085, U+00A0, U+1680, U+2000–U+200A, U+2028, U+2029, U+202F, U+205F,
U+3000. Their encodings all start with a byte `< 0x80` or a lead byte `0xC2/0xE1/0xE2/0xE3`; a lead
byte is never a continuation byte (`0x80–0xBF`), so the first byte of such an encoding can never be
consumed as the tail of an earlier (valid or invalid) sequence: every occurrence of one of these
byte patterns is decoded as that white-space rune, and no other byte sequence decodes to one. So
matching the byte patterns at every position is exactly Go's behaviour for ARBITRARY bytes (no
restriction to valid UTF-8 is needed; the harness exercises malformed neighbourhoods). -/

/-- byte length of the white-space rune at the head of `b`, `0` if there is none -/
def spaceLen (b : Bytes) : Nat :=
  let c := b.getD 0 0
  let d := b.getD 1 0
  let e := b.getD 2 0
  if b.length ≥ 1 ∧ (c = 9 ∨ c = 10 ∨ c = 11 ∨ c = 12 ∨ c = 13 ∨ c = 32) then 1
  else if b.length ≥ 2 ∧ c = 0xC2 ∧ (d = 0x85 ∨ d = 0xA0) then 2
  else if b.length ≥ 3 ∧ c = 0xE1 ∧ d = 0x9A ∧ e = 0x80 then 3
  else if b.length ≥ 3 ∧ c = 0xE2 ∧ d = 0x80 ∧ ((0x80 ≤ e ∧ e ≤ 0x8A) ∨ e = 0xA8 ∨ e = 0xA9 ∨ e = 0xAF) then 3
  else if b.length ≥ 3 ∧ c = 0xE2 ∧ d = 0x81 ∧ e = 0x9F then 3
  else if b.length ≥ 3 ∧ c = 0xE3 ∧ d = 0x80 ∧ e = 0x80 then 3
  else 0

def flushField (cur : Bytes) : List Bytes := if cur.isEmpty then [] else [cur.reverse]

/-- `skip` = bytes of the current white-space rune still to drop; `cur` = field so far, reversed -/
def fieldsGo : Bytes → Nat → Bytes → List Bytes
  | [], _, cur => flushField cur
  | _ :: r, skip + 1, cur => fieldsGo r skip cur
  | c :: r, 0, cur =>
    if spaceLen (c :: r) = 0 then fieldsGo r 0 (c :: cur)
    else flushField cur ++ fieldsGo r (spaceLen (c :: r) - 1) []

def fields (b : Bytes) : List Bytes := fieldsGo b 0 []

/-- one call `pr.parse(preludeOnly)` on a `ParseResult` whose persistent fields are `res` (:103-290) -/
def parseGo (msg : Bytes) (p : Bool) (res : Res) : Out :=
  if msg.length < 5 then .err .tooShort else
  match slice? msg 0 5 with
  | none => .panic
  | some pre =>
    if pre = bBEGIN ∨ pre = bCOMMI then
      match fields msg with
      | [op, txn] => .ok { res with operation := op, transaction := txn }
      | _ => .err .unknownTxnMsg
    else if pre = bTable then
      loop msg p 0 { cur := .relation, tokenStart := 6 } res
    else .err .unknownMsg

/-- `XLogDataToWalMessage` (`replication/message.go:36-63`): `NewParseResult`, `ParsePrelude`, `ParseColumns` -/
def parseIdx (msg : Bytes) : Out :=
  match parseGo msg true {} with
  | .ok r => parseGo msg false r
  | o => o

end PgBifrost.Parser
