/-!
# Batch models: `transport/batch/generic_batch.go`, `kinesis/batch/batch.go`,
`kafka/batch/batch.go`, and `progress/utils.go: UpdateTransactions`

A message carries what the batcher and the batches look at. `id` is a harness-assigned unique
number (so payloads can be compared); `ksize` is sarama's `ProducerMessage.ByteSize(2)` as
measured by the harness on the real message (input to the Kafka kind only).
-/
namespace PgBifrost.Batch

abbrev PKey := List UInt8

inductive MOp | begin | commit | data
deriving DecidableEq, Repr, Inhabited

structure Msg where
  op : MOp
  pkey : PKey
  txn : Nat
  key : Nat          -- delivery (time based) key
  size : Nat         -- len(Json)
  lsn : Nat
  id : Nat
  ksize : Nat := 0
deriving DecidableEq, Repr, Inhabited

/-- one entry of a batch's `transactions` ordered map -/
structure TxnCount where
  key : Nat
  txn : Nat
  count : Nat
deriving DecidableEq, Repr, Inhabited

/-- `progress.UpdateTransactions` -/
def updateTxns (txns : List TxnCount) (m : Msg) : List TxnCount :=
  if txns.any (·.key == m.key) then
    txns.map fun e => if e.key == m.key then { e with count := e.count + 1 } else e
  else txns ++ [⟨m.key, m.txn, 1⟩]

structure Batch where
  pkey : PKey
  payload : List Msg := []
  bytes : Nat := 0
  txns : List TxnCount := []
deriving DecidableEq, Repr, Inhabited

def fresh (pk : PKey) : Batch := { pkey := pk }

inductive AddRes | ok | full | cantFit | tooBig | invalid
deriving DecidableEq, Repr, Inhabited

/-- what the batcher uses of a batch implementation -/
structure Kind where
  add : Batch → Msg → AddRes × Batch
  isFull : Batch → Bool

def Batch.isEmpty (b : Batch) : Bool := b.payload.isEmpty

/-- generic batch (S3 / RabbitMQ / stdout): count limit only; `Add` answers "batch is full"
when `len == maxSize` (the batcher treats that answer as fatal) -/
def genericKind (maxSize : Nat) : Kind where
  add b m :=
    if b.payload.length == maxSize then (.full, b)
    else (.ok, { b with payload := b.payload ++ [m], bytes := b.bytes + m.size, txns := updateTxns b.txns m })
  isFull b := decide (maxSize ≤ b.payload.length)

/-- number of decimal digits of `n` (`fmt.Sprintf("%v", uint64)`) -/
def decLen (n : Nat) : Nat := (Nat.toDigits 10 n).length

inductive KinesisMethod | walStart | batch
deriving DecidableEq, Repr, Inhabited

/-- length of the Kinesis partition key chosen for a record -/
def kinesisKeyLen (meth : KinesisMethod) (m : Msg) : Nat :=
  match meth with
  | .walStart => decLen m.lsn
  | .batch => m.pkey.length

/-- Kinesis batch; the checks are in the order of `KinesisBatch.Add`. `Validate` of the aws
sdk fails exactly when the partition key is empty (Data is never nil for a data message). -/
def kinesisKind (maxRecords maxBatch maxRecord : Nat) (meth : KinesisMethod) : Kind where
  add b m :=
    if maxRecord < m.size then (.tooBig, { b with txns := updateTxns b.txns m })
    else if maxRecords ≤ b.payload.length then (.full, b)
    else
      let rs := m.size + kinesisKeyLen meth m
      if maxBatch < rs + b.bytes then (.cantFit, b)
      else if kinesisKeyLen meth m == 0 then (.invalid, b)
      else (.ok, { b with payload := b.payload ++ [m], bytes := b.bytes + rs, txns := updateTxns b.txns m })
  isFull b := decide (maxRecords ≤ b.payload.length)

/-- Kafka batch -/
def kafkaKind (maxSize maxBytes : Nat) : Kind where
  add b m :=
    if b.payload.length == maxSize then (.full, b)
    else if maxBytes < m.ksize then (.tooBig, { b with txns := updateTxns b.txns m })
    else (.ok, { b with payload := b.payload ++ [m], bytes := b.bytes + m.size, txns := updateTxns b.txns m })
  isFull b := decide (maxSize ≤ b.payload.length)

/-- when `Add` refreshes the batch's modify time (`mtime`, input of the idle-age flush rule of
`handleTicker`): exactly when a record was appended. A dropped (too big), refused or invalid
record leaves it alone; the create time never changes. -/
def touchesMtime (r : AddRes) : Bool := r == .ok

end PgBifrost.Batch
