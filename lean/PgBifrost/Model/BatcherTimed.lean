import PgBifrost.Model.Batcher
/-! # The batcher in logical time (C16: flush by age)

`Model/Batcher.lean` takes the batches' create/modify times at a tick as INPUTS (the harness observes them on
the real batches). This layer adds the clock: every loop iteration carries the clock reading at which it runs,
and the layer keeps, per open partition key, the times the real batches would hold:

* a batch is created (`NewBatch`: `createTime = modifyTime = now`) when the key has no open batch, when the open
  batch is full and is replaced, and when `Add` answers can't-fit (the batch is sent and a new one made);
* `Add` moves the modify time exactly when it answers ok (`Batch.touchesMtime`).

The tick decision is then taken on the layer's OWN times. `ok` records the assumptions made of a run: the clock
never goes backwards, and every tick flushes a `validTick` order (any Go map / heap order). -/
namespace PgBifrost.BatcherTimed
open PgBifrost.Batch PgBifrost.Batcher

def setTimes : List BTimes → BTimes → List BTimes
  | [], e => [e]
  | x :: r, e => if x.pkey == e.pkey then e :: r else x :: setTimes r e

/-- the times of `m`'s partition key after the loop iteration for `m` at clock reading `t` -/
def msgEntry (K : Kind) (s : State) (times : List BTimes) (m : Msg) (t : Int) : BTimes :=
  let had := getOpen s m.pkey
  let cur := had.getD (fresh m.pkey)
  let new1 := had.isNone || K.isFull cur
  let cur1 := if K.isFull cur then fresh m.pkey else cur
  let old := (timesOf times m.pkey).getD ⟨m.pkey, t, t⟩
  let base : BTimes := if new1 then ⟨m.pkey, t, t⟩ else old
  if m.op != .data then base
  else match (K.add cur1 m).1 with
    | .ok => { base with mtime := t }
    | .cantFit => ⟨m.pkey, t, t⟩
    | _ => base

structure TState where
  s : State
  times : List BTimes := []
  lastTick : Int
  clock : Int
  ok : Bool := true

inductive TOp where
  | msg (m : Msg) (t : Int)
  | tick (now : Int) (order : List PKey)
deriving Inhabited

def tinit (s0 : State) (t0 : Int) : TState := { s := s0, lastTick := t0, clock := t0 }

def tstep (K : Kind) (cfg : Cfg) (ts : TState) : TOp → TState × List Ev
  | .msg m t =>
    if ts.s.dead then (ts, [])
    else
      ({ ts with s := (onMsg K cfg ts.s m).1, times := setTimes ts.times (msgEntry K ts.s ts.times m t),
                 clock := t, ok := ts.ok && decide (ts.clock ≤ t) },
       (onMsg K cfg ts.s m).2)
  | .tick now order =>
    if ts.s.dead then (ts, [])
    else
      ({ ts with s := (onTick cfg ts.s order).1, lastTick := now, clock := now,
                 ok := ts.ok && decide (ts.clock ≤ now) && validTick K cfg now ts.s ts.times order },
       (onTick cfg ts.s order).2)

def trun (K : Kind) (cfg : Cfg) (ts : TState) (ops : List TOp) : TState :=
  ops.foldl (fun a o => (tstep K cfg a o).1) ts

end PgBifrost.BatcherTimed
