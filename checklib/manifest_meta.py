HOOK_COMMITS = ["4a5d5ec", "354857d", "e9ccdd0"]
NOT_CLAIMED = {}
META = {
    "C01": {
        "text": "Kernel-checked theorem (unbounded induction over ledger traces): under the trace contract E1-E3 and NoStale, "
                "whenever the ledger emits v every real delivery committed at or before v is completely written. The ledger "
                "model is tied to transport/progress by differential correspondence through the verif hook (every emitted value "
                "and ordered snapshot compared), and the same contract/safety predicates are evaluated in Lean on the real "
                "code's histories as the violation search. Full statement is false on the unchanged tree (finding F1, recorded).",
        "note": "Trusted: Lean kernel (+propext, Classical.choice, Quot.sound), the correspondence harness and its generators, "
                "ordered_map semantics as modelled. Layers above the ledger (batcher contract, workers, client) are separate "
                "obligations; see evidence.partial.",
        "technique": "Lean 4 invariant proof over ledger traces + differential correspondence + Lean-evaluated monitors",
    },
}
