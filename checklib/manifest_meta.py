HOOK_COMMITS = ["4a5d5ec", "354857d", "e9ccdd0"]
NOT_CLAIMED = {}
META = {
    "C01": {
        "text": "Kernel-checked theorem (unbounded induction over ledger traces): under the trace contract E1-E3 and NoStale, "
                "whenever the ledger emits v every real delivery committed at or before v is completely written. The ledger "
                "model is tied to transport/progress by differential correspondence through the verif hook (every emitted value "
                "and ordered snapshot compared), and the same contract/safety predicates are evaluated in Lean on the real "
                "code's histories as the violation search. Full statement is false on the unchanged tree (finding F1, recorded).",
        "note": "Trusted: Lean kernel (+propext, Classical.choice, Quot.sound), the correspondence harness and its generators, "
                "ordered_map semantics as modelled. Layers above the ledger (batcher contract, workers, client) are separate "
                "obligations; see evidence.partial.",
        "technique": "Lean 4 invariant proof over ledger traces + differential correspondence + Lean-evaluated monitors",
    },
    "C02": {
        "text": "Kernel-checked quiescence theorem (unbounded, by invariants over ledger traces): under the contract and NoStale, "
                "if every committed delivery is completely written and every interrupted delivery was superseded, one final emit "
                "empties the ledger and reports the largest commit; the tracker never panics on such traces. Tied to the real "
                "ledger by correspondence; the drain predicate is evaluated in Lean on the real code's histories.",
        "note": "Trusted: as C01. Full statement false on the unchanged tree (F1, recorded as a known finding).",
        "technique": "Lean 4 invariant/quiescence proof over ledger traces + differential correspondence + Lean-evaluated monitors",
    },
    "C06": {
        "text": "Kernel-checked theorems: the partition key is a function of (relation, transaction id) only; per method it is the "
                "transaction id / the decimal of crc32(txn) mod buckets (< buckets, equal for equal txn) / the relation / the empty key; "
                "the Kinesis record key is the batch key when partitioning is on and the record's LSN otherwise; name tables and the "
                "Kinesis factory decision are regenerated from source and compared by decide. That every batch holds exactly one "
                "partition key is the master batcher theorem (C04 batch_single_key). Partitioner stage, crc32 and the batcher with "
                "real Kinesis batches (record keys observed) are tied by differential correspondence.",
        "note": "Trusted: Lean kernel, factgen, harness; hash/crc32 is re-implemented in Lean and compared on random inputs.",
        "technique": "Lean 4 decision-logic theorems + regenerated tables (decide) + differential correspondence",
    },
    "C08": {
        "text": "Kernel-checked theorems: filter_iff (the stage forwards a message iff it is a BEGIN/COMMIT marker or its table is "
                "permitted, for every configuration and every regexp oracle) and cli_filter_correct, which is about the if/else "
                "fragment of main.go translated to Lean by tools/factgen on every run (so the theorem is re-checked against what "
                "the source says now): with at most one option given, the pipeline's decision equals the user's intent. The filter "
                "stage model is tied to filter.go by differential correspondence on the real stage goroutine.",
        "note": "Trusted: Lean kernel, factgen's statement subset (fails loudly outside it), Go regexp as the match oracle, the "
                "harness. The flag parsing of gopkg.in/Nextdoor/cli.v1 itself is not modelled.",
        "technique": "Lean 4 theorem over a regenerated (Go AST -> Lean) fragment + decision-table theorem + differential correspondence",
    },
}
