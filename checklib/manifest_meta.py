HOOK_COMMITS = ["4a5d5ec", "354857d", "e9ccdd0", "ed88e47", "f886bcb", "8592605"]
NOT_CLAIMED = {}
META = {
    "C01": {
        "text": "Kernel-checked theorem (unbounded induction over ledger traces): under the trace contract E1-E3 and NoStale, "
                "whenever the ledger emits v every real delivery committed at or before v is completely written. The ledger "
                "model is tied to transport/progress by differential correspondence through the verif hook (every emitted value "
                "and ordered snapshot compared), and the same contract/safety predicates are evaluated in Lean on the real "
                "code's histories as the violation search. Full statement is false on the unchanged tree (finding F1, recorded).",
        "note": "Trusted: Lean kernel (+propext, Classical.choice, Quot.sound), the correspondence harness and its generators, "
                "ordered_map semantics as modelled. Layers above the ledger (batcher contract, workers, client) are separate "
                "obligations; see evidence.partial.",
        "technique": "Lean 4 invariant proof over ledger traces + differential correspondence + Lean-evaluated monitors",
    },
    "C02": {
        "text": "Kernel-checked quiescence theorem (unbounded, by invariants over ledger traces): under the contract and NoStale, "
                "if every committed delivery is completely written and every interrupted delivery was superseded, one final emit "
                "empties the ledger and reports the largest commit; the tracker never panics on such traces. Tied to the real "
                "ledger by correspondence; the drain predicate is evaluated in Lean on the real code's histories.",
        "note": "Trusted: as C01. Full statement false on the unchanged tree (F1, recorded as a known finding).",
        "technique": "Lean 4 invariant/quiescence proof over ledger traces + differential correspondence + Lean-evaluated monitors",
    },
    "C06": {
        "text": "Kernel-checked theorems: the partition key is a function of (relation, transaction id) only; per method it is the "
                "transaction id / the decimal of crc32(txn) mod buckets (< buckets, equal for equal txn) / the relation / the empty key; "
                "the Kinesis record key is the batch key when partitioning is on and the record's LSN otherwise; name tables and the "
                "Kinesis factory decision are regenerated from source and compared by decide. That every batch holds exactly one "
                "partition key is the master batcher theorem (C04 batch_single_key). Partitioner stage, crc32 and the batcher with "
                "real Kinesis batches (record keys observed) are tied by differential correspondence.",
        "note": "Trusted: Lean kernel, factgen, harness; hash/crc32 is re-implemented in Lean and compared on random inputs.",
        "technique": "Lean 4 decision-logic theorems + regenerated tables (decide) + differential correspondence",
    },
    "C08": {
        "text": "Kernel-checked theorems: filter_iff (the stage forwards a message iff it is a BEGIN/COMMIT marker or its table is "
                "permitted, for every configuration and every regexp oracle) and cli_filter_correct, which is about the if/else "
                "fragment of main.go translated to Lean by tools/factgen on every run (so the theorem is re-checked against what "
                "the source says now): with at most one option given, the pipeline's decision equals the user's intent. The filter "
                "stage model is tied to filter.go by differential correspondence on the real stage goroutine.",
        "note": "Trusted: Lean kernel, factgen's statement subset (fails loudly outside it), Go regexp as the match oracle, the "
                "harness. The flag parsing of gopkg.in/Nextdoor/cli.v1 itself is not modelled.",
        "technique": "Lean 4 theorem over a regenerated (Go AST -> Lean) fragment + decision-table theorem + differential correspondence",
    },
    "C03": {
        "text": "Kernel-checked theorems over ALL event lists of the client model: status positions never decrease, each is the running maximum of the session's initial position and the ledger values fed so far (never a position taken from received data), every (re)start of replication requests the largest COMMIT received (or the IdentifySystem position right after error recovery); the write sites of the acknowledgement state are regenerated from client.go and compared by decide. The model is tied to the real Replicator goroutine by differential correspondence against scripted connection fakes.",
        "note": 'Trusted: Lean kernel, factgen, harness fakes for conn.Manager/Conn; connection errors and cancellation are not modelled.',
        "technique": 'Lean 4 invariant proofs over client event traces + regenerated write-site facts + differential correspondence',
    },
    "C04": {
        "text": 'Kernel-checked master batcher theorem (unbounded induction over message/tick sequences, any flush order, any batch kind satisfying laws proved for the generic, Kinesis and Kafka batches): per partition key, dispatched payloads followed by the open batch are exactly the accepted input records in order; every batch has one key; per-batch and global transaction-count accounting; the batcher never takes its fatal branch. Batcher and batches are tied to the code by stepping the real StartBatching goroutine; the end-to-end multiset claim is judged on the assembled real stages by Lean-evaluated monitors.',
        "note": 'Trusted: Lean kernel, harness (parking context, fakes), Go map/heap order as explicit inputs. Composition with filter/partitioner/marshaller/workers is monitored on real runs, not one composed theorem.',
        "technique": 'Lean 4 refinement/invariant proof over the batcher model + differential correspondence + Lean-evaluated end-to-end monitors',
    },
    "C05": {
        "text": "Kernel-checked corollaries of the master batcher theorem: batch payloads are sublists of the input in order; with partition routing every batch of a key goes to worker crc32(key) mod workers and the batches handed to that worker carry the key's records in delivery order; with one worker and one key the whole stream is in order. crc32 is implemented in Lean and compared with hash/crc32.",
        "note": 'Trusted: as C04; worker sequentiality and channel FIFO are the Go runtime (observed by the pipeline monitor at the sink fakes).',
        "technique": 'Lean 4 theorems over the batcher model + differential correspondence + end-to-end order monitor',
    },
    "C07": {
        "text": 'Kernel-checked theorems over all event lists: every forwarded message carries the transaction and delivery key of the latest forwarded BEGIN, keys of different BEGINs differ (decimal rendering proved injective), at most one COMMIT per key, a BEGIN without preceding COMMIT is dropped, the connection closed and the stream re-requested from the last COMMIT. Tied to the real client by differential correspondence (observed key nanoseconds fed to the model).',
        "note": 'Trusted: as C03; PG-stream grammar and strictly increasing clock per transaction id are hypotheses.',
        "technique": 'Lean 4 invariant proofs over client event traces + differential correspondence',
    },
    "C09": {
        "text": "Kernel-checked theorems about an index-faithful model of parselogical.parse (every Go slice expression can fail in the model): parse_total - no input makes a slice go out of range, termination is the well-founded recursion - and the round trip parse (render m) = view m for every well-formed change of a Lean specification of test_decoding's output grammar. Model tied to the code by differential correspondence on rendered, mutated and raw inputs; the Go generator's encoder is cross-checked against the Lean render on every generated change.",
        "note": 'Trusted: Lean kernel, harness, TestDecoding.render as a faithful description of contrib/test_decoding (written from its source).',
        "technique": 'Lean 4 round-trip and totality proofs over a byte-level parser model + differential correspondence',
    },
    "C10": {
        "text": 'Kernel-checked theorems: the column decision table (DELETE old only; old next to new only where changed and enabled; unchanged TOAST shows the previous value), header fields copied unchanged, LSN hi/lo hex formatting round-trips for all x < 2^64, and a pool-level model showing that pooled maps/colsTemp/buffers cannot leak between calls. Tied to the real Marshaller goroutine by correspondence on sequences of changing shapes with forced pool eviction and a shuffled re-run; outputs parsed back with encoding/json.',
        "note": 'Trusted: Lean kernel, harness, goccy/go-json encoding, Go time formatting. Full table is false at one literal (F5, recorded).',
        "technique": 'Lean 4 decision-table and round-trip proofs + differential correspondence over message sequences',
    },
    "C11": {
        "text": 'Kernel-checked theorems over all outcome sequences: written implies every record was accepted in some call (under the AWS response contract, shown necessary by a witness), each retry carries exactly the failed records in order (in-place compaction proved equal to filtering), nothing is reported on give-up or cancellation. Tied to the real KinesisTransporter by correspondence with a scripted KinesisAPI (failure subsets enumerated exhaustively for small batches in the thorough tier).',
        "note": "Trusted: Lean kernel, harness fake, cenkalti/backoff as 'n+1 calls'.",
        "technique": 'Lean 4 induction over retry attempts + differential correspondence with enumerated failure subsets',
    },
    "C12": {
        "text": 'Kernel-checked theorems: object key format and injectivity (decimal rendering proved injective), body = records one per line for every buffer-reuse state, every retry re-reads the body from offset 0 and written implies the last attempt consumed all of it, nothing reported on give-up. Tied to the real S3Transporter by correspondence with a fake S3 that reads scripted prefixes and gunzips with compress/gzip.',
        "note": 'Trusted: Lean kernel, harness fake, pgzip/bytes.Buffer Reset semantics (exercised by the correspondence).',
        "technique": 'Lean 4 string/state-machine proofs + differential correspondence',
    },
    "C13": {
        "text": 'Kernel-checked theorems about a model of the confirmation accounting with the broker as adversary and the closeHandler goroutine as a concurrently scheduled actor: written implies every message has a positively confirmed publish consumed for that batch; after any channel close the worker retries on a fresh channel or terminates (no wedge). Tied to the real RabbitMQTransporter by exact correspondence with scripted wabbit fakes and a log-hook scheduler.',
        "note": 'Trusted: Lean kernel, harness fakes/scheduler granularity, amqp tag-order contract.',
        "technique": 'Lean 4 proofs over an adversarial broker state machine + differential correspondence',
    },
    "C14": {
        "text": 'Kernel-checked theorems: written iff the producer accepted the whole batch and shutdown was not requested first; any rejection makes the worker stop the process with nothing reported; key per partition method (method table regenerated from source); over-size messages dropped but counted. Tied to the real KafkaTransporter/KafkaBatch by correspondence with a fake SyncProducer.',
        "note": 'Trusted: Lean kernel, harness fake, sarama ByteSize as measured input.',
        "technique": 'Lean 4 decision-logic proofs + regenerated method table + differential correspondence',
    },
    "C15": {
        "text": "Kernel-checked invariants by induction over Add sequences (Kinesis: <= 500 records, bytes = sum of data+key <= 5 MiB, each record <= 1 MiB; generic/Kafka count limit; Kafka byte limit), lifted to every batch the batcher dispatches; can't-fit is not lost, too-big is counted and has its statistic; the constants and the batcher's error switch are regenerated from source and compared by decide. Real batches are driven directly around every boundary and through the real batcher.",
        "note": 'Trusted: Lean kernel, factgen, harness.',
        "technique": 'Lean 4 invariant proofs + regenerated constants (decide) + differential correspondence at limit boundaries',
    },
    "C16": {
        "text": "Kernel-checked theorems about the tick decision for every open set, clock reading and Go map/heap order: every due batch (empty, idle, too old, full) is flushed; what is left is below the memory limit; pressure flushes go largest-first; and, in a logical-time layer that keeps the batches' create/modify times (compared with the real batches at every tick), for every arrival pattern no open batch is overdue relative to the last handled tick and an overdue batch is dispatched by the next tick (age_bound). The real tick handler is fired by the harness at chosen points and its flush set compared; the free-running real loop (real ticker, real select) is additionally run under a standing input backlog and the age of every batch at hand-over is measured against maximum age + tick (+ slack). PARTIAL: that a tick is handled within one tick period is Go's ticker/select, not exhibited by the model (measured, not proved).",
        "note": 'Trusted: Lean kernel, harness; timing of ticker delivery is outside the model.',
        "technique": 'Lean 4 decision-logic proofs + differential correspondence of the real tick handler',
    },
    "C18": {
        "text": 'Kernel-checked theorems: a reply-requested keepalive is answered before the next read (exact, over all event lists); in a logical-time timer model the gap between status updates is <= progress interval + receive timeout, <= progress interval while blocked on output. The action order is compared exactly with the real client; real gaps are measured. PARTIAL: scheduler/timer latency is not modelled.',
        "note": 'Trusted: Lean kernel, harness; timer assumptions stated in Props/C18.',
        "technique": 'Lean 4 invariant proofs (action order exact, durations in logical time) + differential correspondence',
    },
    "C19": {
        "text": 'Kernel-checked theorems over every interleaving of ingest check / locked add / reporter scan with arbitrary clock readings: per statistic identity and window, reported + held = recorded; each recorded statistic is dropped-late, held or reported in exactly one window; histogram reports carry sum/avg/max/min of exactly the covered values; the aggregate key is injective on the regenerated table of statistics pg-bifrost emits. Tied to the real aggregator through the verif constructor with an injected clock that forces the check/scan/add race.',
        "note": 'Trusted: Lean kernel, factgen, harness clock scheduler; int64 as Int.',
        "technique": 'Lean 4 induction over interleaved atomic steps + regenerated table (decide) + differential correspondence',
    },
    "C17": {
        "text": 'Kernel-checked theorem about a process model instantiated with the shutdown structure of every stage loop REGENERATED from the source on every run (first defer is shutdown(), shutdown calls CancelFunc before a direct recover(), main waits on the context): the death of any stage by return or panic raises the shared termination signal, no panic escapes, and after the signal every stage stops at its next loop top. That this signal is the process-wide one rests on wiring facts regenerated from app/runner.go and the whole source (exactly one ShutdownHandler is ever built, nobody rewrites its fields, app.New hands it to every stage, Runner.Start launches every stage), and the real app.New + Runner.Start is run with one injected stage fault per case. Retry budgets: a model of cenkalti/backoff NextBackOff/Retry proves that a policy with a budget and Stop = backoff.Stop gives up within the budget and that a policy without the Stop field never does; the policy literals are regenerated from the factories and run through the real library under a fake clock. The safety half (nothing acknowledged beyond what the sink accepted after a fault) is judged on the assembled real stages with injected faults by Lean-evaluated monitors. PARTIAL: defer/recover/goroutine semantics are the Go runtime.',
        "note": "Trusted: Lean kernel, factgen's structural extraction, Go defer/recover semantics, the fault-injection harness.",
        "technique": 'Lean 4 theorem over regenerated structural facts + fault-injection harness with Lean-evaluated monitors',
    },
}
