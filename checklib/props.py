"""Per-property check table: Lean modules holding the property theorems, correspondence
components (harness) whose models the theorems are about, notes for the evidence."""

TRUSTED_BASE = [
    "Lean 4.33.0 kernel; axioms allowed: propext, Classical.choice, Quot.sound (audited per theorem on every run)",
    "no sorry/admit/native_decide/bv_decide/implemented_by/unsafe/axiom in any imported PgBifrost module (grep on every run)",
    "correspondence harness /verif/harness (Go, built from /repo's working tree with -tags verif) and its fakes for the outside world",
    "tools/factgen (Go AST -> Lean facts) where the property uses generated facts",
    "correspondence is sampled differential testing: model = code only on the generated op sequences",
    "modelled, not verified: Go runtime (select, channels, timers, panics), cevaris/ordered_map, container/heap, "
    "hash/crc32, regexp, goccy/go-json, klauspost/pgzip, cenkalti/backoff, aws-sdk Validate, sarama ByteSize, "
    "pglogrepl/pgx framing, PostgreSQL itself",
]

# components whose real code keeps package-level state (marshaller pools): one case at a time per
# process; the check script shards them over processes instead of goroutines
SERIAL = {"pipeline": 8, "pipefault": 8, "marshal": 4, "syscorr": 8, "batcherload": 1}

PROPS = {
    "C01": {
        "modules": ["PgBifrost.Props.C01"],
        "components": ["ledger", "batcher", "pipeline", "syscorr", "kinesis", "s3", "rabbit", "kafka"],
        # layer L3: a worker reporting written without full acceptance by the sink is a C01 violation too
        "counts_from": {"C11": "written|accepted", "C12": "written", "C13": "written|confirm", "C14": "written"},
        "required_theorems": ["PgBifrost.Props.C01.ledger_emit_safe_partial", "PgBifrost.Props.C01.ledger_never_panics_partial",
                              "PgBifrost.Props.C01.ledger_emit_unsafe_witness", "PgBifrost.Props.C01.sys_ledger_trace_contract",
                              "PgBifrost.Props.C01.sys_tracker_never_panics", "PgBifrost.Props.C01.sys_ack_safe",
                              "PgBifrost.Props.C01.sys_crash_restart_no_loss", "PgBifrost.Props.C01.sys_nostale_needs_schedule_witness",
                              "PgBifrost.Props.C01.runner_wiring_as_modelled", "PgBifrost.Props.C01.flush_position_safe",
                              "PgBifrost.Props.C01.ledger_as_in_source", "PgBifrost.Props.C01.release_condition_as_in_source", "PgBifrost.Props.C01.tracker_as_in_source", "PgBifrost.Props.C01.workers_report_only_on_success"],
        "partial": "full statement false on the unchanged tree (finding F1): the ledger theorem is proved under NoStale, the "
                   "witness theorem proves the full one false. Layers: L1 ledger (theorem), L2 batcher contract (C04 "
                   "seen_before_dispatch*, seen_log_exact, txns_global_accounting), L3 workers (C11-C14), L4 client (C03); the "
                   "composed system (Model/Sys: batcher, per-worker FIFO queues, sink accept/retry, written FIFO, seen applied at the "
                   "rendezvous, tracker) is proved: sys_ledger_trace_contract, sys_ack_safe, sys_crash_restart_no_loss - with redelivery "
                   "only under the scheduling hypothesis redeliverQuiet (otherwise F1: sys_nostale_needs_schedule_witness). The "
                   "composition logic itself (channels) is tied to the code by the pipeline harness monitors on the real stages",
        "assumptions": ["ledger trace contract E1-E3 (DESIGN §6/C01) and NoStale (E4) as hypotheses of the ledger theorem"],
    },
    "C02": {
        "modules": ["PgBifrost.Props.C02"],
        "components": ["ledger", "client", "batcher", "pipeline", "syscorr"],
        "required_theorems": ["PgBifrost.Props.C02.ledger_drains_partial", "PgBifrost.Props.C02.recovery_commit_closes_open_delivery",
                              "PgBifrost.Props.C02.sys_quiesces", "PgBifrost.Props.C02.ledger_model_is_source", "PgBifrost.Props.C02.recovery_as_in_source"],
        "partial": "ledger layer proved under NoStale (finding F1 makes the full statement false). Client error recovery: "
                   "recovery_commit_closes_open_delivery is about the model of the repaired client (fix: commit for F2); "
                   "system-level quiescence is decided by the pipeline harness monitors (caughtUp, ledger empty), not one theorem",
        "assumptions": ["ledger trace contract E1-E3 and NoStale (E4); every committed delivery completely written; "
                        "every delivery without a seen was superseded by a later key of its transaction",
                        "the session's starting position (first keepalive) is > 0"],
    },
    "C03": {
        "modules": ["PgBifrost.Props.C03"],
        "components": ["client", "connmgr"],
        "required_theorems": ["PgBifrost.Props.C03.acks_monotone", "PgBifrost.Props.C03.acks_sourced",
                              "PgBifrost.Props.C03.ack_is_running_max", "PgBifrost.Props.C03.restart_lsn_exact",
                              "PgBifrost.Props.C03.client_write_sites_as_modelled", "PgBifrost.Props.C03.drain_as_in_source",
                              "PgBifrost.Props.C03.handle_progress_as_in_source", "PgBifrost.Props.C03.conn_manager_as_in_source"],
        "assumptions": ["GetConn*/SendStandbyStatus/IdentifySystem do not fail, the progress channel is not closed, "
                        "TerminateCtx is not cancelled (not modelled)",
                        "conn.Manager is modelled (no live connection => dial + START_REPLICATION at the argument); "
                        "exercised through a fake in the quick tier",
                        "'last COMMIT received' is the largest COMMIT position received (equal under the PG-stream grammar)"],
    },
    "C04": {
        "modules": ["PgBifrost.Props.C04"],
        "components": ["batcher", "batch", "filter", "partitioner", "marshal", "pipeline", "syscorr", "parser", "e2e"],
        # the record must carry the rendering of exactly the change PostgreSQL sent: a decoder (C09) or a renderer (C10)
        # that alters or aliases the content breaks C04 as well
        "counts_from": {"C09": ".", "C10": "."},
        "required_theorems": ["PgBifrost.Props.C04.batcher_partition_faithful", "PgBifrost.Props.C04.batch_single_key",
                              "PgBifrost.Props.C04.batch_txns_exact", "PgBifrost.Props.C04.txns_global_accounting",
                              "PgBifrost.Props.C04.batcher_never_dead", "PgBifrost.Props.C04.sys_exactly_once",
                              "PgBifrost.Props.C04.sys_exactly_once_live", "PgBifrost.Props.C04.pipeline_exactly_once", "PgBifrost.Props.C04.batcher_as_in_source", "PgBifrost.Props.C04.update_transactions_as_in_source", "PgBifrost.Props.C04.stdout_worker_as_in_source"],
        "partial": "the batcher/batches part is one unbounded theorem; the composition with filter, partitioner and marshaller "
                   "(each tied by its own correspondence; C08, C06, C10 theorems) and with the workers is decided by the pipeline "
                   "harness monitor Spec.Pipeline.exactlyOnce on the assembled real stages, not by one composed theorem",
        "assumptions": ["batch kind laws (proved for generic, Kinesis, Kafka); Kinesis: record + key fits an empty batch (|key| <= 4 MiB)"],
    },
    "C05": {
        "modules": ["PgBifrost.Props.C05"],
        "components": ["batcher", "crc", "pipeline", "kinesis", "batcherload", "plumbing"],
        "required_theorems": ["PgBifrost.Props.C05.routing_switch_as_in_source", "PgBifrost.Props.C05.kinesis_calls_keep_batch_order", "PgBifrost.Props.C05.in_batch_order", "PgBifrost.Props.C05.partition_routing_fixed",
                              "PgBifrost.Props.C05.per_key_submission_order", "PgBifrost.Props.C05.single_worker_total_order", "PgBifrost.Props.C05.positional_literals_as_in_source"],
        "partial": "proved up to the worker's input channel (order of batches handed to worker w); that a worker is sequential and its "
                   "channel FIFO is the Go runtime (modelled); submission order at the sink is observed by the pipeline monitor perKeyOrder",
    },
    "C06": {
        "modules": ["PgBifrost.Props.C06"],
        "components": ["partitioner", "crc", "batcher", "plumbing"],
        "required_theorems": ["PgBifrost.Props.C06.partition_switch_as_in_source", "PgBifrost.Props.C06.kinesis_factory_as_modelled",
                              "PgBifrost.Props.C06.decimal_injective", "PgBifrost.Props.C06.bucket_key_same_bucket", "PgBifrost.Props.C06.bucket_in_range", "PgBifrost.Props.C06.kinesis_key_choice"],
        "assumptions": ["identifiers are byte strings; bucket count >= 1 (validated by main.go)"],
    },
    "C07": {
        "modules": ["PgBifrost.Props.C07"],
        "components": ["client", "connmgr"],
        "required_theorems": ["PgBifrost.Props.C07.stamp_attribution", "PgBifrost.Props.C07.keys_unique",
                              "PgBifrost.Props.C07.one_commit_per_key", "PgBifrost.Props.C07.one_commit_per_key_full", "PgBifrost.Props.C07.framing_as_in_source", "PgBifrost.Props.C07.begin_without_commit"],
        "assumptions": ["PG-stream grammar (DESIGN §3) as decidable hypothesis pgGrammar on the history",
                        "clock readings strictly increasing across BEGINs of the same transaction id; ids contain no '-'"],
    },
    "C08": {
        "modules": ["PgBifrost.Props.C08"],
        "components": ["filter", "clifilter", "e2e", "plumbing"],
        "required_theorems": ["PgBifrost.Props.C08.filter_iff", "PgBifrost.Props.C08.cli_filter_correct", "PgBifrost.Props.C08.filter_as_in_source"],
        "assumptions": ["regexp matching is Go's regexp (parameter of the model)", "at most one of the four options is given",
                        "a TRUNCATE of several tables is filtered on the relation text as test_decoding prints it (the whole list)"],
    },
    "C09": {
        "modules": ["PgBifrost.Props.C09"],
        "components": ["parser"],
        "required_theorems": ["PgBifrost.Props.C09.parse_total", "PgBifrost.Props.C09.parse_render", "PgBifrost.Props.C09.parser_switch_as_in_source", "PgBifrost.Props.C09.parser_prologue_as_in_source", "PgBifrost.Props.C09.xlog_to_walmessage_as_in_source"],
        "partial": "round trip proved for every well-formed change whose printed tuples are non-empty (finding empty_tuple: "
                   "relations without columns make the decoder fail; recorded)",
        "assumptions": ["TestDecoding.render is the output grammar of contrib/test_decoding with default options "
                        "(include-xids on, include-timestamp off); WF: bare values without NUL/space/quote, bit strings "
                        "of 0/1, built-in type spellings without ] [ \", distinct printed column names, no empty printed tuple",
                        "strings.Fields is modelled on bytes (white-space byte patterns; exact for arbitrary bytes, see Model/Parser.lean)"],
    },
    "C10": {
        "modules": ["PgBifrost.Props.C10"],
        "components": ["marshal", "plumbing", "parser"],
        "required_theorems": ["PgBifrost.Props.C10.marshal_decision_table_partial", "PgBifrost.Props.C10.marshal_quoted_toast_witness",
                              "PgBifrost.Props.C10.marshal_fields_equal", "PgBifrost.Props.C10.lsn_format_roundtrip",
                              "PgBifrost.Props.C10.marshal_history_independent", "PgBifrost.Props.C10.marshal_pool_independent",
                              "PgBifrost.Props.C10.marshal_columns_as_in_source", "PgBifrost.Props.C10.marshal_entry_as_in_source"],
        "partial": "full decision table false on the unchanged tree (finding F5, quoted 'unchanged-toast-datum' text; pinned by the "
                   "repository's own tests, recorded): proved for changes without such a literal, witness theorem for the rest; history "
                   "independence of the CODE rests on marshal_pool_independent (pool-level model) plus the correspondence (sequences "
                   "through one real Marshaller + shuffled re-run)",
        "assumptions": ["goccy/go-json byte encoding trusted (outputs parsed back with encoding/json, json.Valid checked)",
                        "RFC3339 rendering of the server time is Go's time package (input of the model)",
                        "column values/names are valid UTF-8", "one marshaller per process (package-level pools are not locked)"],
    },
    "C11": {
        "modules": ["PgBifrost.Props.C11"],
        "components": ["kinesis", "plumbing"],
        "required_theorems": ["PgBifrost.Props.C11.kinesis_written_all_accepted", "PgBifrost.Props.C11.kinesis_retry_exact",
                              "PgBifrost.Props.C11.kinesis_no_report_on_giveup", "PgBifrost.Props.C11.compact_eq_filter",
                              "PgBifrost.Props.C11.kinesis_attempt_as_in_source", "PgBifrost.Props.C11.kinesis_iteration_as_in_source"],
        "assumptions": ["AwsContract: every PutRecords answer has one result entry per request entry and FailedRecordCount = "
                        "number of entries with an error code (hypothesis of kinesis_written_all_accepted only; "
                        "kinesis_written_needs_contract_witness shows it is needed)",
                        "backoff.Retry with WithMaxRetries(_, n) allows n+1 calls (modelled, compared by the harness)"],
    },
    "C12": {
        "modules": ["PgBifrost.Props.C12"],
        "components": ["s3", "plumbing"],
        "required_theorems": ["PgBifrost.Props.C12.s3_key_format", "PgBifrost.Props.C12.s3_object_key_injective",
                              "PgBifrost.Props.C12.s3_body_lines", "PgBifrost.Props.C12.s3_retry_from_zero",
                              "PgBifrost.Props.C12.s3_no_report_on_giveup", "PgBifrost.Props.C12.s3_key_as_in_source", "PgBifrost.Props.C12.s3_worker_as_in_source", "PgBifrost.Props.C12.date_string_as_in_source"],
        "assumptions": ["bytes.Buffer.Reset / pgzip.Writer.Reset leave an empty stream (ResetEmpties; exercised by the correspondence "
                        "with reuse limits 0/1/2/5)", "gzip is an input: a sink that reads the whole body from offset 0 decodes the plain text",
                        "clock strings non-empty, no '/', full = 14 characters"],
    },
    "C13": {
        "modules": ["PgBifrost.Props.C13"],
        "components": ["rabbit", "rabbitconn", "rabbitstop"],
        "required_theorems": ["PgBifrost.Props.C13.rabbit_written_all_confirmed", "PgBifrost.Props.C13.rabbit_written_all_confirmed_run",
                              "PgBifrost.Props.C13.rabbit_retry_republishes_unconfirmed", "PgBifrost.Props.C13.rabbit_no_wedge_on_close",
                              "PgBifrost.Props.C13.rabbit_spec_ok_of_fixed", "PgBifrost.Props.C13.rabbit_attempt_as_in_source", "PgBifrost.Props.C13.rabbit_loop_as_in_source"],
        "assumptions": ["confirmations arrive in tag order per channel; a close drops the unconsumed ones",
                        "goroutine interleaving of closeHandler and worker at the granularity of the worker's log lines / Publish calls"],
        "timeout": 3000,
    },
    "C14": {
        "modules": ["PgBifrost.Props.C14"],
        "components": ["kafka", "batch", "plumbing"],
        "required_theorems": ["PgBifrost.Props.C14.kafka_written_iff_all_ok", "PgBifrost.Props.C14.kafka_failstop",
                              "PgBifrost.Props.C14.kafka_key_by_method", "PgBifrost.Props.C14.kafka_toobig_counted",
                              "PgBifrost.Props.C14.kafka_methods_as_documented", "PgBifrost.Props.C14.kafka_iteration_as_in_source"],
        "assumptions": ["sarama ProducerMessage.ByteSize(2) is an input measured on the real message",
                        "the uuid of a `batch`-method batch is an opaque per-batch value"],
    },
    "C15": {
        "modules": ["PgBifrost.Props.C15"],
        "components": ["batch", "batcher", "plumbing"],
        "required_theorems": ["PgBifrost.Props.C15.kinesis_batch_limits", "PgBifrost.Props.C15.kinesis_dispatched_limits",
                              "PgBifrost.Props.C15.generic_dispatched_limits", "PgBifrost.Props.C15.kafka_dispatched_limits",
                              "PgBifrost.Props.C15.cant_fit_not_lost", "PgBifrost.Props.C15.too_big_counted",
                              "PgBifrost.Props.C15.limits_are_the_documented_ones", "PgBifrost.Props.C15.reaction_per_error_class",
                              "PgBifrost.Props.C15.kinesis_add_as_in_source", "PgBifrost.Props.C15.generic_add_as_in_source",
                              "PgBifrost.Props.C15.kafka_add_as_in_source", "PgBifrost.Props.C15.factory_options_as_in_source"],
        "assumptions": ["Kinesis record + partition key fits an empty batch (|key| <= 4 MiB)"],
    },
    "C16": {
        "modules": ["PgBifrost.Props.C16"],
        "components": ["batcher", "batch", "batcherload", "plumbing"],
        "required_theorems": ["PgBifrost.Props.C16.tick_flushes_due", "PgBifrost.Props.C16.tick_pressure",
                              "PgBifrost.Props.C16.tick_pressure_order", "PgBifrost.Props.C16.age_invariant",
                              "PgBifrost.Props.C16.age_bound", "PgBifrost.Props.C16.options_reach_their_own_slot", "PgBifrost.Props.C16.handle_ticker_structure_as_in_source"],
        "partial": "the tick DECISION is proved for every open set, clock reading and Go map/heap order (validTick), and the age bound "
                   "in logical time (age_invariant / age_bound over Model/BatcherTimed: for every arrival pattern no open batch is overdue "
                   "relative to the last handled tick, and an overdue batch is dispatched by the next one; the layer's create/modify-time "
                   "bookkeeping is compared with the real batches at every tick of the batcher component). That a tick is actually "
                   "handled within one tick period of becoming due is Go's select/ticker (ticker competes with input in one select; not "
                   "exhibited by the model) - measured by the batcherload component on the free-running loop, not proved",
    },
    "C17": {
        "modules": ["PgBifrost.Props.C17"],
        "components": ["pipefault", "kinesis", "s3", "kafka", "rabbit", "retrypolicy", "runner", "clientstop", "plumbing", "rabbitstop"],
        "required_theorems": ["PgBifrost.Props.C17.fault_never_unsafe_ack", "PgBifrost.Props.C17.single_shutdown_handler", "PgBifrost.Props.C17.runner_hands_the_handler_to_every_stage",
                              "PgBifrost.Props.C17.runner_starts_every_stage", "PgBifrost.Props.C17.retry_budget_gives_up", "PgBifrost.Props.C17.retry_policies_give_up",
                              "PgBifrost.Props.C17.retry_policies_complete", "PgBifrost.Props.C17.retry_unset_stop_never_gives_up",
                              "PgBifrost.Props.C17.stage_death_cancels", "PgBifrost.Props.C17.stages_good",
                              "PgBifrost.Props.C17.stages_complete", "PgBifrost.Props.C17.pg_bifrost_fail_stop",
                              "PgBifrost.Props.C17.no_half_dead", "PgBifrost.Props.C17.main_waits_then_exits"],
        "partial": "proved in a process model instantiated with structural facts regenerated from every stage's source "
                   "(first defer is shutdown(); shutdown calls CancelFunc before a direct recover()); that Go runs deferred "
                   "functions on return/panic and that a direct recover() contains a panic is the Go runtime (modelled). 'Nothing "
                   "acknowledged beyond what the sink accepted' after a fault is the C01 invariant, judged by the pipefault "
                   "harness: real stages assembled, one injected fault (sink dead past its retry budget, sink panic, closed "
                   "internal channel) at a random point, monitors: termination signal raised iff the fault manifested, every "
                   "acknowledgement safe. The free-running ProgressTracker goroutine is not part of that harness (see DESIGN §10).",
        "assumptions": ["Go defer/recover semantics", "one fault per run"],
    },
    "C18": {
        "modules": ["PgBifrost.Props.C18"],
        "components": ["client", "clientload", "connmgr"],
        "required_theorems": ["PgBifrost.Props.C18.keepalive_reply_before_next_read",
                              "PgBifrost.Props.C18.status_gap_bounded", "PgBifrost.Props.C18.keepalive_as_in_source", "PgBifrost.Props.C18.conn_wrapper_as_in_source"],
        "partial": "durations are proved in a logical-time timer sub-model (firing visible when due, handling takes no "
                   "time, ReceiveMessage returns within T); real timer/scheduler latency is measured by the harness "
                   "(max gap in the distribution), not proved. The session's very first keepalive is not answered even "
                   "if it requests a reply (client.go:243-270); the property is stated for the loop.",
        "assumptions": ["ReceiveMessage returns within its context timeout T",
                        "a status update the client sends is on the wire without a further read (true of the connection wrapper since the "
                        "fix of F10; checked by the connmgr component over TCP against the fake PostgreSQL server)"],
    },
    "C19": {
        "modules": ["PgBifrost.Props.C19"],
        "components": ["aggregator", "plumbing"],
        "required_theorems": ["PgBifrost.Props.C19.agg_conservation", "PgBifrost.Props.C19.agg_exactly_one_window",
                              "PgBifrost.Props.C19.agg_hist_minmaxavg", "PgBifrost.Props.C19.agg_key_inj_table",
                              "PgBifrost.Props.C19.agg_key_collision_witness", "PgBifrost.Props.C19.bucket_contains_timestamp", "PgBifrost.Props.C19.bucket_unique", "PgBifrost.Props.C19.aggregate_as_in_source", "PgBifrost.Props.C19.aggregator_steps_as_in_source"],
        "assumptions": ["KeyInjOn: the separator-less aggregate key is injective on the identities used (proved for the generated "
                        "table of every statistic pg-bifrost emits; arbitrary colliding identities are outside the property)",
                        "int64 arithmetic modelled by Int (no wrap-around); int64(float64(sum)/float64(n)) = trunc(sum/n), exact for |sum| < 2^53",
                        "statistic types are count/histogram (anything else panics in update/toStats; emitted_types_known)",
                        "aggregateTimeNano > 0"],
    },
}
