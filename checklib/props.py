"""Per-property check table: Lean modules holding the property theorems, correspondence
components (harness) whose models the theorems are about, notes for the evidence."""

TRUSTED_BASE = [
    "Lean 4.33.0 kernel; axioms allowed: propext, Classical.choice, Quot.sound (audited per theorem on every run)",
    "no sorry/admit/native_decide/bv_decide/implemented_by/unsafe/axiom in any imported PgBifrost module (grep on every run)",
    "correspondence harness /verif/harness (Go, built from /repo's working tree with -tags verif) and its fakes for the outside world",
    "tools/factgen (Go AST -> Lean facts) where the property uses generated facts",
    "correspondence is sampled differential testing: model = code only on the generated op sequences",
    "modelled, not verified: Go runtime (select, channels, timers, panics), cevaris/ordered_map, container/heap, "
    "hash/crc32, regexp, goccy/go-json, klauspost/pgzip, cenkalti/backoff, aws-sdk Validate, sarama ByteSize, "
    "pglogrepl/pgx framing, PostgreSQL itself",
]

PROPS = {
    "C01": {
        "modules": ["PgBifrost.Props.C01"],
        "components": ["ledger"],
        "partial": "full statement false on the unchanged tree (finding F1): theorems are proved under NoStale; "
                   "system-level composition (batcher -> workers -> ledger -> client) is covered by correspondence "
                   "and monitors, not yet by one composed theorem",
        "assumptions": ["ledger trace contract E1-E3 (DESIGN §6/C01) and NoStale (E4) as hypotheses of the ledger theorem"],
    },
    "C02": {
        "modules": ["PgBifrost.Props.C02"],
        "components": ["ledger"],
        "partial": "proved under NoStale (finding F1 makes the full statement false); client error-recovery and the "
                   "batcher's side of the contract are separate obligations",
        "assumptions": ["ledger trace contract E1-E3 and NoStale (E4); every committed delivery completely written; "
                        "every delivery without a seen was superseded by a later key of its transaction"],
    },
    "C06": {
        "modules": ["PgBifrost.Props.C06"],
        "components": ["partitioner", "crc", "batcher"],
        "assumptions": ["identifiers are byte strings; bucket count >= 1 (validated by main.go)"],
    },
    "C08": {
        "modules": ["PgBifrost.Props.C08"],
        "components": ["filter", "clifilter"],
        "required_theorems": ["PgBifrost.Props.C08.filter_iff", "PgBifrost.Props.C08.cli_filter_correct"],
        "assumptions": ["regexp matching is Go's regexp (parameter of the model)", "at most one of the four options is given",
                        "a TRUNCATE of several tables is filtered on the relation text as test_decoding prints it (the whole list)"],
    },
}
