#!/bin/sh
# Offline setup after a fresh restore: build the Lean project (models, proofs, driver) and
# warm the Go build cache for the harness and the translator. Nothing is fetched.
set -e
cd "$(dirname "$0")"
export GOFLAGS=-mod=mod GOPROXY=off GOSUMDB=off GOTOOLCHAIN=local CGO_ENABLED=0
mkdir -p build evidence replays
(cd lean && lake build)
cp /repo/go.sum harness/go.sum
python3 tools/mkgomod.py /repo harness/go.mod
# (generated Go for the harness is committed; ./check regenerates it)
(cd harness && go build -tags verif -o ../build/bfharness .)
if [ -f tools/factgen/main.go ]; then (cd tools/factgen && go build -o ../../build/factgen .); fi
echo setup-ok
