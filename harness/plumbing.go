package main

// Component `plumbing`: configuration reaches the stages unchanged. The real app.New (app/runner.go → transport
// manager → transport factory → NewBatcher, partitioner.New, filter.New, marshaller.New) is called with the config
// maps main.go builds, for generated option values, and what each stage STORED is read back through the verif
// hooks. Nothing is started. The Lean side answers with what the documentation of the options promises: the
// batcher's ages and tick in milliseconds, one output channel per worker of the configured depth, the memory limit,
// the routing method; the partitioner's method and bucket count; the filter's mode and list; the marshaller's option.
//
//   plumbing <workers> <routing> <pmethod> <buckets> <updMs> <maxMs> <depth> <tickMs> <mem> <wl> <rx> <noold> <listhex>

import (
	"bytes"
	"compress/gzip"
	"encoding/json"
	"fmt"
	"io"
	"net"
	"net/http"
	"net/http/httptest"
	"sync"
	"time"
	"strconv"
	"strings"

	"github.com/Nextdoor/pg-bifrost.git/app"
	"github.com/Nextdoor/pg-bifrost.git/app/config"
	"github.com/Nextdoor/pg-bifrost.git/marshaller"
	"github.com/Nextdoor/pg-bifrost.git/partitioner"
	"github.com/Nextdoor/pg-bifrost.git/shutdown"
	"github.com/Nextdoor/pg-bifrost.git/stats"
	"github.com/Nextdoor/pg-bifrost.git/stats/reporters"
	rfactory "github.com/Nextdoor/pg-bifrost.git/stats/reporters/factory"
	"github.com/Nextdoor/pg-bifrost.git/transport"
	"github.com/Nextdoor/pg-bifrost.git/transport/batch"
	"github.com/Nextdoor/pg-bifrost.git/transport/batcher"
	"github.com/Nextdoor/pg-bifrost.git/transport/manager"
	"github.com/Nextdoor/pg-bifrost.git/transport/progress"
	"github.com/Nextdoor/pg-bifrost.git/utils"
	"github.com/Shopify/sarama"
	tkafka "github.com/Nextdoor/pg-bifrost.git/transport/transporters/kafka"
	tkinesis "github.com/Nextdoor/pg-bifrost.git/transport/transporters/kinesis"
	kintr "github.com/Nextdoor/pg-bifrost.git/transport/transporters/kinesis/transporter"
	trabbit "github.com/Nextdoor/pg-bifrost.git/transport/transporters/rabbitmq"
	ts3 "github.com/Nextdoor/pg-bifrost.git/transport/transporters/s3"
	s3tr "github.com/Nextdoor/pg-bifrost.git/transport/transporters/s3/transporter"
	"github.com/cevaris/ordered_map"
	"github.com/jackc/pgx/v5/pgconn"
)

var plumbRoutingName = map[batcher.BatchRouting]string{batcher.BATCH_ROUTING_ROUND_ROBIN: "round-robin", batcher.BATCH_ROUTING_PARTITION: "partition"}
var plumbMethodName = map[partitioner.PartitionMethod]string{partitioner.PART_METHOD_NONE: "none", partitioner.PART_METHOD_TABLENAME: "tablename",
	partitioner.PART_METHOD_TXN: "transaction", partitioner.PART_METHOD_TXN_BUCKET: "transaction-bucket"}

func plumbingOne(w []string) (res string) {
	defer func() {
		if r := recover(); r != nil {
			res = fmt.Sprintf("panic %v", r)
		}
	}()
	n := func(i int) int { v, _ := strconv.Atoi(w[i]); return v }
	workers, routing, pmethod, buckets := n(1), w[2], w[3], n(4)
	upd, max, depth, tick := n(5), n(6), n(7), n(8)
	mem, _ := strconv.ParseInt(w[9], 10, 64)
	wl, rx, noold := w[10] == "1", w[11] == "1", w[12] == "1"
	list := []string{}
	if w[13] != "-" {
		for _, h := range strings.Split(w[13], ",") {
			list = append(list, unhexs(h))
		}
	}
	sourceConfig, err := pgconn.ParseConfig("postgresql://u:p@127.0.0.1:1/db?replication=database&sslmode=disable")
	if err != nil {
		return "harness-error " + err.Error()
	}
	sh := shutdown.NewShutdownHandler()
	defer sh.CancelFunc()
	// the maps as main.go's replicateAction fills them (values and Go types)
	pm := partitioner.GetPartitionMethod(pmethod)
	rm := batcher.GetRoutingMethod(routing)
	r, err := app.New(sh, sourceConfig, "verif_slot",
		map[string]interface{}{config.VAR_NAME_CLIENT_BUFFER_SIZE: 10},
		map[string]interface{}{"whitelist": wl, "tablelist": list, "regex": rx},
		map[string]interface{}{config.VAR_NAME_NO_MARSHAL_OLD_VALUE: noold},
		map[string]interface{}{config.VAR_NAME_PARTITION_METHOD: pm, config.VAR_NAME_PARTITION_COUNT: buckets},
		map[string]interface{}{
			config.VAR_NAME_BATCH_FLUSH_UPDATE_AGE:    upd,
			config.VAR_NAME_BATCH_FLUSH_MAX_AGE:       max,
			config.VAR_NAME_BATCH_QUEUE_DEPTH:         depth,
			config.VAR_NAME_BATCHER_MEMORY_SOFT_LIMIT: mem,
			config.VAR_NAME_BATCHER_ROUTING_METHOD:    rm,
			config.VAR_NAME_BATCHER_TICK_RATE:         tick,
		},
		transport.STDOUT,
		map[string]interface{}{config.VAR_NAME_WORKERS: workers, config.VAR_NAME_PARTITION_METHOD: pm, config.VAR_NAME_BATCHER_ROUTING_METHOD: rm},
		map[string]interface{}{config.VAR_NAME_DD_HOST: "127.0.0.1:8125", config.VAR_NAME_DD_TAGS: []string{}})
	if err != nil {
		return "harness-error " + err.Error()
	}
	p := r.VerifParts()
	bc := p.Manager.VerifBatcher().VerifConfig()
	m, b := p.Partitioner.VerifConfig()
	fwl, frx, flist, _ := p.Filter.VerifConfig()
	hl := []string{}
	for _, t := range flist {
		hl = append(hl, hexs(t))
	}
	ls := "-"
	if len(hl) > 0 {
		ls = strings.Join(hl, ",")
	}
	return fmt.Sprintf("tick=%d upd=%d max=%d workers=%d chans=%d depth=%d mem=%d routing=%s pmethod=%s buckets=%d wl=%s rx=%s list=%s noold=%s",
		bc.TickRateNs, bc.FlushUpdateAgeNs, bc.FlushMaxAgeNs, bc.Workers, bc.OutputChans, bc.QueueDepth, bc.MaxMemoryBytes,
		plumbRoutingName[bc.Routing], plumbMethodName[m], b, b01(fwl), b01(frx), ls, b01(p.Marshaller.VerifConfig()))
}

// kafkaTransportConfig: the transport configuration as main.go hands it on - EVERY option of the sink present (its
// default unless given), so that a factory that starts to read another of its options finds it.
func kafkaTransportConfig(topic string, maxMsg, batchSize, flushBytes int, method string) map[string]interface{} {
	return map[string]interface{}{
		tkafka.ConfVarKafkaTopic: topic, tkafka.ConfVarKafkaMaxMessageBytes: maxMsg, tkafka.ConfVarKafkaBatchSize: batchSize,
		tkafka.ConfVarKafkaFlushBytes: flushBytes, tkafka.ConfVarKafkaFlushFrequency: 2500, tkafka.ConfVarKafkaRetryMax: 10,
		tkafka.ConfVarBootstrapHost: "localhost", tkafka.ConfVarBootstrapPort: "9092", tkafka.ConfVarKafkaTls: false,
		tkafka.ConfVarKafkaClusterCA: "", tkafka.ConfVarKafkaPrivateKey: "", tkafka.ConfVarKafkaPublicKey: "",
		tkafka.ConfVarKafkaVerifyProducer: false, tkafka.ConfVarKafkaPartitionMethod: method, config.VAR_NAME_WORKERS: 1,
	}
}

// plumbing factory <kind> <batchSize> <maxMsgBytes> <flushBytes>: the batch factory a sink's options configure, probed
// from outside: how many small records make a batch full, and (Kafka) whether a record certainly above / certainly
// below the configured per-message limit is refused / accepted.
func plumbingFactory(w []string) (res string) {
	defer func() {
		if r := recover(); r != nil {
			res = fmt.Sprintf("panic %v", r)
		}
	}()
	size, _ := strconv.Atoi(w[3])
	maxMsg, _ := strconv.Atoi(w[4])
	flush, _ := strconv.Atoi(w[5])
	var f transport.BatchFactory
	switch w[2] {
	case "kafka":
		f = tkafka.NewBatchFactory(kafkaTransportConfig("t", maxMsg, size, flush, "random"))
	case "s3":
		f = ts3.NewBatchFactory(map[string]interface{}{ts3.ConfVarPutBatchSize: size, config.VAR_NAME_WORKERS: 1})
	case "rabbitmq":
		f = trabbit.NewBatchFactory(map[string]interface{}{trabbit.ConfVarWriteBatchSize: size, config.VAR_NAME_WORKERS: 1})
	default:
		return "bad-op"
	}
	mk := func(id, n int) *marshaller.MarshalledMessage {
		return &marshaller.MarshalledMessage{Operation: "INSERT", Table: "public.t", Json: mkJson(id, n), TimeBasedKey: "1-1", Transaction: "1", WalStart: uint64(id), PartitionKey: ""}
	}
	b := f.NewBatch("")
	fullAt := -1
	for i := 1; i <= size+3; i++ {
		ok, err := b.Add(mk(i, 16))
		if err != nil || !ok {
			fullAt = i - 1
			break
		}
		if b.IsFull() {
			fullAt = i
			break
		}
	}
	out := fmt.Sprintf("full_at=%d", fullAt)
	if w[2] == "kafka" {
		verdict := func(n int) string {
			_, err := f.NewBatch("").Add(mk(1, n))
			if err == nil {
				return "ok"
			}
			if err.Error() == transport.ERR_MSG_TOOBIG {
				return "toobig"
			}
			return "err"
		}
		out += " big=" + verdict(maxMsg+1)
		if maxMsg >= 300 {
			out += " small=" + verdict(maxMsg-200)
		} else {
			out += " small=ok"
		}
	}
	return out
}

// plumbing workers <kind> <n>: the sink's workers as its factory builds them: how many DIFFERENT retry policy objects
// they hold (a policy is stateful - Reset restarts its give-up clock - so one shared between workers lets any
// worker's traffic keep every other worker's budget from ever running out)
func plumbingWorkers(w []string) (res string) {
	defer func() {
		if r := recover(); r != nil {
			res = fmt.Sprintf("panic %v", r)
		}
	}()
	n, _ := strconv.Atoi(w[3])
	sh := shutdown.NewShutdownHandler()
	defer sh.CancelFunc()
	ins := make([]<-chan transport.Batch, n)
	for i := range ins {
		ins[i] = make(chan transport.Batch)
	}
	written := make(chan *ordered_map.OrderedMap, 1)
	statsChan := make(chan stats.Stat, 16)
	seen := map[interface{}]bool{}
	switch w[2] {
	case "kinesis":
		ts := tkinesis.New(sh, written, statsChan, n, ins, map[string]interface{}{tkinesis.ConfVarStreamName: "s", tkinesis.ConfVarAwsRegion: "us-east-1",
			tkinesis.ConfVarAwsAccessKeyId: "k", tkinesis.ConfVarAwsSecretAccessKey: "s", tkinesis.ConfVarEndpoint: "http://127.0.0.1:1",
			config.VAR_NAME_WORKERS: n, config.VAR_NAME_PARTITION_METHOD: partitioner.PART_METHOD_NONE})
		for _, t := range ts {
			seen[(*t).(*kintr.KinesisTransporter).VerifRetryPolicy()] = true
		}
	case "s3":
		ts := ts3.New(sh, written, statsChan, n, ins, map[string]interface{}{ts3.ConfVarBucketName: "b", ts3.ConfVarKeySpace: "k", ts3.ConfVarPutBatchSize: 10,
			ts3.ConfVarAwsRegion: "us-east-1", ts3.ConfVarAwsAccessKeyId: "k", ts3.ConfVarAwsSecretAccessKey: "s", ts3.ConfVarEndpoint: "http://127.0.0.1:1",
			ts3.ConfVarBufMaxRuse: 4, config.VAR_NAME_WORKERS: n})
		for _, t := range ts {
			seen[(*t).(*s3tr.S3Transporter).VerifRetryPolicy()] = true
		}
	default:
		return "bad-op"
	}
	return fmt.Sprintf("policies=%d", len(seen))
}

// plumbing s3put <keyspacehex> <bufmaxreuse> <nbatches>: the S3 sink end to end as its factory builds it - option map →
// s3.New → the real AWS SDK client → HTTP. A local HTTP server plays S3 (path style, as the factory sets it for a custom
// endpoint); each batch is two records with first LSN 1000·i. Observed: the bucket and the key prefix of every PUT, the
// LSN in each file name, and whether each body gunzips to exactly the batch's records, one JSON per line.
func plumbingS3Put(w []string) (res string) {
	defer func() {
		if r := recover(); r != nil {
			res = fmt.Sprintf("panic %v", r)
		}
	}()
	keySpace := unhexs(w[2])
	reuse, _ := strconv.Atoi(w[3])
	n, _ := strconv.Atoi(w[4])
	type put struct {
		path string
		body []byte
		enc  string
	}
	var mu sync.Mutex
	var puts []put
	srv := httptest.NewServer(http.HandlerFunc(func(rw http.ResponseWriter, r *http.Request) {
		b, _ := io.ReadAll(r.Body)
		if r.Method == "PUT" {
			mu.Lock()
			puts = append(puts, put{r.URL.EscapedPath(), b, r.Header.Get("Content-Encoding")})
			mu.Unlock()
		}
		rw.Header().Set("ETag", "\"0\"")
		rw.WriteHeader(200)
	}))
	defer srv.Close()
	sh := shutdown.NewShutdownHandler()
	in := make(chan transport.Batch)
	written := make(chan *ordered_map.OrderedMap, 64)
	statsChan := make(chan stats.Stat, 4096)
	ts := ts3.New(sh, written, statsChan, 1, []<-chan transport.Batch{in}, map[string]interface{}{ts3.ConfVarBucketName: "verif-bucket", ts3.ConfVarKeySpace: keySpace,
		ts3.ConfVarPutBatchSize: 2, ts3.ConfVarAwsRegion: "us-east-1", ts3.ConfVarAwsAccessKeyId: "k", ts3.ConfVarAwsSecretAccessKey: "s", ts3.ConfVarEndpoint: srv.URL,
		ts3.ConfVarBufMaxRuse: reuse, config.VAR_NAME_WORKERS: 1})
	done := make(chan struct{})
	go func() { defer close(done); (*ts[0]).StartTransporting() }()
	want := [][]byte{}
	for i := 1; i <= n; i++ {
		b := batch.NewGenericBatch("", 2)
		var body []byte
		for j := 0; j < 2; j++ {
			js := []byte(fmt.Sprintf("{\"batch\":%d,\"rec\":%d,\"pad\":\"%s\"}", i, j, strings.Repeat("x", (i*7+j*3)%40)))
			b.Add(&marshaller.MarshalledMessage{Operation: "INSERT", Table: "public.t", Json: js, TimeBasedKey: fmt.Sprintf("%d-1", i), Transaction: strconv.Itoa(i), WalStart: uint64(1000*i + j)})
			body = append(append(body, js...), '\n')
		}
		b.Close()
		want = append(want, body)
		select {
		case in <- b:
		case <-time.After(5 * time.Second):
			sh.CancelFunc()
			return "hang feeding"
		}
		select {
		case <-written:
		case <-time.After(10 * time.Second):
			sh.CancelFunc()
			return fmt.Sprintf("batch %d not reported written", i)
		}
	}
	sh.CancelFunc()
	close(in)
	select {
	case <-done:
	case <-time.After(3 * time.Second):
	}
	mu.Lock()
	defer mu.Unlock()
	prefixes := map[string]bool{}
	lsns := []string{}
	bodies := "ok"
	bucket := ""
	for i, p := range puts {
		seg := strings.Split(strings.TrimPrefix(p.path, "/"), "/")
		if len(seg) < 6 {
			return "bad-key " + p.path
		}
		bucket = seg[0]
		prefixes[strings.Join(seg[1:len(seg)-5], "/")] = true
		file := seg[len(seg)-1]
		us := strings.LastIndex(file, "_")
		if us < 0 || !strings.HasSuffix(file, ".gz") {
			return "bad-file " + file
		}
		lsns = append(lsns, strings.TrimSuffix(file[us+1:], ".gz"))
		zr, err := gzip.NewReader(bytes.NewReader(p.body))
		if err != nil {
			bodies = fmt.Sprintf("put%d-not-gzip", i)
			continue
		}
		plain, err := io.ReadAll(zr)
		if err != nil || i >= len(want) || !bytes.Equal(plain, want[i]) || p.enc != "gzip" {
			bodies = fmt.Sprintf("put%d-differs", i)
		}
	}
	pf := []string{}
	for k := range prefixes {
		pf = append(pf, hexs(k))
	}
	sortStrings(pf)
	return fmt.Sprintf("bucket=%s prefix=%s puts=%d bodies=%s lsns=%s", hexs(bucket), strings.Join(pf, "|"), len(puts), bodies, strings.Join(lsns, ","))
}

// plumbing kinput <pmethod> <nbatches>: the Kinesis sink end to end as its factories build it - option map →
// kinesis.NewBatchFactory / kinesis.New → the real AWS SDK client → HTTP (a local server answers PutRecords with
// success for every record). Batch i has two records with LSNs 1000·i and 1000·i+1 and partition key "pk<i>".
// Observed: the stream every call names, the records' data in order, and the Kinesis partition key of every record.
func plumbingKinPut(w []string) (res string) {
	defer func() {
		if r := recover(); r != nil {
			res = fmt.Sprintf("panic %v", r)
		}
	}()
	pm := partitioner.GetPartitionMethod(w[2])
	n, _ := strconv.Atoi(w[3])
	type rec struct {
		Data         []byte
		PartitionKey string
	}
	type req struct {
		StreamName string
		Records    []rec
	}
	var mu sync.Mutex
	var calls []req
	srv := httptest.NewServer(http.HandlerFunc(func(rw http.ResponseWriter, r *http.Request) {
		b, _ := io.ReadAll(r.Body)
		var q req
		json.Unmarshal(b, &q)
		if strings.HasSuffix(r.Header.Get("X-Amz-Target"), ".PutRecords") {
			mu.Lock()
			calls = append(calls, q)
			mu.Unlock()
		}
		out := []string{}
		for i := range q.Records {
			out = append(out, fmt.Sprintf("{\"SequenceNumber\":\"%d\",\"ShardId\":\"shardId-000000000000\"}", i+1))
		}
		rw.Header().Set("Content-Type", "application/x-amz-json-1.1")
		rw.WriteHeader(200)
		fmt.Fprintf(rw, "{\"FailedRecordCount\":0,\"Records\":[%s]}", strings.Join(out, ","))
	}))
	defer srv.Close()
	cfg := map[string]interface{}{tkinesis.ConfVarStreamName: "verif-stream", tkinesis.ConfVarAwsRegion: "us-east-1",
		tkinesis.ConfVarAwsAccessKeyId: "k", tkinesis.ConfVarAwsSecretAccessKey: "s", tkinesis.ConfVarEndpoint: srv.URL,
		config.VAR_NAME_WORKERS: 1, config.VAR_NAME_PARTITION_METHOD: pm}
	sh := shutdown.NewShutdownHandler()
	in := make(chan transport.Batch)
	written := make(chan *ordered_map.OrderedMap, 64)
	statsChan := make(chan stats.Stat, 4096)
	bf := tkinesis.NewBatchFactory(cfg)
	ts := tkinesis.New(sh, written, statsChan, 1, []<-chan transport.Batch{in}, cfg)
	done := make(chan struct{})
	go func() { defer close(done); (*ts[0]).StartTransporting() }()
	for i := 1; i <= n; i++ {
		pk := fmt.Sprintf("pk%d", i)
		if pm == partitioner.PART_METHOD_NONE {
			pk = ""
		}
		b := bf.NewBatch(pk)
		for j := 0; j < 2; j++ {
			b.Add(&marshaller.MarshalledMessage{Operation: "INSERT", Table: "public.t", Json: []byte(fmt.Sprintf("{\"b\":%d,\"r\":%d}", i, j)),
				TimeBasedKey: fmt.Sprintf("%d-1", i), Transaction: strconv.Itoa(i), WalStart: uint64(1000*i + j), PartitionKey: pk})
		}
		select {
		case in <- b:
		case <-time.After(5 * time.Second):
			sh.CancelFunc()
			return "hang feeding"
		}
		select {
		case <-written:
		case <-time.After(10 * time.Second):
			sh.CancelFunc()
			return fmt.Sprintf("batch %d not reported written", i)
		}
	}
	sh.CancelFunc()
	close(in)
	select {
	case <-done:
	case <-time.After(3 * time.Second):
	}
	mu.Lock()
	defer mu.Unlock()
	streams := map[string]bool{}
	data, keys := []string{}, []string{}
	for _, c := range calls {
		streams[c.StreamName] = true
		for _, r := range c.Records {
			data = append(data, string(r.Data))
			keys = append(keys, r.PartitionKey)
		}
	}
	sl := []string{}
	for k := range streams {
		sl = append(sl, k)
	}
	sortStrings(sl)
	return fmt.Sprintf("stream=%s calls=%d data=%s keys=%s", strings.Join(sl, "|"), len(calls), hexs(strings.Join(data, ";")), strings.Join(keys, ","))
}

// plumbing ddreport <nwindows> <ncounts>: the Datadog reporter as the reporter factory builds it (real statsd client,
// its default client-side aggregation) against a local UDP socket. The aggregator's output for <nwindows> windows of one
// histogram statistic (total, _avg, _max, _min each) and <ncounts> windows of one count statistic is queued as ONE burst
// before the reporter starts. Observed: every metric line that arrives, as a sorted multiset.
func plumbingDDReport(w []string) (res string) {
	defer func() {
		if r := recover(); r != nil {
			res = fmt.Sprintf("panic %v", r)
		}
	}()
	nw, _ := strconv.Atoi(w[2])
	nc, _ := strconv.Atoi(w[3])
	pc, err := net.ListenPacket("udp", "127.0.0.1:0")
	if err != nil {
		return "harness-error " + err.Error()
	}
	defer pc.Close()
	var mu sync.Mutex
	got := []string{}
	go func() {
		buf := make([]byte, 65536)
		for {
			n, _, err := pc.ReadFrom(buf)
			if err != nil {
				return
			}
			mu.Lock()
			for _, l := range strings.Split(string(buf[:n]), "\n") {
				if l = strings.TrimSpace(l); l != "" && strings.HasPrefix(l, "bifrost.") {
					if k := strings.Index(l, "|#"); k >= 0 {
						l = l[:k]
					}
					got = append(got, l)
				}
			}
			mu.Unlock()
		}
	}()
	sh := shutdown.NewShutdownHandler()
	in := make(chan stats.Stat, 256)
	total := 0
	for i := 1; i <= nw; i++ {
		ts := int64(i) * 60e9
		for j, sfx := range []string{"", "_avg", "_max", "_min"} {
			in <- stats.Stat{Component: "batcher", StatName: "batch_write_wait" + sfx, StatType: stats.Histogram, Unit: "ms", Value: int64(100*i + j), Timestamp: ts}
			total++
		}
	}
	for i := 1; i <= nc; i++ {
		in <- stats.Stat{Component: "transport", StatName: "written", StatType: stats.Count, Unit: "count", Value: int64(1000 + i), Timestamp: int64(i) * 60e9}
		total++
	}
	r, err := rfactory.New(sh, in, reporters.DATADOG, map[string]interface{}{config.VAR_NAME_DD_HOST: pc.LocalAddr().String(), config.VAR_NAME_DD_TAGS: []string{"env:verif"}})
	if err != nil {
		return "harness-error " + err.Error()
	}
	done := make(chan struct{})
	go func() { defer close(done); r.Start() }()
	for i := 0; i < 300; i++ {
		time.Sleep(10 * time.Millisecond)
		mu.Lock()
		n := len(got)
		mu.Unlock()
		if n >= total && len(in) == 0 {
			break
		}
	}
	time.Sleep(50 * time.Millisecond)
	close(in)
	select {
	case <-done:
	case <-time.After(3 * time.Second):
	}
	time.Sleep(50 * time.Millisecond)
	mu.Lock()
	defer mu.Unlock()
	sortStrings(got)
	return fmt.Sprintf("lines=%d %s", len(got), strings.Join(got, ","))
}

// plumbing startworkers <n>: the transport manager (stdout sink, n workers) starts its workers; one batch is put on EVERY
// worker's queue. Observed: which queues were served (the batch's transactions came back on the progress channel).
func plumbingStartWorkers(w []string) (res string) {
	defer func() {
		if r := recover(); r != nil {
			res = fmt.Sprintf("panic %v", r)
		}
	}()
	n, _ := strconv.Atoi(w[2])
	sh := shutdown.NewShutdownHandler()
	defer sh.CancelFunc()
	in := make(chan *marshaller.MarshalledMessage)
	seenCh := make(chan []*progress.Seen, 16)
	written := make(chan *ordered_map.OrderedMap, 64)
	statsChan := make(chan stats.Stat, 4096)
	m := manager.New(sh, in, seenCh, written, statsChan, transport.STDOUT,
		map[string]interface{}{config.VAR_NAME_WORKERS: n, config.VAR_NAME_PARTITION_METHOD: partitioner.PART_METHOD_NONE, config.VAR_NAME_BATCHER_ROUTING_METHOD: batcher.BATCH_ROUTING_ROUND_ROBIN},
		500, 1000, 2, 1000, int64(104857600), batcher.BATCH_ROUTING_ROUND_ROBIN)
	m.StartTransporterGroup()
	chans := m.GetBatcher().GetOutputChans()
	for k, ch := range chans {
		b := batch.NewGenericBatch("", 1)
		b.Add(&marshaller.MarshalledMessage{Operation: "INSERT", Table: "public.t", Json: []byte(fmt.Sprintf("{\"worker\":%d}", k)), TimeBasedKey: fmt.Sprintf("w%d", k), Transaction: strconv.Itoa(k), WalStart: uint64(k + 1)})
		b.Close()
		select {
		case ch <- b:
		case <-time.After(2 * time.Second):
			return fmt.Sprintf("queue %d blocked", k)
		}
	}
	served := []string{}
	deadline := time.After(3 * time.Second)
loop:
	for len(served) < len(chans) {
		select {
		case om := <-written:
			if om != nil {
				it := om.IterFunc()
				for kv, ok := it(); ok; kv, ok = it() {
					served = append(served, strings.TrimPrefix(kv.Key.(string), "w"))
				}
			}
		case <-deadline:
			break loop
		}
	}
	sortStrings(served)
	return fmt.Sprintf("queues=%d served=%s", len(chans), strings.Join(served, ","))
}

type plumbReporter struct{ errs []string }

func (r *plumbReporter) Error(a ...interface{})            { r.errs = append(r.errs, fmt.Sprint(a...)) }
func (r *plumbReporter) Errorf(f string, a ...interface{}) { r.errs = append(r.errs, fmt.Sprintf(f, a...)) }
func (r *plumbReporter) Fatal(a ...interface{})            { r.errs = append(r.errs, fmt.Sprint(a...)) }
func (r *plumbReporter) Fatalf(f string, a ...interface{}) { r.errs = append(r.errs, fmt.Sprintf(f, a...)) }

// plumbing kafkaput <accept|reject>: the Kafka sink end to end as its factories build it - option map → kafka.New (the
// real sarama sync producer with the repository's producer configuration) → sarama's MockBroker speaking the wire
// protocol, which answers every produce request for the partition with success or with MESSAGE_TOO_LARGE.
// Observed: how many batches the worker reported written and whether it raised the termination signal.
func plumbingKafkaPut(w []string) (res string) {
	defer func() {
		if r := recover(); r != nil {
			res = fmt.Sprintf("panic %v", r)
		}
	}()
	rep := &plumbReporter{}
	broker := sarama.NewMockBroker(rep, 1)
	defer broker.Close()
	kerr := sarama.ErrNoError
	if w[2] == "reject" {
		kerr = sarama.ErrMessageSizeTooLarge
	}
	broker.SetHandlerByMap(map[string]sarama.MockResponse{
		"ApiVersionsRequest": sarama.NewMockApiVersionsResponse(rep),
		"MetadataRequest":    sarama.NewMockMetadataResponse(rep).SetBroker(broker.Addr(), broker.BrokerID()).SetLeader("verif-topic", 0, broker.BrokerID()),
		"ProduceRequest":     sarama.NewMockProduceResponse(rep).SetVersion(3).SetError("verif-topic", 0, kerr),
	})
	host, port, err := net.SplitHostPort(broker.Addr())
	if err != nil {
		return "harness-error " + err.Error()
	}
	cfg := kafkaTransportConfig("verif-topic", 1000000, 10, 1, "transaction-constant")
	cfg[tkafka.ConfVarBootstrapHost], cfg[tkafka.ConfVarBootstrapPort] = host, port
	cfg[tkafka.ConfVarKafkaFlushFrequency], cfg[tkafka.ConfVarKafkaRetryMax] = 10, 1
	sh := shutdown.NewShutdownHandler()
	defer sh.CancelFunc()
	in := make(chan transport.Batch, 4)
	written := make(chan *ordered_map.OrderedMap, 8)
	statsChan := make(chan stats.Stat, 4096)
	ts := tkafka.New(sh, written, statsChan, 1, []<-chan transport.Batch{in}, cfg)
	b := tkafka.NewBatchFactory(cfg).NewBatch("")
	for i, txn := range []string{"100", "101"} {
		b.Add(&marshaller.MarshalledMessage{Operation: "INSERT", Table: "users", Json: []byte("{\"id\":" + txn + "}"), TimeBasedKey: txn + "-0", WalStart: uint64(1000 + i), Transaction: txn})
	}
	in <- b
	done := make(chan struct{})
	go func() { defer close(done); (*ts[0]).StartTransporting() }()
	nw, stopped := 0, false
	deadline := time.After(12 * time.Second)
loop:
	for {
		select {
		case m, ok := <-written:
			if !ok {
				written = nil
				continue
			}
			if m != nil {
				nw++
			}
			deadline = time.After(700 * time.Millisecond)
		case <-sh.TerminateCtx.Done():
			stopped = true
			break loop
		case <-deadline:
			break loop
		}
	}
	sh.CancelFunc()
	select {
	case <-done:
	case <-time.After(8 * time.Second):
	}
	return fmt.Sprintf("written=%d stopped=%s", nw, b01(stopped))
}

// plumbing datestring <offsetHours>: utils.RealTime.DateString (what the S3 key's date parts are made of) with the
// process's local zone set to UTC+offset, against the same instant rendered independently: year, two-digit month, day
// and 24-hour hour, and yyyymmddhhmmss.
func plumbingDateString(w []string) string {
	off, _ := strconv.Atoi(w[2])
	plumbZoneMu.Lock()
	defer plumbZoneMu.Unlock()
	saved := time.Local
	time.Local = time.FixedZone("verif", off*3600)
	defer func() { time.Local = saved }()
	last := ""
	for try := 0; try < 5; try++ {
		t0 := time.Now()
		y, mo, d, h, full := utils.RealTime{}.DateString()
		t1 := time.Now()
		for _, t := range []time.Time{t0, t1} {
			t = t.In(time.Local)
			two := func(n int) string { return fmt.Sprintf("%02d", n) }
			ey, emo, ed, eh := strconv.Itoa(t.Year()), two(int(t.Month())), two(t.Day()), two(t.Hour())
			efull := ey + emo + ed + eh + two(t.Minute()) + two(t.Second())
			if y == ey && mo == emo && d == ed && h == eh && full == efull {
				return "ok"
			}
			last = fmt.Sprintf("got %s/%s/%s/%s/%s want %s/%s/%s/%s/%s", y, mo, d, h, full, ey, emo, ed, eh, efull)
		}
	}
	return last
}

var plumbZoneMu sync.Mutex

func plumbingRun(c Case) ([]string, []string) {
	outs := []string{}
	for _, l := range c.Lines {
		w := strings.Fields(l)
		if len(w) == 3 && w[1] == "startworkers" {
			outs = append(outs, plumbingStartWorkers(w))
			continue
		}
		if len(w) == 3 && w[1] == "kafkaput" {
			outs = append(outs, plumbingKafkaPut(w))
			continue
		}
		if len(w) == 3 && w[1] == "datestring" {
			outs = append(outs, strings.ReplaceAll(plumbingDateString(w), " ", "_"))
			continue
		}
		if len(w) == 4 && w[1] == "ddreport" {
			outs = append(outs, plumbingDDReport(w))
			continue
		}
		if len(w) == 4 && w[1] == "kinput" {
			outs = append(outs, plumbingKinPut(w))
			continue
		}
		if len(w) == 5 && w[1] == "s3put" {
			outs = append(outs, plumbingS3Put(w))
			continue
		}
		if len(w) == 4 && w[1] == "workers" {
			outs = append(outs, plumbingWorkers(w))
			continue
		}
		if len(w) == 6 && w[1] == "factory" {
			outs = append(outs, plumbingFactory(w))
			continue
		}
		if len(w) != 14 {
			outs = append(outs, "bad-op")
			continue
		}
		outs = append(outs, plumbingOne(w))
	}
	return c.Lines, outs
}

func plumbingGen(r *Rng, tier string) Case {
	ages := []int{1, 50, 100, 300, 500, 1000, 5000, 60000}
	list := []string{}
	for i := r.Range(0, 3); i > 0; i-- {
		list = append(list, hexs(Pick(r, relPool)))
	}
	ls := "-"
	if len(list) > 0 {
		ls = strings.Join(list, ",")
	}
	if r.Chance(8) {
		return Case{[]string{fmt.Sprintf("plumbing startworkers %d", r.Range(1, 5))}}
	}
	if r.Chance(12) {
		return Case{[]string{fmt.Sprintf("plumbing datestring %d", r.Range(-11, 12))}}
	}
	if r.Chance(6) {
		return Case{[]string{"plumbing kafkaput " + Pick(r, []string{"accept", "reject"})}}
	}
	if r.Chance(8) {
		return Case{[]string{fmt.Sprintf("plumbing ddreport %d %d", r.Range(1, 3), r.Range(0, 3))}}
	}
	if r.Chance(10) {
		return Case{[]string{fmt.Sprintf("plumbing kinput %s %d", Pick(r, []string{"none", "tablename", "transaction", "transaction-bucket"}), r.Range(1, 5))}}
	}
	if r.Chance(12) {
		// no INNER double slash: the AWS SDK's REST URI cleaning collapses it on the wire ("a//b/…" is stored as "a/b/…"),
		// which is outside C12 (the key handed to PutObject is judged by the `s3` component) - see DESIGN 10.3
		ks := Pick(r, []string{"", "a", "data/cdc", "/a/", "//a//", "/", "///", "x-1_y/z", "/deep/er/space/"})
		return Case{[]string{fmt.Sprintf("plumbing s3put %s %d %d", hexs(ks), r.Range(0, 3), r.Range(1, 6))}}
	}
	if r.Chance(15) {
		return Case{[]string{fmt.Sprintf("plumbing workers %s %d", Pick(r, []string{"kinesis", "s3"}), r.Range(1, 5))}}
	}
	if r.Chance(35) {
		sizes := []int{1000, 5000, 100000, 262144, 1000000}
		return Case{[]string{fmt.Sprintf("plumbing factory %s %d %d %d", Pick(r, []string{"kafka", "kafka", "s3", "rabbitmq"}), r.Range(1, 40), Pick(r, sizes), Pick(r, sizes))}}
	}
	// every combination is legal for main.go (it only demands positive integers): ages in either order, fewer buckets
	// than workers, partition routing without a partition method, …
	return Case{[]string{fmt.Sprintf("plumbing %d %s %s %d %d %d %d %d %d %d %d %d %s",
		r.Range(1, 6), Pick(r, []string{"round-robin", "partition"}), Pick(r, []string{"none", "tablename", "transaction", "transaction-bucket"}),
		r.Range(1, 8), Pick(r, ages), Pick(r, ages), r.Range(1, 5), Pick(r, []int{1, 50, 1000}), int64(Pick(r, []int{1, 1024, 104857600})),
		r.Intn(2), r.Intn(2), r.Intn(2), ls)}}
}

// which property a configuration value belongs to
var plumbProp = map[string]string{"tick": "C16", "upd": "C16", "max": "C16", "mem": "C16", "workers": "C05", "chans": "C05", "depth": "C05", "routing": "C05",
	"pmethod": "C06", "buckets": "C06", "wl": "C08", "rx": "C08", "list": "C08", "noold": "C10"}

func plumbingMonitor(lines, outs []string, m *Model) []Violation {
	var vs []Violation
	for i, l := range lines {
		if i >= len(outs) {
			break
		}
		want, err := m.Do(l)
		if err != nil || want == "bad-op" {
			continue
		}
		if strings.HasPrefix(outs[i], "panic") {
			vs = append(vs, Violation{"C17", "app.New panics on a configuration main.go accepts: " + l + " => " + outs[i], ""})
			continue
		}
		if strings.HasPrefix(l, "plumbing startworkers") {
			if want != outs[i] {
				vs = append(vs, Violation{"C17", "the transport manager does not start one worker per queue: wanted " + want + ", observed " + outs[i] + " (" + l + "): batches routed to an unserved queue are never written, and a fault there never stops the process", ""})
				vs = append(vs, Violation{"C05", "a batch put on a worker's queue is not served by that worker: wanted " + want + ", observed " + outs[i] + " (" + l + ")", ""})
			}
			continue
		}
		if strings.HasPrefix(l, "plumbing kafkaput") {
			if want != outs[i] {
				vs = append(vs, Violation{"C14", "the Kafka sink as its factories build it (options → kafka.New, the repository's sarama producer configuration → a broker speaking the wire protocol): wanted " + want + ", observed " + outs[i] + " (" + l + "): a batch the broker rejected is reported written, or an accepted one is not, or the worker does not stop", ""})
			}
			continue
		}
		if strings.HasPrefix(l, "plumbing datestring") {
			if want != outs[i] {
				vs = append(vs, Violation{"C12", "the date parts the S3 key is built from are not year / two-digit month / day / 24-hour hour / yyyymmddhhmmss of the current time: " + outs[i] + " (" + l + ", local zone UTC+offset)", ""})
			}
			continue
		}
		if strings.HasPrefix(l, "plumbing ddreport") {
			if want != outs[i] {
				vs = append(vs, Violation{"C19", "what reaches Datadog is not what the aggregator reported (one metric line per reported statistic, counts as counts, histogram parts as gauges): wanted " + want + ", observed " + outs[i] + " (" + l + ")", ""})
			}
			continue
		}
		if strings.HasPrefix(l, "plumbing kinput") {
			if want != outs[i] {
				vs = append(vs, Violation{"C11", "the Kinesis sink as its factories build it (options → batch factory, kinesis.New → AWS SDK → HTTP): written batches do not correspond to accepted PutRecords calls on the configured stream: wanted " + want + ", observed " + outs[i] + " (" + l + ")", ""})
				vs = append(vs, Violation{"C06", "a Kinesis record does not carry the partition key its partition method dictates: wanted " + want + ", observed " + outs[i] + " (" + l + ")", ""})
			}
			continue
		}
		if strings.HasPrefix(l, "plumbing s3put") {
			if want != outs[i] {
				vs = append(vs, Violation{"C12", "the S3 sink as its factory builds it (options → s3.New → AWS SDK → HTTP) does not put one complete, correctly keyed object per written batch: wanted " + want + ", observed " + outs[i] + " (" + l + ")", ""})
			}
			continue
		}
		if strings.HasPrefix(l, "plumbing workers") {
			if want != outs[i] {
				vs = append(vs, Violation{"C17", "the sink's workers do not each have a retry policy of their own: wanted " + want + ", observed " + outs[i] + " (" + l + "): a worker whose batch keeps failing never exhausts a budget that other workers keep resetting", ""})
			}
			continue
		}
		if strings.HasPrefix(l, "plumbing factory") {
			if want != outs[i] {
				vs = append(vs, Violation{"C15", "a batch factory does not apply the configured limits: wanted " + want + ", observed " + outs[i] + " (" + l + ")", ""})
			}
			continue
		}
		wf, gf := strings.Fields(want), strings.Fields(outs[i])
		if len(wf) != len(gf) {
			continue
		}
		for k := range wf {
			if wf[k] != gf[k] {
				name := strings.SplitN(wf[k], "=", 2)[0]
				vs = append(vs, Violation{plumbProp[name], "the configured value does not reach the stage: wanted " + wf[k] + ", the stage was built with " + gf[k] + " (" + l + ")", ""})
			}
		}
	}
	return vs
}

func init() {
	register(&Component{Name: "plumbing", Gen: plumbingGen, Run: plumbingRun, Monitor: plumbingMonitor, Quick: 60, Thorough: 1500})
}
