package main

import (
	"context"
	"encoding/hex"
	"fmt"
	"reflect"
	"strconv"
	"strings"
	"time"

	"github.com/Nextdoor/pg-bifrost.git/app/config"
	"github.com/Nextdoor/pg-bifrost.git/marshaller"
	"github.com/Nextdoor/pg-bifrost.git/partitioner"
	"github.com/Nextdoor/pg-bifrost.git/shutdown"
	"github.com/Nextdoor/pg-bifrost.git/stats"
	"github.com/Nextdoor/pg-bifrost.git/transport"
	"github.com/Nextdoor/pg-bifrost.git/transport/batch"
	"github.com/Nextdoor/pg-bifrost.git/transport/batcher"
	"github.com/Nextdoor/pg-bifrost.git/transport/progress"
	"github.com/Nextdoor/pg-bifrost.git/transport/transporters/kafka"
	"github.com/Nextdoor/pg-bifrost.git/transport/transporters/kinesis"
	kbatch "github.com/Nextdoor/pg-bifrost.git/transport/transporters/kinesis/batch"
	"github.com/Shopify/sarama"
	awskinesis "github.com/aws/aws-sdk-go/service/kinesis"
	"github.com/cevaris/ordered_map"
)

// parkCtx is a context.Context whose Done() is the synchronisation point with a stage loop:
// every real stage calls TerminateCtx.Done() at the top of its select, so each call hands
// control to the harness and blocks until released (DESIGN §2.3).
type parkCtx struct {
	parked chan struct{}
	resume chan struct{}
	done   chan struct{}
}

func newParkCtx() *parkCtx {
	return &parkCtx{make(chan struct{}), make(chan struct{}), make(chan struct{})}
}
func (p *parkCtx) Done() <-chan struct{} {
	p.parked <- struct{}{}
	<-p.resume
	return p.done
}
func (p *parkCtx) Err() error {
	select {
	case <-p.done:
		return context.Canceled
	default:
		return nil
	}
}
func (p *parkCtx) Deadline() (time.Time, bool) { return time.Time{}, false }
func (p *parkCtx) Value(interface{}) interface{} { return nil }

func hexs(s string) string {
	if s == "" {
		return "e"
	}
	return hex.EncodeToString([]byte(s))
}
func unhexs(s string) string {
	if s == "e" {
		return ""
	}
	b, _ := hex.DecodeString(s)
	return string(b)
}

func showTxns(om *ordered_map.OrderedMap) string {
	parts := []string{}
	it := om.IterFunc()
	for kv, ok := it(); ok; kv, ok = it() {
		w := kv.Value.(*progress.Written)
		parts = append(parts, fmt.Sprintf("%s:%s:%d", unname(w.TimeBasedKey), unname(w.Transaction), w.Count))
	}
	return "[" + strings.Join(parts, ";") + "]"
}

func idOf(b []byte) string {
	if len(b) < 8 {
		return "?"
	}
	n, err := strconv.ParseUint(string(b[:8]), 16, 64)
	if err != nil {
		return "?"
	}
	return strconv.FormatUint(n, 10)
}

func payloadIds(b transport.Batch) string {
	ids := []string{}
	switch p := b.GetPayload().(type) {
	case []*marshaller.MarshalledMessage:
		for _, m := range p {
			ids = append(ids, idOf(m.Json))
		}
	case []*awskinesis.PutRecordsRequestEntry:
		for _, r := range p {
			ids = append(ids, idOf(r.Data))
		}
	case []*sarama.ProducerMessage:
		for _, m := range p {
			v, _ := m.Value.Encode()
			ids = append(ids, idOf(v))
		}
	}
	return "[" + strings.Join(ids, ",") + "]"
}

// kinesisKeys renders the partition key of every Kinesis record of the batch (C06)
func kinesisKeys(b transport.Batch) string {
	p, ok := b.GetPayload().([]*awskinesis.PutRecordsRequestEntry)
	if !ok {
		return ""
	}
	ks := []string{}
	for _, r := range p {
		if r.PartitionKey == nil {
			ks = append(ks, "nil")
		} else {
			ks = append(ks, hexs(*r.PartitionKey))
		}
	}
	return ":[" + strings.Join(ks, ",") + "]"
}

func mkJson(id, size int) []byte {
	if size < 8 {
		size = 8
	}
	b := make([]byte, size)
	copy(b, fmt.Sprintf("%08x", id))
	for i := 8; i < size; i++ {
		b[i] = 'x'
	}
	return b
}

type bEnv struct {
	b       *batcher.Batcher
	in      chan *marshaller.MarshalledMessage
	seen    chan []*progress.Seen
	written chan *ordered_map.OrderedMap
	stats   chan stats.Stat
	outs    []chan transport.Batch
	pc      *parkCtx
	exited  chan struct{}
	kafkaMethod string
	isKafka bool
	dead    bool
	parkedNow bool
}

func kafkaKeyLen(method string, m *marshaller.MarshalledMessage) sarama.Encoder {
	switch method {
	case "transaction":
		return sarama.StringEncoder(m.TimeBasedKey)
	case "transaction-constant":
		return sarama.StringEncoder(m.Transaction)
	case "batch":
		return sarama.StringEncoder("00000000-0000-0000-0000-000000000000")
	case "tablename":
		return sarama.StringEncoder(m.Table)
	}
	return nil
}

func newBEnv(cfgLine []string) (*bEnv, error) {
	// batcher cfg <kind> <workers> <routing> <updNs> <maxNs> <mem>
	kind := strings.Split(cfgLine[2], ":")
	workers, _ := strconv.Atoi(cfgLine[3])
	routing := batcher.GetRoutingMethod(cfgLine[4])
	upd, _ := strconv.ParseInt(cfgLine[5], 10, 64)
	mx, _ := strconv.ParseInt(cfgLine[6], 10, 64)
	mem, _ := strconv.ParseInt(cfgLine[7], 10, 64)
	e := &bEnv{}
	var f transport.BatchFactory
	switch kind[0] {
	case "generic":
		n, _ := strconv.Atoi(kind[1])
		f = batch.NewGenericBatchFactory(n)
	case "kinesis":
		pm := partitioner.PART_METHOD_TABLENAME
		if kind[1] == "walstart" {
			pm = partitioner.PART_METHOD_NONE
		}
		if strings.HasPrefix(kind[1], "pm-") {
			// the configured partition method by its documented name: the factory's own decision (record keyed
			// by LSN or by the batch's partition key) is then part of what is compared (C06)
			pm = partitioner.GetPartitionMethod(kind[1][3:])
		}
		f = kinesis.NewBatchFactory(map[string]interface{}{config.VAR_NAME_PARTITION_METHOD: pm})
	case "kafka":
		n, _ := strconv.Atoi(kind[1])
		mb, _ := strconv.Atoi(kind[2])
		e.kafkaMethod = kind[3]
		e.isKafka = true
		f = kafka.NewBatchFactory(kafkaTransportConfig("topic", mb, n, 262144, e.kafkaMethod))
	default:
		return nil, fmt.Errorf("bad kind")
	}
	e.pc = newParkCtx()
	sh := shutdown.ShutdownHandler{TerminateCtx: e.pc, CancelFunc: func() {}}
	e.in = make(chan *marshaller.MarshalledMessage)
	e.seen = make(chan []*progress.Seen)
	e.written = make(chan *ordered_map.OrderedMap)
	e.stats = make(chan stats.Stat)
	// ages are passed to NewBatcher in ms; the harness uses whole milliseconds
	e.b = batcher.NewBatcher(sh, e.in, e.seen, e.written, e.stats, 3600*1000, f, workers,
		int(upd/1e6), int(mx/1e6), 0, mem, routing)
	e.outs = e.b.GetOutputChans()
	e.exited = make(chan struct{})
	go func() {
		defer close(e.exited)
		e.b.StartBatching()
	}()
	// wait for the first park
	select {
	case <-e.pc.parked:
		e.parkedNow = true
	case <-e.exited:
		e.dead = true
	case <-time.After(5 * time.Second):
		return nil, fmt.Errorf("batcher did not reach its loop")
	}
	return e, nil
}

// collect receives everything the batcher emits, in program order, until stop fires.
// It returns the rendered events, the batches/maps seen (for tick order) and why it stopped.
type bEvent struct {
	text  string
	pkey  string
	om    *ordered_map.OrderedMap
	isFlush bool
}

func (e *bEnv) collect(stop <-chan bool, alsoPark bool) ([]bEvent, string) {
	evs := []bEvent{}
	cases := []reflect.SelectCase{
		{Dir: reflect.SelectRecv, Chan: reflect.ValueOf(e.seen)},
		{Dir: reflect.SelectRecv, Chan: reflect.ValueOf(e.written)},
		{Dir: reflect.SelectRecv, Chan: reflect.ValueOf(e.stats)},
		{Dir: reflect.SelectRecv, Chan: reflect.ValueOf(e.exited)},
		{Dir: reflect.SelectRecv, Chan: reflect.ValueOf(stop)},
		{Dir: reflect.SelectRecv, Chan: reflect.ValueOf(time.After(20 * time.Second))},
	}
	if alsoPark {
		cases = append(cases, reflect.SelectCase{Dir: reflect.SelectRecv, Chan: reflect.ValueOf(e.pc.parked)})
	} else {
		cases = append(cases, reflect.SelectCase{Dir: reflect.SelectRecv, Chan: reflect.ValueOf((chan struct{})(nil))})
	}
	base := len(cases)
	for _, o := range e.outs {
		cases = append(cases, reflect.SelectCase{Dir: reflect.SelectRecv, Chan: reflect.ValueOf(o)})
	}
	for {
		i, v, ok := reflect.Select(cases)
		switch {
		case i == 0:
			if !ok {
				cases[0].Chan = reflect.ValueOf((chan []*progress.Seen)(nil))
				continue
			}
			parts := []string{}
			for _, s := range v.Interface().([]*progress.Seen) {
				parts = append(parts, fmt.Sprintf("%s:%s:%d:%d", unname(s.Transaction), unname(s.TimeBasedKey), s.TotalMsgs, s.CommitWalStart))
			}
			evs = append(evs, bEvent{text: "seen[" + strings.Join(parts, ";") + "]"})
		case i == 1:
			om := v.Interface().(*ordered_map.OrderedMap)
			evs = append(evs, bEvent{text: "self:" + showTxns(om), om: om, isFlush: true})
		case i == 2:
			st := v.Interface().(stats.Stat)
			switch st.StatName {
			case "dropped_too_big", "dropped_msg_invalid", "batch_closed_early":
				evs = append(evs, bEvent{text: "stat:" + st.StatName})
			}
		case i == 3:
			e.dead = true
			return evs, "exited"
		case i == 4:
			return evs, "stop"
		case i == 5:
			return evs, "timeout"
		case i == 6:
			e.parkedNow = true
			return evs, "parked"
		default:
			if !ok {
				cases[i].Chan = reflect.ValueOf((chan transport.Batch)(nil))
				continue
			}
			b := v.Interface().(transport.Batch)
			evs = append(evs, bEvent{
				text: fmt.Sprintf("dispatch:%d:%s:%s:%s:%d%s", i-base, hexs(b.GetPartitionKey()), payloadIds(b), showTxns(b.GetTransactions()), b.GetPayloadByteSize(), kinesisKeys(b)),
				pkey: b.GetPartitionKey(), isFlush: true})
		}
	}
}

func renderEvs(evs []bEvent, fatal bool) string {
	parts := []string{}
	for _, e := range evs {
		parts = append(parts, e.text)
	}
	if fatal {
		parts = append(parts, "fatal")
	}
	if len(parts) == 0 {
		return "-"
	}
	return strings.Join(parts, " ")
}

func (e *bEnv) stop() {
	if e.dead {
		return
	}
	// release the parked goroutine with a cancelled context so that it returns
	close(e.pc.done)
	if e.parkedNow {
		e.pc.resume <- struct{}{}
		e.parkedNow = false
	}
	never := make(chan bool)
	deadline := time.After(5 * time.Second)
	for {
		// drain whatever shutdown emits
		select {
		case <-e.exited:
			e.dead = true
			return
		case <-deadline:
			return
		default:
		}
		stopc := make(chan bool, 1)
		go func() { time.Sleep(20 * time.Millisecond); stopc <- true }()
		_, why := e.collect(stopc, true)
		_ = never
		if why == "exited" {
			return
		}
		if why == "parked" {
			e.pc.resume <- struct{}{}
			e.parkedNow = false
		}
	}
}

func batcherRun(c Case) ([]string, []string) {
	lines := []string{}
	outs := []string{}
	var e *bEnv
	defer func() {
		if e != nil {
			e.stop()
		}
	}()
	nmsg := 0               // message ops so far (the timed layer's clock is this index)
	brackets := [][3]int64{} // per handled message op: clock before, clock after, op index
	opOf := func(t int64) int64 {
		for _, b := range brackets {
			if b[0] <= t && t <= b[1] {
				return b[2]
			}
		}
		return 0
	}
	for _, l := range c.Lines {
		w := strings.Fields(l)
		if len(w) < 2 || w[0] != "batcher" {
			lines = append(lines, l)
			outs = append(outs, "bad-op")
			continue
		}
		switch w[1] {
		case "cfg":
			if e != nil {
				e.stop()
			}
			var err error
			nmsg, brackets = 0, brackets[:0]
			e, err = newBEnv(w)
			if err != nil {
				lines = append(lines, l)
				outs = append(outs, "harness-error "+err.Error())
				return lines, outs
			}
			// the model gets the real package constants for Kinesis
			k := strings.Split(w[2], ":")
			if k[0] == "kinesis" {
				w[2] = fmt.Sprintf("kinesis:%s:%d:%d:%d", k[1], kbatch.MAX_RECORDS, kbatch.MAX_BATCH_SIZE_BYTES, kbatch.MAX_RECORD_SIZE_BYTES)
			}
			lines = append(lines, strings.Join(w, " "))
			outs = append(outs, "ok")
		case "msg":
			if e == nil {
				lines = append(lines, l)
				outs = append(outs, "bad-op")
				continue
			}
			// batcher msg <op> <pk> <txn> <key> <size> <lsn> <id> <ksize>
			txn, _ := strconv.Atoi(w[4])
			key, _ := strconv.Atoi(w[5])
			size, _ := strconv.Atoi(w[6])
			lsn, _ := strconv.ParseUint(w[7], 10, 64)
			id, _ := strconv.Atoi(w[8])
			op := w[2]
			m := &marshaller.MarshalledMessage{Operation: op, Table: "public.t", TimeBasedKey: kname(key), WalStart: lsn, Transaction: tname(txn), PartitionKey: unhexs(w[3])}
			if op == "DATA" {
				m.Operation = "INSERT"
				if size < 8 {
					size = 8
					w[6] = "8"
				}
				m.Json = mkJson(id, size)
				if e.isKafka {
					pm := &sarama.ProducerMessage{Topic: "topic", Value: sarama.ByteEncoder(m.Json), Key: kafkaKeyLen(e.kafkaMethod, m)}
					w[9] = strconv.Itoa(pm.ByteSize(2))
				}
			}
			lines = append(lines, strings.Join(w, " "))
			nmsg++
			if e.dead {
				outs = append(outs, "-")
				continue
			}
			// clock bracket of this loop iteration: every time.Now() the batcher or a batch reads while it
			// handles the message lies between these two readings (timed layer, Model/BatcherTimed.lean)
			brLo := time.Now().UnixNano()
			brackets = append(brackets, [3]int64{brLo, 0, int64(nmsg)})
			if e.parkedNow {
				e.pc.resume <- struct{}{}
				e.parkedNow = false
			}
			sent := make(chan bool, 1)
			go func() {
				select {
				case e.in <- m:
				case <-e.exited:
				}
			}()
			evs, why := e.collect(sent, true)
			brackets[len(brackets)-1][1] = time.Now().UnixNano()
			if why == "timeout" {
				outs = append(outs, renderEvs(evs, false)+" hang")
				return lines, outs
			}
			outs = append(outs, renderEvs(evs, why == "exited"))
		case "tick":
			if e == nil {
				lines = append(lines, l)
				outs = append(outs, "bad-op")
				continue
			}
			if e.dead {
				lines = append(lines, "batcher tick 0 - -")
				outs = append(outs, "valid=true -")
				continue
			}
			sleepMs, _ := strconv.Atoi(w[2])
			if sleepMs > 0 {
				time.Sleep(time.Duration(sleepMs) * time.Millisecond)
			}
			open := e.b.VerifOpenBatches()
			updNs, maxNs := e.agesNs()
			const margin = int64(4e6)
			var now int64
			for tries := 0; ; tries++ {
				now = time.Now().UnixNano()
				close_ := false
				for _, b := range open {
					am := now - b.ModifyTime() - updNs
					ac := now - b.CreateTime() - maxNs
					if (am > -margin && am < margin) || (ac > -margin && ac < margin) {
						close_ = true
					}
				}
				if !close_ || tries > 50 {
					break
				}
				time.Sleep(5 * time.Millisecond)
			}
			times := []string{}
			idx := []string{}
			omToKey := map[*ordered_map.OrderedMap]string{}
			for k, b := range open {
				times = append(times, fmt.Sprintf("%s:%d:%d", hexs(k), b.CreateTime(), b.ModifyTime()))
				idx = append(idx, fmt.Sprintf("%s:%d:%d", hexs(k), opOf(b.CreateTime()), opOf(b.ModifyTime())))
				omToKey[b.GetTransactions()] = k
			}
			sortStrings(times)
			sortStrings(idx)
			done := make(chan bool, 1)
			t0 := time.Now()
			go func() { done <- e.b.VerifHandleTicker() }()
			evs, why := e.collect(done, false)
			if time.Since(t0) > time.Duration(margin-1e6) {
				// the real code's clock reads may differ from `now` by more than the margin:
				// the tick decision is not comparable; end the case here (counted, never reported)
				lines = append(lines, "batcher open")
				outs = append(outs, "ambiguous")
				return lines[:len(lines)-1], outs[:len(outs)-1]
			}
			order := []string{}
			for _, ev := range evs {
				if ev.isFlush {
					if ev.om != nil {
						order = append(order, hexs(omToKey[ev.om]))
					} else {
						order = append(order, hexs(ev.pkey))
					}
				}
			}
			lines = append(lines, fmt.Sprintf("batcher tick %d %s %s %s", now, joinList(times, ","), joinList(order, ","), joinList(idx, ",")))
			outs = append(outs, "valid=true times=ok "+renderEvs(evs, why == "exited"))
			if why == "timeout" {
				return lines, outs
			}
		case "open":
			lines = append(lines, l)
			if e == nil {
				outs = append(outs, "bad-op")
				continue
			}
			parts := []string{}
			// the model keeps insertion order; compare sorted
			for k, b := range e.b.VerifOpenBatches() {
				parts = append(parts, fmt.Sprintf("%s:%d:%d:%s", hexs(k), b.NumMessages(), b.GetPayloadByteSize(), showTxns(b.GetTransactions())))
			}
			sortStrings(parts)
			outs = append(outs, joinList(parts, ","))
		default:
			lines = append(lines, l)
			outs = append(outs, "bad-op")
		}
	}
	return lines, outs
}

func (e *bEnv) agesNs() (int64, int64) {
	v := reflect.ValueOf(e.b).Elem()
	return v.FieldByName("flushBatchUpdateAge").Int(), v.FieldByName("flushBatchMaxAge").Int()
}

func sortStrings(a []string) {
	for i := 1; i < len(a); i++ {
		for j := i; j > 0 && a[j] < a[j-1]; j-- {
			a[j], a[j-1] = a[j-1], a[j]
		}
	}
}

// ---- generator ----

func batcherGen(r *Rng, tier string) Case {
	lines := []string{}
	var kind string
	kinesis := false
	switch k := r.Intn(100); {
	case k < 50:
		kind = fmt.Sprintf("generic:%d", Pick(r, []int{1, 2, 3, 5, 8, 500}))
	case k < 78:
		kinesis = true
		kind = "kinesis:" + Pick(r, []string{"walstart", "batch", "pm-none", "pm-tablename", "pm-transaction", "pm-transaction-bucket"})
	default:
		kind = fmt.Sprintf("kafka:%d:%d:%s", Pick(r, []int{1, 2, 3, 10}), Pick(r, []int{50, 70, 100, 1000000}),
			Pick(r, []string{"random", "batch", "transaction", "transaction-constant", "tablename"}))
	}
	workers := r.Range(1, 5)
	routing := Pick(r, []string{"round-robin", "partition"})
	upd, mx := int64(3600e9), int64(3600e9)
	smallAges := r.Chance(15)
	if smallAges {
		upd = int64(Pick(r, []int{20, 40})) * 1e6
		mx = int64(Pick(r, []int{60, 120})) * 1e6
	}
	mem := Pick(r, []int64{1, 64, 256, 1024, 100 << 20, 100 << 20})
	// memory-boundary mode: equal-sized messages and a soft limit that is an exact multiple of the
	// size, so that ticks see totalMemory == limit and totalMemory == limit after a pop
	memB := !kinesis && r.Chance(12)
	if memB {
		if strings.HasPrefix(kind, "generic") {
			kind = "generic:500"
		}
		mem = 16 * int64(Pick(r, []int{2, 3, 4, 6, 9}))
	}
	lines = append(lines, fmt.Sprintf("batcher cfg %s %d %s %d %d %d", kind, workers, routing, upd, mx, mem))
	pmode := r.Intn(4) // none, table, txn, bucket
	if strings.HasPrefix(kind, "kinesis:walstart") {
		pmode = 0
	} else if strings.HasPrefix(kind, "kinesis:pm-") {
		pmode = map[string]int{"none": 0, "tablename": 1, "transaction": 2, "transaction-bucket": 3}[kind[len("kinesis:pm-"):]]
	} else if kinesis && pmode == 0 {
		pmode = 1
	}
	buckets := r.Range(1, 8)
	tables := []string{"public.a", "public.b", "s.\"T x\"", "public.c"}[:r.Range(1, 4)]
	if kinesis && r.Chance(5) {
		tables = append(tables, "") // empty Kinesis partition key: the invalid-record path
	}
	pkeyFor := func(txn int, table string) string {
		switch pmode {
		case 1:
			return table
		case 2:
			return strconv.Itoa(txn)
		case 3:
			return strconv.Itoa(quickHashGo(strconv.Itoa(txn), buckets))
		}
		return ""
	}
	heavy := kinesis && r.Chance(35) // byte-limit mode: batches fill up by bytes, not by count
	id := 0
	lsn := 1000
	key := 0
	ntx := r.Range(1, 10)
	huge := 0
	tick := func() {
		if r.Chance(12) || (memB && r.Chance(35)) {
			s := 0
			if smallAges {
				s = Pick(r, []int{0, 0, 25, 70, 130})
			}
			lines = append(lines, fmt.Sprintf("batcher tick %d", s))
		}
	}
	for txn := 1; txn <= ntx; txn++ {
		deliveries := 1
		if r.Chance(15) {
			deliveries = 2
		}
		for d := 0; d < deliveries; d++ {
			key++
			lsn += r.Range(1, 30)
			lines = append(lines, fmt.Sprintf("batcher msg BEGIN %s %d %d 0 %d 0 0", hexs(pkeyFor(txn, "")), txn, key, lsn))
			tick()
			nd := r.Range(0, 8)
			if r.Chance(10) {
				nd = r.Range(10, 40)
			}
			for i := 0; i < nd; i++ {
				id++
				lsn += r.Range(0, 20)
				size := r.Range(8, 60)
				if memB {
					size = Pick(r, []int{16, 16, 16, 32})
				}
				if kinesis && huge < 12 && r.Chance(12) {
					huge++
					size = Pick(r, []int{1<<20 - 1, 1 << 20, 1<<20 + 1, 600 << 10, 1<<20 - 30})
				} else if heavy && huge < 60 && r.Chance(70) {
					huge++
					// five records of (1 MiB - k) + key length k add up to exactly the 5 MiB batch limit
					size = 1<<20 - Pick(r, []int{0, 1, 3, 4, 5, 6, 7, 8, 9, 10, 11, 1 << 19})
				}
				lines = append(lines, fmt.Sprintf("batcher msg DATA %s %d %d %d %d %d 0", hexs(pkeyFor(txn, Pick(r, tables))), txn, key, size, lsn, id))
				tick()
			}
			if d < deliveries-1 {
				continue // interrupted: no COMMIT, the transaction is redelivered under a new key
			}
			lsn += r.Range(1, 30)
			lines = append(lines, fmt.Sprintf("batcher msg COMMIT %s %d %d 0 %d 0 0", hexs(pkeyFor(txn, "")), txn, key, lsn))
			tick()
		}
	}
	lines = append(lines, "batcher open", "batcher tick 0", "batcher open")
	return Case{lines}
}

func quickHashGo(s string, n int) int {
	// utils.QuickHash without importing it (it pulls in the conn package): same definition
	return int(crc32ieee([]byte(s))) % n
}

// batcherMonitor evaluates Spec.Batcher (Lean) on the implementation's events.
func batcherMonitor(lines, outs []string, m *Model) []Violation {
	lastOpen := ""
	sawCfg := false
	for i, l := range lines {
		if i >= len(outs) {
			break
		}
		w := strings.Fields(l)
		if len(w) < 2 {
			continue
		}
		switch w[1] {
		case "cfg":
			if sawCfg {
				return nil
			}
			sawCfg = true
			m.Do("batchermon " + strings.Join(w[1:], " "))
		case "msg":
			m.Do("batchermon " + strings.Join(w[1:], " "))
			m.Do("batchermon evs " + outs[i])
		case "tick":
			m.Do("batchermon evs " + outs[i])
		case "open":
			lastOpen = outs[i]
		}
	}
	// C16: replay the ops on the batcher model; a tick whose observed flush order the decision rules
	// do not allow (a due batch kept, a smaller batch flushed before a larger one, flushing continued
	// below the limit) is a violation with this history as the replay
	var tickViolation []Violation
	for i, l := range lines {
		if i >= len(outs) {
			break
		}
		o, _ := m.Do(l)
		if strings.HasPrefix(l, "batcher tick") && strings.HasPrefix(o, "valid=false") {
			tickViolation = []Violation{{"C16", "a tick flushed the open batches in a way the flush rules do not allow (due batch kept, or memory-pressure flush not largest-first / not stopping below the limit): " + l, ""}}
			break
		}
		if o != outs[i] && !strings.HasPrefix(l, "batcher open") {
			break // model and implementation diverged earlier: the model's verdict on later ticks means nothing
		}
	}
	if !sawCfg || len(lines) < 2 || !strings.HasPrefix(lines[len(lines)-1], "batcher open") || len(outs) != len(lines) {
		return tickViolation // the other statements are about a completed history that ends with the open set
	}
	m.Do("batchermon open " + lastOpen)
	v, _ := m.Do("batchermon verdict")
	kv := map[string]bool{}
	for _, f := range strings.Fields(v) {
		p := strings.SplitN(f, "=", 2)
		if len(p) == 2 {
			kv[p[0]] = p[1] == "true"
		}
	}
	if v == "bad-op" || kv["fatal"] {
		return tickViolation
	}
	vs := tickViolation
	if !kv["once"] {
		vs = append(vs, Violation{"C04", "per partition key, dispatched ++ open records differ from the accepted input records (lost, duplicated or reordered) (" + v + ")", ""})
		vs = append(vs, Violation{"C05", "record order per partition key is not the delivery order (" + v + ")", ""})
		if strings.HasPrefix(strings.Fields(lines[0])[2], "kinesis") {
			vs = append(vs, Violation{"C15", "a record that did not fit the current Kinesis batch was lost or duplicated instead of opening a new batch (" + v + ")", ""})
		}
	}
	if !kv["txns"] {
		vs = append(vs, Violation{"C04", "per-transaction counts reported by batches do not add up to the records plus counted drops (" + v + ")", ""})
		vs = append(vs, Violation{"C02", "batch transaction counts do not match what the batcher announces as the transaction total (ledger would wedge) (" + v + ")", ""})
	}
	if f, ok := kv["seenfirst"]; ok && !f {
		vs = append(vs, Violation{"C01", "a batch went to a worker while a COMMIT received earlier had not been handed to the progress tracker: a later transaction can be reported written, and acknowledged, ahead of it (" + v + ")", ""})
		vs = append(vs, Violation{"C04", "the seen list was not handed over before a batch was dispatched (ledger contract E3) (" + v + ")", ""})
	}
	if !kv["routing"] {
		vs = append(vs, Violation{"C05", "batch routed to a worker other than the one the routing method dictates (" + v + ")", ""})
	}
	if !kv["single"] || !kv["kkeys"] {
		vs = append(vs, Violation{"C06", "batch mixes partition keys or a Kinesis record carries the wrong partition key (" + v + ")", ""})
	}
	if !kv["limits"] || !kv["dropstats"] {
		vs = append(vs, Violation{"C15", "a dispatched batch exceeds a sink limit, or a per-record-limit drop has no statistic (" + v + ")", ""})
	}
	return vs
}

func init() {
	register(&Component{
		Name:     "batcher",
		Gen:      batcherGen,
		Run:      batcherRun,
		Monitor:  batcherMonitor,
		Quick:    400,
		Thorough: 8000,
		Nontrivial: func(lines, outs []string) bool {
			for _, o := range outs {
				if strings.Contains(o, "dispatch:") {
					return true
				}
			}
			return false
		},
		Compare: func(line, impl, model string) bool {
			// `open` lists are compared as sets (Go map order)
			if strings.HasPrefix(line, "batcher open") {
				a := strings.Split(model, ",")
				sortStrings(a)
				return strings.Join(a, ",") == impl
			}
			return false
		},
		Stats: func(lines, outs []string, d map[string]int) {
			for i, o := range outs {
				if i >= len(lines) {
					break
				}
				for _, t := range []string{"dispatch:", "self:", "seen[", "stat:dropped_too_big", "stat:dropped_msg_invalid", "stat:batch_closed_early", "fatal"} {
					d["ev_"+t] += strings.Count(o, t)
				}
			}
		},
	})
}
