package main

// Component `marshal` (C10): sequences of WalMessages of changing shapes through ONE real
// marshaller.Marshaller goroutine; every output is parsed back with encoding/json (strict, independent
// decoder) and rendered in the canonical form of lean/PgBifrost/Driver/Marshal.lean. The model is a pure
// function of the single change, so any leakage through the package-level pools / colsTemp /
// reusedWalEntry / lsnBuffer shows up as a mismatch. The same messages are then pushed again in a shuffled
// order through the same instance: a differing per-message output is reported as `order-dependent`.

import (
	"bytes"
	"encoding/json"
	"fmt"
	"io"
	"runtime"
	"sort"
	"strconv"
	"strings"
	"sync"
	"time"
	"unicode/utf8"

	"github.com/Nextdoor/pg-bifrost.git/marshaller"
	"github.com/Nextdoor/pg-bifrost.git/parselogical"
	"github.com/Nextdoor/pg-bifrost.git/replication"
	"github.com/Nextdoor/pg-bifrost.git/shutdown"
	"github.com/Nextdoor/pg-bifrost.git/stats"
)

// The marshaller keeps its pools and scratch maps in package-level variables without locking (one
// marshaller per process in production), so cases must not run concurrently inside this process.
var marshalMu sync.Mutex

const toastMarker = "unchanged-toast-datum"

type mcol struct {
	name string
	cv   parselogical.ColumnValue
}

type mmsg struct {
	op, rel     string
	ms          int64
	lsn         uint64
	key, txn, pk string
	cols, old   []mcol
}

func parseMCols(s string) ([]mcol, bool) {
	out := []mcol{}
	if s == "-" {
		return out, true
	}
	seen := map[string]bool{}
	for _, it := range strings.Split(s, ",") {
		p := strings.Split(it, ".")
		if len(p) != 4 || (p[3] != "0" && p[3] != "1") {
			return nil, false
		}
		n := unhexs(p[0])
		if seen[n] {
			return nil, false
		}
		seen[n] = true
		out = append(out, mcol{n, parselogical.ColumnValue{Value: unhexs(p[1]), Type: unhexs(p[2]), Quoted: p[3] == "1"}})
	}
	return out, true
}

func validHexTok(s string) bool {
	if s == "e" {
		return true
	}
	if len(s) == 0 || len(s)%2 != 0 {
		return false
	}
	for _, c := range s {
		if !(c >= '0' && c <= '9' || c >= 'a' && c <= 'f') {
			return false
		}
	}
	return utf8.ValidString(unhexs(s))
}

// parseMMsg parses the words of a `marshal msg …` line (w[0]="marshal", w[1]="msg").
func parseMMsg(w []string) (*mmsg, bool) {
	if len(w) != 12 {
		return nil, false
	}
	for _, i := range []int{2, 3, 7, 8, 9} {
		if !validHexTok(w[i]) {
			return nil, false
		}
	}
	ms, err := strconv.ParseInt(w[4], 10, 64)
	if err != nil {
		return nil, false
	}
	lsn, err := strconv.ParseUint(w[6], 10, 64)
	if err != nil {
		return nil, false
	}
	cols, ok1 := parseMCols(w[10])
	old, ok2 := parseMCols(w[11])
	if !ok1 || !ok2 {
		return nil, false
	}
	return &mmsg{unhexs(w[2]), unhexs(w[3]), ms, lsn, unhexs(w[7]), unhexs(w[8]), unhexs(w[9]), cols, old}, true
}

func (m *mmsg) wal() *replication.WalMessage {
	pr := &parselogical.ParseResult{Operation: m.op, Relation: m.rel, Transaction: m.txn,
		Columns: map[string]parselogical.ColumnValue{}, OldColumns: map[string]parselogical.ColumnValue{}}
	for _, c := range m.cols {
		pr.Columns[c.name] = c.cv
	}
	for _, c := range m.old {
		pr.OldColumns[c.name] = c.cv
	}
	return &replication.WalMessage{WalStart: m.lsn, ServerWalEnd: m.lsn, ServerTime: m.ms, TimeBasedKey: m.key, Pr: pr, PartitionKey: m.pk}
}

// envTime is the environment's rendering of the server time (Go's time package; not modelled).
func envTime(ms int64) string {
	return time.Unix(0, ms*1000000).UTC().Format(time.RFC3339)
}

// ---- strict, independent JSON reading (encoding/json tokens; duplicate keys are an error) ----

type jkv struct {
	k string
	v interface{}
}
type jobj []jkv

func readJSONValue(dec *json.Decoder) (interface{}, error) {
	t, err := dec.Token()
	if err != nil {
		return nil, err
	}
	if d, ok := t.(json.Delim); ok {
		switch d {
		case '{':
			o := jobj{}
			seen := map[string]bool{}
			for dec.More() {
				kt, err := dec.Token()
				if err != nil {
					return nil, err
				}
				k, ok := kt.(string)
				if !ok {
					return nil, fmt.Errorf("key")
				}
				if seen[k] {
					return nil, fmt.Errorf("duplicate key")
				}
				seen[k] = true
				v, err := readJSONValue(dec)
				if err != nil {
					return nil, err
				}
				o = append(o, jkv{k, v})
			}
			if _, err := dec.Token(); err != nil {
				return nil, err
			}
			return o, nil
		case '[':
			a := []interface{}{}
			for dec.More() {
				v, err := readJSONValue(dec)
				if err != nil {
					return nil, err
				}
				a = append(a, v)
			}
			if _, err := dec.Token(); err != nil {
				return nil, err
			}
			return a, nil
		}
		return nil, fmt.Errorf("delim")
	}
	return t, nil
}

func (o jobj) get(k string) (interface{}, bool) {
	for _, e := range o {
		if e.k == k {
			return e.v, true
		}
	}
	return nil, false
}

func (o jobj) str(k string) (string, bool) {
	v, ok := o.get(k)
	if !ok {
		return "", false
	}
	s, ok := v.(string)
	return s, ok
}

func renderJCV(v interface{}) (string, bool) {
	o, ok := v.(jobj)
	if !ok || len(o) != 3 {
		return "", false
	}
	vv, ok1 := o.str("v")
	tt, ok2 := o.str("t")
	qq, ok3 := o.str("q")
	if !ok1 || !ok2 || !ok3 {
		return "", false
	}
	return hexs(vv) + "." + hexs(tt) + "." + hexs(qq), true
}

// renderRecord gives `time=… cols=…` or ok=false if the document does not have the shape of jsonWalEntry.
func renderRecord(b []byte) (string, bool) {
	dec := json.NewDecoder(bytes.NewReader(b))
	dec.UseNumber()
	v, err := readJSONValue(dec)
	if err != nil {
		return "", false
	}
	if _, err := dec.Token(); err != io.EOF {
		return "", false
	}
	o, ok := v.(jobj)
	if !ok || len(o) != 7 {
		return "", false
	}
	tm, ok1 := o.str("time")
	txn, ok2 := o.str("txn")
	lsn, ok3 := o.str("lsn")
	tbl, ok4 := o.str("table")
	op, ok5 := o.str("operation")
	msv, ok6 := o.get("time_ms")
	colsv, ok7 := o.get("columns")
	if !(ok1 && ok2 && ok3 && ok4 && ok5 && ok6 && ok7) {
		return "", false
	}
	msn, ok := msv.(json.Number)
	if !ok {
		return "", false
	}
	msi, err := strconv.ParseInt(string(msn), 10, 64)
	if err != nil || strconv.FormatInt(msi, 10) != string(msn) {
		return "", false
	}
	cols, ok := colsv.(jobj)
	if !ok {
		return "", false
	}
	type item struct{ key, text string }
	items := []item{}
	for _, e := range cols {
		p, ok := e.v.(jobj)
		if !ok {
			return "", false
		}
		oldS, newS := "n", "n"
		for _, pe := range p {
			r, ok := renderJCV(pe.v)
			if !ok {
				return "", false
			}
			switch pe.k {
			case "old":
				oldS = r
			case "new":
				newS = r
			default:
				return "", false
			}
		}
		items = append(items, item{hexs(e.k), hexs(e.k) + ":" + oldS + ":" + newS})
	}
	sort.SliceStable(items, func(i, j int) bool { return items[i].key < items[j].key })
	parts := []string{}
	for _, it := range items {
		parts = append(parts, it.text)
	}
	return fmt.Sprintf("time=%s time_ms=%s txn=%s lsn=%s table=%s operation=%s cols=%s",
		hexs(tm), string(msn), hexs(txn), hexs(lsn), hexs(tbl), hexs(op), joinList(parts, ",")), true
}

func renderMarshalled(mm *marshaller.MarshalledMessage) string {
	hdr := fmt.Sprintf("hdr=%s,%s,%s,%d,%s,%s", hexs(mm.Operation), hexs(mm.Table), hexs(mm.TimeBasedKey), mm.WalStart, hexs(mm.Transaction), hexs(mm.PartitionKey))
	if mm.Json == nil {
		return "nojson " + hdr
	}
	if !json.Valid(mm.Json) {
		return "invalid-json " + hexs(string(mm.Json))
	}
	r, ok := renderRecord(mm.Json)
	if !ok {
		return "badshape " + hexs(string(mm.Json))
	}
	return "json " + hdr + " " + r
}

// ---- running the real stage ----

type marshalRig struct {
	in   chan *replication.WalMessage
	st   chan stats.Stat
	m    marshaller.Marshaller
	sh   shutdown.ShutdownHandler
	dead bool
}

func newMarshalRig(noOld bool) *marshalRig {
	r := &marshalRig{in: make(chan *replication.WalMessage), st: make(chan stats.Stat), sh: shutdown.NewShutdownHandler()}
	r.m = marshaller.New(r.sh, r.in, r.st, noOld)
	go r.m.Start()
	return r
}

func (r *marshalRig) stop() {
	r.sh.CancelFunc()
	close(r.in)
	// wait until the stage goroutine is gone (it closes OutputChan) before the next case may touch the pools
	deadline := time.After(5 * time.Second)
	for {
		select {
		case _, ok := <-r.m.OutputChan:
			if !ok {
				return
			}
		case <-r.st:
		case <-deadline:
			return
		}
	}
}

// push sends one message through the stage and renders what came out.
func (r *marshalRig) push(m *mmsg) string {
	if r.dead {
		return "dead"
	}
	select {
	case r.in <- m.wal():
	case <-time.After(5 * time.Second):
		r.dead = true
		return "hang"
	}
	select {
	case got, ok := <-r.m.OutputChan:
		if !ok || got == nil {
			r.dead = true
			return "panic" // Start's deferred shutdown recovered a panic and closed the channel
		}
		out := renderMarshalled(got)
		if got.Json != nil {
			select {
			case s := <-r.st:
				if s.StatName != "success" {
					out = "stat-" + s.StatName + " " + out
				}
			case <-time.After(5 * time.Second):
				r.dead = true
				return "nostat " + out
			}
		}
		return out
	case s := <-r.st:
		if s.StatName == "failure" {
			return "err"
		}
		return "stat-" + s.StatName
	case <-time.After(5 * time.Second):
		r.dead = true
		return "hang"
	}
}

func marshalRun(c Case) ([]string, []string) {
	marshalMu.Lock()
	defer marshalMu.Unlock()
	lines, outs := []string{}, []string{}
	var rig *marshalRig
	defer func() {
		if rig != nil {
			rig.stop()
		}
	}()
	type sent struct {
		at int
		m  *mmsg
	}
	var batch []sent
	hsum := uint64(1469598103934665603)
	// second pass over the messages of the current configuration, in a shuffled order, same instance
	rerun := func() {
		if rig == nil || len(batch) < 2 {
			batch = nil
			return
		}
		r := NewRng(hsum)
		idx := make([]int, len(batch))
		for i := range idx {
			idx[i] = i
		}
		for i := len(idx) - 1; i > 0; i-- {
			j := r.Intn(i + 1)
			idx[i], idx[j] = idx[j], idx[i]
		}
		for _, i := range idx {
			if r.Chance(4) {
				runtime.GC()
				runtime.GC()
			}
			o := rig.push(batch[i].m)
			if o != outs[batch[i].at] && !strings.HasPrefix(outs[batch[i].at], "order-dependent") {
				outs[batch[i].at] = "order-dependent first=[" + outs[batch[i].at] + "] again=[" + o + "]"
			}
		}
		batch = nil
	}
	for _, l := range c.Lines {
		for i := 0; i < len(l); i++ {
			hsum = (hsum ^ uint64(l[i])) * 1099511628211
		}
		w := strings.Fields(l)
		switch {
		case len(w) == 3 && w[1] == "cfg" && (w[2] == "0" || w[2] == "1"):
			rerun()
			if rig != nil {
				rig.stop()
			}
			// start every case from empty sync.Pools, so that a shrunk replay does not depend on earlier cases
			runtime.GC()
			runtime.GC()
			rig = newMarshalRig(w[2] == "1")
			lines = append(lines, l)
			outs = append(outs, "ok")
		case len(w) == 2 && w[1] == "gc" && rig != nil:
			runtime.GC() // two cycles: sync.Pool keeps a victim cache for one cycle
			runtime.GC()
			lines = append(lines, l)
			outs = append(outs, "ok")
		case len(w) == 12 && w[1] == "msg" && rig != nil:
			m, ok := parseMMsg(w)
			if !ok {
				lines = append(lines, l)
				outs = append(outs, "bad-op")
				continue
			}
			w[5] = hexs(envTime(m.ms))
			lines = append(lines, strings.Join(w, " "))
			outs = append(outs, rig.push(m))
			batch = append(batch, sent{len(outs) - 1, m})
		default:
			lines = append(lines, l)
			outs = append(outs, "bad-op")
		}
	}
	rerun()
	return lines, outs
}

// ---- monitor: the spec (Lean `Spec.Marshal.verdict`) on the implementation's parsed outputs ----

func marshalMonitor(lines, outs []string, m *Model) []Violation {
	var vs []Violation
	seen := map[string]bool{}
	add := func(v Violation) {
		if len(v.What) > 700 { // the replay is in the hit's lines; keep the description readable
			v.What = v.What[:700] + "…"
		}
		k := v.Known + "|" + strings.SplitN(v.What, ":", 2)[0]
		if !seen[k] {
			seen[k] = true
			vs = append(vs, v)
		}
	}
	noOld := "0"
	for i, l := range lines {
		if i >= len(outs) {
			break
		}
		w := strings.Fields(l)
		if len(w) == 3 && w[1] == "cfg" {
			noOld = w[2]
			continue
		}
		if len(w) != 12 || w[1] != "msg" {
			continue
		}
		o := outs[i]
		if !strings.HasPrefix(o, "json ") && !strings.HasPrefix(o, "nojson ") {
			kind := strings.Fields(o)[0]
			add(Violation{"C10", kind + ": " + l + " -> " + o, ""})
			continue
		}
		ans, err := m.Do("marshalmon check " + noOld + " " + strings.Join(w[2:], " ") + " " + o)
		if err != nil {
			add(Violation{"C10", "monitor-error: " + err.Error(), ""})
			continue
		}
		switch {
		case ans == "ok":
		case ans == "viol known quoted_toast_literal":
			add(Violation{"C10", "quoted 'unchanged-toast-datum' text treated as the TOAST marker: " + l + " -> " + o, "quoted_toast_literal"})
		case strings.HasPrefix(ans, "viol "):
			add(Violation{"C10", ans + ": " + l + " -> " + o, ""})
		default:
			add(Violation{"C10", "monitor-" + ans + ": " + l + " -> " + o, ""})
		}
	}
	return vs
}

// ---- generator ----

var mValPool = []string{
	"", "Foo", "Bar", "0", "1", "-17", "3.14", "null", "true", "t", "old", "new", "{}", "[]", "{\"a\":1}",
	"it's", "say \"hi\"", "back\\slash", "a\\\"b", "<script>&amp;</script>", "a<b>c&d",
	"line\nfeed", "tab\there", "cr\rlf\n", "\x00", "nul\x00mid", "\x7f", " ", "x y", "été",
	"\U0001F600", "\U0001D11E clef", "ls\u2028ps\u2029", "\ufeffbom", "�", "é", "\u0085", "  spaced  ", "/", "A/B", "\\u0041",
	toastMarker, toastMarker + " ", "Unchanged-toast-datum", "'" + toastMarker + "'",
}

var mTypePool = []string{"text", "integer", "character varying", "character varying(32)", "jsonb", "timestamp without time zone", "boolean", "numeric(10,2)", "\"My Type\"", "integer[]", "", "bytea"}

var mNamePool = []string{
	"id", "first_name", "last_name", "payload", "old", "new", "v", "t", "q", "a\"b", "naïve", "col\nnl", "", "<x>&", " ",
	"\U0001F600", "time", "columns", "Z", "a", "ab", "b", "\x01ctl", "back\\slash", "UPPER", "x.y", "c1", "c2", "c3", "c4", "c5", "c6",
}

var mRelPool = []string{"public.users", "public.t", "s.\"T x\"", "\"My S\".\"t:1\"", "public.a<b>&c", "public.über", "", "public.tab\"q\\", "public.\U0001F600"}

// allControls is a string with every ASCII control character (and DEL) once.
func allControls() string {
	b := []byte{}
	for i := 0; i < 0x20; i++ {
		b = append(b, byte(i))
	}
	b = append(b, 0x7f, '"', '\\', '/', '<', '>', '&', '\'')
	return string(b) + "  \U0001F600"
}

func genValue(r *Rng) string {
	switch r.Intn(14) {
	case 0:
		return allControls()
	case 1: // one control character in context
		return "c" + string(rune(r.Intn(0x20))) + "d"
	case 2: // random printable + specials
		n := r.Range(0, 24)
		rs := []rune{}
		alphabet := []rune("abcXYZ019 \"\\/<>&'\n\t  é中\U0001F600\U00010000\U0010FFFF\x00\x1f\x7f{}[]:,")
		for i := 0; i < n; i++ {
			rs = append(rs, alphabet[r.Intn(len(alphabet))])
		}
		return string(rs)
	case 3: // long value (would be TOASTed); rare and moderate: the runner keeps every case text in memory
		if r.Chance(15) {
			return strings.Repeat("x\"y\\", r.Range(30, 600))
		}
		return Pick(r, mValPool)
	default:
		return Pick(r, mValPool)
	}
}

func genCV(r *Rng) parselogical.ColumnValue {
	return parselogical.ColumnValue{Value: genValue(r), Type: Pick(r, mTypePool), Quoted: r.Chance(55)}
}

func encCols(cs []mcol) string {
	parts := []string{}
	for _, c := range cs {
		q := "0"
		if c.cv.Quoted {
			q = "1"
		}
		parts = append(parts, hexs(c.name)+"."+hexs(c.cv.Value)+"."+hexs(c.cv.Type)+"."+q)
	}
	return joinList(parts, ",")
}

func shuffleCols(r *Rng, cs []mcol) []mcol {
	out := append([]mcol{}, cs...)
	for i := len(out) - 1; i > 0; i-- {
		j := r.Intn(i + 1)
		out[i], out[j] = out[j], out[i]
	}
	return out
}

func pickNames(r *Rng, n int) []string {
	perm := append([]string{}, mNamePool...)
	for i := len(perm) - 1; i > 0; i-- {
		j := r.Intn(i + 1)
		perm[i], perm[j] = perm[j], perm[i]
	}
	if n > len(perm) {
		n = len(perm)
	}
	return perm[:n]
}

func genLsn(r *Rng) uint64 {
	switch r.Intn(12) {
	case 0:
		return 0
	case 1:
		return 1
	case 2:
		return 0xFFFFFFFF
	case 3:
		return 0x100000000
	case 4:
		return 0xFFFFFFFFFFFFFFFF
	case 5:
		return 0x10000000F // low word with leading zero nibbles: "1/F"
	case 6:
		return 0xABCDEF0000000000 | uint64(r.Intn(16))
	case 7:
		return uint64(r.Intn(1 << 16))
	case 8:
		return uint64(0x16)<<32 | 0xB374D848 // the documentation's 16/B374D848
	default:
		return r.U64() >> uint(r.Intn(64))
	}
}

func genMs(r *Rng) int64 {
	switch r.Intn(10) {
	case 0, 1:
		return 0
	case 2:
		return 1
	case 3:
		return -1
	case 4:
		return 999
	case 5:
		return 9223372036854775807 // overflows the nanosecond conversion exactly as in the code
	case 6:
		return -int64(r.U64() >> 20)
	case 7:
		return 253402300800000 + int64(r.Intn(1000)) // year 10000
	default:
		return 1500000000000 + int64(r.U64()%400000000000)
	}
}

// genChange makes one row change. prev = column names of the previous change (for "same names, other subset").
func genChange(r *Rng, prev []string, rareLiteral bool) (*mmsg, []string) {
	m := &mmsg{rel: Pick(r, mRelPool), ms: genMs(r), lsn: genLsn(r)}
	m.key = fmt.Sprintf("%d-%d", r.Intn(1000), 1500000000000000000+int64(r.Intn(1000000)))
	if r.Chance(10) {
		m.key = genValue(r)
	}
	m.txn = ""
	if r.Chance(15) {
		m.txn = strconv.Itoa(r.Intn(100000))
	}
	m.pk = Pick(r, []string{"", "0", "7", m.rel, m.key, "p\"k"})
	m.op = Pick(r, []string{"UPDATE", "UPDATE", "UPDATE", "UPDATE", "INSERT", "INSERT", "DELETE", "DELETE", "TRUNCATE", "delete", "", "UPD\"ATE"})
	var names []string
	switch r.Intn(6) {
	case 0: // many
		names = pickNames(r, r.Range(8, 16))
	case 1: // few
		names = pickNames(r, r.Range(0, 2))
	case 2, 3: // a subset of the previous change's names (+ maybe one more)
		for _, n := range prev {
			if r.Chance(60) {
				names = append(names, n)
			}
		}
		if r.Chance(30) {
			extra := pickNames(r, 1)[0]
			dup := false
			for _, n := range names {
				dup = dup || n == extra
			}
			if !dup {
				names = append(names, extra)
			}
		}
	default:
		names = pickNames(r, r.Range(1, 7))
	}
	for _, n := range names {
		m.cols = append(m.cols, mcol{n, genCV(r)})
	}
	// old tuple
	oldMode := r.Intn(5) // 0: none, 1: all, 2: subset, 3: subset + foreign names, 4: all
	if m.op == "INSERT" && r.Chance(80) {
		oldMode = 0
	}
	for _, c := range m.cols {
		if oldMode == 0 || (oldMode >= 2 && oldMode <= 3 && r.Chance(50)) {
			continue
		}
		o := c.cv
		switch r.Intn(8) {
		case 0, 1: // unchanged
		case 2: // same text, other type / quoting
			o.Type = Pick(r, mTypePool)
			o.Quoted = !o.Quoted
		default:
			o = genCV(r)
			if r.Chance(70) {
				o.Type = c.cv.Type
			}
		}
		m.old = append(m.old, mcol{c.name, o})
	}
	if oldMode == 3 {
		have := map[string]bool{}
		for _, c := range m.old {
			have[c.name] = true
		}
		for _, n := range pickNames(r, r.Range(1, 3)) {
			if !have[n] {
				m.old = append(m.old, mcol{n, genCV(r)})
			}
		}
	}
	// TOAST markers as test_decoding prints them (unquoted) on some columns
	for i := range m.cols {
		if r.Chance(12) {
			m.cols[i].cv.Value = toastMarker
			m.cols[i].cv.Quoted = false
			if r.Chance(5) { // the old tuple also only has the marker
				for j := range m.old {
					if m.old[j].name == m.cols[i].name {
						m.old[j].cv.Value = toastMarker
						m.old[j].cv.Quoted = false
					}
				}
			}
		}
	}
	// rare: QUOTED text that reads like the marker (finding F5), in the new or in the old tuple
	for i := range m.cols {
		if m.cols[i].cv.Value == toastMarker && m.cols[i].cv.Quoted && !rareLiteral {
			m.cols[i].cv.Quoted = false
		}
	}
	for i := range m.old {
		if m.old[i].cv.Value == toastMarker && m.old[i].cv.Quoted && !rareLiteral {
			m.old[i].cv.Quoted = false
		}
	}
	if rareLiteral && len(m.cols) > 0 && r.Chance(40) {
		i := r.Intn(len(m.cols))
		if r.Chance(70) {
			m.cols[i].cv.Value = toastMarker
			m.cols[i].cv.Quoted = true
		} else {
			m.cols[i].cv.Value = toastMarker
			m.cols[i].cv.Quoted = false
			found := false
			for j := range m.old {
				if m.old[j].name == m.cols[i].name {
					m.old[j].cv.Value = toastMarker
					m.old[j].cv.Quoted = true
					found = true
				}
			}
			if !found {
				m.old = append(m.old, mcol{m.cols[i].name, parselogical.ColumnValue{Value: toastMarker, Type: "text", Quoted: true}})
			}
		}
	}
	m.cols = shuffleCols(r, m.cols)
	m.old = shuffleCols(r, m.old)
	return m, names
}

func msgLine(m *mmsg) string {
	return fmt.Sprintf("marshal msg %s %s %d x %d %s %s %s %s %s", hexs(m.op), hexs(m.rel), m.ms, m.lsn, hexs(m.key), hexs(m.txn), hexs(m.pk), encCols(m.cols), encCols(m.old))
}

func marshalGen(r *Rng, tier string) Case {
	lines := []string{fmt.Sprintf("marshal cfg %d", r.Intn(2))}
	n := r.Range(4, 30)
	if tier == "thorough" && r.Chance(20) {
		n = r.Range(30, 90)
	}
	// quoted marker literals only in a small share of cases, so the known finding F5 does not drown the rest
	rareLiteral := r.Chance(4)
	var prev []string
	for i := 0; i < n; i++ {
		switch {
		case r.Chance(5):
			lines = append(lines, "marshal gc")
		case r.Chance(12):
			m := &mmsg{op: Pick(r, []string{"BEGIN", "COMMIT"}), lsn: genLsn(r), ms: genMs(r), txn: strconv.Itoa(r.Intn(100000))}
			m.key = fmt.Sprintf("%s-%d", m.txn, 1500000000000000000+int64(r.Intn(1000000)))
			m.pk = Pick(r, []string{"", "3"})
			if r.Chance(10) { // a marker that nevertheless carries columns: still no JSON
				m.cols = []mcol{{"id", genCV(r)}}
			}
			lines = append(lines, msgLine(m))
		default:
			m, names := genChange(r, prev, rareLiteral)
			if len(names) > 0 {
				prev = names
			}
			lines = append(lines, msgLine(m))
			if r.Chance(15) { // DELETE / new-only right after, same names
				m2 := *m
				m2.op = Pick(r, []string{"DELETE", "UPDATE", "INSERT"})
				if r.Chance(50) {
					m2.old = nil
				}
				m2.lsn = genLsn(r)
				m2.cols = nil
				for _, c := range m.cols {
					if r.Chance(70) {
						m2.cols = append(m2.cols, mcol{c.name, genCV(r)})
					}
				}
				lines = append(lines, msgLine(&m2))
			}
		}
	}
	return Case{lines}
}

// marshalStats classifies every column of every change by the arm of the loop it takes (distribution evidence).
func marshalStats(lines, outs []string, d map[string]int) {
	noOld := false
	for i, l := range lines {
		w := strings.Fields(l)
		if len(w) == 3 && w[1] == "cfg" {
			noOld = w[2] == "1"
			d["cfg_noold_"+w[2]]++
			continue
		}
		if len(w) != 12 || w[1] != "msg" {
			continue
		}
		m, ok := parseMMsg(w)
		if !ok {
			continue
		}
		if i < len(outs) && strings.HasPrefix(outs[i], "order-dependent") {
			d["order_dependent"]++
		}
		if m.op == "BEGIN" || m.op == "COMMIT" {
			d["arm_marker_nojson"]++
			continue
		}
		if m.ms == 0 {
			d["time_epoch"]++
		} else {
			d["time_formatted"]++
		}
		switch {
		case m.lsn>>32 == 0:
			d["lsn_hi_zero"]++
		case m.lsn&0xFFFFFFFF < 0x10000000:
			d["lsn_lo_short"]++
		default:
			d["lsn_full"]++
		}
		if len(m.cols) == 0 {
			d["cols_empty"]++
		} else if len(m.cols) >= 8 {
			d["cols_many"]++
		}
		old := map[string]parselogical.ColumnValue{}
		for _, c := range m.old {
			old[c.name] = c.cv
		}
		for _, c := range m.cols {
			o, has := old[c.name]
			switch {
			case m.op == "DELETE":
				d["arm_delete_old_only"]++
			case has && c.cv.Value != o.Value && c.cv.Value == toastMarker && noOld:
				d["arm_toast_noold"]++
			case has && c.cv.Value != o.Value && c.cv.Value == toastMarker:
				d["arm_toast_old_old"]++
			case has && c.cv.Value != o.Value && noOld:
				d["arm_changed_noold"]++
			case has && c.cv.Value != o.Value:
				d["arm_changed_old_new"]++
			case has:
				d["arm_unchanged_new_only"]++
			default:
				d["arm_no_old_column"]++
			}
			if c.cv.Value == toastMarker && c.cv.Quoted {
				d["col_quoted_literal_new"]++
			}
			if has && o.Value == toastMarker && o.Quoted {
				d["col_quoted_literal_old"]++
			}
			if c.cv.Value == toastMarker && !c.cv.Quoted && !has {
				d["col_toast_without_old"]++
			}
		}
	}
}

func init() {
	register(&Component{Name: "marshal", Gen: marshalGen, Run: marshalRun, Monitor: marshalMonitor, Stats: marshalStats,
		Quick: 500, Thorough: 8000,
		Nontrivial: func(lines, outs []string) bool {
			j, n, olds := false, false, false
			for _, o := range outs {
				j = j || strings.HasPrefix(o, "json ")
				n = n || strings.HasPrefix(o, "nojson ")
				olds = olds || (strings.HasPrefix(o, "json ") && !strings.Contains(o, ":n:") && strings.Contains(o, "cols=") && !strings.HasSuffix(o, "cols=-"))
			}
			return j && (n || olds)
		}})
}
