package main

import (
	"encoding/json"
	"flag"
	"fmt"
	"os"
	"runtime"
	"sort"
	"strings"
	"sync"
	"syscall"
	"time"
)

// A Case is a list of op lines (line protocol of the Lean driver). Run interprets the
// same lines on the real code, so a case is its own replay.
type Case struct {
	Lines []string `json:"lines"`
}

type Component struct {
	Name string
	// Gen produces a case from one PRNG state.
	Gen func(r *Rng, tier string) Case
	// Run executes the case on the real code. It returns the lines to send to the model
	// (normally c.Lines, possibly with observed values such as clock readings filled in)
	// and one output line per op.
	Run func(c Case) (lines []string, outs []string)
	// Monitor (optional) judges the implementation's history against the property's
	// decidable spec (evaluated by the Lean driver where possible). Returns violations.
	Monitor func(lines, outs []string, m *Model) []Violation
	// Nontrivial says whether a case reached behaviour beyond the default path.
	Nontrivial func(lines, outs []string) bool
	// Quick / Thorough number of cases.
	Quick, Thorough int
	// Compare (optional) overrides string equality of one output line.
	Compare func(line, impl, model string) bool
	// Valid (optional) rejects shrink candidates that are not well-formed inputs (e.g. a message
	// stream outside the PostgreSQL grammar), so that a shrunk replay still means something.
	Valid func(lines []string) bool
	// Serial: the real code uses package-level state (e.g. the marshaller's pooled maps), so only
	// one case may run at a time in a process; the check script shards such components over processes.
	Serial bool
	// Stats (optional) lets a component add measured distribution counters.
	Stats func(lines, outs []string, d map[string]int)
	// Timing: the component lock-steps real timers (e.g. the client's progress ticker against a
	// witness ticker), so on a loaded machine a single run can observe a firing one op early or late.
	// Cases are deterministic apart from that, hence a disagreement or monitor hit of such a component
	// counts only if it shows again when the identical case is re-run; hits that do not are counted in
	// the distribution as `unreproduced_*` (visible in the evidence), never reported.
	Timing bool
}

type Violation struct {
	Property string `json:"property"`
	What     string `json:"what"`
	Known    string `json:"known,omitempty"` // signature of a known finding, if attributed
}

type Mismatch struct {
	Case     int      `json:"case"`
	Seed     uint64   `json:"seed"`
	Lines    []string `json:"lines"`
	Impl     []string `json:"impl"`
	Model    []string `json:"model"`
	At       int      `json:"at"`
	Shrunk   bool     `json:"shrunk"`
	HarnessError string `json:"harness_error,omitempty"`
}

type MonitorHit struct {
	Case      int       `json:"case"`
	Seed      uint64    `json:"seed"`
	Lines     []string  `json:"lines"`
	Impl      []string  `json:"impl"`
	Violation Violation `json:"violation"`
}

type Result struct {
	Component    string         `json:"component"`
	Tier         string         `json:"tier"`
	Seed         uint64         `json:"seed"`
	Cases        int            `json:"cases"`
	Ops          int            `json:"ops"`
	Distinct     int            `json:"distinct_nontrivial"`
	Mismatches   []Mismatch     `json:"mismatches"`
	MonitorHits  []MonitorHit   `json:"monitor_hits"`
	Distribution map[string]int `json:"distribution"`
	Samples      []Case         `json:"samples"`
	SampleOuts   [][]string     `json:"sample_outs"`
	WallS        float64        `json:"wall_s"`
	BadOps       int            `json:"bad_ops"`
}

var components = map[string]*Component{}

func register(c *Component) { components[c.Name] = c }

// compareWithModel sends lines to the model and returns its outputs and the first index
// at which they differ from the implementation's (-1 if none).
func compareWithModel(c *Component, m *Model, lines, outs []string) ([]string, int, int, error) {
	mouts := make([]string, 0, len(lines))
	at := -1
	bad := 0
	for i, l := range lines {
		o, err := m.Do(l)
		if err != nil {
			return mouts, i, bad, err
		}
		if o == "bad-op" {
			bad++
		}
		mouts = append(mouts, o)
		if at < 0 {
			impl := ""
			if i < len(outs) {
				impl = outs[i]
			}
			same := impl == o
			if !same && c.Compare != nil {
				same = c.Compare(l, impl, o)
			}
			if !same {
				at = i
			}
		}
	}
	if at < 0 && len(outs) != len(lines) {
		at = len(lines)
	}
	return mouts, at, bad, nil
}

func safeRun(c *Component, cs Case) (lines, outs []string) {
	defer func() {
		if r := recover(); r != nil {
			lines = cs.Lines
			outs = append(outs, fmt.Sprintf("harness-panic %v", r))
		}
	}()
	return c.Run(cs)
}

// shrink removes ops (never the first line, which carries reset/config) while pred holds.
func shrink(cs Case, pred func(Case) bool, budget time.Duration) Case {
	deadline := time.Now().Add(budget)
	cur := cs
	chunk := (len(cur.Lines) - 1) / 2
	if chunk < 1 {
		chunk = 1
	}
	for {
		progress := false
		for start := 1; start < len(cur.Lines); {
			if time.Now().After(deadline) {
				return cur
			}
			end := start + chunk
			if end > len(cur.Lines) {
				end = len(cur.Lines)
			}
			cand := Case{append(append([]string{}, cur.Lines[:start]...), cur.Lines[end:]...)}
			if pred(cand) {
				cur = cand
				progress = true
			} else {
				start = end
			}
		}
		if chunk > 1 {
			chunk /= 2
		} else if !progress {
			return cur
		}
	}
}

var realStdout *os.File

// silenceStdout points fd 1 at /dev/null: the repository's packages log to os.Stdout
// (captured in their init functions) and the stdout transporter prints records there.
func silenceStdout() {
	fd, err := syscall.Dup(1)
	if err != nil {
		realStdout = os.Stdout
		return
	}
	realStdout = os.NewFile(uintptr(fd), "stdout")
	if dn, err := os.OpenFile("/dev/null", os.O_WRONLY, 0); err == nil {
		syscall.Dup2(int(dn.Fd()), 1)
	}
}

func main() {
	silenceStdout()
	comp := flag.String("component", "", "component to check")
	seed := flag.Uint64("seed", 1, "VERIF_SEED")
	tier := flag.String("tier", "quick", "quick|thorough")
	modelPath := flag.String("model", "/verif/lean/.lake/build/bin/bfmodel", "Lean driver binary")
	outPath := flag.String("out", "", "result JSON path")
	replay := flag.String("replay", "", "replay file (JSON with lines)")
	ncases := flag.Int("cases", 0, "override number of cases")
	corpusDir := flag.String("corpus", "/verif/corpus", "corpus directory")
	workers := flag.Int("workers", 8, "parallel workers")
	list := flag.Bool("list", false, "list components")
	shard := flag.Int("shard", 0, "this process handles cases with index % shards == shard")
	shards := flag.Int("shards", 1, "number of shard processes")
	runnerChild := flag.String("runnerchild", "", "internal: run one `runner` fault in this process, print the outcome, exit at once")
	flag.Parse()

	if *runnerChild != "" {
		// no cleanup on purpose: the assembled process contains the real ProgressTracker goroutine, whose
		// by-value copy of its ticker can stall a process that stops and restarts it (DESIGN 10.1)
		fmt.Fprintln(realStdout, "RESULT "+runnerOne(*runnerChild))
		os.Exit(0)
	}

	if *list {
		names := []string{}
		for n := range components {
			names = append(names, n)
		}
		sort.Strings(names)
		fmt.Fprintln(realStdout, strings.Join(names, "\n"))
		return
	}
	c, ok := components[*comp]
	if !ok {
		fmt.Fprintf(os.Stderr, "unknown component %q\n", *comp)
		os.Exit(2)
	}
	if c.Serial {
		*workers = 1
	}
	start := time.Now()
	res := &Result{Component: c.Name, Tier: *tier, Seed: *seed, Distribution: map[string]int{}}

	type job struct {
		idx  int
		seed uint64
		cs   Case
	}
	jobs := []job{}
	// corpus first
	if *replay != "" {
		cs, err := loadCase(*replay)
		if err != nil {
			fmt.Fprintln(os.Stderr, err)
			os.Exit(2)
		}
		jobs = append(jobs, job{-1, 0, cs})
	} else {
		for i, cs := range loadCorpus(*corpusDir, c.Name) {
			if i%*shards != *shard {
				continue
			}
			jobs = append(jobs, job{-1000 - i, 0, cs})
		}
		n := c.Quick
		if *tier == "thorough" {
			n = c.Thorough
		}
		if *ncases > 0 {
			n = *ncases
		}
		master := NewRng(*seed ^ hashName(c.Name))
		for i := 0; i < n; i++ {
			s := master.U64()
			if i%*shards != *shard {
				continue
			}
			jobs = append(jobs, job{i, s, c.Gen(NewRng(s), *tier)})
		}
	}

	var mu sync.Mutex
	shrunkCount := map[string]int{}
	seen := map[string]bool{}
	jobCh := make(chan job)
	var wg sync.WaitGroup
	fatal := ""
	for w := 0; w < *workers; w++ {
		wg.Add(1)
		go func() {
			defer wg.Done()
			m, err := StartModel(*modelPath)
			if err != nil {
				mu.Lock()
				fatal = err.Error()
				mu.Unlock()
				for range jobCh {
				}
				return
			}
			defer m.Close()
			for j := range jobCh {
				tJob := time.Now()
				lines, outs := safeRun(c, j.cs)
				if os.Getenv("VERIF_DEBUG") != "" {
					fmt.Fprintf(os.Stderr, "case %d run %.2fs goroutines=%d\n", j.idx, time.Since(tJob).Seconds(), runtime.NumGoroutine())
				}
				mouts, at, bad, err := compareWithModel(c, m, lines, outs)
				if err != nil {
					mu.Lock()
					fatal = "model driver died: " + err.Error()
					mu.Unlock()
					continue
				}
				var mm *Mismatch
				unrepro := 0
				if at >= 0 && c.Timing {
					// confirm by re-running the identical case twice
					for k := 0; k < 2 && at >= 0; k++ {
						l2, o2 := safeRun(c, j.cs)
						mo2, a2, _, e2 := compareWithModel(c, m, l2, o2)
						if e2 == nil && a2 < 0 {
							at = -1
							unrepro++
							lines, outs, mouts = l2, o2, mo2
						}
					}
				}
				if at >= 0 {
					// shrink: the predicate re-runs both sides
					pred := func(cand Case) bool {
						if c.Valid != nil && !c.Valid(cand.Lines) {
							return false
						}
						l2, o2 := safeRun(c, cand)
						_, a2, _, e2 := compareWithModel(c, m, l2, o2)
						return e2 == nil && a2 >= 0
					}
					small := shrink(j.cs, pred, 20*time.Second)
					l2, o2 := safeRun(c, small)
					mo2, a2, _, _ := compareWithModel(c, m, l2, o2)
					if a2 >= 0 {
						mm = &Mismatch{j.idx, j.seed, l2, o2, mo2, a2, len(l2) < len(lines), ""}
					} else {
						mm = &Mismatch{j.idx, j.seed, lines, outs, mouts, at, false, ""}
					}
				}
				var hits []MonitorHit
				if c.Monitor != nil {
					for _, v := range c.Monitor(lines, outs, m) {
						vv := v
						if c.Timing {
							again := 0
							for k := 0; k < 2; k++ {
								l2, o2 := safeRun(c, j.cs)
								for _, v2 := range c.Monitor(l2, o2, m) {
									if v2.Property == vv.Property && v2.Known == vv.Known {
										again++
										break
									}
								}
							}
							if again < 2 {
								unrepro++
								continue
							}
						}
						// shrink monitor failures too (same property, same known-signature)
						pred := func(cand Case) bool {
							if c.Valid != nil && !c.Valid(cand.Lines) {
								return false
							}
							l2, o2 := safeRun(c, cand)
							for _, v2 := range c.Monitor(l2, o2, m) {
								if v2.Property == vv.Property && v2.Known == vv.Known {
									return true
								}
							}
							return false
						}
						budget := 4 * time.Second
						if vv.Known != "" {
							budget = 1 * time.Second // a recorded finding: a small replay is nice to have only
						}
						// shrink only the first few hits of each kind: the rest add nothing but time
						mu.Lock()
						shrunkCount[vv.Property+"/"+vv.Known]++
						nth := shrunkCount[vv.Property+"/"+vv.Known]
						mu.Unlock()
						if nth > 2 {
							budget = 0
						}
						small := shrink(j.cs, pred, budget)
						l2, o2 := safeRun(c, small)
						hits = append(hits, MonitorHit{j.idx, j.seed, l2, o2, vv})
					}
				}
				mu.Lock()
				res.Cases++
				res.Ops += len(lines)
				if unrepro > 0 {
					res.Distribution["unreproduced_timing_artefacts"] += unrepro
				}
				res.BadOps += bad
				res.Distribution["case_len_"+bucket(len(lines))]++
				for i, l := range lines {
					w := strings.Fields(l)
					if len(w) >= 2 {
						res.Distribution["op_"+w[1]]++
					}
					if i < len(outs) {
						o := strings.Fields(outs[i])
						if len(o) > 0 && len(o[0]) <= 14 && !strings.ContainsAny(o[0], "=:;,") {
							res.Distribution["out_"+w[1]+"_"+o[0]]++
						}
					}
				}
				if c.Stats != nil {
					c.Stats(lines, outs, res.Distribution)
				}
				key := strings.Join(lines, "\n")
				if !seen[key] && (c.Nontrivial == nil || c.Nontrivial(lines, outs)) {
					seen[key] = true
					res.Distinct++
				}
				if len(res.Samples) < 3 && j.idx >= 0 {
					res.Samples = append(res.Samples, Case{lines})
					res.SampleOuts = append(res.SampleOuts, outs)
				}
				if mm != nil {
					res.Mismatches = append(res.Mismatches, *mm)
				}
				res.MonitorHits = append(res.MonitorHits, hits...)
				mu.Unlock()
			}
		}()
	}
	for _, j := range jobs {
		jobCh <- j
	}
	close(jobCh)
	wg.Wait()
	res.WallS = time.Since(start).Seconds()
	if fatal != "" {
		fmt.Fprintln(os.Stderr, "FATAL:", fatal)
		os.Exit(2)
	}
	sort.Slice(res.Mismatches, func(i, j int) bool { return len(res.Mismatches[i].Lines) < len(res.Mismatches[j].Lines) })
	sort.Slice(res.MonitorHits, func(i, j int) bool { return len(res.MonitorHits[i].Lines) < len(res.MonitorHits[j].Lines) })
	b, _ := json.MarshalIndent(res, "", " ")
	if *outPath != "" {
		os.WriteFile(*outPath, b, 0o644)
	} else {
		realStdout.Write(b)
	}
	fmt.Fprintf(os.Stderr, "%s: cases=%d ops=%d distinct=%d mismatches=%d monitor_hits=%d bad_ops=%d wall=%.1fs\n",
		c.Name, res.Cases, res.Ops, res.Distinct, len(res.Mismatches), len(res.MonitorHits), res.BadOps, res.WallS)
	if res.BadOps > 0 {
		os.Exit(2) // harness bug, never a verdict
	}
	if len(res.Mismatches) > 0 || len(res.MonitorHits) > 0 {
		os.Exit(1)
	}
}

func bucket(n int) string {
	switch {
	case n <= 5:
		return "le5"
	case n <= 20:
		return "le20"
	case n <= 80:
		return "le80"
	case n <= 320:
		return "le320"
	}
	return "gt320"
}

func hashName(s string) uint64 {
	h := uint64(1469598103934665603)
	for i := 0; i < len(s); i++ {
		h ^= uint64(s[i])
		h *= 1099511628211
	}
	return h
}

func loadCase(path string) (Case, error) {
	b, err := os.ReadFile(path)
	if err != nil {
		return Case{}, err
	}
	var c Case
	if err := json.Unmarshal(b, &c); err != nil {
		return Case{}, err
	}
	return c, nil
}

func loadCorpus(dir, comp string) []Case {
	out := []Case{}
	ents, err := os.ReadDir(dir + "/" + comp)
	if err != nil {
		return out
	}
	names := []string{}
	for _, e := range ents {
		if strings.HasSuffix(e.Name(), ".json") {
			names = append(names, e.Name())
		}
	}
	sort.Strings(names)
	for _, n := range names {
		if c, err := loadCase(dir + "/" + comp + "/" + n); err == nil {
			out = append(out, c)
		}
	}
	return out
}
