package main

import (
	"fmt"
	"regexp"
	"strconv"
	"strings"
	"sync"
	"time"
)

// ---- generator: PG-stream grammar of DESIGN §3 + a malformed share --------------------------

type gTxn struct {
	xid     string
	begin   uint64
	changes []uint64
	commit  uint64
}

type gMsg struct {
	lsn     uint64
	payload string // Bxid | Cxid | X
	last    bool   // COMMIT
}

func feedStr(v []uint64) string {
	if len(v) == 0 {
		return "-"
	}
	p := []string{}
	for _, x := range v {
		p = append(p, strconv.FormatUint(x, 10))
	}
	return strings.Join(p, ",")
}

// genFeed: increasing, repeated, decreasing values and bursts around the positions seen so far
func genFeed(r *Rng, hi uint64, lastFed *uint64) []uint64 {
	if !r.Chance(30) {
		return nil
	}
	n := 1
	if r.Chance(25) {
		n = r.Range(2, 6)
	}
	if r.Chance(5) {
		n = r.Range(10, 20)
	}
	out := []uint64{}
	for j := 0; j < n; j++ {
		var v uint64
		switch r.Intn(6) {
		case 0:
			v = *lastFed // repeated
		case 1:
			if *lastFed > 0 {
				v = *lastFed - uint64(r.Range(1, int(min64(*lastFed, 50)))) // decreasing
			}
		case 2, 3:
			v = *lastFed + uint64(r.Range(1, 40)) // increasing
		case 4:
			v = hi // a COMMIT position the ledger could report
		default:
			v = uint64(r.Range(0, int(hi)+100))
		}
		out = append(out, v)
		*lastFed = v
	}
	return out
}

func min64(a, b uint64) uint64 {
	if a < b {
		return a
	}
	return b
}

func blocksStr(b [][]uint64) string {
	if len(b) == 0 {
		return "-"
	}
	p := []string{}
	for _, f := range b {
		if len(f) == 0 {
			p = append(p, "_")
		} else {
			p = append(p, feedStr(f))
		}
	}
	return strings.Join(p, ";")
}

func clientGen(r *Rng, tier string) Case {
	tickMode := r.Chance(14)
	mode := "notick"
	if tickMode {
		mode = "tick"
	}
	lines := []string{fmt.Sprintf("client start %s %s", clientVariant, mode)}
	if r.Chance(14) {
		return clientGenMalformed(r, lines, tickMode)
	}
	init := uint64(r.Range(0, 3000))
	if r.Chance(10) {
		init = 0
	}
	lastFed := init
	// the transactions PostgreSQL has for us
	lsn := init + uint64(r.Range(1, 50))
	nt := r.Range(1, 8)
	txns := []gTxn{}
	xid := r.Range(1, 900)
	for t := 0; t < nt; t++ {
		tx := gTxn{xid: strconv.Itoa(xid)}
		if !r.Chance(8) { // rarely the same id again (ids are only unique per delivery in the worst case)
			xid += r.Range(1, 3)
		}
		tx.begin = lsn
		lsn += uint64(r.Range(1, 30))
		nc := r.Intn(4)
		if r.Chance(10) {
			nc = r.Range(4, 9)
		}
		for c := 0; c < nc; c++ {
			tx.changes = append(tx.changes, lsn)
			lsn += uint64(r.Range(1, 30))
		}
		tx.commit = lsn
		lsn += uint64(r.Range(1, 30))
		txns = append(txns, tx)
	}
	msgsOf := func(t gTxn) []gMsg {
		m := []gMsg{{t.begin, "B" + t.xid, false}}
		for _, c := range t.changes {
			m = append(m, gMsg{c, "X", false})
		}
		return append(m, gMsg{t.commit, "C" + t.xid, true})
	}
	// client framing flags as the generator must anticipate them to stay inside the grammar
	saw, first := false, true
	var highest uint64 // what a restart will request
	cur, pos := 0, 0   // next message: txns[cur], index pos
	restart := func() {
		cur, pos = 0, 0
		for cur < len(txns) && txns[cur].commit <= highest {
			cur++
		}
	}
	allowErr := r.Chance(22)
	errs := 0
	manyHb := r.Chance(12)
	hb := 0
	tickOps := 0
	wFor := func() string {
		if tickMode && tickOps < 6 && r.Chance(30) {
			tickOps++
			return "1"
		}
		if manyHb && r.Chance(12) {
			tickOps++
			return "2"
		}
		return "0"
	}
	add := func(w string, feed []uint64, rest string) {
		lines = append(lines, fmt.Sprintf("client recv %s 0 %s %s", w, feedStr(feed), rest))
	}
	reply0 := 0
	if r.Chance(20) {
		reply0 = 1
	}
	add("0", genFeed(r, init, &lastFed), fmt.Sprintf("ka %d %d 0", reply0, init))
	tail := r.Range(0, 4)
	for len(lines) < 58 {
		if cur >= len(txns) {
			if tail == 0 {
				break
			}
			tail--
		}
		feed := genFeed(r, highest, &lastFed)
		c := r.Intn(1000)
		if manyHb && r.Chance(30) {
			c = 0
		}
		switch {
		case c < 80: // keepalive
			rep := r.Chance(50)
			if rep && hb >= 5 && !manyHb {
				rep = false
			}
			if rep {
				hb++
			}
			we := highest + uint64(r.Intn(100))
			add(wFor(), feed, fmt.Sprintf("ka %s %d 0", b01(rep), we))
		case c < 130:
			add(wFor(), feed, "timeout")
		case c < 160:
			add(wFor(), feed, "nil")
		case c < 180:
			add(wFor(), feed, "skip")
		case c < 230: // cut at this message boundary, redelivery from the last COMMIT
			add(wFor(), feed, "closed")
			restart()
		case c < 260 && allowErr && errs < 2: // error response: before the first BEGIN / inside / between
			errs++
			p := highest
			switch r.Intn(3) {
			case 0:
				if cur < len(txns) {
					p = txns[cur].commit // the transaction in flight is skipped
				}
			case 1:
				p = highest + uint64(r.Intn(40))
			default:
				if len(txns) > 0 {
					p = txns[r.Intn(len(txns))].commit
					if p < highest {
						p = highest
					}
				}
			}
			add("0", feed, fmt.Sprintf("errresp %d", p))
			highest = p
			saw, first = false, true
			restart()
		default:
			if cur >= len(txns) {
				add(wFor(), feed, "nil")
				continue
			}
			ms := msgsOf(txns[cur])
			m := ms[pos]
			if m.last && r.Chance(6) && cur+1 < len(txns) {
				// lost COMMIT: PostgreSQL goes on with the next transaction
				cur, pos = cur+1, 0
				continue
			}
			forwarded := true
			if m.payload[0] == 'B' {
				if !saw && !first {
					forwarded = false
					saw, first = false, true
				} else {
					saw, first = false, false
				}
			}
			if m.last {
				saw = true
				if m.lsn > highest {
					highest = m.lsn
				}
			}
			bl := [][]uint64{}
			if forwarded && tickMode && tickOps < 6 && r.Chance(22) {
				for k := r.Range(1, 2); k > 0; k-- {
					bl = append(bl, genFeed(r, highest, &lastFed))
				}
				tickOps++
			}
			add("0", feed, fmt.Sprintf("data %d %s 0 %s", m.lsn, m.payload, blocksStr(bl)))
			if !forwarded {
				restart() // the client closed the connection: the stream starts over
			} else if pos+1 < len(ms) {
				pos++
			} else {
				cur, pos = cur+1, 0
			}
		}
	}
	lines = append(lines, "client end 0 0 0")
	return Case{lines}
}

// malformed share: anything in any order
func clientGenMalformed(r *Rng, lines []string, tickMode bool) Case {
	var lastFed uint64 = uint64(r.Range(0, 500))
	n := r.Range(2, 30)
	if r.Chance(75) {
		lines = append(lines, fmt.Sprintf("client recv 0 0 %s ka %d %d 0", feedStr(genFeed(r, 100, &lastFed)), r.Intn(2), r.Range(0, 500)))
	} else if r.Chance(50) {
		lines = append(lines, "client recv 0 0 "+feedStr(genFeed(r, 100, &lastFed))+" kabad")
	}
	tickOps := 0
	for j := 0; j < n; j++ {
		feed := feedStr(genFeed(r, 1000, &lastFed))
		w := "0"
		if tickMode && tickOps < 4 && r.Chance(20) {
			w = "1"
			tickOps++
		}
		var rest string
		switch c := r.Intn(100); {
		case c < 45:
			pl := Pick(r, []string{"B", "B", "C", "C", "X", "X", "X", "U", "P"})
			if pl == "B" || pl == "C" {
				pl += strconv.Itoa(r.Range(1, 5))
			}
			if r.Chance(92) && (pl == "P") {
				pl = "X"
			}
			bl := "-"
			if tickMode && tickOps < 4 && r.Chance(15) {
				bl = "_"
				tickOps++
			}
			rest = fmt.Sprintf("data %d %s 0 %s", r.Range(0, 1000), pl, bl)
		case c < 60:
			rest = fmt.Sprintf("ka %d %d 0", r.Intn(2), r.Range(0, 1000))
		case c < 66:
			rest = "timeout"
		case c < 72:
			rest = "closed"
		case c < 78:
			rest = "nil"
		case c < 82:
			rest = "skip"
		case c < 90:
			rest = fmt.Sprintf("errresp %d", r.Range(0, 1000))
		case c < 92:
			rest = "kabad"
		case c < 94:
			rest = "copyempty"
		case c < 96:
			rest = "unexpected"
		case c < 98:
			rest = "fatal"
		default:
			rest = "nil"
		}
		lines = append(lines, fmt.Sprintf("client recv %s 0 %s %s", w, feed, rest))
	}
	lines = append(lines, "client end 0 0 0")
	return Case{lines}
}

// ---- comparison: the exit reason is not observable on the real code ---------------------------

var exitRe = regexp.MustCompile(`exit:[A-Za-z]+`)

func clientCompare(line, impl, model string) bool {
	return impl == exitRe.ReplaceAllString(model, "exit:?")
}

// ---- monitors ---------------------------------------------------------------------------------

var clientArms sync.Map // joined lines -> []string of model arms (filled by the monitor, read by Stats)

const clientGapSlack = 300 * time.Millisecond

func clientMonitor(lines, outs []string, m *Model) []Violation {
	var vs []Violation
	if len(lines) == 0 {
		return vs
	}
	w0 := strings.Fields(lines[0])
	if len(w0) != 4 {
		return vs
	}
	if o, _ := m.Do("clientmon reset " + w0[2]); o != "ok" {
		return append(vs, Violation{"C03", "monitor: reset answered " + o, ""})
	}
	arms := []string{}
	for i := 1; i < len(lines) && i < len(outs); i++ {
		w := strings.Fields(lines[i])
		if len(w) < 3 {
			continue
		}
		if w[1] == "end" {
			if w0[3] == "tick" {
				gap, _ := strconv.ParseInt(w[2], 10, 64)
				hold, _ := strconv.ParseInt(w[3], 10, 64)
				// the property's bound is progress interval + receive timeout (Props.C18.status_gap_bounded);
				// the client's receive timeout is 5 s. (An earlier version compared against P + the time the
				// harness itself held the receive + 300 ms, which is tighter than the property and raised a
				// false alarm on a loaded machine; the action ORDER is compared exactly by the correspondence.)
				bound := (clientTickP + clientGapSlack).Microseconds() + hold + 5_000_000
				if gap > bound {
					vs = append(vs, Violation{"C18", fmt.Sprintf("measured gap between consecutive status updates %d us > P + T + hold + slack = %d us", gap, bound), ""})
				}
			}
			continue
		}
		if w[1] != "recv" || outs[i] == "dead" || outs[i] == "bad-op" {
			continue
		}
		a, _ := m.Do("clientmon ev " + strings.Join(w[2:], " "))
		if !strings.HasPrefix(a, "arm=") {
			return append(vs, Violation{"C03", "monitor: ev answered " + a + " for " + lines[i], ""})
		}
		arms = append(arms, a[4:])
		if o, _ := m.Do("clientmon acts " + outs[i]); o != "ok" {
			// an action the spec cannot even read (hang, badclock, extra forward)
			return append(vs, Violation{"C07", "unreadable action history at op " + strconv.Itoa(i) + ": " + outs[i], ""})
		}
	}
	clientArms.Store(strings.Join(lines, "\n"), arms)
	v, _ := m.Do("clientmon verdict")
	for _, f := range strings.Fields(v) {
		kv := strings.SplitN(f, "=", 2)
		if len(kv) != 2 {
			continue
		}
		switch kv[0] {
		case "grammar":
		case "c02":
			if kv[1] != "-" {
				seen := map[string]bool{}
				for _, t := range strings.Split(kv[1], ",") {
					if seen[t] {
						continue
					}
					seen[t] = true
					if t == "a" && sessionStartsAtZero(lines) {
						// outside the environment assumption of C02 (DESIGN §3): PostgreSQL's first
						// keepalive announces the server's current WAL position, which is never 0
						continue
					}
					what := map[string]string{
						"a":  "F2a: error recovery closes the open delivery with a synthetic COMMIT at LSN 0",
						"b":  "F2b: error recovery forwards a synthetic COMMIT although no delivery is open (second COMMIT for the previous key / COMMIT for no key)",
						"c":  "F2c: error recovery forwards a synthetic COMMIT whose key is not the open delivery's",
						"c2": "F2c: error recovery leaves the open delivery without a COMMIT",
						"m":  "error recovery forwarded something else than one COMMIT",
					}[t]
					vs = append(vs, Violation{"C02", what, ""})
				}
			}
		default:
			if kv[1] != "1" {
				prop := map[string]string{"c03": "C03", "c07": "C07", "c18": "C18"}[kv[0][:3]]
				vs = append(vs, Violation{prop, "monitor " + kv[0] + " failed: " + v, ""})
			}
		}
	}
	return vs
}

func clientStats(lines, outs []string, d map[string]int) {
	key := strings.Join(lines, "\n")
	if a, ok := clientArms.LoadAndDelete(key); ok {
		for _, arm := range a.([]string) {
			d["arm_"+strings.Split(arm, "+")[0]]++
			for _, part := range strings.Split(arm, "+")[1:] {
				d["armflag_"+part]++
			}
		}
	}
	if len(lines) > 0 {
		w := strings.Fields(lines[len(lines)-1])
		if len(w) == 5 && w[1] == "end" {
			gap, _ := strconv.Atoi(w[2])
			hold, _ := strconv.Atoi(w[3])
			amb, _ := strconv.Atoi(w[4])
			d["ambiguous_truncated"] += amb
			if strings.HasSuffix(lines[0], " tick") {
				d["tick_cases"]++
				if gap > d["max_status_gap_us"] {
					d["max_status_gap_us"] = gap
				}
				if gap-hold > d["max_status_gap_minus_hold_us"] {
					d["max_status_gap_minus_hold_us"] = gap - hold
				}
			}
		}
	}
	for _, o := range outs {
		for _, f := range strings.Fields(o) {
			if i := strings.Index(f, ":"); i > 0 {
				d["act_"+f[:i]]++
			} else if f != "-" && f != "ok" {
				d["act_"+f]++
			}
		}
	}
}

// sessionStartsAtZero: the first keepalive of the session announced position 0
func sessionStartsAtZero(lines []string) bool {
	for _, l := range lines {
		w := strings.Fields(l)
		if len(w) >= 6 && w[1] == "recv" {
			// the first message of the session: a keepalive announcing 0, or a malformed
			// keepalive (the code logs the parse error and starts from position 0)
			if w[5] == "kabad" {
				return true
			}
			return w[5] == "ka" && len(w) >= 8 && w[7] == "0"
		}
	}
	return false
}

func init() {
	register(&Component{Name: "client", Gen: clientGen, Run: clientRun, Monitor: clientMonitor, Timing: true,
		Compare: clientCompare, Stats: clientStats, Quick: 2000, Thorough: 50000,
		Nontrivial: func(lines, outs []string) bool {
			f, s := false, false
			for _, o := range outs {
				f = f || strings.Contains(o, "fwd:")
				s = s || strings.Contains(o, "status:")
			}
			return f && s
		}})
}
