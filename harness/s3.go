package main

// Component `s3` (C12): the real S3Transporter (NewTransporterWithInterface) driven batch by batch
// through ONE worker, with a scripted s3iface.S3API, a scripted utils.TimeSource and a retry policy
// backoff.WithMaxRetries(ZeroBackOff, budget).
//
// Lines:   s3 cfg <keyspace hex> <bufMaxReuse> <budget>
//          s3 batch <y> <m> <d> <h> <full> <none|early|mid> <zlen> <script> <recs>
// `zlen` (length of the compressed body) is filled in by Run from what the sink saw.

import (
	"bytes"
	"compress/gzip"
	"errors"
	"fmt"
	"io"
	"reflect"
	"runtime"
	"strconv"
	"strings"
	"sync"
	"time"

	"github.com/Nextdoor/pg-bifrost.git/marshaller"
	"github.com/Nextdoor/pg-bifrost.git/shutdown"
	"github.com/Nextdoor/pg-bifrost.git/stats"
	"github.com/Nextdoor/pg-bifrost.git/transport"
	"github.com/Nextdoor/pg-bifrost.git/transport/batch"
	s3tr "github.com/Nextdoor/pg-bifrost.git/transport/transporters/s3/transporter"
	"github.com/Nextdoor/pg-bifrost.git/utils"
	"github.com/aws/aws-sdk-go/aws"
	"github.com/aws/aws-sdk-go/aws/request"
	"github.com/aws/aws-sdk-go/service/s3"
	"github.com/aws/aws-sdk-go/service/s3/s3iface"
	"github.com/cenkalti/backoff/v4"
	"github.com/cevaris/ordered_map"
	"github.com/sirupsen/logrus"
)

// ---- scripted clock, dispatched per worker goroutine (TimeSource is a package variable) ----

func goid() uint64 {
	var buf [64]byte
	n := runtime.Stack(buf[:], false)
	f := strings.Fields(string(buf[:n]))
	if len(f) < 2 {
		return 0
	}
	id, _ := strconv.ParseUint(f[1], 10, 64)
	return id
}

type s3Clock struct {
	mu     sync.Mutex
	parts  [5]string
	nano   int64
	onNano func() // armed action for the next UnixNano call (cancel "mid")
}

func (c *s3Clock) UnixNano() int64 {
	c.mu.Lock()
	f := c.onNano
	c.onNano = nil
	c.nano += 1000000
	n := c.nano
	c.mu.Unlock()
	if f != nil {
		f()
	}
	return n
}
func (c *s3Clock) DateString() (string, string, string, string, string) {
	c.mu.Lock()
	defer c.mu.Unlock()
	return c.parts[0], c.parts[1], c.parts[2], c.parts[3], c.parts[4]
}

type s3ClockMux struct{ real utils.TimeSource }

var s3Clocks sync.Map // goroutine id -> *s3Clock

func (m s3ClockMux) pick() utils.TimeSource {
	if c, ok := s3Clocks.Load(goid()); ok {
		return c.(*s3Clock)
	}
	return m.real
}
func (m s3ClockMux) UnixNano() int64 { return m.pick().UnixNano() }
func (m s3ClockMux) DateString() (string, string, string, string, string) {
	return m.pick().DateString()
}

var s3ClockInstall struct {
	mu    sync.Mutex
	users int
	saved utils.TimeSource
}

func s3InstallClock() {
	s3ClockInstall.mu.Lock()
	defer s3ClockInstall.mu.Unlock()
	if s3ClockInstall.users == 0 {
		s3ClockInstall.saved = s3tr.TimeSource
		s3tr.TimeSource = s3ClockMux{s3ClockInstall.saved}
	}
	s3ClockInstall.users++
}
func s3RestoreClock() {
	s3ClockInstall.mu.Lock()
	defer s3ClockInstall.mu.Unlock()
	s3ClockInstall.users--
	if s3ClockInstall.users == 0 {
		s3tr.TimeSource = s3ClockInstall.saved
	}
}

// ---- scripted sink ----

type s3Call struct {
	key, enc, bucket string
	start, read, end int64
	ok               bool
	body             []byte // gunzipped, nil when not decodable
	decodable        bool
}

type s3Fake struct {
	s3iface.S3API
	mu     sync.Mutex
	script []string
	calls  []s3Call
	cancel func() // the worker's terminate-context cancel function (script token x<n>)
}

func (f *s3Fake) PutObjectWithContext(ctx aws.Context, in *s3.PutObjectInput, _ ...request.Option) (*s3.PutObjectOutput, error) {
	f.mu.Lock()
	defer f.mu.Unlock()
	c := s3Call{key: aws.StringValue(in.Key), enc: aws.StringValue(in.ContentEncoding), bucket: aws.StringValue(in.Bucket)}
	// what an SDK does to learn the length: look at the current offset and the end, seek back
	c.start, _ = in.Body.Seek(0, io.SeekCurrent)
	c.end, _ = in.Body.Seek(0, io.SeekEnd)
	in.Body.Seek(c.start, io.SeekStart)
	act := "ok"
	if len(f.script) > 0 {
		act = f.script[0]
		f.script = f.script[1:]
	}
	if strings.HasPrefix(act, "x") && f.cancel != nil {
		// shutdown is requested WHILE this call is in flight: the call fails (a real SDK call on a cancelled context does);
		// nothing was stored, so nothing may be reported written
		f.cancel()
		act = "f" + act[1:]
	}
	if strings.HasPrefix(act, "f") {
		n, _ := strconv.ParseInt(act[1:], 10, 64)
		got, _ := io.CopyN(io.Discard, in.Body, n)
		c.read = got
		f.calls = append(f.calls, c)
		return nil, errors.New("scripted PutObject failure")
	}
	data, _ := io.ReadAll(in.Body)
	c.read = int64(len(data))
	c.ok = true
	// independent decoder
	if zr, err := gzip.NewReader(bytes.NewReader(data)); err == nil {
		if plain, err := io.ReadAll(zr); err == nil {
			c.body = plain
			c.decodable = true
		}
	}
	f.calls = append(f.calls, c)
	return &s3.PutObjectOutput{}, nil
}

// ---- log capture ----

type logCapture struct {
	mu   sync.Mutex
	msgs []string
}

func (h *logCapture) Levels() []logrus.Level { return logrus.AllLevels }
func (h *logCapture) Fire(e *logrus.Entry) error {
	h.mu.Lock()
	h.msgs = append(h.msgs, e.Message)
	h.mu.Unlock()
	return nil
}
func (h *logCapture) has(sub string) bool {
	h.mu.Lock()
	defer h.mu.Unlock()
	for _, m := range h.msgs {
		if strings.Contains(m, sub) {
			return true
		}
	}
	return false
}

func quietLogger() (*logrus.Logger, *logCapture) {
	lg := logrus.New()
	lg.Out = io.Discard
	lg.Level = logrus.DebugLevel
	h := &logCapture{}
	lg.AddHook(h)
	return lg, h
}

// ---- the worker under test ----

type s3Worker struct {
	sh    shutdown.ShutdownHandler
	in    chan transport.Batch
	txns  chan *ordered_map.OrderedMap
	stats chan stats.Stat
	done  chan struct{}
	fake  *s3Fake
	clock *s3Clock
	logs  *logCapture
	tr    transport.Transporter
	stopS chan struct{}
}

func newS3Worker(ks string, reuse int, budget uint64) *s3Worker {
	w := &s3Worker{
		sh:    shutdown.NewShutdownHandler(),
		in:    make(chan transport.Batch),
		txns:  make(chan *ordered_map.OrderedMap),
		stats: make(chan stats.Stat, 64),
		done:  make(chan struct{}),
		fake:  &s3Fake{},
		clock: &s3Clock{nano: 1700000000000000000},
		stopS: make(chan struct{}),
	}
	w.fake.cancel = w.sh.CancelFunc
	lg, h := quietLogger()
	w.logs = h
	go func() {
		for {
			select {
			case <-w.stats:
			case <-w.stopS:
				return
			}
		}
	}()
	w.tr = s3tr.NewTransporterWithInterface(w.sh, w.in, w.txns, w.stats, *logrus.NewEntry(lg), 0, "bkt", ks, w.fake,
		backoff.WithMaxRetries(&backoff.ZeroBackOff{}, budget), reuse)
	ready := make(chan struct{})
	go func() {
		id := goid()
		s3Clocks.Store(id, w.clock)
		close(ready)
		defer func() {
			s3Clocks.Delete(id)
			close(w.done)
		}()
		w.tr.StartTransporting()
	}()
	<-ready
	return w
}

func (w *s3Worker) stop() {
	w.sh.CancelFunc()
	select {
	case <-w.done:
	case <-time.After(5 * time.Second):
	}
	// drain a possibly pending report
	select {
	case <-w.txns:
	default:
	}
	close(w.stopS)
}

func (w *s3Worker) isDone() bool {
	select {
	case <-w.done:
		return true
	default:
		return false
	}
}

func (w *s3Worker) used() int64 {
	return reflect.ValueOf(w.tr).Elem().FieldByName("bufUsedCount").Int()
}

type s3Rec struct {
	lsn  uint64
	json []byte
}

func parseS3Recs(s string) ([]s3Rec, bool) {
	out := []s3Rec{}
	if s == "-" {
		return out, true
	}
	for _, p := range strings.Split(s, ",") {
		q := strings.Split(p, ":")
		if len(q) != 2 {
			return nil, false
		}
		l, err := strconv.ParseUint(q[0], 10, 64)
		if err != nil {
			return nil, false
		}
		out = append(out, s3Rec{l, []byte(unhexs(q[1]))})
	}
	return out, true
}

func s3Out(outcome, key, enc string, calls []s3Call, reported, terminated bool, used int64) string {
	atts := []string{}
	for _, c := range calls {
		ok := 0
		if c.ok {
			ok = 1
		}
		atts = append(atts, fmt.Sprintf("%d:%d:%d", c.start, c.read, ok))
	}
	body := "none"
	if n := len(calls); n > 0 && calls[n-1].ok {
		if calls[n-1].decodable {
			body = hexs(string(calls[n-1].body))
		} else {
			body = "garbage"
		}
	}
	return fmt.Sprintf("%s key=%s enc=%s att=%s body=%s reported=%v terminated=%v used=%d", outcome, key, enc,
		joinList(atts, ";"), body, reported, terminated, used)
}

// s3RunFixed runs the same cases but compares with the model of the code AFTER the planned F6 fix
// (driver lines `s3fixed …`). Use it on a tree that has the fix; after the fix is committed to /repo the
// `s3` component is switched to it (S3Put.keyFn := keyJoinFixed).
func s3RunFixed(c Case) ([]string, []string) {
	lines, outs := s3Run(c)
	for i, l := range lines {
		if strings.HasPrefix(l, "s3 ") {
			lines[i] = "s3fixed " + l[3:]
		}
	}
	return lines, outs
}

func s3Run(c Case) ([]string, []string) {
	lines, outs := []string{}, []string{}
	var w *s3Worker
	s3InstallClock()
	defer s3RestoreClock()
	defer func() {
		if w != nil {
			w.stop()
		}
	}()
	for _, l := range c.Lines {
		f := strings.Fields(l)
		switch {
		case len(f) == 5 && f[0] == "s3" && f[1] == "cfg":
			reuse, e1 := strconv.Atoi(f[3])
			budget, e2 := strconv.ParseUint(f[4], 10, 64)
			if e1 != nil || e2 != nil {
				lines, outs = append(lines, l), append(outs, "bad-op")
				continue
			}
			if w != nil {
				w.stop()
			}
			w = newS3Worker(unhexs(f[2]), reuse, budget)
			lines, outs = append(lines, l), append(outs, "ok")
		case len(f) == 11 && f[0] == "s3" && f[1] == "batch" && w != nil:
			recs, ok := parseS3Recs(f[10])
			if !ok {
				lines, outs = append(lines, l), append(outs, "bad-op")
				continue
			}
			if w.isDone() {
				lines = append(lines, l)
				outs = append(outs, s3Out("dead", "none", "none", nil, false, false, w.used()))
				continue
			}
			w.clock.mu.Lock()
			for i := 0; i < 5; i++ {
				w.clock.parts[i] = unhexs(f[2+i])
			}
			w.clock.mu.Unlock()
			w.fake.mu.Lock()
			w.fake.calls = nil
			w.fake.script = nil
			if f[9] != "-" {
				w.fake.script = strings.Split(f[9], ",")
			}
			w.fake.mu.Unlock()
			b := batch.NewGenericBatch("", len(recs)+1)
			for _, r := range recs {
				b.Add(&marshaller.MarshalledMessage{Operation: "INSERT", Table: "t", Json: r.json, TimeBasedKey: "1-1",
					WalStart: r.lsn, Transaction: "1"})
			}
			b.Close()
			switch f[7] {
			case "early":
				w.sh.CancelFunc()
			case "mid":
				w.clock.mu.Lock()
				w.clock.onNano = w.sh.CancelFunc
				w.clock.mu.Unlock()
			}
			outcome := ""
			reported := false
			select {
			case w.in <- b:
			case <-w.done:
			case <-time.After(5 * time.Second):
				outcome = "hang-send"
			}
			if outcome == "" {
				select {
				case m, ok := <-w.txns:
					if ok && m != nil {
						reported = true
						outcome = "written"
						if m != b.GetTransactions() {
							outcome = "written-other-map"
						}
					}
				case <-time.After(10 * time.Second):
					outcome = "hang"
				}
			}
			terminated := false
			if !reported && !strings.HasPrefix(outcome, "hang") {
				select {
				case <-w.done:
				case <-time.After(5 * time.Second):
					outcome = "hang-shutdown"
				}
			}
			terminated = w.isDone()
			w.fake.mu.Lock()
			calls := append([]s3Call{}, w.fake.calls...)
			w.fake.mu.Unlock()
			if outcome == "" {
				switch {
				case w.logs.has("Recovered in S3Transporter"):
					outcome = "panic"
				case w.logs.has("max retries exceeded"):
					outcome = "exhausted"
				case f[7] == "mid" && len(calls) > 0:
					outcome = "cancelled"
				default:
					outcome = "terminated"
				}
			}
			key, enc := "none", "none"
			zlen := int64(0)
			if len(calls) > 0 {
				key, enc, zlen = hexs(calls[0].key), calls[0].enc, calls[0].end
				for _, cl := range calls {
					if hexs(cl.key) != key {
						key = "mixed"
					}
					if cl.bucket != "bkt" {
						enc = "wrong-bucket"
					}
					if cl.end != zlen {
						enc = "body-length-changed"
					}
				}
			}
			f[8] = strconv.FormatInt(zlen, 10)
			lines = append(lines, strings.Join(f, " "))
			outs = append(outs, s3Out(outcome, key, enc, calls, reported, terminated, w.used()))
		default:
			lines, outs = append(lines, l), append(outs, "bad-op")
		}
	}
	return lines, outs
}

// ---- generator ----

var s3KeySpaces = []string{"", "/", "//", "a", "/a/", "a/b", "a//b/", " a ", "//a", "a///", "///", "data/wal", "/x/y/z", " ", "/ /"}
var s3KsAtoms = []string{"/", "/", "a", "b", " ", "seg", "/", "x1"}

func s3GenKeySpace(r *Rng) string {
	if r.Chance(70) {
		return Pick(r, s3KeySpaces)
	}
	var sb strings.Builder
	for i := r.Range(0, 6); i > 0; i-- {
		sb.WriteString(Pick(r, s3KsAtoms))
	}
	return sb.String()
}

func s3GenJson(r *Rng, id int) string {
	switch r.Intn(12) {
	case 0:
		return ""
	case 1:
		// large and poorly compressible, so that partial reads of the compressed body are meaningful
		n := r.Range(500, 4000)
		b := make([]byte, n)
		for i := range b {
			b[i] = byte('!' + r.Intn(90))
		}
		return string(b)
	case 2:
		return fmt.Sprintf("{\"id\":%d,\"s\":\"line\\nbreak\"}", id)
	case 3:
		return "{\"raw\":\"a\nb\"}" // a raw newline inside a record (not produced by the marshaller)
	}
	return fmt.Sprintf("{\"id\":%d,\"lsn\":\"%d\",\"pad\":\"%s\"}", id, r.Intn(1000000), strings.Repeat("p", r.Intn(40)))
}

func s3GenLsn(r *Rng) uint64 {
	switch r.Intn(8) {
	case 0:
		return 0
	case 1:
		return ^uint64(0)
	case 2:
		return uint64(r.Intn(10))
	case 3:
		return []uint64{9, 10, 99, 100, 1000000, 4294967295, 4294967296}[r.Intn(7)]
	}
	return r.U64() >> uint(r.Intn(60))
}

func s3GenTime(r *Rng) [5]string {
	y, m, d, h := r.Range(2019, 2031), r.Range(1, 12), r.Range(1, 28), r.Range(0, 23)
	t := [5]string{fmt.Sprintf("%d", y), fmt.Sprintf("%02d", m), fmt.Sprintf("%02d", d), fmt.Sprintf("%02d", h), ""}
	t[4] = fmt.Sprintf("%s%s%s%s%02d%02d", t[0], t[1], t[2], t[3], r.Intn(60), r.Intn(60))
	if r.Chance(5) {
		// a clock answer outside the property's shape: exercises the remaining key_join branches
		t[r.Intn(4)] = Pick(r, []string{"", "/", "7", "07/", "/07", "//"})
	}
	return t
}

func s3Gen(r *Rng, tier string) Case {
	reuse := Pick(r, []int{0, 1, 2, 5})
	budget := r.Range(0, 3)
	lines := []string{fmt.Sprintf("s3 cfg %s %d %d", hexs(s3GenKeySpace(r)), reuse, budget)}
	maxB := 12
	rare := 3 // events that stop the worker are rarer in long sequences, so that late batches are reached
	if tier == "thorough" {
		maxB = 40
		rare = 1
	}
	nb := r.Range(1, maxB)
	id := 0
	for i := 0; i < nb; i++ {
		recs := []string{}
		nr := r.Range(1, 5)
		if r.Intn(1000) < 3*rare {
			nr = 0
		}
		for j := 0; j < nr; j++ {
			id++
			recs = append(recs, fmt.Sprintf("%d:%s", s3GenLsn(r), hexs(s3GenJson(r, id))))
		}
		script := []string{}
		if r.Chance(45) {
			k := r.Range(1, 4)
			if r.Intn(1000) >= 20*rare && k > budget {
				k = budget
			}
			for j := 0; j < k; j++ {
				n := 0
				switch r.Intn(5) {
				case 0:
					n = 0
				case 1:
					n = 1
				case 2:
					n = r.Range(2, 40)
				case 3:
					n = r.Range(41, 3000)
				case 4:
					n = 1000000
				}
				script = append(script, fmt.Sprintf("f%d", n))
			}
			if r.Chance(50) {
				script = append(script, "ok")
			}
		}
		if r.Chance(6) {
			// shutdown requested while the first upload is in flight; the context stays cancelled, so every later call fails too
			script = []string{fmt.Sprintf("x%d", r.Range(0, 50))}
			for j := 0; j <= budget+1; j++ {
				script = append(script, "f0")
			}
		}
		cancel := "none"
		if x := r.Intn(1000); x < 3*rare {
			cancel = "early"
		} else if x < 9*rare {
			cancel = "mid"
		}
		t := s3GenTime(r)
		lines = append(lines, fmt.Sprintf("s3 batch %s %s %s %s %s %s 0 %s %s", hexs(t[0]), hexs(t[1]), hexs(t[2]), hexs(t[3]),
			hexs(t[4]), cancel, joinList(script, ","), joinList(recs, ",")))
	}
	return Case{lines}
}

// ---- monitor: C12 judged on what the sink saw ----

func s3Monitor(lines, outs []string, m *Model) []Violation {
	var vs []Violation
	ks := "e"
	s3Budget := -1
	for i, l := range lines {
		if i >= len(outs) {
			break
		}
		f := strings.Fields(l)
		if len(f) == 5 && f[1] == "cfg" {
			ks = f[2]
			s3Budget, _ = strconv.Atoi(f[4])
			continue
		}
		// C17: a sink that keeps failing stops the worker within its retry budget
		if s3Budget >= 0 {
			for _, w := range strings.Fields(outs[i]) {
				if strings.HasPrefix(w, "att=") && w != "att=-" {
					if n := strings.Count(w, ";") + 1; n > s3Budget+1 {
						return append(vs, Violation{"C17", fmt.Sprintf("the S3 worker made %d PutObject attempts for one batch with a retry budget of %d (%s)", n, s3Budget, outs[i][:80]), ""})
					}
				}
			}
			if strings.HasPrefix(outs[i], "exhausted") && strings.Contains(outs[i], "terminated=false") {
				return append(vs, Violation{"C17", "retry budget exhausted but the termination signal was not raised: " + outs[i][:120], ""})
			}
		}
		if len(f) != 11 || f[1] != "batch" || outs[i] == "bad-op" {
			continue
		}
		o, err := m.Do(fmt.Sprintf("s3spec %s %s %s %s %s %s %s %s", ks, f[2], f[3], f[4], f[5], f[6], f[10], outs[i]))
		if err != nil {
			continue
		}
		if strings.HasPrefix(o, "violation") {
			key := ""
			for _, w := range strings.Fields(outs[i]) {
				if strings.HasPrefix(w, "key=") {
					key = unhexs(w[4:])
				}
			}
			vs = append(vs, Violation{"C12", fmt.Sprintf("%s (key space %q, key %q)", strings.TrimPrefix(o, "violation "), unhexs(ks), key), ""})
			return vs
		}
		if strings.HasPrefix(outs[i], "hang") {
			vs = append(vs, Violation{"C12", "worker hangs: " + outs[i], ""})
			return vs
		}
	}
	return vs
}

func s3Stats(lines, outs []string, d map[string]int) {
	for i, l := range lines {
		if i >= len(outs) {
			break
		}
		f := strings.Fields(l)
		if len(f) == 5 && f[1] == "cfg" {
			ks := unhexs(f[2])
			switch {
			case ks == "":
				d["ks_empty"]++
			case ks == "/":
				d["ks_slash"]++
			case strings.Trim(ks, "/") == "":
				d["ks_slashonly_multi"]++
			case strings.HasPrefix(ks, "/") || strings.HasSuffix(ks, "/"):
				d["ks_outer_slashes"]++
			default:
				d["ks_plain"]++
			}
			d["reuse_"+f[3]]++
			d["budget_"+f[4]]++
			continue
		}
		o := strings.Fields(outs[i])
		if len(f) != 11 || len(o) < 8 {
			continue
		}
		att := strings.TrimPrefix(o[3], "att=")
		n := 0
		if att != "-" {
			n = len(strings.Split(att, ";"))
		}
		d[fmt.Sprintf("attempts_%d", n)]++
		if n > 1 {
			for _, a := range strings.Split(att, ";")[:n-1] {
				p := strings.Split(a, ":")
				if p[1] == "0" {
					d["failed_read_nothing"]++
				} else if p[1] == f[8] {
					d["failed_read_all"]++
				} else {
					d["failed_read_partial"]++
				}
			}
		}
		if o[0] == "written" || o[0] == "cancelled" {
			if o[7] == "used=0" {
				d["buf_recreated"]++
			} else {
				d["buf_reset"]++
			}
		}
		if f[10] == "-" {
			d["empty_batch"]++
		}
	}
}

func init() {
	register(&Component{Name: "s3", Gen: s3Gen, Run: s3Run, Monitor: s3Monitor, Stats: s3Stats, Quick: 1500, Thorough: 30000,
		Nontrivial: func(lines, outs []string) bool {
			retried, written := false, 0
			for _, o := range outs {
				if strings.HasPrefix(o, "written") {
					written++
					if strings.Contains(o, ";") {
						retried = true
					}
				}
			}
			return retried && written >= 2
		}})
}
