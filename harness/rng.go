package main

// SplitMix64: every random choice of a case derives from one state.
type Rng struct{ s uint64 }

func NewRng(seed uint64) *Rng { return &Rng{seed} }

func (r *Rng) U64() uint64 {
	r.s += 0x9E3779B97F4A7C15
	z := r.s
	z = (z ^ (z >> 30)) * 0xBF58476D1CE4E5B9
	z = (z ^ (z >> 27)) * 0x94D049BB133111EB
	return z ^ (z >> 31)
}

// Intn returns a value in [0,n).
func (r *Rng) Intn(n int) int {
	if n <= 0 {
		return 0
	}
	return int(r.U64() % uint64(n))
}

// Range returns a value in [lo,hi].
func (r *Rng) Range(lo, hi int) int { return lo + r.Intn(hi-lo+1) }

func (r *Rng) Chance(pct int) bool { return r.Intn(100) < pct }

func (r *Rng) Fork() *Rng { return NewRng(r.U64()) }

func Pick[T any](r *Rng, xs []T) T { return xs[r.Intn(len(xs))] }
