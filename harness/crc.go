package main

import "hash/crc32"

func crc32ieee(b []byte) uint32 { return crc32.ChecksumIEEE(b) }
