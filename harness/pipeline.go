package main

import (
	"os"
	"bytes"
	"encoding/json"
	"compress/gzip"
	"context"
	"errors"
	"fmt"
	"io"
	"strconv"
	"strings"
	"sync"
	"time"

	"github.com/Nextdoor/pg-bifrost.git/app/config"
	"github.com/Nextdoor/pg-bifrost.git/filter"
	"github.com/Nextdoor/pg-bifrost.git/marshaller"
	"github.com/Nextdoor/pg-bifrost.git/parselogical"
	"github.com/Nextdoor/pg-bifrost.git/partitioner"
	"github.com/Nextdoor/pg-bifrost.git/replication"
	"github.com/Nextdoor/pg-bifrost.git/shutdown"
	"github.com/Nextdoor/pg-bifrost.git/stats"
	"github.com/Nextdoor/pg-bifrost.git/transport"
	"github.com/Nextdoor/pg-bifrost.git/transport/batch"
	"github.com/Nextdoor/pg-bifrost.git/transport/batcher"
	"github.com/Nextdoor/pg-bifrost.git/transport/progress"
	"github.com/Nextdoor/pg-bifrost.git/transport/transporters/kinesis"
	kinesistr "github.com/Nextdoor/pg-bifrost.git/transport/transporters/kinesis/transporter"
	s3tr "github.com/Nextdoor/pg-bifrost.git/transport/transporters/s3/transporter"
	stdouttr "github.com/Nextdoor/pg-bifrost.git/transport/transporters/stdout/transporter"
	"github.com/aws/aws-sdk-go/aws"
	"github.com/aws/aws-sdk-go/aws/request"
	awskin "github.com/aws/aws-sdk-go/service/kinesis"
	"github.com/aws/aws-sdk-go/service/kinesis/kinesisiface"
	"github.com/aws/aws-sdk-go/service/s3"
	"github.com/aws/aws-sdk-go/service/s3/s3iface"
	"github.com/cenkalti/backoff/v4"
	"github.com/cevaris/ordered_map"
	"github.com/sirupsen/logrus"
)

// ---- pipeline: the real stages assembled (filter ▸ partitioner ▸ marshaller ▸ batcher ▸
// transporters with gated fake sinks ▸ ledger), driven by a scripted environment. The
// batcher is stepped with the parking context; sink calls wait at gates the script opens;
// the ledger is stepped by the harness exactly as a sequential tracker could consume its two
// channels ("stepped"), or the real ProgressTracker goroutine runs ("real").
// Judged by Lean-evaluated monitors (Spec.Pipeline, Spec.Ledger), not by a step model. ----

type sinkCall struct {
	ids    []int
	decide chan string // "accept" | "fail" | "panic"; capacity 1
	once   sync.Once
}

// give hands the call its decision. Only the first decision counts: the worker clears p.pending[w] a moment AFTER
// it has taken the decision, so the harness can still see a call it has already decided (on a loaded machine that
// window outlasts quiesce) - a second, blocking send on the unbuffered channel used to hang the run for good.
func (c *sinkCall) give(d string) bool {
	first := false
	c.once.Do(func() { c.decide <- d; first = true })
	return first
}

type pipe struct {
	mu      sync.Mutex
	evs     []string // pipemon lines, global order
	sh      shutdown.ShutdownHandler
	pc      *parkCtx
	in      chan *replication.WalMessage
	statsCh chan stats.Stat
	fdec    chan string // filter/marshaller decisions for the message in flight
	seen    chan []*progress.Seen
	written chan *ordered_map.OrderedMap
	tracker *progress.ProgressTracker
	b       *batcher.Batcher
	workers int
	pending []*sinkCall
	arrivals int
	bexit   chan struct{}
	parked  bool
	inSelect bool
	bdead   bool
	mode    string // stepped | real
	ledgerTrace []string // ledgermon lines (stepped mode)
	tooBigStats int
	kind    string
	filterList []string
	whitelist bool
	pmethod string
	buckets int
	pkeyIds map[string]int
	rng     *Rng
	failStop bool
	seenLog [][]*progress.Seen
	expectTooBig int
	expectSunk int
	pcClosed bool
	inClosed bool
	tickPanicked bool
	deadCalls int
	retries int
	cancelledAfterFault bool
	sinkDead map[int]string
	faultAt int
	faultKind string
	ledgerItems int
	routing string
	settled bool
	obs     *sysObs // syscorr: taps that report every primitive event (nil for the monitor-only components)
}

func (p *pipe) ev(s string) {
	p.mu.Lock()
	p.evs = append(p.evs, s)
	p.mu.Unlock()
}

type fakeKin struct {
	kinesisiface.KinesisAPI
	p *pipe
	w int
}

func (f *fakeKin) PutRecords(in *awskin.PutRecordsInput) (*awskin.PutRecordsOutput, error) {
	ids := []int{}
	for _, r := range in.Records {
		ids = append(ids, idFromJson(r.Data))
	}
	d := f.p.sinkWait(f.w, ids)
	switch d {
	case "accept":
		recs := make([]*awskin.PutRecordsResultEntry, len(in.Records))
		for i := range recs {
			recs[i] = &awskin.PutRecordsResultEntry{}
		}
		return &awskin.PutRecordsOutput{FailedRecordCount: aws.Int64(0), Records: recs}, nil
	case "panic":
		panic("injected sink panic")
	}
	return nil, errors.New("injected sink error")
}

type fakeS3 struct {
	s3iface.S3API
	p *pipe
	w int
}

func (f *fakeS3) PutObjectWithContext(ctx aws.Context, in *s3.PutObjectInput, _ ...request.Option) (*s3.PutObjectOutput, error) {
	body, _ := io.ReadAll(in.Body)
	ids := []int{}
	if zr, err := gzip.NewReader(bytes.NewReader(body)); err == nil {
		raw, _ := io.ReadAll(zr)
		for _, line := range bytes.Split(raw, []byte("\n")) {
			if len(line) > 0 {
				ids = append(ids, idFromJson(line))
			}
		}
	}
	d := f.p.sinkWait(f.w, ids)
	switch d {
	case "accept":
		return &s3.PutObjectOutput{}, nil
	case "panic":
		panic("injected sink panic")
	}
	return nil, errors.New("injected sink error")
}

// sinkWait parks a worker's sink call at its gate; on accept the records are logged as sunk
// BEFORE the call returns, so the global event order is the real order.
func (p *pipe) sinkWait(w int, ids []int) string {
	p.mu.Lock()
	if d, ok := p.sinkDead[w]; ok {
		p.deadCalls++
		p.mu.Unlock()
		return d // injected permanent fault: every call fails (or panics) from now on
	}
	p.mu.Unlock()
	c := &sinkCall{ids: ids, decide: make(chan string, 1)}
	p.mu.Lock()
	p.pending[w] = c
	p.arrivals++
	if p.obs != nil {
		p.obs.arrived(w, ids)
	}
	p.mu.Unlock()
	d := <-c.decide
	p.mu.Lock()
	p.pending[w] = nil
	if d == "accept" {
		for _, id := range ids {
			p.evs = append(p.evs, fmt.Sprintf("pipemon sunk %d %d", w, id))
		}
	}
	p.mu.Unlock()
	return d
}

func (p *pipe) fingerprint() string {
	p.mu.Lock()
	defer p.mu.Unlock()
	q := 0
	for _, c := range p.queues() {
		q += len(c)
	}
	return fmt.Sprintf("%d/%d/%d/%d", p.arrivals, len(p.written), q, len(p.evs))
}

// quiesce waits until the free-running goroutines (workers) have stopped making progress.
func (p *pipe) quiesce() {
	last := p.fingerprint()
	stable := 0
	i := 0
	for ; i < 400 && stable < 3; i++ {
		time.Sleep(200 * time.Microsecond)
		f := p.fingerprint()
		if f == last {
			stable++
		} else {
			stable = 0
			last = f
		}
	}
	if i >= 400 && os.Getenv("VERIF_DEBUG") != "" {
		fmt.Fprintf(os.Stderr, "quiesce did not stabilise: %s mode=%s kind=%s\n", last, p.mode, p.kind)
	}
}

func newPipe(w []string, rng *Rng) (*pipe, error) { return newPipeOpt(w, rng, nil) }

// queues: the per-worker channels the transporters read from
func (p *pipe) queues() []chan transport.Batch {
	if p.obs != nil {
		return p.obs.qs
	}
	return p.b.GetOutputChans()
}

func newPipeOpt(w []string, rng *Rng, obs *sysObs) (*pipe, error) {
	// pipeline cfg <kind> <workers> <routing> <pmethod> <buckets> <wl 0|1> <listhex> <mem> <mode> <retries>
	p := &pipe{rng: rng, pkeyIds: map[string]int{}, sinkDead: map[int]string{}, faultAt: -1, obs: obs}
	p.kind = w[2]
	p.workers, _ = strconv.Atoi(w[3])
	p.routing = w[4]
	routing := batcher.GetRoutingMethod(w[4])
	p.pmethod = w[5]
	p.buckets, _ = strconv.Atoi(w[6])
	p.whitelist = w[7] == "1"
	p.filterList = unhexList(w[8])
	mem, _ := strconv.ParseInt(w[9], 10, 64)
	p.mode = w[10]
	retries, _ := strconv.Atoi(w[11])
	p.retries = retries
	p.sh = shutdown.NewShutdownHandler()
	p.pc = newParkCtx()
	cancel := p.sh.CancelFunc
	p.in = make(chan *replication.WalMessage)
	p.statsCh = make(chan stats.Stat, 16)
	p.fdec = make(chan string, 64)
	p.seen = make(chan []*progress.Seen)
	p.written = make(chan *ordered_map.OrderedMap, 8192)
	p.pending = make([]*sinkCall, p.workers)
	// stats drain: remembers what the harness needs, never blocks the stages
	go func() {
		for st := range p.statsCh {
			switch st.Component + "/" + st.StatName {
			case "filter/passed", "filter/filtered", "marshaller/failure":
				select {
				case p.fdec <- st.StatName:
				default:
				}
			case "batcher/dropped_too_big":
				p.mu.Lock()
				p.tooBigStats++
				p.mu.Unlock()
			}
		}
	}()
	f := filter.New(p.sh, p.in, p.statsCh, p.whitelist, false, p.filterList)
	pa := partitioner.New(p.sh, f.OutputChan, p.statsCh, partitioner.GetPartitionMethod(p.pmethod), p.buckets)
	ma := marshaller.New(p.sh, pa.OutputChan, p.statsCh, false)
	var bf transport.BatchFactory
	kind := strings.Split(p.kind, ":")
	switch kind[0] {
	case "kinesis":
		bf = kinesis.NewBatchFactory(map[string]interface{}{config.VAR_NAME_PARTITION_METHOD: partitioner.GetPartitionMethod(p.pmethod)})
	default:
		n, _ := strconv.Atoi(kind[1])
		bf = batch.NewGenericBatchFactory(n)
	}
	bsh := shutdown.ShutdownHandler{TerminateCtx: p.pc, CancelFunc: cancel}
	if obs == nil {
		p.b = batcher.NewBatcher(bsh, ma.OutputChan, p.seen, p.written, p.statsCh, 3600*1000, bf, p.workers, 2, 3600*1000, 64, mem, routing)
	} else {
		// syscorr: the batcher's input, self-report, statistics and dispatch channels are tapped (see syscorr.go)
		p.b = batcher.NewBatcher(bsh, obs.tapInput(p, ma.OutputChan), p.seen, obs.bw, obs.bstats, 3600*1000, bf, p.workers, 2, 3600*1000, 64, mem, routing)
		obs.tapOutputs(p)
	}
	tr := progress.New(p.sh, p.seen, p.written, p.statsCh)
	p.tracker = &tr
	lg := logrus.New()
	lg.SetOutput(io.Discard)
	for i, ch := range p.queues() {
		var t transport.Transporter
		rp := backoff.WithMaxRetries(&backoff.ZeroBackOff{}, uint64(retries))
		switch kind[0] {
		case "kinesis":
			t = kinesistr.NewTransporterWithInterface(p.sh, ch, p.written, p.statsCh, *logrus.NewEntry(lg), i, "stream", &fakeKin{p: p, w: i}, rp)
		case "s3":
			t = s3tr.NewTransporterWithInterface(p.sh, ch, p.written, p.statsCh, *logrus.NewEntry(lg), i, "bucket", "ks", &fakeS3{p: p, w: i}, rp, 2)
		default: // stdout: accepts everything at once (prints to the silenced stdout); records observed via gate-free path
			t = stdouttr.NewTransporter(p.sh, ch, p.written, p.statsCh, *logrus.NewEntry(lg), i)
		}
		go t.StartTransporting()
	}
	go ma.Start()
	go pa.Start()
	go f.Start()
	p.bexit = make(chan struct{})
	go func() {
		defer close(p.bexit)
		p.b.StartBatching()
	}()
	if p.mode == "real" {
		go p.tracker.Start(2 * time.Millisecond)
	}
	// the batcher's context is the parking context: relay the process-wide cancellation to it
	go func() {
		<-p.sh.TerminateCtx.Done()
		p.mu.Lock()
		if !p.pcClosed {
			p.pcClosed = true
			close(p.pc.done)
		}
		p.mu.Unlock()
	}()
	select {
	case <-p.pc.parked:
		p.parked = true
	case <-time.After(5 * time.Second):
		return nil, fmt.Errorf("batcher did not reach its loop")
	}
	return p, nil
}

// ---- ledger stepping (stepped mode) ----

func (p *pipe) applyWritten(om *ordered_map.OrderedMap) {
	parts := []string{}
	it := om.IterFunc()
	for kv, ok := it(); ok; kv, ok = it() {
		w := kv.Value.(*progress.Written)
		parts = append(parts, fmt.Sprintf("%s:%s:%d", unname(w.Transaction), unname(w.TimeBasedKey), w.Count))
	}
	if len(parts) > 0 {
		p.ledgerTrace = append(p.ledgerTrace, "ledgermon written "+strings.Join(parts, ","))
	}
	if p.obs != nil {
		p.obs.tracked(om)
	}
	if err := p.tracker.VerifUpdateWritten(om); err != nil {
		p.failStop = true
	}
}

func (p *pipe) drainWritten(k int) {
	for i := 0; i < k; i++ {
		select {
		case om, ok := <-p.written:
			if !ok {
				return
			}
			p.applyWritten(om)
		default:
			return
		}
	}
}

// predrain: a sequential tracker may have consumed any prefix of the written reports that are
// queued NOW. It is called before the harness offers to receive a seen list, so everything it
// consumes was enqueued before that hand-over; once a seen list is received it is applied at once
// (the batcher runs on concurrently and may already have queued later reports, which a real
// tracker could not have read before that seen list).
func (p *pipe) predrain() {
	if p.mode == "stepped" {
		p.drainWritten(p.rng.Intn(len(p.written) + 1))
	}
}

func (p *pipe) applySeen(s []*progress.Seen) {
	for _, e := range s {
		p.ledgerTrace = append(p.ledgerTrace, fmt.Sprintf("ledgermon seen %s %s %d %d 1", unname(e.Transaction), unname(e.TimeBasedKey), e.TotalMsgs, e.CommitWalStart))
	}
	if err := p.tracker.VerifUpdateSeen(s); err != nil {
		p.failStop = true // the real tracker panics here and the process stops
	}
}

func (p *pipe) emit() {
	p.tracker.VerifEmit()
	select {
	case v := <-p.tracker.OutputChan:
		p.ledgerTrace = append(p.ledgerTrace, fmt.Sprintf("ledgermon emit %d", v))
		p.ev(fmt.Sprintf("pipemon ack %d", v))
		if p.obs != nil {
			p.obs.emitted(fmt.Sprintf("some %d", v))
		}
	default:
		p.ledgerTrace = append(p.ledgerTrace, "ledgermon emit none")
		if p.obs != nil {
			p.obs.emitted("none")
		}
	}
}

func (p *pipe) readAcks() {
	for {
		select {
		case v, ok := <-p.tracker.OutputChan:
			if !ok {
				return
			}
			p.ev(fmt.Sprintf("pipemon ack %d", v))
		default:
			return
		}
	}
}

// waitBatcher: after the harness did something that makes the batcher run, serve its
// rendezvous (seen list) until it parks again, exits, or (for a filtered message) the
// filter reports that nothing will arrive.
func (p *pipe) waitBatcher(expectFilter bool) string {
	timeout := time.After(10 * time.Second)
	for {
		p.predrain()
		var seenCh chan []*progress.Seen
		if p.mode == "stepped" {
			seenCh = p.seen
		}
		var fdec chan string
		if expectFilter {
			fdec = p.fdec
		}
		select {
		case s := <-seenCh:
			p.applySeen(s)
		case d := <-fdec:
			if d == "filtered" || d == "failure" {
				return "dropped"
			}
			// passed: keep waiting for the batcher to take it
			expectFilter = false
		case <-p.pc.parked:
			p.parked = true
			p.inSelect = false
			return "parked"
		case <-p.bexit:
			p.bdead = true
			return "exited"
		case <-p.sh.TerminateCtx.Done():
			// the process is stopping: upstream stages drop what they hold; nothing more to wait for
			select {
			case <-p.bexit:
				p.bdead = true
			case <-p.pc.parked:
				p.parked = true
				p.inSelect = false
			case <-time.After(100 * time.Millisecond):
			}
			return "terminating"
		case <-timeout:
			return "timeout"
		}
	}
}

func (p *pipe) resumeBatcher() {
	if p.parked {
		p.pc.resume <- struct{}{}
		p.parked = false
		p.inSelect = true
	}
}

func (p *pipe) tick() string {
	if p.bdead {
		return "dead"
	}
	done := make(chan bool, 1)
	panicked := make(chan bool, 1)
	go func() {
		// in the real process the tick handler runs inside StartBatching, whose deferred shutdown()
		// cancels the shared context and recovers: mirror that for a panic here
		defer func() {
			if r := recover(); r != nil {
				p.sh.CancelFunc()
				panicked <- true
			}
		}()
		done <- p.b.VerifHandleTicker()
	}()
	timeout := time.After(10 * time.Second)
	for {
		p.predrain()
		var seenCh chan []*progress.Seen
		if p.mode == "stepped" {
			seenCh = p.seen
		}
		select {
		case s := <-seenCh:
			p.applySeen(s)
		case <-panicked:
			p.bdead = true
			p.tickPanicked = true
			return "tick-panic"
		case ok := <-done:
			if !ok {
				return "tick-false"
			}
			return "ok"
		case <-timeout:
			return "timeout"
		}
	}
}

// waitPending: the sink call of worker w that waits at its gate (nil: the worker holds nothing)
func (p *pipe) waitPending(w int) *sinkCall {
	var c *sinkCall
	for i := 0; i < 500; i++ {
		p.mu.Lock()
		c = p.pending[w]
		p.mu.Unlock()
		if c != nil {
			break
		}
		if i > 20 && len(p.queues()[w]) == 0 {
			break
		}
		time.Sleep(200 * time.Microsecond)
	}
	return c
}

func (p *pipe) gate(w int, decision string) string {
	c := p.waitPending(w)
	if c == nil {
		return "nopending"
	}
	if !c.give(decision) {
		return "nopending" // a call that was already decided: the worker is past it
	}
	p.quiesce()
	return decision
}

func (p *pipe) stop() {
	defer func() {
		// let the stats drain goroutine end once the stages are gone
		go func() { time.Sleep(200 * time.Millisecond); defer func() { recover() }(); close(p.statsCh) }()
	}()
	p.sh.CancelFunc()
	if p.obs != nil {
		p.obs.drainTaps(p)
	}
	// release every parked party
	for w := range p.pending {
		p.mu.Lock()
		c := p.pending[w]
		p.mu.Unlock()
		if c != nil {
			c.give("fail")
		}
	}
	if !p.bdead {
		p.mu.Lock()
		if !p.pcClosed {
			p.pcClosed = true
			close(p.pc.done)
		}
		p.mu.Unlock()
		if p.parked {
			p.pc.resume <- struct{}{}
		} else {
			// blocked in select on input: the closed done channel is only seen at the next
			// loop top; closing the input makes the stage return
		}
		deadline := time.After(2 * time.Second)
	loop:
		for {
			select {
			case <-p.bexit:
				break loop
			case <-p.pc.parked:
				p.pc.resume <- struct{}{}
			case <-p.seen:
			case <-deadline:
				break loop
			}
		}
	}
	// unblock late sink calls
	for i := 0; i < 50; i++ {
		p.mu.Lock()
		any := false
		for w, c := range p.pending {
			if c != nil {
				any = true
				c.give("fail")
				p.pending[w] = nil
			}
		}
		p.mu.Unlock()
		if !any {
			break
		}
		time.Sleep(time.Millisecond)
	}
}

func (p *pipe) passes(rel string) bool {
	if !p.whitelist && len(p.filterList) == 0 {
		return true
	}
	found := false
	for _, x := range p.filterList {
		if x == rel {
			found = true
		}
	}
	if p.whitelist {
		return found
	}
	return !found
}

func (p *pipe) pkeyId(k string) int {
	if id, ok := p.pkeyIds[k]; ok {
		return id
	}
	p.pkeyIds[k] = len(p.pkeyIds) + 1
	return p.pkeyIds[k]
}

func (p *pipe) pkeyOf(rel, txn string) string {
	switch p.pmethod {
	case "tablename":
		return rel
	case "transaction":
		return txn
	case "transaction-bucket":
		return strconv.Itoa(quickHashGo(txn, p.buckets))
	}
	return ""
}

// feedPrep builds the WAL message of a `pipeline in <op> <relhex> <txn> <key> <lsn> <id> <size>` op and logs
// what the monitors need to know about it
func (p *pipe) feedPrep(w []string) *replication.WalMessage {
	rel := unhexs(w[3])
	txn, _ := strconv.Atoi(w[4])
	key, _ := strconv.Atoi(w[5])
	lsn, _ := strconv.ParseUint(w[6], 10, 64)
	id, _ := strconv.Atoi(w[7])
	size, _ := strconv.Atoi(w[8])
	op := w[2]
	pr := &parselogical.ParseResult{Operation: op, Relation: rel, Transaction: strconv.Itoa(txn),
		Columns: map[string]parselogical.ColumnValue{}, OldColumns: map[string]parselogical.ColumnValue{}}
	kindN := 0
	passes := true
	if op == "COMMIT" {
		kindN = 1
	} else if op != "BEGIN" {
		kindN = 2
		pr.Operation = "INSERT"
		// the record is identified by a column value; pad to the requested size
		pad := size - 160
		if pad < 0 {
			pad = 0
		}
		pr.Columns["id"] = parselogical.ColumnValue{Value: strconv.Itoa(id), Type: "integer"}
		pr.Columns["pad"] = parselogical.ColumnValue{Value: strings.Repeat("x", pad), Type: "text", Quoted: true}
		passes = p.passes(rel)
	}
	m := &replication.WalMessage{WalStart: lsn, Pr: pr, TimeBasedKey: kname(key)}
	pr.Transaction = tname(txn)
	p.ev(fmt.Sprintf("pipemon fed %d %d %d %d %s %d", kindN, id, key, lsn, map[bool]string{true: "1", false: "0"}[passes], p.pkeyId(p.pkeyOf(rel, tname(txn)))))
	if kindN == 2 && passes {
		p.expectSunk++ // accepted by the sink or dropped-and-counted
	}
	if kindN == 2 && passes && strings.HasPrefix(p.kind, "kinesis") && size > 1<<20 {
		// the property's exception: dropped (and counted) as larger than the record limit
		p.ev(fmt.Sprintf("pipemon dropped %d", id))
		p.expectTooBig++
	}
	return m
}

// settleDone: the environment has nothing left to do (see `settle`)
func (p *pipe) settleDone() bool {
	p.mu.Lock()
	defer p.mu.Unlock()
	sunk := 0
	lastAck, maxCommit := uint64(0), uint64(0)
	for _, e := range p.evs {
		f := strings.Fields(e)
		switch f[1] {
		case "sunk", "dropped":
			sunk++
		case "ack":
			v, _ := strconv.ParseUint(f[2], 10, 64)
			if v > lastAck {
				lastAck = v
			}
		case "fed":
			if f[2] == "1" {
				v, _ := strconv.ParseUint(f[5], 10, 64)
				if v > maxCommit {
					maxCommit = v
				}
			}
		}
	}
	for _, c := range p.pending {
		if c != nil {
			return false
		}
	}
	return sunk >= p.expectSunk && lastAck >= maxCommit
}

func pipelineRun(c Case) ([]string, []string) {
	lines, outs := []string{}, []string{}
	var p *pipe
	defer func() {
		if p != nil {
			p.stop()
		}
	}()
	seed := hashName(strings.Join(c.Lines, "\n"))
	tPrev := time.Now()
	prevLine := ""
	for _, l := range c.Lines {
		if d := time.Since(tPrev); d > 2*time.Second && os.Getenv("VERIF_DEBUG") != "" {
			fmt.Fprintf(os.Stderr, "slow op (%v): %s -> %v\n", d, prevLine, outs[len(outs)-1:])
		}
		tPrev = time.Now()
		prevLine = l
		w := strings.Fields(l)
		lines = append(lines, l)
		if len(w) < 2 || w[0] != "pipeline" {
			outs = append(outs, "bad-op")
			continue
		}
		if w[1] == "cfg" {
			if p != nil || len(w) != 12 {
				outs = append(outs, "bad-op")
				continue
			}
			var err error
			p, err = newPipe(w, NewRng(seed))
			if err != nil {
				outs = append(outs, "harness-error "+err.Error())
				return lines, outs
			}
			outs = append(outs, "ok")
			continue
		}
		if p == nil {
			outs = append(outs, "bad-op")
			continue
		}
		switch w[1] {
		case "in":
			// pipeline in <op> <relhex> <txn> <key> <lsn> <id> <size>
			if p.bdead {
				outs = append(outs, "dead")
				continue
			}
			if p.inClosed {
				outs = append(outs, "input-closed")
				continue
			}
			if p.sh.TerminateCtx.Err() != nil {
				outs = append(outs, "terminating")
				continue
			}
			m := p.feedPrep(w)
			// drain stale filter decisions
			for len(p.fdec) > 0 {
				<-p.fdec
			}
			p.resumeBatcher()
			sent := false
			select {
			case p.in <- m:
				sent = true
			case <-p.sh.TerminateCtx.Done():
			case <-time.After(5 * time.Second):
				outs = append(outs, "input-blocked")
				return lines, outs
			}
			if !sent {
				outs = append(outs, "terminating")
				continue
			}
			r := p.waitBatcher(true)
			p.quiesce()
			if p.mode == "real" {
				p.readAcks()
			}
			outs = append(outs, r)
			if r == "timeout" {
				return lines, outs
			}
		case "tick":
			if len(w) > 2 {
				ms, _ := strconv.Atoi(w[2])
				time.Sleep(time.Duration(ms) * time.Millisecond)
			}
			if !p.parked && !p.inSelect {
				outs = append(outs, "dead")
				continue
			}
			r := p.tick()
			p.quiesce()
			if p.mode == "real" {
				p.readAcks()
			}
			outs = append(outs, r)
		case "gate":
			wk, _ := strconv.Atoi(w[2])
			if wk >= p.workers {
				outs = append(outs, "noworker")
				continue
			}
			outs = append(outs, p.gate(wk, w[3]))
			if p.mode == "real" {
				time.Sleep(3 * time.Millisecond)
				p.readAcks()
			}
		case "ledger":
			if p.mode != "stepped" {
				outs = append(outs, "skip")
				continue
			}
			if w[2] == "emit" {
				p.drainWritten(p.rng.Intn(len(p.written) + 1))
				p.emit()
			} else {
				k, _ := strconv.Atoi(w[3])
				p.drainWritten(k)
			}
			outs = append(outs, "ok")
		case "fault":
			// pipeline fault sinkdead|sinkpanic <w> | closeinput : an unrecoverable condition from now on
			p.mu.Lock()
			p.faultAt = len(p.evs)
			p.faultKind = w[2]
			p.mu.Unlock()
			switch w[2] {
			case "sinkdead", "sinkpanic":
				wk, _ := strconv.Atoi(w[3])
				if wk >= p.workers {
					wk = 0
				}
				d := "fail"
				if w[2] == "sinkpanic" {
					d = "panic"
				}
				p.mu.Lock()
				p.sinkDead[wk] = d
				c := p.pending[wk]
				p.mu.Unlock()
				if c != nil {
					p.mu.Lock()
					p.deadCalls++
					p.mu.Unlock()
					c.give(d)
				}
			case "closeinput":
				if !p.inClosed {
					p.inClosed = true
					close(p.in)
				}
			}
			p.quiesce()
			outs = append(outs, "ok")
		case "faultcheck":
			// the shared termination signal must have been raised if the fault could manifest
			cancelled := false
			select {
			case <-p.sh.TerminateCtx.Done():
				cancelled = true
			case <-time.After(600 * time.Millisecond):
			}
			// let the batcher observe it
			if cancelled && !p.bdead {
				if p.parked {
					p.pc.resume <- struct{}{}
					p.parked = false
				}
				select {
				case <-p.bexit:
					p.bdead = true
				case <-time.After(2 * time.Second):
				}
			}
			p.cancelledAfterFault = cancelled
			outs = append(outs, fmt.Sprintf("cancelled=%v batcherdead=%v", cancelled, p.bdead))
		case "settle":
			// everything the environment owes: sinks accept, time passes, ticks and emits happen
			// The loop ends when the environment has nothing left to do: every filtered-in record is
			// accounted for at the sink, the ledger has emitted the last COMMIT and is empty. Waiting
			// longer can never create an alarm, so the only other exit is a generous round cap (a
			// genuinely stuck pipeline, e.g. finding F1, runs into it).
			done := p.settleDone
			idle := 0
			for round := 0; round < 160; round++ {
				progress := false
				for wk := 0; wk < p.workers; wk++ {
					for i := 0; i < 200; i++ {
						p.mu.Lock()
						c := p.pending[wk]
						p.mu.Unlock()
						if c == nil {
							break
						}
						if c.give("accept") {
							progress = true
						}
						p.quiesce()
					}
				}
				time.Sleep(3 * time.Millisecond)
				if p.bdead || p.failStop {
					break
				}
				if p.parked || p.inSelect {
					p.tick()
				}
				p.quiesce()
				if p.mode == "stepped" {
					p.drainWritten(len(p.written))
					p.emit()
				} else {
					time.Sleep(6 * time.Millisecond)
					p.readAcks()
				}
				if done() && !progress {
					idle++
					if idle >= 2 {
						break
					}
				} else {
					idle = 0
				}
			}
			items, _ := p.tracker.VerifLedgerSnapshot()
			if p.mode == "real" {
				items = nil // not readable without a race while the tracker runs
			}
			p.settled = true
			p.ledgerItems = len(items)
			outs = append(outs, fmt.Sprintf("settled ledger=%d", len(items)))
		default:
			outs = append(outs, "bad-op")
		}
	}
	// stash the history for the monitor in the last output line (monitor re-parses it)
	if p != nil {
		p.mu.Lock()
		hist := strings.Join(p.evs, "|")
		led := strings.Join(p.ledgerTrace, "|")
		tb := p.tooBigStats
		p.mu.Unlock()
		lines = append(lines, "pipeline history")
		outs = append(outs, fmt.Sprintf("H tb=%d/%d failstop=%v settled=%v items=%d mode=%s routing=%s fault=%s faultat=%d cancelled=%v deadcalls=%d retries=%d ## %s ## %s", tb, p.expectTooBig, p.failStop || p.bdead, p.settled, p.ledgerItems, p.mode, p.routing, p.faultKind, p.faultAt, p.cancelledAfterFault, p.deadCalls, p.retries, hist, led))
	}
	return lines, outs
}

var _ = context.Background

func idFromJson(b []byte) int {
	var rec struct {
		Columns map[string]map[string]map[string]string `json:"columns"`
	}
	if err := json.Unmarshal(b, &rec); err != nil {
		return -1
	}
	n, err := strconv.Atoi(rec.Columns["id"]["new"]["v"])
	if err != nil {
		return -1
	}
	return n
}

func pipelineGen(r *Rng, tier string) Case { return pipelineGenOpt(r, tier, true) }

func pipelineGenOpt(r *Rng, tier string, redeliveries bool) Case {
	kind := "kinesis"
	if r.Chance(50) {
		kind = fmt.Sprintf("s3:%d", Pick(r, []int{1, 2, 3, 5, 50}))
	}
	workers := r.Range(1, 4)
	routing := Pick(r, []string{"round-robin", "partition"})
	pmethod := Pick(r, []string{"none", "tablename", "transaction", "transaction-bucket"})
	tables := []string{"public.a", "public.b", "public.c"}
	wl, list := 0, []string{}
	switch r.Intn(3) {
	case 1:
		wl, list = 1, []string{"public.a", "public.b"}
	case 2:
		list = []string{"public.c"}
	}
	mode := "stepped"
	if r.Chance(25) && os.Getenv("VERIF_PIPELINE_REAL") != "" {
		mode = "real" // free-running ProgressTracker goroutine (off by default, see DESIGN)
	}
	mem := Pick(r, []int64{1, 2000, 100 << 20})
	lines := []string{fmt.Sprintf("pipeline cfg %s %d %s %s %d %d %s %d %s 1000", kind, workers, routing, pmethod, r.Range(1, 5), wl, hexList(list), mem, mode)}
	env := func(n int) {
		for i := 0; i < n; i++ {
			switch k := r.Intn(100); {
			case k < 35:
				lines = append(lines, fmt.Sprintf("pipeline gate %d accept", r.Intn(workers)))
			case k < 40:
				lines = append(lines, fmt.Sprintf("pipeline gate %d fail", r.Intn(workers)))
			case k < 50:
				lines = append(lines, "pipeline tick")
			case k < 55:
				lines = append(lines, "pipeline tick 3")
			case k < 70:
				lines = append(lines, "pipeline ledger emit")
			case k < 80:
				lines = append(lines, fmt.Sprintf("pipeline ledger drain %d", r.Range(1, 4)))
			}
		}
	}
	id, key, lsn := 0, 0, 1000
	lastCommit := 0
	ntx := r.Range(1, 8)
	for txn := 1; txn <= ntx; txn++ {
		deliveries := 1
		if mode == "stepped" && redeliveries && r.Chance(10) {
			deliveries = 2
		}
		for d := 0; d < deliveries; d++ {
			key++
			lsn += r.Range(1, 20)
			lines = append(lines, fmt.Sprintf("pipeline in BEGIN e %d %d %d 0 0", txn, key, lsn))
			env(r.Intn(2))
			nd := r.Range(0, 6)
			if r.Chance(6) {
				nd = r.Range(8, 14)
			}
			// PostgreSQL delivers transactions in COMMIT order, but the change LSNs of concurrent
			// transactions interleave: a transaction's changes may lie before the previous one's
			commitFloor := lsn
			if r.Chance(50) && lsn > 1100 {
				lsn -= r.Range(10, 90)
			}
			for i := 0; i < nd; i++ {
				id++
				lsn += r.Range(0, 9)
				size := r.Range(0, 400)
				if kind == "kinesis" && r.Chance(3) {
					size = 1<<20 + 5000
				}
				lines = append(lines, fmt.Sprintf("pipeline in DATA %s %d %d %d %d %d", hexs(Pick(r, tables)), txn, key, lsn, id, size))
				env(r.Intn(3))
				if d < deliveries-1 && r.Chance(25) {
					break
				}
			}
			if d < deliveries-1 {
				// connection lost mid-transaction; the transaction is redelivered under a new key.
				// half of the time everything of the old delivery is settled first (NoStale holds)
				if r.Chance(50) {
					lines = append(lines, "pipeline tick 3")
					for w := 0; w < workers; w++ {
						for j := 0; j < 6; j++ {
							lines = append(lines, fmt.Sprintf("pipeline gate %d accept", w))
						}
					}
					lines = append(lines, "pipeline ledger drain 1000")
				}
				continue
			}
			if lsn < commitFloor {
				lsn = commitFloor
			}
			if lsn < lastCommit {
				lsn = lastCommit // COMMIT positions strictly increase
			}
			lsn += r.Range(1, 20)
			lastCommit = lsn
			lines = append(lines, fmt.Sprintf("pipeline in COMMIT e %d %d %d 0 0", txn, key, lsn))
			env(r.Intn(3))
		}
	}
	lines = append(lines, "pipeline settle")
	return Case{lines}
}

// pipelineValid: the fed messages follow the replication client's output grammar (per delivery
// key: BEGIN, changes, optional COMMIT; keys appear in increasing order, not interleaved) and
// the script ends with settle.
func pipelineValid(lines []string) bool {
	if len(lines) < 2 || !strings.HasPrefix(lines[0], "pipeline cfg") || lines[len(lines)-1] != "pipeline settle" {
		return false
	}
	cur, closed, lastTxn := -1, true, -1
	for _, l := range lines {
		w := strings.Fields(l)
		if len(w) < 9 || w[1] != "in" {
			continue
		}
		key, _ := strconv.Atoi(w[5])
		txn, _ := strconv.Atoi(w[4])
		switch w[2] {
		case "BEGIN":
			if key <= cur || txn < lastTxn {
				return false
			}
			// a delivery without COMMIT may only be followed by the redelivery of the same transaction
			if !closed && txn != lastTxn {
				return false
			}
			cur, closed, lastTxn = key, false, txn
		case "COMMIT":
			if key != cur || closed || txn != lastTxn {
				return false
			}
			closed = true
		default:
			if key != cur || closed || txn != lastTxn {
				return false
			}
		}
	}
	// PostgreSQL delivers its transactions completely: the stream does not end inside one
	return closed
}

func pipelineMonitor(lines, outs []string, m *Model) []Violation {
	if len(outs) == 0 || !strings.HasPrefix(outs[len(outs)-1], "H ") {
		return nil
	}
	parts := strings.SplitN(outs[len(outs)-1], " ## ", 3)
	if len(parts) != 3 {
		return nil
	}
	hdr := map[string]string{}
	for _, f := range strings.Fields(parts[0])[1:] {
		kv := strings.SplitN(f, "=", 2)
		if len(kv) == 2 {
			hdr[kv[0]] = kv[1]
		}
	}
	m.Do("pipemon reset")
	if parts[1] != "" {
		for _, l := range strings.Split(parts[1], "|") {
			if r, _ := m.Do(l); r != "ok" {
				return []Violation{{"C01", "harness: pipemon rejected " + l, ""}}
			}
		}
	}
	v, _ := m.Do("pipemon verdict")
	kv := map[string]string{}
	for _, f := range strings.Fields(v) {
		p := strings.SplitN(f, "=", 2)
		if len(p) == 2 {
			kv[p[0]] = p[1]
		}
	}
	known := ""
	lv := ""
	contractOK := true
	if hdr["mode"] == "stepped" {
		m.Do("ledgermon reset")
		if parts[2] != "" {
			for _, l := range strings.Split(parts[2], "|") {
				m.Do(l)
			}
		}
		lv, _ = m.Do("ledgermon verdict 0 0")
		if strings.Contains(lv, "contract=false") {
			contractOK = false
		} else if strings.Contains(lv, "nostale=false") {
			known = "stale_written_after_supersede"
		}
	}
	var vs []Violation
	info := " (" + v + " | " + parts[0] + " | " + lv + ")"
	if kv["safe"] == "false" {
		vs = append(vs, Violation{"C01", "a position was acknowledged although a filtered-in change of a transaction committed at or before it had not been accepted by the sink" + info, known})
	}
	if !contractOK {
		vs = append(vs, Violation{"C01", "batcher/workers produced a ledger trace outside the contract E1-E3 the ledger theorem assumes" + info, ""})
	}
	failstop := hdr["failstop"] == "true"
	if hdr["settled"] == "true" {
		if failstop {
			vs = append(vs, Violation{"C02", "pg-bifrost stopped (tracker or batcher died) although PostgreSQL delivered completely and the sink accepted everything" + info, known})
		} else {
			if kv["caughtup"] == "false" || (hdr["mode"] == "stepped" && hdr["items"] != "0") {
				vs = append(vs, Violation{"C02", "acknowledgement did not catch up with the last delivered COMMIT / bookkeeping left over" + info, known})
			}
			if kv["once"] == "false" {
				vs = append(vs, Violation{"C04", "records accepted by the sink are not exactly the filtered-in changes (one per change per delivery)" + info, ""})
			}
			if hdr["routing"] == "partition" && (kv["order"] == "false" || kv["oneworker"] == "false") {
				vs = append(vs, Violation{"C05", "records of one partition key were not submitted in delivery order by one worker" + info, ""})
			}
			tb := strings.Split(hdr["tb"], "/")
			if len(tb) == 2 && tb[0] != tb[1] {
				vs = append(vs, Violation{"C15", "number of dropped_too_big statistics differs from the number of over-size records" + info, ""})
			}
		}
	}
	return vs
}

func init() {
	register(&Component{Name: "pipeline", Gen: pipelineGen, Run: pipelineRun, Monitor: pipelineMonitor, Serial: true, Valid: pipelineValid,
		Quick: 300, Thorough: 6000,
		// not a step model: the model side is the monitors; outputs of ops are informational
		Compare: func(line, impl, model string) bool { return true },
		Nontrivial: func(lines, outs []string) bool {
			return len(outs) > 0 && strings.Contains(outs[len(outs)-1], "pipemon ack") && strings.Contains(outs[len(outs)-1], "pipemon sunk")
		}})
}


// ---- pipefault: one unrecoverable fault injected into the assembled pipeline (C17) ----

func pipefaultGen(r *Rng, tier string) Case {
	base := pipelineGenOpt(r, tier, false) // no redeliveries: keeps finding F1 (C01) out of the fail-stop check
	// small retry budget so that a dead sink exhausts it; no redeliveries (keeps C01 noise out)
	cfg := strings.Fields(base.Lines[0])
	cfg[10] = "stepped"
	cfg[11] = strconv.Itoa(r.Intn(3))
	workers, _ := strconv.Atoi(cfg[3])
	lines := []string{strings.Join(cfg, " ")}
	body := []string{}
	for _, l := range base.Lines[1 : len(base.Lines)-1] {
		// with a retry budget this small an ordinary retryable failure is already unrecoverable:
		// keep the injected fault the only one
		if strings.HasPrefix(l, "pipeline gate ") && strings.HasSuffix(l, " fail") {
			l = strings.TrimSuffix(l, "fail") + "accept"
		}
		body = append(body, l)
	}
	cut := 0
	if len(body) > 0 {
		cut = r.Intn(len(body) + 1)
	}
	var fault string
	switch r.Intn(3) {
	case 0:
		fault = fmt.Sprintf("pipeline fault sinkdead %d", r.Intn(workers))
	case 1:
		fault = fmt.Sprintf("pipeline fault sinkpanic %d", r.Intn(workers))
	default:
		fault = "pipeline fault closeinput"
	}
	lines = append(lines, body[:cut]...)
	lines = append(lines, fault)
	// the environment goes on for a while: more input, ticks, gates, emits
	rest := body[cut:]
	if len(rest) > 25 {
		rest = rest[:25]
	}
	lines = append(lines, rest...)
	lines = append(lines, "pipeline tick 3")
	for w := 0; w < workers; w++ {
		lines = append(lines, fmt.Sprintf("pipeline gate %d accept", w))
	}
	lines = append(lines, "pipeline ledger emit", "pipeline faultcheck", "pipeline ledger emit")
	return Case{lines}
}

func pipefaultValid(lines []string) bool {
	n := len(lines)
	if n < 3 || lines[n-2] != "pipeline faultcheck" {
		return false
	}
	faults := 0
	for _, l := range lines {
		if strings.HasPrefix(l, "pipeline fault ") {
			faults++
		}
	}
	if faults != 1 {
		return false
	}
	return pipelineValid(append(append([]string{}, lines...), "pipeline settle"))
}

func pipefaultMonitor(lines, outs []string, m *Model) []Violation {
	if len(outs) == 0 || !strings.HasPrefix(outs[len(outs)-1], "H ") {
		return nil
	}
	parts := strings.SplitN(outs[len(outs)-1], " ## ", 3)
	if len(parts) != 3 {
		return nil
	}
	hdr := map[string]string{}
	for _, f := range strings.Fields(parts[0])[1:] {
		kv := strings.SplitN(f, "=", 2)
		if len(kv) == 2 {
			hdr[kv[0]] = kv[1]
		}
	}
	m.Do("pipemon reset")
	if parts[1] != "" {
		for _, l := range strings.Split(parts[1], "|") {
			m.Do(l)
		}
	}
	v, _ := m.Do("pipemon verdict")
	var vs []Violation
	info := " (" + parts[0] + " | " + v + ")"
	dead, _ := strconv.Atoi(hdr["deadcalls"])
	retries, _ := strconv.Atoi(hdr["retries"])
	expect := false
	switch hdr["fault"] {
	case "closeinput":
		expect = true
	case "sinkpanic":
		expect = dead >= 1
	case "sinkdead":
		expect = dead >= retries+1
	}
	cancelled := hdr["cancelled"] == "true"
	if expect && !cancelled {
		vs = append(vs, Violation{"C17", "an unrecoverable fault (" + hdr["fault"] + ") did not raise the shared termination signal" + info, ""})
	}
	if !expect && cancelled && hdr["fault"] != "" && dead == 0 {
		vs = append(vs, Violation{"C02", "pg-bifrost stopped although the injected fault never manifested" + info, ""})
	}
	if strings.Contains(v, "safe=false") {
		known := ""
		vs = append(vs, Violation{"C17", "a position beyond what the sink had accepted was acknowledged around an unrecoverable fault" + info, known})
	}
	return vs
}

func init() {
	register(&Component{Name: "pipefault", Gen: pipefaultGen, Run: pipelineRun, Monitor: pipefaultMonitor, Serial: true,
		Valid: pipefaultValid, Quick: 160, Thorough: 4000,
		Compare: func(line, impl, model string) bool { return true },
		Nontrivial: func(lines, outs []string) bool {
			return len(outs) > 0 && strings.Contains(outs[len(outs)-1], "cancelled=true")
		}})
}
