package main

// Component `rabbitstop` (C13, C17): shutdown requested WHILE the RabbitMQ worker waits for confirmations - the one
// schedule the `rabbit` component's adversary does not produce (it closes channels and connections, it never cancels
// the terminate context in the middle of a batch). Minimal fakes of its own: a channel that accepts every publish
// and, per scenario, confirms nothing or everything.
//
//   rabbitstop wait <n>     n messages published, nothing confirmed, then the terminate context is cancelled
//   rabbitstop acked <n>    control: every publish is confirmed positively at once
//   -> reported=<0|1> exited=<0|1>   (a report on the progress channel; the worker goroutine ended within 3 s)

import (
	"context"
	"fmt"
	"strconv"
	"strings"
	"sync"
	"time"

	"github.com/NeowayLabs/wabbit"
	"github.com/Nextdoor/pg-bifrost.git/marshaller"
	"github.com/Nextdoor/pg-bifrost.git/shutdown"
	"github.com/Nextdoor/pg-bifrost.git/stats"
	"github.com/Nextdoor/pg-bifrost.git/transport"
	"github.com/Nextdoor/pg-bifrost.git/transport/batch"
	rbtr "github.com/Nextdoor/pg-bifrost.git/transport/transporters/rabbitmq/transporter"
	"github.com/cenkalti/backoff/v4"
	"github.com/cevaris/ordered_map"
	"github.com/sirupsen/logrus"
)

type rsChan struct {
	wabbit.Channel
	mu      sync.Mutex
	confirm bool
	tag     uint64
	pub     chan wabbit.Confirmation
	nPub    int
}

func (c *rsChan) Confirm(bool) error { return nil }
func (c *rsChan) NotifyPublish(ch chan wabbit.Confirmation) chan wabbit.Confirmation {
	c.mu.Lock()
	c.pub = ch
	c.mu.Unlock()
	return ch
}
func (c *rsChan) NotifyClose(ch chan wabbit.Error) chan wabbit.Error { return ch }
func (c *rsChan) Close() error                                       { return nil }
func (c *rsChan) Publish(exc, route string, body []byte, opt wabbit.Option) error {
	c.mu.Lock()
	c.tag++
	c.nPub++
	t, ch, ok := c.tag, c.pub, c.confirm
	c.mu.Unlock()
	if ok && ch != nil {
		select {
		case ch <- rbConf{true, t}:
		case <-time.After(time.Second):
		}
	}
	return nil
}

type rsConn struct {
	wabbit.Conn
	ch *rsChan
}

func (c *rsConn) Channel() (wabbit.Channel, error) { return c.ch, nil }

type rsGetter struct{ c *rsConn }

func (g rsGetter) GetConnection(context.Context) (wabbit.Conn, error) { return g.c, nil }

func rabbitStopOne(kind string, n int) string {
	sh := shutdown.NewShutdownHandler()
	defer sh.CancelFunc()
	in := make(chan transport.Batch)
	txns := make(chan *ordered_map.OrderedMap, 4)
	st := make(chan stats.Stat, 1024)
	lg := logrus.New()
	lg.SetLevel(logrus.PanicLevel)
	ch := &rsChan{confirm: kind == "acked"}
	tr := rbtr.NewTransporter(sh, in, txns, st, *logrus.NewEntry(lg), 0, "ex", rsGetter{&rsConn{ch: ch}}, 100,
		backoff.WithMaxRetries(&backoff.ZeroBackOff{}, 2))
	done := make(chan struct{})
	go func() { defer close(done); tr.StartTransporting() }()
	b := batch.NewGenericBatch("", n)
	for i := 0; i < n; i++ {
		b.Add(&marshaller.MarshalledMessage{Operation: "INSERT", Table: "public.t", Json: []byte(fmt.Sprintf("{\"i\":%d}", i)), TimeBasedKey: "1-1", Transaction: "1", WalStart: uint64(100 + i)})
	}
	b.Close()
	select {
	case in <- b:
	case <-time.After(3 * time.Second):
		return "hang-feeding"
	}
	if kind == "wait" {
		// let the worker publish everything and settle in the wait for confirmations, then ask for shutdown
		for i := 0; i < 200; i++ {
			ch.mu.Lock()
			p := ch.nPub
			ch.mu.Unlock()
			if p >= n {
				break
			}
			time.Sleep(5 * time.Millisecond)
		}
		time.Sleep(50 * time.Millisecond)
		sh.CancelFunc()
	}
	reported := 0
	select {
	case m, ok := <-txns:
		if ok && m != nil {
			reported = 1
		}
	case <-time.After(1200 * time.Millisecond):
	}
	exited := 0
	select {
	case <-done:
		exited = 1
	case <-time.After(3 * time.Second):
	}
	return fmt.Sprintf("reported=%d exited=%d", reported, exited)
}

func rabbitStopRun(c Case) ([]string, []string) {
	outs := []string{}
	for _, l := range c.Lines {
		w := strings.Fields(l)
		n := 0
		if len(w) == 3 {
			n, _ = strconv.Atoi(w[2])
		}
		if len(w) != 3 || (w[1] != "wait" && w[1] != "acked") || n < 1 || n > 50 {
			outs = append(outs, "bad-op")
			continue
		}
		outs = append(outs, rabbitStopOne(w[1], n))
	}
	return c.Lines, outs
}

func rabbitStopGen(r *Rng, tier string) Case {
	return Case{[]string{fmt.Sprintf("rabbitstop %s %d", Pick(r, []string{"wait", "wait", "acked"}), r.Range(1, 6))}}
}

func rabbitStopMonitor(lines, outs []string, m *Model) []Violation {
	for i, l := range lines {
		if i >= len(outs) {
			break
		}
		if strings.Contains(l, " wait ") && strings.HasPrefix(outs[i], "reported=1") {
			return []Violation{{"C13", "shutdown requested while the worker waits for confirmations: the batch is reported written although the broker confirmed none of its messages (" + l + " => " + outs[i] + ")", ""}}
		}
		if strings.Contains(l, " wait ") && strings.HasSuffix(outs[i], "exited=0") {
			return []Violation{{"C17", "shutdown requested while the RabbitMQ worker waits for confirmations: the worker does not stop (" + l + " => " + outs[i] + ")", ""}}
		}
		if strings.Contains(l, " acked ") && strings.HasPrefix(outs[i], "reported=0") {
			return []Violation{{"C13", "every message was positively confirmed but the batch is not reported written (" + l + " => " + outs[i] + ")", ""}}
		}
	}
	return nil
}

func init() {
	register(&Component{Name: "rabbitstop", Gen: rabbitStopGen, Run: rabbitStopRun, Monitor: rabbitStopMonitor, Quick: 10, Thorough: 60})
}
