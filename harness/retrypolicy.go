package main

// Component `retrypolicy` (C17: "a sink that keeps failing past its retry budget" must make the worker give
// up): the real cenkalti/backoff library under a fake clock and a fake timer.
//
//   retrypolicy lib <maxElapsed> <stopSet> <initial> <mult> <maxInterval>
//        a deterministic policy (RandomizationFactor 0) with or without the Stop field; Reset()
//   retrypolicy next <elapsed>
//        the clock reads start+elapsed; NextBackOff() -> r:<ns>  (compared with Model/Backoff.lean)
//   retrypolicy gen <idx> <file>
//        the idx-th ExponentialBackOff literal of the repository's source (zz_gen_policies.go, regenerated
//        VERBATIM from the source by tools/factgen on every run; only the Clock is replaced), driven by the
//        library's own retry loop (backoff.RetryNotifyWithTimer) against an operation that fails every time.
//        The fake timer advances the fake clock by the sleep it is asked for (plus 1 ms per call).
//        -> giveup | never (still retrying after 200000 calls; the clock is then far past any budget)

import (
	"errors"
	"fmt"
	"strconv"
	"strings"
	"time"

	"github.com/cenkalti/backoff/v4"
)

type fakeBoClock struct{ now time.Time }

func (c *fakeBoClock) Now() time.Time { return c.now }

type fakeBoTimer struct {
	clk *fakeBoClock
	ch  chan time.Time
}

func (t *fakeBoTimer) Start(d time.Duration) {
	if d > 0 {
		t.clk.now = t.clk.now.Add(d)
	}
	select {
	case <-t.ch:
	default:
	}
	t.ch <- t.clk.now
}
func (t *fakeBoTimer) Stop()               {}
func (t *fakeBoTimer) C() <-chan time.Time { return t.ch }

const retryCallCap = 200000

// runGenPolicy: does the library's retry loop give up on this policy when the operation never succeeds?
func runGenPolicy(p *backoff.ExponentialBackOff, clk *fakeBoClock) (verdict string, calls int, elapsed time.Duration) {
	start := clk.now
	tm := &fakeBoTimer{clk: clk, ch: make(chan time.Time, 1)}
	stopSearch := errors.New("cap")
	op := func() error {
		calls++
		clk.now = clk.now.Add(time.Millisecond)
		if calls >= retryCallCap {
			return backoff.Permanent(stopSearch)
		}
		return errors.New("sink failure")
	}
	err := backoff.RetryNotifyWithTimer(op, p, nil, tm)
	elapsed = clk.now.Sub(start)
	if errors.Is(err, stopSearch) {
		return "never", calls, elapsed
	}
	return "giveup", calls, elapsed
}

func retrypolicyRun(c Case) ([]string, []string) {
	outs := []string{}
	clk := &fakeBoClock{now: time.Unix(1_700_000_000, 0)}
	var pol *backoff.ExponentialBackOff
	var start time.Time
	for _, l := range c.Lines {
		w := strings.Fields(l)
		if len(w) < 2 || w[0] != "retrypolicy" {
			outs = append(outs, "bad-op")
			continue
		}
		switch w[1] {
		case "lib":
			if len(w) != 7 {
				outs = append(outs, "bad-op")
				continue
			}
			n := make([]int64, 5)
			bad := false
			for i := range n {
				v, err := strconv.ParseInt(w[2+i], 10, 64)
				if err != nil {
					bad = true
				}
				n[i] = v
			}
			if bad {
				outs = append(outs, "bad-op")
				continue
			}
			pol = &backoff.ExponentialBackOff{
				InitialInterval:     time.Duration(n[2]),
				RandomizationFactor: 0,
				Multiplier:          float64(n[3]),
				MaxInterval:         time.Duration(n[4]),
				MaxElapsedTime:      time.Duration(n[0]),
				Clock:               clk,
			}
			if n[1] == 1 {
				pol.Stop = backoff.Stop
			}
			pol.Reset()
			start = clk.now
			outs = append(outs, "ok")
		case "next":
			if len(w) != 3 || pol == nil {
				outs = append(outs, "bad-op")
				continue
			}
			e, err := strconv.ParseInt(w[2], 10, 64)
			if err != nil {
				outs = append(outs, "bad-op")
				continue
			}
			clk.now = start.Add(time.Duration(e))
			outs = append(outs, fmt.Sprintf("r:%d", int64(pol.NextBackOff())))
		case "gen":
			if len(w) != 4 {
				outs = append(outs, "bad-op")
				continue
			}
			i, err := strconv.Atoi(w[2])
			if err != nil || i < 0 || i >= len(genPolicies) || genPolicies[i].File != w[3] {
				outs = append(outs, "bad-index")
				continue
			}
			v, _, _ := runGenPolicy(genPolicies[i].New(clk), clk)
			outs = append(outs, v)
		default:
			outs = append(outs, "bad-op")
		}
	}
	return c.Lines, outs
}

func retrypolicyGen(r *Rng, tier string) Case {
	if r.Chance(35) && len(genPolicies) > 0 {
		i := r.Intn(len(genPolicies))
		return Case{[]string{fmt.Sprintf("retrypolicy gen %d %s", i, genPolicies[i].File)}}
	}
	ini := int64(r.Range(1, 2000)) * int64(time.Millisecond)
	mult := Pick(r, []int64{1, 2, 4})
	maxI := ini * int64(r.Range(1, 40))
	maxE := int64(0)
	if r.Chance(85) {
		maxE = ini * int64(r.Range(1, 60))
	}
	stopSet := 0
	if r.Chance(50) {
		stopSet = 1
	}
	lines := []string{fmt.Sprintf("retrypolicy lib %d %d %d %d %d", maxE, stopSet, ini, mult, maxI)}
	el := int64(0)
	cur := ini
	for k := r.Range(2, 30); k > 0; k-- {
		// the clock advances by about the sleep; sometimes it jumps to the budget's edge
		switch {
		case maxE > 0 && r.Chance(15):
			el = maxE - cur + int64(r.Range(-1, 1))
			if el < 0 {
				el = 0
			}
		case r.Chance(10):
			el += int64(r.Range(0, 5)) * int64(time.Second)
		default:
			el += cur + int64(r.Range(0, 3))*int64(time.Millisecond)
		}
		lines = append(lines, fmt.Sprintf("retrypolicy next %d", el))
		if cur*mult >= maxI {
			cur = maxI
		} else {
			cur *= mult
		}
	}
	return Case{lines}
}

// Property monitor: a policy that has a budget (MaxElapsedTime != 0) must make the retry loop give up.
func retrypolicyMonitor(lines, outs []string, m *Model) []Violation {
	for i, l := range lines {
		w := strings.Fields(l)
		if i >= len(outs) || len(w) != 4 || w[1] != "gen" {
			continue
		}
		idx, err := strconv.Atoi(w[2])
		if err != nil || idx < 0 || idx >= len(genPolicies) {
			continue
		}
		p := genPolicies[idx].New(&fakeBoClock{now: time.Unix(0, 0)})
		if p.MaxElapsedTime != 0 && outs[i] == "never" {
			return []Violation{{"C17", fmt.Sprintf("the retry policy built in %s (%s) has a budget of %s but never gives up: against a sink "+
				"(or server) that keeps failing the library's retry loop was still retrying after %d calls, long past the budget, "+
				"with a sleep of %s between calls - the worker never returns, so the termination signal is never raised",
				genPolicies[idx].File, genPolicies[idx].Func, p.MaxElapsedTime, retryCallCap, p.Stop), ""}}
		}
	}
	return nil
}

func init() {
	register(&Component{Name: "retrypolicy", Gen: retrypolicyGen, Run: retrypolicyRun, Monitor: retrypolicyMonitor,
		Quick: 400, Thorough: 20000,
		Nontrivial: func(lines, outs []string) bool {
			for _, o := range outs {
				if o == "giveup" || o == "never" || o == "r:-1" || o == "r:0" {
					return true
				}
			}
			return false
		}})
}
