package main

// clientstop (C17): the replication client dies - a fatal receive error, an unexpected first message, a panic in
// the read loop - while closing the PostgreSQL connection is slow (`Manager.Close` ends in pgconn's Close, which
// flushes a Terminate message without a deadline; a half-open TCP connection makes it block). Fail-stop: the
// shared termination signal must be raised anyway, i.e. BEFORE the close, or every other stage keeps running
// with the client dead.
//
//   clientstop <fault> <closemode>      fault: recverr | firstbad | panic      closemode: normal | hang
//   -> term=<0|1>                        was TerminateCtx cancelled within 1.5 s of the fault

import (
	"context"
	"errors"
	"strings"
	"time"

	"github.com/Nextdoor/pg-bifrost.git/replication/client"
	"github.com/Nextdoor/pg-bifrost.git/replication/client/conn"
	"github.com/Nextdoor/pg-bifrost.git/shutdown"
	"github.com/Nextdoor/pg-bifrost.git/stats"
	"github.com/jackc/pglogrepl"
	"github.com/jackc/pgx/v5/pgproto3"
)

type csConn struct {
	fault string
	n     int
}

func (c *csConn) IsClosed() bool { return false }
func (c *csConn) SendStandbyStatus(context.Context, pglogrepl.StandbyStatusUpdate) error {
	return nil
}
func (c *csConn) ReceiveMessage(ctx context.Context) (pgproto3.BackendMessage, error) {
	c.n++
	if c.n == 1 {
		if c.fault == "firstbad" {
			return &pgproto3.ParameterStatus{}, nil
		}
		return mkKeepalive(100, false), nil
	}
	switch c.fault {
	case "panic":
		panic("clientstop: injected panic in ReceiveMessage")
	default:
		return nil, errors.New("clientstop: injected fatal receive error")
	}
}
func (c *csConn) StartReplication(context.Context, string, pglogrepl.LSN, pglogrepl.StartReplicationOptions) error {
	return nil
}
func (c *csConn) Close(context.Context) error { return nil }
func (c *csConn) CreateReplicationSlot(context.Context, string, string, pglogrepl.CreateReplicationSlotOptions) (pglogrepl.CreateReplicationSlotResult, error) {
	return pglogrepl.CreateReplicationSlotResult{}, nil
}
func (c *csConn) IdentifySystem(context.Context) (pglogrepl.IdentifySystemResult, error) {
	return pglogrepl.IdentifySystemResult{}, nil
}
func (c *csConn) DropReplicationSlot(context.Context, string, pglogrepl.DropReplicationSlotOptions) error {
	return nil
}

type csManager struct {
	c       *csConn
	hang    bool
	release chan struct{}
	closing chan struct{}
}

func (m *csManager) GetConn(context.Context) (conn.Conn, error) { return m.c, nil }
func (m *csManager) GetConnWithStartLsn(context.Context, uint64) (conn.Conn, error) {
	return m.c, nil
}
func (m *csManager) Close() {
	select {
	case m.closing <- struct{}{}:
	default:
	}
	if m.hang {
		<-m.release
	}
}

func clientStopOne(fault, mode string) string {
	sh := shutdown.NewShutdownHandler()
	statsChan := make(chan stats.Stat, 1024)
	mgr := &csManager{c: &csConn{fault: fault}, hang: mode == "hang", release: make(chan struct{}), closing: make(chan struct{}, 1)}
	rep := client.New(sh, statsChan, mgr, 1, time.Hour)
	stopped := rep.GetStoppedChan()
	out := rep.GetOutputChan()
	go func() {
		for range out {
		}
	}()
	go rep.Start(make(chan uint64))
	res := "term=0"
	select {
	case <-sh.TerminateCtx.Done():
		res = "term=1"
	case <-time.After(1500 * time.Millisecond):
	}
	close(mgr.release)
	select {
	case <-stopped:
	case <-time.After(3 * time.Second):
		res += " stuck"
	}
	sh.CancelFunc()
	return res
}

func clientStopRun(c Case) ([]string, []string) {
	outs := []string{}
	for _, l := range c.Lines {
		w := strings.Fields(l)
		if len(w) != 3 {
			outs = append(outs, "bad-op")
			continue
		}
		ok := false
		for _, f := range []string{"recverr", "firstbad", "panic"} {
			ok = ok || w[1] == f
		}
		if !ok || (w[2] != "normal" && w[2] != "hang") {
			outs = append(outs, "bad-op")
			continue
		}
		outs = append(outs, clientStopOne(w[1], w[2]))
	}
	return c.Lines, outs
}

func clientStopGen(r *Rng, tier string) Case {
	return Case{[]string{"clientstop " + Pick(r, []string{"recverr", "firstbad", "panic"}) + " " + Pick(r, []string{"normal", "hang", "hang"})}}
}

func clientStopMonitor(lines, outs []string, m *Model) []Violation {
	for i, l := range lines {
		if i < len(outs) && strings.HasPrefix(outs[i], "term=0") {
			return []Violation{{"C17", "the replication client died (" + l + ") but the shared termination signal was not raised within 1.5 s: " +
				"every other stage keeps running with the client dead", ""}}
		}
	}
	return nil
}

func init() {
	register(&Component{Name: "clientstop", Gen: clientStopGen, Run: clientStopRun, Monitor: clientStopMonitor, Quick: 12, Thorough: 60})
}
