package main

// Component `client`: the real replication client (replication/client/client.go) driven through
// hand-made fakes of conn.ManagerInterface / conn.Conn. ReceiveMessage is the sync point: it
// blocks until the harness hands over the next scripted message. See Driver/Client.lean for
// the op language.

import (
	"context"
	"encoding/binary"
	"errors"
	"fmt"
	"os"
	"strconv"
	"strings"
	"sync"
	"time"

	"github.com/Nextdoor/pg-bifrost.git/replication"
	"github.com/Nextdoor/pg-bifrost.git/replication/client"
	"github.com/Nextdoor/pg-bifrost.git/replication/client/conn"
	"github.com/Nextdoor/pg-bifrost.git/shutdown"
	"github.com/Nextdoor/pg-bifrost.git/stats"
	"github.com/jackc/pglogrepl"
	"github.com/jackc/pgx/v5/pgproto3"
)

const (
	clientTickP   = 40 * time.Millisecond // progressFreq of tick cases
	clientNoTickP = time.Hour
	clientSlowMs  = 120 // w=2: sleep before answering (heartbeat-rule reset path)
	fwdPoint      = "<FWD>"
)

type recvReply struct {
	msg      pgproto3.BackendMessage
	err      error
	closed   bool // mark the connection closed before returning
	teardown bool
}

type clientRig struct {
	mu       sync.Mutex
	log      []string
	statusT  []time.Time
	atRecv   chan struct{}
	reply    chan recvReply
	sysPos   uint64
	hook     func() // called inside SendStandbyStatus after logging
	connSeq  int
	lastConn *fakeConn
}

func (g *clientRig) add(s string) {
	g.mu.Lock()
	g.log = append(g.log, s)
	g.mu.Unlock()
}

func (g *clientRig) take() []string {
	g.mu.Lock()
	l := g.log
	g.log = nil
	g.mu.Unlock()
	return l
}

type fakeConn struct {
	g      *clientRig
	closed bool
	id     int
}

func (c *fakeConn) IsClosed() bool { c.g.mu.Lock(); defer c.g.mu.Unlock(); return c.closed }
func (c *fakeConn) SendStandbyStatus(ctx context.Context, st pglogrepl.StandbyStatusUpdate) error {
	c.g.mu.Lock()
	c.g.log = append(c.g.log, fmt.Sprintf("status:%d", uint64(st.WALWritePosition)))
	c.g.statusT = append(c.g.statusT, time.Now())
	h := c.g.hook
	c.g.mu.Unlock()
	if h != nil {
		h()
	}
	return nil
}
func (c *fakeConn) ReceiveMessage(ctx context.Context) (pgproto3.BackendMessage, error) {
	c.g.atRecv <- struct{}{}
	r := <-c.g.reply
	if r.teardown {
		return nil, context.Canceled
	}
	if r.closed {
		c.g.mu.Lock()
		c.closed = true
		c.g.mu.Unlock()
	}
	return r.msg, r.err
}
func (c *fakeConn) StartReplication(context.Context, string, pglogrepl.LSN, pglogrepl.StartReplicationOptions) error {
	return nil
}
func (c *fakeConn) Close(context.Context) error {
	c.g.mu.Lock()
	c.closed = true
	c.g.mu.Unlock()
	return nil
}
func (c *fakeConn) CreateReplicationSlot(context.Context, string, string, pglogrepl.CreateReplicationSlotOptions) (pglogrepl.CreateReplicationSlotResult, error) {
	return pglogrepl.CreateReplicationSlotResult{}, nil
}
func (c *fakeConn) IdentifySystem(context.Context) (pglogrepl.IdentifySystemResult, error) {
	c.g.add("identify")
	return pglogrepl.IdentifySystemResult{XLogPos: pglogrepl.LSN(c.g.sysPos)}, nil
}
func (c *fakeConn) DropReplicationSlot(context.Context, string, pglogrepl.DropReplicationSlotOptions) error {
	return nil
}

// fakeManager models conn.Manager: no live connection => new connection (manager.go:63-96).
type fakeManager struct {
	g    *clientRig
	conn *fakeConn
}

func (m *fakeManager) get() bool {
	if m.conn == nil || m.conn.IsClosed() {
		m.g.connSeq++
		m.conn = &fakeConn{g: m.g, id: m.g.connSeq}
		return true
	}
	return false
}
func (m *fakeManager) GetConn(ctx context.Context) (conn.Conn, error) {
	d := m.get()
	m.g.add("getplain:" + b01(d))
	return m.conn, nil
}
func (m *fakeManager) GetConnWithStartLsn(ctx context.Context, lsn uint64) (conn.Conn, error) {
	d := m.get()
	m.g.add(fmt.Sprintf("getconn:%d:%s", lsn, b01(d)))
	return m.conn, nil
}
func (m *fakeManager) Close() {
	m.g.add("close")
	if m.conn != nil {
		m.conn.Close(context.Background())
		m.conn = nil
	}
}

func b01(b bool) string {
	if b {
		return "1"
	}
	return "0"
}

func mkKeepalive(walEnd uint64, reply bool) pgproto3.BackendMessage {
	d := make([]byte, 18)
	d[0] = pglogrepl.PrimaryKeepaliveMessageByteID
	binary.BigEndian.PutUint64(d[1:9], walEnd)
	if reply {
		d[17] = 1
	}
	return &pgproto3.CopyData{Data: d}
}

func mkXLog(walStart uint64, text string) pgproto3.BackendMessage {
	d := make([]byte, 25+len(text))
	d[0] = pglogrepl.XLogDataByteID
	binary.BigEndian.PutUint64(d[1:9], walStart)
	binary.BigEndian.PutUint64(d[9:17], walStart+8)
	copy(d[25:], text)
	return &pgproto3.CopyData{Data: d}
}

func parseFeedGo(s string) ([]uint64, bool) {
	out := []uint64{}
	if s == "-" || s == "_" {
		return out, true
	}
	for _, p := range strings.Split(s, ",") {
		v, err := strconv.ParseUint(p, 10, 63)
		if err != nil {
			return nil, false
		}
		out = append(out, v)
	}
	return out, true
}

func parseBlocksGo(s string) ([][]uint64, bool) {
	out := [][]uint64{}
	if s == "-" {
		return out, true
	}
	for _, p := range strings.Split(s, ";") {
		f, ok := parseFeedGo(p)
		if !ok || p == "-" {
			return nil, false
		}
		out = append(out, f)
	}
	return out, true
}

type beginRec struct {
	line   int // index into lines
	lo, hi int64
	seen   bool
}

func showFwd(m *replication.WalMessage) (string, string) {
	op := "?"
	switch m.Pr.Operation {
	case "BEGIN":
		op = "B"
	case "COMMIT":
		op = "C"
	case "INSERT":
		op = "X"
	}
	t, k := m.Pr.Transaction, m.TimeBasedKey
	if t == "" {
		t = "~"
	}
	if k == "" {
		k = "~"
	}
	if strings.ContainsAny(t+k, " :") {
		t, k = "bad", "bad"
	}
	return fmt.Sprintf("fwd:%s:%s:%s:%d", op, t, k, m.WalStart), m.TimeBasedKey
}

// clientRun interprets the case on the real client.
func clientRun(c Case) (lines []string, outs []string) {
	lines = append([]string{}, c.Lines...)
	if len(lines) == 0 {
		return lines, outs
	}
	w0 := strings.Fields(lines[0])
	if len(w0) != 4 || w0[0] != "client" || w0[1] != "start" {
		for range lines {
			outs = append(outs, "bad-op")
		}
		return lines, outs
	}
	// the model variant follows the code under test (VERIF_CLIENT_VARIANT), not the stored case
	w0[2] = clientVariant
	lines[0] = strings.Join(w0, " ")
	tickMode := w0[3] == "tick"
	P := clientNoTickP
	if tickMode {
		P = clientTickP
	}
	g := &clientRig{atRecv: make(chan struct{}), reply: make(chan recvReply)}
	mgr := &fakeManager{g: g}
	sh := shutdown.NewShutdownHandler()
	statsChan := make(chan stats.Stat, 64)
	statsDone := make(chan struct{})
	go func() {
		for {
			select {
			case <-statsChan:
			case <-statsDone:
				return
			}
		}
	}()
	defer close(statsDone)
	progChan := make(chan uint64, 1024)
	tNew := time.Now()
	rep := client.New(sh, statsChan, mgr, 1, P)
	outCh := rep.GetOutputChan()
	stopped := rep.GetStoppedChan()
	go rep.Start(progChan)

	// wait for the client to reach ReceiveMessage or to stop
	const (
		syncRecv = iota
		syncStopped
		syncHang
	)
	wait := func() int {
		select {
		case <-g.atRecv:
			return syncRecv
		case <-stopped:
			return syncStopped
		case <-time.After(10 * time.Second):
			return syncHang
		}
	}
	alive := true
	teardown := func() {
		if alive {
			sh.CancelFunc()
			select {
			case g.reply <- recvReply{teardown: true}:
			case <-time.After(2 * time.Second):
			}
			select {
			case <-stopped:
			case <-time.After(5 * time.Second):
			}
		}
	}
	defer teardown()

	finishOp := func(sy int, fwd string) string {
		l := g.take()
		res := []string{}
		for _, a := range l {
			if a == fwdPoint {
				if fwd != "" {
					res = append(res, fwd)
					fwd = ""
				}
				continue
			}
			res = append(res, a)
		}
		if fwd != "" { // no fwd point seen: the forward was the first thing that happened
			res = append([]string{fwd}, res...)
		}
		switch sy {
		case syncStopped:
			alive = false
			if n := len(res); n > 0 && res[n-1] == "close" {
				res = append(res[:n-1], "exit:?", "close")
			} else {
				res = append(res, "exit:?")
			}
		case syncHang:
			alive = false
			res = append(res, "hang")
		}
		if len(res) == 0 {
			return "-"
		}
		return strings.Join(res, " ")
	}

	sy := wait()
	outs = append(outs, finishOp(sy, ""))

	// harness-side copies of the framing flags, only to sanitise `blocks` of ops that cannot block
	simSaw, simFirst := false, true
	phaseFirst := true
	var t0 time.Time         // ticker creation (upper bound)
	var quietUntil time.Time // next ticker firing
	lastHb := tNew
	var hbDelta time.Duration
	hbCount := 0
	begins := []*beginRec{}
	var maxHold time.Duration
	ambiguous := 0
	// witness ticker: same period, created right after the client's; tells what the runtime has
	// actually delivered (robust against a loaded machine, unlike wall-clock arithmetic alone)
	var wt *time.Ticker
	defer func() {
		if wt != nil {
			wt.Stop()
		}
	}()
	drainW := func() bool {
		if wt == nil {
			return false
		}
		select {
		case <-wt.C:
			return true
		default:
			return false
		}
	}
	waitW := func(d time.Duration) bool {
		select {
		case <-wt.C:
			return true
		case <-time.After(d):
			return false
		}
	}
	nextFire := func(t time.Time) time.Time {
		j := t.Sub(t0)/P + 1
		return t0.Add(j * P)
	}
	filler := &replication.WalMessage{}
	endLine := func() string {
		var maxGap time.Duration
		g.mu.Lock()
		for j := 1; j < len(g.statusT); j++ {
			if d := g.statusT[j].Sub(g.statusT[j-1]); d > maxGap {
				maxGap = d
			}
		}
		g.mu.Unlock()
		return fmt.Sprintf("client end %d %d %d", maxGap.Microseconds(), maxHold.Microseconds(), ambiguous)
	}
	// truncate drops op i and everything after it (timing made its outcome ambiguous), keeping a final `end`
	truncate := func(i int) ([]string, []string) {
		ambiguous++
		hasEnd := false
		if lw := strings.Fields(lines[len(lines)-1]); len(lw) == 5 && lw[1] == "end" {
			hasEnd = true
		}
		lines = lines[:i]
		if hasEnd {
			lines = append(lines, endLine())
			outs = append(outs, "ok")
		}
		return lines, outs
	}
	i := 1
	for ; i < len(lines); i++ {
		w := strings.Fields(lines[i])
		if len(w) == 5 && w[1] == "end" {
			lines[i] = endLine()
			outs = append(outs, "ok")
			continue
		}
		if len(w) < 6 || w[1] != "recv" {
			outs = append(outs, "bad-op")
			continue
		}
		if !alive {
			outs = append(outs, "dead")
			continue
		}
		feed, ok := parseFeedGo(w[4])
		if !ok {
			outs = append(outs, "bad-op")
			continue
		}
		wflag := w[2]
		kind := w[5]
		var rr recvReply
		var blocks [][]uint64
		isBegin := false
		expectFwd := false
		switch {
		case kind == "ka" && len(w) == 9:
			we, e1 := strconv.ParseUint(w[7], 10, 63)
			if e1 != nil || (w[6] != "0" && w[6] != "1") {
				outs = append(outs, "bad-op")
				continue
			}
			rr.msg = mkKeepalive(we, w[6] == "1")
		case kind == "kabad" && len(w) == 6:
			rr.msg = &pgproto3.CopyData{Data: []byte{pglogrepl.PrimaryKeepaliveMessageByteID, 1, 2, 3}}
		case kind == "nil" && len(w) == 6:
		case kind == "timeout" && len(w) == 6:
			rr.err = context.DeadlineExceeded
		case kind == "closed" && len(w) == 6:
			rr.err, rr.closed = errors.New("conn closed"), true
		case kind == "fatal" && len(w) == 6:
			rr.err = errors.New("some other error")
		case kind == "skip" && len(w) == 6:
			if i%2 == 0 || phaseFirst {
				rr.msg = &pgproto3.CopyData{Data: []byte{'x', 0}}
			} else {
				rr.msg = &pgproto3.ParameterStatus{Name: "a", Value: "b"}
			}
		case kind == "unexpected" && len(w) == 6:
			rr.msg = &pgproto3.ReadyForQuery{TxStatus: 'I'}
		case kind == "copyempty" && len(w) == 6:
			rr.msg = &pgproto3.CopyData{Data: []byte{}}
		case kind == "errresp" && len(w) == 7:
			p, e1 := strconv.ParseUint(w[6], 10, 63)
			if e1 != nil {
				outs = append(outs, "bad-op")
				continue
			}
			g.sysPos = p
			rr.msg = &pgproto3.ErrorResponse{Severity: "ERROR", Message: "scripted"}
			if !phaseFirst {
				simSaw, simFirst = false, true
			}
		case kind == "data" && len(w) == 10:
			lsn, e1 := strconv.ParseUint(w[6], 10, 63)
			bl, ok2 := parseBlocksGo(w[9])
			_, e3 := strconv.ParseUint(w[8], 10, 63)
			pl := w[7]
			if e1 != nil || !ok2 || e3 != nil || pl == "" {
				outs = append(outs, "bad-op")
				continue
			}
			wflag = "0"
			switch {
			case pl[0] == 'B':
				rr.msg = mkXLog(lsn, "BEGIN "+pl[1:])
				isBegin = true
				if !phaseFirst {
					if !simSaw && !simFirst {
						simSaw, simFirst = false, true
					} else {
						simSaw, simFirst = false, false
						expectFwd = true
					}
				}
			case pl[0] == 'C':
				rr.msg = mkXLog(lsn, "COMMIT "+pl[1:])
				if !phaseFirst {
					simSaw = true
					expectFwd = true
				}
			case pl == "X":
				rr.msg = mkXLog(lsn, "table public.t: INSERT: id[integer]:1")
				expectFwd = !phaseFirst
			case pl == "U":
				rr.msg = &pgproto3.CopyData{Data: []byte{pglogrepl.XLogDataByteID, 1, 2, 3}}
			case pl == "P":
				rr.msg = mkXLog(lsn, "garbage that test_decoding never prints")
			default:
				outs = append(outs, "bad-op")
				continue
			}
			if expectFwd && tickMode {
				blocks = bl
			} else {
				w[9] = "-" // cannot block: not forwarded, or no ticker to wake the WriteLoop
			}
		default:
			outs = append(outs, "bad-op")
			continue
		}
		if phaseFirst {
			wflag = "0"
		}
		if wflag != "0" && wflag != "1" && wflag != "2" {
			outs = append(outs, "bad-op")
			continue
		}
		opStart := time.Now()
		// side inputs: progress values, then waiting
		for _, v := range feed {
			progChan <- v
		}
		if wflag == "2" {
			time.Sleep(clientSlowMs * time.Millisecond)
		}
		tick := false
		if tickMode && wflag != "0" {
			// let a ticker firing happen, deliver a quarter period after it
			drainW()
			if !waitW(3 * P) {
				return truncate(i)
			}
			if off := time.Since(t0) % P; off > P/4 {
				// the firing was delivered late (loaded machine): the next one may be too close
				return truncate(i)
			}
			target := nextFire(time.Now().Add(-P / 2)).Add(P / 4)
			if d := time.Until(target); d > 0 && d <= P/4 {
				time.Sleep(d)
			} else {
				time.Sleep(P / 4)
			}
			tick = true
		}
		// blocked output: hold the channel full until the k-th status of the WriteLoop
		k := len(blocks)
		if k > 0 {
			outCh <- filler
			cnt := 0
			g.mu.Lock()
			g.hook = func() {
				cnt++
				if cnt <= k {
					for _, v := range blocks[cnt-1] {
						progChan <- v
					}
				}
				waitW(P / 8) // the witness fires with the client's ticker
				if cnt == k {
					<-outCh // free the slot: the pending send goes through
					g.mu.Lock()
					g.log = append(g.log, fwdPoint)
					g.hook = nil
					g.mu.Unlock()
				}
			}
			g.mu.Unlock()
		}
		var lo int64
		if isBegin {
			lo = time.Now().UnixNano()
		}
		if kind == "ka" && w[6] == "1" && !phaseFirst {
			now := time.Now()
			el := now.Sub(lastHb)
			w[8] = strconv.FormatInt(el.Nanoseconds(), 10)
			hbDelta += el
			hbCount++
			if hbCount > 5 {
				d := hbDelta - 100*time.Millisecond
				if d < 0 {
					d = -d
				}
				if d < 10*time.Millisecond {
					if k > 0 {
						<-outCh
					}
					return truncate(i)
				}
				hbCount, hbDelta = 0, 0
			}
			lastHb = now
		}
		tDeliver := time.Now()
		if h := tDeliver.Sub(opStart); h > maxHold {
			maxHold = h
		}
		g.reply <- rr
		sy = wait()
		tSync := time.Now()
		g.mu.Lock()
		g.hook = nil
		g.mu.Unlock()
		fwd := ""
		select {
		case m, okc := <-outCh:
			if !okc || m == nil {
				// channel closed by shutdown()
			} else if m != filler {
				var key string
				fwd, key = showFwd(m)
				// clock bracket: the key's nanos belong to exactly one BEGIN op
				if idx := strings.LastIndex(key, "-"); idx >= 0 {
					if n, err := strconv.ParseInt(key[idx+1:], 10, 64); err == nil {
						if isBegin && m.Pr.Operation == "BEGIN" {
							if n < lo || n > tSync.UnixNano() {
								fwd += ":badclock"
							}
							w[8] = strconv.FormatInt(n, 10)
						} else {
							for _, b := range begins {
								if !b.seen && n >= b.lo && n <= b.hi {
									b.seen = true
									bw := strings.Fields(lines[b.line])
									bw[8] = strconv.FormatInt(n, 10)
									lines[b.line] = strings.Join(bw, " ")
								}
							}
						}
					}
				}
			} else {
				// the filler was never displaced: the message did not go through the WriteLoop
			}
		default:
		}
		if k > 0 {
			// a filler still in the channel (op did not forward) is removed
			select {
			case m, okc := <-outCh:
				if okc && m != nil && m != filler {
					fwd2, _ := showFwd(m)
					fwd += " extra-" + fwd2
				}
			default:
			}
		}
		if isBegin {
			seen := fwd != ""
			if !seen {
				w[8] = strconv.FormatInt(lo, 10)
			}
			begins = append(begins, &beginRec{line: i, lo: lo, hi: tSync.UnixNano(), seen: seen})
		}
		w[2] = wflag
		w[3] = b01(tick)
		lines[i] = strings.Join(w, " ")
		out := finishOp(sy, fwd)
		// tick bookkeeping / ambiguity
		if tickMode && sy == syncRecv {
			if phaseFirst {
				t0 = tSync
				wt = time.NewTicker(P)
				quietUntil = t0.Add(P)
			} else if tick || k > 0 {
				g.mu.Lock()
				lastSt := tDeliver
				if n := len(g.statusT); n > 0 {
					lastSt = g.statusT[n-1]
				}
				g.mu.Unlock()
				if k > 0 {
					quietUntil = nextFire(lastSt)
					if off := lastSt.Sub(t0) % P; off > P/4 {
						return truncate(i) // last firing of the blocked interval was consumed late
					}
				} else {
					quietUntil = nextFire(tDeliver)
				}
			}
			if drainW() || tSync.After(quietUntil.Add(-P/8)) {
				// a firing may have raced with this op: drop it and everything after it
				return truncate(i)
			}
		}
		outs = append(outs, out)
		phaseFirst = false
	}
	return lines, outs
}

var clientVariant = func() string {
	if v := os.Getenv("VERIF_CLIENT_VARIANT"); v != "" {
		return v
	}
	// the model of the code as it is now: after the F2 fix ("fix: error recovery closes exactly the
	// delivery that is open downstream"); "today" is the pre-fix model, kept for the witness theorems
	return "fixedC"
}()
