package main

// Component `rabbit` (C13): the real RabbitMQTransporter (NewTransporter) against a scripted broker
// (fakes for ConnectionGetter / wabbit.Conn / wabbit.Channel, adapted from the scratch broker fuzz test).
//
// Lines:   rabbit cfg <retry budget>
//          rabbit batch <msgs> <toks>       msgs: <table hex>:<op hex>,…   toks: a|n|e|c|C [h]
//
// Determinism. The adversary's tokens are consumed at the worker goroutine's decision points: every
// Publish call, and the log lines "Waiting for desired confirms count" (P2), "received confirmation" (P3),
// "Could not transport messages" (P5), "err …" (P6) — a logrus hook runs in the logging goroutine, so the
// worker is parked there while the token acts. The closeHandler goroutine of every channel is parked at its
// first log line ("Listening for channel close") and released only when a token says `h` and its channel is
// closed; the hook then waits for its last log line ("Existing transport closeHandler"). So the interleaving
// of closeHandler and worker is exactly the model's, and outputs are compared for equality (no outcome sets).
// Confirmations are handed to the worker one at a time (buffer of 1, refilled at P2/P3), so the harness knows
// which confirmations the worker consumed; a close drops the ones not yet consumed.
// Watchdog: no activity of the worker for 2 s while nothing is left to deliver => outcome `hang`.

import (
	"context"
	"errors"
	"fmt"
	"reflect"
	"strconv"
	"strings"
	"sync"
	"time"

	"github.com/NeowayLabs/wabbit"
	"github.com/Nextdoor/pg-bifrost.git/marshaller"
	"github.com/Nextdoor/pg-bifrost.git/shutdown"
	"github.com/Nextdoor/pg-bifrost.git/stats"
	"github.com/Nextdoor/pg-bifrost.git/transport"
	"github.com/Nextdoor/pg-bifrost.git/transport/batch"
	rbtr "github.com/Nextdoor/pg-bifrost.git/transport/transporters/rabbitmq/transporter"
	"github.com/cenkalti/backoff/v4"
	"github.com/cevaris/ordered_map"
	"github.com/sirupsen/logrus"
	"github.com/streadway/amqp"
)

const rbWatchdog = 2 * time.Second

type rbConf struct {
	ack bool
	tag uint64
}

func (c rbConf) Ack() bool           { return c.ack }
func (c rbConf) DeliveryTag() uint64 { return c.tag }

type rbErr struct{}

func (rbErr) Code() int      { return 320 }
func (rbErr) Reason() string { return "closed by script" }
func (rbErr) Server() bool   { return true }
func (rbErr) Recover() bool  { return false }
func (rbErr) Error() string  { return "closed by script" }

type rbHandler struct {
	release  chan struct{}
	done     chan struct{}
	released bool
}

type rbChan struct {
	wabbit.Channel
	env     *rbEnv
	id      int
	tag     uint64
	queue   []rbConf
	inBuf   *rbConf
	confCh  chan wabbit.Confirmation
	closeCh chan wabbit.Error
	closed  bool
	handler *rbHandler
	// the client called Close() (resetChannel of the repaired code): the fields no longer refer to this
	// channel, so its closeHandler is expected to return without touching anything (and without its last log line)
	clientClosed bool
}

type rbEnv struct {
	mu         sync.Mutex
	toks       []string
	evs        []string
	chans      []*rbChan
	connBroken bool
	msgIdx     map[string]int
	last       time.Time
	arrived    chan *rbHandler
	byGoid     sync.Map // closeHandler goroutine id -> *rbHandler
	note       string   // harness-level anomaly
	exhausted  bool
	panicked   bool
	// lazy: confirmations that are queued behind a NEGATIVE one are handed over only when the worker next
	// waits (P2), not right after the nack - they are "still in flight". The code as it is never looks at
	// whether its confirmation channel is empty (it only receives from it), so this timing is not observable
	// by it and the model needs no such notion; a worker that does look (e.g. to decide whether a channel
	// can be kept after a failed attempt) behaves differently, which is the point.
	lazy bool
}

func (e *rbEnv) touch() { e.last = time.Now() }

func (e *rbEnv) pop() (byte, bool) {
	if len(e.toks) == 0 {
		return 'a', true // exhausted script: ack, and the closeHandler runs as soon as it can
	}
	t := e.toks[0]
	e.toks = e.toks[1:]
	return t[0], strings.HasSuffix(t, "h") && len(t) > 1
}

func (e *rbEnv) cur() *rbChan {
	if len(e.chans) == 0 {
		return nil
	}
	return e.chans[len(e.chans)-1]
}

// closeLocked: the broker (or Channel.Close) closes the channel; unconsumed confirmations are dropped.
func (c *rbChan) closeLocked(conn bool) {
	if c.closed {
		return
	}
	c.closed = true
	c.queue = nil
	c.inBuf = nil
	select {
	case <-c.confCh:
	default:
	}
	if c.closeCh != nil {
		close(c.closeCh)
	}
	if conn {
		c.env.connBroken = true
	}
	c.env.evs = append(c.env.evs, fmt.Sprintf("x%d", c.id))
}

func (c *rbChan) refillLocked() {
	if c.closed || c.inBuf != nil || len(c.queue) == 0 {
		return
	}
	x := c.queue[0]
	c.queue = c.queue[1:]
	c.inBuf = &x
	c.confCh <- x
}

// runHandlers releases the parked closeHandler of every closed channel and waits until it has finished.
// Called WITHOUT env.mu held (the handler's last log line goes through the hook as well).
func (e *rbEnv) runHandlers() {
	e.mu.Lock()
	var todo []*rbChan
	for _, c := range e.chans {
		if c.closed && c.handler != nil && !c.handler.released {
			c.handler.released = true
			todo = append(todo, c)
		}
	}
	latest := e.cur()
	e.mu.Unlock()
	for _, c := range todo {
		close(c.handler.release)
		e.mu.Lock()
		silent := c.clientClosed
		e.mu.Unlock()
		if silent {
			select {
			case <-c.handler.done:
				e.mu.Lock()
				e.note = "closeHandler-acted-on-replaced-channel"
				e.mu.Unlock()
			case <-time.After(30 * time.Millisecond):
			}
		} else {
			select {
			case <-c.handler.done:
			case <-time.After(rbWatchdog):
				e.mu.Lock()
				e.note = "closeHandler-stuck"
				e.mu.Unlock()
			}
		}
		if c == latest {
			e.mu.Lock()
			e.evs = append(e.evs, fmt.Sprintf("h%d", c.id))
			e.mu.Unlock()
		}
	}
}

// hookTok applies a token at P2/P3/P5/P6.
func (e *rbEnv) hookTok() {
	e.mu.Lock()
	p, h := e.pop()
	if c := e.cur(); c != nil && (p == 'c' || p == 'C') {
		c.closeLocked(p == 'C')
	}
	e.mu.Unlock()
	if h {
		e.runHandlers()
	}
}

// ---- logrus hook: the scheduler ----

type rbHook struct{ env *rbEnv }

func (h rbHook) Levels() []logrus.Level { return logrus.AllLevels }
func (h rbHook) Fire(en *logrus.Entry) error {
	e := h.env
	msg := en.Message
	switch {
	case msg == "Listening for channel close":
		hd := &rbHandler{release: make(chan struct{}), done: make(chan struct{})}
		e.byGoid.Store(goid(), hd)
		e.arrived <- hd
		<-hd.release
	case msg == "Existing transport closeHandler":
		if v, ok := e.byGoid.Load(goid()); ok {
			close(v.(*rbHandler).done)
		}
	case msg == "Created new channel":
		// worker, inside setupChannel: pair the just spawned closeHandler with the newest channel
		select {
		case hd := <-e.arrived:
			e.mu.Lock()
			if c := e.cur(); c != nil {
				c.handler = hd
			}
			e.touch()
			e.mu.Unlock()
		case <-time.After(rbWatchdog):
			e.mu.Lock()
			e.note = "closeHandler-did-not-start"
			e.mu.Unlock()
		}
	case msg == "Waiting for desired confirms count": // P2
		e.mu.Lock()
		e.touch()
		e.evs = append(e.evs, "w")
		e.mu.Unlock()
		e.hookTok()
		e.mu.Lock()
		if c := e.cur(); c != nil {
			c.refillLocked()
		}
		e.touch()
		e.mu.Unlock()
	case msg == "received confirmation": // P3
		e.mu.Lock()
		e.touch()
		found := false
		nacked := false
		for _, c := range e.chans {
			if c.inBuf != nil && len(c.confCh) == 0 {
				a := 0
				if c.inBuf.ack {
					a = 1
				} else {
					nacked = true
				}
				e.evs = append(e.evs, fmt.Sprintf("k%d.%d.%d", c.id, c.inBuf.tag, a))
				c.inBuf = nil
				found = true
			}
		}
		if !found {
			e.evs = append(e.evs, "k?")
		}
		e.mu.Unlock()
		e.hookTok()
		e.mu.Lock()
		if c := e.cur(); c != nil && !(e.lazy && nacked) {
			c.refillLocked()
		}
		e.touch()
		e.mu.Unlock()
	case msg == "Could not transport messages" || strings.HasPrefix(msg, "err "): // P5 / P6
		e.mu.Lock()
		e.touch()
		e.evs = append(e.evs, "f")
		e.mu.Unlock()
		e.hookTok()
		e.mu.Lock()
		e.touch()
		e.mu.Unlock()
	case msg == "max retries exceeded":
		e.mu.Lock()
		e.exhausted = true
		e.mu.Unlock()
	case strings.HasPrefix(msg, "Recovered in RabbitMQTransporter"):
		e.mu.Lock()
		e.panicked = true
		e.mu.Unlock()
	}
	return nil
}

// ---- wabbit fakes ----

func (c *rbChan) Confirm(bool) error { return nil }
func (c *rbChan) NotifyPublish(chan wabbit.Confirmation) chan wabbit.Confirmation {
	return c.confCh
}
func (c *rbChan) NotifyClose(ch chan wabbit.Error) chan wabbit.Error {
	c.env.mu.Lock()
	defer c.env.mu.Unlock()
	c.closeCh = ch
	return ch
}
func (c *rbChan) Close() error {
	c.env.mu.Lock()
	defer c.env.mu.Unlock()
	c.env.touch()
	c.clientClosed = true
	c.closeLocked(false)
	return nil
}

func (c *rbChan) Publish(exc, route string, body []byte, opt wabbit.Option) error {
	e := c.env
	e.mu.Lock()
	e.touch()
	m, ok := e.msgIdx[string(body)]
	if !ok {
		m = 999
	}
	dm := "?"
	if v, ok := opt["deliveryMode"]; ok {
		dm = fmt.Sprintf("%v", v)
	}
	if v, ok := opt["contentType"]; !ok || v != "application/json" {
		dm += "-ctype"
	}
	if exc != "ex" {
		dm += "-exchange"
	}
	_ = amqp.Persistent
	rec := func(tag uint64, o byte) {
		e.evs = append(e.evs, fmt.Sprintf("p%d.%d.%d.%c.%s.%s", c.id, tag, m, o, hexs(route), dm))
	}
	if c.closed {
		// not reachable with the code as it is or as repaired (both look at closeNotify first)
		rec(0, 'X')
		e.mu.Unlock()
		return errors.New("channel closed")
	}
	p, h := e.pop()
	var err error
	switch p {
	case 'a', 'n':
		c.tag++
		c.queue = append(c.queue, rbConf{p == 'a', c.tag})
		rec(c.tag, p)
	case 'e':
		rec(0, 'e')
		err = errors.New("scripted publish error")
	default: // 'c', 'C': swallowed, the broker closes the channel (connection)
		rec(0, p)
		c.closeLocked(p == 'C')
	}
	closed := c.closed
	e.mu.Unlock()
	if h && closed {
		e.runHandlers()
	}
	return err
}

type rbConn struct {
	wabbit.Conn
	env *rbEnv
}

func (c *rbConn) Channel() (wabbit.Channel, error) {
	e := c.env
	e.mu.Lock()
	defer e.mu.Unlock()
	e.touch()
	if e.connBroken {
		e.connBroken = false // the connection manager redials
		e.evs = append(e.evs, "of")
		return nil, errors.New("connection closed")
	}
	ch := &rbChan{env: e, id: len(e.chans) + 1, confCh: make(chan wabbit.Confirmation, 1)}
	e.chans = append(e.chans, ch)
	e.evs = append(e.evs, fmt.Sprintf("o%d", ch.id))
	return ch, nil
}

type rbGetter struct{ c *rbConn }

func (g rbGetter) GetConnection(ctx context.Context) (wabbit.Conn, error) { return g.c, nil }

// ---- the worker under test ----

type rbWorker struct {
	env   *rbEnv
	sh    shutdown.ShutdownHandler
	in    chan transport.Batch
	txns  chan *ordered_map.OrderedMap
	done  chan struct{}
	stopS chan struct{}
	tr    transport.Transporter
	dead  bool
	nb    int
}

func newRbWorker(budget uint64) *rbWorker {
	env := &rbEnv{arrived: make(chan *rbHandler, 64), msgIdx: map[string]int{}}
	w := &rbWorker{env: env, sh: shutdown.NewShutdownHandler(), in: make(chan transport.Batch),
		txns: make(chan *ordered_map.OrderedMap), done: make(chan struct{}), stopS: make(chan struct{})}
	lg, _ := quietLogger()
	lg.AddHook(rbHook{env})
	st := make(chan stats.Stat, 64)
	go func() {
		for {
			select {
			case <-st:
			case <-w.stopS:
				return
			}
		}
	}()
	w.tr = rbtr.NewTransporter(w.sh, w.in, w.txns, st, *logrus.NewEntry(lg), 0, "ex", rbGetter{&rbConn{env: env}}, 100,
		backoff.WithMaxRetries(&backoff.ZeroBackOff{}, budget))
	go func() {
		defer close(w.done)
		w.tr.StartTransporting()
	}()
	return w
}

func (w *rbWorker) stop() {
	w.sh.CancelFunc()
	// let every parked closeHandler go (they see the cancelled context or their closed channel)
	w.env.mu.Lock()
	var hs []*rbHandler
	for _, c := range w.env.chans {
		if c.handler != nil && !c.handler.released {
			c.handler.released = true
			hs = append(hs, c.handler)
		}
	}
	w.env.mu.Unlock()
	for _, h := range hs {
		close(h.release)
	}
	for {
		select {
		case hd := <-w.env.arrived:
			close(hd.release)
			continue
		default:
		}
		break
	}
	select {
	case <-w.done:
	case <-time.After(5 * time.Second):
	}
	select {
	case <-w.txns:
	default:
	}
	close(w.stopS)
}

func (w *rbWorker) state() string {
	v := reflect.ValueOf(w.tr).Elem()
	f := "set"
	if v.FieldByName("channel").IsNil() {
		f = "nil"
	}
	return fmt.Sprintf("fields=%s confirms=%d", f, v.FieldByName("channelConfirms").Uint())
}

func rbRunWith(prefix string, c Case) ([]string, []string) {
	lines, outs := []string{}, []string{}
	var w *rbWorker
	defer func() {
		if w != nil {
			w.stop()
		}
	}()
	emit := func(l, o string) {
		if strings.HasPrefix(l, "rabbit ") && prefix != "rabbit" {
			l = prefix + l[len("rabbit"):]
		}
		lines, outs = append(lines, l), append(outs, o)
	}
	for _, l := range c.Lines {
		f := strings.Fields(l)
		switch {
		case len(f) == 3 && f[0] == "rabbit" && f[1] == "cfg":
			b, err := strconv.ParseUint(f[2], 10, 64)
			if err != nil {
				emit(l, "bad-op")
				continue
			}
			if w != nil {
				w.stop()
			}
			w = newRbWorker(b)
			// timing the conforming code cannot observe: decided per case from its text
			w.env.lazy = hashName(strings.Join(c.Lines, "|"))%2 == 0
			emit(l, "ok")
		case len(f) == 4 && f[0] == "rabbit" && f[1] == "batch" && w != nil:
			if w.dead {
				emit(l, "dead ev=- "+w.state())
				continue
			}
			env := w.env
			msgs := []string{}
			if f[2] != "-" {
				msgs = strings.Split(f[2], ",")
			}
			b := batch.NewGenericBatch("", len(msgs)+1)
			env.mu.Lock()
			env.evs = nil
			env.toks = nil
			if f[3] != "-" {
				env.toks = strings.Split(f[3], ",")
			}
			env.msgIdx = map[string]int{}
			bad := false
			for i, m := range msgs {
				q := strings.Split(m, ":")
				if len(q) != 2 {
					bad = true
					break
				}
				body := fmt.Sprintf("{\"b\":%d,\"m\":%d}", w.nb, i)
				env.msgIdx[body] = i
				b.Add(&marshaller.MarshalledMessage{Operation: unhexs(q[1]), Table: unhexs(q[0]), Json: []byte(body),
					TimeBasedKey: "1-1", WalStart: uint64(i + 1), Transaction: "1"})
			}
			env.touch()
			env.mu.Unlock()
			if bad || len(msgs) == 0 {
				emit(l, "bad-op")
				continue
			}
			w.nb++
			b.Close()
			outcome := ""
			select {
			case w.in <- b:
			case <-w.done:
				outcome = "dead"
			case <-time.After(5 * time.Second):
				outcome = "hang-send"
			}
			for outcome == "" {
				select {
				case m, ok := <-w.txns:
					if ok && m != nil {
						outcome = "written"
					} else {
						// closed: worker returned
						<-w.done
						env.mu.Lock()
						switch {
						case env.panicked:
							outcome = "panic"
						case env.exhausted:
							outcome = "exhausted"
						default:
							outcome = "terminated"
						}
						env.mu.Unlock()
					}
				case <-time.After(50 * time.Millisecond):
					env.mu.Lock()
					idle := time.Since(env.last)
					env.mu.Unlock()
					if idle > rbWatchdog {
						outcome = "hang"
					}
				}
			}
			if outcome != "written" {
				w.dead = true
			}
			env.mu.Lock()
			evs := joinList(env.evs, ",")
			if env.note != "" {
				outcome += "-" + env.note
			}
			env.mu.Unlock()
			emit(l, fmt.Sprintf("%s ev=%s %s", outcome, evs, w.state()))
		default:
			emit(l, "bad-op")
		}
	}
	return lines, outs
}

func rbRun(c Case) ([]string, []string)      { return rbRunWith("rabbit", c) }
func rbRunFixed(c Case) ([]string, []string) { return rbRunWith("rabbitfixed", c) }

// ---- generator ----

var rbTables = []string{"public.t", "s.x", "t", "public.\"T x\""}
var rbOps = []string{"INSERT", "UPDATE", "DELETE"}

func rbGen(r *Rng, tier string) Case {
	budget := Pick(r, []int{0, 1, 2, 3, 4, 6, 8, 8})
	lines := []string{fmt.Sprintf("rabbit cfg %d", budget)}
	nb := r.Range(1, 6)
	// adversary profile of the case
	profile := r.Intn(10)
	allowH := r.Chance(30)
	for b := 0; b < nb; b++ {
		n := r.Range(1, 5)
		msgs := []string{}
		for i := 0; i < n; i++ {
			msgs = append(msgs, hexs(Pick(r, rbTables))+":"+hexs(Pick(r, rbOps)))
		}
		toks := []string{}
		if profile > 0 && r.Chance(75) {
			for k := r.Range(1, 3*n+6); k > 0; k-- {
				x := r.Intn(100)
				t := "a"
				switch {
				case profile == 1: // acks and nacks only
					if x < 18 {
						t = "n"
					}
				case profile == 2: // closes only
					if x < 8 {
						t = "c"
					} else if x < 11 {
						t = "C"
					}
				case profile == 3: // publish errors only
					if x < 10 {
						t = "e"
					}
				default:
					switch {
					case x < 9:
						t = "n"
					case x < 13:
						t = "e"
					case x < 18:
						t = "c"
					case x < 20:
						t = "C"
					}
				}
				if allowH && r.Chance(40) {
					t += "h"
				}
				toks = append(toks, t)
			}
		}
		lines = append(lines, fmt.Sprintf("rabbit batch %s %s", joinList(msgs, ","), joinList(toks, ",")))
	}
	return Case{lines}
}

// ---- monitor: C13 judged on the implementation's publish/confirm log ----

func rbMonitor(lines, outs []string, m *Model) []Violation {
	var vs []Violation
	prior := []string{}
	for i, l := range lines {
		if i >= len(outs) {
			break
		}
		f := strings.Fields(l)
		if len(f) == 3 && f[1] == "cfg" {
			prior = nil
			continue
		}
		if len(f) != 4 || f[1] != "batch" || outs[i] == "bad-op" {
			continue
		}
		o := strings.Fields(outs[i])
		outcome := o[0]
		if strings.HasPrefix(outcome, "hang") {
			outcome = "hang"
		}
		if outcome == "terminated" || strings.Contains(outcome, "-") {
			vs = append(vs, Violation{"C13", "unexpected worker outcome " + o[0], ""})
			return vs
		}
		ans, err := m.Do(fmt.Sprintf("rabbitspec %s %s %s %s", f[2], joinList(prior, ","), outcome, strings.Join(o[1:], " ")))
		if err == nil && strings.HasPrefix(ans, "violation") {
			a := strings.SplitN(ans, " ", 3)
			known := a[1]
			if known == "-" {
				known = ""
			}
			dup := false
			for _, v := range vs {
				dup = dup || v.Known == known
			}
			if !dup {
				vs = append(vs, Violation{"C13", a[2] + " (line " + strconv.Itoa(i) + ")", known})
			}
		}
		for _, w := range o {
			if strings.HasPrefix(w, "ev=") && w != "ev=-" {
				prior = append(prior, strings.Split(w[3:], ",")...)
			}
		}
	}
	return vs
}

func rbStats(lines, outs []string, d map[string]int) {
	for i, o := range outs {
		if i >= len(lines) || !strings.Contains(lines[i], " batch ") {
			continue
		}
		ev := ""
		for _, w := range strings.Fields(o) {
			if strings.HasPrefix(w, "ev=") {
				ev = w[3:]
			}
		}
		seen := map[string]bool{}
		for _, e := range strings.Split(ev, ",") {
			switch {
			case e == "f":
				seen["attempt_failed"] = true
			case e == "of":
				seen["open_failed"] = true
			case strings.HasPrefix(e, "h"):
				seen["handler_ran"] = true
			case strings.HasPrefix(e, "x"):
				seen["channel_closed"] = true
			case strings.HasPrefix(e, "k") && strings.HasSuffix(e, ".0"):
				seen["nack_consumed"] = true
			case strings.HasPrefix(e, "p") && strings.Contains(e, ".e."):
				seen["publish_error"] = true
			case strings.HasPrefix(e, "p") && (strings.Contains(e, ".c.") || strings.Contains(e, ".C.")):
				seen["close_at_publish"] = true
			}
		}
		for k := range seen {
			d["batch_with_"+k]++
		}
	}
}

func rbNontrivial(lines, outs []string) bool {
	for _, o := range outs {
		if strings.Contains(o, ",f,") {
			return true
		}
	}
	return false
}

func init() {
	register(&Component{Name: "rabbit", Gen: rbGen, Run: rbRun, Monitor: rbMonitor, Stats: rbStats, Nontrivial: rbNontrivial,
		Quick: 800, Thorough: 6000})
}
