package main

import (
	"fmt"
	"strconv"
	"strings"

	"github.com/Nextdoor/pg-bifrost.git/shutdown"
	"github.com/Nextdoor/pg-bifrost.git/stats"
	"github.com/Nextdoor/pg-bifrost.git/transport/progress"
	"github.com/cevaris/ordered_map"
)

// ---- ledger: real ProgressTracker ledger stepped through the verif hooks ----

func tname(n int) string { return "t" + strconv.Itoa(n) }
func kname(n int) string { return "k" + strconv.Itoa(n) }
func unname(s string) string { return s[1:] }

func ledgerRun(c Case) ([]string, []string) {
	outs := []string{}
	var p *progress.ProgressTracker
	dead := false
	newTracker := func() {
		sh := shutdown.NewShutdownHandler()
		seen := make(chan []*progress.Seen)
		written := make(chan *ordered_map.OrderedMap)
		st := make(chan stats.Stat, 10)
		t := progress.New(sh, seen, written, st)
		p = &t
		dead = false
	}
	newTracker()
	for _, l := range c.Lines {
		w := strings.Fields(l)
		if len(w) < 2 || w[0] != "ledger" {
			outs = append(outs, "bad-op")
			continue
		}
		if w[1] == "reset" {
			newTracker()
			outs = append(outs, "ok")
			continue
		}
		if dead {
			outs = append(outs, "dead")
			continue
		}
		switch w[1] {
		case "seen":
			t, _ := strconv.Atoi(w[2])
			k, _ := strconv.Atoi(w[3])
			tot, _ := strconv.Atoi(w[4])
			cm, _ := strconv.ParseUint(w[5], 10, 64)
			err := p.VerifUpdateSeen([]*progress.Seen{{Transaction: tname(t), TimeBasedKey: kname(k), TotalMsgs: tot, CommitWalStart: cm}})
			if err != nil {
				dead = true
				outs = append(outs, "panic")
			} else {
				outs = append(outs, "ok")
			}
		case "written":
			om := ordered_map.NewOrderedMap()
			if w[2] != "-" {
				for _, e := range strings.Split(w[2], ",") {
					f := strings.Split(e, ":")
					t, _ := strconv.Atoi(f[0])
					k, _ := strconv.Atoi(f[1])
					n, _ := strconv.Atoi(f[2])
					// a batch's transaction map is keyed by delivery key; a repeated key would
					// have been merged by UpdateTransactions, so merge here as well
					if v, ok := om.Get(kname(k)); ok {
						v.(*progress.Written).Count += n
					} else {
						om.Set(kname(k), &progress.Written{Transaction: tname(t), TimeBasedKey: kname(k), Count: n})
					}
				}
			}
			if err := p.VerifUpdateWritten(om); err != nil {
				dead = true
				outs = append(outs, "panic")
			} else {
				outs = append(outs, "ok")
			}
		case "emit":
			p.VerifEmit()
			select {
			case v := <-p.OutputChan:
				outs = append(outs, fmt.Sprintf("some %d", v))
			default:
				outs = append(outs, "none")
			}
		case "snap":
			items, cur := p.VerifLedgerSnapshot()
			is := []string{}
			for _, e := range items {
				is = append(is, fmt.Sprintf("%s:%s:%d:%d:%d", unname(e.Transaction), unname(e.TimeBasedKey), e.CommitWalStart, e.Count, e.TotalMsgs))
			}
			cs := [][2]int{}
			for t, k := range cur {
				a, _ := strconv.Atoi(unname(t))
				b, _ := strconv.Atoi(unname(k))
				cs = append(cs, [2]int{a, b})
			}
			sortPairs(cs)
			csS := []string{}
			for _, p := range cs {
				csS = append(csS, fmt.Sprintf("%d:%d", p[0], p[1]))
			}
			outs = append(outs, "items="+joinList(is, ";")+" cur="+joinList(csS, ";"))
		default:
			outs = append(outs, "bad-op")
		}
	}
	return c.Lines, outs
}

func joinList(l []string, sep string) string {
	if len(l) == 0 {
		return "-"
	}
	return strings.Join(l, sep)
}

func sortPairs(p [][2]int) {
	for i := 1; i < len(p); i++ {
		for j := i; j > 0 && (p[j][0] < p[j-1][0] || (p[j][0] == p[j-1][0] && p[j][1] < p[j-1][1])); j-- {
			p[j], p[j-1] = p[j-1], p[j]
		}
	}
}

// delivery of a transaction as the generator sees it
type gDelivery struct {
	t, k, total, commit int
	written            int
	seen, interrupted  bool
	synthetic          bool
	dead               bool // superseded: never mentioned again (NoStale)
}

// ledgerGen: 70% contract-respecting histories (E1-E4 of DESIGN §6/C01), 30% adversarial.
func ledgerGen(r *Rng, tier string) Case {
	lines := []string{"ledger reset"}
	if r.Chance(30) {
		// adversarial: small id spaces, anything goes
		n := r.Range(3, 40)
		for i := 0; i < n; i++ {
			switch r.Intn(10) {
			case 0, 1, 2:
				t := r.Range(1, 4)
				k := t*10 + r.Range(0, 2)
				if r.Chance(10) {
					k = r.Range(10, 42)
				}
				c := r.Range(0, 6) * 100
				lines = append(lines, fmt.Sprintf("ledger seen %d %d %d %d 1", t, k, r.Range(0, 4), c))
			case 3, 4, 5, 6:
				es := []string{}
				used := map[int]bool{}
				for j := r.Range(0, 3); j > 0; j-- {
					t := r.Range(1, 4)
					k := t*10 + r.Range(0, 2)
					if used[k] {
						continue
					}
					used[k] = true
					es = append(es, fmt.Sprintf("%d:%d:%d", t, k, r.Range(0, 3)))
				}
				lines = append(lines, "ledger written "+joinList(es, ","))
			case 7, 8:
				lines = append(lines, "ledger emit")
			default:
				lines = append(lines, "ledger snap")
			}
		}
		lines = append(lines, "ledger snap")
		return Case{lines}
	}
	stale := r.Chance(15) // allow stale completions of superseded deliveries (finding F1 territory)
	ds := []*gDelivery{}
	nextKey := 1
	commit := 0
	ntx := r.Range(1, 12)
	for t := 1; t <= ntx; t++ {
		tries := 1
		if r.Chance(25) {
			tries += r.Range(1, 2)
		}
		for a := 0; a < tries; a++ {
			d := &gDelivery{t: t, k: nextKey}
			nextKey++
			d.total = r.Pick3()
			if a < tries-1 {
				d.interrupted = true
			} else {
				if r.Chance(5) && commit > 0 { // synthetic close repeats the previous commit LSN
					d.commit = commit
					d.synthetic = true
				} else {
					commit += r.Range(1, 50)
					d.commit = commit
				}
			}
			ds = append(ds, d)
		}
	}
	j := 0 // first delivery whose seen (or abandonment) has not happened yet
	steps := 0
	for j < len(ds) || anyOutstanding(ds) {
		steps++
		if steps > 2000 {
			break
		}
		choice := r.Intn(10)
		switch {
		case choice < 5:
			// written for some deliveries <= j
			es := []string{}
			for tries := r.Range(1, 3); tries > 0; tries-- {
				hi := j
				if hi >= len(ds) {
					hi = len(ds) - 1
				}
				d := ds[r.Intn(hi+1)]
				if d.dead && !stale {
					continue
				}
				rem := d.total - d.written
				if d.interrupted {
					rem = r.Range(0, 2)
				}
				if rem <= 0 || containsKey(es, d.k) {
					continue
				}
				n := r.Range(1, rem)
				d.written += n
				es = append(es, fmt.Sprintf("%d:%d:%d", d.t, d.k, n))
			}
			if len(es) > 0 || r.Chance(20) {
				lines = append(lines, "ledger written "+joinList(es, ","))
			}
		case choice < 8 && j < len(ds):
			d := ds[j]
			if d.interrupted {
				// abandoned: the redelivery (next delivery of the same txn) supersedes it
				d.dead = true
			} else {
				real := 1
				if d.synthetic {
					real = 0
				}
				lines = append(lines, fmt.Sprintf("ledger seen %d %d %d %d %d", d.t, d.k, d.total, d.commit, real))
				d.seen = true
			}
			j++
		default:
			lines = append(lines, "ledger emit")
			if r.Chance(30) {
				lines = append(lines, "ledger snap")
			}
		}
	}
	lines = append(lines, "ledger emit", "ledger snap", "ledger emit", "ledger snap")
	return Case{lines}
}

func (r *Rng) Pick3() int {
	switch r.Intn(6) {
	case 0:
		return 0
	case 1:
		return 1
	case 2:
		return r.Range(2, 5)
	default:
		return r.Range(1, 12)
	}
}

func containsKey(es []string, k int) bool {
	for _, e := range es {
		f := strings.Split(e, ":")
		if f[1] == strconv.Itoa(k) {
			return true
		}
	}
	return false
}

func anyOutstanding(ds []*gDelivery) bool {
	for _, d := range ds {
		if !d.interrupted && d.written < d.total {
			return true
		}
	}
	return false
}

// ledgerJudge evaluates Spec.Ledger (Lean) on one history (the implementation's outputs, or the model's).
func ledgerJudge(lines, outs []string, m *Model) (kv map[string]bool, verdict string, panicked bool) {
	m.Do("ledgermon reset")
	nitems := 0
	lastAck := 0
	for i, l := range lines {
		if i >= len(outs) {
			break
		}
		w := strings.Fields(l)
		o := outs[i]
		if o == "dead" || len(w) < 2 {
			continue
		}
		switch w[1] {
		case "seen":
			if o == "panic" {
				panicked = true
			}
			r := "1"
			if len(w) > 6 {
				r = w[6]
			}
			m.Do(fmt.Sprintf("ledgermon seen %s %s %s %s %s", w[2], w[3], w[4], w[5], r))
		case "written":
			if w[2] != "-" {
				m.Do("ledgermon written " + w[2])
			}
		case "emit":
			v := "none"
			if strings.HasPrefix(o, "some ") {
				v = o[5:]
				if x, _ := strconv.Atoi(v); x > lastAck {
					lastAck = x
				}
			}
			m.Do("ledgermon emit " + v)
		case "snap":
			f := strings.Fields(o)
			if len(f) > 0 && strings.HasPrefix(f[0], "items=") {
				if f[0] == "items=-" {
					nitems = 0
				} else {
					nitems = strings.Count(f[0], ";") + 1
				}
			}
		}
	}
	verdict, _ = m.Do(fmt.Sprintf("ledgermon verdict %d %d", nitems, lastAck))
	kv = map[string]bool{}
	for _, f := range strings.Fields(verdict) {
		p := strings.SplitN(f, "=", 2)
		if len(p) == 2 {
			kv[p[0]] = p[1] == "true"
		}
	}
	return
}

// ledgerMonitor judges the implementation's history. A violation on a history that contains a superseded
// delivery (NoStale fails) is attributed to the recorded finding F1 ONLY IF the model of the code as it is
// today, run on the same operations, shows the same violation: the model pins today's behaviour, so a
// different defect that needs the same kind of history (e.g. a changed supersession rule that releases a
// redelivered transaction early) is not hidden behind the known finding.
func ledgerMonitor(lines, outs []string, m *Model) []Violation {
	kv, v, panicked := ledgerJudge(lines, outs, m)
	var vs []Violation
	if !kv["contract"] {
		return nil // outside the ledger's contract: nothing is promised
	}
	unsafe := !kv["safe"]
	undrained := !panicked && kv["drainhyps"] && !kv["drained"] && endsWithEmitSnap(lines)
	knownFor := func(kind string) string { return "" }
	if !kv["nostale"] && (unsafe || panicked || undrained) {
		mouts := make([]string, 0, len(lines))
		for _, l := range lines {
			o, err := m.Do(l)
			if err != nil {
				o = "?"
			}
			mouts = append(mouts, o)
		}
		mkv, _, mpanicked := ledgerJudge(lines, mouts, m)
		munsafe := !mkv["safe"]
		mundrained := !mpanicked && mkv["drainhyps"] && !mkv["drained"] && endsWithEmitSnap(lines)
		knownFor = func(kind string) string {
			if (kind == "unsafe" && munsafe) || (kind == "panic" && mpanicked) || (kind == "undrained" && (mundrained || mpanicked)) {
				return "stale_written_after_supersede"
			}
			return ""
		}
	}
	if unsafe {
		vs = append(vs, Violation{"C01", "ledger emitted a position although a delivery committed at or before it is not completely written (" + v + ")", knownFor("unsafe")})
	}
	if panicked {
		vs = append(vs, Violation{"C02", "tracker panics (duplicate seen) on a contract-respecting trace (" + v + ")", knownFor("panic")})
	} else if undrained {
		vs = append(vs, Violation{"C02", "ledger does not drain although every delivery is complete (" + v + ")", knownFor("undrained")})
	}
	return vs
}

// the drain statement is about the state after a final emit, observed by a final snapshot
func endsWithEmitSnap(lines []string) bool {
	n := len(lines)
	return n >= 2 && lines[n-1] == "ledger snap" && lines[n-2] == "ledger emit"
}

func init() {
	register(&Component{
		Name:     "ledger",
		Gen:      ledgerGen,
		Run:      ledgerRun,
		Monitor:  ledgerMonitor,
		Quick:    1500,
		Thorough: 40000,
		Nontrivial: func(lines, outs []string) bool {
			for _, o := range outs {
				if strings.HasPrefix(o, "some ") {
					return true
				}
			}
			return false
		},
	})
}
