package main

// Component `kinesis` (C11): the real KinesisTransporter (transportWithRetry + StartTransporting)
// driven by a scripted kinesisiface.KinesisAPI fake, compared with Model/KinesisRetry.lean.
//
// Lines:
//   kinesis cfg <budget>                 new worker goroutine, backoff.WithMaxRetries(&ZeroBackOff{}, budget)
//   kinesis batch <msgs> <outs>          msgs = id:key:txn,…   outs = E | C | C1 | C2 | R<bits>:<failedCount>
// Output of a batch line (same text as the Lean driver prints):
//   calls=<ids|ids|…> result=<written|exhausted|cancelled|panic-size> reported=<txns|none>
//   stats=f<failures>s<successes>w<written value|->d<duration stats> term=<0|1> ptr=ok
//
// The terminate context is a parkCtx: every `TerminateCtx.Done()` of the worker (top of the loop,
// the second select, the top of every attempt) hands control to the harness, which decides whether the
// context is cancelled at that moment. A `C` at attempt k ≥ 1 is produced from inside the fake (it closes the
// context while answering call k-1); `C` at attempt 0 at the attempt's own check, `C1` at the loop's first
// select (before the batch is handed over), `C2` at the second select (after it was received).

import (
	"bytes"
	"errors"
	"fmt"
	"io"
	"strconv"
	"strings"
	"sync"
	"sync/atomic"
	"time"

	"github.com/Nextdoor/pg-bifrost.git/marshaller"
	"github.com/Nextdoor/pg-bifrost.git/shutdown"
	"github.com/Nextdoor/pg-bifrost.git/stats"
	"github.com/Nextdoor/pg-bifrost.git/transport"
	kbatch "github.com/Nextdoor/pg-bifrost.git/transport/transporters/kinesis/batch"
	ktrans "github.com/Nextdoor/pg-bifrost.git/transport/transporters/kinesis/transporter"
	kutils "github.com/Nextdoor/pg-bifrost.git/transport/transporters/kinesis/utils"
	"github.com/aws/aws-sdk-go/aws"
	awskinesis "github.com/aws/aws-sdk-go/service/kinesis"
	"github.com/aws/aws-sdk-go/service/kinesis/kinesisiface"
	"github.com/cenkalti/backoff/v4"
	"github.com/cevaris/ordered_map"
	"github.com/sirupsen/logrus"
)

// logHook keeps the warnings/errors of the worker: they tell apart "max retries exceeded" from the
// recovered panic.
type logHook struct {
	mu   sync.Mutex
	msgs []string
}

func (h *logHook) Levels() []logrus.Level {
	return []logrus.Level{logrus.PanicLevel, logrus.FatalLevel, logrus.ErrorLevel, logrus.WarnLevel}
}
func (h *logHook) Fire(e *logrus.Entry) error {
	h.mu.Lock()
	h.msgs = append(h.msgs, e.Message)
	h.mu.Unlock()
	return nil
}
func (h *logHook) has(sub string) bool {
	h.mu.Lock()
	defer h.mu.Unlock()
	for _, m := range h.msgs {
		if strings.Contains(m, sub) {
			return true
		}
	}
	return false
}

func quietLog() (logrus.Entry, *logHook) {
	l := logrus.New()
	l.Out = io.Discard
	l.Level = logrus.WarnLevel
	h := &logHook{}
	l.AddHook(h)
	return *logrus.NewEntry(l), h
}

type kinOrig struct {
	id   string
	data []byte
	pkey string
}

type kinFake struct {
	kinesisiface.KinesisAPI
	script   []string
	k        int
	calls    [][]string
	orig     map[*awskinesis.PutRecordsRequestEntry]kinOrig
	ptrBad   string
	closeCtx func()
}

func (f *kinFake) PutRecords(in *awskinesis.PutRecordsInput) (*awskinesis.PutRecordsOutput, error) {
	ids := []string{}
	if in.StreamName == nil || *in.StreamName != "stream" {
		f.ptrBad = "stream"
	}
	for _, r := range in.Records {
		if r == nil {
			ids = append(ids, "nil")
			f.ptrBad = "nil-entry"
			continue
		}
		data := append([]byte{}, r.Data...) // deep copy at call time
		ids = append(ids, idOf(data))
		o, ok := f.orig[r]
		switch {
		case !ok:
			f.ptrBad = "foreign-object"
		case !bytes.Equal(o.data, data) || r.PartitionKey == nil || *r.PartitionKey != o.pkey:
			f.ptrBad = "modified"
		}
	}
	f.calls = append(f.calls, ids)
	o := "E"
	if f.k < len(f.script) {
		o = f.script[f.k]
	}
	f.k++
	// cancellation between attempts: the context is cancelled while this call is being answered
	if f.k < len(f.script) && strings.HasPrefix(f.script[f.k], "C") {
		f.closeCtx()
	}
	if strings.HasPrefix(o, "R") {
		p := strings.SplitN(o[1:], ":", 2)
		fc, _ := strconv.ParseInt(p[1], 10, 64)
		out := &awskinesis.PutRecordsOutput{FailedRecordCount: aws.Int64(fc)}
		for i, c := range p[0] {
			e := &awskinesis.PutRecordsResultEntry{}
			if c == '1' {
				e.ErrorCode = aws.String(Pick(NewRng(uint64(i)), []string{"ProvisionedThroughputExceededException", "InternalFailure"}))
				e.ErrorMessage = aws.String("scripted")
			} else {
				e.SequenceNumber = aws.String(strconv.Itoa(i))
				e.ShardId = aws.String("shard-0")
			}
			out.Records = append(out.Records, e)
		}
		return out, nil
	}
	// "E", and a call that should not have happened at all ("C"): whole-call error
	return nil, errors.New("scripted whole-call error")
}

type kinEnv struct {
	fake    *kinFake
	pc      *parkCtx
	in      chan transport.Batch
	written chan *ordered_map.OrderedMap
	stats   chan stats.Stat
	exited  chan struct{}
	hook    *logHook
	term    int32
	closed  bool
	dead    bool
	parked  bool
	escaped atomic.Value
}

func (e *kinEnv) closeDone() {
	if !e.closed {
		e.closed = true
		close(e.pc.done)
	}
}

func newKinEnv(budget uint64) *kinEnv {
	e := &kinEnv{}
	e.pc = newParkCtx()
	e.fake = &kinFake{closeCtx: e.closeDone}
	e.in = make(chan transport.Batch)
	e.written = make(chan *ordered_map.OrderedMap)
	e.stats = make(chan stats.Stat)
	e.exited = make(chan struct{})
	log, hook := quietLog()
	e.hook = hook
	sh := shutdown.ShutdownHandler{TerminateCtx: e.pc, CancelFunc: func() { atomic.StoreInt32(&e.term, 1) }}
	t := ktrans.NewTransporterWithInterface(sh, e.in, e.written, e.stats, log, 0, "stream", e.fake,
		backoff.WithMaxRetries(&backoff.ZeroBackOff{}, budget))
	go func() {
		defer close(e.exited)
		defer func() {
			if r := recover(); r != nil {
				e.escaped.Store(fmt.Sprint(r))
			}
		}()
		t.StartTransporting()
	}()
	return e
}

// wait handles stats until the worker parks, reports, or exits.
type kinObs struct {
	f, s, d int
	w       string
}

func (e *kinEnv) wait(o *kinObs) (string, *ordered_map.OrderedMap) {
	written := e.written
	timeout := time.After(10 * time.Second)
	for {
		select {
		case <-e.pc.parked:
			e.parked = true
			return "parked", nil
		case st := <-e.stats:
			if st.Component == "kinesis_transport" {
				switch st.StatName {
				case "failure":
					o.f++
				case "success":
					o.s++
				case "duration":
					o.d++
				case "written":
					o.w = strconv.FormatInt(st.Value, 10)
				}
			}
		case om, ok := <-written:
			if !ok {
				written = nil
				continue
			}
			return "written", om
		case <-e.exited:
			e.dead = true
			return "exited", nil
		case <-timeout:
			return "hang", nil
		}
	}
}

func (e *kinEnv) release() {
	if e.parked {
		e.parked = false
		e.pc.resume <- struct{}{}
	}
}

func (e *kinEnv) stop() {
	if e.dead {
		return
	}
	e.closeDone()
	o := &kinObs{}
	for i := 0; i < 50 && !e.dead; i++ {
		e.release()
		if why, _ := e.wait(o); why == "hang" {
			return
		}
	}
}

func kinesisRun(c Case) ([]string, []string) {
	lines, outs := []string{}, []string{}
	var e *kinEnv
	defer func() {
		if e != nil {
			e.stop()
		}
	}()
	for _, l := range c.Lines {
		w := strings.Fields(l)
		lines = append(lines, l)
		switch {
		case len(w) == 3 && w[0] == "kinesis" && w[1] == "cfg":
			b, err := strconv.ParseUint(w[2], 10, 32)
			if err != nil {
				outs = append(outs, "bad-op")
				continue
			}
			if e != nil {
				e.stop()
			}
			e = newKinEnv(b)
			outs = append(outs, "ok")
		case len(w) == 4 && w[0] == "kinesis" && w[1] == "batch" && e != nil:
			if e.dead {
				outs = append(outs, "dead")
				continue
			}
			outs = append(outs, e.batch(w[2], w[3]))
		default:
			outs = append(outs, "bad-op")
		}
	}
	return lines, outs
}

func (e *kinEnv) batch(msgs, script string) string {
	// the real batch object, filled through the real Add
	b := kbatch.NewKinesisBatch("pk", kutils.KINESIS_PART_BATCH)
	if msgs != "-" {
		for _, m := range strings.Split(msgs, ",") {
			// "+…": a record near the per-record limit; "!…": such a record that the (nearly full) batch must
			// refuse with can't-fit - the batcher then moves it to the next batch, it is no part of this one
			big, refused := strings.HasPrefix(m, "+"), strings.HasPrefix(m, "!")
			p := strings.Split(strings.TrimLeft(m, "+!"), ":")
			if len(p) != 3 {
				return "bad-op"
			}
			id, _ := strconv.Atoi(p[0])
			key, _ := strconv.Atoi(p[1])
			txn, _ := strconv.Atoi(p[2])
			size := 8 + id%5
			if big || refused {
				size = kinBigRecord
			}
			mm := &marshaller.MarshalledMessage{Operation: "INSERT", Table: "public.t", Json: mkJson(id, size),
				TimeBasedKey: kname(key), Transaction: tname(txn), WalStart: uint64(1000 + id), PartitionKey: "pk"}
			ok, err := b.Add(mm)
			if refused {
				if ok || err == nil || err.Error() != transport.ERR_CANT_FIT {
					return "harness-error expected-cant-fit"
				}
				continue
			}
			if !ok || err != nil {
				return "harness-error add"
			}
		}
	}
	f := e.fake
	f.script = nil
	if script != "-" {
		f.script = strings.Split(script, ",")
	}
	f.k = 0
	f.calls = nil
	f.ptrBad = ""
	f.orig = map[*awskinesis.PutRecordsRequestEntry]kinOrig{}
	for _, r := range b.GetPayload().([]*awskinesis.PutRecordsRequestEntry) {
		f.orig[r] = kinOrig{idOf(r.Data), append([]byte{}, r.Data...), *r.PartitionKey}
	}
	wantTxns := showTxns(b.GetTransactions())
	first := ""
	if len(f.script) > 0 {
		first = f.script[0]
	}
	o := &kinObs{w: "-"}
	result, reported := "", "none"
	fail := func(s string) string { e.dead = true; return s }

	// 1. the worker is (or gets) parked at the first select of its loop
	if !e.parked {
		if why, _ := e.wait(o); why != "parked" {
			return fail("unexpected-" + why + "-before-batch")
		}
	}
	handed := false
	if first == "C1" {
		e.closeDone()
	}
	e.release()
	if first != "C1" {
		// hand the batch over; a worker that is not at its receive keeps being served meanwhile
		timeout := time.After(5 * time.Second)
		for !handed && !e.dead {
			select {
			case e.in <- b:
				handed = true
			case <-e.stats:
			case <-e.pc.parked:
				e.pc.resume <- struct{}{}
			case <-e.exited:
				e.dead = true
			case <-timeout:
				return fail("hang-handover")
			}
		}
	}
	// 2. everything else: parks (second select, attempts), stats, the report or the exit
	parks := 0
	for result == "" {
		why, om := e.wait(o)
		switch why {
		case "parked":
			parks++
			if handed && ((parks == 1 && first == "C2") || (parks == 2 && first == "C")) {
				e.closeDone()
			}
			if result == "" {
				e.release()
			}
		case "written":
			result = "written"
			reported = showTxns(om)
			if om != b.GetTransactions() {
				reported += "!other-map"
			}
			if reported != wantTxns {
				reported += "!not-the-batch's"
			}
		case "exited":
			switch {
			case e.hook.has("Recovered in KinesisTransporter"):
				if e.hook.has("input size does not match") {
					result = "panic-size"
				} else {
					result = "panic-other"
				}
			case e.hook.has("max retries exceeded"):
				result = "exhausted"
			case e.closed:
				result = "cancelled"
			default:
				result = "exit-unknown"
			}
			if v := e.escaped.Load(); v != nil {
				result = "panic-escaped"
			}
		default:
			return fail("hang")
		}
	}
	calls := []string{}
	for _, c := range f.calls {
		calls = append(calls, joinList(c, ","))
	}
	cs := "none"
	if len(calls) > 0 {
		cs = strings.Join(calls, "|")
	}
	ptr := "ok"
	if f.ptrBad != "" {
		ptr = f.ptrBad
	}
	return fmt.Sprintf("calls=%s result=%s reported=%s stats=f%ds%dw%sd%d term=%d ptr=%s",
		cs, result, reported, o.f, o.s, o.w, o.d, atomic.LoadInt32(&e.term), ptr)
}

// ---- generation ----------------------------------------------------------------------

func bitsOf(mask, n int) string {
	b := make([]byte, n)
	for i := 0; i < n; i++ {
		if mask&(1<<i) != 0 {
			b[i] = '1'
		} else {
			b[i] = '0'
		}
	}
	return string(b)
}

func popcount(x int) int {
	n := 0
	for ; x != 0; x &= x - 1 {
		n++
	}
	return n
}

// kinEnumScripts: every script for a batch of n records and at most `attempts` attempts in which each
// attempt is a whole-call error, a cancellation, or a contract-conforming answer failing any subset of
// the records of that call.
func kinEnumScripts(n, attempts int) []string {
	out := []string{}
	var rec func(m, a int, prefix []string)
	rec = func(m, a int, prefix []string) {
		if a == 0 {
			out = append(out, joinList(prefix, ","))
			return
		}
		ext := func(s string) []string { return append(append([]string{}, prefix...), s) }
		out = append(out, joinList(ext("C"), ","))
		rec(m, a-1, ext("E"))
		for mask := 0; mask < 1<<m; mask++ {
			o := fmt.Sprintf("R%s:%d", bitsOf(mask, m), popcount(mask))
			if mask == 0 {
				out = append(out, joinList(ext(o), ","))
			} else {
				rec(popcount(mask), a-1, ext(o))
			}
		}
	}
	rec(n, attempts, nil)
	return out
}

var (
	kinEnumOnce sync.Once
	kinEnum     [][2]string // (msgs, script) with budget 3
	kinEnumNext int64
)

const kinEnumPerCase = 12

// kinBigRecord: five of them (plus the 2-byte partition key each) fill a batch up to 5 MiB less 2,870 bytes, so a
// sixth is refused with can't-fit while a few small records still fit
const kinBigRecord = 1048000

func kinMsgs(r *Rng, n, base int) string {
	parts := []string{}
	key := r.Range(1, 3)
	if n == 6 && r.Chance(40) {
		// a byte-full batch: five big records, then a record of the same or another transaction that is refused
		for i := 0; i < 5; i++ {
			if r.Chance(35) {
				key = r.Range(1, 4)
			}
			parts = append(parts, fmt.Sprintf("+%d:%d:%d", base+i, key, key+10))
		}
		if r.Chance(50) {
			key = r.Range(1, 4)
		}
		parts = append(parts, fmt.Sprintf("!%d:%d:%d", base+5, key, key+10))
		return joinList(parts, ",")
	}
	for i := 0; i < n; i++ {
		if r.Chance(35) {
			key = r.Range(1, 4)
		}
		parts = append(parts, fmt.Sprintf("%d:%d:%d", base+i, key, key+10))
	}
	return joinList(parts, ",")
}

func kinRandomScript(r *Rng, n, attempts int) string {
	outs := []string{}
	m := n
	pFail := Pick(r, []int{10, 30, 50, 80})
	for a := 0; a < attempts; a++ {
		x := r.Intn(100)
		switch {
		case x < 12:
			outs = append(outs, "E")
		case x < 17:
			outs = append(outs, Pick(r, []string{"C", "C", "C1", "C2"}))
			return joinList(outs, ",")
		case x < 22: // wrong response length
			k := m + Pick(r, []int{-1, 1, 2, -m})
			if k < 0 {
				k = 0
			}
			mask := r.Intn(1 << uint(k))
			fc := popcount(mask)
			if r.Chance(30) {
				fc = r.Intn(3)
			}
			outs = append(outs, fmt.Sprintf("R%s:%d", bitsOf(mask, k), fc))
			if fc != 0 {
				return joinList(outs, ",")
			}
			return joinList(outs, ",")
		case x < 30: // right length, inconsistent FailedRecordCount
			mask := r.Intn(1 << uint(m))
			fc := Pick(r, []int{0, 1, popcount(mask) + 1, m + 3})
			if popcount(mask) > 0 && r.Chance(30) {
				fc = popcount(mask) - 1
			}
			outs = append(outs, fmt.Sprintf("R%s:%d", bitsOf(mask, m), fc))
			if fc == 0 {
				return joinList(outs, ",")
			}
			m = popcount(mask)
		default:
			mask := 0
			for i := 0; i < m; i++ {
				if r.Chance(pFail) {
					mask |= 1 << i
				}
			}
			outs = append(outs, fmt.Sprintf("R%s:%d", bitsOf(mask, m), popcount(mask)))
			if mask == 0 {
				return joinList(outs, ",")
			}
			m = popcount(mask)
		}
	}
	return joinList(outs, ",")
}

func kinesisGen(r *Rng, tier string) Case {
	if tier == "thorough" {
		kinEnumOnce.Do(func() {
			base := 1
			for n := 0; n <= 4; n++ {
				for _, s := range kinEnumScripts(n, 4) {
					kinEnum = append(kinEnum, [2]string{kinMsgs(NewRng(uint64(base)), n, base), s})
					base += n
				}
			}
		})
		start := int(atomic.AddInt64(&kinEnumNext, kinEnumPerCase)) - kinEnumPerCase
		if start < len(kinEnum) {
			lines := []string{}
			for i := start; i < start+kinEnumPerCase && i < len(kinEnum); i++ {
				lines = append(lines, "kinesis cfg 3", fmt.Sprintf("kinesis batch %s %s", kinEnum[i][0], kinEnum[i][1]))
			}
			return Case{lines}
		}
	}
	maxN, maxBudget := 6, 4
	if tier == "thorough" {
		maxN, maxBudget = 12, 7
	}
	lines := []string{}
	base := 1
	budget := -1
	for nb := r.Range(2, 7); nb > 0; nb-- {
		if budget < 0 {
			budget = r.Range(0, maxBudget)
			lines = append(lines, fmt.Sprintf("kinesis cfg %d", budget))
		}
		n := r.Range(1, maxN)
		if r.Chance(4) {
			n = 0
		}
		attempts := budget + 1
		if r.Chance(15) { // the script may be shorter (implicit whole-call errors) or longer than the budget
			attempts = r.Range(0, budget+3)
		}
		msgs := kinMsgs(r, n, base)
		script := kinRandomScript(r, n-strings.Count(msgs, "!"), attempts) // responses sized for the records in the batch
		lines = append(lines, fmt.Sprintf("kinesis batch %s %s", msgs, script))
		base += n
		// a script that does not end in a success (within the budget) ends the worker: mostly start a new one
		toks := strings.Split(script, ",")
		last := toks[len(toks)-1]
		if !(strings.HasPrefix(last, "R") && strings.HasSuffix(last, ":0") && len(toks) <= budget+1) && r.Chance(92) {
			budget = -1
		}
	}
	return Case{lines}
}

// ---- monitor (C11 itself, judged on the implementation's history) ------------------------

func kinField(out, name string) string {
	for _, f := range strings.Fields(out) {
		if strings.HasPrefix(f, name+"=") {
			return f[len(name)+1:]
		}
	}
	return ""
}

func kinesisMonitor(lines, outs []string, m *Model) []Violation {
	var vs []Violation
	budget := -1
	for i, l := range lines {
		w := strings.Fields(l)
		if len(w) == 3 && w[1] == "cfg" {
			budget, _ = strconv.Atoi(w[2])
		}
		// C17: a sink that keeps failing stops the worker within its retry budget (n retries = n+1 calls)
		if i < len(outs) && budget >= 0 && len(w) == 4 && w[1] == "batch" && strings.HasPrefix(outs[i], "calls=") {
			f := strings.Fields(outs[i])
			ncalls := 0
			if c := strings.TrimPrefix(f[0], "calls="); c != "" && c != "-" {
				ncalls = strings.Count(c, "|") + 1
			}
			if ncalls > budget+1 {
				vs = append(vs, Violation{"C17", fmt.Sprintf("the Kinesis worker made %d PutRecords calls for one batch with a retry budget of %d: a sink failing past the budget does not stop it (%s => %s)", ncalls, budget, l, outs[i]), ""})
				return vs
			}
			if strings.Contains(outs[i], "result=exhausted") && !strings.Contains(outs[i], "term=1") {
				vs = append(vs, Violation{"C17", "retry budget exhausted but the termination signal was not raised: " + outs[i], ""})
				return vs
			}
		}
		if i >= len(outs) || len(w) != 4 || w[1] != "batch" || !strings.HasPrefix(outs[i], "calls=") {
			continue
		}
		recs, txns := []string{}, []string{}
		if w[2] != "-" {
			cnt := map[string]int{}
			order := []string{}
			txnOf := map[string]string{}
			for _, mm := range strings.Split(w[2], ",") {
				if strings.HasPrefix(mm, "!") { // refused by the batch: no part of it, must not be counted
					continue
				}
				p := strings.Split(strings.TrimPrefix(mm, "+"), ":")
				recs = append(recs, p[0])
				if cnt[p[1]] == 0 {
					order = append(order, p[1])
					txnOf[p[1]] = p[2]
				}
				cnt[p[1]]++
			}
			for _, k := range order {
				txns = append(txns, fmt.Sprintf("%s:%s:%d", k, txnOf[k], cnt[k]))
			}
		}
		reported := kinField(outs[i], "reported")
		result := "other"
		if reported != "none" {
			result = "written"
			if strings.Contains(reported, "!") {
				vs = append(vs, Violation{"C11", "the report on txnsWritten is not the batch's own transactions: " + outs[i], ""})
				continue
			}
		}
		if p := kinField(outs[i], "ptr"); p != "ok" {
			vs = append(vs, Violation{"C11", "a PutRecords call carried a record that is not an unmodified record of the batch (" + p + ")", ""})
			continue
		}
		// C05 at the sink: every call submits records in the batch's order
		if ans, err := m.Do(fmt.Sprintf("kinesismon order %s %s", joinList(recs, ","), kinField(outs[i], "calls"))); err == nil && strings.HasPrefix(ans, "viol") {
			vs = append(vs, Violation{"C05", "a PutRecords call submits records of one batch out of the batch's (delivery) order: " + l + " => " + outs[i], ""})
		}
		q := fmt.Sprintf("kinesismon check %s %s %s %s %s [%s]", joinList(recs, ","), kinField(outs[i], "calls"), w[3], result, reported, strings.Join(txns, ";"))
		ans, err := m.Do(q)
		if err != nil {
			continue
		}
		if strings.HasPrefix(ans, "viol") || ans == "bad-op" {
			vs = append(vs, Violation{"C11", ans + " :: " + l + " => " + outs[i], ""})
		}
	}
	return vs
}

func kinesisStats(lines, outs []string, d map[string]int) {
	for i, l := range lines {
		w := strings.Fields(l)
		if i >= len(outs) || len(w) != 4 || w[1] != "batch" {
			continue
		}
		o := outs[i]
		if o == "dead" {
			d["batch_after_worker_exit"]++
			continue
		}
		res := kinField(o, "result")
		d["result_"+res]++
		calls := kinField(o, "calls")
		nc := 0
		if calls != "none" {
			nc = len(strings.Split(calls, "|"))
		}
		d["calls_"+bucket(nc)]++
		d[fmt.Sprintf("ncalls_%d", nc)]++
		if strings.Contains(calls, "|-") {
			d["call_with_zero_records"]++
		}
		n := 0
		if w[2] != "-" {
			for _, mm := range strings.Split(w[2], ",") {
				if strings.HasPrefix(mm, "!") {
					d["batch_with_refused_record"]++
				} else {
					n++
				}
			}
		}
		d[fmt.Sprintf("batch_size_%d", n)]++
		if w[3] == "-" {
			continue
		}
		cur := n
		for k, s := range strings.Split(w[3], ",") {
			if k >= nc && !strings.HasPrefix(s, "C") {
				break
			}
			switch {
			case s == "E":
				d["played_call_error"]++
			case strings.HasPrefix(s, "C"):
				if k == nc {
					d["played_cancel_"+s+fmt.Sprintf("_attempt%s", bucket(k))]++
				}
			default:
				p := strings.SplitN(s[1:], ":", 2)
				fc, _ := strconv.Atoi(p[1])
				ones := strings.Count(p[0], "1")
				switch {
				case len(p[0]) != cur && fc == 0:
					d["played_wrong_length_count0(success)"]++
				case len(p[0]) != cur:
					d["played_wrong_length(panic)"]++
				case fc == 0 && ones > 0:
					d["played_count0_with_codes(success)"]++
				case fc > 0 && ones == 0:
					d["played_count>0_without_codes(empty retry)"]++
				case fc != ones:
					d["played_count_off"]++
				case ones == 0:
					d["played_success"]++
				case ones == cur:
					d["played_all_failed"]++
				default:
					d["played_partial_failure"]++
				}
				if len(p[0]) == cur && fc != 0 {
					cur = ones
				}
			}
		}
	}
}

func init() {
	register(&Component{Name: "kinesis", Gen: kinesisGen, Run: kinesisRun, Monitor: kinesisMonitor, Stats: kinesisStats,
		Quick: 6000, Thorough: 150000,
		Nontrivial: func(lines, outs []string) bool {
			for _, o := range outs {
				if strings.Contains(kinField(o, "calls"), "|") {
					return true
				}
			}
			return false
		}})
}
