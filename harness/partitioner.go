package main

import (
	"fmt"
	"strconv"
	"strings"
	"sync"
	"sync/atomic"
	"time"

	"github.com/Nextdoor/pg-bifrost.git/parselogical"
	"github.com/Nextdoor/pg-bifrost.git/partitioner"
	"github.com/Nextdoor/pg-bifrost.git/replication"
	"github.com/Nextdoor/pg-bifrost.git/shutdown"
	"github.com/Nextdoor/pg-bifrost.git/stats"
	"github.com/Nextdoor/pg-bifrost.git/utils"
)

// partitioner: the real Partitioner stage goroutine; every message is forwarded with its key.
func partitionerRun(c Case) ([]string, []string) {
	lines, outs := []string{}, []string{}
	var in chan *replication.WalMessage
	var p *partitioner.Partitioner
	var sh shutdown.ShutdownHandler
	stop := func() {
		if p != nil {
			sh.CancelFunc()
			close(in)
			p = nil
		}
	}
	defer stop()
	for _, l := range c.Lines {
		w := strings.Fields(l)
		lines = append(lines, l)
		switch {
		case len(w) == 4 && w[1] == "cfg":
			stop()
			sh = shutdown.NewShutdownHandler()
			in = make(chan *replication.WalMessage)
			b, _ := strconv.Atoi(w[3])
			// the method goes through the real name table, as main.go does
			pp := partitioner.New(sh, in, make(chan stats.Stat, 4), partitioner.GetPartitionMethod(w[2]), b)
			p = &pp
			go p.Start()
			outs = append(outs, "ok")
		case (len(w) == 4 || len(w) == 5) && w[1] == "msg" && p != nil:
			op := "INSERT"
			if len(w) == 5 {
				op = w[4]
			}
			m := &replication.WalMessage{Pr: &parselogical.ParseResult{Operation: op, Relation: unhexs(w[2]), Transaction: unhexs(w[3])}}
			select {
			case in <- m:
			case <-time.After(5 * time.Second):
				outs = append(outs, "hang")
				return lines, outs
			}
			select {
			case got := <-p.OutputChan:
				if got != m {
					outs = append(outs, "other-message")
				} else {
					outs = append(outs, hexs(got.PartitionKey))
				}
			case <-time.After(5 * time.Second):
				outs = append(outs, "hang")
				return lines, outs
			}
		case len(w) == 3 && w[1] == "storm":
			// several partitioner goroutines hash at the same time in a real process (one per source is not the rule:
			// the batcher's routing hashes too): utils.QuickHash from 8 goroutines at once, each on its own keys
			b, _ := strconv.Atoi(w[2])
			if b < 1 {
				outs = append(outs, "bad-op")
				continue
			}
			var wg sync.WaitGroup
			var bad int64
			for g := 0; g < 8; g++ {
				wg.Add(1)
				go func(g int) {
					defer wg.Done()
					for i := 0; i < 30000; i++ {
						k := fmt.Sprintf("%d-transaction-key-with-some-length-%d-%d", g, i, g*7919+i)
						if utils.QuickHash(k, b) != quickHashGo(k, b) {
							atomic.AddInt64(&bad, 1)
						}
					}
				}(g)
			}
			wg.Wait()
			outs = append(outs, fmt.Sprintf("mismatches=%d", bad))
		default:
			outs = append(outs, "bad-op")
		}
	}
	return lines, outs
}

func partitionerGen(r *Rng, tier string) Case {
	if r.Chance(3) {
		return Case{[]string{fmt.Sprintf("partitioner storm %d", r.Range(2, 64))}}
	}
	method := Pick(r, []string{"none", "tablename", "transaction", "transaction-bucket", "transaction-bucket"})
	buckets := r.Range(1, 64)
	lines := []string{fmt.Sprintf("partitioner cfg %s %d", method, buckets)}
	txns := []string{}
	for i := r.Range(1, 6); i > 0; i-- {
		switch r.Intn(4) {
		case 0:
			txns = append(txns, strconv.Itoa(r.Range(1, 999)))
		case 1:
			txns = append(txns, strconv.FormatUint(r.U64()%4294967296, 10))
		case 2:
			txns = append(txns, strconv.FormatUint(r.U64(), 10))
		default:
			txns = append(txns, Pick(r, []string{"", "7", "abc", "ü", "00042"}))
		}
	}
	if r.Chance(50) {
		for i := r.Range(3, 30); i > 0; i-- {
			lines = append(lines, fmt.Sprintf("partitioner msg %s %s", hexs(Pick(r, relPool)), hexs(Pick(r, txns))))
		}
		return Case{lines}
	}
	// framed traffic as the client forwards it: BEGIN, rows, COMMIT - and the frames a reconnect leaves behind
	// (a BEGIN not preceded by the COMMIT of the open transaction, a transaction delivered again)
	for i := r.Range(2, 8); i > 0; i-- {
		t := hexs(Pick(r, txns))
		lines = append(lines, fmt.Sprintf("partitioner msg %s %s BEGIN", hexs(""), t))
		for j := r.Range(0, 4); j > 0; j-- {
			lines = append(lines, fmt.Sprintf("partitioner msg %s %s %s", hexs(Pick(r, relPool)), t, Pick(r, []string{"INSERT", "UPDATE", "DELETE"})))
		}
		if r.Chance(65) {
			lines = append(lines, fmt.Sprintf("partitioner msg %s %s COMMIT", hexs(""), t))
		}
	}
	return Case{lines}
}

// crc: Lean crc32 / quickHash against hash/crc32 on random byte strings
func crcRun(c Case) ([]string, []string) {
	outs := []string{}
	for _, l := range c.Lines {
		w := strings.Fields(l)
		switch len(w) {
		case 2:
			outs = append(outs, strconv.FormatUint(uint64(crc32ieee([]byte(unhexs(w[1])))), 10))
		case 3:
			n, _ := strconv.Atoi(w[2])
			outs = append(outs, strconv.Itoa(quickHashGo(unhexs(w[1]), n)))
		default:
			outs = append(outs, "bad-op")
		}
	}
	return c.Lines, outs
}

func crcGen(r *Rng, tier string) Case {
	lines := []string{}
	for i := 0; i < 20; i++ {
		n := r.Intn(40)
		b := make([]byte, n)
		for j := range b {
			b[j] = byte(r.Intn(256))
		}
		if r.Chance(50) {
			lines = append(lines, "crc "+hexs(string(b)))
		} else {
			lines = append(lines, fmt.Sprintf("crc %s %d", hexs(string(b)), r.Range(1, 64)))
		}
	}
	return Case{lines}
}

// partitionerMonitor: the key the real stage stamped vs the documented key of the method (C06)
func partitionerMonitor(lines, outs []string, m *Model) []Violation {
	for i, l := range lines {
		if i >= len(outs) {
			break
		}
		want, _ := m.Do(l)
		if strings.HasPrefix(l, "partitioner storm") && want != outs[i] {
			return []Violation{{"C06", "utils.QuickHash called from several goroutines at once does not return the bucket of its argument: " + outs[i] + " of 240000 calls differ (" + l + ")", ""}}
		}
		if strings.HasPrefix(l, "partitioner msg") && want != outs[i] {
			return []Violation{{"C06", "partition key " + outs[i] + " differs from the method's key " + want + " (" + lines[0] + " | " + l + ")", ""}}
		}
	}
	return nil
}

func init() {
	register(&Component{Name: "partitioner", Gen: partitionerGen, Run: partitionerRun, Monitor: partitionerMonitor, Quick: 500, Thorough: 20000})
	register(&Component{Name: "crc", Gen: crcGen, Run: crcRun, Quick: 300, Thorough: 20000})
}
