package main

// Component `aggregator` (property C19): the real stats aggregator (both goroutines) driven
// through an injected clock. Every call of a.timeNow() is a synchronisation point: the fake
// clock parks the caller until the harness releases it with the scripted reading. The ingest
// goroutine (processStatsMessagesWorker) calls it once per statistic, WITHOUT the lock; the
// reporting goroutine (reportAggregatesWorker) calls it once per held bucket per scan, while
// HOLDING the lock. The two are told apart by inspecting the call stack.
//
// Script (case) lines                                  model lines produced by Run
//   aggregator cfg <windowNs>                          cfg
//   aggregator stat <id4> <value> <ts> <now>           check, [add], [scan (harmless, see below)], held
//   aggregator race <id4> <value> <ts> <now> <r,..>    check, scan, [add], held   (scan between ingest's check and its insert)
//   aggregator scan <r,..>                             scan, held
// <r,..> are the clock readings answered to the reporter's calls IN CALL ORDER (last one
// repeated). Go's map order decides which bucket each call is about and is not observable, so
// Run assigns readings to buckets by any permutation consistent with what was reported (the
// model's result only depends on the per-bucket verdicts); with no consistent permutation the
// identity is used and the model will disagree.
// When the reporter wakes up at a moment the script did not plan (it scans every 250 ms), the
// harness answers with a reading far in the past (nothing expires) and records that scan.

import (
	"fmt"
	"runtime"
	"sort"
	"strconv"
	"strings"
	"time"

	"github.com/Nextdoor/pg-bifrost.git/shutdown"
	"github.com/Nextdoor/pg-bifrost.git/stats"
	"github.com/Nextdoor/pg-bifrost.git/stats/aggregator"
)

const (
	aggLowNow  = int64(-1) << 55 // no bucket the generator makes is expired at this reading
	aggHugeNow = int64(1) << 61
	aggGrace   = int64(time.Second) // reportGraceNano; only used to resolve map order, see above
	aggWait    = 4 * time.Second
)

type aggHeld = map[int64]map[string][4]int64

type aggEnv struct {
	a           aggregator.Aggregator
	sh          shutdown.ShutdownHandler
	in          chan stats.Stat
	out         chan stats.Stat
	ingestReq   chan chan int64
	reporterReq chan chan int64
	done        chan struct{}
	w           int64

	ingest   chan int64 // parked ingest clock call (nil: not parked)
	reporter chan int64 // parked first reporter call of a scan (nil: not parked)
	H        aggHeld
	implicit bool // an unplanned scan was answered since the flag was last cleared
	// back-pressure mode (`aggregator outcap <n>`): the output channel holds only n statistics and the
	// harness is a slow consumer - it takes statistics out only when the channel is full (the reporter is
	// then blocked in its send, holding the lock). What was taken out is kept in buf until the next drain.
	buf []stats.Stat
}

func aggCaller() int {
	var pcs [24]uintptr
	n := runtime.Callers(2, pcs[:])
	fr := runtime.CallersFrames(pcs[:n])
	for {
		f, more := fr.Next()
		if strings.Contains(f.Function, "processStatsMessagesWorker") {
			return 1
		}
		if strings.Contains(f.Function, "reportAggregatesWorker") {
			return 2
		}
		if !more {
			return 0
		}
	}
}

func newAggEnv(w int64, outCap int) *aggEnv {
	e := &aggEnv{sh: shutdown.NewShutdownHandler(), in: make(chan stats.Stat), out: make(chan stats.Stat, outCap),
		ingestReq: make(chan chan int64), reporterReq: make(chan chan int64), done: make(chan struct{}), w: w, H: aggHeld{}}
	clock := func() time.Time {
		reply := make(chan int64, 1)
		var req chan chan int64
		switch aggCaller() {
		case 1:
			req = e.ingestReq
		case 2:
			req = e.reporterReq
		default:
			return time.Unix(0, aggHugeNow)
		}
		select {
		case req <- reply:
		case <-e.done:
			return time.Unix(0, aggHugeNow)
		}
		select {
		case v := <-reply:
			return time.Unix(0, v)
		case <-e.done:
			return time.Unix(0, aggHugeNow)
		}
	}
	e.a = aggregator.VerifNew(e.sh, e.in, e.out, clock, w)
	e.a.Start()
	return e
}

// stop: release every parked caller (everything is then expired/dropped), cancel. The
// reporting goroutine has no exit path in the real code; it idles at 4 Hz with an empty table.
func (e *aggEnv) stop() {
	e.sh.CancelFunc()
	close(e.done)
}

func (e *aggEnv) offer(s stats.Stat) {
	go func() {
		select {
		case e.in <- s:
		case <-e.done:
		}
	}()
}

func (e *aggEnv) probe() chan aggHeld {
	ch := make(chan aggHeld, 1)
	go func() { ch <- e.a.VerifHeld() }()
	return ch
}

// pump: slow consumer - relieve the output channel only when it is full
func (e *aggEnv) pump() {
	if len(e.out) == cap(e.out) {
		for {
			select {
			case s, ok := <-e.out:
				if !ok {
					return
				}
				e.buf = append(e.buf, s)
			default:
				return
			}
		}
	}
}

func (e *aggEnv) drain() []stats.Stat {
	l := e.buf
	e.buf = nil
	for {
		select {
		case s, ok := <-e.out:
			if !ok {
				return l
			}
			l = append(l, s)
		default:
			return l
		}
	}
}

// flush lets an unplanned scan run to its end with readings at which nothing expires.
func (e *aggEnv) flush() bool {
	if e.reporter == nil {
		return true
	}
	e.reporter <- aggLowNow
	e.reporter = nil
	e.implicit = true
	pr := e.probe()
	t := time.After(aggWait)
	pt := time.NewTicker(2 * time.Millisecond)
	defer pt.Stop()
	for {
		select {
		case r := <-e.reporterReq:
			r <- aggLowNow
		case <-pr:
			return true
		case <-pt.C:
			e.pump()
		case <-t:
			return false
		}
	}
}

// waitIngest: until the ingest goroutine is parked in its clock call (= it has completely
// processed the previous statistic and received the next one).
func (e *aggEnv) waitIngest() bool {
	t := time.After(aggWait)
	for e.ingest == nil {
		select {
		case r := <-e.ingestReq:
			e.ingest = r
		case r := <-e.reporterReq:
			// the reporter holds the lock; the insert we wait for may need it
			e.reporter = r
			if !e.flush() {
				return false
			}
		case <-t:
			return false
		}
	}
	return true
}

// quiesce: ingest is parked; read the held table at a moment the lock is free.
func (e *aggEnv) quiesce() bool {
	if e.reporter != nil && !e.flush() {
		return false
	}
	pr := e.probe()
	t := time.After(aggWait)
	pt := time.NewTicker(2 * time.Millisecond)
	defer pt.Stop()
	for {
		select {
		case h := <-pr:
			e.H = h
			return true
		case r := <-e.reporterReq:
			e.reporter = r
			if !e.flush() {
				return false
			}
		case <-pt.C:
			e.pump()
		case <-t:
			return false
		}
	}
}

func (e *aggEnv) waitReporter() bool {
	if e.reporter != nil {
		return true
	}
	select {
	case r := <-e.reporterReq:
		e.reporter = r
		return true
	case <-time.After(aggWait):
		return false
	}
}

// plannedScan answers the reporter's calls of one scan with the scripted readings; returns the
// readings used (call order), the raw output and whether it ended in time.
func (e *aggEnv) plannedScan(readings []int64) ([]int64, []stats.Stat, bool) {
	used := []int64{}
	next := func() int64 {
		i := len(used)
		if i >= len(readings) {
			i = len(readings) - 1
		}
		used = append(used, readings[i])
		return readings[i]
	}
	e.reporter <- next()
	e.reporter = nil
	pr := e.probe()
	t := time.After(aggWait)
	pt := time.NewTicker(2 * time.Millisecond)
	defer pt.Stop()
	for {
		select {
		case r := <-e.reporterReq:
			r <- next()
		case <-pr:
			return used, e.drain(), true
		case <-pt.C:
			e.pump()
		case <-t:
			return used, nil, false
		}
	}
}

func aggBuckets(h aggHeld) []int64 {
	l := []int64{}
	for b := range h {
		l = append(l, b)
	}
	sort.Slice(l, func(i, j int) bool { return l[i] < l[j] })
	return l
}

// assign readings (call order) to buckets consistently with the reported set.
func aggAssign(buckets []int64, used []int64, reported map[int64]bool, w int64) []int64 {
	k := len(buckets)
	rd := make([]int64, k)
	for i := range rd {
		if i < len(used) {
			rd[i] = used[i]
		} else if len(used) > 0 {
			rd[i] = used[len(used)-1]
		}
	}
	perm := make([]int, k)
	for i := range perm {
		perm[i] = i
	}
	okPerm := func() bool {
		for i, b := range buckets {
			if (rd[perm[i]] > b+w+aggGrace) != reported[b] {
				return false
			}
		}
		return true
	}
	var rec func(i int) bool
	rec = func(i int) bool {
		if i == k {
			return okPerm()
		}
		for j := i; j < k; j++ {
			perm[i], perm[j] = perm[j], perm[i]
			if rec(i + 1) {
				return true
			}
			perm[i], perm[j] = perm[j], perm[i]
		}
		return false
	}
	res := make([]int64, k)
	if k <= 7 && rec(0) {
		for i := range buckets {
			res[i] = rd[perm[i]]
		}
		return res
	}
	copy(res, rd)
	return res
}

func aggShowStat(s stats.Stat) string {
	return fmt.Sprintf("%s|%s|%s|%s|%d|%d", s.Component, s.StatName, string(s.StatType), s.Unit, s.Value, s.Timestamp)
}

func aggShowStats(l []stats.Stat) string {
	p := []string{}
	for _, s := range l {
		p = append(p, aggShowStat(s))
	}
	return joinList(p, ",")
}

func aggShowHeld(h aggHeld) string {
	p := []string{}
	for b, m := range h {
		for k, v := range m {
			p = append(p, fmt.Sprintf("%d|%s|%d|%d|%d|%d", b, k, v[0], v[1], v[2], v[3]))
		}
	}
	sort.Strings(p)
	return joinList(p, ",")
}

func aggScanLine(buckets, nows []int64) string {
	p := []string{}
	for i, b := range buckets {
		p = append(p, fmt.Sprintf("%d:%d", b, nows[i]))
	}
	return "aggregator scan " + joinList(p, ",")
}

func aggTotal(h aggHeld) int64 {
	var n int64
	for _, m := range h {
		for _, v := range m {
			n += v[1]
		}
	}
	return n
}

// aggDiff classifies what happened to the table between base and after: "drop" (nothing
// inserted) or pass with the arm taken.
func aggDiff(base, after aggHeld) (string, string) {
	d := aggTotal(after) - aggTotal(base)
	if d == 0 {
		return "ok drop", ""
	}
	if d != 1 {
		return fmt.Sprintf("ok weird%d", d), ""
	}
	for b, m := range after {
		bm, ok := base[b]
		if !ok {
			return "ok pass", "ok newbucket"
		}
		for k, v := range m {
			bv, ok := bm[k]
			if !ok {
				return "ok pass", "ok newkey"
			}
			if bv[1] != v[1] {
				return "ok pass", "ok update"
			}
		}
	}
	return "ok pass", "ok unknown"
}

func aggParseStat(w []string) (stats.Stat, int64, bool) {
	// comp name type unit value ts now
	if len(w) < 7 {
		return stats.Stat{}, 0, false
	}
	v, e1 := strconv.ParseInt(w[4], 10, 64)
	ts, e2 := strconv.ParseInt(w[5], 10, 64)
	now, e3 := strconv.ParseInt(w[6], 10, 64)
	if e1 != nil || e2 != nil || e3 != nil || (w[2] != "count" && w[2] != "histogram") {
		return stats.Stat{}, 0, false
	}
	for _, f := range w[:4] {
		if f == "" || strings.ContainsAny(f, " ,|:") {
			return stats.Stat{}, 0, false
		}
	}
	return stats.Stat{Component: w[0], StatName: w[1], StatType: stats.StatType(w[2]), Unit: w[3], Value: v, Timestamp: ts}, now, true
}

func aggParseReadings(s string) ([]int64, bool) {
	l := []int64{}
	for _, p := range strings.Split(s, ",") {
		v, err := strconv.ParseInt(p, 10, 64)
		if err != nil {
			return nil, false
		}
		l = append(l, v)
	}
	return l, len(l) > 0
}

type aggOp struct {
	kind     string // stat | race | scan
	s        stats.Stat
	now      int64
	readings []int64
	words    []string
}

func aggregatorRun(c Case) (lines []string, outs []string) {
	emit := func(l, o string) { lines = append(lines, l); outs = append(outs, o) }
	if len(c.Lines) == 0 {
		return
	}
	w0 := strings.Fields(c.Lines[0])
	var win int64
	if len(w0) == 3 && w0[1] == "cfg" {
		win, _ = strconv.ParseInt(w0[2], 10, 64)
	}
	if win <= 0 {
		emit(c.Lines[0], "bad-op")
		return
	}
	ops := []aggOp{}
	outCap := 4096
	for _, l := range c.Lines[1:] {
		w := strings.Fields(l)
		bad := func() { ops = append(ops, aggOp{kind: "bad", words: []string{l}}) }
		switch {
		case len(w) == 3 && w[1] == "outcap":
			// harness-only line (not sent to the model: the model's reports do not depend on the consumer)
			if n, err := strconv.Atoi(w[2]); err == nil && n >= 1 && n <= 4096 {
				outCap = n
			}
		case len(w) == 9 && w[1] == "stat":
			if s, now, ok := aggParseStat(w[2:]); ok {
				ops = append(ops, aggOp{kind: "stat", s: s, now: now, words: w})
			} else {
				bad()
			}
		case len(w) == 10 && w[1] == "race":
			s, now, ok := aggParseStat(w[2:9])
			rd, ok2 := aggParseReadings(w[9])
			if ok && ok2 {
				ops = append(ops, aggOp{kind: "race", s: s, now: now, readings: rd, words: w})
			} else {
				bad()
			}
		case len(w) == 3 && w[1] == "scan":
			if rd, ok := aggParseReadings(w[2]); ok {
				ops = append(ops, aggOp{kind: "scan", readings: rd, words: w})
			} else {
				bad()
			}
		default:
			bad()
		}
	}
	emit(c.Lines[0], "ok")
	e := newAggEnv(win, outCap)
	defer e.stop()
	defer func() {
		if r := recover(); r != nil {
			emit("aggregator held", fmt.Sprintf("panic %v", r))
		}
	}()

	dummy := stats.Stat{Component: "verif", StatName: "sentinel", StatType: stats.Count, Unit: "count", Timestamp: 0}
	nextStat := func(i int) stats.Stat {
		for j := i; j < len(ops); j++ {
			if ops[j].kind == "stat" || ops[j].kind == "race" {
				return ops[j].s
			}
		}
		return dummy
	}
	checkLine := func(o aggOp) string {
		return "aggregator check " + strings.Join(o.words[2:9], " ")
	}
	implicitLine := func() {
		if e.implicit {
			e.implicit = false
			bs := aggBuckets(e.H)
			nows := make([]int64, len(bs))
			for i := range nows {
				nows[i] = aggLowNow
			}
			emit(aggScanLine(bs, nows), "ok "+aggShowStats(e.drain()))
		}
	}
	hang := func(what string) { emit("aggregator held", "hang "+what) }

	e.offer(nextStat(0))
	if !e.waitIngest() {
		hang("first-receive")
		return
	}
	for i, o := range ops {
		switch o.kind {
		case "bad":
			emit(o.words[0], "bad-op")
			return
		case "stat", "race":
			race := o.kind == "race" && len(e.H) > 0
			if race {
				if !e.waitReporter() {
					hang("reporter-never-scanned")
					return
				}
			} else if !e.flush() {
				hang("flush")
				return
			}
			implicitLine()
			before := e.H
			e.ingest <- o.now
			e.ingest = nil
			e.offer(nextStat(i + 1))
			scanLine, scanOut := "", ""
			base := before
			if race {
				bs := aggBuckets(before)
				used, rep, ok := e.plannedScan(o.readings)
				if !ok {
					hang("scan")
					return
				}
				reported := map[int64]bool{}
				for _, s := range rep {
					reported[s.Timestamp] = true
				}
				scanLine = aggScanLine(bs, aggAssign(bs, used, reported, win))
				scanOut = "ok " + aggShowStats(rep)
				if len(used) != len(bs) {
					scanOut += fmt.Sprintf(" calls=%d", len(used))
				}
				base = aggHeld{}
				for b, m := range before {
					if !reported[b] {
						base[b] = m
					}
				}
			}
			if !e.waitIngest() {
				hang("insert")
				return
			}
			if !e.quiesce() {
				hang("quiesce")
				return
			}
			chk, arm := aggDiff(base, e.H)
			emit(checkLine(o), chk)
			if o.kind == "race" && !race {
				emit("aggregator scan -", "ok -") // nothing held: the reporter's scan is a no-op
			}
			if scanLine != "" {
				emit(scanLine, scanOut)
			}
			if arm != "" {
				emit("aggregator add", arm)
			}
			implicitLine()
			emit("aggregator held", "ok "+aggShowHeld(e.H))
		case "scan":
			if len(e.H) == 0 {
				emit("aggregator scan -", "ok "+aggShowStats(e.drain()))
				emit("aggregator held", "ok "+aggShowHeld(e.H))
				continue
			}
			if !e.waitReporter() {
				hang("reporter-never-scanned")
				return
			}
			bs := aggBuckets(e.H)
			used, rep, ok := e.plannedScan(o.readings)
			if !ok {
				hang("scan")
				return
			}
			reported := map[int64]bool{}
			for _, s := range rep {
				reported[s.Timestamp] = true
			}
			so := "ok " + aggShowStats(rep)
			if len(used) != len(bs) {
				so += fmt.Sprintf(" calls=%d", len(used))
			}
			emit(aggScanLine(bs, aggAssign(bs, used, reported, win)), so)
			if !e.quiesce() {
				hang("quiesce")
				return
			}
			implicitLine()
			emit("aggregator held", "ok "+aggShowHeld(e.H))
		}
	}
	return
}

// ---- comparison: a scan's output is a multiset ----

func aggCompare(line, impl, model string) bool {
	w := strings.Fields(line)
	if len(w) < 2 || w[1] != "scan" {
		return false
	}
	canon := func(s string) string {
		f := strings.Fields(s)
		if len(f) != 2 || f[0] != "ok" {
			return s
		}
		if f[1] == "-" {
			return s
		}
		p := strings.Split(f[1], ",")
		sort.Strings(p)
		return "ok " + strings.Join(p, ",")
	}
	return canon(impl) == canon(model)
}

// ---- monitor: C19 judged on the implementation's own history by the Lean spec ----

func aggKeyCollision(lines []string) bool {
	ids := map[string]string{}
	for _, l := range lines {
		w := strings.Fields(l)
		if len(w) == 9 && w[1] == "check" {
			key := w[2] + w[3] + w[4] + w[5]
			id := strings.Join(w[2:6], "|")
			if prev, ok := ids[key]; ok && prev != id {
				return true
			}
			ids[key] = id
		}
	}
	return false
}

func aggregatorMonitor(lines, outs []string, m *Model) []Violation {
	if len(lines) == 0 || len(outs) < len(lines) {
		return nil
	}
	for _, o := range outs {
		if !strings.HasPrefix(o, "ok") {
			return nil // hang / panic / bad-op: reported by the comparison, no history to judge
		}
	}
	if aggKeyCollision(lines) {
		return nil // identities colliding under the separator-less key are outside C19 (DESIGN C19 note)
	}
	w0 := strings.Fields(lines[0])
	if len(w0) != 3 {
		return nil
	}
	send := func(l string) bool { o, err := m.Do(l); return err == nil && o == "ok" }
	if !send("aggspec reset " + w0[2]) {
		return nil
	}
	lastHeld := ""
	for i := 1; i < len(lines); i++ {
		w := strings.Fields(lines[i])
		o := strings.Fields(outs[i])
		switch w[1] {
		case "check":
			if len(o) == 2 && o[1] == "drop" {
				send("aggspec dropped " + strings.Join(w[2:9], " "))
			}
		case "add":
			// the statistic of the closest preceding check
			for j := i - 1; j > 0; j-- {
				wj := strings.Fields(lines[j])
				if wj[1] == "check" {
					send("aggspec added " + strings.Join(wj[2:8], " "))
					break
				}
			}
		case "scan":
			if len(o) >= 2 {
				send("aggspec scan " + o[1])
			}
		case "held":
			if len(o) >= 2 {
				lastHeld = o[1]
			}
		}
	}
	if lastHeld == "" {
		return nil
	}
	send("aggspec held " + lastHeld)
	v, err := m.Do("aggspec verdict")
	if err != nil || v == "ok" {
		return nil
	}
	return []Violation{{Property: "C19", What: strings.TrimPrefix(v, "viol "), Known: ""}}
}

// ---- generator ----

// every statistic identity pg-bifrost itself emits (lean/PgBifrost/Gen/Stats.lean `emitted`,
// regenerated from source by tools/factgen) …
var aggEmitted = [][4]string{
	{"batcher", "batch_closed_early", "count", "count"}, {"batcher", "batch_size", "histogram", "count"},
	{"batcher", "batch_write_wait", "histogram", "ms"}, {"batcher", "batches", "count", "count"},
	{"batcher", "dropped_msg_invalid", "count", "count"}, {"batcher", "dropped_too_big", "count", "count"},
	{"filter", "filtered", "count", "count"}, {"filter", "passed", "count", "count"},
	{"kafka_transport", "duration", "histogram", "ms"}, {"kafka_transport", "failure", "count", "count"},
	{"kafka_transport", "success", "count", "count"}, {"kafka_transport", "written", "count", "count"},
	{"kinesis_transport", "duration", "histogram", "ms"}, {"kinesis_transport", "failure", "count", "count"},
	{"kinesis_transport", "success", "count", "count"}, {"kinesis_transport", "written", "count", "count"},
	{"marshaller", "failure", "count", "count"}, {"marshaller", "success", "count", "count"},
	{"progress_tracker", "ledger_flushed", "histogram", "count"}, {"progress_tracker", "ledger_size", "histogram", "count"},
	{"rabbitmq_transport", "duration", "histogram", "ms"}, {"rabbitmq_transport", "failure", "count", "count"},
	{"rabbitmq_transport", "success", "count", "count"}, {"rabbitmq_transport", "written", "count", "count"},
	{"replication", "invalid_msg", "count", "count"}, {"replication", "received", "count", "count"},
	{"replication", "txns", "count", "count"}, {"replication", "txns_dup", "count", "count"},
	{"s3_transport", "batch_waited", "histogram", "ms"}, {"s3_transport", "duration", "histogram", "ms"},
	{"s3_transport", "failure", "count", "count"}, {"s3_transport", "success", "count", "count"},
	{"s3_transport", "written", "count", "count"},
}

// … plus synthetic non-colliding ones: 3 names × 2 types × 2 units
var aggSynthetic = func() [][4]string {
	l := [][4]string{}
	for _, n := range []string{"lat", "lat2", "q_len"} {
		for _, t := range []string{"count", "histogram"} {
			for _, u := range []string{"ms", "count"} {
				l = append(l, [4]string{"syn", n, t, u})
			}
		}
	}
	return l
}()

func init() {
	seen := map[string]bool{}
	for _, id := range append(append([][4]string{}, aggEmitted...), aggSynthetic...) {
		k := id[0] + id[1] + id[2] + id[3]
		if seen[k] {
			panic("aggregator generator: colliding identities in the pool: " + k)
		}
		seen[k] = true
	}
}

var aggValues = []int64{0, 0, 1, 1, 1, -1, 2, 3, 5, -7, 10, 100, 250, -250, 1 << 40, -(1 << 40), 999999}

func aggregatorGen(r *Rng, tier string) Case {
	sec := int64(time.Second)
	win := Pick(r, []int64{sec, 2 * sec, 10 * sec, 60 * sec, 60 * sec, 1500000000})
	base := win * int64(r.Range(3, 40))
	lines := []string{fmt.Sprintf("aggregator cfg %d", win)}
	if r.Chance(25) {
		// back-pressure: a small output channel and a consumer that only takes when it is full
		lines = append(lines, fmt.Sprintf("aggregator outcap %d", Pick(r, []int{1, 2, 3, 5, 8})))
	}
	// identities of this case
	nid := r.Range(1, 4)
	ids := [][4]string{}
	for i := 0; i < nid; i++ {
		if r.Chance(55) {
			ids = append(ids, Pick(r, aggEmitted))
		} else {
			ids = append(ids, Pick(r, aggSynthetic))
		}
	}
	if r.Chance(40) { // the same name as count and as histogram / with two units
		x := Pick(r, aggSynthetic[:4])
		y := Pick(r, aggSynthetic[:4])
		ids = append(ids, x, y)
	}
	bucket := func(i int) int64 { return base + int64(i)*win }
	edge := func(i int) int64 { return bucket(i) + win + aggGrace } // last reading at which bucket i is still open
	clk := base + r.Int63n(win)
	openBucket := func() int { // a bucket still open at the current clock (mostly)
		l := []int{}
		for i := 0; i < 4; i++ {
			if edge(i) >= clk {
				l = append(l, i)
			}
		}
		if len(l) == 0 || r.Chance(15) {
			return r.Intn(4)
		}
		if r.Chance(60) {
			return l[0]
		}
		return Pick(r, l)
	}
	ts := func() int64 {
		if r.Chance(3) { // negative timestamps: Go's division truncates toward zero
			return Pick(r, []int64{-1, -win + 1, -win, -win - 1})
		}
		return bucket(openBucket()) + Pick(r, []int64{0, 0, 1, win / 2, win - 1, win - 1})
	}
	step := func(c int64) int64 {
		if c < clk && !r.Chance(12) { // mostly monotone, sometimes the clock steps back
			c = clk
		}
		clk = c
		return c
	}
	statReading := func() int64 {
		switch k := r.Intn(100); {
		case k < 70:
			return clk
		case k < 85:
			return step(clk + r.Int63n(win/4+1))
		default:
			return step(edge(openBucket()) + Pick(r, []int64{-1, 0, 1}))
		}
	}
	scanReading := func() int64 {
		switch k := r.Intn(100); {
		case k < 60:
			return step(edge(openBucket()) + Pick(r, []int64{-1, 0, 1, 1}))
		case k < 75:
			return clk
		case k < 90:
			return step(clk + r.Int63n(win/2+1))
		default:
			return step(edge(r.Intn(4)) + Pick(r, []int64{-win / 2, win / 3, 2}))
		}
	}
	readings := func() string {
		n := 1
		if r.Chance(35) {
			n = r.Range(2, 4)
		}
		p := []string{}
		for i := 0; i < n; i++ {
			p = append(p, strconv.FormatInt(scanReading(), 10))
		}
		return strings.Join(p, ",")
	}
	nstats, nscans := 0, 0
	maxScans := r.Range(1, 3)
	nops := r.Range(3, 16)
	stat := func() string {
		id := Pick(r, ids)
		return fmt.Sprintf("%s %s %s %s %d %d %d", id[0], id[1], id[2], id[3], Pick(r, aggValues), ts(), statReading())
	}
	for i := 0; i < nops; i++ {
		k := r.Intn(100)
		switch {
		case k < 14 && nscans < maxScans && nstats > 0:
			lines = append(lines, "aggregator race "+stat()+" "+readings())
			nscans++
			nstats++
		case k < 30 && nscans < maxScans && nstats > 0:
			lines = append(lines, "aggregator scan "+readings())
			nscans++
		case nstats < 14:
			lines = append(lines, "aggregator stat "+stat())
			nstats++
		}
	}
	if r.Chance(55) { // final flush: everything expires
		lines = append(lines, fmt.Sprintf("aggregator scan %d", edge(3)+10*win))
	}
	return Case{lines}
}

func (r *Rng) Int63n(n int64) int64 {
	if n <= 0 {
		return 0
	}
	return int64(r.U64() % uint64(n))
}

func aggregatorStats(lines, outs []string, d map[string]int) {
	sawCheckPass := false
	inRace := false
	for i, l := range lines {
		if i >= len(outs) {
			break
		}
		w := strings.Fields(l)
		o := strings.Fields(outs[i])
		if len(w) < 2 || len(o) < 1 {
			continue
		}
		if (w[1] == "check" || w[1] == "add") && len(o) == 2 {
			d["agg_"+w[1]+"_"+o[1]]++
		}
		switch w[1] {
		case "check":
			sawCheckPass = len(o) == 2 && o[1] == "pass"
			inRace = false
			if len(w) == 9 && strings.HasPrefix(w[7], "-") {
				d["agg_negative_ts"]++
			}
		case "scan":
			if sawCheckPass {
				inRace = true
			}
			if len(o) == 2 && o[1] != "-" {
				n := len(strings.Split(o[1], ","))
				d["agg_scan_reporting"]++
				d["agg_reported_stats"] += n
				if inRace {
					d["agg_race_scan_reported"]++
				}
			}
			if len(w) == 3 && w[2] != "-" {
				rd := map[string]bool{}
				for _, p := range strings.Split(w[2], ",") {
					if q := strings.Split(p, ":"); len(q) == 2 {
						rd[q[1]] = true
					}
				}
				if len(rd) > 1 {
					d["agg_scan_distinct_readings"]++
				}
				if strings.Contains(w[2], strconv.FormatInt(aggLowNow, 10)) {
					d["agg_unplanned_scan"]++
				}
			}
		case "add":
			if inRace {
				d["agg_race_add_after_scan"]++
				if len(o) == 2 && o[1] == "newbucket" {
					d["agg_race_bucket_recreated"]++
				}
			}
			sawCheckPass, inRace = false, false
		}
	}
	if aggKeyCollision(lines) {
		d["agg_key_collision_case"]++
	}
}

func init() {
	register(&Component{Name: "aggregator", Gen: aggregatorGen, Run: aggregatorRun, Monitor: aggregatorMonitor,
		Compare: aggCompare, Stats: aggregatorStats, Quick: 500, Thorough: 6000,
		Nontrivial: func(lines, outs []string) bool {
			rep, hist := false, false
			for i, l := range lines {
				if i < len(outs) && strings.HasPrefix(l, "aggregator scan") && outs[i] != "ok -" {
					rep = true
					hist = hist || strings.Contains(outs[i], "_avg|")
				}
			}
			return rep && hist
		}})
}
