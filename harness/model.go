package main

import (
	"bufio"
	"fmt"
	"io"
	"os/exec"
	"strings"
)

// Model is the Lean driver (bfmodel) behind a pipe: one line in, one line out.
type Model struct {
	cmd *exec.Cmd
	in  io.WriteCloser
	out *bufio.Reader
	n   int
}

func StartModel(path string) (*Model, error) {
	cmd := exec.Command(path)
	in, err := cmd.StdinPipe()
	if err != nil {
		return nil, err
	}
	outp, err := cmd.StdoutPipe()
	if err != nil {
		return nil, err
	}
	if err := cmd.Start(); err != nil {
		return nil, err
	}
	m := &Model{cmd, in, bufio.NewReaderSize(outp, 1<<20), 0}
	if r, err := m.Do("ping"); err != nil || r != "pong" {
		return nil, fmt.Errorf("model driver did not answer ping: %q %v", r, err)
	}
	return m, nil
}

func (m *Model) Do(line string) (string, error) {
	if strings.ContainsAny(line, "\n\r") {
		return "", fmt.Errorf("newline in op line")
	}
	if _, err := io.WriteString(m.in, line+"\n"); err != nil {
		return "", err
	}
	m.n++
	s, err := m.out.ReadString('\n')
	if err != nil {
		return "", err
	}
	return strings.TrimRight(s, "\n"), nil
}

func (m *Model) Close() {
	m.in.Close()
	m.cmd.Wait()
}
