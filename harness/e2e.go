package main

// Component `e2e`: the REAL pg-bifrost binary (real main: cli.v1 flag/env parsing, runner wiring, all
// real stages, real conn.Manager over TCP, stdout transport) run offline against a fake PostgreSQL
// wire server. One op per case:
//
//   e2e run <mode> <kind> <list> <pm> <extra> <tok>...
//     mode  flags   options as `--name value`      flagseq  as `--name=value`
//           env     options as environment variables, lists joined with ","   envsp  joined with ", "
//     kind  wl|bl|wlr|blr|none  (--whitelist / --blacklist / --whitelist-regex / --blacklist-regex / no option)
//     list  hex,hex,…  the entries of that option ("-" with kind none)
//     pm    --partition-method value
//     extra - | noold | create | noold+create   (--no-marshal-old-value, --create-slot; as flags or as env like the rest)
//     tok   B<xid> | C:<relhex>:<INSERT|UPDATE|DELETE>:<id>:<bits> | E       (whole transactions)
//           bits = which regex entries match the relation (Go's regexp; filled in by Run)
//   The k-th token (1-based) is sent as XLogData with WalStart = e2eBaseLsn + 16k.
//
// Output = what the binary printed: `ok <relhex:OP:lsn:id,…>` sorted by lsn (or `binary-failed <why>`).
// The Lean side (`Driver/E2E.lean`) computes the expected line as Spec.Filter.userIntent applied to the
// scripted changes, so a difference means the binary forwards something the user's option does not
// permit or drops something it permits (C08), or prints a record that is not the rendering of the
// scripted change / prints it twice / loses it (C04).

import (
	"bufio"
	"bytes"
	"context"
	"encoding/binary"
	"encoding/json"
	"fmt"
	"net"
	"os"
	"os/exec"
	"path/filepath"
	"regexp"
	"sort"
	"strconv"
	"strings"
	"sync"
	"sync/atomic"
	"syscall"
	"time"

	"github.com/jackc/pgx/v5/pgproto3"
)

const e2eBaseLsn = uint64(0x1000000)

// ---------------------------------------------------------------- the binary under test

var (
	e2eBinOnce sync.Once
	e2eBinPath string
	e2eBinErr  string
	e2eBinFile *os.File // keeps the (already unlinked) executable alive for the life of this process
)

// e2eBinary returns the path of the pg-bifrost executable: $VERIF_PGBIFROST_BIN, or a build of
// $VERIF_REPO (default /repo) made once per process. The build goes to a fresh temp dir which is
// removed straight away: the executable is kept open and run through /proc/<pid>/fd/<n>, so nothing is
// left in /tmp however this process ends.
func e2eBinary() (string, string) {
	e2eBinOnce.Do(func() {
		if p := os.Getenv("VERIF_PGBIFROST_BIN"); p != "" {
			if _, err := os.Stat(p); err != nil {
				e2eBinErr = "VERIF_PGBIFROST_BIN: " + err.Error()
			}
			e2eBinPath = p
			return
		}
		repo := os.Getenv("VERIF_REPO")
		if repo == "" {
			repo = "/repo"
		}
		dir, err := os.MkdirTemp("", "bf-e2e-bin-")
		if err != nil {
			e2eBinErr = "mkdtemp: " + err.Error()
			return
		}
		defer os.RemoveAll(dir)
		out := filepath.Join(dir, "pg-bifrost")
		ctx, cancel := context.WithTimeout(context.Background(), 15*time.Minute)
		defer cancel()
		cmd := exec.CommandContext(ctx, "go", "build", "-o", out, "./main")
		cmd.Dir = repo
		cmd.Env = append(os.Environ(), "GOFLAGS=-mod=mod", "GOPROXY=off", "GOSUMDB=off", "GOTOOLCHAIN=local", "CGO_ENABLED=0")
		if b, err := cmd.CombinedOutput(); err != nil {
			e2eBinErr = "go build: " + firstLine(string(b)+" "+err.Error())
			return
		}
		f, err := os.Open(out)
		if err != nil {
			e2eBinErr = "open built binary: " + err.Error()
			return
		}
		proc := fmt.Sprintf("/proc/%d/fd/%d", os.Getpid(), f.Fd())
		if _, err := os.Stat(proc); err == nil {
			e2eBinFile, e2eBinPath = f, proc
			return // dir is removed by the deferred RemoveAll; the open descriptor keeps the inode
		}
		// no /proc: keep a copy outside the dir being removed and clean it up on the usual signals
		f.Close()
		keep, err := os.CreateTemp("", "bf-e2e-bin-*")
		if err != nil {
			e2eBinErr = "mktemp: " + err.Error()
			return
		}
		keep.Close()
		if err := os.Rename(out, keep.Name()); err != nil {
			os.Remove(keep.Name())
			e2eBinErr = "rename: " + err.Error()
			return
		}
		e2eBinPath = keep.Name()
	})
	return e2eBinPath, e2eBinErr
}

func firstLine(s string) string {
	s = strings.TrimSpace(s)
	if i := strings.IndexAny(s, "\r\n"); i >= 0 {
		s = s[:i]
	}
	if len(s) > 200 {
		s = s[:200]
	}
	return s
}

// ---------------------------------------------------------------- case = one op line

type e2eChange struct {
	rel, op string
	id      string
	lsn     uint64
}

type e2eMsg struct {
	lsn    uint64
	data   string
	commit bool
}

type e2eCase struct {
	mode, kind string
	list       []string
	pm         string
	noOld      bool
	createSlot bool
	toks       []string
	msgs       []e2eMsg
	changes    []e2eChange
}

var e2eKinds = map[string]string{"wl": "whitelist", "bl": "blacklist", "wlr": "whitelist-regex", "blr": "blacklist-regex"}
var e2eEnvNames = map[string]string{"wl": "WHITELIST", "bl": "BLACKLIST", "wlr": "WHITELIST_REGEX", "blr": "BLACKLIST_REGEX"}
var e2eDigits = regexp.MustCompile(`^[0-9]{1,9}$`)
var e2eHex = regexp.MustCompile(`^(e|([0-9a-f][0-9a-f])+)$`)

func e2eParse(line string) (*e2eCase, bool) {
	w := strings.Fields(line)
	if len(w) < 7 || w[0] != "e2e" || w[1] != "run" {
		return nil, false
	}
	c := &e2eCase{mode: w[2], kind: w[3], pm: w[5], toks: w[7:]}
	switch c.mode {
	case "flags", "flagseq", "env", "envsp":
	default:
		return nil, false
	}
	switch w[6] {
	case "-":
	case "noold":
		c.noOld = true
	case "create":
		c.createSlot = true
	case "noold+create":
		c.noOld, c.createSlot = true, true
	default:
		return nil, false
	}
	switch c.pm {
	case "none", "tablename", "transaction", "transaction-bucket":
	default:
		return nil, false
	}
	if w[4] != "-" {
		for _, h := range strings.Split(w[4], ",") {
			if !e2eHex.MatchString(h) {
				return nil, false
			}
		}
	}
	c.list = unhexList(w[4])
	if _, ok := e2eKinds[c.kind]; !ok && c.kind != "none" {
		return nil, false
	}
	if (c.kind == "none") != (len(c.list) == 0) {
		return nil, false
	}
	open, xid := false, ""
	for k, t := range c.toks {
		lsn := e2eBaseLsn + 16*uint64(k+1)
		switch {
		case t == "E" && open:
			open = false
			c.msgs = append(c.msgs, e2eMsg{lsn, "COMMIT " + xid, true})
		case strings.HasPrefix(t, "B") && !open && e2eDigits.MatchString(t[1:]):
			open, xid = true, t[1:]
			c.msgs = append(c.msgs, e2eMsg{lsn, "BEGIN " + xid, false})
		case strings.HasPrefix(t, "C:") && open:
			p := strings.Split(t, ":")
			if len(p) != 5 || !e2eHex.MatchString(p[1]) || !e2eDigits.MatchString(p[3]) || strings.Trim(p[4], "01") != "" || p[4] == "" {
				return nil, false
			}
			ch := e2eChange{rel: unhexs(p[1]), op: p[2], id: p[3], lsn: lsn}
			var data string
			switch ch.op {
			case "INSERT", "UPDATE":
				// the text value carries printf verbs and a backslash: a sink that formats a record instead of writing it
				// must not change it
				data = fmt.Sprintf("table %s: %s: id[integer]:%s v[text]:'row %s 100%% %%d %%s %%v \\n'", ch.rel, ch.op, ch.id, ch.id)
			case "DELETE":
				data = fmt.Sprintf("table %s: DELETE: id[integer]:%s", ch.rel, ch.id)
			default:
				return nil, false
			}
			c.changes = append(c.changes, ch)
			c.msgs = append(c.msgs, e2eMsg{lsn, data, false})
		default:
			return nil, false
		}
	}
	if open {
		return nil, false
	}
	return c, true
}

// withBits rewrites the change tokens with the match bits of the case's regex list (Go's regexp).
func (c *e2eCase) withBits(line string) string {
	w := strings.Fields(line)
	for i := 7; i < len(w); i++ {
		if strings.HasPrefix(w[i], "C:") {
			p := strings.Split(w[i], ":")
			pats := []string{}
			if c.kind == "wlr" || c.kind == "blr" {
				pats = c.list
			}
			p[4] = matchBits(pats, unhexs(p[1]))
			w[i] = strings.Join(p, ":")
		}
	}
	return strings.Join(w, " ")
}

func (c *e2eCase) permitted(rel string) bool {
	var ls [4][]string
	switch c.kind {
	case "wl":
		ls[0] = c.list
	case "bl":
		ls[1] = c.list
	case "wlr":
		ls[2] = c.list
	case "blr":
		ls[3] = c.list
	}
	return userIntentGo(ls[0], ls[1], ls[2], ls[3], rel)
}

// command line and environment of the binary for this case
func (c *e2eCase) invocation(port int) (args, env []string) {
	env = []string{"PATH=/usr/bin:/bin", "HOME=/nonexistent", "TZ=UTC"}
	g := [][2]string{{"host", "127.0.0.1"}, {"port", strconv.Itoa(port)}, {"user", "repl"}, {"password", "secret"}, {"dbname", "appdb"}, {"slot", "e2e_slot"}}
	genv := []string{"PGHOST", "PGPORT", "PGUSER", "PGPASSWORD", "PGDATABASE", "REPLICATION_SLOT"}
	r := [][2]string{{"workers", "1"}, {"batch-flush-update-age", "40"}, {"batch-flush-max-age", "80"}, {"batcher-tick-rate", "10"}, {"partition-method", c.pm}}
	renv := []string{"WORKERS", "BATCH_FLUSH_UPDATE_AGE", "BATCH_FLUSH_MAX_AGE", "BATCHER_TICK_RATE", "PARTITION_METHOD"}
	isEnv := c.mode == "env" || c.mode == "envsp"
	put := func(name, val string) {
		if c.mode == "flagseq" {
			args = append(args, "--"+name+"="+val)
		} else {
			args = append(args, "--"+name, val)
		}
	}
	if isEnv {
		for i, kv := range g {
			env = append(env, genv[i]+"="+kv[1])
		}
		args = append(args, "replicate")
		for i, kv := range r {
			env = append(env, renv[i]+"="+kv[1])
		}
		if c.noOld {
			env = append(env, "NO_MARSHAL_OLD_VALUE=true")
		}
		if c.createSlot {
			env = append(env, "CREATE_SLOT=true")
		}
		if c.kind != "none" {
			sep := ","
			if c.mode == "envsp" {
				sep = ", "
			}
			env = append(env, e2eEnvNames[c.kind]+"="+strings.Join(c.list, sep))
		}
	} else {
		for _, kv := range g {
			put(kv[0], kv[1])
		}
		args = append(args, "replicate")
		for _, kv := range r {
			put(kv[0], kv[1])
		}
		if c.createSlot {
			args = append(args, "--create-slot")
		}
		if c.noOld {
			args = append(args, "--no-marshal-old-value")
		}
		if c.kind != "none" {
			for _, e := range c.list {
				put(e2eKinds[c.kind], e)
			}
		}
	}
	args = append(args, "stdout")
	return args, env
}

// ---------------------------------------------------------------- fake PostgreSQL wire server

var e2eStatusUpdates, e2eConnections, e2eReplStarts int64

type fakePG struct {
	ln      net.Listener
	msgs    []e2eMsg
	mu      sync.Mutex
	conns   []net.Conn
	sentAll time.Time // first time a connection had every scripted message written
	starts  []uint64  // LSN of every START_REPLICATION received
	noStream bool     // connmgr: answer START_REPLICATION with CopyBoth and then just keep the connection
	nstatus  int      // standby status updates that arrived on the wire (noStream mode)
	closed  chan struct{}
	wg      sync.WaitGroup
}

func startFakePG(msgs []e2eMsg) (*fakePG, error) {
	ln, err := net.Listen("tcp", "127.0.0.1:0")
	if err != nil {
		return nil, err
	}
	s := &fakePG{ln: ln, msgs: msgs, closed: make(chan struct{})}
	s.wg.Add(1)
	go func() {
		defer s.wg.Done()
		for {
			c, err := ln.Accept()
			if err != nil {
				return
			}
			s.mu.Lock()
			s.conns = append(s.conns, c)
			s.mu.Unlock()
			atomic.AddInt64(&e2eConnections, 1)
			s.wg.Add(1)
			go func() {
				defer s.wg.Done()
				defer c.Close()
				defer func() { recover() }()
				c.SetDeadline(time.Now().Add(12 * time.Second))
				s.handle(c)
			}()
		}
	}()
	return s, nil
}

func (s *fakePG) port() int { return s.ln.Addr().(*net.TCPAddr).Port }

func (s *fakePG) sentAt() time.Time {
	s.mu.Lock()
	defer s.mu.Unlock()
	return s.sentAll
}

func (s *fakePG) Close() {
	close(s.closed)
	s.ln.Close()
	s.mu.Lock()
	for _, c := range s.conns {
		c.Close()
	}
	s.mu.Unlock()
	s.wg.Wait()
}

func pgNow() uint64 {
	return uint64(time.Now().UnixMicro() - 946684800*1000000)
}

func keepalive(walEnd uint64, reply bool) *pgproto3.CopyData {
	b := make([]byte, 18)
	b[0] = 'k'
	binary.BigEndian.PutUint64(b[1:], walEnd)
	binary.BigEndian.PutUint64(b[9:], pgNow())
	if reply {
		b[17] = 1
	}
	return &pgproto3.CopyData{Data: b}
}

func xlogData(m e2eMsg) *pgproto3.CopyData {
	b := make([]byte, 25, 25+len(m.data))
	b[0] = 'w'
	binary.BigEndian.PutUint64(b[1:], m.lsn)
	binary.BigEndian.PutUint64(b[9:], m.lsn)
	binary.BigEndian.PutUint64(b[17:], pgNow())
	return &pgproto3.CopyData{Data: append(b, m.data...)}
}

func textRow(be *pgproto3.Backend, tag string, cols []string, vals []string) {
	fd := []pgproto3.FieldDescription{}
	for _, c := range cols {
		fd = append(fd, pgproto3.FieldDescription{Name: []byte(c), DataTypeOID: 25, DataTypeSize: -1, TypeModifier: -1})
	}
	row := [][]byte{}
	for _, v := range vals {
		row = append(row, []byte(v))
	}
	be.Send(&pgproto3.RowDescription{Fields: fd})
	be.Send(&pgproto3.DataRow{Values: row})
	be.Send(&pgproto3.CommandComplete{CommandTag: []byte(tag)})
	be.Send(&pgproto3.ReadyForQuery{TxStatus: 'I'})
}

var e2eStartRe = regexp.MustCompile(`(?i)LOGICAL\s+([0-9A-F]+)/([0-9A-F]+)`)

func (s *fakePG) handle(c net.Conn) {
	be := pgproto3.NewBackend(c, c)
startup:
	for {
		m, err := be.ReceiveStartupMessage()
		if err != nil {
			return
		}
		switch m.(type) {
		case *pgproto3.SSLRequest, *pgproto3.GSSEncRequest:
			if _, err := c.Write([]byte{'N'}); err != nil {
				return
			}
		case *pgproto3.StartupMessage:
			break startup
		default:
			return
		}
	}
	be.Send(&pgproto3.AuthenticationOk{})
	for _, kv := range [][2]string{{"server_version", "14.9"}, {"server_encoding", "UTF8"}, {"client_encoding", "UTF8"}, {"standard_conforming_strings", "on"}, {"integer_datetimes", "on"}} {
		be.Send(&pgproto3.ParameterStatus{Name: kv[0], Value: kv[1]})
	}
	be.Send(&pgproto3.BackendKeyData{ProcessID: 4242, SecretKey: 1})
	be.Send(&pgproto3.ReadyForQuery{TxStatus: 'I'})
	if be.Flush() != nil {
		return
	}
	last := e2eBaseLsn
	if n := len(s.msgs); n > 0 {
		last = s.msgs[n-1].lsn
	}
	for {
		m, err := be.Receive()
		if err != nil {
			return
		}
		q, ok := m.(*pgproto3.Query)
		if !ok {
			if _, term := m.(*pgproto3.Terminate); term {
				return
			}
			continue
		}
		up := strings.ToUpper(strings.TrimSpace(q.String))
		switch {
		case strings.HasPrefix(up, "IDENTIFY_SYSTEM"):
			textRow(be, "IDENTIFY_SYSTEM", []string{"systemid", "timeline", "xlogpos", "dbname"},
				[]string{"7000000000000000001", "1", fmt.Sprintf("%X/%X", uint32(last>>32), uint32(last)), "appdb"})
		case strings.HasPrefix(up, "CREATE_REPLICATION_SLOT"):
			textRow(be, "CREATE_REPLICATION_SLOT", []string{"slot_name", "consistent_point", "snapshot_name", "output_plugin"},
				[]string{"e2e_slot", fmt.Sprintf("%X/%X", uint32(e2eBaseLsn>>32), uint32(e2eBaseLsn)), "", "test_decoding"})
		case strings.HasPrefix(up, "START_REPLICATION"):
			start := uint64(0)
			if g := e2eStartRe.FindStringSubmatch(up); g != nil {
				hi, _ := strconv.ParseUint(g[1], 16, 32)
				lo, _ := strconv.ParseUint(g[2], 16, 32)
				start = hi<<32 | lo
			}
			atomic.AddInt64(&e2eReplStarts, 1)
			s.mu.Lock()
			s.starts = append(s.starts, start)
			s.mu.Unlock()
			be.Send(&pgproto3.CopyBothResponse{OverallFormat: 0})
			if s.noStream {
				if be.Flush() != nil {
					return
				}
				for { // hold the connection until the client or the harness closes it
					fm, err := be.Receive()
					if err != nil {
						return
					}
					if d, ok := fm.(*pgproto3.CopyData); ok && len(d.Data) == 34 && d.Data[0] == 'r' {
						s.mu.Lock()
						s.nstatus++
						s.mu.Unlock()
					}
				}
			}
			s.stream(be, c, start)
			return
		default:
			be.Send(&pgproto3.CommandComplete{CommandTag: []byte("SELECT 0")})
			be.Send(&pgproto3.ReadyForQuery{TxStatus: 'I'})
		}
		if be.Flush() != nil {
			return
		}
	}
}

// stream serves one START_REPLICATION: whole transactions whose COMMIT lies after `start`.
func (s *fakePG) stream(be *pgproto3.Backend, c net.Conn, start uint64) {
	be.Send(keepalive(e2eBaseLsn, false))
	txn := []e2eMsg{}
	for _, m := range s.msgs {
		txn = append(txn, m)
		if m.commit {
			if m.lsn > start {
				for _, t := range txn {
					be.Send(xlogData(t))
				}
			}
			txn = txn[:0]
		}
	}
	if be.Flush() != nil {
		return
	}
	s.mu.Lock()
	if s.sentAll.IsZero() {
		s.sentAll = time.Now()
	}
	s.mu.Unlock()
	// frontend messages: standby status updates ('r'), CopyDone, Terminate
	gone := make(chan struct{})
	s.wg.Add(1)
	go func() {
		defer s.wg.Done()
		defer close(gone)
		defer func() { recover() }()
		for {
			m, err := be.Receive()
			if err != nil {
				return
			}
			switch d := m.(type) {
			case *pgproto3.CopyData:
				if len(d.Data) == 34 && d.Data[0] == 'r' {
					atomic.AddInt64(&e2eStatusUpdates, 1)
				}
			case *pgproto3.CopyDone, *pgproto3.Terminate:
				return
			}
		}
	}()
	last := e2eBaseLsn
	if n := len(s.msgs); n > 0 {
		last = s.msgs[n-1].lsn
	}
	tick := time.NewTicker(200 * time.Millisecond)
	defer tick.Stop()
	for {
		select {
		case <-gone:
			return
		case <-s.closed:
			return
		case <-tick.C:
			be.Send(keepalive(last, true))
			if be.Flush() != nil {
				return
			}
		}
	}
}

// ---------------------------------------------------------------- run one case on the real binary

var e2eRecordRe = regexp.MustCompile(`^(\d+): (\{.*\})\s*$`)

type e2eEntry struct {
	Lsn       string                                  `json:"lsn"`
	Table     *string                                 `json:"table"`
	Operation *string                                 `json:"operation"`
	Columns   map[string]map[string]map[string]string `json:"columns"`
}

// canonical item of one printed record: relhex:OP:lsn:id
func e2eItem(js string) (uint64, string) {
	var e e2eEntry
	if err := json.Unmarshal([]byte(js), &e); err != nil || e.Table == nil || e.Operation == nil {
		return 0, "badjson:" + hexs(js) + ":0:0"
	}
	lsn := uint64(0)
	if p := strings.Split(e.Lsn, "/"); len(p) == 2 {
		hi, e1 := strconv.ParseUint(p[0], 16, 32)
		lo, e2 := strconv.ParseUint(p[1], 16, 32)
		if e1 == nil && e2 == nil {
			lsn = hi<<32 | lo
		}
	}
	op := *e.Operation
	if op == "" || strings.Trim(op, "ABCDEFGHIJKLMNOPQRSTUVWXYZ") != "" {
		op = "x" + hexs(op)
	}
	side := "new"
	if *e.Operation == "DELETE" {
		side = "old"
	}
	id := "none"
	if v, ok := e.Columns["id"][side]["v"]; ok {
		id = v
		if !e2eDigits.MatchString(id) {
			id = "x" + hexs(id)
		}
	}
	if v, ok := e.Columns["v"][side]["v"]; ok && e2eDigits.MatchString(id) && v != "row "+id+" 100% %d %s %v \\n" {
		id = "x" + hexs("v="+v) // the text column is not what was sent
	}
	return lsn, fmt.Sprintf("%s:%s:%d:%s", hexs(*e.Table), op, lsn, id)
}

func e2eExec(c *e2eCase) string {
	bin, berr := e2eBinary()
	if berr != "" {
		return "binary-failed " + berr
	}
	srv, err := startFakePG(c.msgs)
	if err != nil {
		return "binary-failed listen: " + err.Error()
	}
	defer srv.Close()

	args, env := c.invocation(srv.port())
	ctx, cancel := context.WithTimeout(context.Background(), 9*time.Second)
	defer cancel()
	cmd := exec.CommandContext(ctx, bin, args...)
	cmd.Env = env
	cmd.Dir = "/"
	// own process group, so that anything the binary might fork dies with it; killed with this process
	cmd.SysProcAttr = &syscall.SysProcAttr{Pdeathsig: syscall.SIGKILL, Setpgid: true}
	cmd.Cancel = func() error { return e2eKillGroup(cmd) }
	pr, pw, err := os.Pipe()
	if err != nil {
		return "binary-failed pipe: " + err.Error()
	}
	defer pr.Close()
	var stderr bytes.Buffer
	cmd.Stdout = pw
	errw := &limitedWriter{buf: &stderr, max: 1 << 16}
	cmd.Stderr = errw
	if err := cmd.Start(); err != nil {
		pw.Close()
		return "binary-failed start: " + firstLine(err.Error())
	}
	pw.Close()
	exited := make(chan struct{})
	go func() { cmd.Wait(); close(exited) }()
	killed := false
	defer func() {
		if !killed {
			e2eKillGroup(cmd)
		}
		select {
		case <-exited:
		case <-time.After(2 * time.Second):
		}
	}()

	var recMu sync.Mutex
	recList := []string{}
	lastRec := time.Now()
	firstErrLog := ""
	readerDone := make(chan struct{})
	go func() {
		defer close(readerDone)
		sc := bufio.NewScanner(pr)
		sc.Buffer(make([]byte, 64*1024), 4*1024*1024)
		for sc.Scan() {
			l := sc.Text()
			recMu.Lock()
			if g := e2eRecordRe.FindStringSubmatch(l); g != nil {
				recList = append(recList, g[2])
				lastRec = time.Now()
			} else if firstErrLog == "" && (strings.Contains(l, "level=fatal") || strings.Contains(l, "level=error") || strings.Contains(l, "level=panic")) {
				firstErrLog = l
			}
			recMu.Unlock()
		}
	}()
	count := func() (int, time.Time) {
		recMu.Lock()
		defer recMu.Unlock()
		return len(recList), lastRec
	}

	expected := 0
	for _, ch := range c.changes {
		if c.permitted(ch.rel) {
			expected++
		}
	}
	deadline := time.After(6 * time.Second)
	tick := time.NewTicker(25 * time.Millisecond)
	defer tick.Stop()
	selfExit := false
wait:
	for {
		select {
		case <-exited:
			selfExit = true
			break wait
		case <-deadline:
			break wait
		case <-tick.C:
			n, last := count()
			sa := srv.sentAt()
			if n >= expected && !sa.IsZero() && time.Since(sa) >= 500*time.Millisecond && time.Since(last) >= 300*time.Millisecond {
				break wait
			}
		}
	}
	if !selfExit {
		cmd.Process.Signal(syscall.SIGTERM)
		select {
		case <-exited:
		case <-time.After(300 * time.Millisecond):
		}
	}
	e2eKillGroup(cmd)
	killed = true
	select {
	case <-exited:
	case <-time.After(2 * time.Second):
	}
	// the write end is closed once the process is gone; read what is left, but never wait for long
	select {
	case <-readerDone:
	case <-time.After(500 * time.Millisecond):
		pr.Close()
		<-readerDone
	}
	type rec struct {
		lsn  uint64
		item string
	}
	got := []rec{}
	recMu.Lock()
	for _, js := range recList {
		l, it := e2eItem(js)
		got = append(got, rec{l, it})
	}
	recMu.Unlock()
	if selfExit && len(got) == 0 {
		why := firstLine(errw.String())
		if why == "" {
			recMu.Lock()
			why = firstLine(firstErrLog)
			recMu.Unlock()
		}
		if why == "" {
			why = "exited: " + cmd.ProcessState.String()
		}
		return "binary-failed " + strings.Join(strings.Fields(why), " ")
	}
	sort.SliceStable(got, func(i, j int) bool {
		if got[i].lsn != got[j].lsn {
			return got[i].lsn < got[j].lsn
		}
		return got[i].item < got[j].item
	})
	items := []string{}
	for _, g := range got {
		items = append(items, g.item)
	}
	return "ok " + joinList(items, ",")
}

func e2eKillGroup(cmd *exec.Cmd) error {
	if cmd.Process == nil {
		return nil
	}
	syscall.Kill(-cmd.Process.Pid, syscall.SIGKILL) // the group (pgid = pid because of Setpgid)
	return cmd.Process.Kill()
}

type limitedWriter struct {
	mu  sync.Mutex
	buf *bytes.Buffer
	max int
}

func (w *limitedWriter) String() string {
	w.mu.Lock()
	defer w.mu.Unlock()
	return w.buf.String()
}

func (w *limitedWriter) Write(p []byte) (int, error) {
	w.mu.Lock()
	defer w.mu.Unlock()
	if room := w.max - w.buf.Len(); room > 0 {
		if len(p) > room {
			w.buf.Write(p[:room])
		} else {
			w.buf.Write(p)
		}
	}
	return len(p), nil
}

func e2eRun(c Case) ([]string, []string) {
	lines, outs := []string{}, []string{}
	for _, l := range c.Lines {
		cs, ok := e2eParse(l)
		if !ok {
			lines = append(lines, l)
			outs = append(outs, "bad-op")
			continue
		}
		lines = append(lines, cs.withBits(l))
		outs = append(outs, e2eExec(cs))
	}
	return lines, outs
}

// ---------------------------------------------------------------- generator

var e2eRelPool = []string{"public.a", "public.b", "public.ab", "s.t", "public.\"T x\"", "\"My S\".\"t:1\"", "public.customers", "audit.log_2024"}
var e2ePatPool = []string{"^public\\.a$", "public\\..*", "^s\\.", "a", "^audit\\.log_\\d+$", "T x", "b$", "^$", ".*", "^public\\.(a|b)$", "(?i)^PUBLIC\\.", "^\"My S\"\\.", "\\.t$"}

func e2eGen(r *Rng, tier string) Case {
	mode := Pick(r, []string{"flags", "flags", "flagseq", "env", "env", "envsp"})
	kind := Pick(r, []string{"wl", "bl", "wlr", "blr", "wl", "bl", "wlr", "blr", "none"})
	// the tables of this case: 2-4 distinct relations. With options given as flags an entry may contain
	// a comma (a quoted identifier such as public."a,b"); through the environment it cannot (cli.v1
	// splits environment values on commas), so those modes keep to comma-free names.
	pool := e2eRelPool
	if mode == "flags" || mode == "flagseq" {
		pool = append(append([]string{}, e2eRelPool...), "public.\"a,b\"", "public.\"a,b\"", "s.\"x, y\"")
	}
	tables := []string{}
	for n := r.Range(2, 4); len(tables) < n; {
		t := Pick(r, pool)
		dup := false
		for _, x := range tables {
			dup = dup || x == t
		}
		if !dup {
			tables = append(tables, t)
		}
	}
	list := []string{}
	if kind != "none" {
		for n := r.Range(1, 3); len(list) < n; {
			switch {
			case kind == "wlr" || kind == "blr":
				list = append(list, Pick(r, e2ePatPool))
			case r.Chance(75):
				list = append(list, Pick(r, tables))
			default:
				list = append(list, Pick(r, pool))
			}
		}
	}
	pm := Pick(r, []string{"none", "none", "tablename", "transaction", "transaction-bucket"})
	noOld := r.Intn(4) == 0
	toks := []string{}
	xid := r.Range(500, 900)
	for t := r.Range(1, 4); t > 0; t-- {
		toks = append(toks, fmt.Sprintf("B%d", xid))
		xid += r.Range(1, 5)
		for n := r.Range(0, 5); n > 0; n-- {
			toks = append(toks, fmt.Sprintf("C:%s:%s:%d:0", hexs(Pick(r, tables)), Pick(r, []string{"INSERT", "INSERT", "UPDATE", "DELETE"}), r.Range(1, 9999)))
		}
		toks = append(toks, "E")
	}
	extra := []string{}
	if noOld {
		extra = append(extra, "noold")
	}
	if r.Intn(5) == 0 {
		extra = append(extra, "create")
	}
	return Case{[]string{fmt.Sprintf("e2e run %s %s %s %s %s %s", mode, kind, hexList(list), pm, joinList(extra, "+"), strings.Join(toks, " "))}}
}

// ---------------------------------------------------------------- monitor: C08 (and C04 for record content)

func e2eParseItems(out string) ([][4]string, bool) {
	if !strings.HasPrefix(out, "ok ") {
		return nil, false
	}
	res := [][4]string{}
	body := strings.TrimPrefix(out, "ok ")
	if body == "-" {
		return res, true
	}
	for _, it := range strings.Split(body, ",") {
		p := strings.Split(it, ":")
		if len(p) != 4 {
			return nil, false
		}
		res = append(res, [4]string{p[0], p[1], p[2], p[3]})
	}
	return res, true
}

func e2eMonitor(lines, outs []string, m *Model) []Violation {
	var vs []Violation
	for i, l := range lines {
		if i >= len(outs) {
			break
		}
		exp, err := m.Do(l)
		if err != nil || exp == outs[i] {
			continue
		}
		obs, ok1 := e2eParseItems(outs[i])
		want, ok2 := e2eParseItems(exp)
		cs, ok3 := e2eParse(l)
		if !ok1 || !ok2 || !ok3 {
			continue // binary-failed / bad-op: reported as a mismatch by the runner
		}
		opt := "no filter option"
		if cs.kind != "none" {
			opt = fmt.Sprintf("--%s %q", e2eKinds[cs.kind], cs.list)
			if cs.mode == "env" || cs.mode == "envsp" {
				sep := map[string]string{"env": ",", "envsp": ", "}[cs.mode]
				opt = fmt.Sprintf("%s=%q in the environment", e2eEnvNames[cs.kind], strings.Join(cs.list, sep))
			}
		}
		byLsn := map[string]e2eChange{}
		for _, ch := range cs.changes {
			byLsn[strconv.FormatUint(ch.lsn, 10)] = ch
		}
		permitted := map[string]bool{}
		for _, w := range want {
			permitted[w[2]] = true
		}
		// record content / exactly once
		seen := map[string]int{}
		relSeen := map[string]bool{}
		var c04 []string
		for _, o := range obs {
			ch, ok := byLsn[o[2]]
			if !ok || hexs(ch.rel) != o[0] || ch.op != o[1] || ch.id != o[3] {
				c04 = append(c04, fmt.Sprintf("printed record (table %q, %s, lsn %s, id %s) is not the rendering of a scripted change", unhexs(o[0]), o[1], o[2], o[3]))
				continue
			}
			seen[o[2]]++
			relSeen[ch.rel] = true
			if seen[o[2]] == 2 {
				c04 = append(c04, fmt.Sprintf("change lsn %s of %s printed more than once", o[2], ch.rel))
			}
		}
		var c08 []string
		for _, ch := range cs.changes {
			k := strconv.FormatUint(ch.lsn, 10)
			switch {
			case seen[k] > 0 && !permitted[k]:
				c08 = append(c08, fmt.Sprintf("forwards %s of %s (lsn %s) which the option does not permit", ch.op, ch.rel, k))
			case seen[k] == 0 && permitted[k] && (cs.kind == "none" || relSeen[ch.rel]):
				c04 = append(c04, fmt.Sprintf("permitted %s of %s (lsn %s) never reached stdout although the table is forwarded", ch.op, ch.rel, k))
			case seen[k] == 0 && permitted[k]:
				c08 = append(c08, fmt.Sprintf("drops %s of %s (lsn %s) which the option permits", ch.op, ch.rel, k))
			}
		}
		if len(c08) > 0 {
			vs = append(vs, Violation{"C08", fmt.Sprintf("pg-bifrost replicate with %s: %s [%d such changes]", opt, c08[0], len(c08)), ""})
		}
		if len(c04) > 0 {
			vs = append(vs, Violation{"C04", fmt.Sprintf("pg-bifrost replicate with %s: %s [%d such records]", opt, c04[0], len(c04)), ""})
		}
	}
	return vs
}

func init() {
	register(&Component{Name: "e2e", Gen: e2eGen, Run: e2eRun, Monitor: e2eMonitor, Quick: 24, Thorough: 300, Serial: false,
		// differences in what was printed are property violations and reported by the monitor;
		// anything else (binary-failed, bad-op) is a plain mismatch
		Compare: func(line, impl, model string) bool {
			return strings.HasPrefix(impl, "ok ") && strings.HasPrefix(model, "ok ")
		},
		Valid: func(lines []string) bool {
			for _, l := range lines {
				if _, ok := e2eParse(l); !ok {
					return false
				}
			}
			return len(lines) > 0
		},
		Nontrivial: func(lines, outs []string) bool {
			for i, l := range lines {
				cs, ok := e2eParse(l)
				if !ok || i >= len(outs) {
					continue
				}
				obs, ok := e2eParseItems(outs[i])
				if ok && len(obs) > 0 && len(obs) < len(cs.changes) {
					return true
				}
			}
			return false
		},
		Stats: func(lines, outs []string, d map[string]int) {
			for i, l := range lines {
				cs, ok := e2eParse(l)
				if !ok || i >= len(outs) {
					continue
				}
				d["e2e_mode_"+cs.mode]++
				d["e2e_kind_"+cs.kind]++
				d["e2e_pm_"+cs.pm]++
				if cs.noOld {
					d["e2e_no_marshal_old_value"]++
				}
				if cs.createSlot {
					d["e2e_create_slot"]++
				}
				d["e2e_changes_scripted"] += len(cs.changes)
				if obs, ok := e2eParseItems(outs[i]); ok {
					d["e2e_records_printed"] += len(obs)
					switch {
					case len(cs.changes) == 0:
						d["e2e_case_no_changes"]++
					case len(obs) == 0:
						d["e2e_case_all_dropped"]++
					case len(obs) == len(cs.changes):
						d["e2e_case_all_forwarded"]++
					default:
						d["e2e_case_some_dropped"]++
					}
					for _, o := range obs {
						if strings.Contains(unhexs(o[0]), "\"") {
							d["e2e_records_quoted_identifier"]++
						}
					}
				} else {
					d["e2e_case_binary_failed"]++
				}
			}
			d["e2e_total_connections"] = int(atomic.LoadInt64(&e2eConnections))
			d["e2e_total_start_replication"] = int(atomic.LoadInt64(&e2eReplStarts))
			d["e2e_total_status_updates"] = int(atomic.LoadInt64(&e2eStatusUpdates))
		}})
}
