package main

// Component `kafka` (C14): real KafkaBatch (NewKafkaBatch + Add) and real KafkaTransporter with a scripted
// sarama.SyncProducer, compared with Model/KafkaSend.lean.
//
// Lines:
//   kafka cfg <method name> <maxSize> <maxBytes>      new worker; parameters of the batches that follow
//   kafka batch <msgs> <outcome>                      msgs = <D|B|C>:id:key:txn:table:size:ksize,…  (ksize = ByteSize(2),
//                                                     filled in by Run from the real message)
//                                                     outcome = A | X<bits> | O | C | C1 | C2
// Output of a batch line (the Lean driver prints the same text):
//   adds=… payload=<key/id/len,…> txns=[…] sent=<payload|none> result=<written|rejected|panic|cancelled>
//   reported=<txns|none> stats=s<success>f<failure value|->w<written value|->d<duration stats> term=<0|1> closes=<n>
//
// The transporter's shutdown() sleeps 3 s (unexported package variable), so a segment whose last batch is not
// written costs 3 s: the segments of a case (one per `cfg` line) run concurrently, and the generator keeps the
// number of such cases small. A worker that is still alive at the end of a segment is released with a cancelled
// context and left to finish on its own.

import (
	"errors"
	"fmt"
	"strconv"
	"strings"
	"sync"
	"sync/atomic"
	"time"

	"github.com/Nextdoor/pg-bifrost.git/marshaller"
	"github.com/Nextdoor/pg-bifrost.git/shutdown"
	"github.com/Nextdoor/pg-bifrost.git/stats"
	"github.com/Nextdoor/pg-bifrost.git/transport"
	kafbatch "github.com/Nextdoor/pg-bifrost.git/transport/transporters/kafka/batch"
	kaftrans "github.com/Nextdoor/pg-bifrost.git/transport/transporters/kafka/transporter"
	kafutils "github.com/Nextdoor/pg-bifrost.git/transport/transporters/kafka/utils"
	"github.com/Shopify/sarama"
	"github.com/cevaris/ordered_map"
	"github.com/google/uuid"
)

type kafFake struct {
	sarama.SyncProducer
	outcome string
	calls   int
	sent    []string // rendered deep copy of the last SendMessages argument
	sentPtr []*sarama.ProducerMessage
	closes  int32
}

func kafKeyToken(k sarama.Encoder) string {
	if k == nil {
		return "nil"
	}
	b, err := k.Encode()
	if err != nil {
		return "?err"
	}
	s := string(b)
	num := func(p string) (string, bool) {
		if strings.HasPrefix(s, p) {
			if n, err := strconv.Atoi(s[len(p):]); err == nil && n >= 0 {
				return strconv.Itoa(n), true
			}
		}
		return "", false
	}
	if n, ok := num("public.tbl"); ok {
		return "tb" + n
	}
	if n, ok := num("k"); ok {
		return "tk" + n
	}
	if n, ok := num("t"); ok {
		return "tx" + n
	}
	if _, err := uuid.Parse(s); err == nil && len(s) == 36 {
		return "uuid:" + s
	}
	return "?" + hexs(s)
}

func kafRender(msgs []*sarama.ProducerMessage) []string {
	out := []string{}
	for _, m := range msgs {
		if m == nil {
			out = append(out, "nil-message")
			continue
		}
		v := []byte{}
		if m.Value != nil {
			vv, _ := m.Value.Encode()
			v = append(v, vv...) // deep copy
		}
		tok := fmt.Sprintf("%s/%s/%d", kafKeyToken(m.Key), idOf(v), len(v))
		if m.Topic != "topic" {
			tok += "!topic"
		}
		if len(m.Headers) != 0 || m.Metadata != nil {
			tok += "!extra"
		}
		out = append(out, tok)
	}
	return out
}

func (f *kafFake) SendMessages(msgs []*sarama.ProducerMessage) error {
	f.calls++
	f.sent = kafRender(msgs)
	f.sentPtr = append([]*sarama.ProducerMessage{}, msgs...)
	switch {
	case f.outcome == "A":
		return nil
	case strings.HasPrefix(f.outcome, "X"):
		errs := sarama.ProducerErrors{}
		for i, c := range f.outcome[1:] {
			if c == '1' && i < len(msgs) {
				errs = append(errs, &sarama.ProducerError{Msg: msgs[i], Err: Pick(NewRng(uint64(i)), []error{sarama.ErrMessageSizeTooLarge, sarama.ErrNotLeaderForPartition, sarama.ErrRequestTimedOut})})
			}
		}
		return errs
	case f.outcome == "O":
		return errors.New("scripted error that is not a ProducerErrors")
	}
	return nil // a send that should not have happened (cancelled before): the producer would accept it
}

func (f *kafFake) Close() error {
	atomic.AddInt32(&f.closes, 1)
	return nil
}

type kafEnv struct {
	method  string
	pm      kafutils.KafkaPartitionMethod
	maxSize int
	maxB    int
	fake    *kafFake
	pc      *parkCtx
	in      chan transport.Batch
	written chan *ordered_map.OrderedMap
	stats   chan stats.Stat
	exited  chan struct{}
	hook    *logHook
	term    int32
	closed  bool
	dead    bool
	parked  bool
	uuids   map[string]bool
}

func (e *kafEnv) closeDone() {
	if !e.closed {
		e.closed = true
		close(e.pc.done)
	}
}

func newKafEnv(method string, maxSize, maxB int) *kafEnv {
	e := &kafEnv{method: method, pm: kafutils.NameToPartitionMethod[method], maxSize: maxSize, maxB: maxB, uuids: map[string]bool{}}
	e.pc = newParkCtx()
	e.fake = &kafFake{}
	e.in = make(chan transport.Batch)
	e.written = make(chan *ordered_map.OrderedMap)
	e.stats = make(chan stats.Stat)
	e.exited = make(chan struct{})
	log, hook := quietLog()
	e.hook = hook
	sh := shutdown.ShutdownHandler{TerminateCtx: e.pc, CancelFunc: func() { atomic.StoreInt32(&e.term, 1) }}
	t := kaftrans.NewTransporter(sh, e.in, e.stats, e.written, log, e.fake, "topic")
	go func() {
		defer close(e.exited)
		defer func() { _ = recover() }()
		t.StartTransporting()
	}()
	return e
}

type kafObs struct {
	s, d int
	f, w string
}

func (e *kafEnv) wait(o *kafObs) (string, *ordered_map.OrderedMap) {
	written := e.written
	timeout := time.After(20 * time.Second)
	for {
		select {
		case <-e.pc.parked:
			e.parked = true
			return "parked", nil
		case st := <-e.stats:
			if st.Component == "kafka_transport" {
				switch st.StatName {
				case "failure":
					o.f = strconv.FormatInt(st.Value, 10)
				case "success":
					o.s += int(st.Value)
				case "duration":
					o.d++
				case "written":
					o.w = strconv.FormatInt(st.Value, 10)
				}
			}
		case om, ok := <-written:
			if !ok {
				written = nil
				continue
			}
			return "written", om
		case <-e.exited:
			e.dead = true
			return "exited", nil
		case <-timeout:
			return "hang", nil
		}
	}
}

func (e *kafEnv) release() {
	if e.parked {
		e.parked = false
		e.pc.resume <- struct{}{}
	}
}

// stop releases a live worker with a cancelled context and does not wait for its 3 s shutdown.
func (e *kafEnv) stop() {
	if e.dead {
		return
	}
	e.dead = true
	go func() {
		o := &kafObs{}
		if !e.parked {
			if why, _ := e.wait(o); why != "parked" {
				return
			}
		}
		e.closeDone()
		e.release()
		for i := 0; i < 20; i++ {
			why, _ := e.wait(o)
			if why == "parked" {
				e.release()
			} else if why != "written" {
				return
			}
		}
	}()
}

func kafkaRun(c Case) ([]string, []string) {
	// split into segments at cfg lines; the segments are independent workers and run concurrently
	type seg struct{ from, to int }
	segs := []seg{}
	for i, l := range c.Lines {
		w := strings.Fields(l)
		if i == 0 || (len(w) >= 2 && w[0] == "kafka" && w[1] == "cfg") {
			segs = append(segs, seg{i, i + 1})
		} else {
			segs[len(segs)-1].to = i + 1
		}
	}
	lines := make([]string, len(c.Lines))
	outs := make([]string, len(c.Lines))
	var wg sync.WaitGroup
	for _, s := range segs {
		wg.Add(1)
		go func(s seg) {
			defer wg.Done()
			defer func() {
				if r := recover(); r != nil {
					for i := s.from; i < s.to; i++ {
						if outs[i] == "" {
							lines[i] = c.Lines[i]
							outs[i] = fmt.Sprintf("harness-panic %v", r)
						}
					}
				}
			}()
			kafkaSegment(c.Lines[s.from:s.to], lines[s.from:s.to], outs[s.from:s.to])
		}(s)
	}
	wg.Wait()
	return lines, outs
}

func kafkaSegment(in, lines, outs []string) {
	var e *kafEnv
	defer func() {
		if e != nil {
			e.stop()
		}
	}()
	for i, l := range in {
		w := strings.Fields(l)
		lines[i] = l
		switch {
		case len(w) == 5 && w[0] == "kafka" && w[1] == "cfg":
			mx, err1 := strconv.Atoi(w[3])
			mb, err2 := strconv.Atoi(w[4])
			if _, ok := kafutils.NameToPartitionMethod[w[2]]; !ok || err1 != nil || err2 != nil {
				outs[i] = "bad-op"
				continue
			}
			if e != nil {
				e.stop()
			}
			e = newKafEnv(w[2], mx, mb)
			outs[i] = "ok"
		case len(w) == 4 && w[0] == "kafka" && w[1] == "batch" && e != nil:
			msgs, out := e.batch(w[2], w[3])
			lines[i] = fmt.Sprintf("kafka batch %s %s", msgs, w[3])
			outs[i] = out
		default:
			outs[i] = "bad-op"
		}
	}
}

func tblname(n int) string { return "public.tbl" + strconv.Itoa(n) }

// batch builds the real batch, measures ByteSize(2) of every message, and (unless the worker is gone) hands
// the batch to the worker and plays the outcome. Returns the msgs field with ksize filled in, and the output.
func (e *kafEnv) batch(msgs, outcome string) (string, string) {
	b := kafbatch.NewKafkaBatch("topic", "pk", e.maxSize, e.maxB, e.pm)
	adds := []string{}
	toks := []string{}
	if msgs != "-" {
		for _, m := range strings.Split(msgs, ",") {
			p := strings.Split(m, ":")
			if len(p) != 7 {
				return msgs, "bad-op"
			}
			id, _ := strconv.Atoi(p[1])
			key, _ := strconv.Atoi(p[2])
			txn, _ := strconv.Atoi(p[3])
			tbl, _ := strconv.Atoi(p[4])
			size, _ := strconv.Atoi(p[5])
			mm := &marshaller.MarshalledMessage{Table: tblname(tbl), TimeBasedKey: kname(key), Transaction: tname(txn),
				WalStart: uint64(1000 + id), PartitionKey: "pk"}
			switch p[0] {
			case "D":
				mm.Operation = Pick(NewRng(uint64(id)), []string{"INSERT", "UPDATE", "DELETE"})
				if size < 8 {
					size = 8
				}
				mm.Json = mkJson(id, size)
				pm := &sarama.ProducerMessage{Topic: "topic", Value: sarama.ByteEncoder(mm.Json), Key: kafkaKeyLen(e.method, mm)}
				p[5] = strconv.Itoa(size)
				p[6] = strconv.Itoa(pm.ByteSize(2))
			case "B":
				mm.Operation = "BEGIN"
				mm.Json = []byte(`{"begin":1}`)
			default:
				mm.Operation = "COMMIT"
				mm.Json = []byte(`{"commit":1}`)
			}
			toks = append(toks, strings.Join(p, ":"))
			ok, err := b.Add(mm)
			switch {
			case ok && err == nil:
				adds = append(adds, "ok")
			case !ok && err != nil && err.Error() == transport.ERR_MSG_TOOBIG:
				adds = append(adds, "toobig")
			case !ok && err != nil && err.Error() == "batch is full":
				adds = append(adds, "full")
			default:
				adds = append(adds, "?")
			}
		}
	}
	msgsOut := joinList(toks, ",")
	if e.dead {
		return msgsOut, "dead"
	}
	payloadPtr := b.GetPayload().([]*sarama.ProducerMessage)
	payload := kafRender(payloadPtr)
	// the batch uuid: one value per batch, fresh for every batch
	seen := ""
	for i, t := range payload {
		if strings.HasPrefix(t, "uuid:") {
			u := t[5:41]
			switch {
			case seen == "" && e.uuids[u]:
				payload[i] = "uuid-reused" + t[41:]
			case seen != "" && u != seen:
				payload[i] = "uuid-mixed" + t[41:]
			default:
				payload[i] = "uuid" + t[41:]
			}
			if seen == "" {
				seen = u
			}
		}
	}
	if seen != "" {
		e.uuids[seen] = true
	}
	txns := showTxns(b.GetTransactions())
	head := fmt.Sprintf("adds=%s payload=%s txns=%s", joinList(adds, ","), joinList(payload, ","), txns)

	f := e.fake
	f.outcome = outcome
	f.calls = 0
	f.sent = nil
	f.sentPtr = nil
	o := &kafObs{f: "-", w: "-"}
	result, reported := "", "none"
	fail := func(s string) (string, string) { e.dead = true; return msgsOut, head + " " + s }

	if !e.parked {
		if why, _ := e.wait(o); why != "parked" {
			return fail("unexpected-" + why + "-before-batch")
		}
	}
	handed := false
	if outcome == "C1" {
		e.closeDone()
	}
	e.release()
	if outcome != "C1" {
		// hand the batch over; a worker that is not at its receive (e.g. still busy with the previous batch)
		// keeps being served so that it cannot block on the harness
		timeout := time.After(5 * time.Second)
		for !handed && !e.dead {
			select {
			case e.in <- b:
				handed = true
			case <-e.stats:
			case <-e.pc.parked:
				e.pc.resume <- struct{}{}
			case <-e.exited:
				e.dead = true
			case <-timeout:
				return fail("hang-handover")
			}
		}
	}
	parks := 0
	for result == "" {
		why, om := e.wait(o)
		switch why {
		case "parked":
			parks++
			if handed && ((parks == 1 && outcome == "C2") || (parks == 2 && outcome == "C")) {
				e.closeDone()
			}
			e.release()
		case "written":
			result = "written"
			reported = showTxns(om)
			if om != b.GetTransactions() {
				reported += "!other-map"
			}
		case "exited":
			switch {
			case e.hook.has("Recovered in KafkaTransporter"):
				result = "panic"
			case e.hook.has("max retries exceeded"):
				result = "rejected"
			case e.closed:
				result = "cancelled"
			default:
				result = "exit-unknown"
			}
		default:
			return fail("hang")
		}
	}
	sent := "none"
	if f.calls > 0 {
		// compare the deep copy taken at call time with the batch's payload (same objects, same content)
		same := f.calls == 1 && len(f.sentPtr) == len(payloadPtr)
		if same {
			for i := range payloadPtr {
				if f.sentPtr[i] != payloadPtr[i] {
					same = false
				}
			}
			now := kafRender(payloadPtr)
			for i := range now {
				if i >= len(f.sent) || now[i] != f.sent[i] {
					same = false
				}
			}
		}
		if same {
			sent = "payload"
		} else {
			sent = fmt.Sprintf("%dcalls:%s", f.calls, joinList(f.sent, ","))
		}
	}
	return msgsOut, fmt.Sprintf("%s sent=%s result=%s reported=%s stats=s%df%sw%sd%d term=%d closes=%d",
		head, sent, result, reported, o.s, o.f, o.w, o.d, atomic.LoadInt32(&e.term), atomic.LoadInt32(&f.closes))
}

// ---- generation ----------------------------------------------------------------------

var kafMethods = []string{"transaction", "transaction-constant", "batch", "tablename", "random"}

var kafGenCount int64

// key length per method as the generator assumes it (the real ByteSize is measured by Run)
func kafGuessKeyLen(method string) int {
	switch method {
	case "batch":
		return 36
	case "tablename":
		return 11
	case "random":
		return 0
	}
	return 2
}

func kafGenBatch(r *Rng, method string, maxB int, base *int, outcome string) string {
	parts := []string{}
	n := r.Range(0, 6)
	if r.Chance(70) {
		n = r.Range(1, 4)
	}
	key := r.Range(1, 5)
	for i := 0; i < n; i++ {
		if r.Chance(40) {
			key = r.Range(1, 5)
		}
		if r.Chance(8) {
			parts = append(parts, fmt.Sprintf("%s:0:%d:%d:0:0:0", Pick(r, []string{"B", "C"}), key, key+20))
			continue
		}
		// ByteSize(2) = 36 + len(key) + len(value): sizes around the limit
		at := maxB - 36 - kafGuessKeyLen(method)
		size := Pick(r, []int{8, 8, 10, 12, 16, 20, at - 1, at, at, at + 1, at + 7, r.Range(8, 90)})
		if size < 8 {
			size = 8
		}
		parts = append(parts, fmt.Sprintf("D:%d:%d:%d:%d:%d:0", *base, key, key+20, r.Range(1, 4), size))
		*base++
	}
	x := outcome
	if x == "X" {
		bits := ""
		switch r.Intn(4) {
		case 0: // everything rejected
			bits = strings.Repeat("1", n+1)
		case 1: // an error list without entries
			bits = strings.Repeat("0", n)
		default:
			for i := 0; i < n+1; i++ {
				bits += Pick(r, []string{"0", "1"})
			}
		}
		x = "X" + bits
	}
	return fmt.Sprintf("kafka batch %s %s", joinList(parts, ","), x)
}

func kafGenSegment(r *Rng, method string, final string) []string {
	maxB := 36 + kafGuessKeyLen(method) + Pick(r, []int{12, 20, 40, 40, 80, 1000000})
	maxSize := Pick(r, []int{1, 2, 3, 5, 500})
	if r.Chance(3) {
		maxSize = 0
	}
	lines := []string{fmt.Sprintf("kafka cfg %s %d %d", method, maxSize, maxB)}
	base := 1 + r.Intn(1000)
	for nb := r.Range(0, 3); nb > 0; nb-- {
		lines = append(lines, kafGenBatch(r, method, maxB, &base, "A"))
	}
	if final != "" {
		lines = append(lines, kafGenBatch(r, method, maxB, &base, final))
		if r.Chance(60) { // nothing may happen afterwards
			lines = append(lines, kafGenBatch(r, method, maxB, &base, "A"))
		}
	} else if len(lines) == 1 {
		lines = append(lines, kafGenBatch(r, method, maxB, &base, "A"))
	}
	return lines
}

var kafFinals = []string{"X", "X", "X", "O", "C", "C1", "C2"}

func kafkaGen(r *Rng, tier string) Case {
	idx := int(atomic.AddInt64(&kafGenCount, 1)) - 1
	lines := []string{}
	failCase := false
	if tier == "thorough" {
		failCase = idx < 20 || r.Chance(3)
	} else {
		failCase = idx < 9 // 9 cases × 5 methods = 45 workers that stop (3 s each, the 5 of a case in parallel)
	}
	if failCase {
		// one worker per method, each ending in a batch that is not written
		for k, m := range kafMethods {
			final := kafFinals[(idx+k)%len(kafFinals)]
			if idx >= len(kafFinals) {
				final = Pick(r, kafFinals)
			}
			lines = append(lines, kafGenSegment(r, m, final)...)
		}
		return Case{lines}
	}
	for s := r.Range(1, 3); s > 0; s-- {
		lines = append(lines, kafGenSegment(r, Pick(r, kafMethods), "")...)
	}
	return Case{lines}
}

// ---- monitor (C14 itself, on the implementation's history) --------------------------------

func kafkaMonitor(lines, outs []string, m *Model) []Violation {
	var vs []Violation
	cfg := []string{}
	stopped := false
	for i, l := range lines {
		w := strings.Fields(l)
		if i >= len(outs) || len(w) < 2 {
			continue
		}
		if w[1] == "cfg" && len(w) == 5 {
			cfg = w[2:5]
			stopped = false
			continue
		}
		if w[1] != "batch" || len(w) != 4 || len(cfg) != 3 {
			continue
		}
		o := outs[i]
		if o == "dead" {
			continue
		}
		if !strings.HasPrefix(o, "adds=") || kinField(o, "result") == "" {
			continue
		}
		if stopped {
			vs = append(vs, Violation{"C14", "the worker handled a batch after a batch that was not written: " + l + " => " + o, ""})
			continue
		}
		reported := kinField(o, "reported")
		if strings.Contains(reported, "!") {
			vs = append(vs, Violation{"C14", "the report on txnsWritten is not the batch's transactions map: " + o, ""})
			continue
		}
		q := fmt.Sprintf("kafkamon check %s %s %s %s %s %s %s %s %s %s", cfg[0], cfg[1], cfg[2], w[2], w[3],
			kinField(o, "payload"), kinField(o, "txns"), kinField(o, "sent"), reported, kinField(o, "term"))
		ans, err := m.Do(q)
		if err != nil {
			continue
		}
		if ans != "ok" {
			vs = append(vs, Violation{"C14", ans + " :: kafka cfg " + strings.Join(cfg, " ") + " / " + l + " => " + o, ""})
		}
		if reported == "none" {
			stopped = true
		}
	}
	return vs
}

func kafkaStats(lines, outs []string, d map[string]int) {
	method := ""
	for i, l := range lines {
		w := strings.Fields(l)
		if i >= len(outs) || len(w) < 2 {
			continue
		}
		if w[1] == "cfg" && len(w) == 5 {
			method = w[2]
			d["cfg_method_"+method]++
			continue
		}
		if w[1] != "batch" || len(w) != 4 {
			continue
		}
		o := outs[i]
		if o == "dead" {
			d["batch_after_worker_exit"]++
			continue
		}
		res := kinField(o, "result")
		d["result_"+res]++
		if res != "written" {
			d["stop_"+method+"_"+res]++
			switch {
			case w[3] == "O" || strings.HasPrefix(w[3], "C"):
				d["outcome_"+w[3]]++
			case !strings.Contains(w[3], "1") || kinField(o, "stats") == "s0f0w-d1":
				d["outcome_rejected_empty_error_list"]++
			default:
				d["outcome_rejected_subset"]++
			}
		}
		for _, a := range strings.Split(kinField(o, "adds"), ",") {
			d["add_"+a]++
		}
		if p := kinField(o, "payload"); p != "-" {
			for _, t := range strings.Split(p, ",") {
				k := strings.SplitN(t, "/", 2)[0]
				switch {
				case strings.HasPrefix(k, "tk"):
					d["key_timebased"]++
				case strings.HasPrefix(k, "tx"):
					d["key_transaction"]++
				case strings.HasPrefix(k, "tb"):
					d["key_table"]++
				default:
					d["key_"+k]++
				}
			}
		} else {
			d["payload_empty"]++
		}
		// sizes exactly at / just above the limit
		if w[2] != "-" {
			for _, m := range strings.Split(w[2], ",") {
				p := strings.Split(m, ":")
				if len(p) == 7 && p[0] == "D" {
					ks, _ := strconv.Atoi(p[6])
					mb := 0
					for j := i; j >= 0; j-- {
						ww := strings.Fields(lines[j])
						if len(ww) == 5 && ww[1] == "cfg" {
							mb, _ = strconv.Atoi(ww[4])
							break
						}
					}
					switch {
					case ks == mb:
						d["ksize_eq_limit"]++
					case ks == mb+1:
						d["ksize_limit_plus1"]++
					case ks == mb-1:
						d["ksize_limit_minus1"]++
					}
				}
			}
		}
	}
}

func init() {
	// Timing: the worker's shutdown sleeps 3 s (`shutdownDelay`, unexported) before it closes anything; on an overloaded
	// machine the harness's wait for the exit has run out once ("hang" on a case that passes alone) - a disagreement must
	// reproduce in re-runs before it counts
	register(&Component{Name: "kafka", Gen: kafkaGen, Run: kafkaRun, Monitor: kafkaMonitor, Stats: kafkaStats, Timing: true,
		Quick: 3000, Thorough: 20000,
		Nontrivial: func(lines, outs []string) bool {
			for _, o := range outs {
				if strings.Contains(o, "toobig") || (strings.HasPrefix(o, "adds=") && kinField(o, "result") != "written") {
					return true
				}
			}
			return false
		}})
}
