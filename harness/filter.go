package main

import (
	"fmt"
	"regexp"
	"strings"
	"time"

	"github.com/Nextdoor/pg-bifrost.git/filter"
	"github.com/Nextdoor/pg-bifrost.git/parselogical"
	"github.com/Nextdoor/pg-bifrost.git/replication"
	"github.com/Nextdoor/pg-bifrost.git/shutdown"
	"github.com/Nextdoor/pg-bifrost.git/stats"
)

func hexList(l []string) string {
	parts := []string{}
	for _, s := range l {
		parts = append(parts, hexs(s))
	}
	return joinList(parts, ",")
}

func unhexList(s string) []string {
	out := []string{}
	if s == "-" {
		return out
	}
	for _, h := range strings.Split(s, ",") {
		out = append(out, unhexs(h))
	}
	return out
}

func matchBits(pats []string, rel string) string {
	b := []byte{}
	for _, p := range pats {
		re, err := regexp.Compile(p)
		if err == nil && re.MatchString(rel) {
			b = append(b, '1')
		} else {
			b = append(b, '0')
		}
	}
	if len(b) == 0 {
		return "0"
	}
	return string(b)
}

func filterRun(c Case) ([]string, []string) {
	lines, outs := []string{}, []string{}
	var in chan *replication.WalMessage
	var st chan stats.Stat
	var f *filter.Filter
	var sh shutdown.ShutdownHandler
	var list []string
	stop := func() {
		if f != nil {
			sh.CancelFunc()
			close(in)
			f = nil
		}
	}
	defer stop()
	for _, l := range c.Lines {
		w := strings.Fields(l)
		switch {
		case len(w) == 5 && w[1] == "cfg":
			stop()
			sh = shutdown.NewShutdownHandler()
			in = make(chan *replication.WalMessage)
			st = make(chan stats.Stat)
			list = unhexList(w[4])
			ff := filter.New(sh, in, st, w[2] == "1", w[3] == "1", list)
			f = &ff
			go f.Start()
			lines = append(lines, l)
			outs = append(outs, "ok")
		case len(w) >= 4 && w[1] == "msg" && f != nil:
			rel := ""
			if rl := unhexList(w[3]); len(rl) > 0 {
				rel = rl[0]
			}
			op := w[2]
			if op == "DATA" {
				op = "INSERT"
			}
			bits := matchBits(list, rel)
			lines = append(lines, fmt.Sprintf("filter msg %s %s %s", w[2], w[3], bits))
			m := &replication.WalMessage{Pr: &parselogical.ParseResult{Operation: op, Relation: rel}}
			select {
			case in <- m:
			case <-time.After(5 * time.Second):
				outs = append(outs, "hang")
				return lines, outs
			}
			select {
			case got := <-f.OutputChan:
				if got != m {
					outs = append(outs, "pass-other")
				} else {
					outs = append(outs, "pass")
				}
				select {
				case <-st:
				case <-time.After(5 * time.Second):
					outs[len(outs)-1] = "pass-nostat"
				}
			case s := <-st:
				if s.StatName == "filtered" {
					outs = append(outs, "drop")
				} else {
					outs = append(outs, "stat-"+s.StatName)
				}
			case <-time.After(5 * time.Second):
				outs = append(outs, "hang")
				return lines, outs
			}
		default:
			lines = append(lines, l)
			outs = append(outs, "bad-op")
		}
	}
	return lines, outs
}

var relPool = []string{"public.a", "public.b", "public.ab", "s.t", "public.\"T x\"", "\"My S\".\"t:1\"", "public.a, public.b", "", "public.customers", "audit.log_2024",
	"public.\"Orders\"", "public.orders", "AUDIT.Log_2024", "Public.A", "public.a\nb"}

// patterns include inline flags, alternations and anchors: each pattern is a regular expression of
// its own, whatever the others in the list say
var patPool = []string{"^public\\.a$", "public\\..*", "^s\\.", "a", "^audit\\.log_\\d+$", "T x", "b$", "^$", ".*",
	"(?i)^\"?audit\"?\\.", "^public\\.\"?orders\"?$", "(?i)public\\.a$", "^public\\.a|b$", "(?s)a.b", "(?U)^p.+\\.a", "^(s|audit)\\."}

func filterGen(r *Rng, tier string) Case {
	lines := []string{}
	wl := r.Intn(2)
	rx := r.Intn(2)
	n := r.Range(0, 4)
	list := []string{}
	if r.Chance(30) {
		// long lists in an order of their own (a lookup structure built from the list must not care about
		// its length or order): distinct entries, shuffled, 5 to 15 of them
		pool := append([]string{}, relPool...)
		if rx == 1 {
			pool = append([]string{}, patPool...)
		}
		for i := len(pool) - 1; i > 0; i-- {
			j := r.Intn(i + 1)
			pool[i], pool[j] = pool[j], pool[i]
		}
		list = pool[:r.Range(5, len(pool))]
		n = 0
	}
	for i := 0; i < n; i++ {
		if rx == 1 {
			list = append(list, Pick(r, patPool))
		} else {
			list = append(list, Pick(r, relPool))
		}
	}
	lines = append(lines, fmt.Sprintf("filter cfg %d %d %s", wl, rx, hexList(list)))
	for i := r.Range(3, 25); i > 0; i-- {
		op := Pick(r, []string{"DATA", "DATA", "DATA", "DATA", "BEGIN", "COMMIT"})
		rel := Pick(r, relPool)
		if op != "DATA" {
			rel = ""
		}
		lines = append(lines, fmt.Sprintf("filter msg %s %s 0", op, hexList([]string{rel})))
	}
	return Case{lines}
}

// ---- clifilter: command-line options -> decision, judged against the user's intent (C08) ----

func userIntentGo(wl, bl, wlr, blr []string, rel string) bool {
	anyMatch := func(pats []string) bool {
		for _, p := range pats {
			if re, err := regexp.Compile(p); err == nil && re.MatchString(rel) {
				return true
			}
		}
		return false
	}
	in := func(l []string) bool {
		for _, x := range l {
			if x == rel {
				return true
			}
		}
		return false
	}
	switch {
	case len(wl) > 0:
		return in(wl)
	case len(bl) > 0:
		return !in(bl)
	case len(wlr) > 0:
		return anyMatch(wlr)
	case len(blr) > 0:
		return !anyMatch(blr)
	}
	return true
}

// The "implementation" side of this component is the user's intent as the harness computes
// it with Go's regexp; the model side is the regenerated main.go fragment composed with the
// filter model. A difference is a C08 violation with the options and relation as replay.
func cliRun(c Case) ([]string, []string) {
	lines, outs := []string{}, []string{}
	for _, l := range c.Lines {
		w := strings.Fields(l)
		if len(w) != 8 || w[1] != "decide" {
			lines = append(lines, l)
			outs = append(outs, "bad-op")
			continue
		}
		wl, bl, wlr, blr := unhexList(w[2]), unhexList(w[3]), unhexList(w[4]), unhexList(w[5])
		rel := ""
		if rl := unhexList(w[6]); len(rl) > 0 {
			rel = rl[0]
		}
		bits := matchBits(append(append([]string{}, wlr...), blr...), rel)
		w[7] = bits
		lines = append(lines, strings.Join(w, " "))
		in := userIntentGo(wl, bl, wlr, blr, rel)
		outs = append(outs, fmt.Sprintf("decision=%v intent=%v onekind=true", in, in))
	}
	return lines, outs
}

func cliGen(r *Rng, tier string) Case {
	lines := []string{}
	for i := r.Range(4, 12); i > 0; i-- {
		var ls [4][]string
		kind := r.Intn(5) // 4 = no option at all
		if kind < 4 {
			for j := r.Range(1, 3); j > 0; j-- {
				if kind >= 2 {
					ls[kind] = append(ls[kind], Pick(r, patPool))
				} else {
					ls[kind] = append(ls[kind], Pick(r, relPool[:7]))
				}
			}
		}
		lines = append(lines, fmt.Sprintf("cli decide %s %s %s %s %s 0", hexList(ls[0]), hexList(ls[1]), hexList(ls[2]), hexList(ls[3]), hexList([]string{Pick(r, relPool)})))
	}
	return Case{lines}
}

func cliMonitor(lines, outs []string, m *Model) []Violation {
	var vs []Violation
	for i, l := range lines {
		if i >= len(outs) {
			break
		}
		o, _ := m.Do(l)
		if o != outs[i] {
			vs = append(vs, Violation{"C08", "command-line options " + l + ": pipeline decides " + o + " but the user's intent is " + outs[i], ""})
			break
		}
	}
	return vs
}

// filterMonitor: the property itself (forwarded iff marker or permitted, Props.C08.filter_iff) on
// what the real stage did with each message.
func filterMonitor(lines, outs []string, m *Model) []Violation {
	for i, l := range lines {
		if i >= len(outs) {
			break
		}
		want, _ := m.Do(l)
		if strings.HasPrefix(l, "filter msg") && want != outs[i] && (outs[i] == "pass" || outs[i] == "drop") {
			return []Violation{{"C08", "filter stage decided " + outs[i] + " where the configured filter says " + want + " (" + lines[0] + " | " + l + ")", ""}}
		}
	}
	return nil
}

func init() {
	register(&Component{Name: "filter", Gen: filterGen, Run: filterRun, Monitor: filterMonitor, Quick: 600, Thorough: 20000,
		Nontrivial: func(lines, outs []string) bool {
			p, d := false, false
			for _, o := range outs {
				p = p || o == "pass"
				d = d || o == "drop"
			}
			return p && d
		}})
	register(&Component{Name: "clifilter", Gen: cliGen, Run: cliRun, Monitor: cliMonitor, Quick: 600, Thorough: 20000,
		// model/intent differences are reported by the monitor as C08 violations, not as a broken tie
		Compare: func(line, impl, model string) bool { return true }})
}
