package main

// Component `batcherload` (C16, the part the step model cannot exhibit): the real, FREE-RUNNING
// Batcher.StartBatching - real ticker, real select - under a standing input backlog. The stepped `batcher`
// component fires the tick handler itself, so it cannot see whether the loop ever gets to the ticker while
// records keep arriving. Here a backlog of N records is queued in the input channel before the batcher starts
// (one record of a "cold" partition key first, then only records of a "hot" key, into a batch that never
// fills), workers always take what they are offered, and the harness measures for every dispatched batch
//     age at hand-over = time the worker receives it - batch.CreateTime()
// and whether the cold batch left while records were still queued. Property (C16): a non-empty batch is handed
// to a worker at the latest one tick after its maximum age (idle age for the cold one), no matter how
// steadily records keep arriving. Bound used: age + tick + slack (slack generous, for loaded machines; the
// scenario keeps the backlog alive for several times that bound, so a loop that does not serve the ticker
// under load exceeds it by far).
//
//   batcherload run <backlog> <tickMs> <idleMs> <maxMs>
// output: `cold=<ageMs>:<queuedAtDispatch> maxage=<ms> batches=<n> drain=<ms>`  (not compared with a model:
// the Lean driver answers `-`; judged by the monitor)

import (
	"fmt"
	"hash/crc32"
	"strconv"
	"strings"
	"time"

	"github.com/Nextdoor/pg-bifrost.git/marshaller"
	"github.com/Nextdoor/pg-bifrost.git/shutdown"
	"github.com/Nextdoor/pg-bifrost.git/stats"
	"github.com/Nextdoor/pg-bifrost.git/transport"
	"github.com/Nextdoor/pg-bifrost.git/transport/batch"
	"github.com/Nextdoor/pg-bifrost.git/transport/batcher"
	"github.com/Nextdoor/pg-bifrost.git/transport/progress"
	"github.com/cevaris/ordered_map"
)

const batcherloadSlackMs = 400

func batcherloadRun(c Case) ([]string, []string) {
	outs := []string{}
	for _, l := range c.Lines {
		w := strings.Fields(l)
		if len(w) == 5 && w[1] == "route" {
			n, _ := strconv.Atoi(w[2])
			workers, _ := strconv.Atoi(w[3])
			depth, _ := strconv.Atoi(w[4])
			outs = append(outs, batcherloadRoute(n, workers, depth))
			continue
		}
		if len(w) != 6 || w[1] != "run" {
			outs = append(outs, "bad-op")
			continue
		}
		n, _ := strconv.Atoi(w[2])
		tickMs, _ := strconv.Atoi(w[3])
		idleMs, _ := strconv.Atoi(w[4])
		maxMs, _ := strconv.Atoi(w[5])
		outs = append(outs, batcherloadOne(n, tickMs, idleMs, maxMs))
	}
	return c.Lines, outs
}

func batcherloadOne(n, tickMs, idleMs, maxMs int) string {
	sh := shutdown.NewShutdownHandler()
	in := make(chan *marshaller.MarshalledMessage, n+1)
	seen := make(chan []*progress.Seen, 1024)
	written := make(chan *ordered_map.OrderedMap, 1024)
	st := make(chan stats.Stat, 1024)
	cold := &marshaller.MarshalledMessage{Operation: "INSERT", Json: []byte("{}"), TimeBasedKey: "1-1", Transaction: "1", WalStart: 10, PartitionKey: "cold"}
	hot := &marshaller.MarshalledMessage{Operation: "INSERT", Json: []byte("{}"), TimeBasedKey: "1-1", Transaction: "1", WalStart: 11, PartitionKey: "hot"}
	in <- cold
	for i := 0; i < n; i++ {
		in <- hot
	}
	b := batcher.NewBatcher(sh, in, seen, written, st, tickMs, batch.NewGenericBatchFactory(n+10), 1,
		idleMs, maxMs, 4, 1<<40, batcher.BATCH_ROUTING_ROUND_ROBIN)
	done := make(chan struct{})
	// drains of the side channels
	go func() {
		for {
			select {
			case <-seen:
			case <-written:
			case <-st:
			case <-done:
				return
			}
		}
	}()
	type obs struct {
		key    string
		ageMs  int64
		queued int
		size   int
	}
	res := make(chan obs, 4096)
	go func() {
		for _, ch := range b.GetOutputChans() {
			ch := ch
			go func() {
				for {
					select {
					case bt, ok := <-ch:
						if !ok {
							return
						}
						now := time.Now().UnixNano()
						res <- obs{batchKey(bt), (now - bt.CreateTime()) / 1e6, len(in), bt.NumMessages()}
					case <-done:
						return
					}
				}
			}()
		}
	}()
	t0 := time.Now()
	exited := make(chan struct{})
	go func() { defer close(exited); b.StartBatching() }()
	coldAge, coldQueued := int64(-1), -1
	maxAge := int64(0)
	batches := 0
	total := 0
	deadline := time.After(60 * time.Second)
	drain := int64(-1)
loop:
	for {
		select {
		case o := <-res:
			batches++
			total += o.size
			if o.key == "cold" && coldAge < 0 {
				coldAge, coldQueued = o.ageMs, o.queued
			}
			if o.ageMs > maxAge {
				maxAge = o.ageMs
			}
			if total >= n+1 {
				drain = time.Since(t0).Milliseconds()
				break loop
			}
		case <-exited:
			break loop
		case <-deadline:
			break loop
		}
	}
	sh.CancelFunc()
	select {
	case <-exited:
	case <-time.After(5 * time.Second):
	}
	close(done)
	return fmt.Sprintf("cold=%d:%d maxage=%d batches=%d drain=%d", coldAge, coldQueued, maxAge, batches, drain)
}

// batcherloadRoute: partition routing under back-pressure. One record per batch (generic batch of size 1),
// a handful of partition keys, `workers` workers with queues of `depth` batches; the consumer of one worker
// (the owner of the busiest key) is slow, so its queue is full most of the time, the others are idle.
// C05: "all records sharing a partition key ... are always handled by the same worker" - every batch must
// arrive on worker crc32(key) % workers (IEEE, as utils.QuickHash), full queue or not.
func batcherloadRoute(n, workers, depth int) string {
	sh := shutdown.NewShutdownHandler()
	in := make(chan *marshaller.MarshalledMessage, n+1)
	seen := make(chan []*progress.Seen, 1024)
	written := make(chan *ordered_map.OrderedMap, 1024)
	st := make(chan stats.Stat, 1024)
	keys := []string{"hot", "a", "b", "c", "public.t", "7"}
	for i := 0; i < n; i++ {
		k := keys[0]
		if i%3 == 2 {
			k = keys[1+(i/3)%(len(keys)-1)]
		}
		in <- &marshaller.MarshalledMessage{Operation: "INSERT", Json: []byte("{}"), TimeBasedKey: "1-1", Transaction: "1", WalStart: uint64(100 + i), PartitionKey: k}
	}
	b := batcher.NewBatcher(sh, in, seen, written, st, 1000, batch.NewGenericBatchFactory(1), workers,
		3600*1000, 3600*1000, depth, 1<<40, batcher.BATCH_ROUTING_PARTITION)
	done := make(chan struct{})
	go func() {
		for {
			select {
			case <-seen:
			case <-written:
			case <-st:
			case <-done:
				return
			}
		}
	}()
	owner := int(crc32.ChecksumIEEE([]byte(keys[0])) % uint32(workers))
	type got struct {
		w   int
		key string
		lsn uint64
	}
	res := make(chan got, n+16)
	for wi, ch := range b.GetOutputChans() {
		wi, ch := wi, ch
		go func() {
			for {
				select {
				case bt, ok := <-ch:
					if !ok {
						return
					}
					lsn := uint64(0)
					if ms, ok := bt.GetPayload().([]*marshaller.MarshalledMessage); ok && len(ms) > 0 {
						lsn = ms[0].WalStart
					}
					res <- got{wi, bt.GetPartitionKey(), lsn}
					if wi == owner {
						time.Sleep(300 * time.Microsecond) // slow sink: its queue backs up
					}
				case <-done:
					return
				}
			}
		}()
	}
	exited := make(chan struct{})
	go func() { defer close(exited); b.StartBatching() }()
	misrouted, total, outOfOrder := 0, 0, 0
	first := ""
	last := map[string]uint64{}
	deadline := time.After(60 * time.Second)
loop:
	for total < n {
		select {
		case g := <-res:
			total++
			want := int(crc32.ChecksumIEEE([]byte(g.key)) % uint32(workers))
			if g.w != want {
				misrouted++
				if first == "" {
					first = fmt.Sprintf("%s:lsn%d:worker%d:owner%d", g.key, g.lsn, g.w, want)
				}
			}
			if g.lsn < last[g.key] {
				outOfOrder++
			}
			last[g.key] = g.lsn
		case <-exited:
			break loop
		case <-deadline:
			break loop
		}
	}
	sh.CancelFunc()
	select {
	case <-exited:
	case <-time.After(5 * time.Second):
	}
	close(done)
	if first == "" {
		first = "-"
	}
	return fmt.Sprintf("route batches=%d misrouted=%d outoforder=%d first=%s", total, misrouted, outOfOrder, first)
}

func batchKey(bt transport.Batch) string {
	if p := bt.GetPartitionKey(); p != "" {
		return p
	}
	return ""
}

func batcherloadGen(r *Rng, tier string) Case {
	if r.Chance(40) {
		return Case{[]string{fmt.Sprintf("batcherload route %d %d %d", 3000+r.Intn(3)*1000, r.Range(2, 5), Pick(r, []int{1, 1, 2, 4}))}}
	}
	// the backlog must outlive the bound by far: 6-8 M records take the loop 1.5-3 s (and still about 1 s when it never serves the ticker)
	n := 6000000 + r.Intn(3)*1000000
	tick := Pick(r, []int{2, 5, 10})
	idle := Pick(r, []int{10, 20, 40})
	mx := idle + Pick(r, []int{10, 20, 40})
	return Case{[]string{fmt.Sprintf("batcherload run %d %d %d %d", n, tick, idle, mx)}}
}

func batcherloadMonitor(lines, outs []string, m *Model) []Violation {
	for i, l := range lines {
		w := strings.Fields(l)
		if i < len(outs) && len(w) == 5 && w[1] == "route" {
			var nb, mis, ooo int
			var first string
			if _, err := fmt.Sscanf(outs[i], "route batches=%d misrouted=%d outoforder=%d first=%s", &nb, &mis, &ooo, &first); err == nil && (mis > 0 || ooo > 0) {
				return []Violation{{"C05", fmt.Sprintf("partition routing under back-pressure (%s workers, queue depth %s, the owner of the busiest key slow): %d of %d batches were handed to "+
					"a worker other than crc32(partition key) %% workers (first: %s), %d arrived out of delivery order for their key (%s => %s)", w[3], w[4], mis, nb, first, ooo, l, outs[i]), ""}}
			}
			continue
		}
		if i >= len(outs) || len(w) != 6 {
			continue
		}
		tick, _ := strconv.Atoi(w[3])
		idle, _ := strconv.Atoi(w[4])
		mx, _ := strconv.Atoi(w[5])
		var coldAge, coldQ, maxAge, nb, drain int64
		if _, err := fmt.Sscanf(outs[i], "cold=%d:%d maxage=%d batches=%d drain=%d", &coldAge, &coldQ, &maxAge, &nb, &drain); err != nil {
			continue
		}
		bound := int64(mx + tick + batcherloadSlackMs)
		coldBound := int64(idle + tick + batcherloadSlackMs)
		if drain >= 0 && drain <= 2*bound {
			continue // the backlog did not outlive the bound on this machine: nothing can be concluded
		}
		if maxAge > bound {
			return []Violation{{"C16", fmt.Sprintf("under a standing backlog of %s records a batch was handed to its worker %d ms after it was created; "+
				"maximum age %d ms + tick %d ms (+ %d ms slack) = %d ms: the age flush does not happen while records keep arriving (%s => %s)",
				w[2], maxAge, mx, tick, batcherloadSlackMs, bound, l, outs[i]), ""}}
		}
		if coldAge > coldBound || coldAge < 0 {
			return []Violation{{"C16", fmt.Sprintf("a batch that received no record for longer than the idle age (%d ms) was handed over after %d ms "+
				"(bound %d ms), while records for another partition key kept arriving (%s => %s)", idle, coldAge, coldBound, l, outs[i]), ""}}
		}
	}
	return nil
}

func init() {
	register(&Component{Name: "batcherload", Gen: batcherloadGen, Run: batcherloadRun, Monitor: batcherloadMonitor,
		Quick: 3, Thorough: 40, Serial: true, Timing: true,
		Compare: func(line, impl, model string) bool { return true },
		Nontrivial: func(lines, outs []string) bool {
			for _, o := range outs {
				if strings.Contains(o, "batches=") && !strings.Contains(o, "batches=1 ") {
					return true
				}
			}
			return false
		},
		Stats: func(lines, outs []string, d map[string]int) {
			for _, o := range outs {
				var coldAge, coldQ, maxAge, nb, drain int64
				if _, err := fmt.Sscanf(o, "cold=%d:%d maxage=%d batches=%d drain=%d", &coldAge, &coldQ, &maxAge, &nb, &drain); err == nil {
					d["measured_max_age_at_handover_ms_"+bucket(int(maxAge))]++
					d["measured_cold_age_ms_"+bucket(int(coldAge))]++
					d["backlog_drain_ms_"+bucket(int(drain))]++
					if coldQ > 0 {
						d["cold_batch_left_while_records_queued"]++
					}
				}
			}
		}})
}
