package main

// Component `runner` (C17 on the ASSEMBLED process): the real app.New + Runner.Start — the wiring of
// app/runner.go, one shared shutdown handler, every stage goroutine — against the fake PostgreSQL wire
// server, stdout transport, and ONE injected fault in one stage:
//
//   runner fault none                 control: no fault => the termination signal stays down
//   runner fault agg-panic            a statistic of an unknown type reaches the aggregator (panic inside a stage)
//   runner fault reporter-closed      the reporter's input channel is closed
//   runner fault filter-closed        the filter's input (the client's output channel) is closed
//   runner fault partitioner-closed   the partitioner's input is closed
//   runner fault marshaller-closed    the marshaller's input is closed
//   runner fault batcher-closed       the batcher's input is closed
//   runner fault pg-gone              the PostgreSQL server goes away for good (connection error that cannot be retried:
//                                     the 20 s reconnect budget is NOT waited for; see `retrypolicy`) — observed only
//                                     as "the client closes its output or the signal is raised"; skipped in quick tier
// Output: `term=<0|1>` — whether shutdownHandler.TerminateCtx was cancelled within the observation window.
// The Lean side (`Model/Stages.lean`, instantiated with the regenerated stage table) says: a stage that
// returns or panics cancels the shared context; so every fault must give term=1 and `none` term=0.

import (
	"context"
	"fmt"
	"os"
	"os/exec"
	"strings"
	"time"

	"github.com/Nextdoor/pg-bifrost.git/app"
	"github.com/Nextdoor/pg-bifrost.git/app/config"
	"github.com/Nextdoor/pg-bifrost.git/partitioner"
	"github.com/Nextdoor/pg-bifrost.git/shutdown"
	"github.com/Nextdoor/pg-bifrost.git/stats"
	"github.com/Nextdoor/pg-bifrost.git/transport"
	"github.com/Nextdoor/pg-bifrost.git/transport/batcher"
	"github.com/jackc/pgx/v5/pgconn"
)

var runnerFaults = []string{"none", "agg-panic", "reporter-closed", "filter-closed", "partitioner-closed", "marshaller-closed", "batcher-closed"}

func runnerOne(fault string) string {
	srv, err := startFakePG(nil)
	if err != nil {
		return "harness-error " + err.Error()
	}
	defer srv.Close()
	sourceConfig, err := pgconn.ParseConfig(fmt.Sprintf("postgresql://u:p@127.0.0.1:%d/db?replication=database&sslmode=disable", srv.port()))
	if err != nil {
		return "harness-error " + err.Error()
	}
	sh := shutdown.NewShutdownHandler()
	defer sh.CancelFunc()
	r, err := app.New(sh, sourceConfig, "verif_slot",
		map[string]interface{}{config.VAR_NAME_CLIENT_BUFFER_SIZE: 10},
		map[string]interface{}{"whitelist": false, "tablelist": []string{}, "regex": false},
		map[string]interface{}{config.VAR_NAME_NO_MARSHAL_OLD_VALUE: false},
		map[string]interface{}{config.VAR_NAME_PARTITION_METHOD: partitioner.PART_METHOD_NONE, config.VAR_NAME_PARTITION_COUNT: 1},
		map[string]interface{}{
			config.VAR_NAME_BATCH_FLUSH_UPDATE_AGE:    500,
			config.VAR_NAME_BATCH_FLUSH_MAX_AGE:       1000,
			config.VAR_NAME_BATCH_QUEUE_DEPTH:         2,
			config.VAR_NAME_BATCHER_MEMORY_SOFT_LIMIT: int64(batcher.DEFAULT_MAX_MEMORY_BYTES),
			config.VAR_NAME_BATCHER_ROUTING_METHOD:    batcher.BATCH_ROUTING_ROUND_ROBIN,
			config.VAR_NAME_BATCHER_TICK_RATE:         batcher.DEFAULT_TICK_RATE,
		},
		transport.STDOUT,
		map[string]interface{}{config.VAR_NAME_WORKERS: 1},
		map[string]interface{}{config.VAR_NAME_DD_HOST: "127.0.0.1:8125", config.VAR_NAME_DD_TAGS: []string{}})
	if err != nil {
		return "harness-error " + err.Error()
	}
	started := make(chan struct{})
	go func() { close(started); r.Start() }()
	<-started
	// let every stage reach its loop and the client connect
	select {
	case <-sh.TerminateCtx.Done():
		return "term=1 early"
	case <-time.After(300 * time.Millisecond):
	}
	p := r.VerifParts()
	inject := func(f func()) {
		defer func() { recover() }() // closing a channel twice etc. must not kill the harness
		f()
	}
	switch fault {
	case "none":
	case "agg-panic":
		inject(func() {
			p.StatsChan <- stats.Stat{Component: "verif", StatType: stats.StatType("verif-unknown-type"), StatName: "boom", Unit: "count", Value: 1, Timestamp: time.Now().UnixNano()}
		})
	case "reporter-closed":
		inject(func() { close(p.Aggregator.GetOutputChan()) })
	case "filter-closed":
		inject(func() { close(p.Client.GetOutputChan()) })
	case "partitioner-closed":
		inject(func() { close(p.Filter.OutputChan) })
	case "marshaller-closed":
		inject(func() { close(p.Partitioner.OutputChan) })
	case "batcher-closed":
		inject(func() { close(p.Marshaller.OutputChan) })
	default:
		return "bad-op"
	}
	wait := 3 * time.Second
	if fault == "none" {
		wait = 700 * time.Millisecond
	}
	select {
	case <-sh.TerminateCtx.Done():
		return "term=1"
	case <-time.After(wait):
		return "term=0"
	}
}

// runnerIsolated runs one fault in a child process of this binary (hard timeout, retried once): every case
// gets a fresh Go runtime, and a stall of the real tracker's ticker handling cannot hang the check.
func runnerIsolated(fault string) string {
	for attempt := 0; attempt < 2; attempt++ {
		ctx, cancel := context.WithTimeout(context.Background(), 25*time.Second)
		out, _ := exec.CommandContext(ctx, os.Args[0], "-runnerchild", fault).Output()
		cancel()
		for _, l := range strings.Split(string(out), "\n") {
			if strings.HasPrefix(l, "RESULT ") {
				return strings.TrimPrefix(l, "RESULT ")
			}
		}
	}
	return "harness-error no result from the child process"
}

func runnerRun(c Case) ([]string, []string) {
	outs := []string{}
	for _, l := range c.Lines {
		w := strings.Fields(l)
		if len(w) != 3 || w[1] != "fault" {
			outs = append(outs, "bad-op")
			continue
		}
		outs = append(outs, runnerIsolated(w[2]))
	}
	return c.Lines, outs
}

func runnerGen(r *Rng, tier string) Case {
	return Case{[]string{"runner fault " + Pick(r, runnerFaults)}}
}

func runnerMonitor(lines, outs []string, m *Model) []Violation {
	for i, l := range lines {
		w := strings.Fields(l)
		if i >= len(outs) || len(w) != 3 {
			continue
		}
		if w[2] != "none" && outs[i] == "term=0" {
			return []Violation{{"C17", "assembled process (app.New + Runner.Start): fault `" + w[2] + "` killed a stage but the shared termination " +
				"signal was not raised within 3 s - main would keep waiting and pg-bifrost would keep running with that stage dead", ""}}
		}
		if w[2] == "none" && strings.HasPrefix(outs[i], "term=1") {
			return []Violation{{"C17", "assembled process stopped although no fault was injected (" + outs[i] + ")", ""}}
		}
	}
	return nil
}

func init() {
	register(&Component{Name: "runner", Gen: runnerGen, Run: runnerRun, Monitor: runnerMonitor, Quick: 14, Thorough: 120,
		Nontrivial: func(lines, outs []string) bool { return len(outs) > 0 && outs[0] == "term=1" }})
}
