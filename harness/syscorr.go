package main

import (
	"fmt"
	"reflect"
	"strconv"
	"strings"
	"time"

	"github.com/Nextdoor/pg-bifrost.git/marshaller"
	"github.com/Nextdoor/pg-bifrost.git/stats"
	"github.com/Nextdoor/pg-bifrost.git/transport"
	"github.com/Nextdoor/pg-bifrost.git/transport/progress"
	kbatch "github.com/Nextdoor/pg-bifrost.git/transport/transporters/kinesis/batch"
	awskinesis "github.com/aws/aws-sdk-go/service/kinesis"
	"github.com/cevaris/ordered_map"
)

// ---- syscorr: the pipeline harness as a differential correspondence for the composed model
// `Sys` (lean/PgBifrost/Model/Sys.lean, driver lean/PgBifrost/Driver/Sys.lean).
//
// The case script is a `pipeline …` script (stepped ledger, no `fault` ops). It is interpreted on
// the REAL assembled stages exactly as the `pipeline` component does; in addition every primitive
// event of the composition is observed and turned into a `sys …` request whose expected answer is
// what the implementation did:
//
//   pipeline cfg …            sys cfg <kind> <workers> <routing> <mem>                  ok
//   pipeline in … (message    sys feed <op> <pkey> <txn> <key> <len(json)> <lsn> <id> 0  batcher events of the step, in
//     reaches the batcher)      (fields read off the MarshalledMessage the batcher receives)   program order
//   pipeline in … (filtered)  nothing (the model only sees what reaches the batcher)
//   pipeline tick             sys tick <observed flush order>                           batcher events of the step
//   sink call of w arrives    sys take <w>                                              record ids of the request
//   pipeline gate w accept    sys accept <w>                                            record ids of the answered request
//   pipeline gate w fail      sys retry <w>     (when the call arrives again)          record ids of the repeated request
//   a written report consumed sys track                                                 the report [k:t:n;…]
//     by the stepped tracker    (predrain / ledger drain / ledger emit / settle), in the order consumed
//   pipeline ledger emit      sys emit                                                  some v | none
//   after every pipeline op   sys snap                                                  ledger, queue lengths, held, wchan, seen
//
// How program order is observed. The batcher is single threaded; each of its outputs is made a
// rendezvous with the harness's (single) serving loop: the seen channel is unbuffered anyway, the
// batcher gets its own unbuffered self-report channel and statistics channel, and the elements of
// its output-channel slice are replaced by unbuffered channels. The serving loop records the event
// and forwards it at once into the real shared written channel / the worker's buffered queue (same
// capacity as the original), so the composition downstream is unchanged.
//
// Written reports consumed by `predrain` WITHIN a batcher step: those consumed before the step's
// seen hand-over are sent before the `sys feed`/`sys tick` line, the others after it (a tracker
// action commutes with the rest of the step; see the header of Model/Sys.lean). ----

type sysEv struct {
	kind string // seen | dispatch | self | stat | track | emit
	text string
	pkey string                  // dispatch: partition key of the batch
	om   *ordered_map.OrderedMap // self: the transactions map of the flushed (empty) batch
}

type sysArr struct {
	w     int
	ids   []int
	retry bool
}

type sysObs struct {
	bw     chan *ordered_map.OrderedMap
	bstats chan stats.Stat
	taps   []chan transport.Batch // what the batcher sends on (unbuffered)
	qs     []chan transport.Batch // what the transporters read from
	evs    []sysEv                // serving loop only
	// under p.mu
	arrs         []sysArr
	lastDecision []string
	fed          []*marshaller.MarshalledMessage
	// serving loop only
	forwarded []int // batches put into worker w's queue
	accepted  []int // sink calls of worker w answered with accept
}

func newSysObs() *sysObs {
	return &sysObs{bw: make(chan *ordered_map.OrderedMap), bstats: make(chan stats.Stat)}
}

// tapInput: the messages the batcher receives (as the marshaller produced them)
func (o *sysObs) tapInput(p *pipe, in chan *marshaller.MarshalledMessage) <-chan *marshaller.MarshalledMessage {
	out := make(chan *marshaller.MarshalledMessage)
	go func() {
		defer close(out)
		for {
			select {
			case m, ok := <-in:
				if !ok {
					return
				}
				p.mu.Lock()
				o.fed = append(o.fed, m)
				p.mu.Unlock()
				select {
				case out <- m:
				case <-p.sh.TerminateCtx.Done():
					return
				}
			case <-p.sh.TerminateCtx.Done():
				return
			}
		}
	}()
	return out
}

// tapOutputs replaces the batcher's output channels (GetOutputChans returns the batcher's own slice)
// by rendezvous channels; the transporters read from queues of the original capacity.
func (o *sysObs) tapOutputs(p *pipe) {
	chans := p.b.GetOutputChans()
	for i := range chans {
		o.qs = append(o.qs, make(chan transport.Batch, cap(chans[i])))
		chans[i] = make(chan transport.Batch)
		o.taps = append(o.taps, chans[i])
	}
	o.lastDecision = make([]string, len(chans))
	o.forwarded = make([]int, len(chans))
	o.accepted = make([]int, len(chans))
}

// arrived is called by sinkWait with p.mu held
func (o *sysObs) arrived(w int, ids []int) {
	o.arrs = append(o.arrs, sysArr{w, append([]int{}, ids...), o.lastDecision[w] == "fail"})
}

func (o *sysObs) tracked(om *ordered_map.OrderedMap) {
	o.evs = append(o.evs, sysEv{kind: "track", text: showTxns(om)})
}

func (o *sysObs) emitted(v string) { o.evs = append(o.evs, sysEv{kind: "emit", text: v}) }

// drainTaps: at the end of a case nothing may keep the batcher from returning
func (o *sysObs) drainTaps(p *pipe) {
	go func() {
		for {
			select {
			case <-o.bw:
			case <-o.bstats:
			case <-p.bexit:
				return
			}
		}
	}()
	for _, t := range o.taps {
		go func(t chan transport.Batch) {
			for {
				select {
				case _, ok := <-t:
					if !ok {
						return
					}
				case <-p.bexit:
					return
				}
			}
		}(t)
	}
}

func showIntIds(ids []int) string {
	s := []string{}
	for _, i := range ids {
		s = append(s, strconv.Itoa(i))
	}
	return "[" + strings.Join(s, ",") + "]"
}

func sysBatchIds(b transport.Batch) []int {
	ids := []int{}
	switch pl := b.GetPayload().(type) {
	case []*marshaller.MarshalledMessage:
		for _, m := range pl {
			ids = append(ids, idFromJson(m.Json))
		}
	case []*awskinesis.PutRecordsRequestEntry:
		for _, r := range pl {
			ids = append(ids, idFromJson(r.Data))
		}
	}
	return ids
}

// serve is the single loop that serves the batcher's rendezvous points while it runs. In feed mode
// it ends when the batcher parks again (or the filter says nothing will arrive); in tick mode when
// the tick handler returned.
func (p *pipe) serve(feedMode, expectFilter bool, done, panicked chan bool) string {
	o := p.obs
	timeout := time.After(10 * time.Second)
	seenCh := p.seen
	taps := append([]chan transport.Batch{}, o.taps...)
	skipDrain := false
	for {
		// (not after the filter's asynchronous "passed" notice: the number of predrain draws stays a
		// function of the batcher's events, so a case replays with the same schedule)
		if !p.failStop && !skipDrain {
			p.predrain()
		}
		skipDrain = false
		cases := []reflect.SelectCase{
			{Dir: reflect.SelectRecv, Chan: reflect.ValueOf(seenCh)},
			{Dir: reflect.SelectRecv, Chan: reflect.ValueOf(o.bw)},
			{Dir: reflect.SelectRecv, Chan: reflect.ValueOf(o.bstats)},
			{Dir: reflect.SelectRecv, Chan: reflect.ValueOf(timeout)},
		}
		const (
			cSeen = iota
			cSelf
			cStat
			cTimeout
			cFdec
			cParked
			cExit
			cTerm
			cDone
			cPanicked
			cTap0
		)
		var fdec chan string
		var parked chan struct{}
		var bexit chan struct{}
		var term <-chan struct{}
		if feedMode {
			if expectFilter {
				fdec = p.fdec
			}
			parked, bexit, term = p.pc.parked, p.bexit, p.sh.TerminateCtx.Done()
		}
		cases = append(cases,
			reflect.SelectCase{Dir: reflect.SelectRecv, Chan: reflect.ValueOf(fdec)},
			reflect.SelectCase{Dir: reflect.SelectRecv, Chan: reflect.ValueOf(parked)},
			reflect.SelectCase{Dir: reflect.SelectRecv, Chan: reflect.ValueOf(bexit)},
			reflect.SelectCase{Dir: reflect.SelectRecv, Chan: reflect.ValueOf(term)},
			reflect.SelectCase{Dir: reflect.SelectRecv, Chan: reflect.ValueOf(done)},
			reflect.SelectCase{Dir: reflect.SelectRecv, Chan: reflect.ValueOf(panicked)})
		for _, t := range taps {
			cases = append(cases, reflect.SelectCase{Dir: reflect.SelectRecv, Chan: reflect.ValueOf(t)})
		}
		i, v, ok := reflect.Select(cases)
		switch i {
		case cSeen:
			if !ok {
				seenCh = nil
				continue
			}
			s := v.Interface().([]*progress.Seen)
			parts := []string{}
			for _, e := range s {
				parts = append(parts, fmt.Sprintf("%s:%s:%d:%d", unname(e.Transaction), unname(e.TimeBasedKey), e.TotalMsgs, e.CommitWalStart))
			}
			p.applySeen(s)
			o.evs = append(o.evs, sysEv{kind: "seen", text: "seen[" + strings.Join(parts, ";") + "]"})
		case cSelf:
			om := v.Interface().(*ordered_map.OrderedMap)
			o.evs = append(o.evs, sysEv{kind: "self", text: "self:" + showTxns(om), om: om})
			p.written <- om // the shared written FIFO (capacity 8192: never blocks here)
		case cStat:
			st := v.Interface().(stats.Stat)
			switch st.StatName {
			case "dropped_too_big", "dropped_msg_invalid", "batch_closed_early":
				o.evs = append(o.evs, sysEv{kind: "stat", text: "stat:" + st.StatName})
			}
			select {
			case p.statsCh <- st:
			case <-time.After(time.Second):
			}
		case cTimeout:
			return "timeout"
		case cFdec:
			d := v.Interface().(string)
			if d == "filtered" || d == "failure" {
				return "dropped"
			}
			expectFilter = false
			skipDrain = true
		case cParked:
			p.parked = true
			p.inSelect = false
			return "parked"
		case cExit:
			p.bdead = true
			return "exited"
		case cTerm:
			return "terminating"
		case cDone:
			if !v.Bool() {
				return "tick-false"
			}
			return "ok"
		case cPanicked:
			p.bdead = true
			p.tickPanicked = true
			return "tick-panic"
		default:
			w := i - cTap0
			if !ok {
				taps[w] = nil
				continue
			}
			b := v.Interface().(transport.Batch)
			o.evs = append(o.evs, sysEv{kind: "dispatch", pkey: b.GetPartitionKey(),
				text: fmt.Sprintf("dispatch:%d:%s:%s:%s:%d%s", w, hexs(b.GetPartitionKey()), showIntIds(sysBatchIds(b)), showTxns(b.GetTransactions()), b.GetPayloadByteSize(), kinesisKeys(b))})
			select {
			case o.qs[w] <- b:
				o.forwarded[w]++
			case <-time.After(10 * time.Second):
				return "timeout" // the real batcher would block on the full queue as well
			}
		}
	}
}

// settleWorkers waits until every worker that has an unfinished batch is at its gate (deterministic:
// the harness knows how many batches it put into each queue and how many calls it accepted).
func (p *pipe) settleWorkers() {
	o := p.obs
	for w := 0; w < p.workers; w++ {
		if o.forwarded[w] <= o.accepted[w] {
			continue
		}
		for i := 0; i < 10000; i++ {
			p.mu.Lock()
			c := p.pending[w]
			p.mu.Unlock()
			if c != nil {
				break
			}
			time.Sleep(200 * time.Microsecond)
		}
	}
	p.quiesce()
}

// sysRun collects the `sys` lines and the implementation's answers
type sysRun struct {
	p     *pipe
	lines []string
	outs  []string
	mark  int // events before this index are already rendered
	arr   int // arrivals before this index are already rendered
}

func (r *sysRun) add(line, out string) {
	r.lines = append(r.lines, line)
	r.outs = append(r.outs, out)
}

// flushTracks renders track/emit events of evs as lines
func (r *sysRun) flushTE(evs []sysEv) {
	for _, e := range evs {
		switch e.kind {
		case "track":
			r.add("sys track", e.text)
		case "emit":
			r.add("sys emit", e.text)
		}
	}
}

func (r *sysRun) newEvs() []sysEv {
	evs := r.p.obs.evs[r.mark:]
	r.mark = len(r.p.obs.evs)
	return evs
}

// flushArrivals: sink calls that arrived since the last flush
func (r *sysRun) flushArrivals() {
	p := r.p
	p.mu.Lock()
	arrs := append([]sysArr{}, p.obs.arrs[r.arr:]...)
	r.arr = len(p.obs.arrs)
	p.mu.Unlock()
	for _, a := range arrs {
		if a.retry {
			r.add(fmt.Sprintf("sys retry %d", a.w), showIntIds(a.ids))
		} else {
			r.add(fmt.Sprintf("sys take %d", a.w), showIntIds(a.ids))
		}
	}
}

// batStep renders one batcher step: tracks before the seen hand-over, the step, the other tracks
func (r *sysRun) batStep(line string, suffix string) {
	evs := r.newEvs()
	firstSeen := -1
	for i, e := range evs {
		if e.kind == "seen" {
			firstSeen = i
			break
		}
	}
	if firstSeen >= 0 {
		r.flushTE(evs[:firstSeen])
	}
	if line != "" {
		parts := []string{}
		for _, e := range evs {
			switch e.kind {
			case "seen", "dispatch", "self", "stat":
				parts = append(parts, e.text)
			}
		}
		out := "-"
		if len(parts) > 0 {
			out = strings.Join(parts, " ")
		}
		r.add(line, out+suffix)
	}
	if firstSeen >= 0 {
		r.flushTE(evs[firstSeen:])
	} else {
		r.flushTE(evs)
	}
}

func (r *sysRun) snap() {
	p := r.p
	items, cur := p.tracker.VerifLedgerSnapshot()
	is := []string{}
	for _, e := range items {
		is = append(is, fmt.Sprintf("%s:%s:%d:%d:%d", unname(e.Transaction), unname(e.TimeBasedKey), e.CommitWalStart, e.Count, e.TotalMsgs))
	}
	cs := [][2]int{}
	for t, k := range cur {
		a, _ := strconv.Atoi(unname(t))
		b, _ := strconv.Atoi(unname(k))
		cs = append(cs, [2]int{a, b})
	}
	sortPairs(cs)
	csS := []string{}
	for _, c := range cs {
		csS = append(csS, fmt.Sprintf("%d:%d", c[0], c[1]))
	}
	q, held := []string{}, []string{}
	p.mu.Lock()
	for w := 0; w < p.workers; w++ {
		q = append(q, strconv.Itoa(len(p.obs.qs[w])))
		if c := p.pending[w]; c != nil {
			held = append(held, showIntIds(c.ids))
		} else {
			held = append(held, "-")
		}
	}
	p.mu.Unlock()
	seen := 0
	if p.parked || p.inSelect { // the batcher goroutine is not running: its fields can be read
		seen = len(p.b.VerifSeenPending())
	}
	r.add("sys snap", fmt.Sprintf("items=%s cur=%s q=%s held=%s wchan=%d seen=%d", joinList(is, ";"), joinList(csS, ";"),
		strings.Join(q, ","), strings.Join(held, "/"), len(p.written), seen))
}

func (r *sysRun) feedLine(m *marshaller.MarshalledMessage) string {
	op, id := "DATA", 0
	switch m.Operation {
	case "BEGIN", "COMMIT":
		op = m.Operation
	default:
		id = idFromJson(m.Json)
		if id < 0 {
			id = 0
		}
	}
	return fmt.Sprintf("sys feed %s %s %s %s %d %d %d 0", op, hexs(m.PartitionKey), unname(m.Transaction), unname(m.TimeBasedKey), len(m.Json), m.WalStart, id)
}

func (r *sysRun) tick() string {
	p := r.p
	open := p.b.VerifOpenBatches() // the batcher goroutine is parked or blocked in its select
	omToKey := map[*ordered_map.OrderedMap]string{}
	for k, b := range open {
		omToKey[b.GetTransactions()] = k
	}
	done := make(chan bool, 1)
	panicked := make(chan bool, 1)
	go func() {
		defer func() {
			if rec := recover(); rec != nil {
				p.sh.CancelFunc()
				panicked <- true
			}
		}()
		done <- p.b.VerifHandleTicker()
	}()
	why := p.serve(false, false, done, panicked)
	p.settleWorkers()
	order := []string{}
	for _, e := range p.obs.evs[r.mark:] {
		switch e.kind {
		case "dispatch":
			order = append(order, hexs(e.pkey))
		case "self":
			order = append(order, hexs(omToKey[e.om]))
		}
	}
	suffix := ""
	if why != "ok" {
		suffix = " " + why
	} else if p.failStop {
		suffix = " tracker-panic"
	}
	r.batStep("sys tick "+joinList(order, ","), suffix)
	if !p.failStop { // after a tracker panic the process stops: what the workers still do is not compared
		r.flushArrivals()
	}
	return why
}

func (r *sysRun) gate(w int, decision string) string {
	p := r.p
	c := p.waitPending(w)
	if c == nil {
		return "nopending"
	}
	p.mu.Lock()
	p.obs.lastDecision[w] = decision
	p.mu.Unlock()
	before := len(p.written)
	c.give(decision)
	// the worker has processed the answer once this call is no longer the pending one
	for i := 0; i < 10000; i++ {
		p.mu.Lock()
		cur := p.pending[w]
		p.mu.Unlock()
		if cur != c {
			break
		}
		time.Sleep(100 * time.Microsecond)
	}
	if decision == "accept" {
		p.obs.accepted[w]++
		// the worker owes exactly one written report
		for i := 0; i < 1500 && len(p.written) == before; i++ {
			time.Sleep(200 * time.Microsecond)
		}
		r.add(fmt.Sprintf("sys accept %d", w), showIntIds(c.ids))
	}
	p.settleWorkers()
	r.flushArrivals()
	return decision
}

func syscorrSupported(cfg []string) bool {
	if len(cfg) != 12 || cfg[0] != "pipeline" || cfg[1] != "cfg" {
		return false
	}
	k := strings.Split(cfg[2], ":")
	if k[0] == "s3" && len(k) == 2 {
		if _, err := strconv.Atoi(k[1]); err != nil {
			return false
		}
	} else if cfg[2] != "kinesis" {
		return false
	}
	if n, err := strconv.Atoi(cfg[3]); err != nil || n < 1 || n > 16 {
		return false
	}
	return true
}

func syscorrRun(c Case) ([]string, []string) {
	r := &sysRun{}
	defer func() {
		if r.p != nil {
			r.p.stop()
		}
	}()
	seed := hashName(strings.Join(c.Lines, "\n"))
	for li, l := range c.Lines {
		w := strings.Fields(l)
		if len(w) < 2 || w[0] != "pipeline" {
			r.add(l, "bad-op")
			continue
		}
		if w[1] == "cfg" {
			if r.p != nil || li != 0 || !syscorrSupported(w) {
				return r.lines, r.outs // not a syscorr script: nothing to compare
			}
			w[10] = "stepped"
			p, err := newPipeOpt(w, NewRng(seed), newSysObs())
			if err != nil {
				r.add(l, "harness-error "+err.Error())
				return r.lines, r.outs
			}
			r.p = p
			r.add(l, "-")
			kind := "generic:" + strings.TrimPrefix(w[2], "s3:")
			if w[2] == "kinesis" {
				meth := "batch"
				if w[5] == "none" {
					meth = "walstart"
				}
				kind = fmt.Sprintf("kinesis:%s:%d:%d:%d", meth, kbatch.MAX_RECORDS, kbatch.MAX_BATCH_SIZE_BYTES, kbatch.MAX_RECORD_SIZE_BYTES)
			}
			r.add(fmt.Sprintf("sys cfg %s %d %s %s", kind, p.workers, w[4], w[9]), "ok")
			r.snap()
			continue
		}
		p := r.p
		if p == nil {
			return r.lines, r.outs
		}
		if p.bdead || p.failStop || p.sh.TerminateCtx.Err() != nil {
			break // the process stops here; the model is `dead` (or the case is over)
		}
		switch w[1] {
		case "in":
			if len(w) != 9 {
				r.add(l, "bad-op")
				continue
			}
			r.add(l, "-")
			m := p.feedPrep(w)
			for len(p.fdec) > 0 {
				<-p.fdec
			}
			p.mu.Lock()
			nfed := len(p.obs.fed)
			p.mu.Unlock()
			p.resumeBatcher()
			select {
			case p.in <- m:
			case <-p.sh.TerminateCtx.Done():
				return r.lines, r.outs
			case <-time.After(5 * time.Second):
				r.add("sys snap", "input-blocked")
				return r.lines, r.outs
			}
			why := p.serve(true, true, nil, nil)
			p.settleWorkers()
			p.mu.Lock()
			var got *marshaller.MarshalledMessage
			if len(p.obs.fed) > nfed {
				got = p.obs.fed[nfed]
			}
			p.mu.Unlock()
			suffix := ""
			if why != "parked" && why != "dropped" {
				suffix = " " + why
			} else if p.failStop {
				suffix = " tracker-panic"
			}
			if got != nil {
				r.batStep(r.feedLine(got), suffix)
			} else {
				r.batStep("", "")
			}
			if suffix != "" {
				return r.lines, r.outs
			}
			r.flushArrivals()
		case "tick":
			r.add(l, "-")
			if len(w) > 2 {
				ms, _ := strconv.Atoi(w[2])
				time.Sleep(time.Duration(ms) * time.Millisecond)
			}
			if !p.parked && !p.inSelect {
				continue
			}
			if why := r.tick(); why != "ok" || p.failStop {
				return r.lines, r.outs
			}
		case "gate":
			r.add(l, "-")
			if len(w) != 4 || (w[3] != "accept" && w[3] != "fail") {
				continue
			}
			wk, _ := strconv.Atoi(w[2])
			if wk >= p.workers {
				continue
			}
			r.gate(wk, w[3])
		case "ledger":
			r.add(l, "-")
			if len(w) >= 3 && w[2] == "emit" {
				p.drainWritten(p.rng.Intn(len(p.written) + 1))
				p.emit()
			} else if len(w) >= 4 {
				k, _ := strconv.Atoi(w[3])
				p.drainWritten(k)
			}
			r.flushTE(r.newEvs())
		case "settle":
			r.add(l, "-")
			idle := 0
			for round := 0; round < 160; round++ {
				progress := false
				for wk := 0; wk < p.workers; wk++ {
					for i := 0; i < 200; i++ {
						p.mu.Lock()
						c := p.pending[wk]
						p.mu.Unlock()
						if c == nil {
							break
						}
						r.gate(wk, "accept")
						progress = true
					}
				}
				if p.bdead || p.failStop {
					break
				}
				if p.parked || p.inSelect {
					if why := r.tick(); why != "ok" || p.failStop {
						return r.lines, r.outs
					}
				}
				p.drainWritten(len(p.written))
				p.emit()
				r.flushTE(r.newEvs())
				if p.settleDone() && !progress {
					idle++
					if idle >= 2 {
						break
					}
				} else {
					idle = 0
				}
			}
			p.settled = true
		default:
			// fault / faultcheck: not part of the correspondence
			return r.lines, r.outs
		}
		r.snap()
	}
	return r.lines, r.outs
}

func syscorrGen(rng *Rng, tier string) Case {
	c := pipelineGenOpt(rng, tier, true)
	cfg := strings.Fields(c.Lines[0])
	cfg[10], cfg[11] = "stepped", "1000"
	c.Lines[0] = strings.Join(cfg, " ")
	// malformed share (outside the replication client's grammar): one COMMIT delivered twice. The second
	// seen entry for the same delivery key makes the tracker panic ("CommitWalStart was not 0"): the
	// model's `dead` branch
	if rng.Chance(4) {
		idx := []int{}
		for i, l := range c.Lines {
			if strings.HasPrefix(l, "pipeline in COMMIT") {
				idx = append(idx, i)
			}
		}
		if len(idx) > 0 {
			i := Pick(rng, idx)
			dup := []string{c.Lines[i]}
			if rng.Chance(50) {
				dup = []string{"pipeline tick", c.Lines[i]}
			}
			c.Lines = append(c.Lines[:i+1], append(dup, c.Lines[i+1:]...)...)
		}
	}
	return c
}

func syscorrValid(lines []string) bool {
	if len(lines) == 0 || !syscorrSupported(strings.Fields(lines[0])) {
		return false
	}
	for _, l := range lines {
		if strings.HasPrefix(l, "pipeline fault") {
			return false
		}
	}
	return pipelineValid(lines)
}

func init() {
	register(&Component{Name: "syscorr", Gen: syscorrGen, Run: syscorrRun, Serial: true, Valid: syscorrValid,
		Quick: 150, Thorough: 3000,
		Nontrivial: func(lines, outs []string) bool {
			acc, emit := false, false
			for i, l := range lines {
				if i < len(outs) {
					acc = acc || strings.HasPrefix(l, "sys accept")
					emit = emit || (l == "sys emit" && strings.HasPrefix(outs[i], "some"))
				}
			}
			return acc && emit
		},
		Stats: func(lines, outs []string, d map[string]int) {
			inStep := false
			for i, l := range lines {
				if i >= len(outs) {
					break
				}
				w := strings.Fields(l)
				if w[0] == "pipeline" {
					inStep = w[1] == "in" || w[1] == "tick" || w[1] == "settle"
					if w[1] == "in" && i+1 < len(lines) && lines[i+1] == "sys snap" {
						d["in_filtered"]++
					}
					continue
				}
				o := outs[i]
				switch w[1] {
				case "feed", "tick":
					for _, t := range []string{"dispatch:", "self:", "seen[", "stat:dropped_too_big", "stat:batch_closed_early", "tracker-panic"} {
						d["ev_"+t] += strings.Count(o, t)
					}
					if strings.Count(o, "dispatch:")+strings.Count(o, "self:") > 1 {
						d["step_with_several_flushes"]++
					}
					if i > 0 && lines[i-1] == "sys track" {
						d["track_before_seen_within_step"]++
					}
					if w[1] == "tick" && len(w) > 2 && strings.Contains(w[2], ",") {
						d["tick_order_len_gt1"]++
					}
				case "track":
					if inStep && i+1 < len(lines) && (strings.HasPrefix(lines[i+1], "sys feed") || strings.HasPrefix(lines[i+1], "sys tick")) {
						d["track_then_step"]++
					}
					if strings.Contains(o, ";") {
						d["track_multi_txn_report"]++
					}
					if o == "[]" {
						d["track_empty_report"]++
					}
				case "take":
					if i > 0 && strings.HasPrefix(lines[i-1], "sys accept") {
						d["take_after_accept"]++
					} else {
						d["take_after_dispatch"]++
					}
				case "snap":
					if strings.Contains(o, "q=") {
						f := strings.Fields(o)
						for _, x := range f {
							if strings.HasPrefix(x, "q=") && strings.Trim(x[2:], "0,") != "" {
								d["snap_nonempty_queue"]++
							}
							if strings.HasPrefix(x, "wchan=") && x != "wchan=0" {
								d["snap_nonempty_wchan"]++
							}
							if strings.HasPrefix(x, "seen=") && x != "seen=0" {
								d["snap_pending_seen"]++
							}
						}
					}
				}
			}
		}})
}
