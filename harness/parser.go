package main

// Correspondence harness for the test_decoding decoder (property C09).
//
// Code under test: /repo/parselogical/parselogical.go as called by
// replication.XLogDataToWalMessage (/repo/replication/message.go).
// Lean side: Model/Parser.lean (index-faithful model), Model/TestDecoding.lean (reference
// encoder `render` and the faithful decoding `view`), Driver/Parser.lean (line protocol).
//
// Lines:
//   parser parse <hex>                 real decoder on the bytes, dump in the driver's format
//   parser renderck <hex> <change…>    Go re-implementation of `render` against the Lean one
//
// The Go `render` below is a byte-for-byte copy of TestDecoding.render; `renderck` lines keep
// the two encoders equal (the model answers `same` iff ITS render equals <hex>).

import (
	"encoding/hex"
	"fmt"
	"sort"
	"strconv"
	"strings"
	"sync"
	"time"

	"github.com/Nextdoor/pg-bifrost.git/replication"
	"github.com/jackc/pglogrepl"
)

// ---------------------------------------------------------------------------------------
// the printed objects (mirror of TestDecoding.Change)
// ---------------------------------------------------------------------------------------

type pRel struct{ schema, name string }

// kind: 'b' builtin (name printed verbatim), 'n' named, 'q' schema-qualified named
type pType struct {
	kind         byte
	schema, name string
	array        bool
}

// kind: 'N' null, 'T' toast, 'v' bare, 'B' bits, 't' text
type pLit struct {
	kind byte
	s    string
}

type pCol struct {
	name string
	typ  pType
	val  pLit
}

// present=false is `none` (" (no-tuple-data)" / no old-key section); present with no cols is `-`
type pTup struct {
	present bool
	cols    []pCol
}

type pChange struct {
	kind             string // begin commit insert update delete truncate
	xid              uint64
	rel              pRel
	old, new         pTup // insert: new; delete: new holds the (old) tuple; update: both
	rels             []pRel
	restart, cascade bool
}

// ---------------------------------------------------------------------------------------
// render (TestDecoding.lean)
// ---------------------------------------------------------------------------------------

// keywordText: copied verbatim from TestDecoding.keywordText
const pKeywordText = "all analyse analyze and any array as asc asymmetric both case cast check collate column constraint create " +
	"current_catalog current_date current_role current_time current_timestamp current_user default deferrable desc " +
	"distinct do else end except false fetch for foreign from grant group having in initially intersect into lateral " +
	"leading limit localtime localtimestamp not null offset on only or order placing primary references returning " +
	"select session_user some symmetric table then to trailing true union unique user using variadic when where " +
	"window with " +
	"authorization binary collation concurrently cross current_schema freeze full ilike inner is isnull join left " +
	"like natural notnull outer overlaps right similar tablesample verbose " +
	"between bigint bit boolean char character coalesce dec decimal exists extract float greatest grouping inout int " +
	"integer interval least national nchar none normalize nullif numeric out overlay position precision real row " +
	"setof smallint substring time timestamp treat trim values varchar xmlattributes xmlconcat xmlelement xmlexists " +
	"xmlforest xmlnamespaces xmlparse xmlpi xmlroot xmlserialize xmltable"

var pKeywords = func() map[string]bool {
	m := map[string]bool{}
	for _, w := range strings.Split(pKeywordText, " ") {
		if w != "" {
			m[w] = true
		}
	}
	return m
}()

func pIsSafeStart(c byte) bool { return (c >= 'a' && c <= 'z') || c == '_' }
func pIsSafeChar(c byte) bool {
	return (c >= 'a' && c <= 'z') || (c >= '0' && c <= '9') || c == '_'
}

func pNeedsQuote(s string) bool {
	if len(s) == 0 {
		return true
	}
	if !pIsSafeStart(s[0]) {
		return true
	}
	for i := 0; i < len(s); i++ {
		if !pIsSafeChar(s[i]) {
			return true
		}
	}
	return pKeywords[s]
}

// dbl: every occurrence of q doubled
func pDbl(q byte, s string) string {
	b := make([]byte, 0, len(s)+2)
	for i := 0; i < len(s); i++ {
		if s[i] == q {
			b = append(b, q, q)
		} else {
			b = append(b, s[i])
		}
	}
	return string(b)
}

func pQuoted(q byte, s string) string { return string(q) + pDbl(q, s) + string(q) }

func pQuoteIdent(s string) string {
	if pNeedsQuote(s) {
		return pQuoted('"', s)
	}
	return s
}

func pRenderRel(r pRel) string { return pQuoteIdent(r.schema) + "." + pQuoteIdent(r.name) }

func pRenderType(t pType) string {
	var b string
	switch t.kind {
	case 'b':
		b = t.name
	case 'n':
		b = pQuoteIdent(t.name)
	default:
		b = pQuoteIdent(t.schema) + "." + pQuoteIdent(t.name)
	}
	if t.array {
		b += "[]"
	}
	return b
}

func pRenderLit(l pLit) string {
	switch l.kind {
	case 'N':
		return "null"
	case 'T':
		return "unchanged-toast-datum"
	case 'v':
		return l.s
	case 'B':
		return "B'" + l.s + "'"
	}
	return pQuoted('\'', l.s)
}

func pColBody(c pCol) string {
	return pQuoteIdent(c.name) + "[" + pRenderType(c.typ) + "]:" + pRenderLit(c.val)
}

func pRenderCols(cs []pCol) string {
	var sb strings.Builder
	for _, c := range cs {
		sb.WriteByte(' ')
		sb.WriteString(pColBody(c))
	}
	return sb.String()
}

func pRenderTup(t pTup) string {
	if !t.present {
		return " (no-tuple-data)"
	}
	return pRenderCols(t.cols)
}

func pRenderOld(t pTup) string {
	if !t.present {
		return ""
	}
	return " old-key:" + pRenderCols(t.cols) + " new-tuple:"
}

func pRenderDml(rel, op string, old, new pTup) string {
	return "table " + rel + ": " + op + ":" + pRenderOld(old) + pRenderTup(new)
}

func pJoinRels(rs []pRel) string {
	parts := make([]string, len(rs))
	for i, r := range rs {
		parts[i] = pRenderRel(r)
	}
	return strings.Join(parts, ", ")
}

func pTruncFlags(restart, cascade bool) string {
	if restart || cascade {
		s := ""
		if restart {
			s += " restart_seqs"
		}
		if cascade {
			s += " cascade"
		}
		return s
	}
	return " (no-flags)"
}

func pRender(m *pChange) string {
	none := pTup{}
	switch m.kind {
	case "begin":
		return "BEGIN " + strconv.FormatUint(m.xid, 10)
	case "commit":
		return "COMMIT " + strconv.FormatUint(m.xid, 10)
	case "insert":
		return pRenderDml(pRenderRel(m.rel), "INSERT", none, m.new)
	case "update":
		return pRenderDml(pRenderRel(m.rel), "UPDATE", m.old, m.new)
	case "delete":
		return pRenderDml(pRenderRel(m.rel), "DELETE", none, m.new)
	}
	return "table " + pJoinRels(m.rels) + ": TRUNCATE:" + pTruncFlags(m.restart, m.cascade)
}

// ---------------------------------------------------------------------------------------
// structured <change> encoding (Driver/Parser.lean header)
// ---------------------------------------------------------------------------------------

func pEncRel(r pRel) string { return hexs(r.schema) + "." + hexs(r.name) }

func pEncType(t pType) string {
	a := "s"
	if t.array {
		a = "a"
	}
	switch t.kind {
	case 'b':
		return a + "b" + hexs(t.name)
	case 'n':
		return a + "n" + hexs(t.name)
	}
	return a + "q" + hexs(t.schema) + "." + hexs(t.name)
}

func pEncLit(l pLit) string {
	switch l.kind {
	case 'N':
		return "N"
	case 'T':
		return "T"
	}
	return string(l.kind) + hexs(l.s)
}

func pEncTup(t pTup) string {
	if !t.present {
		return "none"
	}
	parts := make([]string, len(t.cols))
	for i, c := range t.cols {
		parts[i] = hexs(c.name) + ":" + pEncType(c.typ) + ":" + pEncLit(c.val)
	}
	return joinList(parts, ",")
}

func pB01(b bool) string {
	if b {
		return "1"
	}
	return "0"
}

func pEncChange(m *pChange) string {
	switch m.kind {
	case "begin", "commit":
		return m.kind + " " + strconv.FormatUint(m.xid, 10)
	case "insert", "delete":
		return m.kind + " " + pEncRel(m.rel) + " " + pEncTup(m.new)
	case "update":
		return "update " + pEncRel(m.rel) + " " + pEncTup(m.old) + " " + pEncTup(m.new)
	}
	parts := make([]string, len(m.rels))
	for i, r := range m.rels {
		parts[i] = pEncRel(r)
	}
	return "truncate " + pB01(m.restart) + " " + pB01(m.cascade) + " " + joinList(parts, ",")
}

func pUnhex(s string) (string, bool) {
	if s == "e" {
		return "", true
	}
	b, err := hex.DecodeString(s)
	if err != nil {
		return "", false
	}
	return string(b), true
}

func pDecRel(s string) (pRel, bool) {
	p := strings.Split(s, ".")
	if len(p) != 2 {
		return pRel{}, false
	}
	a, ok1 := pUnhex(p[0])
	b, ok2 := pUnhex(p[1])
	return pRel{a, b}, ok1 && ok2
}

func pDecType(s string) (pType, bool) {
	if len(s) < 2 || (s[0] != 's' && s[0] != 'a') {
		return pType{}, false
	}
	t := pType{kind: s[1], array: s[0] == 'a'}
	body := s[2:]
	var ok bool
	switch s[1] {
	case 'b', 'n':
		t.name, ok = pUnhex(body)
		return t, ok
	case 'q':
		p := strings.Split(body, ".")
		if len(p) != 2 {
			return t, false
		}
		var ok2 bool
		t.schema, ok = pUnhex(p[0])
		t.name, ok2 = pUnhex(p[1])
		return t, ok && ok2
	}
	return t, false
}

func pDecLit(s string) (pLit, bool) {
	if s == "N" || s == "T" {
		return pLit{kind: s[0]}, true
	}
	if len(s) >= 1 && (s[0] == 'v' || s[0] == 'B' || s[0] == 't') {
		v, ok := pUnhex(s[1:])
		return pLit{s[0], v}, ok
	}
	return pLit{}, false
}

func pDecTup(s string) (pTup, bool) {
	if s == "none" {
		return pTup{}, true
	}
	t := pTup{present: true}
	if s == "-" {
		return t, true
	}
	for _, cs := range strings.Split(s, ",") {
		p := strings.Split(cs, ":")
		if len(p) != 3 {
			return t, false
		}
		n, ok1 := pUnhex(p[0])
		ty, ok2 := pDecType(p[1])
		v, ok3 := pDecLit(p[2])
		if !(ok1 && ok2 && ok3) {
			return t, false
		}
		t.cols = append(t.cols, pCol{n, ty, v})
	}
	return t, true
}

func pDecNat(s string) (uint64, bool) {
	if s == "" {
		return 0, false
	}
	for i := 0; i < len(s); i++ {
		if s[i] < '0' || s[i] > '9' {
			return 0, false
		}
	}
	n, err := strconv.ParseUint(s, 10, 64)
	return n, err == nil
}

func pDecBit(s string) (bool, bool) { return s == "1", s == "1" || s == "0" }

func pDecChange(w []string) (*pChange, bool) {
	if len(w) == 0 {
		return nil, false
	}
	m := &pChange{kind: w[0]}
	var ok, ok2, ok3 bool
	switch {
	case (w[0] == "begin" || w[0] == "commit") && len(w) == 2:
		m.xid, ok = pDecNat(w[1])
		return m, ok
	case (w[0] == "insert" || w[0] == "delete") && len(w) == 3:
		m.rel, ok = pDecRel(w[1])
		m.new, ok2 = pDecTup(w[2])
		return m, ok && ok2
	case w[0] == "update" && len(w) == 4:
		m.rel, ok = pDecRel(w[1])
		m.old, ok2 = pDecTup(w[2])
		m.new, ok3 = pDecTup(w[3])
		return m, ok && ok2 && ok3
	case w[0] == "truncate" && len(w) == 4:
		m.restart, ok = pDecBit(w[1])
		m.cascade, ok2 = pDecBit(w[2])
		if !(ok && ok2) {
			return m, false
		}
		if w[3] != "-" {
			for _, rs := range strings.Split(w[3], ",") {
				r, ok := pDecRel(rs)
				if !ok {
					return m, false
				}
				m.rels = append(m.rels, r)
			}
		}
		return m, true
	}
	return nil, false
}

// a printed-but-EMPTY tuple in insert / delete / update-new position
func pHasEmptyTuple(m *pChange) bool {
	switch m.kind {
	case "insert", "update", "delete":
		return m.new.present && len(m.new.cols) == 0
	}
	return false
}

// ---------------------------------------------------------------------------------------
// Run: the real decoder
// ---------------------------------------------------------------------------------------

var pErrKinds = [][2]string{
	{"message too short", "tooShort"},
	{"unknown transaction message", "unknownTxnMsg"},
	{"unknown logical message", "unknownMsg"},
	{"invalid character", "invalidChar"},
	{"invalid parser end State", "invalidEndState"},
	{"invalid parse State null", "nullState"},
}

func pDumpCols(m map[string]parserCV) string {
	names := make([]string, 0, len(m))
	for k := range m {
		names = append(names, k)
	}
	sort.Strings(names)
	parts := make([]string, len(names))
	for i, k := range names {
		v := m[k]
		parts[i] = hexs(k) + ":" + hexs(v.Value) + ":" + hexs(v.Type) + ":" + pB01(v.Quoted)
	}
	return joinList(parts, ",")
}

type parserCV struct {
	Value, Type string
	Quoted      bool
}

// pParseReal calls replication.XLogDataToWalMessage exactly as the replication client does.
func pParseReal(data []byte) string {
	ch := make(chan string, 1)
	go func() {
		defer func() {
			if r := recover(); r != nil {
				ch <- "panic"
			}
		}()
		wm, err := replication.XLogDataToWalMessage(pglogrepl.XLogData{WALData: data})
		if err != nil {
			txt := err.Error()
			for _, k := range pErrKinds {
				if strings.HasPrefix(txt, k[0]) {
					ch <- "err:" + k[1]
					return
				}
			}
			ch <- "err:other"
			return
		}
		// pgproto3 hands the client a view into its read buffer that is only valid until the next Receive:
		// the next message overwrites these bytes while earlier changes are still queued downstream. The
		// decoded change must not alias them, so the input is overwritten before the result is looked at.
		dump := func() string {
			pr := wm.Pr
			cols := make(map[string]parserCV, len(pr.Columns))
			for k, v := range pr.Columns {
				cols[k] = parserCV{v.Value, v.Type, v.Quoted}
			}
			old := make(map[string]parserCV, len(pr.OldColumns))
			for k, v := range pr.OldColumns {
				old[k] = parserCV{v.Value, v.Type, v.Quoted}
			}
			return fmt.Sprintf("ok op=%s txn=%s rel=%s ntd=%s cols=%s old=%s",
				hexs(pr.Operation), hexs(pr.Transaction), hexs(pr.Relation), pB01(pr.NoTupleData), pDumpCols(cols), pDumpCols(old))
		}
		before := dump()
		for i := range data {
			data[i] = 'Z'
		}
		after := dump()
		if after != before {
			after += " ALIASED"
		}
		ch <- after
	}()
	select {
	case o := <-ch:
		return o
	case <-time.After(5 * time.Second):
		return "hang"
	}
}

func parserRun(c Case) ([]string, []string) {
	outs := make([]string, 0, len(c.Lines))
	for _, l := range c.Lines {
		w := strings.Fields(l)
		switch {
		case len(w) == 3 && w[0] == "parser" && w[1] == "parse":
			b, ok := pUnhex(w[2])
			if !ok {
				outs = append(outs, "bad-op")
				continue
			}
			outs = append(outs, pParseReal([]byte(b)))
		case len(w) >= 4 && w[0] == "parser" && w[1] == "renderck":
			want, ok := pUnhex(w[2])
			m, ok2 := pDecChange(w[3:])
			if !ok || !ok2 {
				outs = append(outs, "bad-op")
				continue
			}
			got := pRender(m)
			if got == want {
				outs = append(outs, "same")
			} else {
				outs = append(outs, "differ:"+hexs(got))
			}
		default:
			outs = append(outs, "bad-op")
		}
	}
	return c.Lines, outs
}

// ---------------------------------------------------------------------------------------
// Gen
// ---------------------------------------------------------------------------------------

var (
	pIdPlain   = []string{"public", "t1", "_x9", "id", "name", "created_at", "a", "b", "col_2", "customers", "audit", "k", "v", "x"}
	pIdKeyword = []string{"select", "user", "table", "integer", "time", "null", "true", "order", "bit", "timestamp", "end", "char", "none", "xmltable", "all"}
	pIdUpper   = []string{"MyTable", "ID", "userId", "Public", "T", "ORDER", "a_B", "Zz9"}
	pIdSpace   = []string{"my table", " lead", "trail ", "a  b", " ", "two words here", "t 1"}
	pIdDquote  = []string{"a\"b", "\"lead", "trail\"", "a\"\"b", "\"", "\"\"", "\"q\"", "x\"\"\"", "\" \""}
	pIdSpecial = []string{"a:b", "a[b", "a]b", "a.b", "a,b", "a(b", "a'b", "x[int]:1", "a]:b", ": ", "a: b", "[]", "]:", "a[]", "s.t", "a, b", "(", "''", "it's", "a[text]:'v'", "t: INSERT:", "a\"[\"b", "-", "a-b"}
	pIdDigit   = []string{"1abc", "9", "0_", "42col", "2024_log"}
	pIdMarker  = []string{"old-key", "new-tuple", "(no-tuple-data)", "old-key:", "new-tuple:", "(no-flags)", "TRUNCATE", "INSERT", "BEGIN", "null", "unchanged-toast-datum"}
	pIdUTF8    = []string{"é", "表", "😀", "naïve", "表_1", "日本語", "ünï", "a😀b", "\u00a0", "a\u2028b", "\u3000x"}

	pBuiltins = []string{"integer", "bigint", "text", "character varying", "timestamp without time zone", "timestamp with time zone",
		"double precision", "bit", "bit varying", "\"char\"", "numeric", "boolean", "jsonb", "uuid", "bytea", "???",
		"smallint", "real", "character", "date", "time without time zone", "interval", "oid", "json", "inet"}
	pBareTypes = []string{"integer", "bigint", "numeric", "double precision", "boolean", "smallint", "real", "oid"}
	pTextTypes = []string{"text", "character varying", "timestamp without time zone", "timestamp with time zone", "\"char\"", "jsonb", "uuid", "bytea", "character", "date", "json", "inet", "???"}

	pBareVals = []string{"0", "-17", "3.14", "1e+10", "NaN", "-Infinity", "Infinity", "true", "false", "1", "-1", "42",
		"2147483647", "-9223372036854775808", "123456789012345678901234567890.123456789", "0.000000000000000000001",
		"-0", "1.7976931348623157e+308", "4294967295", "99999999999999999999999999999999999999999999"}
	pBitVals  = []string{"", "0", "1", "1010", "00000000", "11111111", "101", "0101010101010101", "1111000011110000111100001111"}
	pTextVals = []string{"", "plain", "hello world", " leading", "trailing ", "two  spaces", "it's", "'", "''", "'''", "'lead", "trail'", "a''b", "'a' 'b'",
		"[", "]", "a[b]c", ":", "a:b", "\"", "say \"hi\"", "line1\nline2", "tab\there", "back\\slash", "\\'", "\\", "null", "unchanged-toast-datum",
		" x[int]:1", " x[int]:1 y[text]:'z'", "x[text]:'v'", "é", "表", "😀", "naïve café", "日本語 テキスト", "{\"a\": [1, 2], \"b\": \"c d\"}", "2024-01-02 03:04:05.678+00",
		"(no-tuple-data)", " (no-tuple-data)", "old-key:", " new-tuple: a[int]:1", "B'1010'", "' ", " '", "' '", "a ' b", "]:", "\x00", "a\x00b", "\r\n"}
	pTextAlpha = []string{"a", "b", "z", "0", "1", " ", " ", "'", "'", "[", "]", ":", "\"", "\n", "\t", "\\", ".", ",", "(", ")", "-", "é", "表", "😀", "\x00", "\xff", "\u00a0", "\u2028"}
	pIdAlpha   = []string{"a", "b", "z", "_", "0", "9", "A", "Z", " ", "\"", "\"", ":", "[", "]", ".", ",", "(", ")", "'", "-", "é", "表", "😀", "\x00", "\xff", "\xc2", "\n", "\t"}
)

func pGenCompose(r *Rng, alpha []string, lo, hi int) string {
	n := r.Range(lo, hi)
	var sb strings.Builder
	for i := 0; i < n; i++ {
		sb.WriteString(Pick(r, alpha))
	}
	return sb.String()
}

func pGenIdent(r *Rng) string {
	x := r.Intn(100)
	switch {
	case x < 34:
		return Pick(r, pIdPlain)
	case x < 44:
		return Pick(r, pIdKeyword)
	case x < 52:
		return Pick(r, pIdUpper)
	case x < 58:
		return Pick(r, pIdSpace)
	case x < 67:
		return Pick(r, pIdDquote)
	case x < 79:
		return Pick(r, pIdSpecial)
	case x < 83:
		return Pick(r, pIdDigit)
	case x < 88:
		return Pick(r, pIdMarker)
	case x < 95:
		return Pick(r, pIdUTF8)
	case x < 96:
		return ""
	}
	return pGenCompose(r, pIdAlpha, 1, 8)
}

// lit: the literal class the type is generated for ('v' bare, 'B' bits, anything else text-like)
func pGenType(r *Rng, lit byte) pType {
	t := pType{array: r.Chance(18)}
	x := r.Intn(100)
	switch {
	case x < 60:
		t.kind = 'b'
		switch {
		case r.Chance(25):
			t.name = Pick(r, pBuiltins)
		case lit == 'B':
			t.name = Pick(r, []string{"bit", "bit varying"})
		case lit == 'v':
			t.name = Pick(r, pBareTypes)
		default:
			t.name = Pick(r, pTextTypes)
		}
	case x < 85:
		t.kind = 'n'
		t.name = pGenIdent(r)
	default:
		t.kind = 'q'
		t.schema = pGenIdent(r)
		t.name = pGenIdent(r)
	}
	return t
}

func pGenLit(r *Rng) pLit {
	x := r.Intn(100)
	switch {
	case x < 8:
		return pLit{kind: 'N'}
	case x < 12:
		return pLit{kind: 'T'}
	case x < 38:
		if r.Chance(15) {
			// random numeric
			s := ""
			if r.Chance(30) {
				s = "-"
			}
			s += pGenCompose(r, []string{"0", "1", "2", "3", "4", "5", "6", "7", "8", "9"}, 1, 30)
			if r.Chance(40) {
				s += "." + pGenCompose(r, []string{"0", "1", "5", "9"}, 1, 12)
			}
			return pLit{'v', s}
		}
		return pLit{'v', Pick(r, pBareVals)}
	case x < 46:
		if r.Chance(30) {
			return pLit{'B', pGenCompose(r, []string{"0", "1"}, 0, 70)}
		}
		return pLit{'B', Pick(r, pBitVals)}
	}
	y := r.Intn(100)
	switch {
	case y < 70:
		return pLit{'t', Pick(r, pTextVals)}
	case y < 95:
		return pLit{'t', pGenCompose(r, pTextAlpha, 0, 14)}
	}
	// long value, 200–400 bytes
	target := r.Range(200, 400)
	var sb strings.Builder
	for sb.Len() < target {
		if r.Chance(20) {
			sb.WriteString(Pick(r, pTextAlpha))
		} else {
			sb.WriteString(Pick(r, []string{"lorem", "ipsum ", "dolor's ", "sit", "amet, ", "0123456789"}))
		}
	}
	s := sb.String()
	if len(s) > 400 {
		s = s[:400]
	}
	return pLit{'t', s}
}

func pGenCols(r *Rng, lo, hi int) []pCol {
	n := r.Range(lo, hi)
	seen := map[string]bool{}
	cols := []pCol{}
	for i := 0; i < n; i++ {
		name := pGenIdent(r)
		for tries := 0; seen[name] && tries < 8; tries++ {
			name = pGenIdent(r)
		}
		if seen[name] {
			name = fmt.Sprintf("c_%d", i)
			for seen[name] {
				name += "_"
			}
		}
		seen[name] = true
		v := pGenLit(r)
		cols = append(cols, pCol{name, pGenType(r, v.kind), v})
	}
	return cols
}

// a tuple in new-tuple position: none / columns / (rarely) printed but empty
func pGenNewTup(r *Rng) pTup {
	x := r.Intn(100)
	switch {
	case x < 2:
		return pTup{present: true}
	case x < 14:
		return pTup{}
	}
	return pTup{true, pGenCols(r, 1, 6)}
}

func pGenRel(r *Rng) pRel { return pRel{pGenIdent(r), pGenIdent(r)} }

func pGenXid(r *Rng) uint64 {
	switch r.Intn(6) {
	case 0:
		return 0
	case 1:
		return 1
	case 2:
		return 4294967295
	case 3:
		return uint64(r.Range(2, 100000))
	}
	return r.U64() & 0xffffffff
}

func pGenChange(r *Rng) *pChange {
	x := r.Intn(100)
	switch {
	case x < 8:
		return &pChange{kind: "begin", xid: pGenXid(r)}
	case x < 16:
		return &pChange{kind: "commit", xid: pGenXid(r)}
	case x < 40:
		return &pChange{kind: "insert", rel: pGenRel(r), new: pGenNewTup(r)}
	case x < 74:
		m := &pChange{kind: "update", rel: pGenRel(r)}
		if r.Chance(55) {
			if r.Chance(8) {
				m.old = pTup{present: true} // old-key section printed with no attribute
			} else {
				m.old = pTup{true, pGenCols(r, 1, 4)}
			}
			if r.Chance(15) {
				m.new = pTup{}
			} else {
				m.new = pGenNewTup(r)
			}
		} else {
			m.new = pGenNewTup(r)
		}
		return m
	case x < 90:
		return &pChange{kind: "delete", rel: pGenRel(r), new: pGenNewTup(r)}
	}
	m := &pChange{kind: "truncate", restart: r.Chance(50), cascade: r.Chance(50)}
	for i := r.Range(1, 3); i > 0; i-- {
		m.rels = append(m.rels, pGenRel(r))
	}
	return m
}

var pSpecialBytes = []byte{':', '[', ']', '\'', '"', ' ', '(', ')', 0, '.', ',', '-', '\t', '\n', 0xC2, 0xE2, 0xFF, 'a'}
var pDelims = []byte{':', '[', ']', '\'', '"', ' '}

func pMutate(r *Rng, s []byte) ([]byte, string) {
	b := append([]byte{}, s...)
	if len(b) == 0 {
		return []byte{0}, "insnul"
	}
	positionsOf := func(d byte) []int {
		ps := []int{}
		for i, c := range b {
			if c == d {
				ps = append(ps, i)
			}
		}
		return ps
	}
	pickDelimPos := func() int {
		start := r.Intn(len(pDelims))
		for k := 0; k < len(pDelims); k++ {
			if ps := positionsOf(pDelims[(start+k)%len(pDelims)]); len(ps) > 0 {
				return Pick(r, ps)
			}
		}
		return r.Intn(len(b))
	}
	switch r.Intn(7) {
	case 0:
		return b[:r.Intn(len(b)+1)], "trunc"
	case 1:
		i := r.Intn(len(b))
		if r.Chance(75) {
			b[i] = Pick(r, pSpecialBytes)
		} else {
			b[i] ^= byte(1 << uint(r.Intn(8)))
		}
		return b, "replace"
	case 2:
		i := pickDelimPos()
		return append(b[:i], b[i+1:]...), "deldelim"
	case 3:
		i := pickDelimPos()
		out := append([]byte{}, b[:i+1]...)
		out = append(out, b[i])
		return append(out, b[i+1:]...), "dupdelim"
	case 4:
		i := r.Intn(len(b) + 1)
		out := append([]byte{}, b[:i]...)
		out = append(out, 0)
		return append(out, b[i:]...), "insnul"
	case 5:
		if len(b) >= 2 {
			i := r.Intn(len(b) - 1)
			b[i], b[i+1] = b[i+1], b[i]
		}
		return b, "swap"
	}
	// replace one delimiter by another delimiter
	i := pickDelimPos()
	b[i] = Pick(r, pDelims)
	return b, "redelim"
}

var pRawAlpha = append([]byte("table BEGINCOMIT:[]'\"( )-.,"),
	0, '\t', '\n', '\v', '\f', '\r', 0xC2, 0x85, 0xA0, 0xE1, 0x9A, 0x80, 0xE2, 0x81, 0x9F, 0xA8, 0xAF, 0xE3, 0xF0, 0xFF, 'a', '1')

var pValueTokAlpha = []byte{'B', 'B', '\'', '\'', '\'', '1', '0', 'x', 'b', ' ', 0, ':', '[', ']', '"'}

var pRawPrefixes = []string{"table ", "BEGIN", "COMMIT", "BEGIN ", "COMMI"}

// UTF-8 encodings of the Unicode white space strings.Fields splits on (besides ASCII)
var pUniSpaces = []string{"\xc2\x85", "\xc2\xa0", "\xe1\x9a\x80", "\xe2\x80\x80", "\xe2\x80\x81", "\xe2\x80\x82", "\xe2\x80\x83",
	"\xe2\x80\x84", "\xe2\x80\x85", "\xe2\x80\x86", "\xe2\x80\x87", "\xe2\x80\x88", "\xe2\x80\x89", "\xe2\x80\x8a",
	"\xe2\x80\xa8", "\xe2\x80\xa9", "\xe2\x80\xaf", "\xe2\x81\x9f", "\xe3\x80\x80", " ", "\t", "\n", "\v", "\f", "\r"}

// invalid UTF-8 and near misses of the white-space encodings
var pUniJunk = []string{"\xe2", "\xe2\x80", "\xf0\x9f", "\xc2", "\xe1\x9a", "\xe3\x80", "\xff", "\x80", "\x85", "\xa0",
	"\xe2\x80\x8b", "\xe2\x80\xaa", "\xe2\x81\x9e", "\xc2\x84", "\xc2\xa1", "\xe1\x9a\x81", "\xe3\x80\x81", "\xf0\x9f\x98\x80", "\xe2\x80\xc2", "\xc2\xc2", "\x00"}

func pGenRaw(r *Rng) ([]byte, string) {
	if r.Chance(30) {
		// BEGIN / COMMIT with Unicode separators, possibly next to invalid UTF-8
		var sb strings.Builder
		sb.WriteString(Pick(r, []string{"BEGIN", "COMMIT", "COMMI", "BEGINx"}))
		nf := r.Range(0, 3)
		for f := 0; f < nf; f++ {
			if r.Chance(25) {
				sb.WriteString(Pick(r, pUniJunk))
			}
			for k := r.Range(1, 2); k > 0; k-- {
				if r.Chance(90) {
					sb.WriteString(Pick(r, pUniSpaces))
				} else {
					sb.WriteString(Pick(r, pUniJunk))
				}
			}
			if r.Chance(25) {
				sb.WriteString(Pick(r, pUniJunk))
			}
			if r.Chance(85) {
				sb.WriteString(Pick(r, []string{"12", "7", "x", "0", "4294967295", "a1"}))
			}
		}
		if r.Chance(20) {
			sb.WriteString(Pick(r, pUniSpaces))
		}
		if r.Chance(10) {
			sb.WriteString(Pick(r, pUniJunk))
		}
		return []byte(sb.String()), "unicode"
	}
	if r.Chance(12) {
		// value tokens around the cut of a quoted value (`B'…'`, quotes in odd places, NUL, several columns)
		b := []byte(Pick(r, []string{"table s.t: INSERT: a[t]:", "table s.t: UPDATE: old-key: k[bit]:B'1' new-tuple: a[bit varying]:", "table \"B\".\"B'\": DELETE: \"B\"[\"B\"]:"}))
		for k := r.Range(1, 3); k > 0; k-- {
			for n := r.Range(0, 7); n > 0; n-- {
				b = append(b, Pick(r, pValueTokAlpha))
			}
			if k > 1 {
				b = append(b, Pick(r, []string{" b[t]:", " B[B]:", " ", " B", " b[t[]]:B"})...)
			}
		}
		return b, "valuetok"
	}
	tag := "plain"
	b := []byte{}
	if r.Chance(72) {
		b = append(b, Pick(r, pRawPrefixes)...)
		tag = "prefixed"
	}
	n := r.Range(0, 40)
	if len(b) > n {
		n = len(b)
	}
	for len(b) < n {
		switch {
		case r.Chance(6):
			b = append(b, Pick(r, pUniSpaces)...)
		case r.Chance(5):
			b = append(b, Pick(r, []string{": ", "]:", ": INSERT: ", ": TRUNCATE: ", "(no-tuple-data)", "old-key: ", "new-tuple: ", "''", "\"\"", "[]"})...)
		default:
			b = append(b, Pick(r, pRawAlpha))
		}
	}
	return b, tag
}

// side table: which stream / mutation produced a `parse` line (for Stats only)
var (
	pTagMu sync.Mutex
	pTags  = map[uint64]string{}
)

func pTagLine(l, tag string) {
	pTagMu.Lock()
	pTags[hashName(l)] = tag
	pTagMu.Unlock()
}

func pTagOf(l string) string {
	pTagMu.Lock()
	defer pTagMu.Unlock()
	return pTags[hashName(l)]
}

func parserGen(r *Rng, tier string) Case {
	lines := []string{}
	for n := r.Range(1, 4); n > 0; n-- {
		x := r.Intn(100)
		switch {
		case x < 60:
			m := pGenChange(r)
			h := hexs(pRender(m))
			lines = append(lines, "parser renderck "+h+" "+pEncChange(m), "parser parse "+h)
		case x < 85:
			b, tag := pMutate(r, []byte(pRender(pGenChange(r))))
			if r.Chance(12) {
				b, _ = pMutate(r, b)
				tag = "double"
			}
			l := "parser parse " + hexs(string(b))
			pTagLine(l, "b:"+tag)
			lines = append(lines, l)
		default:
			b, tag := pGenRaw(r)
			l := "parser parse " + hexs(string(b))
			pTagLine(l, "c:"+tag)
			lines = append(lines, l)
		}
	}
	return Case{lines}
}

// ---------------------------------------------------------------------------------------
// Monitor (C09), Stats, Nontrivial
// ---------------------------------------------------------------------------------------

func pIsParse(w []string) bool { return len(w) == 3 && w[0] == "parser" && w[1] == "parse" }
func pIsRenderck(w []string) bool {
	return len(w) >= 4 && w[0] == "parser" && w[1] == "renderck"
}

func pShort(s string) string {
	if len(s) > 600 {
		return s[:600] + "…"
	}
	return s
}

func parserMonitor(lines, outs []string, m *Model) []Violation {
	var vs []Violation
	seen := map[string]bool{}
	add := func(v Violation) {
		if !seen[v.Known+"|"+v.Property] {
			seen[v.Known+"|"+v.Property] = true
			vs = append(vs, v)
		}
	}
	for i, l := range lines {
		if i >= len(outs) {
			break
		}
		w := strings.Fields(l)
		if pIsParse(w) && (outs[i] == "panic" || outs[i] == "hang") {
			if !seen["crash"] {
				seen["crash"] = true
				vs = append(vs, Violation{"C09", "decoder panicked/hung on " + w[2] + " (" + outs[i] + ")", ""})
			}
			continue
		}
		if !pIsRenderck(w) || i+1 >= len(lines) || i+1 >= len(outs) {
			continue
		}
		w2 := strings.Fields(lines[i+1])
		if !pIsParse(w2) || w2[2] != w[2] {
			continue
		}
		ch, ok := pDecChange(w[3:])
		if !ok {
			continue
		}
		toks := strings.Join(w[3:], " ")
		got := outs[i+1]
		e, _ := m.Do("parser expect " + toks)
		if got == e {
			continue
		}
		// (F4, bit strings decoded as '…, is repaired: such a deviation is a plain violation now)
		switch {
		case strings.HasSuffix(got, " ALIASED"):
			// the decoded change still points into the bytes it was decoded from; pgx overwrites them on its next read
			// while the change is queued in the filter / partitioner / marshaller: what is rendered is the NEXT message's bytes
			msg := "the decoded change aliases the receive buffer: after the buffer was overwritten (as the next read does) it reads " + pShort(got) + " instead of " + pShort(e)
			add(Violation{"C09", msg, ""})
			add(Violation{"C10", "a record rendered after the next message was received shows that message's bytes - " + msg, ""})
		case pHasEmptyTuple(ch):
			add(Violation{"C09", "printed tuple without attributes rejected/misdecoded on " + pShort(w[2]) + ": got " + pShort(got) + " want " + pShort(e), "empty_tuple"})
		default:
			add(Violation{"C09", "decoder is not the inverse of test_decoding on " + pShort(w[2]) + " (" + pShort(toks) + "): got " + pShort(got) + " want " + pShort(e), ""})
		}
	}
	return vs
}

func pStatIdent(s string, d map[string]int) {
	if pNeedsQuote(s) {
		d["ident_quoted"]++
	} else {
		d["ident_plain"]++
	}
}

func pStatTup(t pTup, d map[string]int) {
	for _, c := range t.cols {
		pStatIdent(c.name, d)
		if c.typ.array {
			d["type_array"]++
		}
		switch c.typ.kind {
		case 'b':
			d["type_builtin"]++
		case 'n':
			d["type_named"]++
			pStatIdent(c.typ.name, d)
		default:
			d["type_named"]++
			d["type_qualified"]++
			pStatIdent(c.typ.schema, d)
			pStatIdent(c.typ.name, d)
		}
		switch c.val.kind {
		case 'N':
			d["lit_null"]++
		case 'T':
			d["lit_toast"]++
		case 'v':
			d["lit_bare"]++
		case 'B':
			d["lit_bits"]++
		default:
			d["lit_text"]++
			if len(c.val.s) >= 200 {
				d["lit_text_long"]++
			}
			if strings.Contains(c.val.s, "'") {
				d["lit_text_quote"]++
			}
		}
	}
}

func parserStats(lines, outs []string, d map[string]int) {
	for i, l := range lines {
		w := strings.Fields(l)
		switch {
		case pIsParse(w):
			if i > 0 {
				if p := strings.Fields(lines[i-1]); pIsRenderck(p) && p[2] == w[2] {
					d["stream_a"]++
				} else {
					pStatStream(l, d)
				}
			} else {
				pStatStream(l, d)
			}
			if i < len(outs) {
				o := outs[i]
				switch {
				case strings.HasPrefix(o, "ok "):
					d["out_ok"]++
					if strings.Contains(o, " ntd=1 ") {
						d["out_ok_ntd"]++
					}
					if !strings.Contains(o, " cols=- ") {
						d["out_ok_cols"]++
					}
					if !strings.HasSuffix(o, " old=-") {
						d["out_ok_old"]++
					}
					if strings.Contains(o, "op=5452554e43415445 ") {
						d["out_ok_truncate"]++
					}
					if !strings.Contains(o, " txn=e ") {
						d["out_ok_txn"]++
					}
				case strings.HasPrefix(o, "err:"):
					d["out_err_"+o[4:]]++
				default:
					d["out_"+o]++
				}
			}
		case pIsRenderck(w):
			if i < len(outs) && outs[i] != "same" {
				d["renderck_differ"]++
			}
			m, ok := pDecChange(w[3:])
			if !ok {
				continue
			}
			d["chg_"+m.kind]++
			switch m.kind {
			case "insert", "update", "delete":
				pStatIdent(m.rel.schema, d)
				pStatIdent(m.rel.name, d)
				if m.kind == "update" && m.old.present {
					d["chg_update_oldkey"]++
					if len(m.old.cols) == 0 {
						d["chg_oldkey_empty"]++
					}
				}
				if !m.new.present {
					d["chg_ntd"]++
				}
				if pHasEmptyTuple(m) {
					d["chg_empty_tuple"]++
				}
				pStatTup(m.old, d)
				pStatTup(m.new, d)
			case "truncate":
				for _, r := range m.rels {
					pStatIdent(r.schema, d)
					pStatIdent(r.name, d)
				}
				d[fmt.Sprintf("chg_truncate_rels%d_flags%s%s", len(m.rels), pB01(m.restart), pB01(m.cascade))]++
			case "begin", "commit":
				switch m.xid {
				case 0, 1, 4294967295:
					d["xid_edge"]++
				default:
					d["xid_other"]++
				}
			}
		}
	}
}

func pStatStream(l string, d map[string]int) {
	t := pTagOf(l)
	switch {
	case strings.HasPrefix(t, "b:"):
		d["stream_b"]++
		d["mut_"+t[2:]]++
	case strings.HasPrefix(t, "c:"):
		d["stream_c"]++
		d["raw_"+t[2:]]++
	default:
		d["stream_other"]++
	}
}

func parserNontrivial(lines, outs []string) bool {
	for i, l := range lines {
		if i >= len(outs) || !pIsParse(strings.Fields(l)) {
			continue
		}
		o := outs[i]
		if strings.HasPrefix(o, "err:") {
			return true
		}
		if strings.HasPrefix(o, "ok ") && (!strings.Contains(o, " cols=- ") || !strings.HasSuffix(o, " old=-")) {
			return true
		}
	}
	return false
}

func init() {
	register(&Component{Name: "parser", Gen: parserGen, Run: parserRun, Monitor: parserMonitor,
		Nontrivial: parserNontrivial, Stats: parserStats, Quick: 20000, Thorough: 600000})
}
