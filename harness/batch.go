package main

import (
	"fmt"
	"strconv"
	"strings"

	"github.com/Nextdoor/pg-bifrost.git/app/config"
	"github.com/Nextdoor/pg-bifrost.git/marshaller"
	"github.com/Nextdoor/pg-bifrost.git/partitioner"
	"github.com/Nextdoor/pg-bifrost.git/transport"
	"github.com/Nextdoor/pg-bifrost.git/transport/batch"
	"github.com/Nextdoor/pg-bifrost.git/transport/transporters/kafka"
	"github.com/Nextdoor/pg-bifrost.git/transport/transporters/kinesis"
	kbatch "github.com/Nextdoor/pg-bifrost.git/transport/transporters/kinesis/batch"
	"github.com/Shopify/sarama"
)

// batch: direct Add sequences on the real batch implementations (C15 boundary arithmetic).
func errClass(err error) string {
	if err == nil {
		return "ok"
	}
	switch err.Error() {
	case transport.ERR_MSG_TOOBIG:
		return "toobig"
	case transport.ERR_FULL:
		return "full"
	case transport.ERR_CANT_FIT:
		return "cantfit"
	case transport.ERR_MSG_INVALID:
		return "invalid"
	}
	return "other:" + err.Error()
}

func batchRun(c Case) ([]string, []string) {
	lines, outs := []string{}, []string{}
	var b transport.Batch
	kafkaMethod := ""
	isKafka := false
	for _, l := range c.Lines {
		w := strings.Fields(l)
		switch {
		case len(w) == 4 && w[1] == "new":
			kind := strings.Split(w[2], ":")
			isKafka = false
			switch kind[0] {
			case "generic":
				n, _ := strconv.Atoi(kind[1])
				b = batch.NewGenericBatchFactory(n).NewBatch(unhexs(w[3]))
			case "kinesis":
				pm := partitioner.PART_METHOD_TABLENAME
				if kind[1] == "walstart" {
					pm = partitioner.PART_METHOD_NONE
				}
				b = kinesis.NewBatchFactory(map[string]interface{}{config.VAR_NAME_PARTITION_METHOD: pm}).NewBatch(unhexs(w[3]))
				w[2] = fmt.Sprintf("kinesis:%s:%d:%d:%d", kind[1], kbatch.MAX_RECORDS, kbatch.MAX_BATCH_SIZE_BYTES, kbatch.MAX_RECORD_SIZE_BYTES)
			case "kafka":
				n, _ := strconv.Atoi(kind[1])
				mb, _ := strconv.Atoi(kind[2])
				kafkaMethod = kind[3]
				isKafka = true
				b = kafka.NewBatchFactory(kafkaTransportConfig("topic", mb, n, 262144, kafkaMethod)).NewBatch(unhexs(w[3]))
			}
			lines = append(lines, strings.Join(w, " "))
			outs = append(outs, "ok")
		case len(w) == 10 && w[1] == "add" && b != nil:
			txn, _ := strconv.Atoi(w[4])
			key, _ := strconv.Atoi(w[5])
			size, _ := strconv.Atoi(w[6])
			lsn, _ := strconv.ParseUint(w[7], 10, 64)
			id, _ := strconv.Atoi(w[8])
			m := &marshaller.MarshalledMessage{Operation: w[2], Table: "public.t", TimeBasedKey: kname(key), WalStart: lsn, Transaction: tname(txn), PartitionKey: unhexs(w[3])}
			if w[2] == "DATA" {
				m.Operation = "UPDATE"
				if size < 8 {
					size = 8
					w[6] = "8"
				}
				m.Json = mkJson(id, size)
				if isKafka {
					pm := &sarama.ProducerMessage{Topic: "topic", Value: sarama.ByteEncoder(m.Json), Key: kafkaKeyLen(kafkaMethod, m)}
					w[9] = strconv.Itoa(pm.ByteSize(2))
				}
			}
			lines = append(lines, strings.Join(w, " "))
			mt0, ct0 := b.ModifyTime(), b.CreateTime()
			ok, err := b.Add(m)
			mtS, ctS := "same", "same"
			if b.ModifyTime() != mt0 {
				mtS = "changed"
			}
			if b.CreateTime() != ct0 {
				ctS = "changed"
			}
			if w[2] != "DATA" {
				if ok && err == nil {
					outs = append(outs, "ok-noop")
				} else {
					outs = append(outs, "marker-rejected")
				}
				continue
			}
			res := errClass(err)
			if ok != (err == nil) {
				res = "inconsistent-return"
			}
			outs = append(outs, fmt.Sprintf("%s full=%v empty=%v n=%d bytes=%d ids=%s txns=%s mtime=%s ctime=%s", res, b.IsFull(), b.IsEmpty(), b.NumMessages(), b.GetPayloadByteSize(), payloadIds(b), showTxns(b.GetTransactions()), mtS, ctS))
		default:
			lines = append(lines, l)
			outs = append(outs, "bad-op")
		}
	}
	return lines, outs
}

func batchGen(r *Rng, tier string) Case {
	var kind string
	kinesisK := false
	maxBytes := 0
	switch r.Intn(3) {
	case 0:
		kind = fmt.Sprintf("generic:%d", Pick(r, []int{1, 2, 3, 7}))
	case 1:
		kinesisK = true
		kind = "kinesis:" + Pick(r, []string{"walstart", "batch"})
	default:
		maxBytes = Pick(r, []int{52, 60, 80, 1000})
		kind = fmt.Sprintf("kafka:%d:%d:%s", Pick(r, []int{1, 2, 5}), maxBytes, Pick(r, []string{"random", "batch", "transaction", "transaction-constant", "tablename"}))
	}
	pk := Pick(r, []string{"", "public.t", "17", strings.Repeat("k", r.Range(1, 300))})
	lines := []string{fmt.Sprintf("batch new %s %s", kind, hexs(pk))}
	n := r.Range(2, 14)
	countMode := kinesisK && r.Chance(25) // fill up to the 500-record limit with small records
	if countMode {
		n = 560 // enough data adds (5% of the ops are BEGIN/COMMIT markers) to pass the 500-record limit
	}
	lsn := uint64(r.Range(0, 3))
	for i := 0; i < n; i++ {
		lsn += uint64(r.Range(0, 1000))
		if r.Chance(5) {
			lsn = r.U64()
		}
		size := r.Range(8, 40)
		if kinesisK && !countMode {
			switch r.Intn(4) {
			case 0:
				size = 1<<20 + r.Range(-2, 2)
			case 1:
				size = 1<<20 - r.Range(0, 320)
			case 2:
				size = 1 << 19
			}
		}
		if maxBytes > 0 {
			size = r.Range(8, maxBytes)
		}
		op := "DATA"
		if r.Chance(5) {
			op = Pick(r, []string{"BEGIN", "COMMIT"})
		}
		lines = append(lines, fmt.Sprintf("batch add %s %s %d %d %d %d %d 0", op, hexs(pk), r.Range(1, 3), r.Range(1, 4), size, lsn, i+1))
	}
	return Case{lines}
}

// batchMonitor (C16): the idle-age rule reads the batch's modify time; it must move exactly when a
// record was appended, and the create time never
func batchMonitor(lines, outs []string, m *Model) []Violation {
	kinesisKind := len(lines) > 0 && strings.Contains(lines[0], " kinesis:")
	for i, o := range outs {
		// C15: the sink's documented hard limits, whatever the code's constants say
		if kinesisKind {
			var n, bytes int
			for _, f := range strings.Fields(o) {
				if strings.HasPrefix(f, "n=") {
					n, _ = strconv.Atoi(f[2:])
				}
				if strings.HasPrefix(f, "bytes=") {
					bytes, _ = strconv.Atoi(f[6:])
				}
			}
			if n > 500 || bytes > 5*1024*1024 {
				return []Violation{{"C15", fmt.Sprintf("a Kinesis batch holds %d records / %d bytes of data plus keys (limits: 500 records, 5 MiB)", n, bytes), ""}}
			}
			if strings.HasPrefix(o, "ok ") && i < len(lines) {
				if w := strings.Fields(lines[i]); len(w) > 6 {
					if sz, _ := strconv.Atoi(w[6]); sz > 1024*1024 {
						return []Violation{{"C15", fmt.Sprintf("a record of %d bytes (> 1 MiB) was accepted into a Kinesis batch", sz), ""}}
					}
				}
			}
		}
		f := strings.Fields(o)
		if len(f) < 9 || i >= len(lines) {
			continue
		}
		appended := f[0] == "ok"
		if (strings.HasSuffix(o, "ctime=changed")) || (appended && strings.Contains(o, "mtime=same")) || (!appended && strings.Contains(o, "mtime=changed")) {
			return []Violation{{"C16", "batch modify/create time bookkeeping is wrong (modify time must change exactly when a record is appended): " + lines[i] + " => " + f[0] + " " + f[len(f)-2] + " " + f[len(f)-1], ""}}
		}
	}
	return nil
}

func init() {
	register(&Component{Name: "batch", Gen: batchGen, Run: batchRun, Monitor: batchMonitor, Quick: 400, Thorough: 15000,
		Nontrivial: func(lines, outs []string) bool {
			for _, o := range outs {
				if strings.HasPrefix(o, "full") || strings.HasPrefix(o, "cantfit") || strings.HasPrefix(o, "toobig") || strings.HasPrefix(o, "invalid") {
					return true
				}
			}
			return false
		}})
}
