package main

import (
	"context"
	"fmt"
	"strconv"
	"strings"
	"time"

	"github.com/Nextdoor/pg-bifrost.git/replication/client/conn"
	"github.com/jackc/pglogrepl"
	"github.com/jackc/pgx/v5/pgconn"
)

// ---- connmgr: the real conn.Manager (replication/client/conn/manager.go) over TCP against the fake
// PostgreSQL wire server: START_REPLICATION must be issued at exactly the LSN it was given, only when
// there is no live connection (C03: restarts are never ahead; C07: re-request from the last COMMIT). ----

func connmgrRun(c Case) ([]string, []string) {
	outs := []string{}
	srv, err := startFakePG(nil)
	if err != nil {
		return c.Lines, []string{"harness-error " + err.Error()}
	}
	srv.noStream = true
	defer srv.Close()
	cfg, err := pgconn.ParseConfig(fmt.Sprintf("postgresql://u:p@127.0.0.1:%d/db?replication=database&sslmode=disable", srv.port()))
	if err != nil {
		return c.Lines, []string{"harness-error " + err.Error()}
	}
	var m conn.ManagerInterface
	hasConn := false // the manager holds a connection (live or not yet noticed as closed)
	replConn := false // ... and it was opened with START_REPLICATION
	seen := 0
	newStarts := func() []uint64 {
		deadline := time.Now().Add(500 * time.Millisecond)
		for {
			srv.mu.Lock()
			n := len(srv.starts)
			var out []uint64
			if n > seen {
				out = append(out, srv.starts[seen:]...)
			}
			srv.mu.Unlock()
			if len(out) > 0 || time.Now().After(deadline) {
				seen += len(out)
				return out
			}
			time.Sleep(time.Millisecond)
		}
	}
	conns := func() int {
		srv.mu.Lock()
		defer srv.mu.Unlock()
		return len(srv.conns)
	}
	for _, l := range c.Lines {
		w := strings.Fields(l)
		if len(w) < 2 {
			outs = append(outs, "bad-op")
			continue
		}
		ctx, cancel := context.WithTimeout(context.Background(), 5*time.Second)
		switch w[1] {
		case "reset":
			m = conn.NewManager(cfg, "slot")
			outs = append(outs, "ok")
		case "repl", "plain":
			before := conns()
			var cn conn.Conn
			var err error
			if w[1] == "repl" {
				lsn, _ := strconv.ParseUint(w[2], 10, 64)
				cn, err = m.GetConnWithStartLsn(ctx, lsn)
			} else {
				cn, err = m.GetConn(ctx)
			}
			hasConn = err == nil && cn != nil
			switch {
			case err != nil || cn == nil:
				outs = append(outs, "error")
			case conns() == before:
				outs = append(outs, "reuse")
			case w[1] == "plain":
				replConn = false
				outs = append(outs, "dial")
			default:
				replConn = true
				st := newStarts()
				if len(st) != 1 {
					outs = append(outs, fmt.Sprintf("starts=%v", st))
				} else {
					outs = append(outs, fmt.Sprintf("start:%d", st[0]))
				}
			}
		case "status":
			// C18 on the wire: a standby status update that SendStandbyStatus accepted must reach the server
			// WITHOUT a further read by the client (while the client is blocked on its output channel it calls
			// SendStandbyStatus at every ticker firing and does not read). Output: sent:<0|1> = it arrived within 500 ms.
			if !hasConn || !replConn {
				outs = append(outs, "noconn")
				break
			}
			cn, err := m.GetConn(ctx)
			if err != nil || cn == nil || cn.IsClosed() {
				outs = append(outs, "noconn")
				break
			}
			lsn, _ := strconv.ParseUint(w[2], 10, 64)
			srv.mu.Lock()
			before := srv.nstatus
			srv.mu.Unlock()
			if err := cn.SendStandbyStatus(ctx, pglogrepl.StandbyStatusUpdate{WALWritePosition: pglogrepl.LSN(lsn)}); err != nil {
				outs = append(outs, "senderr")
				break
			}
			arrived := "0"
			for dl := time.Now().Add(500 * time.Millisecond); time.Now().Before(dl); time.Sleep(2 * time.Millisecond) {
				srv.mu.Lock()
				n := srv.nstatus
				srv.mu.Unlock()
				if n > before {
					arrived = "1"
					break
				}
			}
			outs = append(outs, "sent:"+arrived)
		case "close":
			m.Close()
			hasConn = false
			replConn = false
			outs = append(outs, "ok")
		case "drop":
			// the server side closes every connection; the client notices on its next use: make it
			// notice now, as the replication client's failed ReceiveMessage would
			if hasConn {
				srv.mu.Lock()
				for _, cc := range srv.conns {
					cc.Close()
				}
				srv.mu.Unlock()
				// GetConn returns the held connection (it is still considered live); a receive on it
				// fails and marks it closed
				if cn, err := m.GetConn(ctx); err == nil && cn != nil && !cn.IsClosed() {
					rctx, rc := context.WithTimeout(context.Background(), 300*time.Millisecond)
					cn.ReceiveMessage(rctx)
					rc()
				}
				hasConn = false // the held connection is closed now; the next get dials
			}
			outs = append(outs, "ok")
		default:
			outs = append(outs, "bad-op")
		}
		cancel()
	}
	if m != nil {
		m.Close()
	}
	return c.Lines, outs
}

func connmgrGen(r *Rng, tier string) Case {
	lines := []string{"connmgr reset"}
	for i := r.Range(3, 10); i > 0; i-- {
		switch k := r.Intn(10); {
		case k < 5:
			lsn := uint64(r.Range(0, 3)) * uint64(r.Range(0, 1<<20))
			if r.Chance(20) {
				lsn = r.U64() >> uint(r.Intn(40))
			}
			lines = append(lines, fmt.Sprintf("connmgr repl %d", lsn))
			// status updates: often the same position again at once (a keepalive reply right after a periodic
			// update, with no progress in between) - every one of them must reach the server
			pos := r.Range(1, 1<<20)
			for r.Chance(60) {
				if r.Chance(40) {
					pos = r.Range(1, 1<<20)
				}
				lines = append(lines, fmt.Sprintf("connmgr status %d", pos))
			}
		case k < 6:
			lines = append(lines, "connmgr plain")
		case k < 8:
			lines = append(lines, "connmgr close")
		default:
			lines = append(lines, "connmgr drop")
		}
	}
	return Case{lines}
}

func connmgrMonitor(lines, outs []string, m *Model) []Violation {
	for i, l := range lines {
		if i >= len(outs) {
			break
		}
		w := strings.Fields(l)
		if len(w) == 3 && w[1] == "status" && outs[i] == "sent:0" {
			return []Violation{{"C18", "a standby status update accepted by the connection's SendStandbyStatus did not reach the server within 500 ms " +
				"without a further read on the connection: while the client is blocked on its output channel (it sends at every ticker firing " +
				"and does not read) PostgreSQL hears nothing and its walsender timeout drops the healthy connection", ""}}
		}
		if len(w) == 3 && w[1] == "repl" && strings.HasPrefix(outs[i], "start:") && outs[i] != "start:"+w[2] {
			v := fmt.Sprintf("the connection manager was asked to (re)start replication at %s but sent START_REPLICATION at %s", w[2], outs[i][6:])
			return []Violation{{"C03", v, ""}, {"C07", v, ""}}
		}
	}
	return nil
}

func init() {
	register(&Component{Name: "connmgr", Gen: connmgrGen, Run: connmgrRun, Monitor: connmgrMonitor, Quick: 60, Thorough: 1500,
		Nontrivial: func(lines, outs []string) bool {
			n := 0
			for _, o := range outs {
				if strings.HasPrefix(o, "start:") {
					n++
				}
			}
			return n >= 2
		}})
}
