package main

import (
	"context"
	"encoding/binary"
	"fmt"
	"strconv"
	"strings"
	"sync"
	"time"

	"github.com/Nextdoor/pg-bifrost.git/replication/client"
	"github.com/Nextdoor/pg-bifrost.git/replication/client/conn"
	"github.com/Nextdoor/pg-bifrost.git/shutdown"
	"github.com/Nextdoor/pg-bifrost.git/stats"
	"github.com/jackc/pglogrepl"
	"github.com/jackc/pgx/v5/pgproto3"
)

// ---- clientload: C18 under sustained load (measured; DESIGN §C18 "not exhibited by the model").
// The real client receives data without pause while the consumer of its output channel is slow but
// not stuck, for longer than progress interval + receive timeout. The gap between consecutive
// standby status updates must stay below that bound (+ slack). ----

type loadConn struct {
	mu       sync.Mutex
	n        int
	statuses []time.Time
	pace     time.Duration
	ka       int // every ka-th message is a reply-requested keepalive (0 = never)
}

func xlog(lsn uint64, text string) *pgproto3.CopyData {
	b := make([]byte, 25, 25+len(text))
	b[0] = pglogrepl.XLogDataByteID
	binary.BigEndian.PutUint64(b[1:], lsn)
	binary.BigEndian.PutUint64(b[9:], lsn)
	binary.BigEndian.PutUint64(b[17:], 0)
	return &pgproto3.CopyData{Data: append(b, text...)}
}

func loadKeepalive(end uint64, reply bool) *pgproto3.CopyData {
	b := make([]byte, 18)
	b[0] = pglogrepl.PrimaryKeepaliveMessageByteID
	binary.BigEndian.PutUint64(b[1:], end)
	binary.BigEndian.PutUint64(b[9:], 0)
	if reply {
		b[17] = 1
	}
	return &pgproto3.CopyData{Data: b}
}

func (c *loadConn) IsClosed() bool { return false }
func (c *loadConn) SendStandbyStatus(ctx context.Context, s pglogrepl.StandbyStatusUpdate) error {
	c.mu.Lock()
	c.statuses = append(c.statuses, time.Now())
	c.mu.Unlock()
	return nil
}
func (c *loadConn) ReceiveMessage(ctx context.Context) (pgproto3.BackendMessage, error) {
	c.mu.Lock()
	c.n++
	n := c.n
	c.mu.Unlock()
	if c.pace > 0 {
		time.Sleep(c.pace)
	}
	switch {
	case n == 1:
		return loadKeepalive(1000, false), nil
	case n == 2:
		return xlog(1001, "BEGIN 77"), nil
	case c.ka > 0 && n%c.ka == 0:
		return loadKeepalive(uint64(1000+n), true), nil
	}
	return xlog(uint64(1000+n), fmt.Sprintf("table public.t: INSERT: id[integer]:%d", n)), nil
}
func (c *loadConn) StartReplication(ctx context.Context, slot string, lsn pglogrepl.LSN, o pglogrepl.StartReplicationOptions) error {
	return nil
}
func (c *loadConn) Close(ctx context.Context) error { return nil }
func (c *loadConn) CreateReplicationSlot(ctx context.Context, slot, plugin string, o pglogrepl.CreateReplicationSlotOptions) (pglogrepl.CreateReplicationSlotResult, error) {
	return pglogrepl.CreateReplicationSlotResult{}, nil
}
func (c *loadConn) IdentifySystem(ctx context.Context) (pglogrepl.IdentifySystemResult, error) {
	return pglogrepl.IdentifySystemResult{}, nil
}
func (c *loadConn) DropReplicationSlot(ctx context.Context, slot string, o pglogrepl.DropReplicationSlotOptions) error {
	return nil
}

type loadMgr struct{ c *loadConn }

func (m *loadMgr) GetConn(ctx context.Context) (conn.Conn, error)                 { return m.c, nil }
func (m *loadMgr) GetConnWithStartLsn(ctx context.Context, l uint64) (conn.Conn, error) { return m.c, nil }
func (m *loadMgr) Close()                                                         {}

const receiveTimeoutMs = 5000 // the client's ReceiveMessage context timeout (client.go: 5 * time.Second)

func clientloadRun(c Case) ([]string, []string) {
	outs := []string{}
	for _, l := range c.Lines {
		w := strings.Fields(l)
		if len(w) != 7 || w[1] != "run" {
			outs = append(outs, "bad-op")
			continue
		}
		pMs, _ := strconv.Atoi(w[2])
		drainMs, _ := strconv.Atoi(w[3])
		durMs, _ := strconv.Atoi(w[4])
		ka, _ := strconv.Atoi(w[5])
		buf, _ := strconv.Atoi(w[6])
		sh := shutdown.NewShutdownHandler()
		st := make(chan stats.Stat, 1024)
		go func() {
			for range st {
			}
		}()
		lc := &loadConn{pace: 200 * time.Microsecond, ka: ka}
		rep := client.New(sh, st, &loadMgr{lc}, buf, time.Duration(pMs)*time.Millisecond)
		prog := make(chan uint64)
		start := time.Now()
		go rep.Start(prog)
		out := rep.GetOutputChan()
		forwarded := 0
		deadline := time.After(time.Duration(durMs) * time.Millisecond)
	loop:
		for {
			select {
			case <-deadline:
				break loop
			case _, ok := <-out:
				if !ok {
					break loop
				}
				forwarded++
				time.Sleep(time.Duration(drainMs) * time.Millisecond)
			}
		}
		end := time.Now()
		sh.CancelFunc()
		go func() { // let the client leave a blocked send
			for range out {
			}
		}()
		lc.mu.Lock()
		ts := append([]time.Time{start}, lc.statuses...)
		lc.mu.Unlock()
		ts = append(ts, end)
		maxGap := time.Duration(0)
		for i := 1; i < len(ts); i++ {
			if g := ts[i].Sub(ts[i-1]); g > maxGap {
				maxGap = g
			}
		}
		outs = append(outs, fmt.Sprintf("maxgap_ms=%d statuses=%d forwarded=%d", maxGap.Milliseconds(), len(ts)-2, forwarded))
		close(st)
	}
	return c.Lines, outs
}

func clientloadGen(r *Rng, tier string) Case {
	p := Pick(r, []int{40, 100})
	drain := p * Pick(r, []int{20, 30, 45}) / 100 // each wait shorter than the progress interval
	dur := receiveTimeoutMs + p + 1300
	ka := Pick(r, []int{0, 0, 0, 997})
	return Case{[]string{fmt.Sprintf("clientload run %d %d %d %d %d", p, drain, dur, ka, Pick(r, []int{1, 2, 8}))}}
}

func clientloadMonitor(lines, outs []string, m *Model) []Violation {
	for i, l := range lines {
		if i >= len(outs) {
			break
		}
		w := strings.Fields(l)
		if len(w) != 7 {
			continue
		}
		pMs, _ := strconv.Atoi(w[2])
		var gap int
		fmt.Sscanf(outs[i], "maxgap_ms=%d", &gap)
		bound := pMs + receiveTimeoutMs + 700 // P + T + slack (Props.C18.status_gap_bounded: P + T in logical time)
		if gap > bound {
			return []Violation{{"C18", fmt.Sprintf("no standby status update for %d ms while data kept arriving and the output channel was slow but not stuck (bound: progress interval %d ms + receive timeout %d ms + slack): %s | %s", gap, pMs, receiveTimeoutMs, l, outs[i]), ""}}
		}
	}
	return nil
}

func init() {
	register(&Component{Name: "clientload", Gen: clientloadGen, Run: clientloadRun, Monitor: clientloadMonitor,
		Quick: 6, Thorough: 64,
		Compare: func(line, impl, model string) bool { return true },
		Stats: func(lines, outs []string, d map[string]int) {
			for _, o := range outs {
				var gap, n int
				fmt.Sscanf(o, "maxgap_ms=%d statuses=%d", &gap, &n)
				if gap > d["max_gap_ms"] {
					d["max_gap_ms"] = gap
				}
				d["statuses"] += n
			}
		}})
}
