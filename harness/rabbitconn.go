package main

// Component `rabbitconn` (C13): the REAL RabbitMQ connection manager (transporter.NewConnectionManager, connection.go)
// with a scripted dialer and scripted connections. The `rabbit` component hands the workers a fake ConnectionGetter, so
// this is where GetConnection, the redial loop and the close notification are run.
//
//   rabbitconn new                 a fresh manager
//   rabbitconn get                 GetConnection            -> conn=<id> dials=<attempts made by this call>
//   rabbitconn close               the broker closes the current connection (NotifyClose fires)      -> ok
//   rabbitconn failnext            the next dial attempt fails once (the manager must try again)    -> ok
//
// Model (Driver/RabbitConn.lean): a connection is reused until it is closed; after a close the next GetConnection
// dials a NEW connection; a failed dial is retried until one succeeds.

import (
	"context"
	"errors"
	"fmt"
	"strings"
	"sync"
	"time"

	"github.com/NeowayLabs/wabbit"
	rbtr "github.com/Nextdoor/pg-bifrost.git/transport/transporters/rabbitmq/transporter"
	"github.com/sirupsen/logrus"
)

type rcConn struct {
	wabbit.Conn
	id     int
	mu     sync.Mutex
	notify []chan wabbit.Error
}

type rcErr struct{}

func (rcErr) Code() int      { return 320 }
func (rcErr) Reason() string { return "CONNECTION_FORCED" }
func (rcErr) Server() bool   { return true }
func (rcErr) Recover() bool  { return false }
func (rcErr) Error() string  { return "Exception (320) Reason: \"CONNECTION_FORCED\"" }

func (c *rcConn) NotifyClose(ch chan wabbit.Error) chan wabbit.Error {
	c.mu.Lock()
	c.notify = append(c.notify, ch)
	c.mu.Unlock()
	return ch
}
func (c *rcConn) Close() error { return nil }
func (c *rcConn) fire() {
	c.mu.Lock()
	n := c.notify
	c.notify = nil
	c.mu.Unlock()
	for _, ch := range n {
		select {
		case ch <- rcErr{}:
		case <-time.After(time.Second):
		}
	}
}

func rabbitConnRun(c Case) ([]string, []string) {
	outs := []string{}
	var cm *rbtr.ConnMan
	var mu sync.Mutex
	nextID, failNext, dials := 0, 0, 0
	var cur *rcConn
	ctx, cancel := context.WithCancel(context.Background())
	defer cancel()
	lg := logrus.New()
	lg.SetLevel(logrus.PanicLevel)
	dialer := func() (wabbit.Conn, error) {
		mu.Lock()
		defer mu.Unlock()
		dials++
		if failNext > 0 {
			failNext--
			return nil, errors.New("dial: connection refused")
		}
		nextID++
		cur = &rcConn{id: nextID}
		return cur, nil
	}
	for _, l := range c.Lines {
		w := strings.Fields(l)
		switch {
		case len(w) == 2 && w[1] == "new":
			cm = rbtr.NewConnectionManager("amqp://verif", logrus.NewEntry(lg), dialer)
			mu.Lock()
			cur, failNext, nextID = nil, 0, 0
			mu.Unlock()
			outs = append(outs, "ok")
		case len(w) == 2 && w[1] == "get" && cm != nil:
			mu.Lock()
			before := dials
			mu.Unlock()
			done := make(chan string, 1)
			go func() {
				conn, err := cm.GetConnection(ctx)
				if err != nil {
					done <- "err"
					return
				}
				if rc, ok := conn.(*rcConn); ok {
					done <- fmt.Sprintf("conn=%d", rc.id)
				} else {
					done <- "conn=?"
				}
			}()
			select {
			case r := <-done:
				mu.Lock()
				outs = append(outs, fmt.Sprintf("%s dials=%d", r, dials-before))
				mu.Unlock()
			case <-time.After(15 * time.Second):
				outs = append(outs, "hang")
				return c.Lines, outs
			}
		case len(w) == 2 && w[1] == "close" && cm != nil:
			mu.Lock()
			cc := cur
			mu.Unlock()
			if cc != nil {
				cc.fire()
				time.Sleep(30 * time.Millisecond) // let the manager's close handler take the notification
			}
			outs = append(outs, "ok")
		case len(w) == 2 && w[1] == "failnext" && cm != nil:
			mu.Lock()
			failNext++
			mu.Unlock()
			outs = append(outs, "ok")
		default:
			outs = append(outs, "bad-op")
		}
	}
	return c.Lines, outs
}

func rabbitConnGen(r *Rng, tier string) Case {
	lines := []string{"rabbitconn new"}
	fails := 0
	for i := r.Range(3, 10); i > 0; i-- {
		switch x := r.Intn(10); {
		case x < 5:
			lines = append(lines, "rabbitconn get")
		case x < 9:
			lines = append(lines, "rabbitconn close")
		default:
			if fails < 1 { // a failed dial costs the manager's first back-off interval (0.75-2.25 s of real time)
				fails++
				lines = append(lines, "rabbitconn failnext")
			}
		}
	}
	lines = append(lines, "rabbitconn get")
	return Case{lines}
}

func rabbitConnMonitor(lines, outs []string, m *Model) []Violation {
	for i, l := range lines {
		if i >= len(outs) {
			break
		}
		want, err := m.Do(l)
		if err != nil || want == outs[i] || !strings.HasSuffix(l, " get") {
			continue
		}
		return []Violation{{"C13", "the RabbitMQ connection manager hands out " + outs[i] + " where a connection that was closed must be replaced by a new one and an open one reused (" + want + "): messages would be published on a dead connection, or every batch would redial", ""}}
	}
	return nil
}

func init() {
	register(&Component{Name: "rabbitconn", Gen: rabbitConnGen, Run: rabbitConnRun, Monitor: rabbitConnMonitor, Quick: 40, Thorough: 400})
}
