module verif/harness

go 1.22

require (
	github.com/Nextdoor/pg-bifrost.git v0.0.0
	github.com/cevaris/ordered_map v0.0.0-20180310183325-0efaee1733e3
)

require (
	github.com/cenkalti/backoff/v4 v4.2.1 // indirect
	github.com/goccy/go-json v0.10.2 // indirect
	github.com/google/go-cmp v0.6.0 // indirect
	github.com/jackc/pgio v1.0.0 // indirect
	github.com/jackc/pglogrepl v0.0.0-20230428004623-0c5b98f52784 // indirect
	github.com/jackc/pgpassfile v1.0.0 // indirect
	github.com/jackc/pgservicefile v0.0.0-20221227161230-091c0ba34f0a // indirect
	github.com/jackc/pgx/v5 v5.3.1 // indirect
	github.com/pkg/errors v0.9.1 // indirect
	github.com/sirupsen/logrus v1.9.3 // indirect
	golang.org/x/crypto v0.17.0 // indirect
	golang.org/x/sys v0.15.0 // indirect
	golang.org/x/text v0.14.0 // indirect
)

replace github.com/Nextdoor/pg-bifrost.git => /repo
