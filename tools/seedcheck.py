#!/usr/bin/env python3
"""Run property checks against a seeded breaking change without touching /repo:
  seedcheck.py <patch.diff> <Cxx>[,<Cyy>...] [--tier quick|thorough] [--tests pkg1,pkg2]
A fresh scratch worktree of /repo's HEAD is created under /tmp, the patch applied there, the
checks run with VERIF_REPO pointing at it, and the worktree removed afterwards."""
import sys, os, subprocess, tempfile, shutil, re
patch = os.path.abspath(sys.argv[1])
props = sys.argv[2].split(",")
tier = "quick"
tests = []
a = sys.argv[3:]
while a:
    if a[0] == "--tier": tier = a[1]; a = a[2:]
    elif a[0] == "--tests": tests = a[1].split(","); a = a[2:]
    else: a = a[1:]
d = tempfile.mkdtemp(prefix="sc_")
os.rmdir(d)
# evidence written while checking a patched tree must never stay in /verif/evidence
evbak = tempfile.mkdtemp(prefix="sc_ev_")
shutil.copytree("/verif/evidence", os.path.join(evbak, "evidence"))
env = dict(os.environ, GOFLAGS="-mod=mod", GOPROXY="off", GOSUMDB="off", GOTOOLCHAIN="local")
try:
    subprocess.run(["git", "-C", "/repo", "worktree", "add", "-q", d, "HEAD"], check=True)
    r = subprocess.run(["git", "-C", d, "apply", patch], stdout=subprocess.PIPE, stderr=subprocess.STDOUT, text=True)
    if r.returncode != 0:
        print("patch does not apply:", r.stdout); sys.exit(2)
    r = subprocess.run(["go", "build", "./..."], cwd=d, env=env, stdout=subprocess.PIPE, stderr=subprocess.STDOUT, text=True)
    print("build:", "ok" if r.returncode == 0 else r.stdout[-500:])
    for t in tests:
        r = subprocess.run(["go", "test", "-count=1", t], cwd=d, env=env, stdout=subprocess.PIPE, stderr=subprocess.STDOUT, text=True)
        print(f"go test {t}:", "ok" if r.returncode == 0 else "FAIL\n" + r.stdout[-800:])
    for p in props:
        r = subprocess.run(["/verif/check", p, "--tier", tier], cwd="/verif", env=dict(os.environ, VERIF_REPO=d),
                           stdout=subprocess.PIPE, stderr=subprocess.STDOUT, text=True)
        lines = [l for l in r.stdout.splitlines() if not l.startswith("KNOWN-FINDING")]
        print(f"check {p}: rc={r.returncode}")
        for l in lines[-4:]:
            print("   ", l[:260])
        for m in re.finditer(r"VIOLATION property=(\S+) replay=(\S+)", r.stdout):
            dst = f"/tmp/x/seedreplay_{os.path.basename(os.path.dirname(os.path.dirname(patch)))}_{m.group(1)}.json"
            try: shutil.copy(m.group(2), dst); print("    replay kept at", dst)
            except Exception: pass
finally:
    subprocess.run(["git", "-C", "/repo", "worktree", "remove", "--force", d])
    # leave /verif's generated facts and build pointing at /repo again
    subprocess.run(["/verif/check", props[0], "--tier", "quick"], cwd="/verif", stdout=subprocess.DEVNULL, stderr=subprocess.DEVNULL)
    for f in os.listdir(os.path.join(evbak, "evidence")):
        shutil.copy(os.path.join(evbak, "evidence", f), os.path.join("/verif/evidence", f))
    shutil.rmtree(evbak, ignore_errors=True)
