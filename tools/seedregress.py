#!/usr/bin/env python3
"""Regression over the stored seeded changes: every seeded/<id>/patch.diff is applied to a scratch worktree of /repo's
HEAD and the property's quick check (of THIS copy of /verif - run it from a `vp run` snapshot) must report a violation.
  tools/seedregress.py [id-substring ...]
Prints one line per seed: concrete | no-failing-input | MISSED | patch-does-not-apply."""
import sys, os, subprocess, tempfile, json, re
ROOT = os.path.dirname(os.path.dirname(os.path.abspath(__file__)))
ENV = dict(os.environ, GOFLAGS="-mod=mod", GOPROXY="off", GOSUMDB="off", GOTOOLCHAIN="local")
subs = sys.argv[1:]
seeds = sorted(d for d in os.listdir(os.path.join(ROOT, "seeded")) if os.path.exists(os.path.join(ROOT, "seeded", d, "patch.diff")))
if subs:
    seeds = [s for s in seeds if any(x in s for x in subs)]
tally = {}
for sid in seeds:
    meta = json.load(open(os.path.join(ROOT, "seeded", sid, "meta.json")))
    pid = meta["property"]
    d = tempfile.mkdtemp(prefix="sreg_"); os.rmdir(d)
    subprocess.run(["git", "-C", "/repo", "worktree", "add", "-q", "--detach", d, "HEAD"], check=True)
    try:
        r = subprocess.run(["git", "-C", d, "apply", os.path.join(ROOT, "seeded", sid, "patch.diff")], stdout=subprocess.PIPE, stderr=subprocess.STDOUT, text=True)
        if r.returncode != 0:
            verdict = "patch-does-not-apply"
        else:
            r = subprocess.run([os.path.join(ROOT, "check"), pid, "--tier", "quick"], cwd=ROOT, env=dict(ENV, VERIF_REPO=d),
                               stdout=subprocess.PIPE, stderr=subprocess.STDOUT, text=True, timeout=3600)
            v = [l for l in r.stdout.splitlines() if l.startswith("VIOLATION")]
            if r.returncode == 1 and v:
                verdict = "no-failing-input" if all("no-failing-input-found" in l for l in v) else "concrete"
            elif r.returncode == 0:
                verdict = "MISSED"
            else:
                verdict = "rc=%d" % r.returncode
    except subprocess.TimeoutExpired:
        verdict = "timeout"
    finally:
        subprocess.run(["git", "-C", "/repo", "worktree", "remove", "--force", d])
    tally[verdict] = tally.get(verdict, 0) + 1
    print(f"{sid} [{pid}]: {verdict}", flush=True)
print("TOTAL", json.dumps(tally, sort_keys=True), flush=True)
