package main

// 27. the rest of marshalWalToJson (time text, LSN text, the WalEntry handed to the JSON encoder) and the header
// copy / BEGIN-COMMIT rule of Marshaller.Start: Gen/MarshalEntrySrc.lean. Theorem `marshal_entry_as_in_source`
// (C10): the model's `entry` and `stage` EQUAL the translation - every field comes from the message itself.

import (
	"go/ast"
	"os"
	"path/filepath"
	"strings"
)

func genMarshalEntrySrc(repo, outDir string) {
	f := parseFile(filepath.Join(repo, "marshaller/marshaller.go"))
	fn := findFunc(f, "marshalWalToJson", "")
	st := findFunc(f, "Start", "Marshaller")
	if fn == nil || st == nil {
		die("marshal entry: functions not found")
	}
	leaf := map[string]string{
		"msg.ServerTime": "c.timeMs", "msg.TimeBasedKey": "c.key", "msg.Pr.Relation": "c.relation", "msg.Pr.Operation": "c.operation",
		"t": "t", "columns": "(columns c.operation noOld c.columns c.oldColumns)", "epochFormatted": "epochFormatted",
		"time.Unix(0, int64(msg.ServerTime)*1000000).UTC().Format(time.RFC3339)": "c.timeStr",
		"*(*string)(unsafe.Pointer(&lsnBytes))":                                  "lsnText",
		"uint32(msg.WalStart>>32)":                                               "((c.lsn / 2 ^ 32) % 2 ^ 32)",
		"uint32(msg.WalStart)":                                                   "(c.lsn % 2 ^ 32)",
	}
	tr := func(e ast.Expr) string {
		if v, ok := leaf[squash(src(e))]; ok {
			return v
		}
		die("marshal entry: expression outside the translator's subset: %s", squash(src(e)))
		return ""
	}
	var lines []string
	fields := map[string]string{}
	sawColumnsVar, sawLsnBytes, sawT := false, false, false
	afterLoop := false
	for _, s := range fn.Body.List {
		txt := squash(src(s))
		switch x := s.(type) {
		case *ast.RangeStmt:
			if squash(src(x.X)) == "msg.Pr.Columns" {
				afterLoop = true
			}
		case *ast.DeclStmt:
			switch txt {
			case "var columns = colsTemp":
				sawColumnsVar = true
			case "var t string":
				sawT = true
			default:
				die("marshal entry: declaration outside the subset: %s", txt)
			}
		case *ast.IfStmt:
			if !afterLoop {
				continue
			}
			if squash(src(x.Cond)) != "msg.ServerTime != 0" || x.Else == nil || len(x.Body.List) != 1 {
				die("marshal entry: unexpected if: %s", squash(src(x.Cond)))
			}
			a, ok1 := x.Body.List[0].(*ast.AssignStmt)
			eb, ok2 := x.Else.(*ast.BlockStmt)
			if !ok1 || !ok2 || len(eb.List) != 1 || squash(src(a.Lhs[0])) != "t" {
				die("marshal entry: time branch outside the subset")
			}
			b, ok3 := eb.List[0].(*ast.AssignStmt)
			if !ok3 || squash(src(b.Lhs[0])) != "t" {
				die("marshal entry: time else-branch outside the subset")
			}
			lines = append(lines, "let t := if c.timeMs ≠ 0 then "+tr(a.Rhs[0])+" else "+tr(b.Rhs[0]))
		case *ast.AssignStmt:
			if !afterLoop {
				continue
			}
			lhs := squash(src(x.Lhs[0]))
			switch {
			case txt == "_, _ = fmt.Fprintf(lnsWriter, \"%X/%X\", uint32(msg.WalStart>>32), uint32(msg.WalStart))":
				c := x.Rhs[0].(*ast.CallExpr)
				lines = append(lines, "let lsnText := upperHex "+tr(c.Args[2])+" ++ \"/\" ++ upperHex "+tr(c.Args[3]))
			case strings.HasPrefix(txt, "_, _ = fmt.Fprintf("):
				die("marshal entry: LSN format changed: %s", txt)
			case txt == "_ = lnsWriter.Flush()":
			case txt == "lsnBytes := lsnBuffer.Bytes()":
				sawLsnBytes = true
			case strings.HasPrefix(lhs, "reusedWalEntry."):
				fields[strings.TrimPrefix(lhs, "reusedWalEntry.")] = tr(x.Rhs[0])
			case txt == "ret, err := gojson.Marshal(reusedWalEntry)":
			default:
				die("marshal entry: assignment outside the subset: %s", txt)
			}
		case *ast.ExprStmt:
			switch txt {
			case "lnsWriter.Reset(&lsnBuffer)", "lsnBuffer.Reset()", "clearColValues()", "clearColValuePairs()":
			default:
				die("marshal entry: statement outside the subset: %s", txt)
			}
		case *ast.ReturnStmt:
			if txt != "return ret, err" {
				die("marshal entry: return outside the subset: %s", txt)
			}
		}
	}
	want := []string{"Time", "TimeMs", "Txn", "Lsn", "Table", "Operation", "Columns"}
	if len(fields) != len(want) || !sawColumnsVar || !sawLsnBytes || !sawT {
		die("marshal entry: the WalEntry is not filled as expected (%d fields)", len(fields))
	}
	// struct tags of the entry
	tags := map[string]string{}
	ast.Inspect(f, func(n ast.Node) bool {
		ts, ok := n.(*ast.TypeSpec)
		if !ok || ts.Name.Name != "jsonWalEntry" {
			return true
		}
		for _, fl := range ts.Type.(*ast.StructType).Fields.List {
			if fl.Tag != nil && len(fl.Names) == 1 {
				tags[fl.Names[0].Name] = strings.Trim(fl.Tag.Value, "`")
			}
		}
		return false
	})
	// Start: the literal and the BEGIN/COMMIT rule
	var lit *ast.CompositeLit
	var rule *ast.IfStmt
	ast.Inspect(st.Body, func(n ast.Node) bool {
		switch x := n.(type) {
		case *ast.CompositeLit:
			if squash(src(x.Type)) == "MarshalledMessage" {
				lit = x
			}
		case *ast.IfStmt:
			if strings.Contains(squash(src(x.Cond)), "walMessage.Pr.Operation ==") {
				rule = x
			}
		}
		return true
	})
	if lit == nil || rule == nil || len(lit.Elts) != 7 {
		die("marshal entry: the MarshalledMessage literal / BEGIN-COMMIT rule not found")
	}
	hdr := map[string]string{"walMessage.Pr.Operation": "c.operation", "walMessage.Pr.Relation": "c.relation", "nil": "none",
		"walMessage.TimeBasedKey": "c.key", "walMessage.WalStart": "c.lsn", "walMessage.Pr.Transaction": "c.txn", "walMessage.PartitionKey": "c.pkey"}
	var hv []string
	for _, e := range lit.Elts {
		v, ok := hdr[squash(src(e))]
		if !ok {
			die("marshal entry: header field outside the subset: %s", squash(src(e)))
		}
		hv = append(hv, v)
	}
	if squash(src(rule.Cond)) != `walMessage.Pr.Operation == "BEGIN" || walMessage.Pr.Operation == "COMMIT"` || len(rule.Body.List) != 0 {
		die("marshal entry: BEGIN/COMMIT rule changed: %s", squash(src(rule.Cond)))
	}
	eb, ok := rule.Else.(*ast.BlockStmt)
	if !ok || len(eb.List) != 3 || squash(src(eb.List[0])) != "byteMessage, err := marshalWalToJson(walMessage, m.noMarshalOldValue)" ||
		squash(src(eb.List[2])) != "marshalledMessage.Json = byteMessage" {
		die("marshal entry: the else branch of the BEGIN/COMMIT rule changed")
	}
	var b strings.Builder
	b.WriteString("import PgBifrost.Model.Marshal\n/-! GENERATED by tools/factgen from marshaller/marshaller.go (WalEntry construction, Marshaller.Start header). Do not edit. -/\n")
	b.WriteString("namespace PgBifrost.Gen.MarshalEntrySrc\nopen PgBifrost.Marshal\n\n")
	b.WriteString("/-- the record handed to `gojson.Marshal` -/\ndef entry (noOld : Bool) (c : Change) : Record :=\n")
	for _, l := range lines {
		b.WriteString("  " + l + "\n")
	}
	b.WriteString("  { time := " + fields["Time"] + ", timeMs := " + fields["TimeMs"] + ", txn := " + fields["Txn"] + ", lsn := " + fields["Lsn"] +
		",\n    table := " + fields["Table"] + ", operation := " + fields["Operation"] + ", columns := " + fields["Columns"] + " }\n\n")
	b.WriteString("/-- one turn of `Marshaller.Start`: the header copy, no JSON for BEGIN/COMMIT -/\ndef stage (noOld : Bool) (c : Change) : Out :=\n")
	b.WriteString("  let m : Out := ⟨" + strings.Join(hv, ", ") + "⟩\n")
	b.WriteString("  if c.operation = \"BEGIN\" ∨ c.operation = \"COMMIT\" then m else { m with json := some (entry noOld c) }\n\n")
	b.WriteString("/-- JSON names of the entry's fields (struct tags) -/\ndef tags : List (String × String) := [")
	for k, w := range want {
		if k > 0 {
			b.WriteString(", ")
		}
		b.WriteString("(" + leanStr(w) + ", " + leanStr(tags[w]) + ")")
	}
	b.WriteString("]\n\nend PgBifrost.Gen.MarshalEntrySrc\n")
	os.WriteFile(filepath.Join(outDir, "MarshalEntrySrc.lean"), []byte(b.String()), 0o644)
}
