package main

// 15. the batcher's message path translated statement by statement: Gen/BatcherSrc.lean.
//   * Batcher.addToBatch  -> `addToBatch` (recursion bounded by fuel, as in the model);
//   * the part of Batcher.StartBatching after the `select` (one loop iteration for a received message) -> `onMsg`.
// Target: a `do` block in the Id monad over the model's Batcher.State with a mutable event list, using the model's
// primitives (`getOpen/setOpen`, `fresh` for `batchFactory.NewBatch`, `K.add/K.isFull` for the Batch interface,
// `sendBatch`). Theorem `batcher_as_in_source` (C04) proves the model's `onMsg` / `addToBatchModel` equal to them.

import (
	"go/ast"
	"go/token"
	"os"
	"path/filepath"
	"strings"
)

type batTr struct {
	b   strings.Builder
	ind int
}

func (t *batTr) line(s string) { t.b.WriteString(strings.Repeat("  ", t.ind) + s + "\n") }

func squash(s string) string { return strings.Join(strings.Fields(s), " ") }

// translate the statements of the message path
func (t *batTr) msgPath(list []ast.Stmt) {
	for _, s := range list {
		txt := squash(src(s))
		switch x := s.(type) {
		case *ast.AssignStmt:
			switch txt {
			case "curBatch, ok = b.batches[msg.PartitionKey]":
				t.line("let found := getOpen s m.pkey")
				t.line("cur := found.getD cur")
				t.line("ok := found.isSome")
			case "curBatch = b.batchFactory.NewBatch(msg.PartitionKey)":
				t.line("cur := fresh m.pkey")
			case "b.batches[msg.PartitionKey] = curBatch":
				t.line("s := setOpen s m.pkey cur")
			case "curTimeBasedKey = msg.TimeBasedKey":
				t.line("s := { s with curKey := some m.key }")
			case "totalMsgsInTxn = 0":
				t.line("s := { s with total := 0 }")
			case "totalMsgsInTxn += 1":
				t.line("s := { s with total := s.total + 1 }")
			case "curBatch, batchError = b.addToBatch(curBatch, msg)":
				t.line("let r := addToBatch K cfg 3 s cur m")
				t.line("s := r.1")
				t.line("cur := r.2.1")
				t.line("evs := evs ++ r.2.2.1")
				t.line("fatal := r.2.2.2")
			default:
				if strings.HasPrefix(txt, "b.seenList = append(b.seenList, &progress.Seen{") {
					cl := x.Rhs[0].(*ast.CallExpr).Args[1].(*ast.UnaryExpr).X.(*ast.CompositeLit)
					want := map[string]string{"Transaction": "msg.Transaction", "TimeBasedKey": "msg.TimeBasedKey", "TotalMsgs": "totalMsgsInTxn", "CommitWalStart": "msg.WalStart"}
					if len(cl.Elts) != 4 {
						die("batcher: Seen literal has %d fields", len(cl.Elts))
					}
					for _, el := range cl.Elts {
						kv, ok := el.(*ast.KeyValueExpr)
						if !ok || want[src(kv.Key)] != src(kv.Value) {
							die("batcher: unexpected Seen field: %s", src(el))
						}
					}
					t.line("s := { s with seenList := s.seenList ++ [⟨m.txn, m.key, s.total, m.lsn⟩] }")
					continue
				}
				die("batcher: assignment outside the translator's subset: %s", txt)
			}
		case *ast.IfStmt:
			if x.Else != nil || x.Init != nil {
				die("batcher: if with else/init outside the subset: %s", squash(src(x.Cond)))
			}
			c := squash(src(x.Cond))
			switch c {
			case "!ok":
				// after the map lookup: create; after sendBatch: fatal return (sendBatch's Close never fails: modelled)
				if len(x.Body.List) >= 1 {
					if _, isRet := x.Body.List[len(x.Body.List)-1].(*ast.ReturnStmt); isRet {
						continue // `ok := b.sendBatch(…); if !ok { return }`: Batch.Close of the real batches never fails
					}
				}
				t.line("if !ok then")
			case `msg.Operation == "COMMIT"`:
				t.line("if m.op == .commit then")
			case "curTimeBasedKey != msg.TimeBasedKey":
				t.line("if s.curKey != some m.key then")
			case "curBatch.IsFull()":
				t.line("if K.isFull cur then")
			case `msg.Operation == "BEGIN" || msg.Operation == "COMMIT"`:
				if len(x.Body.List) != 1 || squash(src(x.Body.List[0])) != "continue" {
					die("batcher: marker branch is not `continue`")
				}
				t.line("if m.op != .data then return (s, evs)")
				continue
			case "batchError == BATCH_ADD_FATAL":
				t.line("if fatal then return ({ s with dead := true }, evs)")
				continue
			default:
				die("batcher: condition outside the translator's subset: %s", c)
			}
			t.ind++
			t.msgPath(x.Body.List)
			t.ind--
		case *ast.DeclStmt, *ast.EmptyStmt:
			// local declarations: var msg, ok, batchError, curBatch
		case *ast.ExprStmt:
			if isLogCall(s) {
				continue
			}
			die("batcher: statement outside the translator's subset: %s", txt)
		default:
			die("batcher: statement outside the translator's subset: %s", txt)
		}
		// `ok := b.sendBatch(curBatch)` is an AssignStmt with := handled here
	}
}

func genBatcherSrc(repo, outDir string) {
	f := parseFile(filepath.Join(repo, "transport/batcher/batcher.go"))
	sb := findFunc(f, "StartBatching", "Batcher")
	ab := findFunc(f, "addToBatch", "Batcher")
	if sb == nil || ab == nil {
		die("batcher: StartBatching / addToBatch not found")
	}
	// the loop
	var loop *ast.ForStmt
	for _, s := range sb.Body.List {
		if fs, ok := s.(*ast.ForStmt); ok && fs.Cond == nil {
			loop = fs
		}
	}
	if loop == nil {
		die("batcher: StartBatching has no `for { … }`")
	}
	// everything after the first select statement of the loop body
	after := -1
	for i, s := range loop.Body.List {
		if _, ok := s.(*ast.SelectStmt); ok {
			after = i
			break
		}
	}
	if after < 0 {
		die("batcher: no select in the loop")
	}
	for _, s := range loop.Body.List[:after] {
		if _, ok := s.(*ast.DeclStmt); !ok {
			die("batcher: unexpected statement before the select: %s", squash(src(s)))
		}
	}
	t := &batTr{ind: 1}
	// pre-process `ok := b.sendBatch(curBatch)` (a := inside the IsFull branch)
	var fix func(list []ast.Stmt) []ast.Stmt
	fix = func(list []ast.Stmt) []ast.Stmt { return list }
	_ = fix
	// translate with a small hook for the sendBatch assignment
	var walk func(list []ast.Stmt)
	walk = func(list []ast.Stmt) {
		for _, s := range list {
			if as, ok := s.(*ast.AssignStmt); ok && as.Tok == token.DEFINE && squash(src(s)) == "ok := b.sendBatch(curBatch)" {
				t.line("let r := sendBatch cfg s cur")
				t.line("s := r.1")
				t.line("evs := evs ++ r.2")
				continue
			}
			if x, ok := s.(*ast.IfStmt); ok && squash(src(x.Cond)) == "curBatch.IsFull()" && x.Else == nil && x.Init == nil {
				t.line("if K.isFull cur then")
				t.ind++
				walk(x.Body.List)
				t.ind--
				continue
			}
			t.msgPath([]ast.Stmt{s})
		}
	}
	walk(loop.Body.List[after+1:])

	// addToBatch: ok, err := batch.Add(msg); if !ok { switch err.Error() { cases } }; return batch, BATCH_ADD_OK
	a := &batTr{ind: 2}
	st := ab.Body.List
	if len(st) != 4 || squash(src(st[0])) != "ok, err := batch.Add(msg)" || squash(src(st[3])) != "return batch, BATCH_ADD_OK" {
		die("batcher: addToBatch does not have the expected shape (Add; status; if !ok {switch}; return ok)")
	}
	ifs, ok := st[2].(*ast.IfStmt)
	if !ok || squash(src(ifs.Cond)) != "!ok" || len(ifs.Body.List) != 1 {
		die("batcher: addToBatch: expected `if !ok { switch err.Error() {…} }`")
	}
	sw, ok := ifs.Body.List[0].(*ast.SwitchStmt)
	if !ok || squash(src(sw.Tag)) != "err.Error()" {
		die("batcher: addToBatch: expected `switch err.Error()`")
	}
	classOf := map[string]string{"transport.ERR_CANT_FIT": ".cantFit", "transport.ERR_MSG_TOOBIG": ".tooBig", "transport.ERR_MSG_INVALID": ".invalid"}
	seen := map[string]bool{}
	defaultFatal := false
	for _, c := range sw.Body.List {
		cc := c.(*ast.CaseClause)
		if len(cc.List) == 0 {
			// default: fatal
			last := squash(src(cc.Body[len(cc.Body)-1]))
			if last != "return batch, BATCH_ADD_FATAL" {
				die("batcher: addToBatch default is not fatal")
			}
			defaultFatal = true
			continue
		}
		if len(cc.List) != 1 {
			die("batcher: addToBatch: multi-label case")
		}
		cls, ok := classOf[squash(src(cc.List[0]))]
		if !ok {
			die("batcher: addToBatch: unknown case %s", src(cc.List[0]))
		}
		seen[cls] = true
		a.line("| (" + cls + ", b') =>")
		a.ind++
		switch cls {
		case ".cantFit":
			// ok := b.sendBatch(batch); if !ok {fatal}; batch = NewBatch(pk); batch, status = b.addToBatch(batch, msg); return batch, status
			want := []string{"ok := b.sendBatch(batch)", "", "batch = b.batchFactory.NewBatch(msg.PartitionKey)", "batch, status = b.addToBatch(batch, msg)", "return batch, status"}
			if len(cc.Body) != len(want) {
				die("batcher: addToBatch can't-fit case has %d statements", len(cc.Body))
			}
			for i, w := range want {
				if w != "" && squash(src(cc.Body[i])) != w {
					die("batcher: addToBatch can't-fit case: %q, expected %q", squash(src(cc.Body[i])), w)
				}
			}
			a.line("let _ := b'")
			a.line("let r := sendBatch cfg s b")
			a.line("let q := addToBatch K cfg fuel r.1 (fresh m.pkey) m")
			a.line("(q.1, q.2.1, r.2 ++ q.2.2.1, q.2.2.2)")
		case ".tooBig", ".invalid":
			stat := ""
			for _, s := range cc.Body {
				if snd, ok := s.(*ast.SendStmt); ok && squash(src(snd.Chan)) == "b.statsChan" {
					if c, ok := snd.Value.(*ast.CallExpr); ok && len(c.Args) >= 2 {
						stat = strings.Trim(src(c.Args[1]), "\"")
					}
				}
			}
			last := squash(src(cc.Body[len(cc.Body)-1]))
			if last != "return batch, BATCH_ADD_FAIL" || stat == "" {
				die("batcher: addToBatch %s case: expected a statistic and `return batch, BATCH_ADD_FAIL`", cls)
			}
			a.line("(s, b', [.stat " + leanStr(stat) + "], false)")
		}
		a.ind--
	}
	if !defaultFatal || !seen[".cantFit"] || !seen[".tooBig"] || !seen[".invalid"] {
		die("batcher: addToBatch switch is missing a case")
	}

	var b strings.Builder
	b.WriteString("import PgBifrost.Model.Batcher\n/-! GENERATED by tools/factgen from transport/batcher/batcher.go (addToBatch, message path of StartBatching). Do not edit. -/\n")
	b.WriteString("namespace PgBifrost.Gen.BatcherSrc\nopen PgBifrost.Batch PgBifrost.Batcher\n\n")
	b.WriteString("/-- `Batcher.addToBatch`: (state, batch to keep open, events, fatal) -/\n")
	b.WriteString("def addToBatch (K : Kind) (cfg : Cfg) : Nat → State → Batch → Msg → State × Batch × List Ev × Bool\n")
	b.WriteString("  | 0, s, b, _ => (s, b, [.fatal], true)\n")
	b.WriteString("  | fuel + 1, s, b, m =>\n")
	b.WriteString("    match K.add b m with\n")
	b.WriteString("    | (.ok, b') => (s, b', [], false)\n")
	b.WriteString(a.b.String())
	b.WriteString("    | (.full, b') => (s, b', [.fatal], true)   -- `default:` any other error is fatal\n\n")
	b.WriteString("/-- one iteration of `StartBatching` for a received message -/\n")
	b.WriteString("def onMsg (K : Kind) (cfg : Cfg) (s0 : State) (m : Msg) : State × List Ev := Id.run do\n")
	b.WriteString("  let mut s := s0\n  let mut evs : List Ev := []\n  let mut cur : Batch := fresh m.pkey\n  let mut ok := false\n  let mut fatal := false\n")
	b.WriteString(t.b.String())
	b.WriteString("  return (s, evs)\n\nend PgBifrost.Gen.BatcherSrc\n")
	os.WriteFile(filepath.Join(outDir, "BatcherSrc.lean"), []byte(b.String()), 0o644)
}

// ---- sendBatch -------------------------------------------------------------------------------------------
// Statement by statement: flush the seen list first (the select with the ProgressTracker hand-over; its
// time-out arm panics = fail-stop, not translated), self-report an empty batch, Close (never fails for the real
// batches: not translated), pick the worker, send, statistics (not events of the model).
func genSendBatchSrc(repo, outDir string) {
	f := parseFile(filepath.Join(repo, "transport/batcher/batcher.go"))
	sb := findFunc(f, "sendBatch", "Batcher")
	if sb == nil {
		die("sendBatch: not found")
	}
	t := &batTr{ind: 1}
	phase := 0 // 0 seen flush, 1 empty, 2 close, 3 index decl, 4 switch, 5 send, 6 stats/return
	for _, s := range sb.Body.List {
		txt := squash(src(s))
		switch x := s.(type) {
		case *ast.IfStmt:
			c := squash(src(x.Cond))
			switch {
			case c == "len(b.seenList) > 0" && phase == 0:
				if len(x.Body.List) != 1 {
					die("sendBatch: seen flush is not a single select")
				}
				sel, ok := x.Body.List[0].(*ast.SelectStmt)
				if !ok {
					die("sendBatch: seen flush is not a select")
				}
				sent := false
				for _, cl := range sel.Body.List {
					cc := cl.(*ast.CommClause)
					if cc.Comm != nil && squash(src(cc.Comm)) == "b.txnsSeenChan <- b.seenList" {
						for _, st := range cc.Body {
							if squash(src(st)) == "b.seenList = []*progress.Seen{}" {
								sent = true
							} else if !isLogCall(st) {
								die("sendBatch: unexpected statement after the seen hand-over: %s", squash(src(st)))
							}
						}
					}
				}
				if !sent {
					die("sendBatch: the seen list is not handed over and cleared")
				}
				t.line("if s.seenList.length > 0 then")
				t.line("  evs := evs ++ [.seen s.seenList]")
				t.line("  s := { s with seenList := [] }")
				phase = 1
			case c == "batch.IsEmpty()" && phase <= 1:
				if len(x.Body.List) != 2 || squash(src(x.Body.List[0])) != "b.txnsWritten <- batch.GetTransactions()" || squash(src(x.Body.List[1])) != "return true" {
					die("sendBatch: empty-batch branch is not `txnsWritten <- batch.GetTransactions(); return true`")
				}
				t.line("if b.isEmpty then return (s, evs ++ [.selfReport b.txns])")
				phase = 2
			case c == "!ok" && phase == 2:
				phase = 3 // Close failed: never for the real batches
			default:
				die("sendBatch: unexpected if (%s) in phase %d", c, phase)
			}
		case *ast.AssignStmt:
			switch {
			case txt == "ok, err := batch.Close()" && phase == 2:
			case txt == "channelIndex := 0" && phase == 3:
				t.line("let mut idx := 0")
				phase = 4
			case (txt == "start := time.Now()" || txt == "now := time.Now()") && phase >= 5:
			default:
				die("sendBatch: unexpected assignment (%s) in phase %d", txt, phase)
			}
		case *ast.SwitchStmt:
			if squash(src(x.Tag)) != "b.routingMethod" || phase != 4 {
				die("sendBatch: unexpected switch")
			}
			t.line("match cfg.routing with")
			for _, cl := range x.Body.List {
				cc := cl.(*ast.CaseClause)
				if len(cc.List) != 1 {
					die("sendBatch: routing switch with default / multi-label case")
				}
				switch squash(src(cc.List[0])) {
				case "BATCH_ROUTING_ROUND_ROBIN":
					want := "channelIndex = b.roundRobinPosition"
					if len(cc.Body) != 2 || squash(src(cc.Body[0])) != want {
						die("sendBatch: round-robin case does not start with `%s`", want)
					}
					adv, ok := cc.Body[1].(*ast.IfStmt)
					if !ok || squash(src(adv.Cond)) != "b.roundRobinPosition == b.workers-1" || squash(src(adv.Body.List[0])) != "b.roundRobinPosition = 0" ||
						adv.Else == nil || squash(src(adv.Else.(*ast.BlockStmt).List[0])) != "b.roundRobinPosition++" {
						die("sendBatch: round-robin advance is not `if pos == workers-1 { pos = 0 } else { pos++ }`")
					}
					t.line("| .roundRobin =>")
					t.line("  idx := s.rr")
					// integers: pos == workers-1  <=>  pos+1 == workers (no truncation at workers = 0)
					t.line("  if s.rr + 1 == cfg.workers then s := { s with rr := 0 } else s := { s with rr := s.rr + 1 }")
				case "BATCH_ROUTING_PARTITION":
					if len(cc.Body) != 1 || squash(src(cc.Body[0])) != "channelIndex = utils.QuickHash(batch.GetPartitionKey(), b.workers)" {
						die("sendBatch: partition case is not `channelIndex = utils.QuickHash(batch.GetPartitionKey(), b.workers)`")
					}
					t.line("| .partition => idx := Crc32.quickHash b.pkey cfg.workers")
				default:
					die("sendBatch: unknown routing case %s", src(cc.List[0]))
				}
			}
			phase = 5
		case *ast.SendStmt:
			switch {
			case txt == "b.outputChans[channelIndex] <- batch" && phase == 5:
				t.line("evs := evs ++ [.dispatch idx b]")
				phase = 6
			case squash(src(x.Chan)) == "b.statsChan" && phase == 6:
			default:
				die("sendBatch: unexpected send (%s) in phase %d", txt, phase)
			}
		case *ast.ReturnStmt:
			if txt != "return true" || phase != 6 {
				die("sendBatch: unexpected return")
			}
		case *ast.ExprStmt:
			if !isLogCall(s) {
				die("sendBatch: unexpected statement: %s", txt)
			}
		default:
			die("sendBatch: unexpected statement: %s", txt)
		}
	}
	if phase != 6 {
		die("sendBatch: incomplete (phase %d)", phase)
	}
	var b strings.Builder
	b.WriteString("import PgBifrost.Model.Batcher\n/-! GENERATED by tools/factgen from Batcher.sendBatch. Do not edit. -/\n")
	b.WriteString("namespace PgBifrost.Gen.SendBatchSrc\nopen PgBifrost.Batch PgBifrost.Batcher\n\n")
	b.WriteString("def sendBatch (cfg : Cfg) (s0 : State) (b : Batch) : State × List Ev := Id.run do\n  let mut s := s0\n  let mut evs : List Ev := []\n")
	b.WriteString(t.b.String())
	b.WriteString("  return (s, evs)\n\nend PgBifrost.Gen.SendBatchSrc\n")
	os.WriteFile(filepath.Join(outDir, "SendBatchSrc.lean"), []byte(b.String()), 0o644)
}
