package main

// 28. the replication client's keepalive handling (`handlePrimaryKeepaliveMessage`: reply only when requested,
// a forced status first, the rapid-heartbeat accounting) and `recoverFromErrorResponse` (the synthetic COMMIT
// for an open delivery and its position, close / plain connection / IdentifySystem / close, the restart position
// and flags) translated statement by statement: Gen/ClientSrc.lean. Theorems `keepalive_as_in_source` (C18) and
// `recovery_as_in_source` (C02).

import (
	"go/ast"
	"go/token"
	"os"
	"path/filepath"
	"strings"
)

func genClientSrc(repo, outDir string) {
	f := parseFile(filepath.Join(repo, "replication/client/client.go"))
	ka := findFunc(f, "handlePrimaryKeepaliveMessage", "Replicator")
	rc := findFunc(f, "recoverFromErrorResponse", "Replicator")
	if ka == nil || rc == nil {
		die("client: handlePrimaryKeepaliveMessage / recoverFromErrorResponse not found")
	}
	tr := &condTr{what: "client keepalive", vocab: map[string]string{
		"c.heartbeatRequestDeltaTime": "s.hbDelta", "c.heartbeatRequestCounter": "s.hbCount",
		"time.Millisecond*100": "100000000", "time.Millisecond * 100": "100000000", "100*time.Millisecond": "100000000",
	}, isInt: map[string]bool{"s.hbDelta": true, "s.hbCount": true, "100000000": true}}
	var kl []string
	phase := 0 // 0 parse, 1 reply test, 2 forced status, 3 accounting
	for _, s := range ka.Body.List {
		txt := squash(src(s))
		switch x := s.(type) {
		case *ast.ExprStmt:
			if !strings.HasPrefix(txt, "log.") {
				die("client keepalive: statement outside the subset: %s", txt)
			}
		case *ast.AssignStmt:
			switch {
			case txt == "pkm, err := pglogrepl.ParsePrimaryKeepaliveMessage(data)" && phase == 0:
			case txt == "now := time.Now()" && phase == 3:
			case txt == "c.heartbeatRequestDeltaTime += now.Sub(c.lastClientHeartbeatRequestTime)" && phase == 3:
				kl = append(kl, "s := { s with hbDelta := s.hbDelta + elapsed }")
			case txt == "c.lastClientHeartbeatRequestTime = now" && phase == 3:
			default:
				die("client keepalive: assignment outside the subset (phase %d): %s", phase, txt)
			}
		case *ast.IncDecStmt:
			if txt == "c.heartbeatRequestCounter++" && phase == 3 {
				kl = append(kl, "s := { s with hbCount := s.hbCount + 1 }")
			} else {
				die("client keepalive: inc/dec outside the subset: %s", txt)
			}
		case *ast.IfStmt:
			c := squash(src(x.Cond))
			switch {
			case c == "err != nil" && x.Init == nil && phase == 0:
				phase = 1
			case c == "!pkm.ReplyRequested" && phase == 1:
				if len(x.Body.List) != 1 || squash(src(x.Body.List[0])) != "return nil" {
					die("client keepalive: an unrequested keepalive does more than return")
				}
				kl = append(kl, "if !reply then return ((s, acts), none)")
				phase = 2
			case x.Init != nil && squash(src(x.Init)) == "err := c.handleProgress(true)" && phase == 2:
				kl = append(kl, "let hp := handleProgress s true")
				kl = append(kl, "s := hp.1")
				kl = append(kl, "acts := acts ++ hp.2")
				phase = 3
			case phase == 3 && x.Init == nil && x.Else == nil:
				cond := tr.boolExpr(x.Cond)
				last := squash(src(x.Body.List[len(x.Body.List)-1]))
				if strings.HasPrefix(last, "return errors.New(") {
					kl = append(kl, "if "+cond+" then return ((s, acts), some \"heartbeat\")")
					break
				}
				kl = append(kl, "if "+cond+" then")
				for _, b := range x.Body.List {
					switch squash(src(b)) {
					case "c.heartbeatRequestCounter = 0":
						kl = append(kl, "  s := { s with hbCount := 0 }")
					case "c.heartbeatRequestDeltaTime = 0":
						kl = append(kl, "  s := { s with hbDelta := 0 }")
					default:
						die("client keepalive: statement outside the subset: %s", squash(src(b)))
					}
				}
			default:
				die("client keepalive: if outside the subset (phase %d): %s", phase, c)
			}
		case *ast.ReturnStmt:
			if txt != "return nil" || phase != 3 {
				die("client keepalive: return outside the subset: %s", txt)
			}
			kl = append(kl, "return ((s, acts), none)")
		default:
			die("client keepalive: statement outside the subset: %s", txt)
		}
	}
	// ---- recoverFromErrorResponse ----
	var rl []string
	field := map[string]string{"c.highestWalStart": "s.highest", "c.overallProgress": "s.overall", "c.transaction": "s.txn", "c.timeBasedKey": "s.key",
		"commitWalStart": "commitWalStart", "uint64(sysident.XLogPos)": "pos", "false": "false", "true": "true", "0": "0"}
	val := func(e ast.Expr) string {
		if v, ok := field[squash(src(e))]; ok {
			return v
		}
		die("client recovery: expression outside the subset: %s", squash(src(e)))
		return ""
	}
	var block func(list []ast.Stmt, ind string)
	pending := map[string]string{} // fields of the synthetic message
	block = func(list []ast.Stmt, ind string) {
		for _, s := range list {
			txt := squash(src(s))
			switch x := s.(type) {
			case *ast.ExprStmt:
				switch {
				case strings.HasPrefix(txt, "log."):
				case txt == "c.connManager.Close()":
					rl = append(rl, ind+"let r := mgrClose s", ind+"s := r.1", ind+"acts := acts ++ r.2")
				default:
					die("client recovery: statement outside the subset: %s", txt)
				}
			case *ast.SendStmt:
				if txt != "c.outputChan <- &msg" || pending["op"] == "" {
					die("client recovery: send outside the subset: %s", txt)
				}
				if pending["TimeBasedKey"] == "" || pending["WalStart"] == "" || pending["ServerWalEnd"] != pending["WalStart"] || pending["txn"] == "" {
					die("client recovery: the synthetic COMMIT does not carry key, transaction and one position: %v", pending)
				}
				rl = append(rl, ind+"acts := acts ++ [.fwd "+pending["op"]+" "+pending["txn"]+" "+pending["TimeBasedKey"]+" "+pending["WalStart"]+"]")
			case *ast.AssignStmt:
				lhs := squash(src(x.Lhs[0]))
				switch {
				case lhs == "c.deliveryOpen" && x.Tok == token.ASSIGN:
					rl = append(rl, ind+"s := { s with openFlag := "+val(x.Rhs[0])+" }")
				case lhs == "commitWalStart" && x.Tok == token.DEFINE:
					rl = append(rl, ind+"let mut commitWalStart := "+val(x.Rhs[0]))
				case lhs == "commitWalStart" && x.Tok == token.ASSIGN:
					rl = append(rl, ind+"commitWalStart := "+val(x.Rhs[0]))
				case lhs == "pr" && x.Tok == token.DEFINE:
					cl, ok := x.Rhs[0].(*ast.CompositeLit)
					if !ok || squash(src(cl.Type)) != "parselogical.ParseResult" {
						die("client recovery: pr is not a ParseResult literal")
					}
					for _, el := range cl.Elts {
						kv := el.(*ast.KeyValueExpr)
						switch squash(src(kv.Key)) {
						case "Transaction":
							pending["txn"] = val(kv.Value)
						case "Operation":
							if squash(src(kv.Value)) != `"COMMIT"` {
								die("client recovery: the synthetic message is not a COMMIT")
							}
							pending["op"] = ".commit"
						default:
							die("client recovery: unexpected ParseResult field %s", squash(src(kv.Key)))
						}
					}
				case lhs == "msg" && x.Tok == token.DEFINE:
					cl, ok := x.Rhs[0].(*ast.CompositeLit)
					if !ok || squash(src(cl.Type)) != "replication.WalMessage" {
						die("client recovery: msg is not a WalMessage literal")
					}
					for _, el := range cl.Elts {
						kv := el.(*ast.KeyValueExpr)
						k := squash(src(kv.Key))
						if k == "Pr" {
							if squash(src(kv.Value)) != "&pr" {
								die("client recovery: msg.Pr is not &pr")
							}
							continue
						}
						pending[k] = val(kv.Value)
					}
				case txt == "tmpConn, err := c.connManager.GetConn(c.shutdownHandler.TerminateCtx)":
					rl = append(rl, ind+"let r := getConnPlain s", ind+"s := r.1", ind+"acts := acts ++ r.2")
				case txt == "sysident, err := tmpConn.IdentifySystem(c.shutdownHandler.TerminateCtx)":
					rl = append(rl, ind+"acts := acts ++ [.identify]")
				case lhs == "c.highestWalStart" && x.Tok == token.ASSIGN:
					rl = append(rl, ind+"s := { s with highest := "+val(x.Rhs[0])+" }")
				case lhs == "c.sawCommit" && x.Tok == token.ASSIGN:
					rl = append(rl, ind+"s := { s with sawCommit := "+val(x.Rhs[0])+" }")
				case lhs == "c.firstIteration" && x.Tok == token.ASSIGN:
					rl = append(rl, ind+"s := { s with firstIter := "+val(x.Rhs[0])+" }")
				default:
					die("client recovery: assignment outside the subset: %s", txt)
				}
			case *ast.IfStmt:
				c := squash(src(x.Cond))
				switch {
				case c == "err != nil":
					// connection / IdentifySystem failures end the client; outside the model's recovery step
				case c == "c.deliveryOpen" && x.Else == nil:
					rl = append(rl, ind+"if s.openFlag then")
					block(x.Body.List, ind+"  ")
				case c == "commitWalStart == 0" && x.Else == nil:
					rl = append(rl, ind+"if commitWalStart = 0 then")
					block(x.Body.List, ind+"  ")
				default:
					die("client recovery: if outside the subset: %s", c)
				}
			case *ast.ReturnStmt:
				if txt != "return nil" {
					die("client recovery: return outside the subset: %s", txt)
				}
			default:
				die("client recovery: statement outside the subset: %s", txt)
			}
		}
	}
	block(rc.Body.List, "  ")
	var b strings.Builder
	b.WriteString("import PgBifrost.Model.Client\n/-! GENERATED by tools/factgen from replication/client/client.go (keepalive handling, error recovery). Do not edit. -/\n")
	b.WriteString("namespace PgBifrost.Gen.ClientSrc\nopen PgBifrost.Client\n\n")
	b.WriteString("/-- `handlePrimaryKeepaliveMessage` for a parsed keepalive; `elapsed` = `now.Sub(lastClientHeartbeatRequestTime)` -/\n")
	b.WriteString("def keepalive (s : State) (reply : Bool) (elapsed : Nat) : Handled := Id.run do\n  let mut s := s\n  let mut acts : List Action := []\n")
	for _, l := range kl {
		b.WriteString("  " + l + "\n")
	}
	b.WriteString("\n/-- `recoverFromErrorResponse` when the plain connection and IdentifySystem succeed; `pos` = `sysident.XLogPos` -/\n")
	b.WriteString("def recover (s : State) (pos : Nat) : State × List Action := Id.run do\n  let mut s := s\n  let mut acts : List Action := []\n")
	for _, l := range rl {
		b.WriteString(l + "\n")
	}
	b.WriteString("  return (s, acts)\n\nend PgBifrost.Gen.ClientSrc\n")
	os.WriteFile(filepath.Join(outDir, "ClientSrc.lean"), []byte(b.String()), 0o644)
}
