package main

// 33. main.go's option plumbing (`replicateAction`): every `xConfig[config.K] = v`, with where `v` comes from - the
// option read by `c.Global<T>(config.K')` directly or through a local assigned exactly once - and, for app.New
// (app/runner.go), every `v, ok := xConfig[config.K].(T)` read with whether `v` is assigned again before it is
// used: Gen/MainOpts.lean. Theorem `options_reach_their_own_slot` (C16): each slot of the batcher, partitioner,
// marshaller and client maps is filled from the option of the SAME name, and app.New passes on what it read.

import (
	"go/ast"
	"go/token"
	"os"
	"path/filepath"
	"sort"
	"strings"
)

func genMainOpts(repo, outDir string) {
	f := parseFile(filepath.Join(repo, "main/main.go"))
	ra := findFunc(f, "replicateAction", "")
	if ra == nil {
		die("main opts: replicateAction not found")
	}
	// locals: name -> (option key read, number of assignments)
	type loc struct {
		key string
		n   int
	}
	locals := map[string]*loc{}
	globalKey := func(e ast.Expr) string {
		// c.Global<T>(config.K) possibly wrapped in one conversion call f(…)
		c, ok := e.(*ast.CallExpr)
		if !ok {
			return ""
		}
		if strings.HasPrefix(squash(src(c.Fun)), "c.Global") && len(c.Args) == 1 {
			return squash(src(c.Args[0]))
		}
		if len(c.Args) == 1 {
			if in, ok := c.Args[0].(*ast.CallExpr); ok && strings.HasPrefix(squash(src(in.Fun)), "c.Global") && len(in.Args) == 1 {
				return squash(src(c.Fun)) + "∘" + squash(src(in.Args[0]))
			}
		}
		return ""
	}
	ast.Inspect(ra.Body, func(n ast.Node) bool {
		as, ok := n.(*ast.AssignStmt)
		if !ok {
			return true
		}
		for i, l := range as.Lhs {
			id, ok := l.(*ast.Ident)
			if !ok {
				continue
			}
			if locals[id.Name] == nil {
				locals[id.Name] = &loc{}
			}
			locals[id.Name].n++
			if len(as.Rhs) == len(as.Lhs) {
				if k := globalKey(as.Rhs[i]); k != "" {
					locals[id.Name].key = k
				}
			}
		}
		return true
	})
	var rows []string
	ast.Inspect(ra.Body, func(n ast.Node) bool {
		as, ok := n.(*ast.AssignStmt)
		if !ok || as.Tok != token.ASSIGN || len(as.Lhs) != 1 {
			return true
		}
		ix, ok := as.Lhs[0].(*ast.IndexExpr)
		if !ok || !strings.HasSuffix(squash(src(ix.X)), "Config") {
			return true
		}
		m, key := squash(src(ix.X)), squash(src(ix.Index))
		origin := globalKey(as.Rhs[0])
		if origin == "" {
			if id, ok := as.Rhs[0].(*ast.Ident); ok && locals[id.Name] != nil && locals[id.Name].key != "" {
				origin = locals[id.Name].key
				if locals[id.Name].n != 1 {
					origin = "reassigned:" + origin
				}
			} else {
				origin = "computed:" + squash(src(as.Rhs[0]))
			}
		}
		rows = append(rows, "("+leanStr(m)+", "+leanStr(key)+", "+leanStr(origin)+")")
		return true
	})
	// app.New: reads of the maps and whether the local is assigned again
	rf := parseFile(filepath.Join(repo, "app/runner.go"))
	nw := findFunc(rf, "New", "")
	if nw == nil {
		die("main opts: app.New not found")
	}
	cnt := map[string]int{}
	reads := map[string][2]string{}
	ast.Inspect(nw.Body, func(n ast.Node) bool {
		as, ok := n.(*ast.AssignStmt)
		if !ok {
			return true
		}
		for _, l := range as.Lhs {
			if id, ok := l.(*ast.Ident); ok && id.Name != "ok" && id.Name != "_" && id.Name != "err" {
				cnt[id.Name]++
			}
		}
		if len(as.Lhs) == 2 && len(as.Rhs) == 1 {
			if ta, ok := as.Rhs[0].(*ast.TypeAssertExpr); ok {
				if ix, ok := ta.X.(*ast.IndexExpr); ok && strings.HasSuffix(squash(src(ix.X)), "Config") {
					if id, ok := as.Lhs[0].(*ast.Ident); ok {
						reads[id.Name] = [2]string{squash(src(ix.X)), squash(src(ix.Index))}
					}
				}
			}
		}
		return true
	})
	var rrows []string
	names := []string{}
	for k := range reads {
		names = append(names, k)
	}
	sort.Strings(names)
	for _, k := range names {
		once := "true"
		if cnt[k] != 1 {
			once = "false"
		}
		rrows = append(rrows, "("+leanStr(k)+", "+leanStr(reads[k][0])+", "+leanStr(reads[k][1])+", "+once+")")
	}
	// the chain of constructor calls below app.New: which argument goes to which parameter
	paramNames := func(fd *ast.FuncDecl) []string {
		var ps []string
		for _, p := range fd.Type.Params.List {
			for _, n := range p.Names {
				ps = append(ps, n.Name)
			}
		}
		return ps
	}
	type hop struct{ callerFile, caller, calleeFile, callee, callText string }
	hops := []hop{
		{"app/runner.go", "New", "transport/manager/manager.go", "New", "manager.New"},
		{"transport/manager/manager.go", "New", "transport/factory/factory.go", "NewTransport", "factory.NewTransport"},
		{"transport/factory/factory.go", "NewTransport", "transport/batcher/batcher.go", "NewBatcher", "batcher.NewBatcher"},
	}
	var prows []string
	for _, h := range hops {
		cf := findFunc(parseFile(filepath.Join(repo, h.callerFile)), h.caller, "")
		ce := findFunc(parseFile(filepath.Join(repo, h.calleeFile)), h.callee, "")
		if cf == nil || ce == nil {
			die("main opts: %s / %s not found", h.caller, h.callee)
		}
		ps := paramNames(ce)
		found := false
		reassigned := map[string]bool{}
		ast.Inspect(cf.Body, func(n ast.Node) bool {
			if as, ok := n.(*ast.AssignStmt); ok && as.Tok == token.ASSIGN {
				for _, l := range as.Lhs {
					if id, ok := l.(*ast.Ident); ok {
						reassigned[id.Name] = true
					}
				}
			}
			return true
		})
		ast.Inspect(cf.Body, func(n ast.Node) bool {
			c, ok := n.(*ast.CallExpr)
			if !ok || squash(src(c.Fun)) != h.callText || found {
				return true
			}
			found = true
			if len(c.Args) != len(ps) {
				die("main opts: %s is called with %d arguments, it has %d parameters", h.callText, len(c.Args), len(ps))
			}
			for i, a := range c.Args {
				arg := squash(src(a))
				if reassigned[arg] {
					arg = "reassigned:" + arg
				}
				prows = append(prows, "("+leanStr(h.callText)+", "+leanStr(ps[i])+", "+leanStr(arg)+")")
			}
			return true
		})
		if !found {
			die("main opts: call of %s not found in %s", h.callText, h.callerFile)
		}
	}
	var b strings.Builder
	b.WriteString("/-! GENERATED by tools/factgen from main/main.go (replicateAction) and app/runner.go (New). Do not edit. -/\n")
	b.WriteString("namespace PgBifrost.Gen.MainOpts\n\n/-- (config map, slot, where the value comes from: the option read, `conv∘option`, or `computed:<expr>`) -/\n")
	b.WriteString("def slots : List (String × String × String) := [\n  " + strings.Join(rows, ",\n  ") + "\n]\n\n")
	b.WriteString("/-- app.New: (local, map, slot, assigned exactly once) -/\ndef reads : List (String × String × String × Bool) := [\n  " + strings.Join(rrows, ",\n  ") + "\n]\n\n")
	b.WriteString("/-- below app.New: (call, parameter of the callee, argument as written; `reassigned:` if the caller assigns to it) -/\ndef passes : List (String × String × String) := [\n  " + strings.Join(prows, ",\n  ") + "\n]\n\n")
	b.WriteString("end PgBifrost.Gen.MainOpts\n")
	os.WriteFile(filepath.Join(outDir, "MainOpts.lean"), []byte(b.String()), 0o644)
}
