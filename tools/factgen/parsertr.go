package main

// 26. the decoder's state machine: the `switch state.Current` inside the loop of `parselogical.parse` and the
// code after the loop, translated statement by statement into Gen/ParserSrc.lean (`stepC`, `finish`) over the
// model's parser state. Go slice and index expressions go through the model's `slice?` / `index?` (out of
// range = run-time panic, outcome `panic`). Theorem `parser_switch_as_in_source` (C09): the model's `stepC`
// and `finish` - about which totality and the round trip are proved - EQUAL the translation.

import (
	"fmt"
	"go/ast"
	"go/token"
	"os"
	"path/filepath"
	"strconv"
	"strings"
)

type parserTr struct {
	tmp    int
	locals map[string]string // local variable -> type
}

var psConst = map[string]string{
	"parseStateInitial": ".initial", "parseStateRelation": ".relation", "parseStateOperation": ".operation",
	"parseStateEscapedIdentifier": ".escId", "parseStateOperationTruncate": ".opTruncate", "parseStateColumnName": ".colName",
	"parseStateColumnType": ".colType", "parseStateOpenSquareBracket": ".openSq", "parseStateColumnValue": ".colValue",
	"parseStateColumnQuotedValue": ".colQuoted", "parseStateEnd": ".end_", "parseStateNull": ".null",
}

var psField = map[string][2]string{ // Go selector -> (Lean term, type)
	"state.TokenStart": {"st.tokenStart", "nat"}, "state.Current": {"st.cur", "state"}, "state.Prev": {"st.prev", "state"},
	"state.OldKey": {"st.oldKey", "bool"}, "state.CurColumnName": {"st.curName", "bytes"}, "state.CurColumnType": {"st.curType", "bytes"},
	"pr.Relation": {"res.relation", "bytes"}, "pr.Operation": {"res.operation", "bytes"}, "pr.Transaction": {"res.transaction", "bytes"},
	"pr.NoTupleData": {"res.noTuple", "bool"},
}

var psSet = map[string]string{ // Go selector -> Lean update template
	"state.TokenStart": "st := { st with tokenStart := %s }", "state.Current": "st := { st with cur := %s }",
	"state.Prev": "st := { st with prev := %s }", "state.OldKey": "st := { st with oldKey := %s }",
	"state.CurColumnName": "st := { st with curName := %s }", "state.CurColumnType": "st := { st with curType := %s }",
	"pr.Relation": "res := { res with relation := %s }", "pr.Operation": "res := { res with operation := %s }",
	"pr.NoTupleData": "res := { res with noTuple := %s }",
}

func bytesLit(s string) string {
	p := []string{}
	for _, b := range []byte(s) {
		p = append(p, strconv.Itoa(int(b)))
	}
	return "([" + strings.Join(p, ", ") + "] : Bytes)"
}

// expr: Lean term, type; slice/index expressions add guarded bindings to pre
func (t *parserTr) expr(e ast.Expr, pre *[]string) (string, string) {
	txt := squash(src(e))
	if f, ok := psField[txt]; ok {
		return f[0], f[1]
	}
	if c, ok := psConst[txt]; ok {
		return c, "state"
	}
	switch x := e.(type) {
	case *ast.ParenExpr:
		return t.expr(x.X, pre)
	case *ast.Ident:
		switch x.Name {
		case "chr":
			return "chr", "byte"
		case "chrNext":
			return "nxt", "byte"
		case "i":
			return "i", "nat"
		case "preludeOnly":
			return "p", "bool"
		case "true", "false":
			return x.Name, "bool"
		}
		if ty, ok := t.locals[x.Name]; ok {
			return x.Name, ty
		}
	case *ast.BasicLit:
		switch x.Kind {
		case token.INT:
			return x.Value, "nat"
		case token.CHAR:
			v, _, _, err := strconv.UnquoteChar(x.Value[1:len(x.Value)-1], '\'')
			if err == nil && v < 256 {
				return strconv.Itoa(int(v)), "byte"
			}
		case token.STRING:
			s, err := strconv.Unquote(x.Value)
			if err == nil {
				return bytesLit(s), "bytes"
			}
		}
	case *ast.CallExpr:
		f := squash(src(x.Fun))
		if f == "len" && len(x.Args) == 1 && squash(src(x.Args[0])) == "message" {
			return "msg.length", "nat"
		}
		if f == "strings.Replace" && len(x.Args) == 4 && squash(src(x.Args[1])) == `"''"` && squash(src(x.Args[2])) == `"'"` && squash(src(x.Args[3])) == "-1" {
			a, ty := t.expr(x.Args[0], pre)
			if ty == "bytes" {
				return "(unescapeQuotes " + a + ")", "bytes"
			}
		}
	case *ast.SliceExpr:
		if squash(src(x.X)) == "message" && x.Low != nil && !x.Slice3 {
			lo, lt := t.expr(x.Low, pre)
			hi, ht := "msg.length", "nat"
			if x.High != nil {
				hi, ht = t.expr(x.High, pre)
			}
			if lt == "nat" && ht == "nat" {
				t.tmp++
				v := fmt.Sprintf("t%d", t.tmp)
				*pre = append(*pre, fmt.Sprintf("let some %s := slice? msg (%s) (%s) | return .done .panic", v, lo, hi))
				return v, "bytes"
			}
		}
	case *ast.IndexExpr:
		if squash(src(x.X)) == "message" {
			ix, it := t.expr(x.Index, pre)
			if it == "nat" {
				t.tmp++
				v := fmt.Sprintf("b%d", t.tmp)
				*pre = append(*pre, fmt.Sprintf("let some %s := index? msg (%s) | return .done .panic", v, ix))
				return v, "byte"
			}
		}
	case *ast.CompositeLit:
		if squash(src(x.Type)) == "ColumnValue" {
			f := map[string]string{}
			for _, el := range x.Elts {
				kv := el.(*ast.KeyValueExpr)
				v, _ := t.expr(kv.Value, pre)
				f[squash(src(kv.Key))] = v
			}
			if len(f) == 3 && f["Value"] != "" && f["Quoted"] != "" && f["Type"] != "" {
				return "({ value := " + f["Value"] + ", type := " + f["Type"] + ", quoted := " + f["Quoted"] + " } : CV)", "cv"
			}
		}
	case *ast.BinaryExpr:
		switch x.Op {
		case token.ADD, token.SUB:
			a, at := t.expr(x.X, pre)
			b, bt := t.expr(x.Y, pre)
			if at == "nat" && bt == "nat" {
				return "(" + a + " " + x.Op.String() + " " + b + ")", "nat"
			}
		case token.EQL, token.NEQ:
			a, at := t.expr(x.X, pre)
			b, bt := t.expr(x.Y, pre)
			if at == bt {
				op := "="
				if x.Op == token.NEQ {
					op = "≠"
				}
				if at == "bool" {
					return "(" + a + " " + op + " " + b + ")", "prop"
				}
				return "(" + a + " " + op + " " + b + ")", "prop"
			}
		}
	}
	die("parser: expression outside the translator's subset: %s", txt)
	return "", ""
}

// a value of type bool used where Lean wants a Bool (assignment) or a Prop (condition)
func asProp(s, ty string) string {
	if ty == "bool" {
		return "(" + s + " = true)"
	}
	return s
}
func asBool(s, ty string) string {
	if ty == "prop" {
		return "(decide " + s + ")"
	}
	return s
}

type conj struct {
	pre []string
	c   string
}

// cond: a condition as a conjunction whose later members may need guarded bindings
func (t *parserTr) cond(e ast.Expr) []conj {
	if p, ok := e.(*ast.ParenExpr); ok {
		return t.cond(p.X)
	}
	if b, ok := e.(*ast.BinaryExpr); ok && b.Op == token.LAND {
		return append(t.cond(b.X), t.cond(b.Y)...)
	}
	if b, ok := e.(*ast.BinaryExpr); ok && b.Op == token.LOR {
		var pre []string
		l, r := t.cond(b.X), t.cond(b.Y)
		flat := func(cs []conj) string {
			p := []string{}
			for _, c := range cs {
				if len(c.pre) > 0 {
					die("parser: slice inside || is outside the subset: %s", squash(src(e)))
				}
				p = append(p, c.c)
			}
			return "(" + strings.Join(p, " ∧ ") + ")"
		}
		_ = pre
		return []conj{{nil, "(" + flat(l) + " ∨ " + flat(r) + ")"}}
	}
	if u, ok := e.(*ast.UnaryExpr); ok && u.Op == token.NOT {
		var pre []string
		s, ty := t.expr(u.X, &pre)
		return []conj{{pre, "¬ " + asProp(s, ty)}}
	}
	var pre []string
	s, ty := t.expr(e, &pre)
	return []conj{{pre, asProp(s, ty)}}
}

func (t *parserTr) errKind(e ast.Expr) string {
	txt := squash(src(e))
	for pat, k := range map[string]string{"invalid parse State null": ".nullState", "invalid character": ".invalidChar",
		"invalid parser end State": ".invalidEndState"} {
		if strings.HasPrefix(txt, "errors.Errorf(\""+pat) {
			return k
		}
	}
	die("parser: unknown error site: %s", txt)
	return ""
}

func (t *parserTr) stmts(list []ast.Stmt, ind string, out *[]string, inFinish bool) {
	emit := func(s string) { *out = append(*out, ind+s) }
	for _, s := range list {
		txt := squash(src(s))
		switch x := s.(type) {
		case *ast.AssignStmt:
			if len(x.Lhs) != 1 || len(x.Rhs) != 1 {
				die("parser: assignment outside the subset: %s", txt)
			}
			var pre []string
			lhs := squash(src(x.Lhs[0]))
			if ie, ok := x.Lhs[0].(*ast.IndexExpr); ok && x.Tok == token.ASSIGN {
				m := squash(src(ie.X))
				k, kt := t.expr(ie.Index, &pre)
				v, vt := t.expr(x.Rhs[0], &pre)
				if kt != "bytes" || vt != "cv" || (m != "pr.OldColumns" && m != "pr.Columns") {
					die("parser: map assignment outside the subset: %s", txt)
				}
				for _, p := range pre {
					emit(p)
				}
				if m == "pr.OldColumns" {
					emit("res := { res with old := setCol res.old " + k + " " + v + " }")
				} else {
					emit("res := { res with cols := setCol res.cols " + k + " " + v + " }")
				}
				continue
			}
			v, vt := t.expr(x.Rhs[0], &pre)
			for _, p := range pre {
				emit(p)
			}
			if tmpl, ok := psSet[lhs]; ok && x.Tok == token.ASSIGN {
				emit(fmt.Sprintf(tmpl, asBool(v, vt)))
				continue
			}
			if id, ok := x.Lhs[0].(*ast.Ident); ok {
				if x.Tok == token.DEFINE {
					if vt == "prop" {
						v, vt = "(decide "+v+")", "bool"
					}
					t.locals[id.Name] = vt
					emit("let mut " + id.Name + " := " + v)
					continue
				}
				if _, known := t.locals[id.Name]; known && x.Tok == token.ASSIGN {
					emit(id.Name + " := " + asBool(v, vt))
					continue
				}
			}
			die("parser: assignment outside the subset: %s", txt)
		case *ast.IncDecStmt:
			name := squash(src(x.X))
			switch {
			case name == "i" && x.Tok == token.INC:
				emit("skip := true")
			case t.locals[name] == "nat" && x.Tok == token.INC:
				emit(name + " := " + name + " + 1")
			case t.locals[name] == "nat" && x.Tok == token.DEC:
				emit(name + " := " + name + " - 1")
			default:
				die("parser: inc/dec outside the subset: %s", txt)
			}
		case *ast.ReturnStmt:
			if inFinish {
				if txt == "return nil" {
					emit("return .ok res")
				} else if len(x.Results) == 1 {
					emit("return .err " + t.errKind(x.Results[0]))
				} else {
					die("parser: return outside the subset: %s", txt)
				}
				continue
			}
			if len(x.Results) != 1 {
				die("parser: return outside the subset: %s", txt)
			}
			emit("return .done (.err " + t.errKind(x.Results[0]) + ")")
		case *ast.BranchStmt:
			if x.Tok == token.BREAK && x.Label != nil && x.Label.Name == "outer" {
				emit("return .done (finish p st res)")
			} else {
				die("parser: branch outside the subset: %s", txt)
			}
		case *ast.IfStmt:
			if x.Init != nil {
				die("parser: if with init: %s", txt)
			}
			t.ifChain(x, ind, out, inFinish)
		default:
			die("parser: statement outside the subset: %s", txt)
		}
	}
}

func (t *parserTr) elseOf(x *ast.IfStmt, ind string, out *[]string, inFinish bool) {
	switch e := x.Else.(type) {
	case nil:
		*out = append(*out, ind+"pure ()")
	case *ast.BlockStmt:
		saved := t.saveLocals()
		t.stmts(e.List, ind, out, inFinish)
		if len(e.List) == 0 {
			*out = append(*out, ind+"pure ()")
		}
		t.locals = saved
	case *ast.IfStmt:
		t.ifChain(e, ind, out, inFinish)
	}
}

func (t *parserTr) saveLocals() map[string]string {
	m := map[string]string{}
	for k, v := range t.locals {
		m[k] = v
	}
	return m
}

func (t *parserTr) ifChain(x *ast.IfStmt, ind string, out *[]string, inFinish bool) {
	cs := t.cond(x.Cond)
	var rec func(k int, ind string)
	rec = func(k int, ind string) {
		if k == len(cs) {
			saved := t.saveLocals()
			t.stmts(x.Body.List, ind, out, inFinish)
			if len(x.Body.List) == 0 {
				*out = append(*out, ind+"pure ()")
			}
			t.locals = saved
			return
		}
		for _, p := range cs[k].pre {
			*out = append(*out, ind+p)
		}
		*out = append(*out, ind+"if "+cs[k].c+" then")
		rec(k+1, ind+"  ")
		*out = append(*out, ind+"else")
		t.elseOf(x, ind+"  ", out, inFinish)
	}
	rec(0, ind)
}

func genParserSrc(repo, outDir string) {
	f := parseFile(filepath.Join(repo, "parselogical/parselogical.go"))
	fn := findFunc(f, "parse", "ParseResult")
	if fn == nil {
		die("parser: parse not found")
	}
	var loop *ast.ForStmt
	var after []ast.Stmt
	for _, s := range fn.Body.List {
		if ls, ok := s.(*ast.LabeledStmt); ok && ls.Label.Name == "outer" {
			loop, _ = ls.Stmt.(*ast.ForStmt)
			continue
		}
		if loop != nil {
			after = append(after, s)
		}
	}
	if loop == nil {
		die("parser: the labelled loop `outer` was not found")
	}
	if squash(src(loop.Init)) != "i := 0" || squash(src(loop.Cond)) != "i <= len(message)" || squash(src(loop.Post)) != "i++" {
		die("parser: loop header changed: for %s; %s; %s", squash(src(loop.Init)), squash(src(loop.Cond)), squash(src(loop.Post)))
	}
	// the body before the switch: the TokenStart jump and the two look-ahead bytes
	want := []string{
		"if i < state.TokenStart { i = state.TokenStart - 1 continue }",
		"chr := byte('\\000')", "if i < len(message) { chr = message[i] }",
		"chrNext := byte('\\000')", "if i+1 < len(message) { chrNext = message[i+1] }",
	}
	if len(loop.Body.List) != len(want)+1 {
		die("parser: the loop body has %d statements, expected %d", len(loop.Body.List), len(want)+1)
	}
	for k, w := range want {
		if got := squash(src(loop.Body.List[k])); got != w {
			die("parser: loop statement %d is %q, expected %q", k, got, w)
		}
	}
	sw, ok := loop.Body.List[len(want)].(*ast.SwitchStmt)
	if !ok || squash(src(sw.Tag)) != "state.Current" || sw.Init != nil {
		die("parser: `switch state.Current` not found")
	}
	t := &parserTr{locals: map[string]string{}}
	var body []string
	seen := map[string]bool{}
	for _, c := range sw.Body.List {
		cc := c.(*ast.CaseClause)
		if len(cc.List) != 1 {
			die("parser: case with %d values", len(cc.List))
		}
		st, ok := psConst[squash(src(cc.List[0]))]
		if !ok || seen[st] {
			die("parser: unknown or repeated case %s", squash(src(cc.List[0])))
		}
		seen[st] = true
		body = append(body, "  | "+st+" =>")
		t.locals = map[string]string{}
		n := len(body)
		t.stmts(cc.Body, "    ", &body, false)
		if len(body) == n {
			body = append(body, "    pure ()")
		}
	}
	var fin []string
	t.locals = map[string]string{}
	t.stmts(after, "  ", &fin, true)

	// the code before the loop, statement by statement as text (log-free, comments dropped by the printer)
	var prologue []string
	for _, s := range fn.Body.List {
		if _, ok := s.(*ast.LabeledStmt); ok {
			break
		}
		if ifs, ok := s.(*ast.IfStmt); ok {
			prologue = append(prologue, "if "+squash(src(ifs.Cond))+" {")
			for _, q := range ifs.Body.List {
				if sw, ok := q.(*ast.SwitchStmt); ok {
					prologue = append(prologue, "switch "+squash(src(sw.Tag))+" {")
					for _, c := range sw.Body.List {
						cc := c.(*ast.CaseClause)
						lbl := "default:"
						if len(cc.List) > 0 {
							lbl = "case " + squash(src(cc.List[0])) + ":"
						}
						prologue = append(prologue, lbl)
						for _, st := range cc.Body {
							prologue = append(prologue, squash(src(st)))
						}
					}
					prologue = append(prologue, "}")
				} else {
					prologue = append(prologue, squash(src(q)))
				}
			}
			prologue = append(prologue, "}")
			continue
		}
		prologue = append(prologue, squash(src(s)))
	}
	var b strings.Builder
	b.WriteString("import PgBifrost.Model.Parser\n/-! GENERATED by tools/factgen from parselogical/parselogical.go (the loop's switch, the code after the loop). Do not edit. -/\n")
	b.WriteString("namespace PgBifrost.Gen.ParserSrc\nopen PgBifrost.Parser\n\n")
	b.WriteString("/-- the statements of `parse` before the loop, as written -/\ndef prologue : List String := [\n")
	for k, l := range prologue {
		sep := ","
		if k == len(prologue)-1 {
			sep = ""
		}
		b.WriteString("  " + leanStr(l) + sep + "\n")
	}
	b.WriteString("]\n\n")
	b.WriteString("/-- the code after the loop -/\ndef finish (p : Bool) (st : St) (res : Res) : Out := Id.run do\n")
	for _, l := range fin {
		b.WriteString(l + "\n")
	}
	b.WriteString("\n/-- `switch state.Current { … }` for index `i` with `chr = message[i]` and `nxt = message[i+1]` (NUL past the end) -/\n")
	b.WriteString("def stepC (msg : Bytes) (p : Bool) (i : Nat) (chr nxt : UInt8) (st : St) (res : Res) : StepR := Id.run do\n")
	b.WriteString("  let mut st := st\n  let mut res := res\n  let mut skip := false\n  match st.cur with\n")
	for _, l := range body {
		b.WriteString(l + "\n")
	}
	b.WriteString("  | _ => pure ()\n  return .cont skip st res\n\nend PgBifrost.Gen.ParserSrc\n")
	os.WriteFile(filepath.Join(outDir, "ParserSrc.lean"), []byte(b.String()), 0o644)
}
