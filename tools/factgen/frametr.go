package main

// 19. the framing part of Replicator.handleXLogData (replication/client/client.go) translated: Gen/FrameSrc.lean.
// The COMMIT block and the BEGIN block (up to the stamping of the message) as a function on the framing fields
// highestWalStart / sawCommit / firstIteration / deliveryOpen / transaction / timeBasedKey, returning whether the
// message goes on to be stamped and forwarded or the connection is closed and the message dropped.
// Theorem `framing_as_in_source` (C07) proves the client model's handling of a data message equal to it.

import (
	"go/ast"
	"os"
	"path/filepath"
	"strings"
)

type frameTr struct {
	b   strings.Builder
	ind int
}

func (t *frameTr) line(s string) { t.b.WriteString(strings.Repeat("  ", t.ind) + s + "\n") }

var frameAssign = map[string]string{
	"c.highestWalStart = wal.WalStart":        "f := { f with highest := walStart }",
	"c.sawCommit = true":                      "f := { f with sawCommit := true }",
	"c.sawCommit = false":                     "f := { f with sawCommit := false }",
	"c.deliveryOpen = false":                  "f := { f with openFlag := false }",
	"c.deliveryOpen = true":                   "f := { f with openFlag := true }",
	"c.firstIteration = true":                 "f := { f with firstIter := true }",
	"c.firstIteration = false":                "f := { f with firstIter := false }",
	"c.transaction = wal.Pr.Transaction":      "f := { f with txn := xid }",
	`c.timeBasedKey = strings.Join(strs, "")`: "f := { f with key := some (f.txn, nanos) }",
}

var frameCond = map[string]string{
	"c.highestWalStart < wal.WalStart":  "f.highest < walStart",
	"!c.sawCommit && !c.firstIteration": "!f.sawCommit && !f.firstIter",
}

func (t *frameTr) block(list []ast.Stmt) {
	strsParts := []string{}
	for _, s := range list {
		txt := squash(src(s))
		switch x := s.(type) {
		case *ast.AssignStmt:
			if l, ok := frameAssign[txt]; ok {
				if strings.Contains(txt, "strings.Join") {
					want := []string{"c.transaction", `"-"`, "strconv.FormatInt(time.Now().UnixNano(), 10)"}
					if len(strsParts) != len(want) {
						die("frame: the delivery key is joined from %d parts, expected 3", len(strsParts))
					}
					for i := range want {
						if strsParts[i] != want[i] {
							die("frame: delivery key part %d is %s, expected %s", i, strsParts[i], want[i])
						}
					}
				}
				t.line(l)
				continue
			}
			if strings.HasPrefix(txt, "strs = append(strs, ") {
				strsParts = append(strsParts, strings.TrimSuffix(strings.TrimPrefix(txt, "strs = append(strs, "), ")"))
				continue
			}
			die("frame: assignment outside the translator's subset: %s", txt)
		case *ast.DeclStmt:
			if txt != "var strs []string" {
				die("frame: unexpected declaration: %s", txt)
			}
		case *ast.IfStmt:
			c, ok := frameCond[squash(src(x.Cond))]
			if !ok || x.Init != nil {
				die("frame: condition outside the translator's subset: %s", squash(src(x.Cond)))
			}
			t.line("if " + c + " then")
			t.ind++
			t.block(x.Body.List)
			t.ind--
			if x.Else != nil {
				eb := x.Else.(*ast.BlockStmt)
				onlyStats := true
				for _, b := range eb.List {
					if _, isSend := b.(*ast.SendStmt); !isSend {
						onlyStats = false
					}
				}
				if !onlyStats {
					die("frame: else branch with something other than statistics")
				}
			}
		case *ast.SendStmt:
			if squash(src(x.Chan)) != "c.statsChan" {
				die("frame: unexpected send: %s", txt)
			}
		case *ast.ExprStmt:
			switch {
			case txt == "c.connManager.Close()":
				t.line("closed := true")
			case isLogCall(s):
			default:
				die("frame: statement outside the translator's subset: %s", txt)
			}
		case *ast.ReturnStmt:
			if txt != "return nil" {
				die("frame: unexpected return: %s", txt)
			}
			t.line("return (f, closed, false)")
		default:
			die("frame: statement outside the translator's subset: %s", txt)
		}
	}
}

func genFrameSrc(repo, outDir string) {
	f := parseFile(filepath.Join(repo, "replication/client/client.go"))
	fn := findFunc(f, "handleXLogData", "Replicator")
	if fn == nil {
		die("frame: handleXLogData not found")
	}
	t := &frameTr{ind: 1}
	nblocks := 0
	stamped := []string{}
	for _, s := range fn.Body.List {
		txt := squash(src(s))
		if ifs, ok := s.(*ast.IfStmt); ok && ifs.Init == nil && ifs.Else == nil {
			switch squash(src(ifs.Cond)) {
			case `wal.Pr.Operation == "COMMIT"`:
				if nblocks != 0 {
					die("frame: the COMMIT block is not first")
				}
				t.line("if isCommit then")
				t.ind++
				t.block(ifs.Body.List)
				t.ind--
				nblocks++
			case `wal.Pr.Operation == "BEGIN"`:
				if nblocks != 1 {
					die("frame: the BEGIN block does not follow the COMMIT block")
				}
				t.line("if isBegin then")
				t.ind++
				t.block(ifs.Body.List)
				t.ind--
				nblocks++
			}
			continue
		}
		if nblocks == 2 && (txt == "wal.Pr.Transaction = c.transaction" || txt == "wal.TimeBasedKey = c.timeBasedKey") {
			stamped = append(stamped, txt)
		}
	}
	if nblocks != 2 || len(stamped) != 2 {
		die("frame: COMMIT block, BEGIN block and the two stamping assignments were not all found (%d, %d)", nblocks, len(stamped))
	}
	var b strings.Builder
	b.WriteString("import PgBifrost.Model.Client\n/-! GENERATED by tools/factgen from Replicator.handleXLogData (COMMIT and BEGIN blocks). Do not edit. -/\n")
	b.WriteString("namespace PgBifrost.Gen.FrameSrc\nopen PgBifrost.Client\n\n")
	b.WriteString("structure Frame where\n  highest : Nat\n  sawCommit : Bool\n  firstIter : Bool\n  openFlag : Bool\n  txn : String\n  key : Key\n\n")
	b.WriteString("/-- (fields afterwards, the connection was closed, the message goes on to be stamped with\n    `c.transaction` / `c.timeBasedKey` and forwarded) -/\n")
	b.WriteString("def frame (f0 : Frame) (isCommit isBegin : Bool) (walStart : Nat) (xid : String) (nanos : Nat) : Frame × Bool × Bool := Id.run do\n")
	b.WriteString("  let mut f := f0\n  let mut closed := false\n")
	b.WriteString(t.b.String())
	b.WriteString("  return (f, closed, true)\n\nend PgBifrost.Gen.FrameSrc\n")
	os.WriteFile(filepath.Join(outDir, "FrameSrc.lean"), []byte(b.String()), 0o644)
}
