package main

// 11. transport/progress/ledger.go translated statement by statement into Lean (Gen/LedgerSrc.lean):
// `updateSeen`, `updateWritten`, `remove` as `do` blocks in the Option monad over the model's State, using
// the model's primitives for the two maps (`itemsGet/itemsSet/itemsDelete/itemsUpdate`, `curGet/curSet/curErase`).
// The theorems `ledger_update_seen_as_in_source` etc. (C01) prove the hand-written model functions equal to
// these; every ledger theorem is thereby about what the source says now. The translator handles exactly the
// statement forms the file uses and fails loudly on anything else.
//
// What is trusted in this translation: ordered_map.Get/Set/Delete and Go's map read/write/delete are the
// model's primitives (Set on an absent key appends, on a present key replaces in place); a `*LedgerEntry`
// obtained from the map is a pointer into it, so a field assignment through it updates the map entry in place.

import (
	"go/ast"
	"go/token"
	"os"
	"path/filepath"
	"strings"
)

type ledgerTr struct {
	what   string
	arg    string            // name of the parameter struct (seen / written) or "" for remove
	fields map[string]string // Go field of the parameter -> Lean variable
	entryF map[string]string // LedgerEntry field -> Lean field
	order  []string          // LedgerEntry fields in declaration order
	ptrs   map[string]string // local pointer variable -> Lean expr of the key it points at
	vals   map[string]bool   // locals bound to an Entry value (from Get)
	ptrKey string            // key of the entry the current `val` came from
	b      strings.Builder
}

func (t *ledgerTr) line(ind int, s string) { t.b.WriteString(strings.Repeat("  ", ind) + s + "\n") }

// value expressions
func (t *ledgerTr) val(e ast.Expr) string {
	switch x := e.(type) {
	case *ast.BasicLit:
		if x.Kind == token.INT {
			return x.Value
		}
	case *ast.Ident:
		if x.Name == "val" || x.Name == "timeBasedKey" {
			return x.Name
		}
	case *ast.SelectorExpr:
		if id, ok := x.X.(*ast.Ident); ok {
			if id.Name == t.arg {
				if v, ok := t.fields[x.Sel.Name]; ok {
					return v
				}
			}
			if t.vals[id.Name] {
				if f, ok := t.entryF[x.Sel.Name]; ok {
					return id.Name + "." + f
				}
			}
		}
	}
	die("%s: value expression outside the translator's subset: %s", t.what, src(e))
	return ""
}

func (t *ledgerTr) cond(e ast.Expr) string {
	switch x := e.(type) {
	case *ast.BinaryExpr:
		if x.Op == token.NEQ || x.Op == token.EQL {
			op := " != "
			if x.Op == token.EQL {
				op = " == "
			}
			return "(" + t.val(x.X) + op + t.val(x.Y) + ")"
		}
	}
	die("%s: condition outside the translator's subset: %s", t.what, src(e))
	return ""
}

func isCall(e ast.Expr, fn string) (*ast.CallExpr, bool) {
	c, ok := e.(*ast.CallExpr)
	if !ok {
		return nil, false
	}
	return c, src(c.Fun) == fn
}

func (t *ledgerTr) block(list []ast.Stmt, ind int) {
	var pendingEntry string // Lean literal of `entry := LedgerEntry{…}`
	for _, s := range list {
		switch x := s.(type) {
		case *ast.IfStmt:
			// if val, ok := M[k]; ok { … }      /  if val, ok := l.items.Get(k); !ok { … } else { … }
			if x.Init != nil {
				as, ok := x.Init.(*ast.AssignStmt)
				if !ok || len(as.Lhs) != 2 || len(as.Rhs) != 1 || src(as.Lhs[0]) != "val" || src(as.Lhs[1]) != "ok" {
					die("%s: unexpected if-init: %s", t.what, src(x.Init))
				}
				if ix, ok := as.Rhs[0].(*ast.IndexExpr); ok && src(ix.X) == "l.transactionToTimeBasedKey" {
					if src(x.Cond) != "ok" || x.Else != nil {
						die("%s: unexpected map-lookup if: %s", t.what, src(x.Cond))
					}
					t.line(ind, "match curGet s.cur "+t.val(ix.Index)+" with")
					t.line(ind, "| some val =>")
					t.block(x.Body.List, ind+1)
					t.line(ind, "| none => pure ()")
					continue
				}
				if c, ok := isCall(as.Rhs[0], "l.items.Get"); ok && len(c.Args) == 1 {
					if src(x.Cond) != "!ok" || x.Else == nil {
						die("%s: unexpected items.Get if: %s", t.what, src(x.Cond))
					}
					eb, ok := x.Else.(*ast.BlockStmt)
					if !ok {
						die("%s: else-if after items.Get", t.what)
					}
					key := t.val(c.Args[0])
					t.line(ind, "match itemsGet s.items "+key+" with")
					t.line(ind, "| none =>")
					t.block(x.Body.List, ind+1)
					t.line(ind, "| some val =>")
					t.ptrKey = key
					t.block(eb.List, ind+1)
					continue
				}
				die("%s: unexpected if-init: %s", t.what, src(x.Init))
			}
			if x.Else != nil {
				die("%s: unexpected else: %s", t.what, src(x.Cond))
			}
			// if !ok { return }  (remove)
			if src(x.Cond) == "!ok" && len(x.Body.List) == 1 {
				if r, ok := x.Body.List[0].(*ast.ReturnStmt); ok && len(r.Results) == 0 {
					die("%s: bare `if !ok { return }` must follow `val, ok := l.items.Get(…)` (handled there)", t.what)
				}
			}
			t.line(ind, "if "+t.cond(x.Cond)+" then")
			t.block(x.Body.List, ind+1)
		case *ast.ExprStmt:
			if c, ok := isCall(x.X, "l.items.Delete"); ok && len(c.Args) == 1 {
				t.line(ind, "s := { s with items := itemsDelete s.items "+t.val(c.Args[0])+" }")
				continue
			}
			if c, ok := isCall(x.X, "delete"); ok && len(c.Args) == 2 && src(c.Args[0]) == "l.transactionToTimeBasedKey" {
				t.line(ind, "s := { s with cur := curErase s.cur "+t.val(c.Args[1])+" }")
				continue
			}
			if c, ok := isCall(x.X, "l.items.Set"); ok && len(c.Args) == 2 && src(c.Args[1]) == "&entry" && pendingEntry != "" {
				t.line(ind, "s := { s with items := itemsSet s.items "+t.val(c.Args[0])+" "+pendingEntry+" }")
				continue
			}
			die("%s: statement outside the translator's subset: %s", t.what, src(x))
		case *ast.AssignStmt:
			// entry := LedgerEntry{ … }
			if len(x.Lhs) == 1 && src(x.Lhs[0]) == "entry" && x.Tok == token.DEFINE {
				cl, ok := x.Rhs[0].(*ast.CompositeLit)
				if !ok || src(cl.Type) != "LedgerEntry" || len(cl.Elts) != len(t.order) {
					die("%s: unexpected entry literal: %s", t.what, src(x.Rhs[0]))
				}
				parts := []string{}
				for i, el := range cl.Elts {
					if _, kv := el.(*ast.KeyValueExpr); kv {
						die("%s: keyed LedgerEntry literal (outside the subset)", t.what)
					}
					parts = append(parts, t.entryF[t.order[i]]+" := "+t.val(el))
				}
				pendingEntry = "{ " + strings.Join(parts, ", ") + " }"
				continue
			}
			// ledgerEntry := val.(*LedgerEntry)
			if len(x.Lhs) == 1 && x.Tok == token.DEFINE {
				if ta, ok := x.Rhs[0].(*ast.TypeAssertExpr); ok && src(ta.X) == "val" && src(ta.Type) == "*LedgerEntry" {
					name := src(x.Lhs[0])
					t.vals[name] = true
					t.ptrs[name] = t.ptrKey
					t.line(ind, "let "+name+" := val")
					continue
				}
			}
			// l.transactionToTimeBasedKey[t] = k
			if len(x.Lhs) == 1 && x.Tok == token.ASSIGN {
				if ix, ok := x.Lhs[0].(*ast.IndexExpr); ok && src(ix.X) == "l.transactionToTimeBasedKey" {
					t.line(ind, "s := { s with cur := curSet s.cur "+t.val(ix.Index)+" "+t.val(x.Rhs[0])+" }")
					continue
				}
			}
			// ledgerEntry.F = v   /   ledgerEntry.F += v   (through the pointer: updates the map entry in place)
			if len(x.Lhs) == 1 && (x.Tok == token.ASSIGN || x.Tok == token.ADD_ASSIGN) {
				if sel, ok := x.Lhs[0].(*ast.SelectorExpr); ok {
					if id, ok := sel.X.(*ast.Ident); ok && t.ptrs[id.Name] != "" {
						f, ok := t.entryF[sel.Sel.Name]
						if !ok {
							die("%s: unknown LedgerEntry field %s", t.what, sel.Sel.Name)
						}
						rhs := t.val(x.Rhs[0])
						if x.Tok == token.ADD_ASSIGN {
							rhs = "e." + f + " + " + rhs
						}
						t.line(ind, "s := { s with items := itemsUpdate s.items "+t.ptrs[id.Name]+" (fun e => { e with "+f+" := "+rhs+" }) }")
						continue
					}
				}
			}
			// val, ok := l.items.Get(k)  followed by  if !ok { return }   (remove): handled by the caller
			die("%s: assignment outside the translator's subset: %s", t.what, src(x))
		case *ast.ReturnStmt:
			switch {
			case len(x.Results) == 1 && src(x.Results[0]) == "nil":
				t.line(ind, "return s")
			case len(x.Results) == 1 && strings.HasPrefix(src(x.Results[0]), "fmt.Errorf("):
				t.line(ind, "failure")
			default:
				die("%s: return outside the translator's subset: %s", t.what, src(x))
			}
		default:
			die("%s: statement outside the translator's subset: %s", t.what, src(s))
		}
	}
}

func genLedgerSrc(repo, outDir string) {
	f := parseFile(filepath.Join(repo, "transport/progress/ledger.go"))
	// LedgerEntry fields in order
	var order []string
	for _, d := range f.Decls {
		gd, ok := d.(*ast.GenDecl)
		if !ok {
			continue
		}
		for _, sp := range gd.Specs {
			ts, ok := sp.(*ast.TypeSpec)
			if !ok || ts.Name.Name != "LedgerEntry" {
				continue
			}
			st, ok := ts.Type.(*ast.StructType)
			if !ok {
				die("ledger: LedgerEntry is not a struct")
			}
			for _, fl := range st.Fields.List {
				for _, n := range fl.Names {
					order = append(order, n.Name)
				}
			}
		}
	}
	entryF := map[string]string{"Transaction": "txn", "TimeBasedKey": "key", "CommitWalStart": "commit", "Count": "count", "TotalMsgs": "total"}
	if len(order) != 5 {
		die("ledger: LedgerEntry has %d fields, the model has 5", len(order))
	}
	for _, n := range order {
		if _, ok := entryF[n]; !ok {
			die("ledger: unknown LedgerEntry field %s", n)
		}
	}
	var out strings.Builder
	out.WriteString("import PgBifrost.Model.Ledger\n/-! GENERATED by tools/factgen: transport/progress/ledger.go translated statement by statement. Do not edit. -/\n")
	out.WriteString("namespace PgBifrost.Gen.LedgerSrc\nopen PgBifrost.Ledger\n\n")
	out.WriteString("/-- `ordered_map.Set`: replace in place when the key is present, append otherwise -/\n")
	out.WriteString("def itemsSet (items : List Entry) (k : Nat) (e : Entry) : List Entry :=\n  if items.any (·.key == k) then items.map (fun x => if x.key == k then e else x) else items ++ [e]\n\n")
	out.WriteString("/-- a field assignment through the `*LedgerEntry` stored under `k` -/\n")
	out.WriteString("def itemsUpdate (items : List Entry) (k : Nat) (f : Entry → Entry) : List Entry :=\n  items.map (fun x => if x.key == k then f x else x)\n\n")
	type fn struct {
		name, arg, sig string
		fields         map[string]string
	}
	for _, d := range []fn{
		{"updateSeen", "seen", "(s0 : State) (t k tot c : Nat)", map[string]string{"Transaction": "t", "TimeBasedKey": "k", "TotalMsgs": "tot", "CommitWalStart": "c"}},
		{"updateWritten", "written", "(s0 : State) (t k n : Nat)", map[string]string{"Transaction": "t", "TimeBasedKey": "k", "Count": "n"}},
	} {
		fd := findFunc(f, d.name, "Ledger")
		if fd == nil {
			die("ledger: %s not found", d.name)
		}
		tr := &ledgerTr{what: "Ledger." + d.name, arg: d.arg, fields: d.fields, entryF: entryF, order: order, ptrs: map[string]string{}, vals: map[string]bool{}}
		tr.block(fd.Body.List, 1)
		out.WriteString("/-- `Ledger." + d.name + "`; `none` = the function returned an error -/\n")
		out.WriteString("def " + d.name + " " + d.sig + " : Option State := do\n  let mut s := s0\n")
		out.WriteString(tr.b.String())
		out.WriteString("\n")
	}
	// remove: val, ok := l.items.Get(k); if !ok { return }; ledgerEntry := val.(*LedgerEntry); delete(M, ledgerEntry.Transaction); l.items.Delete(k)
	rm := findFunc(f, "remove", "Ledger")
	if rm == nil || len(rm.Body.List) < 3 {
		die("ledger: remove not found or too short")
	}
	a0, ok0 := rm.Body.List[0].(*ast.AssignStmt)
	i1, ok1 := rm.Body.List[1].(*ast.IfStmt)
	if !ok0 || !ok1 || src(a0) != "val, ok := l.items.Get(timeBasedKey)" || src(i1.Cond) != "!ok" || len(i1.Body.List) != 1 {
		die("ledger: remove does not start with `val, ok := l.items.Get(timeBasedKey); if !ok { return }`")
	}
	if r, ok := i1.Body.List[0].(*ast.ReturnStmt); !ok || len(r.Results) != 0 {
		die("ledger: remove: `if !ok` does not just return")
	}
	tr := &ledgerTr{what: "Ledger.remove", arg: "", fields: map[string]string{}, entryF: entryF, order: order, ptrs: map[string]string{}, vals: map[string]bool{}}
	tr.ptrKey = "timeBasedKey"
	tr.block(rm.Body.List[2:], 2)
	out.WriteString("/-- `Ledger.remove` -/\ndef remove (s0 : State) (timeBasedKey : Nat) : Option State := do\n  let mut s := s0\n")
	out.WriteString("  match itemsGet s.items timeBasedKey with\n  | none => return s\n  | some val =>\n")
	out.WriteString(tr.b.String())
	out.WriteString("    return s\n\nend PgBifrost.Gen.LedgerSrc\n")
	os.WriteFile(filepath.Join(outDir, "LedgerSrc.lean"), []byte(out.String()), 0o644)
}
